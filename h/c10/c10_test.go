// C10: Parse errors are well-formed and incompleteness is reported.
package c10

import (
	"errors"
	"fmt"
	"strings"
	"testing"

	"mvdan.cc/sh/v3/syntax"
	"pgregory.net/rapid"

	"verifh/gen"
	"verifh/sx"
	"verifh/vh"
)

func TestMain(m *testing.M) { vh.Main(m) }

type Case struct {
	Src  string `json:"src"`
	Lang string `json:"lang"`
	// Valid says the source was generated as a valid program: every cut at
	// a line boundary is then checked for the incompleteness clause.
	Valid bool `json:"valid"`
}

func genCase(t *rapid.T) Case {
	c := Case{Lang: gen.Lang(t)}
	l := gen.LangByName(c.Lang)
	if rapid.IntRange(0, 2).Draw(t, "kind") > 0 {
		c.Valid = true
		c.Src = gen.Valid(t, l)
	} else {
		c.Src = gen.Any(t, l)
	}
	return c
}

func lineCol(src string, off int) (line, col int) {
	line = 1 + strings.Count(src[:off], "\n")
	col = off - strings.LastIndexByte(src[:off], '\n')
	return
}

// errPos checks the position clause for one error.
func errPos(src string, err error) string {
	var pos syntax.Pos
	var pe syntax.ParseError
	var le syntax.LangError
	var qe syntax.QuoteError
	switch {
	case errors.As(err, &pe):
		pos = pe.Pos
	case errors.As(err, &le):
		pos = le.Pos
	case errors.As(err, &qe):
		return ""
	default:
		return fmt.Sprintf("error of unexpected type %T: %v", err, err)
	}
	if !pos.IsValid() {
		return fmt.Sprintf("error has an invalid position: %v", err)
	}
	off := int(pos.Offset())
	if off > len(src) {
		return fmt.Sprintf("error position offset %d is beyond the input (%d bytes): %v", off, len(src), err)
	}
	if pos.Line() != 0 && pos.Col() != 0 {
		l, c := lineCol(src, off)
		if int(pos.Line()) != l || int(pos.Col()) != c {
			// like Node.End, a position just past a newline may stay on
			// the previous line
			if off > 0 && src[off-1] == '\n' {
				pl, pc := lineCol(src, off-1)
				if int(pos.Line()) == pl && int(pos.Col()) == pc+1 {
					return ""
				}
			}
			return fmt.Sprintf("error position %s has offset %d, which is line %d column %d: %v", pos, off, l, c, err)
		}
	}
	return ""
}

func check(c Case) (res vh.Result) {
	if id := excluded(c); id != "" {
		return vh.Result{Skipped: true, Classes: []string{"excluded:" + id}}
	}
	_, err, pn := sx.Parse(c.Src, c.Lang, true)
	if pn != nil {
		return vh.Result{Skipped: true, Classes: []string{"parser-panic(C06)"}}
	}
	if err != nil {
		res.Classes = append(res.Classes, "whole:error")
		if d := errPos(c.Src, err); d != "" {
			return vh.Fail("%s", d)
		}
		res.Nontrivial = true
		return res
	}
	res.Classes = append(res.Classes, "whole:ok")
	if !c.Valid {
		return res
	}
	// every cut at a line boundary (the prefix includes the newline)
	for i := 0; i < len(c.Src); i++ {
		if c.Src[i] != '\n' || i == len(c.Src)-1 {
			continue
		}
		prefix := c.Src[:i+1]
		_, perr, pn := sx.Parse(prefix, c.Lang, true)
		if pn != nil {
			return vh.Fail("parsing the prefix of %d bytes panicked: %v", len(prefix), pn)
		}
		if perr == nil {
			continue
		}
		res.Nontrivial = true
		if d := errPos(prefix, perr); d != "" {
			return vh.Fail("prefix of %d bytes: %s", len(prefix), d)
		}
		if !syntax.IsIncomplete(perr) {
			return vh.Fail("the prefix ending at line %d of a valid program fails with an error that IsIncomplete does not report: %v\nprefix: %q", 1+strings.Count(prefix[:i], "\n"), perr, prefix)
		}
	}
	return res
}

func excluded(c Case) string { return "" }

var prop = vh.Prop[Case]{ID: "C10", Gen: genCase, Check: check, Text: func(c *Case) *string { return &c.Src }}

func TestC10(t *testing.T) { vh.Run(t, prop) }
