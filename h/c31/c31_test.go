// C31: Cancelling the context stops any program promptly.
package c31

import (
	"bytes"
	"context"
	"fmt"
	"io"
	"io/fs"
	"os"
	"path/filepath"
	"runtime"
	"strconv"
	"strings"
	"sync"
	"syscall"
	"testing"
	"time"

	"mvdan.cc/sh/v3/expand"
	"mvdan.cc/sh/v3/interp"
	"mvdan.cc/sh/v3/syntax"
	"pgregory.net/rapid"

	"verifh/oracle"
	"verifh/vh"
)

func TestMain(m *testing.M) { vh.Main(m) }

// Case is one blocking program and the moment its context is cancelled.
type Case struct {
	// Src is the program; Leaf and Wraps say how it was composed (labels for
	// the evidence histogram and for the exclusion classes).
	Src   string   `json:"src"`
	Leaf  string   `json:"leaf"`
	Wraps []string `json:"wraps,omitempty"`
	// Stdin: "ospipe" an os.Pipe whose write end stays open and silent;
	// "iopipe" an io.Pipe likewise (StdIO wraps it); "none" no stdin.
	Stdin string `json:"stdin"`
	// DelayMs is the time between the start of Run and cancel().
	DelayMs int `json:"delay_ms"`
}

const (
	killTimeout = 300 * time.Millisecond
	margin      = 3 * time.Second
	bound       = killTimeout + margin
)

// ---- generator ---------------------------------------------------------------

type leaf struct{ name, src string }

// programs that never finish on their own
var leaves = []leaf{
	{"loop-while", "while :; do :; done"},
	{"loop-while-true", "while true; do true; done"},
	{"loop-until", "until false; do :; done"},
	{"loop-cstyle", "for ((;;)); do :; done"},
	{"loop-cstyle-count", "for ((i=0; i>=0; i++)); do x=$i; done"},
	{"loop-arith-cond", "while ((1)); do :; done"},
	{"loop-test-cond", "while [[ -z '' ]]; do :; done"},
	{"loop-classic-test", "until [ 1 -gt 2 ]; do :; done"},
	{"loop-echo", "while :; do echo y; done"},
	{"loop-cmdsubst", "while :; do x=$(echo a); done"},
	{"loop-herestring", "while :; do read y <<< z; done"},
	{"loop-subshell", "while :; do (:); done"},
	{"loop-func-call", "g() { :; }\nwhile :; do g; done"},
	{"loop-in-func", "g() { while :; do :; done; }\ng"},
	{"loop-nested-funcs", "g() { h; }\nh() { while :; do for i in 1 2 3; do :; done; done; }\ng"},
	{"loop-inner-break", "while :; do while :; do break; done; done"},
	{"loop-case-continue", "while :; do case x in x) continue ;; esac; done"},
	{"loop-regex", "while :; do [[ a =~ a ]]; done"},
	{"loop-array", "a=()\nwhile :; do a=(1 2 3); b=${a[1]}; done"},
	{"loop-pipe-builtin", "while :; do echo a | read b; done"},
	{"loop-eval", "while :; do eval ':'; done"},
	{"loop-source", ". ./blockfile"},
	{"loop-enoexec-script", "./loop"},
	{"read", "read x"},
	{"read-r", "IFS= read -r x y"},
	{"read-s", "read -s x"},
	{"read-p", "read -p prompt x"},
	{"read-a", "read -a arr"},
	{"read-loop", "while read line; do :; done"},
	{"select", "select v in a b; do :; done"},
	{"mapfile", "mapfile arr"},
	{"readarray-t", "readarray -t arr"},
	{"sleep", "sleep 100"},
	{"sleep-then", "sleep 100; echo no"},
	{"sleep-command", "command sleep 100"},
	{"sleep-exec", "exec sleep 100"},
	{"sleep-and", "sleep 100 && :"},
	{"sleep-or", "sleep 100 || :"},
	{"sleep-redirected", "sleep 100 > /dev/null 2>&1"},
	{"sleep-loop-until", "until false; do sleep 100; done"},
	{"sleep-loop-while", "while sleep 100; do :; done"},
	{"sleep-loop-for", "for i in 1 2 3; do sleep 100; done"},
	{"sleep-short-loop", "while :; do sleep 0.01; done"},
	{"cat-stdin", "cat"},
	{"cat-dash", "cat - > /dev/null"},
	{"tail-f", "tail -f lines"},
}

type wrap struct {
	name string
	f    func(b string) string
}

func shq(s string) string { return "'" + strings.ReplaceAll(s, "'", `'\''`) + "'" }

// block groups a program so that it can be followed by an operator.
func block(b string) string { return "{\n" + b + "\n}" }

var wraps = []wrap{
	{"bg-wait", func(b string) string { return block(b) + " &\nwait" }},
	{"bg-wait-id", func(b string) string { return block(b) + " &\nwait $!" }},
	{"bg-wait-g1", func(b string) string { return block(b) + " &\nwait g1" }},
	{"bg-two-wait", func(b string) string { return block(b) + " &\nsleep 100 &\nwait" }},
	{"bg-subshell-wait", func(b string) string { return "(\n" + b + "\n) &\nwait" }},
	{"bg-then-loop", func(b string) string { return block(b) + " &\nwhile :; do :; done" }},
	{"procsubst-in-cat", func(b string) string { return "cat <(\n" + b + "\n)" }},
	{"procsubst-in-wait", func(b string) string { return ": <(\n" + b + "\n)\nwait" }},
	{"procsubst-out-wait", func(b string) string { return ": >(\n" + b + "\n)\nwait" }},
	{"procsubst-out-write-wait", func(b string) string { return "echo hi > >(\n" + b + "\n)\nwait" }},
	{"procsubst-redirect", func(b string) string { return "cat < <(\n" + b + "\n)" }},
	{"procsubst-read", func(b string) string { return "read q < <(\n" + b + "\n)" }},
	{"procsubst-read-loop", func(b string) string { return "while read q; do :; done < <(\n" + b + "\n)" }},
	{"procsubst-two", func(b string) string { return "cat <(\n" + b + "\n) <(sleep 100)" }},
	{"pipe-left", func(b string) string { return block(b) + " | cat" }},
	{"pipe-right", func(b string) string { return "sleep 100 | " + block(b) }},
	{"pipe-right-of-echo", func(b string) string { return "echo a | " + block(b) }},
	{"pipe-both", func(b string) string { return block(b) + " | " + block(b) }},
	{"pipe-three", func(b string) string { return block(b) + " | cat | " + block(b) }},
	{"pipe-all", func(b string) string { return block(b) + " |& cat" }},
	{"pipe-into-colon", func(b string) string { return block(b) + " | :" }},
	{"pipe-into-loop", func(b string) string { return block(b) + " | while read q; do :; done" }},
	{"cmdsubst-assign", func(b string) string { return "x=$(\n" + b + "\n)" }},
	{"cmdsubst-quoted", func(b string) string { return "echo \"$(\n" + b + "\n)\"" }},
	{"cmdsubst-arg", func(b string) string { return ": $(\n" + b + "\n)" }},
	{"cmdsubst-default", func(b string) string { return "echo ${nosuch:-$(\n" + b + "\n)}" }},
	{"cmdsubst-test", func(b string) string { return "[[ -n $(\n" + b + "\n) ]]" }},
	{"cmdsubst-for", func(b string) string { return "for i in $(\n" + b + "\n); do :; done" }},
	{"cmdsubst-case", func(b string) string { return "case $(\n" + b + "\n) in x) ;; esac" }},
	{"cmdsubst-array", func(b string) string { return "arr=($(\n" + b + "\n))" }},
	{"cmdsubst-herestring", func(b string) string { return "cat <<< $(\n" + b + "\n)" }},
	{"cmdsubst-in-bg", func(b string) string { return "x=$(\n" + b + "\n) &\nwait" }},
	{"group", func(b string) string { return block(b) }},
	{"subshell", func(b string) string { return "(\n" + b + "\n)" }},
	{"function", func(b string) string { return "f() {\n" + b + "\n}\nf" }},
	{"eval", func(b string) string { return "eval " + shq(b) }},
	{"if-cond", func(b string) string { return "if\n" + b + "\nthen :; fi" }},
	{"while-cond", func(b string) string { return "while\n" + b + "\ndo :; done" }},
	{"for-body", func(b string) string { return "for k in 1 2 3; do\n" + b + "\ndone" }},
	{"until-body", func(b string) string { return "until false; do\n" + b + "\ndone" }},
	{"after-stmt", func(b string) string { return "echo start\n" + b + "\necho end" }},
	{"exit-trap", func(b string) string { return "trap " + shq(b) + " EXIT\nexit 3" }},
	{"err-trap", func(b string) string { return "trap " + shq(b) + " ERR\nfalse" }},
	{"errexit", func(b string) string { return "set -e\n" + b }},
	{"negated", func(b string) string { return "! " + block(b) }},
	{"timed", func(b string) string { return "time " + block(b) }},
	{"redirected", func(b string) string { return block(b) + " > /dev/null 2>&1" }},
	{"stdin-from-file", func(b string) string { return block(b) + " < lines" }},
	{"and-or", func(b string) string { return block(b) + " && : || :" }},
	{"case-body", func(b string) string { return "case x in\nx)\n" + b + "\n;;\nesac" }},
}

func genCase(t *rapid.T) Case {
	l := leaves[rapid.IntRange(0, len(leaves)-1).Draw(t, "leaf")]
	c := Case{Src: l.src, Leaf: l.name}
	for i, n := 0, rapid.SampledFrom([]int{0, 1, 1, 1, 2, 2, 3}).Draw(t, "nwrap"); i < n; i++ {
		w := wraps[rapid.IntRange(0, len(wraps)-1).Draw(t, "wrap")]
		c.Src = w.f(c.Src)
		c.Wraps = append(c.Wraps, w.name)
	}
	c.Src += "\n"
	c.Stdin = rapid.SampledFrom([]string{"ospipe", "ospipe", "ospipe", "iopipe", "none"}).Draw(t, "stdin")
	c.DelayMs = rapid.SampledFrom([]int{0, 0, 1, 2, 5, 10, 20, 30, 50, 80, 120, 200, 300}).Draw(t, "delay")
	if rapid.IntRange(0, 3).Draw(t, "anydelay") == 0 {
		c.DelayMs = rapid.IntRange(0, 300).Draw(t, "delayms")
	}
	return c
}

// ---- oracle --------------------------------------------------------------------

var allowedTools = map[string]bool{"sleep": true, "cat": true, "tail": true, "true": true, "false": true, "./loop": true}

type lockedBuf struct {
	mu sync.Mutex
	b  bytes.Buffer
}

func (l *lockedBuf) Write(p []byte) (int, error) {
	l.mu.Lock()
	defer l.mu.Unlock()
	if l.b.Len() < 1<<16 {
		l.b.Write(p)
	}
	return len(p), nil
}

// obs is what one execution of a case showed.
type obs struct {
	harness      string // the harness could not run the case
	parse        string
	panicked     string
	beforeCancel bool          // Run had returned before cancel fired
	missed       bool          // Run had not returned bound after cancel
	elapsed      time.Duration // cancel -> return
	err          error
	dump         string // goroutines of the interpreter when the bound passed
	lateReturn   bool   // Run came back after the harness closed stdin, released FIFOs, killed children
}

func runOnce(c Case) (o obs) {
	file, err := syntax.NewParser().Parse(strings.NewReader(c.Src), "")
	if err != nil {
		o.parse = err.Error()
		return o
	}
	dir, err := oracle.NewDir()
	if err != nil {
		o.harness = err.Error()
		return o
	}
	defer oracle.RemoveDir(dir)
	os.Mkdir(filepath.Join(dir, "home"), 0o755)
	os.WriteFile(filepath.Join(dir, "lines"), []byte("l1\nl2\nl3\n"), 0o644)
	os.WriteFile(filepath.Join(dir, "blockfile"), []byte("while :; do :; done\n"), 0o644)
	// no "#!": the kernel answers ENOEXEC and the exec handler runs it itself
	os.WriteFile(filepath.Join(dir, "loop"), []byte("while :; do :; done\n"), 0o755)
	binDir, _ := oracle.BinDir()

	var closers []io.Closer
	var stdin io.Reader
	switch c.Stdin {
	case "ospipe":
		pr, pw, err := os.Pipe()
		if err != nil {
			o.harness = err.Error()
			return o
		}
		stdin = pr
		closers = append(closers, pw, pr)
	case "iopipe":
		pr, pw := io.Pipe()
		stdin = pr
		closers = append(closers, pw, pr)
	}
	cleanup := func() {
		for _, cl := range closers {
			cl.Close()
		}
		releaseFifos(dir)
		killChildren()
	}

	defOpen := interp.DefaultOpenHandler()
	open := func(ctx context.Context, path string, flag int, perm os.FileMode) (io.ReadWriteCloser, error) {
		abs := path
		if !filepath.IsAbs(abs) {
			abs = filepath.Join(interp.HandlerCtx(ctx).Dir, abs)
		}
		abs = filepath.Clean(abs)
		if abs == "/dev/null" || strings.HasPrefix(abs, dir+"/") {
			return defOpen(ctx, path, flag, perm)
		}
		return nil, &os.PathError{Op: "open", Path: path, Err: syscall.EACCES}
	}
	def := interp.DefaultExecHandler(killTimeout)
	execMW := func(next interp.ExecHandlerFunc) interp.ExecHandlerFunc {
		return func(ctx context.Context, args []string) error {
			if !allowedTools[args[0]] {
				return interp.ExitStatus(127)
			}
			return def(ctx, args)
		}
	}
	var out, errb lockedBuf
	r, err := interp.New(
		interp.Dir(dir),
		interp.Env(expand.ListEnviron("PATH="+binDir, "HOME="+filepath.Join(dir, "home"), "LC_ALL=C.UTF-8", "TMPDIR="+dir)),
		interp.StdIO(stdin, &out, &errb),
		interp.OpenHandler(open),
		interp.ExecHandlers(execMW),
	)
	if err != nil {
		cleanup()
		o.harness = err.Error()
		return o
	}
	ctx, cancel := context.WithCancel(context.Background())
	defer cancel()
	type ret struct {
		err error
		pan string
	}
	done := make(chan ret, 1)
	go func() {
		var rt ret
		defer func() {
			if e := recover(); e != nil {
				rt.pan = fmt.Sprint(e)
			}
			done <- rt
		}()
		rt.err = r.Run(ctx, file)
	}()
	time.Sleep(time.Duration(c.DelayMs) * time.Millisecond)
	select {
	case rt := <-done:
		o.beforeCancel, o.err, o.panicked = true, rt.err, rt.pan
		cancel()
		cleanup()
		return o
	default:
	}
	cancel()
	t0 := time.Now()
	timer := time.NewTimer(bound)
	defer timer.Stop()
	select {
	case rt := <-done:
		o.elapsed, o.err, o.panicked = time.Since(t0), rt.err, rt.pan
		cleanup()
		return o
	case <-timer.C:
	}
	// double check: the timer may have fired late itself on a loaded machine
	select {
	case rt := <-done:
		o.elapsed, o.err, o.panicked = time.Since(t0), rt.err, rt.pan
		cleanup()
		return o
	default:
	}
	o.missed = true
	o.elapsed = time.Since(t0)
	o.dump = interpGoroutines()
	cleanup()
	select {
	case <-done:
		o.lateReturn = true
	case <-time.After(2 * time.Second):
	}
	return o
}

// interpGoroutines dumps the goroutines that are inside the interpreter.
func interpGoroutines() string {
	buf := make([]byte, 1<<20)
	buf = buf[:runtime.Stack(buf, true)]
	var sb strings.Builder
	for _, g := range strings.Split(string(buf), "\n\n") {
		if strings.Contains(g, "mvdan.cc/sh/v3/") && !strings.Contains(g, "c31.interpGoroutines") {
			if sb.Len() > 9000 {
				sb.WriteString("…\n")
				break
			}
			sb.WriteString(g)
			sb.WriteString("\n\n")
		}
	}
	return sb.String()
}

// releaseFifos unblocks goroutines that sit in open(2) on a FIFO of a process
// substitution that nobody opened.
func releaseFifos(dir string) {
	filepath.WalkDir(dir, func(p string, e fs.DirEntry, err error) error {
		if err == nil && e.Type()&fs.ModeNamedPipe != 0 {
			if fd, err := syscall.Open(p, syscall.O_RDWR|syscall.O_NONBLOCK, 0); err == nil {
				time.Sleep(2 * time.Millisecond)
				syscall.Close(fd)
			}
		}
		return nil
	})
}

// killChildren kills every direct child process of this test process (the
// external commands of a case that did not stop).
func killChildren() int {
	me := os.Getpid()
	ents, _ := os.ReadDir("/proc")
	n := 0
	for _, e := range ents {
		pid, err := strconv.Atoi(e.Name())
		if err != nil || pid == me {
			continue
		}
		b, err := os.ReadFile("/proc/" + e.Name() + "/stat")
		if err != nil {
			continue
		}
		// pid (comm) state ppid ...
		s := string(b)
		i := strings.LastIndexByte(s, ')')
		if i < 0 {
			continue
		}
		f := strings.Fields(s[i+1:])
		if len(f) < 2 {
			continue
		}
		if ppid, _ := strconv.Atoi(f[1]); ppid == me && f[0] != "Z" {
			if syscall.Kill(pid, syscall.SIGKILL) == nil {
				n++
			}
		}
	}
	return n
}

func bucket(d time.Duration) string {
	switch {
	case d < 10*time.Millisecond:
		return "<10ms"
	case d < 100*time.Millisecond:
		return "<100ms"
	case d < killTimeout+100*time.Millisecond:
		return "<400ms"
	case d < time.Second:
		return "<1s"
	default:
		return ">=1s"
	}
}

func check(c Case) (res vh.Result) {
	if os.Getenv("VERIF_REPLAY") == "" {
		if id := excluded(c); id != "" {
			return vh.Result{Skipped: true, Classes: []string{"excluded:" + id}}
		}
	}
	o := runOnce(c)
	res.Classes = append(res.Classes, "leaf:"+c.Leaf, "stdin:"+c.Stdin, fmt.Sprintf("wraps:%d", len(c.Wraps)))
	for _, w := range c.Wraps {
		res.Classes = append(res.Classes, "wrap:"+w)
	}
	switch {
	case o.harness != "":
		return vh.Result{Skipped: true, Classes: []string{"harness-error"}}
	case o.parse != "":
		return vh.Result{Skipped: true, Classes: []string{"parse-fail"}}
	case o.panicked != "":
		return vh.Fail("Run panicked: %s", o.panicked)
	case o.beforeCancel:
		res.Classes = append(res.Classes, "returned-before-cancel")
		return res
	}
	res.Nontrivial = true
	if !o.missed {
		res.Classes = append(res.Classes, "stop-time:"+bucket(o.elapsed))
		switch {
		case o.err == nil:
			// the repository's own TestRunnerContext accepts a nil error
			res.Classes = append(res.Classes, "returned:nil")
		case o.err == context.Canceled:
			res.Classes = append(res.Classes, "returned:context.Canceled")
		default:
			res.Classes = append(res.Classes, "returned:other-error")
		}
		return res
	}
	// a miss counts only if the same case misses three more times, run alone
	// one after the other (the machine is shared: one late return proves nothing)
	first := o
	for i := 0; i < 3; i++ {
		o2 := runOnce(c)
		if !o2.missed {
			res.Classes = append(res.Classes, "slow-once")
			return res
		}
	}
	late := "Run returned only after the harness closed stdin, opened the FIFOs and killed the child processes"
	if !first.lateReturn {
		late = "Run had still not returned 2 s after the harness closed stdin, opened the FIFOs and killed the child processes"
	}
	return vh.Fail("Run did not return within %v (kill timeout %v + %v) after cancel (delay %d ms), 4 times out of 4 (the last 3 run alone); %s; stuck in %s\nprogram:\n%s\ngoroutines inside the interpreter when the bound passed:\n%s",
		bound, killTimeout, margin, c.DelayMs, late, stuckIn(first.dump), c.Src, first.dump)
}

// stuckIn names where the interpreter's goroutines wait (for the failure kind).
func stuckIn(dump string) string {
	seen := map[string]bool{}
	var out []string
	for _, g := range strings.Split(dump, "\n\n") {
		lines := strings.Split(g, "\n")
		for _, l := range lines[1:] {
			if strings.HasPrefix(l, "mvdan.cc/sh/v3/") {
				f := strings.TrimPrefix(l, "mvdan.cc/sh/v3/")
				if i := strings.LastIndexByte(f, '('); i > 0 {
					f = f[:i]
				}
				if !seen[f] {
					seen[f] = true
					out = append(out, f)
				}
				break
			}
		}
	}
	if len(out) > 4 {
		out = out[:4]
	}
	return strings.Join(out, ", ")
}

var prop = vh.Prop[Case]{ID: "C31", Gen: genCase, Check: check}

func TestC31(t *testing.T) { vh.Run(t, prop) }

// TestC31Enum runs every leaf on its own and under every single wrapper with
// a fixed cancel delay (all pairs).
func TestC31Enum(t *testing.T) {
	i, n := vh.Shard()
	k := 0
	for _, l := range leaves {
		for wi := -1; wi < len(wraps); wi++ {
			c := Case{Src: l.src, Leaf: l.name, Stdin: "ospipe", DelayMs: 40}
			if wi >= 0 {
				c.Src = wraps[wi].f(c.Src)
				c.Wraps = []string{wraps[wi].name}
			}
			c.Src += "\n"
			if k%n == i {
				vh.Each(t, prop, c)
			}
			k++
		}
	}
}

// TestC31Probe runs the programs of VERIF_C31_PROBE (separated by a line
// "----") once each with an os.Pipe stdin and a 100 ms delay; development aid.
func TestC31Probe(t *testing.T) {
	src := os.Getenv("VERIF_C31_PROBE")
	if src == "" {
		t.Skip("no probe")
	}
	for _, p := range strings.Split(src, "\n----\n") {
		o := runOnce(Case{Src: p + "\n", Stdin: "ospipe", DelayMs: 100})
		fmt.Printf("PROBE %q -> before=%v missed=%v late=%v elapsed=%v err=%v stuck=%s\n", p, o.beforeCancel, o.missed, o.lateReturn, o.elapsed.Round(time.Millisecond), o.err, stuckIn(o.dump))
	}
}
