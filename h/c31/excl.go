package c31

import (
	"regexp"
	"slices"
	"strings"

	"verifh/vh"
)

// Exclusion classes of the confirmed, listed defects; predicates over the case
// (how the program was composed and its text), never over the outcome.

var (
	readsStdin  = regexp.MustCompile(`(^|[^A-Za-z0-9_./-])(read|select)([^A-Za-z0-9_]|$)`)
	mapfileWord = regexp.MustCompile(`(^|[^A-Za-z0-9_./-])(mapfile|readarray)([^A-Za-z0-9_]|$)`)
	externalCmd = regexp.MustCompile(`(^|[^A-Za-z0-9_./-])(sleep|cat|tail|\./loop)([^A-Za-z0-9_]|$)`)
)

func excluded(c Case) string {
	// mapfile/readarray read standard input through a bufio.Scanner without
	// any tie to the context
	if vh.Excluded("C31-mapfile-ignores-cancel") && mapfileWord.MatchString(c.Src) {
		return "C31-mapfile-ignores-cancel"
	}
	// `wait` after a process substitution handed to a command that never opens
	// it (here the ":" builtin): the goroutine of the substitution sits in
	// open(2) on the FIFO for ever and wait waits for it
	if vh.Excluded("C31-wait-unopened-procsubst") &&
		(slices.Contains(c.Wraps, "procsubst-in-wait") || slices.Contains(c.Wraps, "procsubst-out-wait") ||
			(strings.Contains(c.Src, ": <(") || strings.Contains(c.Src, ": >(")) && strings.Contains(c.Src, "wait")) {
		return "C31-wait-unopened-procsubst"
	}
	// a builtin read of standard input (read, select) in a program that also
	// starts an external command: os/exec puts the inherited stdin file into
	// blocking mode (File.Fd), after which SetReadDeadline cannot interrupt
	// the builtin's read
	if vh.Excluded("C31-read-after-exec-blocking-stdin") && c.Stdin != "none" &&
		readsStdin.MatchString(c.Src) && externalCmd.MatchString(c.Src) {
		return "C31-read-after-exec-blocking-stdin"
	}
	return ""
}
