package grun

import (
	"fmt"
	"os"
	"testing"

	"pgregory.net/rapid"
)

// TestSample prints a few generated programs (development aid).
func TestSample(t *testing.T) {
	if os.Getenv("VERIF_SAMPLE") == "" {
		t.Skip("VERIF_SAMPLE not set")
	}
	simp := os.Getenv("VERIF_SAMPLE") == "simp"
	g := rapid.Custom(func(t *rapid.T) string { return Program(t, Opts{Simp: simp}) })
	for i := 0; i < 6; i++ {
		fmt.Printf("#################### %d\n%s", i, g.Example(i))
	}
}
