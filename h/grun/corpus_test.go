package grun

import (
	"fmt"
	"os"
	"testing"
)

// TestCorpusSize prints how many harvested strings survive the filters
// (development aid).
func TestCorpusSize(t *testing.T) {
	if os.Getenv("VERIF_SAMPLE") == "" {
		t.Skip("VERIF_SAMPLE not set")
	}
	ps := CorpusPrograms()
	mut := 0
	for _, p := range ps {
		f, _ := Parse(p)
		if len(mutable(f)) > 0 {
			mut++
		}
	}
	fmt.Printf("corpus programs: %d, with something to mutate: %d\n", len(ps), mut)
}
