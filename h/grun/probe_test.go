package grun

import (
	"bufio"
	"fmt"
	"os"
	"strings"
	"testing"

	"verifh/oracle"
)

// TestProbe is a development aid: VERIF_PROBE names a file of scripts
// separated by lines "----"; each is run under bash and the interpreter and
// both outcomes are printed.
func TestProbe(t *testing.T) {
	p := os.Getenv("VERIF_PROBE")
	if p == "" {
		t.Skip("VERIF_PROBE not set")
	}
	b, err := os.ReadFile(p)
	if err != nil {
		t.Fatal(err)
	}
	var scripts []string
	var cur strings.Builder
	sc := bufio.NewScanner(strings.NewReader(string(b)))
	for sc.Scan() {
		if sc.Text() == "----" {
			scripts = append(scripts, cur.String())
			cur.Reset()
			continue
		}
		cur.WriteString(sc.Text() + "\n")
	}
	if strings.TrimSpace(cur.String()) != "" {
		scripts = append(scripts, cur.String())
	}
	for _, s := range scripts {
		d1, _ := oracle.NewDir()
		d2, _ := oracle.NewDir()
		rb := oracle.RunShell(s, oracle.Opts{Dir: d1})
		ri := oracle.RunInterp(s, oracle.InterpOpts{Dir: d2})
		oracle.RemoveDir(d1)
		oracle.RemoveDir(d2)
		same := "SAME"
		if string(rb.Stdout) != string(ri.Stdout) || rb.Status != ri.Status {
			same = "DIFF"
		}
		fmt.Printf("=== %s\n%s  bash:   %d %q\n  interp: %d %q", same, s, rb.Status, rb.Stdout, ri.Status, ri.Stdout)
		if ri.ParseErr != nil || ri.Panic != nil || len(ri.Denied) > 0 {
			fmt.Printf(" parse=%v panic=%v denied=%v", ri.ParseErr, ri.Panic, ri.Denied)
		}
		if same == "DIFF" {
			fmt.Printf("\n  bash-stderr: %q\n  interp-stderr: %q", rb.Stderr, ri.Stderr)
		}
		fmt.Println()
	}
}
