package grun

import (
	"fmt"
	"os"
	"sort"
	"testing"

	"pgregory.net/rapid"
)

// TestDistribution prints how often each feature occurs in generated
// programs (development aid).
func TestDistribution(t *testing.T) {
	if os.Getenv("VERIF_SAMPLE") == "" {
		t.Skip("VERIF_SAMPLE not set")
	}
	cnt := map[string]int{}
	n, bytes, bad := 0, 0, 0
	rapid.Check(t, func(rt *rapid.T) {
		src := Program(rt, Opts{Simp: os.Getenv("VERIF_SAMPLE") == "simp"})
		n++
		bytes += len(src)
		f, err := Parse(src)
		if err != nil {
			bad++
			return
		}
		for _, ft := range Features(f) {
			cnt[ft]++
		}
		if Hazard(src, f) != "" {
			cnt["HAZARD"]++
		}
	})
	var ks []string
	for k := range cnt {
		ks = append(ks, k)
	}
	sort.Strings(ks)
	fmt.Printf("programs=%d avg bytes=%d parse failures=%d\n", n, bytes/n, bad)
	for _, k := range ks {
		fmt.Printf("  %-12s %3d%%\n", k, cnt[k]*100/n)
	}
}
