// Package grun generates RUNNABLE shell programs over the language the
// interpreter supports (G-run of DESIGN.md 1.6): every program terminates
// (each loop has its own counter and a literal bound, functions only call
// functions defined before them, a static step budget caps the product of
// loop bounds), is deterministic (no $RANDOM, $$, dates, background jobs,
// races between pipeline stages and files) and reports on standard output.
//
// A program is built as a small typed tree (statements, conditions, words)
// while an abstract state is tracked: which names hold integers, plain words,
// arbitrary strings or indexed arrays, which functions exist and what they
// cost, the loop depth of the current shell context, whether the code is in a
// function, a pipeline stage or a command substitution. The tree renders to
// shell text; rapid shrinks the draws, hence the structure.
//
// The generator stays away from the areas of the confirmed expansion/format
// findings (C20-C25): no custom IFS, no anchored replacement, no default
// operators on lists, "${a[@]}" only as a whole word, patterns never quoted
// and never matching the empty string, printf with %s/%d only, echo without
// options and with a literal first argument, arithmetic over names that hold
// canonical integers only, no division by a non-literal, no backslashes in
// values.
package grun

import (
	"fmt"
	"strconv"
	"strings"
	"sync"

	"pgregory.net/rapid"

	"verifh/vh"
)

// Opts configures Program.
type Opts struct {
	// Simp biases the generator towards the constructs syntax.Simplify
	// rewrites (C04): $x and ${x} and redundant parentheses inside
	// arithmetic, substring expansions with arithmetic operands, nested
	// subshells, [[ ]] with quoted parameters, negations and parentheses,
	// double-quoted literals with escapes, $"..." strings.
	Simp bool
	// Noise varies the layout of the rendered text (indentation unit,
	// "then"/"do" on their own line, blank lines, full-line and trailing
	// comments) so that formatting has something to change (C03).
	Noise bool
}

// Ids of the C26 findings whose syntactic class the generator avoids by
// construction while they are listed as known.
const (
	FindLastPipe   = "C26-last-pipeline-stage-in-parent"
	FindErrTrapFn  = "C26-err-trap-inherited"
	FindSubExitTrp = "C26-exit-trap-in-subshell"
	FindWhileStat  = "C26-while-status-after-failing-body"
	FindTestPrec   = "C26-test-operator-precedence"
	FindJumpRest   = "C26-statements-run-after-break"
	FindErrexitCmp = "C26-errexit-compound-after-ignored-failure"
	FindSubstStat  = "C26-status-after-command-substitution"
	FindSubReturn  = "C26-return-in-subshell"
	FindErrexitNeg = "C26-errexit-under-negation"
	FindErrexitSub = "C26-errexit-ignored-context-lost-in-subshell"
	FindErrTrapRep = "C26-err-trap-repeated"
	FindForVarRet  = "C26-for-continues-after-return"
	FindExitTrapRd = "C26-exit-trap-after-redirections-undone"
)

// ---------------------------------------------------------------------------
// tree

type node interface{ str(ind string) string }

// layout holds the rendering choices of one Program call. The per-line
// choices come from a small deterministic generator whose seed is a rapid
// draw (seed 0 = canonical layout), so the text is a function of the draws.
type layout struct {
	unit           string // one indentation level
	thenNL, doNL   bool
	blank, comment int // percentages
	state          uint32
}

var (
	layMu sync.Mutex
	lay   = &layout{unit: "\t"}
)

func (l *layout) roll(pct int) bool {
	if pct == 0 {
		return false
	}
	l.state = l.state*1664525 + 1013904223
	return int(l.state>>16)%100 < pct
}

func deeper(ind string) string { return ind + lay.unit }

func thenSep(ind string) string {
	if lay.thenNL {
		return "\n" + ind + "then\n"
	}
	return "; then\n"
}

func doSep(ind string) string {
	if lay.doNL {
		return "\n" + ind + "do\n"
	}
	return "; do\n"
}

// text is a leaf rendered as is.
type text string

func (t text) str(string) string { return string(t) }

// simple is a simple command: words plus redirections.
type simple struct {
	words  []string
	redirs []string
}

func (c simple) str(string) string {
	return strings.Join(append(append([]string{}, c.words...), c.redirs...), " ")
}

type list []node

// block renders statements one per line at the given indentation.
func (l list) block(ind string) string {
	var sb strings.Builder
	for _, n := range l {
		if lay.roll(lay.blank) {
			sb.WriteByte('\n')
		}
		if lay.roll(lay.comment) {
			sb.WriteString(ind + "# note: it's \"a\" $comment `here`\n")
		}
		sb.WriteString(ind)
		st := n.str(ind)
		sb.WriteString(st)
		if _, ok := n.(simple); ok && !strings.Contains(st, "\x01") && lay.roll(lay.comment) {
			sb.WriteString(" # trailing")
		}
		sb.WriteByte('\n')
	}
	return sb.String()
}

// inline renders statements separated by "; " (compound statements keep
// their own line breaks, which is valid everywhere a list is).
func (l list) inline(ind string) string {
	parts := make([]string, len(l))
	for i, n := range l {
		parts[i] = n.str(ind)
	}
	return strings.Join(parts, "; ")
}

type ifClause struct {
	conds  []node // if, elif...
	thens  []list
	els    list
	redirs string
}

func (c ifClause) str(ind string) string {
	var sb strings.Builder
	for i := range c.conds {
		if i == 0 {
			sb.WriteString("if ")
		} else {
			sb.WriteString(ind + "elif ")
		}
		sb.WriteString(c.conds[i].str(ind))
		sb.WriteString(thenSep(ind))
		sb.WriteString(c.thens[i].block(deeper(ind)))
	}
	if c.els != nil {
		sb.WriteString(ind + "else\n")
		sb.WriteString(c.els.block(deeper(ind)))
	}
	sb.WriteString(ind + "fi" + c.redirs)
	return sb.String()
}

type loop struct {
	head   string // "while COND", "until COND", "for x in ...", "for ((...))"
	body   list
	redirs string
}

func (c loop) str(ind string) string {
	return c.head + doSep(ind) + c.body.block(deeper(ind)) + ind + "done" + c.redirs
}

type caseItem struct {
	pats string
	body list
	op   string
}

type caseClause struct {
	word  string
	items []caseItem
}

func (c caseClause) str(ind string) string {
	var sb strings.Builder
	sb.WriteString("case " + c.word + " in\n")
	for _, it := range c.items {
		sb.WriteString(ind + it.pats + ")\n")
		sb.WriteString(it.body.block(deeper(ind)))
		sb.WriteString(deeper(ind) + it.op + "\n")
	}
	sb.WriteString(ind + "esac")
	return sb.String()
}

type group struct {
	open, close string // "{" "}" or "(" ")"
	body        list
	redirs      string
}

func (c group) str(ind string) string {
	if len(c.body) == 1 && c.open == "(" && !strings.Contains(c.body[0].str(ind), "\n") {
		in := c.body[0].str(ind)
		if strings.HasPrefix(in, "(") {
			return "( " + in + " )" + c.redirs
		}
		return "(" + in + ")" + c.redirs
	}
	return c.open + "\n" + c.body.block(deeper(ind)) + ind + c.close + c.redirs
}

type funcDecl struct {
	name string
	kw   bool
	body list
}

func (c funcDecl) str(ind string) string {
	h := c.name + "()"
	if c.kw {
		h = "function " + c.name
	}
	return h + " {\n" + c.body.block(deeper(ind)) + ind + "}"
}

// binary joins statements with an operator: && || |
type binary struct {
	op   string
	x, y node
}

func (c binary) str(ind string) string { return c.x.str(ind) + " " + c.op + " " + c.y.str(ind) }

type not struct{ x node }

func (c not) str(ind string) string { return "! " + c.x.str(ind) }

// neg negates a command; "! ! cmd" and "! a && b" are kept out (the parser
// rejects a double negation; a negated list would bind differently).
func neg(n node) node {
	switch x := n.(type) {
	case not:
		return x.x
	case binary:
		return binary{x.op, neg(x.x), x.y}
	}
	return not{n}
}

// ---------------------------------------------------------------------------
// here-documents: a redirect is rendered with its body between \x01 and
// \x02; finish moves every body to the line after the one holding the
// operator.

func hdoc(op, delim, body string) string {
	term := strings.Trim(delim, `'"`)
	return op + delim + "\x01" + body + term + "\n\x02"
}

func finish(s string) string {
	if !strings.HasSuffix(s, "\n") {
		s += "\n"
	}
	if !strings.Contains(s, "\x01") {
		return s
	}
	var out, pend strings.Builder
	for i := 0; i < len(s); i++ {
		switch s[i] {
		case 0x01:
			j := strings.IndexByte(s[i:], 0x02)
			pend.WriteString(s[i+1 : i+j])
			i += j
		case '\n':
			out.WriteByte('\n')
			out.WriteString(pend.String())
			pend.Reset()
		default:
			out.WriteByte(s[i])
		}
	}
	return out.String()
}

// ---------------------------------------------------------------------------
// generator state

type fn struct {
	name string
	cost int
	// what the body (or a callee) does: file traffic, writes to stderr,
	// pipelines. Calls are kept out of contexts where these could race.
	io, stderr, pipe bool
	// sub: the body (or a callee) starts a subshell context: ( ), $( ), a
	// pipeline.
	sub bool
}

type g struct {
	t *rapid.T
	o Opts

	funcs  []fn
	budget int // remaining static steps
	mult   int // product of the bounds of the enclosing loops
	nctr   int // loop counters handed out so far
	nhd    int

	depth    int  // nesting depth of compound commands
	loops    int  // loops enclosing in the same shell context and function body
	inFor    int  // for loops among them (finding: they go on after return/exit)
	inFunc   bool // inside a function body
	inPipe   int  // inside a pipeline stage: no file writes, no >&2
	inSubst  int  // inside $( ): no here-documents
	inSub    int  // inside ( ) or any other subshell context
	noPipe   int  // inside a 2>&1 context: no pipelines
	pure     int  // no state changes observable outside (last pipeline stage)
	inCond   int
	errexit  bool // set -e appears somewhere
	lastpipe bool // a last pipeline stage changes state: needs shopt -s lastpipe
	errTrap  bool // an ERR trap is set somewhere
	posArgs  bool // positional parameters exist at top level
	noErrTrp bool // ERR traps are kept out (finding: inherited by functions)
	noSetE   bool // this program never turns errexit on
	padLists bool // nested lists end in ":" (finding: errexit and compound commands)

	files []string
	// effects of the code generated so far (see fn)
	io, stderr, pipe, sub bool

	noNegCall bool // no "!" on function calls and compound commands (finding)
	noCondSub bool // no subshell contexts where errexit is ignored (finding)
	flat      bool // only simple top-level statements (ERR trap programs, finding)
	exitTrap  bool // this program may install an EXIT trap
}

var (
	intVars   = []string{"n", "m", "k"}
	cleanVars = []string{"s", "t"}
	anyVars   = []string{"u", "v", "w", "x", "y"}
	arrVars   = []string{"a", "b"}
	fnNames   = []string{"f", "g", "h"}
	fileNames = []string{"f1", "f2", "f3"}

	cleanWords = []string{"foo", "bar", "baz", "abc", "aXb", "hello", "ab", "b", "foobar", "Zed"}
	anyWords   = []string{"foo", "a b", "x  y z", "", "one two", "B", "ok", " pad ", "3", "no"}
	patterns   = []string{"a*", "*b", "?", "f*", "[a-c]", "ba?", "o", "b*", "*o", "[fb]*", "X", "a?", "ll"}
	casePats   = []string{"a*", "*b", "?", "f*", "[a-c]*", "ba?", "foo", "bar", "*o*", "[fb]??", "*X*", "hello", "b", "3", "[0-9]", "no", "ok"}
)

// n draws a uniform integer in [lo, hi]. rapid's integer generators favour
// small values and the bounds, which would skew every choice made here
// (statement kinds, probabilities); single bits are uniform, and shrinking
// still moves every choice towards lo.
func (g *g) n(lo, hi int, label string) int {
	span := hi - lo + 1
	if span <= 1 {
		return lo
	}
	bits := 0
	for 1<<bits < span*8 {
		bits++
	}
	v := 0
	for i := 0; i < bits; i++ {
		if rapid.Bool().Draw(g.t, label) {
			v |= 1 << i
		}
	}
	return lo + v%span
}
func (g *g) pct(p int, label string) bool { return g.n(0, 99, label) < p }
func (g *g) pick(xs []string, label string) string {
	return xs[g.n(0, len(xs)-1, label)]
}

func (g *g) spend(n int) { g.budget -= n * g.mult }

// room reports whether a construct costing n more steps per iteration fits.
func (g *g) room(n int) bool { return g.budget >= n*g.mult }

// ---------------------------------------------------------------------------
// words

func (g *g) intLit() string { return strconv.Itoa(g.n(0, 9, "int")) }

func (g *g) cleanWord() string { return g.pick(cleanWords, "cleanword") }

// arith renders an arithmetic expression without side effects.
func (g *g) arith(d int) string {
	k := g.n(0, 11, "arith")
	if d <= 0 && k > 2 {
		k = k % 3
	}
	switch k {
	case 0:
		return g.intLit()
	case 1, 2:
		v := g.pick(intVars, "ivar")
		if g.o.Simp {
			switch g.n(0, 3, "ivarform") {
			case 0:
				return "$" + v
			case 1:
				return "${" + v + "}"
			case 2:
				return "($" + v + ")"
			}
		}
		return v
	case 3, 4:
		return g.arith(d-1) + " " + g.pick([]string{"+", "-", "*"}, "aop") + " " + g.arith(d-1)
	case 5:
		return g.arith(d-1) + " " + g.pick([]string{"/", "%"}, "dop") + " " + strconv.Itoa(g.n(1, 5, "div"))
	case 6:
		return g.arith(d-1) + " " + g.pick([]string{"<", ">", "<=", ">=", "==", "!="}, "cop") + " " + g.arith(d-1)
	case 7:
		return g.arith(d-1) + " " + g.pick([]string{"&&", "||"}, "lop") + " " + g.arith(d-1)
	case 8:
		return "(" + g.arith(d-1) + ")"
	case 9:
		if g.o.Simp {
			return "((" + g.arith(d-1) + "))"
		}
		return "!(" + g.arith(d-1) + ")"
	case 10:
		return "(" + g.arith(d-1) + ") * " + g.intLit()
	default:
		return g.arith(d-1) + " ? " + g.arith(d-1) + " : " + g.arith(d-1)
	}
}

// arithEffect renders an arithmetic expression that assigns an integer
// variable (bare names only: $x next to an assignment is a known finding).
func (g *g) arithEffect() string {
	v := g.pick(intVars, "ivar")
	save := g.o.Simp
	g.o.Simp = false
	defer func() { g.o.Simp = save }()
	switch g.n(0, 6, "aeff") {
	case 0:
		return v + "++"
	case 1:
		return "++" + v
	case 2:
		return v + "--"
	case 3:
		return v + " += " + g.intLit()
	case 4:
		return v + " -= " + g.intLit()
	case 5:
		return v + " = " + g.arith(1)
	default:
		return v + " = " + v + " * 2 + 1"
	}
}

func (g *g) pattern() string { return g.pick(patterns, "pat") }

// paramOp renders one of the well-behaved ${...} forms; quoted says whether
// the caller will put it inside double quotes.
func (g *g) paramOp() string {
	switch g.n(0, 9, "pop") {
	case 0:
		return "${" + g.pick(anyVars, "var") + "}"
	case 1:
		return "${z:-" + g.cleanWord() + "}"
	case 2:
		return "${" + g.pick(anyVars, "var") + ":-" + g.cleanWord() + "}"
	case 3:
		return "${#" + g.pick(append(append([]string{}, anyVars...), cleanVars...), "var") + "}"
	case 4:
		return "${" + g.pick(cleanVars, "var") + "#" + g.pattern() + "}"
	case 5:
		return "${" + g.pick(cleanVars, "var") + "%" + g.pattern() + "}"
	case 6:
		return "${" + g.pick(cleanVars, "var") + "/" + g.pattern() + "/" + g.pick([]string{"Q", "", "zz", "_"}, "repl") + "}"
	case 7:
		return "${#" + g.pick(arrVars, "arr") + "[@]}"
	case 8:
		return "${" + g.pick(arrVars, "arr") + "[" + g.index() + "]}"
	default:
		if g.o.Simp {
			// substring with arithmetic operands
			off := g.pick([]string{"1", "$n % 3", "($m % 2)", "(1)", "${k} % 2", "0"}, "off")
			ln := g.pick([]string{"2", "($n % 3)", "$m % 3 + 1", "((1))", "1"}, "len")
			return "${" + g.pick(cleanVars, "var") + ":" + off + ":" + ln + "}"
		}
		return "${" + g.pick(cleanVars, "var") + "}"
	}
}

func (g *g) index() string {
	if g.o.Simp && g.pct(40, "idxparen") {
		return g.pick([]string{"(1)", "(0)", "((2))", "(1 + 1)"}, "idx")
	}
	return g.pick([]string{"0", "1", "2", "3", "1 + 1", "0"}, "idx")
}

// dqEsc renders a double-quoted literal with escapes (Simplify turns some
// into single quotes).
func (g *g) dqEsc() string {
	pieces := []string{`\$`, `\"`, `\\`, "\\`", "a", "b c", "x", "$", "q"}
	var sb strings.Builder
	n := g.n(1, 4, "dqn")
	for i := 0; i < n; i++ {
		p := g.pick(pieces, "dqpiece")
		if p == "$" && i < n-1 {
			p = "$ "
		}
		sb.WriteString(p)
	}
	s := sb.String()
	if strings.HasSuffix(s, "$") && !strings.HasSuffix(s, `\$`) {
		s += "."
	}
	pre := ""
	if g.pct(30, "dollardq") {
		pre = "$"
	}
	return pre + `"` + s + `"`
}

// word renders one command argument.
func (g *g) word() string {
	k := g.n(0, 15, "word")
	switch k {
	case 0, 1:
		return g.cleanWord()
	case 2:
		return g.intLit()
	case 3:
		return "$" + g.pick(append(append([]string{}, anyVars...), intVars...), "var")
	case 4:
		return `"$` + g.pick(append(append([]string{}, anyVars...), cleanVars...), "var") + `"`
	case 5:
		return `"` + g.cleanWord() + " $" + g.pick(anyVars, "var") + " " + g.paramOp() + `"`
	case 6:
		return `"` + g.paramOp() + `"`
	case 7:
		p := g.paramOp()
		if strings.HasPrefix(p, "${z:-") || strings.Contains(p, "[") && !strings.HasPrefix(p, "${#") {
			return `"` + p + `"`
		}
		return p
	case 8:
		return "$((" + sp(g.arith(2), g.pct(50, "asp")) + "))"
	case 9:
		return `"${` + g.pick(arrVars, "arr") + `[@]}"`
	case 10:
		if g.room(4) && g.depth < 3 && !(g.noCondSub && g.inCond > 0) {
			return g.cmdSubst()
		}
		return g.cleanWord()
	case 11:
		if g.inFunc || g.posArgs {
			return g.pick([]string{`"$1"`, `"$@"`, "$#", `"$2"`, "$1", `"${1:-none}"`, `"$*"`}, "pos")
		}
		return "'" + g.pick(anyWords, "sq") + "'"
	case 12:
		if g.pct(50, "bracedtail") {
			// ${v}tail: the braces matter
			return "${" + g.pick(append(append([]string{}, cleanVars...), intVars...), "var") + "}" + g.pick([]string{"x", "_1", "Zed", "9"}, "tail")
		}
		return g.cleanWord() + "$" + g.pick(intVars, "var")
	case 13:
		if g.o.Simp {
			return g.dqEsc()
		}
		return `"` + g.pick(anyWords, "dq") + `"`
	case 14:
		if g.o.Simp {
			return g.dqEsc()
		}
		return "$?"
	default:
		return "$" + g.pick(cleanVars, "var")
	}
}

// neg negates a condition unless that would put a function call under "!"
// in a program where the finding about errexit under negation is excluded.
func (g *g) neg(n node) node {
	if g.noNegCall {
		bad := false
		var look func(n node)
		look = func(n node) {
			switch x := n.(type) {
			case simple:
				bad = true
			case binary:
				look(x.x)
				look(x.y)
			case not:
				look(x.x)
			}
		}
		look(n)
		if bad {
			return n
		}
	}
	return neg(n)
}

func sp(s string, on bool) string {
	if on || strings.HasPrefix(s, "(") || strings.HasSuffix(s, ")") {
		return " " + s + " "
	}
	return s
}

func (g *g) words(lo, hi int) []string {
	n := g.n(lo, hi, "nwords")
	ws := make([]string, n)
	subst := false
	for i := range ws {
		ws[i] = g.word()
		if strings.Contains(ws[i], "$?") && subst && vh.Excluded(FindSubstStat) {
			// $? after a command substitution of the same command is
			// that substitution's status in bash only (finding)
			ws[i] = "0"
		}
		subst = subst || strings.Contains(ws[i], "$(") && !strings.Contains(ws[i], "$((")
	}
	return ws
}

// cmdSubst renders $( list ), quoted or not.
func (g *g) cmdSubst() string {
	g.sub = true
	g.inSubst++
	g.inSub++
	g.depth++
	savedLoops, savedPure, savedFor := g.loops, g.pure, g.inFor
	g.loops, g.pure, g.inFor = 0, 0, 0
	defer func() { g.inFor = savedFor }()
	var body list
	if g.o.Simp && g.pct(40, "substsub") {
		// $( (cmd) ): duplicate subshell
		inner := g.stmts(1, 2, false)
		var n node = group{open: "(", close: ")", body: inner}
		if g.pct(30, "substsub2") {
			n = group{open: "(", close: ")", body: list{n}}
		}
		body = list{n}
	} else {
		body = g.stmts(1, 2, false)
	}
	g.loops, g.pure = savedLoops, savedPure
	g.depth--
	g.inSub--
	g.inSubst--
	s := body.inline("")
	if strings.HasPrefix(s, "(") {
		s = " " + s + " "
	}
	s = "$(" + s + ")"
	if g.pct(70, "substq") {
		return `"` + s + `"`
	}
	return s
}

// ---------------------------------------------------------------------------
// conditions

func (g *g) cmpOp() string {
	return g.pick([]string{"-eq", "-ne", "-lt", "-le", "-gt", "-ge"}, "cmp")
}

func (g *g) intOperand() string {
	if g.pct(50, "intlit") {
		return g.intLit()
	}
	return "$" + g.pick(intVars, "ivar")
}

func (g *g) strVar() string {
	return g.pick(append(append([]string{}, cleanVars...), anyVars...), "svar")
}

func (g *g) fileName() string { return g.pick(fileNames, "file") }

// classicTest renders the inside of [ ] / test.
func (g *g) classicTest() string {
	switch g.n(0, 6, "ctest") {
	case 0:
		return `"$` + g.strVar() + `" = ` + g.cleanWord()
	case 1:
		return `"$` + g.strVar() + `" != "$` + g.strVar() + `"`
	case 2:
		return `-n "$` + g.strVar() + `"`
	case 3:
		return `-z "$` + g.strVar() + `"`
	case 4, 5:
		return "$" + g.pick(intVars, "ivar") + " " + g.cmpOp() + " " + g.intOperand()
	default:
		return g.pick([]string{"-f", "-e", "-s", "! -f"}, "fop") + " " + g.fileName()
	}
}

// bashTest renders the inside of [[ ]].
func (g *g) bashTest(d int) string {
	k := g.n(0, 12, "btest")
	if d <= 0 && k >= 9 {
		k -= 9
	}
	q := func(s string) string {
		if g.o.Simp && g.pct(60, "tq") || g.pct(15, "tq2") {
			return `"` + s + `"`
		}
		return s
	}
	switch k {
	case 0:
		return q("$"+g.strVar()) + " " + g.pick([]string{"==", "=", "!="}, "eq") + " " + g.pick(casePats, "tpat")
	case 1:
		rhs := g.strVar()
		lhs := q("$" + g.strVar())
		if g.pct(40, "patvar") {
			rhs = g.pick([]string{"p", "q"}, "patvarname")
			if g.pct(50, "patlhs") {
				lhs = g.cleanWord()
			}
		}
		return lhs + " " + g.pick([]string{"==", "=", "!="}, "eq") + ` "$` + rhs + `"`
	case 2:
		return "-n " + q("$"+g.strVar())
	case 3:
		return "-z " + q("$"+g.strVar())
	case 4, 5:
		return q("$"+g.pick(intVars, "ivar")) + " " + g.cmpOp() + " " + g.intOperand()
	case 6:
		return q("$"+g.pick(cleanVars, "svar")) + " " + g.pick([]string{"<", ">"}, "lt") + " " + g.cleanWord()
	case 7:
		return g.pick([]string{"-f", "-e", "-s"}, "fop") + " " + g.fileName()
	case 8:
		return g.cleanWord() + " " + g.pick([]string{"==", "=", "!="}, "eq") + " " + g.pick(casePats, "tpat")
	case 9:
		return "! " + g.bashTest(d-1)
	case 10:
		return "( " + g.bashTest(d-1) + " )"
	case 11:
		// the parser reads "a && b || c" as "a && (b || c)" (finding):
		// explicit parentheses keep both sides on the same reading
		x, y := g.bashTest(d-1), g.bashTest(d-1)
		if vh.Excluded(FindTestPrec) && strings.Contains(y, " || ") {
			y = "( " + y + " )"
		}
		return x + " && " + y
	default:
		return g.bashTest(d-1) + " || " + g.bashTest(d-1)
	}
}

// cond renders a command used for its status.
func (g *g) cond(d int) node {
	g.inCond++
	defer func() { g.inCond-- }()
	k := g.n(0, 13, "cond")
	if d <= 0 && k >= 10 {
		k -= 10
	}
	switch k {
	case 0, 1:
		return text("[ " + g.classicTest() + " ]")
	case 2:
		return text("test " + g.classicTest())
	case 3, 4, 5:
		dd := 1
		if g.o.Simp {
			dd = 2
		}
		return text("[[ " + g.bashTest(dd) + " ]]")
	case 6:
		return text("((" + sp(g.arith(2), true) + "))")
	case 7:
		return text(g.pick([]string{"true", "false", ":"}, "tf"))
	case 8:
		if len(g.funcs) > 0 {
			if c, ok := g.call(); ok {
				return c
			}
		}
		return text("[ " + g.classicTest() + " ]")
	case 9:
		if g.pure == 0 && g.room(1) {
			g.spend(1)
			return text("((" + sp(g.arithEffect(), true) + "))")
		}
		return text("[[ " + g.bashTest(1) + " ]]")
	case 10:
		return g.neg(g.cond(d - 1))
	case 11:
		return binary{"&&", g.cond(d - 1), g.cond(d - 1)}
	case 12:
		return binary{"||", g.cond(d - 1), g.cond(d - 1)}
	default:
		return text("[[ " + g.bashTest(2) + " ]]")
	}
}

// call renders a call of a defined function if the budget allows.
func (g *g) call() (node, bool) {
	if len(g.funcs) == 0 {
		return nil, false
	}
	f := g.funcs[g.n(0, len(g.funcs)-1, "fn")]
	if !g.room(f.cost + 1) {
		return nil, false
	}
	if (g.inPipe > 0 || g.inSubst > 0) && (f.io || f.stderr) || g.noPipe > 0 && (f.pipe || f.io) {
		return nil, false
	}
	if g.noCondSub && g.inCond > 0 && f.sub {
		return nil, false
	}
	g.io, g.stderr, g.pipe, g.sub = g.io || f.io, g.stderr || f.stderr, g.pipe || f.pipe, g.sub || f.sub
	g.spend(f.cost + 1)
	args := g.words(0, 3)
	if vh.Excluded(FindSubstStat) {
		// a function body that starts by reading $? sees the status of a
		// command substitution among the call's arguments in bash only
		for i, a := range args {
			if strings.Contains(a, "$(") && !strings.Contains(a, "$((") {
				args[i] = g.cleanWord()
			}
		}
	}
	return simple{words: append([]string{f.name}, args...)}, true
}

// ---------------------------------------------------------------------------
// statements

func (g *g) echo() node {
	g.spend(1)
	tag := g.pick([]string{"o", "e", "p", "r", "got", "val", "at", "x"}, "tag")
	ws := append([]string{"echo", tag}, g.words(0, 3)...)
	if g.pct(10, "echoplain") {
		ws = []string{"echo"}
	}
	return simple{words: ws}
}

func (g *g) printf() node {
	g.spend(1)
	switch g.n(0, 4, "printf") {
	case 0:
		return simple{words: append([]string{"printf", `'%s\n'`}, g.words(1, 3)...)}
	case 1:
		return simple{words: []string{"printf", `'%d\n'`, "$((" + sp(g.arith(2), false) + "))"}}
	case 2:
		return simple{words: []string{"printf", `'%s=%d\n'`, g.cleanWord(), "$" + g.pick(intVars, "ivar")}}
	case 3:
		return simple{words: []string{"printf", `'<%s>'`, `"${` + g.pick(arrVars, "arr") + `[@]}"`}}
	default:
		return simple{words: append([]string{"printf", `"%s-%s\n"`}, g.words(2, 2)...)}
	}
}

// status prints the status of the previous command.
func (g *g) status() node {
	g.spend(1)
	return text(`echo "st=$?"`)
}

func (g *g) assign() node {
	g.spend(1)
	switch g.n(0, 13, "assign") {
	case 0, 1:
		return text(g.pick(intVars, "ivar") + "=$((" + sp(g.arith(2), g.pct(30, "asp")) + "))")
	case 2:
		return text(g.pick(intVars, "ivar") + "=" + g.intLit())
	case 3:
		return text(g.pick(cleanVars, "cvar") + "=" + g.cleanWord())
	case 4:
		v := g.pick(cleanVars, "cvar")
		return text(v + "=" + g.pick([]string{"$s", "$t", "${s}${t}", "$s" + g.cleanWord(), g.cleanWord() + "$t", `"$t"`}, "cexp"))
	case 5:
		return text(g.pick(anyVars, "avar") + "='" + g.pick(anyWords, "aword") + "'")
	case 6:
		return text(g.pick(anyVars, "avar") + "=" + g.quotedWord())
	case 7:
		if g.room(4) && g.depth < 3 {
			return text(g.pick(anyVars, "avar") + "=" + g.cmdSubst())
		}
		return text("z=" + g.cleanWord())
	case 8:
		return text("z=" + g.cleanWord())
	case 9:
		return text("unset z")
	case 10:
		a := g.pick(arrVars, "arr")
		ws := g.words(0, 4)
		return text(a + "=(" + strings.Join(ws, " ") + ")")
	case 11:
		return text(g.pick(arrVars, "arr") + "+=(" + g.word() + ")")
	case 12:
		return text(g.pick(arrVars, "arr") + "[" + g.index() + "]=" + g.quotedWord())
	default:
		return text(g.pick(cleanVars, "cvar") + "+=" + g.cleanWord())
	}
}

// quotedWord renders a word that is a single field in assignment context.
func (g *g) quotedWord() string {
	w := g.word()
	if strings.HasPrefix(w, `"${`) && strings.HasSuffix(w, `[@]}"`) || w == `"$@"` {
		return g.cleanWord()
	}
	return w
}

func (g *g) arithCmd() node {
	g.spend(1)
	return text("((" + sp(g.arithEffect(), g.pct(50, "asp")) + "))")
}

func (g *g) nested(lo, hi int, loopBody bool) list {
	g.depth++
	defer func() { g.depth-- }()
	return g.stmts(lo, hi, loopBody)
}

func (g *g) ifStmt() node {
	g.spend(1)
	c := ifClause{}
	n := 1
	if g.pct(25, "elif") {
		n = 2
	}
	for i := 0; i < n; i++ {
		c.conds = append(c.conds, g.cond(1))
		c.thens = append(c.thens, g.nested(1, 2, false))
	}
	if g.pct(45, "else") {
		c.els = g.nested(1, 2, false)
	}
	return c
}

func (g *g) counter() string {
	g.nctr++
	return fmt.Sprintf("c%d", g.nctr)
}

// loopBody generates the body of a loop with the given bound.
func (g *g) loopBody(bound int) list {
	saved := g.mult
	g.mult *= bound
	g.loops++
	body := g.nested(1, 3, true)
	g.loops--
	g.mult = saved
	return body
}

func (g *g) bound() int {
	b := g.n(1, 4, "bound")
	for b > 1 && !g.room(2*b) {
		b--
	}
	return b
}

func (g *g) whileStmt() node {
	g.spend(2)
	c := g.counter()
	k := g.bound()
	ks := strconv.Itoa(k)
	var head, inc string
	until := g.pct(30, "until")
	switch g.n(0, 3, "whileform") {
	case 0:
		head = "[ $" + c + " -lt " + ks + " ]"
		if until {
			head = "[ $" + c + " -ge " + ks + " ]"
		}
	case 1:
		head = "((" + c + " < " + ks + "))"
		if until {
			head = "((" + c + " >= " + ks + "))"
		}
	case 2:
		head = "[[ $" + c + " -lt " + ks + " ]]"
		if until {
			head = "[[ $" + c + " -ge " + ks + " ]]"
		}
	default:
		head = "test $" + c + " != " + ks
		if until {
			head = "test $" + c + " = " + ks
		}
	}
	switch g.n(0, 2, "incform") {
	case 0:
		inc = c + "=$((" + c + " + 1))"
	case 1:
		inc = "((" + c + " += 1))"
	default:
		inc = ": $((" + c + "++))"
	}
	kw := "while "
	if until {
		kw = "until "
	}
	body := append(list{text(inc)}, g.loopBody(k)...)
	if vh.Excluded(FindWhileStat) {
		// the interpreter reports status 0 for a while/until loop whose
		// last body command failed (finding)
		body = append(body, text(`echo "c=$`+c+`"`))
	}
	l := loop{head: kw + head, body: body}
	return list2{text(c + "=0"), l}
}

// list2 is two statements on consecutive lines.
type list2 [2]node

func (l list2) str(ind string) string { return l[0].str(ind) + "\n" + ind + l[1].str(ind) }

func (g *g) forIn() node {
	g.spend(2)
	v := g.pick([]string{"x", "y"}, "loopvar")
	var items []string
	n := 3
	switch g.n(0, 5, "foritems") {
	case 0, 1:
		n = g.n(1, 3, "nitems")
		for i := 0; i < n; i++ {
			items = append(items, g.pick(append(append([]string{}, cleanWords...), "1", "2", "'a b'"), "item"))
		}
	case 2:
		items = []string{`"${` + g.pick(arrVars, "arr") + `[@]}"`}
		n = 4
	case 3:
		items = []string{"$" + g.pick(anyVars, "var")}
		n = 3
	case 4:
		if g.inFunc || g.posArgs {
			items = []string{`"$@"`}
			n = 3
			break
		}
		items = []string{"1", "2", "3"}
		v = g.pick(intVars, "ivar")
	default:
		items = []string{g.cleanWord(), "$" + g.pick(anyVars, "var"), `"$` + g.pick(anyVars, "var") + `"`}
		n = 5
	}
	if g.pure > 0 && isIn(v, intVars) {
		v = "x"
	}
	for n > 1 && !g.room(2*n) {
		// too expensive: iterate over fewer literal items
		n--
		items = []string{"p", "q", "r", "s"}[:n]
	}
	g.inFor++
	body := g.loopBody(n)
	g.inFor--
	return loop{head: "for " + v + " in " + strings.Join(items, " "), body: body}
}

func isIn(s string, xs []string) bool {
	for _, x := range xs {
		if x == s {
			return true
		}
	}
	return false
}

func (g *g) cFor() node {
	g.spend(2)
	c := g.counter()
	k := g.bound()
	var head string
	switch g.n(0, 2, "cfor") {
	case 0:
		head = fmt.Sprintf("for ((%s = 0; %s < %d; %s++))", c, c, k, c)
	case 1:
		head = fmt.Sprintf("for ((%s=%d; %s>0; %s--))", c, k, c, c)
	default:
		head = fmt.Sprintf("for ((%s = 1; %s <= %d; %s += 1))", c, c, k, c)
	}
	g.inFor++
	body := g.loopBody(k)
	g.inFor--
	// a body ending in a failing command stops the loop in the interpreter
	// (known finding C20-cfor-stops-after-failing-body)
	body = append(body, text(`echo "i=$`+c+`"`))
	return loop{head: head, body: body}
}

// jumpNest renders two nested loops whose inner body leaves or continues
// the outer loop at a chosen iteration, with output before and after, so
// that break N / continue N are exercised on purpose.
func (g *g) jumpNest() node {
	g.spend(3)
	v := g.pick([]string{"x", "y"}, "loopvar")
	items := []string{g.cleanWord(), g.cleanWord(), g.cleanWord()}[:g.n(2, 3, "nitems")]
	c := g.counter()
	k := g.n(2, 3, "bound")
	kw := g.pick([]string{"break", "continue"}, "jump")
	lvl := g.pick([]string{" 2", " 2", " 1", ""}, "jumplevel")
	var trig string
	if g.pct(60, "trigform") {
		trig = "[ $" + c + " -eq " + strconv.Itoa(g.n(1, k, "trigat")) + " ]"
	} else {
		trig = `[[ $` + v + ` == ` + items[g.n(0, len(items)-1, "trigitem")] + ` ]]`
	}
	saved := g.mult
	g.mult *= len(items) * k
	g.loops += 2
	g.depth += 2
	g.inFor++
	defer func() { g.inFor-- }()
	inner := list{
		text(c + "=$((" + c + " + 1))"),
		text(`echo "in $` + v + ` $` + c + `"`),
	}
	if g.pct(50, "jumpif") {
		inner = append(inner, ifClause{conds: []node{text(trig)}, thens: []list{{text(kw + lvl)}}})
	} else {
		inner = append(inner, binary{"&&", text(trig), text(kw + lvl)})
	}
	if g.pct(40, "innerextra") && g.room(4) {
		inner = append(inner, g.stmt(true))
	}
	inner = append(inner, text(`echo "tail $`+c+`"`))
	g.depth--
	g.loops--
	outer := list{
		list2{text(c + "=0"), loop{head: "while [ $" + c + " -lt " + strconv.Itoa(k) + " ]", body: inner}},
	}
	if g.pct(40, "outerextra") && g.room(4) {
		outer = append(outer, g.stmt(true))
	}
	outer = append(outer, text(`echo "after $`+v+`"`))
	g.depth--
	g.loops--
	g.mult = saved
	return loop{head: "for " + v + " in " + strings.Join(items, " "), body: outer}
}

func (g *g) caseStmt() node {
	g.spend(1)
	var w string
	switch g.n(0, 3, "caseword") {
	case 0:
		w = "$" + g.pick(cleanVars, "cvar")
	case 1:
		w = `"$` + g.strVar() + `"`
	case 2:
		w = "$" + g.pick(intVars, "ivar")
	default:
		w = g.cleanWord()
	}
	c := caseClause{word: w}
	n := g.n(1, 3, "nitems")
	// one case statement in four is about its terminators: more items, and
	// ;; ;& ;;& equally likely, so that they follow one another
	heavy := g.pct(25, "caseheavy")
	if heavy {
		n = g.n(3, 5, "nitemsheavy")
	}
	for i := 0; i < n; i++ {
		p := g.pick(casePats, "cpat")
		if g.pct(25, "altpat") {
			p += " | " + g.pick(casePats, "cpat")
		}
		if g.pct(10, "patvar") {
			p = `"$` + g.pick(cleanVars, "cvar") + `"`
		}
		op := ";;"
		if g.pct(8, "fall") {
			op = g.pick([]string{";&", ";;&"}, "caseop")
		}
		if heavy {
			op = g.pick([]string{";;", ";&", ";;&"}, "caseopheavy")
		}
		c.items = append(c.items, caseItem{p, g.nested(1, 2, false), op})
	}
	if g.pct(60, "default") {
		c.items = append(c.items, caseItem{"*", g.nested(1, 1, false), ";;"})
	}
	return c
}

// subshell renders ( list ), optionally ending in exit N.
func (g *g) subshell() node {
	g.spend(1)
	g.sub = true
	g.inSub++
	savedLoops, savedPure, savedFor := g.loops, g.pure, g.inFor
	g.loops, g.pure, g.inFor = 0, 0, 0
	defer func() { g.inFor = savedFor }()
	body := g.nested(1, 3, false)
	if g.pct(25, "subexit") {
		body = append(body, text("exit "+g.intLit()))
	}
	g.loops, g.pure = savedLoops, savedPure
	g.inSub--
	var n node = group{open: "(", close: ")", body: body}
	if g.o.Simp && g.pct(40, "dupsub") {
		n = group{open: "(", close: ")", body: list{n}}
	}
	return n
}

// redirTarget renders an output redirection to a file of the cwd.
func (g *g) outRedir() string {
	f := g.fileName()
	g.files = append(g.files, f)
	return g.pick([]string{">", ">>", "> ", ">> "}, "rop") + f
}

// fileWrite: a command whose output goes to a file.
func (g *g) fileWrite() node {
	g.spend(2)
	g.io = true
	k := g.n(0, 3, "fwrite")
	if k == 3 && g.exitTrap && vh.Excluded(FindExitTrapRd) {
		// exit (or errexit) inside a redirected group: bash runs the EXIT
		// trap with the redirection still in place (finding)
		k = 0
	}
	switch k {
	case 0, 1:
		return simple{words: append([]string{"echo"}, g.plainWords(1, 3)...), redirs: []string{g.outRedir()}}
	case 2:
		return simple{words: append([]string{"printf", `'%s\n'`}, g.plainWords(1, 3)...), redirs: []string{g.outRedir()}}
	default:
		g.noPipe++
		g.inPipe++ // the group's output is the file: no nested file traffic
		body := g.nested(1, 2, false)
		g.inPipe--
		g.noPipe--
		return group{open: "{", close: "}", body: body, redirs: " " + g.outRedir()}
	}
}

// plainWords are words without command substitutions (used where the
// command's output must not depend on files being written by it).
func (g *g) plainWords(lo, hi int) []string {
	n := g.n(lo, hi, "nplain")
	ws := make([]string, n)
	for i := range ws {
		switch g.n(0, 4, "plain") {
		case 0, 1:
			ws[i] = g.cleanWord()
		case 2:
			ws[i] = `"$` + g.strVar() + `"`
		case 3:
			ws[i] = "$" + g.pick(intVars, "ivar")
		default:
			ws[i] = "'" + g.pick(anyWords, "sq") + "'"
		}
	}
	return ws
}

// fileRead: commands reading a file of the cwd.
func (g *g) fileRead() node {
	g.spend(2)
	g.io = true
	f := g.fileName()
	switch g.n(0, 7, "fread") {
	case 0:
		return simple{words: []string{"cat", f}}
	case 1:
		return simple{words: []string{"cat"}, redirs: []string{"< " + f}}
	case 2:
		if g.pure > 0 {
			return simple{words: []string{"cat", f}}
		}
		return simple{words: []string{"read", g.pick([]string{"-r ", ""}, "readr") + g.pick(anyVars, "avar")}, redirs: []string{"<" + f}}
	case 3:
		return simple{words: []string{"sort", f}}
	case 4:
		return simple{words: []string{"wc", "-l"}, redirs: []string{"<" + f}}
	case 5:
		return simple{words: []string{"head", "-n", strconv.Itoa(g.n(1, 2, "headn")), f}}
	case 6:
		return simple{words: []string{"tr", "a-f", "A-F"}, redirs: []string{"< " + f}}
	default:
		return g.readLoop(" < " + f)
	}
}

// readLoop renders while read ...; do ...; done with the given input.
func (g *g) readLoop(redir string) node {
	vars := g.pick([]string{"l", "l", "-r l", "p q", "l"}, "readvars")
	saved := g.mult
	g.mult *= 4
	savedLoops := g.loops
	if redir == "" {
		// a pipeline's reader: leaving the loop early would race with the
		// writer (SIGPIPE, pipefail)
		g.loops = -100
	}
	g.loops++
	g.depth++
	body := list{}
	if g.pct(70, "readecho") {
		g.spend(1)
		body = append(body, text(g.pick([]string{`echo "<$l>"`, `echo "got $l"`, `printf '%s|' "$l"`, `echo $l`}, "readecho2")))
		if strings.Contains(vars, "p q") {
			body = list{text(`echo "p=$p q=$q"`)}
		}
	}
	body = append(body, g.stmts(0, 2, true)...)
	if len(body) == 0 || vh.Excluded(FindWhileStat) {
		body = append(body, text(":"))
	}
	g.depth--
	g.loops = savedLoops
	g.mult = saved
	return loop{head: "while read " + vars, body: body, redirs: redir}
}

// hereDoc renders a command reading a here-document.
func (g *g) hereDoc() node {
	g.spend(2)
	g.nhd++
	delim := g.pick([]string{"EOF", "EOF", "END", "'EOF'", `"EOF"`}, "delim")
	op := "<<"
	lead := ""
	if g.pct(20, "dash") {
		op = "<<-"
		lead = "\t"
	}
	var sb strings.Builder
	n := g.n(1, 3, "hdlines")
	for i := 0; i < n; i++ {
		sb.WriteString(lead)
		switch g.n(0, 5, "hdline") {
		case 0:
			sb.WriteString(g.cleanWord() + " " + g.cleanWord())
		case 1:
			sb.WriteString("v=$" + g.strVar() + " n=${" + g.pick(intVars, "ivar") + "}")
		case 2:
			sb.WriteString("sum $((" + sp(g.arith(1), false) + "))")
		case 3:
			sb.WriteString(g.pick(anyWords, "hdword") + " end")
		case 4:
			sb.WriteString(g.cleanWord() + " " + g.paramOp() + " " + g.cleanWord())
		default:
			sb.WriteString(g.cleanWord())
		}
		sb.WriteByte('\n')
	}
	body := sb.String()
	if lead != "" {
		// the terminator of <<- may be indented too
		body += lead
	}
	h := hdoc(op, delim, body)
	switch g.n(0, 5, "hduse") {
	case 0, 1:
		return simple{words: []string{"cat"}, redirs: []string{h}}
	case 2:
		return simple{words: []string{"tr", "a-z", "A-Z"}, redirs: []string{h}}
	case 3:
		return simple{words: []string{"sort"}, redirs: []string{h}}
	case 4:
		if g.pure > 0 {
			return simple{words: []string{"wc", "-l"}, redirs: []string{h}}
		}
		return list2{simple{words: []string{"read", "p", "q"}, redirs: []string{h}}, text(`echo "p=$p q=$q"`)}
	default:
		return g.readLoop(" " + h)
	}
}

func (g *g) hereString() node {
	g.spend(2)
	w := g.pick([]string{`"$u"`, `"$s $t"`, "$s", `"a b  c"`, "foo", `"$n $m"`, `"$v"`}, "hsword")
	switch g.n(0, 3, "hsuse") {
	case 0:
		return simple{words: []string{"cat"}, redirs: []string{"<<< " + w}}
	case 1:
		if g.pure > 0 {
			return simple{words: []string{"cat"}, redirs: []string{"<<<" + w}}
		}
		return list2{simple{words: []string{"read", "p", "q"}, redirs: []string{"<<< " + w}}, text(`echo "p=$p q=$q"`)}
	case 2:
		return simple{words: []string{"tr", "a-z", "A-Z"}, redirs: []string{"<<<" + w}}
	default:
		return simple{words: []string{"wc", "-w"}, redirs: []string{"<<< " + w}}
	}
}

// producer renders a first pipeline stage; single says it must be one
// write (the reader may stop early).
func (g *g) producer(single bool) node {
	k := g.n(0, 7, "producer")
	if single {
		// echo is one write(2); printf with several arguments is not
		k = 0
	}
	switch k {
	case 0:
		g.spend(1)
		return simple{words: append([]string{"echo"}, g.plainWords(1, 3)...)}
	case 1:
		g.spend(1)
		return simple{words: append([]string{"printf", `'%s\n'`}, g.plainWords(1, 4)...)}
	case 2:
		if c, ok := g.call(); ok {
			return c
		}
		return simple{words: []string{"echo", g.cleanWord()}}
	case 3:
		g.spend(1)
		return group{open: "{", close: "}", body: g.nested(1, 3, false)}
	case 4:
		if g.room(8) {
			if g.pct(50, "prodloop") {
				return g.forIn()
			}
			return g.whileStmt()
		}
		return simple{words: []string{"echo", g.cleanWord()}}
	case 5:
		g.spend(1)
		g.io = true
		return simple{words: []string{"cat", g.fileName()}}
	case 6:
		return g.subshell()
	default:
		g.spend(1)
		return simple{words: []string{"printf", `'%s\n'`, `"${` + g.pick(arrVars, "arr") + `[@]}"`}}
	}
}

// filter renders a middle or last stage that reads all of its input and
// changes no shell state.
func (g *g) filter() node {
	g.spend(1)
	switch g.n(0, 7, "filter") {
	case 0:
		return text("cat")
	case 1:
		return text("tr a-z A-Z")
	case 2:
		return text("sort" + g.pick([]string{"", " -r", " -u"}, "sortflag"))
	case 3:
		return text("wc -" + g.pick([]string{"l", "w", "c"}, "wcflag"))
	case 4:
		return text("tr -d " + g.pick([]string{"a", "o", "b"}, "trd"))
	case 5:
		return text("tr ' ' '\\n'")
	case 6:
		return text("tail -n 2")
	default:
		return text("cat -")
	}
}

// consumer renders a last stage. Stages that change shell state need
// lastpipe on both sides to mean the same.
func (g *g) consumer(single bool) node {
	k := g.n(0, 9, "consumer")
	impure := func() bool {
		// without lastpipe the interpreter differs from bash (finding);
		// with it the stage runs in the current shell on both sides
		if g.pure > 0 {
			return false
		}
		g.lastpipe = true
		return true
	}
	switch k {
	case 0, 1, 2:
		return g.filter()
	case 3, 4:
		// a read loop: its variables are set in the current shell under
		// lastpipe
		if !impure() {
			return g.filter()
		}
		return g.readLoop("")
	case 5:
		if !single || !impure() {
			return g.filter()
		}
		g.spend(1)
		return text("read " + g.pick(anyVars, "avar"))
	case 6:
		if !single {
			return g.filter()
		}
		g.spend(1)
		return text("head -n 1")
	case 7:
		// a group reading one line and reporting
		if !single || !impure() {
			return g.filter()
		}
		g.spend(2)
		return text(`{ read l; echo "first $l"; ` + g.pick(intVars, "ivar") + `=` + g.intLit() + `; }`)
	case 8:
		if !impure() {
			return g.filter()
		}
		// consume everything, then change state
		g.spend(2)
		return group{open: "{", close: "}", body: append(list{text("cat")}, g.nested(1, 2, false)...)}
	default:
		g.spend(1)
		return group{open: "(", close: ")", body: list{text("cat"), g.echo()}}
	}
}

func (g *g) pipeline() node {
	g.spend(1)
	g.pipe = true
	g.sub = true
	single := g.pct(35, "single")
	g.inPipe++
	g.inSub++
	savedLoops, savedPure, savedFor := g.loops, g.pure, g.inFor
	g.loops = 0
	g.pure = 0
	g.inFor = 0
	defer func() { g.inFor = savedFor }()
	g.depth++
	var n node = g.producer(single)
	if !single && g.pct(35, "midstage") {
		n = binary{"|", n, g.filter()}
	}
	g.inSub--
	g.pure = savedPure
	// the last stage: in the current shell under lastpipe
	last := g.consumer(single)
	g.depth--
	g.loops = savedLoops
	g.inPipe--
	return binary{"|", n, last}
}

func (g *g) setOpt() node {
	g.spend(1)
	switch g.n(0, 5, "setopt") {
	case 0, 1:
		if g.noSetE {
			return text("set +e")
		}
		g.errexit = true
		return text("set -e")
	case 2:
		return text("set +e")
	case 3, 4:
		return text("set -o pipefail")
	default:
		return text("set +o pipefail")
	}
}

func (g *g) trap() node {
	g.spend(1)
	switch g.n(0, 4, "trap") {
	case 0, 1:
		if !g.exitTrap {
			return text("trap - EXIT")
		}
		return text(`trap 'echo "bye $?"' EXIT`)
	case 2:
		if g.noErrTrp {
			return text("trap - ERR")
		}
		g.errTrap = true
		return text(`trap 'echo "err $?"' ERR`)
	case 3:
		if g.noErrTrp {
			return text("trap - EXIT")
		}
		g.errTrap = true
		return text(`trap 'echo "trapped"; ` + g.pick(intVars, "ivar") + `=7' ERR`)
	default:
		return text("trap - " + g.pick([]string{"EXIT", "ERR"}, "trapsig"))
	}
}

func (g *g) andOr() node {
	g.spend(1)
	x := g.cond(1)
	y := g.leaf()
	op := g.pick([]string{"&&", "||"}, "andor")
	var n node = binary{op, x, y}
	if t, ok := y.(text); ok && (strings.HasPrefix(string(t), "break") || strings.HasPrefix(string(t), "continue")) && vh.Excluded(FindJumpRest) {
		// the interpreter would run what follows the jump (finding)
		return n
	}
	if g.pct(30, "andor3") && !g.noCondSub {
		n = binary{g.pick([]string{"&&", "||"}, "andor2"), n, g.leaf()}
	}
	return n
}

// leaf renders a one-line command for the right side of && and ||.
func (g *g) leaf() node {
	k := g.n(0, 9, "leaf")
	switch {
	case k <= 3:
		return g.echo()
	case k == 4 && g.pure == 0:
		return g.assign()
	case k == 5 && g.pure == 0:
		return g.arithCmd()
	case k == 6 && g.loops > 0:
		return g.jump()
	case k == 7 && g.inFunc && g.pure == 0 && !(g.inSub > 0 && vh.Excluded(FindSubReturn)) && !g.noLeave():
		g.spend(1)
		return text("return " + g.intLit())
	case k == 8:
		if c, ok := g.call(); ok {
			return c
		}
	case k == 9:
		return text(g.pick([]string{"true", "false", ":"}, "tf"))
	}
	return g.echo()
}

func (g *g) jump() node {
	g.spend(1)
	kw := g.pick([]string{"break", "continue"}, "jump")
	if g.loops > 1 && g.pct(40, "jumpn") {
		return text(kw + " " + strconv.Itoa(g.n(1, g.loops, "jumplevel")))
	}
	return text(kw)
}

func (g *g) guardedJump() node {
	g.spend(1)
	if g.pct(50, "jumpform") {
		return binary{g.pick([]string{"&&", "||"}, "andor"), g.cond(0), g.jump()}
	}
	return ifClause{conds: []node{g.cond(1)}, thens: []list{{g.jump()}}}
}

func (g *g) err2out() node {
	g.spend(2)
	g.stderr = true
	g.noPipe++
	defer func() { g.noPipe-- }()
	switch g.n(0, 2, "err2out") {
	case 0:
		return simple{words: append([]string{"echo", "e2"}, g.plainWords(0, 2)...), redirs: []string{"2>&1"}}
	case 1:
		return text(`{ echo to-err >&2; echo to-out; } 2>&1`)
	default:
		body := g.nested(1, 2, false)
		body = append(body, text("echo warn "+g.cleanWord()+" >&2"))
		return group{open: "{", close: "}", body: body, redirs: " 2>&1"}
	}
}

func (g *g) toStderr() node {
	g.spend(1)
	g.stderr = true
	return text("echo " + g.cleanWord() + " >&2")
}

func (g *g) localDecl() node {
	g.spend(1)
	switch g.n(0, 4, "local") {
	case 0:
		return text("local " + g.pick(intVars, "ivar") + "=" + g.intLit())
	case 1:
		return text("local " + g.pick(cleanVars, "cvar") + "=" + g.cleanWord())
	case 2:
		return text("local " + g.pick(anyVars, "avar") + `="$1"`)
	case 3:
		return text("local " + g.pick(intVars, "ivar") + "=$((" + sp(g.arith(1), false) + "))")
	default:
		return text("local " + g.pick(cleanVars, "cvar") + "=" + g.cleanWord() + " " + g.pick(anyVars, "avar") + "=" + g.cleanWord())
	}
}

func (g *g) funcDecl() node {
	name := fnNames[len(g.funcs)]
	before := g.budget
	savedMult := g.mult
	sio, sstderr, spipe, ssub := g.io, g.stderr, g.pipe, g.sub
	g.io, g.stderr, g.pipe, g.sub = false, false, false, false
	g.mult = 1
	g.inFunc = true
	savedLoops, savedFor := g.loops, g.inFor
	g.loops, g.inFor = 0, 0
	defer func() { g.inFor = savedFor }()
	g.depth++
	body := list{}
	if g.pct(60, "fnlocal") {
		body = append(body, g.localDecl())
	}
	body = append(body, g.stmts(1, 4, false)...)
	if g.pct(50, "fnret") {
		g.spend(1)
		body = append(body, text("return "+g.pick([]string{"0", "1", "2", "3", "$n", "$((m % 3))"}, "retval")))
	}
	g.depth--
	g.loops = savedLoops
	g.inFunc = false
	g.mult = savedMult
	cost := before - g.budget
	if cost < 1 {
		cost = 1
	}
	// defining is cheap; the body was only charged to measure it
	g.budget = before - 1
	g.funcs = append(g.funcs, fn{name, cost, g.io, g.stderr, g.pipe, g.sub})
	g.io, g.stderr, g.pipe, g.sub = g.io || sio, g.stderr || sstderr, g.pipe || spipe, g.sub || ssub
	return funcDecl{name: name, kw: g.pct(15, "fnkw"), body: body}
}

// noLeave reports whether return and exit must be kept out: inside a for
// loop the interpreter goes on assigning the loop variable (or runs the
// post expression) after them (finding).
func (g *g) noLeave() bool { return g.inFor > 0 && vh.Excluded(FindForVarRet) }

func (g *g) exitStmt() node {
	g.spend(1)
	return ifClause{conds: []node{g.cond(1)}, thens: []list{{text("exit " + g.intLit())}}}
}

func (g *g) returnStmt() node {
	g.spend(1)
	return ifClause{conds: []node{g.cond(1)}, thens: []list{{text("return " + g.intLit())}}}
}

func (g *g) simpStmt() node {
	g.spend(1)
	switch g.n(0, 5, "simp") {
	case 0:
		return text("echo s $((" + sp("("+g.arith(2)+")", g.pct(50, "sp")) + "))")
	case 1:
		return text("((" + sp("("+g.arithEffect()+")", g.pct(50, "sp")) + "))")
	case 2:
		return text("[[ " + g.bashTest(2) + " ]]")
	case 3:
		return text("echo d " + g.dqEsc() + " " + g.dqEsc())
	case 4:
		return text("echo " + g.pick(cleanVars, "cvar") + "=" + g.paramOp())
	default:
		return text(`echo q "` + g.paramOp() + `"`)
	}
}

// stmt draws one statement that fits the current context.
func (g *g) stmt(loopBody bool) node {
	if g.flat && g.depth == 0 && g.inSub == 0 {
		// only simple commands, lists and subshell contexts at the top
		// level (the ERR trap is not inherited by ( ) and $( ))
		switch k := g.n(0, 11, "flatstmt"); {
		case k <= 1:
			return g.echo()
		case k == 2:
			return g.printf()
		case k == 3:
			return g.status()
		case k <= 5:
			return g.assign()
		case k == 6:
			return g.arithCmd()
		case k <= 8:
			return g.andOr()
		case k == 9:
			return g.hereString()
		case k == 10:
			return g.subshell()
		default:
			g.spend(1)
			return g.neg(g.cond(1))
		}
	}
	if !g.room(6) || g.depth >= 4 {
		// budget exhausted: only the cheapest statements
		if g.pct(50, "cheap") || g.pure > 0 {
			return g.echo()
		}
		return g.assign()
	}
	for try := 0; try < 4; try++ {
		k := g.n(0, 45, "stmt")
		mut := g.pure == 0
		// inside a 2>&1 context nothing may write a diagnostic: the
		// message of "cat missing-file" would reach stdout
		file := g.inPipe == 0 && g.inSubst == 0 && g.noPipe == 0
		switch {
		case k <= 5:
			return g.echo()
		case k <= 7:
			return g.printf()
		case k <= 9:
			return g.status()
		case k <= 13 && mut:
			return g.assign()
		case k == 14 && mut:
			return g.arithCmd()
		case k <= 17:
			return g.ifStmt()
		case k <= 19 && g.room(12) && g.depth < 3:
			return g.whileStmt()
		case k <= 21 && g.room(12) && g.depth < 3:
			return g.forIn()
		case k == 22 && g.room(12) && g.depth < 3 && mut:
			if g.room(40) && g.depth < 2 && g.pct(60, "jumpnest") {
				return g.jumpNest()
			}
			return g.cFor()
		case k == 23 && g.room(40) && g.depth < 2 && mut:
			return g.jumpNest()
		case k <= 24:
			return g.caseStmt()
		case k <= 26 || len(g.funcs) > 0 && k >= 41 && k <= 43:
			if c, ok := g.call(); ok {
				if g.pct(40, "callstatus") {
					return list2{c, text(`echo "rc=$?"`)}
				}
				return c
			}
		case k <= 28 && g.depth < 3:
			return g.subshell()
		case k <= 31 && g.depth < 3 && g.noPipe == 0:
			return g.pipeline()
		case k <= 33 && g.inSubst == 0:
			return g.hereDoc()
		case k == 34:
			return g.hereString()
		case k <= 36 && file:
			return g.fileWrite()
		case k <= 38 && file:
			return g.fileRead()
		case k == 39 && mut && g.inCond == 0:
			return g.setOpt()
		case k == 40 && mut && g.depth == 0 && g.inSub == 0:
			return g.trap()
		case k <= 42:
			return g.andOr()
		case k == 43 && g.inPipe == 0:
			if g.noPipe == 0 && g.pct(50, "e2o") {
				return g.err2out()
			}
			return g.toStderr()
		case k == 44 && mut && !g.noLeave():
			if g.inFunc && !(g.inSub > 0 && vh.Excluded(FindSubReturn)) {
				return g.returnStmt()
			}
			if g.inSub > 0 || g.pct(30, "topexit") {
				return g.exitStmt()
			}
		case k == 45:
			if g.o.Simp {
				return g.simpStmt()
			}
			g.spend(1)
			return g.neg(g.cond(1))
		}
		if loopBody && g.loops > 0 && g.pct(50, "jumpinstead") {
			return g.guardedJump()
		}
	}
	return g.echo()
}

func (g *g) stmts(lo, hi int, loopBody bool) list {
	n := g.n(lo, hi, "nstmts")
	var l list
	for i := 0; i < n; i++ {
		if g.o.Simp && g.pct(35, "simpstmt") && g.room(2) {
			l = append(l, g.simpStmt())
			continue
		}
		if loopBody && g.loops > 0 && g.pct(18, "jump") {
			l = append(l, g.guardedJump())
			continue
		}
		l = append(l, g.stmt(loopBody))
	}
	if g.padLists && g.depth > 0 && len(l) > 0 {
		switch l[len(l)-1].(type) {
		case binary, not, ifClause:
			// a failure ignored by errexit must not become the status of
			// the enclosing compound command (finding)
			l = append(l, text(":"))
		}
	}
	return l
}

// Program draws one runnable program.
func Program(t *rapid.T, o Opts) string {
	g := &g{t: t, o: o, budget: 600, mult: 1}
	var sb strings.Builder
	// prelude: every name of the pools holds a value of its kind
	fmt.Fprintf(&sb, "n=%d m=%d k=%d\n", g.n(0, 9, "n0"), g.n(0, 9, "m0"), g.n(0, 9, "k0"))
	fmt.Fprintf(&sb, "s=%s t=%s\n", g.cleanWord(), g.cleanWord())
	fmt.Fprintf(&sb, "u='%s' v='%s' w=%s x=%s y=\n", g.pick(anyWords, "u0"), g.pick(anyWords, "v0"), g.cleanWord(), g.cleanWord())
	// p and q hold glob patterns; they are only ever used double-quoted on the
	// right of == = != inside [[ ]], where the quotes decide between literal
	// and pattern comparison
	fmt.Fprintf(&sb, "p='%s' q='%s'\n", g.pick(patterns, "p0"), g.pick(patterns, "q0"))
	na := g.n(0, 4, "alen")
	as := make([]string, na)
	for i := range as {
		as[i] = g.pick(append(append([]string{}, cleanWords...), "'a b'", "1", "''"), "a0")
	}
	fmt.Fprintf(&sb, "a=(%s) b=(%s)\n", strings.Join(as, " "), g.pick([]string{"", "p", "p q", "1 2 3"}, "b0"))
	if g.pct(30, "setargs") {
		g.posArgs = true
		sb.WriteString("set -- " + strings.Join(g.plainWords(1, 3), " ") + "\n")
	}
	var body list
	nf := g.n(0, 3, "nfuncs")
	// bash does not run the ERR trap inside functions (no errtrace); the
	// interpreter does (finding)
	wantErrTrap := g.pct(25, "errtrapprog")
	if wantErrTrap && vh.Excluded(FindErrTrapRep) {
		// the interpreter runs the ERR trap again for every enclosing
		// compound command and for exit (finding): flat programs only
		g.flat = true
		nf = 0
	}
	g.noErrTrp = !wantErrTrap || nf > 0 && vh.Excluded(FindErrTrapFn)
	g.noSetE = !g.pct(30, "errexitprog")
	g.exitTrap = g.pct(25, "exittrapprog")
	g.padLists = (!g.noSetE || !g.noErrTrp) && vh.Excluded(FindErrexitCmp)
	g.noNegCall = !g.noSetE && vh.Excluded(FindErrexitNeg)
	g.noCondSub = !g.noSetE && vh.Excluded(FindErrexitSub)
	top := g.n(2, 8, "ntop")
	// functions are declared before the statements that may call them,
	// interleaved with other statements
	for i := 0; i < top; i++ {
		if nf > 0 && len(g.funcs) < len(fnNames) && (i == 0 || g.pct(30, "fnhere")) {
			body = append(body, g.funcDecl())
			nf--
		}
		if o.Simp && g.pct(30, "simptop") {
			body = append(body, g.simpStmt())
			continue
		}
		body = append(body, g.stmt(false))
	}
	// errexit, pipefail and traps are rare as random statements: place them
	// on purpose in the programs chosen for them
	insert := func(n node, label string) {
		i := g.n(0, len(body), label)
		body = append(body[:i:i], append(list{n}, body[i:]...)...)
	}
	if !g.noSetE && g.pct(60, "sete") {
		g.errexit = true
		insert(text("set -e"), "setepos")
	}
	if g.pct(8, "pipefail") {
		insert(text("set -o pipefail"), "pfpos")
	}
	if g.exitTrap && g.pct(60, "exittrap") {
		insert(text(`trap 'echo "bye $?"' EXIT`), "exittrappos")
	}
	if !g.noErrTrp && g.pct(70, "errtrap") {
		g.errTrap = true
		insert(text(`trap 'echo "err $?"' ERR`), "errtrappos")
	}
	if g.pct(40, "finalstatus") {
		body = append(body, g.status())
	}
	var head strings.Builder
	if g.errexit {
		// the interpreter documents that command substitutions always
		// inherit errexit (shopt inherit_errexit cannot be turned off)
		head.WriteString("shopt -s inherit_errexit\n")
	}
	if g.lastpipe && (vh.Excluded(FindLastPipe) || g.pct(70, "lastpipehdr")) {
		// without lastpipe bash runs the last stage in a subshell and the
		// interpreter does not (finding): with it both use the current shell
		head.WriteString("shopt -s lastpipe\n")
	}
	l := &layout{unit: "\t"}
	if o.Noise {
		seed := g.n(0, 1<<16, "layout")
		if seed != 0 {
			l.state = uint32(seed)
			l.unit = []string{"\t", "  ", "", "    ", " ", "\t\t"}[seed%6]
			l.thenNL = seed&8 != 0
			l.doNL = seed&16 != 0
			l.blank = []int{0, 10, 25}[(seed>>5)%3]
			l.comment = []int{0, 0, 8, 20}[(seed>>7)%4]
		}
	}
	layMu.Lock()
	defer layMu.Unlock()
	lay = l
	defer func() { lay = &layout{unit: "\t"} }()
	return finish(head.String() + sb.String() + body.block(""))
}
