package grun

import (
	"mvdan.cc/sh/v3/syntax"
)

// Syntactic classes of the confirmed C26 findings (predicates over the
// program, never over its outcome).

func funcNames(f *syntax.File) map[string]bool {
	funcs := map[string]bool{}
	syntax.Walk(f, func(n syntax.Node) bool {
		if fd, ok := n.(*syntax.FuncDecl); ok && fd.Name != nil {
			funcs[fd.Name.Value] = true
		}
		return true
	})
	return funcs
}

// enablesLastpipe reports whether the program runs shopt -s lastpipe.
func enablesLastpipe(f *syntax.File) bool {
	found := false
	syntax.Walk(f, func(n syntax.Node) bool {
		if c, ok := n.(*syntax.CallExpr); ok && cmdName(c) == "shopt" {
			for _, a := range c.Args[1:] {
				if a.Lit() == "lastpipe" {
					found = true
				}
			}
		}
		return !found
	})
	return found
}

var stateBuiltins = map[string]bool{
	"exit": true, "return": true, "cd": true, "set": true, "shopt": true, "trap": true, "shift": true, "eval": true,
	"source": true, ".": true, "exec": true, "export": true, "readonly": true, "alias": true, "unalias": true, "unset": true,
	"pushd": true, "popd": true, "wait": true, "let": true, "getopts": true, "mapfile": true, "readarray": true,
	"declare": true, "local": true, "typeset": true, "umask": true, "hash": true, "enable": true,
}

// stageEffects inspects a pipeline stage: ctl says it runs a command that
// changes shell state other than variables (or may do anything: a function
// call, a computed command name); writes lists the variables it assigns.
// Nested subshells and substitutions are not entered.
func stageEffects(st *syntax.Stmt, funcs map[string]bool) (ctl bool, writes map[string]bool) {
	writes = map[string]bool{}
	loops := 0
	var stack []syntax.Node
	var arith func(x syntax.ArithmExpr)
	arith = func(x syntax.ArithmExpr) {
		switch y := x.(type) {
		case *syntax.BinaryArithm:
			switch y.Op {
			case syntax.Assgn, syntax.AddAssgn, syntax.SubAssgn, syntax.MulAssgn, syntax.QuoAssgn, syntax.RemAssgn,
				syntax.AndAssgn, syntax.OrAssgn, syntax.XorAssgn, syntax.ShlAssgn, syntax.ShrAssgn:
				if w, ok := y.X.(*syntax.Word); ok {
					writes[w.Lit()] = true
				} else {
					ctl = true
				}
			}
			arith(y.X)
			arith(y.Y)
		case *syntax.UnaryArithm:
			if y.Op == syntax.Inc || y.Op == syntax.Dec {
				if w, ok := y.X.(*syntax.Word); ok {
					writes[w.Lit()] = true
				} else {
					ctl = true
				}
			}
			arith(y.X)
		case *syntax.ParenArithm:
			arith(y.X)
		}
	}
	syntax.Walk(st, func(n syntax.Node) bool {
		if n == nil {
			top := stack[len(stack)-1]
			stack = stack[:len(stack)-1]
			switch top.(type) {
			case *syntax.WhileClause, *syntax.ForClause:
				loops--
			}
			return true
		}
		switch x := n.(type) {
		case *syntax.Subshell, *syntax.CmdSubst, *syntax.ProcSubst:
			return false // no nil call follows a false return
		case *syntax.WhileClause:
			loops++
		case *syntax.ForClause:
			loops++
			if wi, ok := x.Loop.(*syntax.WordIter); ok && wi.Name != nil {
				writes[wi.Name.Value] = true
			}
		case *syntax.FuncDecl, *syntax.DeclClause, *syntax.LetClause:
			ctl = true
		case *syntax.ArithmCmd:
			arith(x.X)
		case *syntax.ArithmExp:
			arith(x.X)
		case *syntax.ParamExp:
			if x.Exp != nil && (x.Exp.Op == syntax.AssignUnset || x.Exp.Op == syntax.AssignUnsetOrNull) && x.Param != nil {
				writes[x.Param.Value] = true
			}
		case *syntax.CallExpr:
			if len(x.Args) == 0 {
				for _, as := range x.Assigns {
					if as.Name != nil {
						writes[as.Name.Value] = true
					}
				}
				break
			}
			name := cmdName(x)
			switch {
			case name == "":
				ctl = true
			case name == "break" || name == "continue":
				if loops == 0 || len(x.Args) > 1 {
					ctl = true
				}
			case name == "read":
				named := false
				for _, a := range x.Args[1:] {
					l := a.Lit()
					if l == "" {
						ctl = true
					} else if l[0] != '-' {
						writes[l] = true
						named = true
					}
				}
				if !named {
					writes["REPLY"] = true
				}
			case name == "printf" && len(x.Args) > 2 && x.Args[1].Lit() == "-v":
				writes[x.Args[2].Lit()] = true
			case stateBuiltins[name] || funcs[name]:
				ctl = true
			}
		}
		stack = append(stack, n)
		return true
	})
	return ctl, writes
}

// namesReadOutside lists the variable names referenced outside the span of
// the given statement.
func namesReadOutside(f *syntax.File, st *syntax.Stmt) map[string]bool {
	reads := map[string]bool{}
	from, to := st.Pos().Offset(), st.End().Offset()
	inside := func(n syntax.Node) bool {
		p := n.Pos()
		return p.IsValid() && p.Offset() >= from && p.Offset() < to
	}
	var arith func(x syntax.ArithmExpr)
	arith = func(x syntax.ArithmExpr) {
		switch y := x.(type) {
		case *syntax.Word:
			if l := y.Lit(); l != "" && syntax.ValidName(l) {
				reads[l] = true
			}
		case *syntax.BinaryArithm:
			arith(y.X)
			arith(y.Y)
		case *syntax.UnaryArithm:
			arith(y.X)
		case *syntax.ParenArithm:
			arith(y.X)
		}
	}
	syntax.Walk(f, func(n syntax.Node) bool {
		if n == nil {
			return true
		}
		if n == syntax.Node(st) {
			return false
		}
		switch x := n.(type) {
		case *syntax.ParamExp:
			if x.Param != nil && !inside(x) {
				reads[x.Param.Value] = true
			}
			if x.Index != nil {
				arith(x.Index)
			}
		case *syntax.ArithmExp:
			arith(x.X)
		case *syntax.ArithmCmd:
			arith(x.X)
		case *syntax.CStyleLoop:
			arith(x.Init)
			arith(x.Cond)
			arith(x.Post)
		case *syntax.Assign:
			if x.Index != nil {
				arith(x.Index)
			}
		case *syntax.UnaryTest:
			if x.Op == syntax.TsVarSet || x.Op == syntax.TsRefVar {
				if w, ok := x.X.(*syntax.Word); ok {
					reads[w.Lit()] = true
				}
			}
		case *syntax.CallExpr:
			// test -v name, declare -p name, export name...
			switch cmdName(x) {
			case "test", "[", "unset", "export", "readonly", "eval":
				for _, a := range x.Args[1:] {
					if l := a.Lit(); syntax.ValidName(l) {
						reads[l] = true
					}
				}
			}
		}
		return true
	})
	return reads
}

// LastStageChangesState reports whether the program (which does not enable
// lastpipe) has a pipeline whose last stage is not a subshell and changes
// shell state that is observable afterwards: it assigns (or reads into) a
// variable that is referenced outside the stage, or runs exit, return, a
// break or continue leaving the stage, cd, set, trap, shift, a declaration,
// a function (which may do any of these) or a computed command.
func LastStageChangesState(f *syntax.File) bool {
	if enablesLastpipe(f) {
		return false
	}
	funcs := funcNames(f)
	found := false
	syntax.Walk(f, func(n syntax.Node) bool {
		if found {
			return false
		}
		b, ok := n.(*syntax.BinaryCmd)
		if !ok || b.Op != syntax.Pipe && b.Op != syntax.PipeAll {
			return true
		}
		if _, sub := b.Y.Cmd.(*syntax.Subshell); sub {
			return true
		}
		ctl, writes := stageEffects(b.Y, funcs)
		if ctl {
			found = true
			return false
		}
		if len(writes) > 0 {
			reads := namesReadOutside(f, b.Y)
			for w := range writes {
				if reads[w] {
					found = true
				}
			}
		}
		return true
	})
	return found
}

// alwaysZero reports whether a statement is a simple command that cannot
// fail: echo, printf, :, true, break, continue without redirections, or a
// plain assignment without command substitution.
func alwaysZero(st *syntax.Stmt) bool {
	if st.Negated || st.Background || len(st.Redirs) > 0 {
		return false
	}
	c, ok := st.Cmd.(*syntax.CallExpr)
	if !ok {
		return false
	}
	if len(c.Args) == 0 {
		sub := false
		syntax.Walk(c, func(n syntax.Node) bool {
			switch n.(type) {
			case *syntax.CmdSubst, *syntax.ProcSubst, *syntax.ArithmExp:
				sub = true
			}
			return !sub
		})
		return !sub
	}
	switch cmdName(c) {
	case "echo", "printf", ":", "true", "break", "continue":
		return true
	}
	return false
}

// WhileBodyMayFail reports whether the program has a while or until loop
// whose body does not end in a command that always succeeds (the loop's
// status is then the status of that last command, which the interpreter
// replaces by 0).
func WhileBodyMayFail(f *syntax.File) bool {
	found := false
	syntax.Walk(f, func(n syntax.Node) bool {
		if w, ok := n.(*syntax.WhileClause); ok && len(w.Do) > 0 && !alwaysZero(w.Do[len(w.Do)-1]) {
			found = true
		}
		return !found
	})
	return found
}

// setsErrTrap reports whether the program installs an ERR trap.
func setsErrTrap(f *syntax.File) bool {
	found := false
	syntax.Walk(f, func(n syntax.Node) bool {
		if c, ok := n.(*syntax.CallExpr); ok && cmdName(c) == "trap" && len(c.Args) > 2 && c.Args[1].Lit() != "-" {
			for _, a := range c.Args[2:] {
				if l := a.Lit(); l == "ERR" || l == "SIGERR" || l == "err" {
					found = true
				}
			}
		}
		return !found
	})
	return found
}

// ErrTrapWithFunction reports whether the program installs an ERR trap and
// declares a function: bash (without errtrace) does not run the trap for
// commands failing inside a function body, the interpreter does.
func ErrTrapWithFunction(f *syntax.File) bool {
	return setsErrTrap(f) && len(funcNames(f)) > 0
}

// TestPrecedenceMisparse reports whether the program has a [[ ]] expression
// that the parser groups differently from bash: an && whose right side is
// directly an || expression ("a && b || c" is read as "a && (b || c)"); or a
// test/[ command mixing "!" with -a/-o, or -a with -o (interp/test_classic.go
// gives "!" the lowest precedence and groups -a/-o to the right).
func TestPrecedenceMisparse(f *syntax.File) bool {
	found := false
	syntax.Walk(f, func(n syntax.Node) bool {
		switch x := n.(type) {
		case *syntax.BinaryTest:
			if b, ok := x.Y.(*syntax.BinaryTest); ok && x.Op == syntax.AndTest && b.Op == syntax.OrTest {
				found = true
			}
		case *syntax.CallExpr:
			if name := cmdName(x); name == "test" || name == "[" {
				var not, and, or bool
				for _, a := range x.Args[1:] {
					switch a.Lit() {
					case "!":
						not = true
					case "-a":
						and = true
					case "-o":
						or = true
					}
				}
				if not && (and || or) || and && or {
					found = true
				}
			}
		}
		return !found
	})
	return found
}

// ExitTrapInSubshell reports whether an EXIT trap is installed inside ( ),
// $( ) or a pipeline stage other than the last: bash runs it when that
// subshell ends, the interpreter never does.
func ExitTrapInSubshell(f *syntax.File) bool {
	found := false
	var visit func(n syntax.Node, sub bool)
	visit = func(root syntax.Node, sub bool) {
		syntax.Walk(root, func(n syntax.Node) bool {
			if n == nil || found {
				return false
			}
			if n == root {
				return true
			}
			switch x := n.(type) {
			case *syntax.Subshell, *syntax.CmdSubst, *syntax.ProcSubst:
				visit(x, true)
				return false
			case *syntax.BinaryCmd:
				if x.Op == syntax.Pipe || x.Op == syntax.PipeAll {
					visit(x.X, true)
					visit(x.Y, sub)
					return false
				}
			case *syntax.Stmt:
				if x.Background {
					visit(x.Cmd, true)
					return false
				}
			case *syntax.CallExpr:
				if sub && cmdName(x) == "trap" && len(x.Args) > 2 && x.Args[1].Lit() != "-" {
					for _, a := range x.Args[2:] {
						if l := a.Lit(); l == "EXIT" || l == "0" || l == "exit" {
							found = true
						}
					}
				}
			}
			return true
		})
	}
	visit(f, false)
	return found
}

// ---------------------------------------------------------------------------

func isJump(st *syntax.Stmt) (n int, ok bool) {
	c, isCall := st.Cmd.(*syntax.CallExpr)
	if !isCall {
		return 0, false
	}
	switch cmdName(c) {
	case "break", "continue":
		n = 1
		if len(c.Args) > 1 {
			n = 2 // any explicit level counts as "may leave several loops"
			if c.Args[1].Lit() == "1" {
				n = 1
			}
		}
		return n, true
	}
	return 0, false
}

// StatementsAfterJump reports whether the program has a break or continue
// after which the interpreter keeps running commands that bash skips: the
// jump is nested below the top level of its loop body (in a group, if, case
// or && list) and is not the last thing there ("if c; then break; echo x;
// fi", "{ break; echo x; }", "c && break && echo x"), or leaves several
// loops from a loop that is itself nested that way.
func StatementsAfterJump(f *syntax.File) bool {
	found := false
	var scanList func(list []*syntax.Stmt, top, unsafe, outer bool)
	var scanStmt func(st *syntax.Stmt, unsafe, outer bool)
	scanList = func(list []*syntax.Stmt, top, unsafe, outer bool) {
		for i, st := range list {
			u := unsafe || i < len(list)-1
			if top {
				// directly in a loop body (or at the top of a shell
				// context): the loop notices the jump after the statement
				u = false
			}
			scanStmt(st, u, outer)
		}
	}
	scanStmt = func(st *syntax.Stmt, unsafe, outer bool) {
		if found || st == nil {
			return
		}
		if n, ok := isJump(st); ok {
			if unsafe || n > 1 && outer {
				found = true
			}
			return
		}
		switch x := st.Cmd.(type) {
		case *syntax.Block:
			scanList(x.Stmts, false, unsafe, outer)
		case *syntax.IfClause:
			for c := x; c != nil; c = c.Else {
				scanList(c.Cond, false, true, outer)
				scanList(c.Then, false, unsafe, outer)
			}
		case *syntax.CaseClause:
			for _, it := range x.Items {
				u := unsafe || it.Op != syntax.Break
				scanList(it.Stmts, false, u, outer)
			}
		case *syntax.WhileClause:
			scanList(x.Cond, false, true, outer || unsafe)
			scanList(x.Do, true, false, outer || unsafe)
		case *syntax.ForClause:
			scanList(x.Do, true, false, outer || unsafe)
		case *syntax.BinaryCmd:
			switch x.Op {
			case syntax.AndStmt:
				scanStmt(x.X, true, outer)
				scanStmt(x.Y, unsafe, outer)
			case syntax.OrStmt:
				scanStmt(x.X, unsafe, outer)
				scanStmt(x.Y, unsafe, outer)
			default:
				// the last stage may run in the current shell (lastpipe)
				scanStmt(x.Y, unsafe, outer)
			}
		}
	}
	// every shell context and function body is scanned on its own
	scanList(f.Stmts, true, false, false)
	syntax.Walk(f, func(n syntax.Node) bool {
		switch x := n.(type) {
		case *syntax.FuncDecl:
			scanStmt(x.Body, false, false)
		case *syntax.Subshell:
			scanList(x.Stmts, true, false, false)
		case *syntax.CmdSubst:
			scanList(x.Stmts, true, false, false)
		case *syntax.ProcSubst:
			scanList(x.Stmts, true, false, false)
		case *syntax.BinaryCmd:
			if x.Op == syntax.Pipe || x.Op == syntax.PipeAll {
				scanStmt(x.X, false, false)
			}
		}
		return !found
	})
	return found
}

// setsErrexit reports whether the program turns errexit on.
func setsErrexit(f *syntax.File) bool {
	found := false
	syntax.Walk(f, func(n syntax.Node) bool {
		if c, ok := n.(*syntax.CallExpr); ok && cmdName(c) == "set" {
			for i, a := range c.Args[1:] {
				l := a.Lit()
				if len(l) > 1 && l[0] == '-' && l[1] != '-' && l != "-o" && containsByte(l, 'e') {
					found = true
				}
				if l == "errexit" && i > 0 && c.Args[i].Lit() == "-o" {
					found = true
				}
			}
		}
		return !found
	})
	return found
}

func containsByte(s string, b byte) bool {
	for i := 0; i < len(s); i++ {
		if s[i] == b {
			return true
		}
	}
	return false
}

// ErrexitCompoundIgnoredFailure reports whether the program enables errexit
// (or installs an ERR trap, which follows the same rules) and has a group, if, loop or case whose status can be a failure that
// happened while errexit was being ignored (a list ending in an && / ||
// list or a negated command): bash and POSIX do not apply errexit to the
// compound command then, the interpreter exits.
func ErrexitCompoundIgnoredFailure(f *syntax.File) bool {
	if !setsErrexit(f) && !setsErrTrap(f) {
		return false
	}
	found := false
	tail := func(list []*syntax.Stmt) {
		if len(list) == 0 {
			return
		}
		st := list[len(list)-1]
		if st.Negated {
			found = true
		}
		if b, ok := st.Cmd.(*syntax.BinaryCmd); ok && (b.Op == syntax.AndStmt || b.Op == syntax.OrStmt) {
			found = true
		}
	}
	syntax.Walk(f, func(n syntax.Node) bool {
		switch x := n.(type) {
		case *syntax.Block:
			tail(x.Stmts)
		case *syntax.IfClause:
			tail(x.Then)
		case *syntax.WhileClause:
			tail(x.Do)
		case *syntax.ForClause:
			tail(x.Do)
		case *syntax.CaseClause:
			for _, it := range x.Items {
				tail(it.Stmts)
			}
		}
		return !found
	})
	return found
}

// StatusAfterSubstitution reports whether a simple command expands $? after
// a command substitution of the same command (bash: the substitution's
// status; the interpreter: the previous command's), or calls a function of
// the program that reads $? with a command substitution among the arguments.
func StatusAfterSubstitution(f *syntax.File) bool {
	readsStatus := map[string]bool{}
	syntax.Walk(f, func(n syntax.Node) bool {
		if fd, ok := n.(*syntax.FuncDecl); ok && fd.Name != nil {
			syntax.Walk(fd.Body, func(m syntax.Node) bool {
				if p, ok := m.(*syntax.ParamExp); ok && p.Param != nil && p.Param.Value == "?" {
					readsStatus[fd.Name.Value] = true
				}
				return true
			})
		}
		return true
	})
	found := false
	check := func(root syntax.Node, fn bool) {
		seen := false
		syntax.Walk(root, func(n syntax.Node) bool {
			switch x := n.(type) {
			case *syntax.CmdSubst:
				if seen {
					// $? at the start of a later substitution of the same
					// command sees the earlier one's status, too
					syntax.Walk(x, func(m syntax.Node) bool {
						if p, ok := m.(*syntax.ParamExp); ok && p.Param != nil && p.Param.Value == "?" {
							found = true
						}
						return !found
					})
				}
				seen = true
				if fn {
					found = true
				}
				return false
			case *syntax.ParamExp:
				if seen && x.Param != nil && x.Param.Value == "?" {
					found = true
				}
			}
			return !found
		})
	}
	syntax.Walk(f, func(n syntax.Node) bool {
		switch x := n.(type) {
		case *syntax.CallExpr:
			check(x, readsStatus[cmdName(x)])
		case *syntax.DeclClause:
			check(x, false)
		}
		return !found
	})
	return found
}

// ReturnInSubshell reports whether a function body uses return inside ( ),
// $( ) or a pipeline stage other than the last (bash: ends that subshell
// with the given status; the interpreter: "return: can only be done from a
// func", status 1, and the subshell goes on).
func ReturnInSubshell(f *syntax.File) bool {
	found := false
	var visit func(root syntax.Node, sub bool)
	visit = func(root syntax.Node, sub bool) {
		syntax.Walk(root, func(n syntax.Node) bool {
			if n == nil || found {
				return false
			}
			if n == root {
				return true
			}
			switch x := n.(type) {
			case *syntax.Subshell, *syntax.CmdSubst, *syntax.ProcSubst:
				visit(x, true)
				return false
			case *syntax.BinaryCmd:
				if x.Op == syntax.Pipe || x.Op == syntax.PipeAll {
					visit(x.X, true)
					visit(x.Y, sub)
					return false
				}
			case *syntax.CallExpr:
				if sub && cmdName(x) == "return" {
					found = true
				}
			}
			return true
		})
	}
	syntax.Walk(f, func(n syntax.Node) bool {
		if fd, ok := n.(*syntax.FuncDecl); ok {
			visit(fd.Body, false)
		}
		return !found
	})
	return found
}

// ---------------------------------------------------------------------------

// ErrTrapRepeated reports whether the program installs an ERR trap and has,
// outside subshell contexts, a compound command or function (the interpreter
// runs the trap again for every enclosing compound command a failure
// propagates through) or an exit/return command (the interpreter runs the
// trap for "exit 7" itself).
func ErrTrapRepeated(f *syntax.File) bool {
	if !setsErrTrap(f) {
		return false
	}
	found := false
	var visit func(root syntax.Node)
	visit = func(root syntax.Node) {
		syntax.Walk(root, func(n syntax.Node) bool {
			if n == nil || found {
				return false
			}
			switch x := n.(type) {
			case *syntax.Subshell, *syntax.CmdSubst, *syntax.ProcSubst:
				return false
			case *syntax.BinaryCmd:
				if x.Op == syntax.Pipe || x.Op == syntax.PipeAll {
					visit(x.Y)
					return false
				}
			case *syntax.Block, *syntax.IfClause, *syntax.WhileClause, *syntax.ForClause, *syntax.CaseClause, *syntax.FuncDecl:
				found = true
			case *syntax.CallExpr:
				if name := cmdName(x); name == "exit" || name == "return" {
					found = true
				}
			}
			return true
		})
	}
	visit(f)
	return found
}

// ErrexitUnderNegation reports whether the program enables errexit (or an
// ERR trap) and negates a compound command or a call of one of its
// functions: bash ignores errexit in everything run under "!", the
// interpreter only for the negated command's own status.
func ErrexitUnderNegation(f *syntax.File) bool {
	if !setsErrexit(f) && !setsErrTrap(f) {
		return false
	}
	funcs := funcNames(f)
	found := false
	syntax.Walk(f, func(n syntax.Node) bool {
		if st, ok := n.(*syntax.Stmt); ok && st.Negated {
			cmd := st.Cmd
			switch x := cmd.(type) {
			case *syntax.Block, *syntax.IfClause, *syntax.WhileClause, *syntax.ForClause, *syntax.CaseClause:
				found = true
			case *syntax.CallExpr:
				if funcs[cmdName(x)] || len(x.Args) > 0 && cmdName(x) == "" {
					found = true
				}
			}
		}
		return !found
	})
	return found
}

func hasSubContext(n syntax.Node) bool {
	found := false
	syntax.Walk(n, func(m syntax.Node) bool {
		switch x := m.(type) {
		case *syntax.Subshell, *syntax.CmdSubst, *syntax.ProcSubst:
			found = true
		case *syntax.BinaryCmd:
			if x.Op == syntax.Pipe || x.Op == syntax.PipeAll {
				found = true
			}
		}
		return !found
	})
	return found
}

// funcsWithSub returns the functions whose body, or a function it calls,
// starts a subshell context.
func funcsWithSub(f *syntax.File) map[string]bool {
	bodies := map[string]*syntax.Stmt{}
	syntax.Walk(f, func(n syntax.Node) bool {
		if fd, ok := n.(*syntax.FuncDecl); ok && fd.Name != nil {
			bodies[fd.Name.Value] = fd.Body
		}
		return true
	})
	sub := map[string]bool{}
	for name, b := range bodies {
		if hasSubContext(b) {
			sub[name] = true
		}
	}
	for changed := true; changed; {
		changed = false
		for name, b := range bodies {
			if sub[name] {
				continue
			}
			syntax.Walk(b, func(n syntax.Node) bool {
				if c, ok := n.(*syntax.CallExpr); ok && sub[cmdName(c)] {
					sub[name] = true
					changed = true
				}
				return !sub[name]
			})
		}
	}
	return sub
}

// ErrexitIgnoredContextLostInSubshell reports whether the program enables
// errexit and starts a subshell context (( ), $( ), a pipeline, or a
// function doing so) where errexit is being ignored: in the condition of
// if/while/until, on the left of && or ||, or under "!". bash keeps ignoring
// errexit inside, the interpreter's subshell applies it again.
func ErrexitIgnoredContextLostInSubshell(f *syntax.File) bool {
	if !setsErrexit(f) {
		return false
	}
	subFuncs := funcsWithSub(f)
	found := false
	callsSub := func(n syntax.Node) bool {
		r := false
		syntax.Walk(n, func(m syntax.Node) bool {
			if c, ok := m.(*syntax.CallExpr); ok && (subFuncs[cmdName(c)] || len(c.Args) > 0 && cmdName(c) == "") {
				r = true
			}
			return !r
		})
		return r
	}
	var scanList func(list []*syntax.Stmt, ign bool)
	var scanStmt func(st *syntax.Stmt, ign bool)
	scanList = func(list []*syntax.Stmt, ign bool) {
		for _, st := range list {
			scanStmt(st, ign)
		}
	}
	scanStmt = func(st *syntax.Stmt, ign bool) {
		if found || st == nil {
			return
		}
		ign = ign || st.Negated
		if ign {
			if hasSubContext(st) || callsSub(st) {
				found = true
			}
			return
		}
		switch x := st.Cmd.(type) {
		case *syntax.Block:
			scanList(x.Stmts, false)
		case *syntax.Subshell:
			scanList(x.Stmts, false)
		case *syntax.IfClause:
			for c := x; c != nil; c = c.Else {
				scanList(c.Cond, true)
				scanList(c.Then, false)
			}
		case *syntax.WhileClause:
			scanList(x.Cond, true)
			scanList(x.Do, false)
		case *syntax.ForClause:
			scanList(x.Do, false)
		case *syntax.CaseClause:
			for _, it := range x.Items {
				scanList(it.Stmts, false)
			}
		case *syntax.FuncDecl:
			scanStmt(x.Body, false)
		case *syntax.BinaryCmd:
			switch x.Op {
			case syntax.AndStmt, syntax.OrStmt:
				scanStmt(x.X, true)
				scanStmt(x.Y, false)
			default:
				scanStmt(x.X, false)
				scanStmt(x.Y, false)
			}
		default:
			// substitutions inside a simple command: their bodies are
			// contexts of their own
			if st.Cmd != nil {
				syntax.Walk(st.Cmd, func(n syntax.Node) bool {
					switch y := n.(type) {
					case *syntax.CmdSubst:
						scanList(y.Stmts, false)
						return false
					case *syntax.ProcSubst:
						scanList(y.Stmts, false)
						return false
					}
					return !found
				})
			}
		}
	}
	scanList(f.Stmts, false)
	return found
}

// ForContinuesAfterReturn reports whether a for loop (word list or C style)
// has a return or exit in its body, in the same function body and shell
// context: bash leaves the loop variable as it is, the interpreter assigns
// the remaining words (or runs the post expression once more) before it
// stops.
func ForContinuesAfterReturn(f *syntax.File) bool {
	found := false
	var visit func(root syntax.Node, inFor bool)
	visit = func(root syntax.Node, inFor bool) {
		syntax.Walk(root, func(n syntax.Node) bool {
			if n == nil || found {
				return false
			}
			if n == root {
				return true
			}
			switch x := n.(type) {
			case *syntax.Subshell, *syntax.CmdSubst, *syntax.ProcSubst, *syntax.FuncDecl:
				visit(x, false)
				return false
			case *syntax.BinaryCmd:
				if x.Op == syntax.Pipe || x.Op == syntax.PipeAll {
					visit(x.X, false)
					visit(x.Y, inFor)
					return false
				}
			case *syntax.ForClause:
				if !inFor {
					visit(x, true)
					return false
				}
			case *syntax.CallExpr:
				if name := cmdName(x); inFor && (name == "return" || name == "exit") {
					found = true
				}
			}
			return true
		})
	}
	visit(f, false)
	return found
}

// setsExitTrap reports whether the program installs an EXIT trap.
func setsExitTrap(f *syntax.File) bool {
	found := false
	syntax.Walk(f, func(n syntax.Node) bool {
		if c, ok := n.(*syntax.CallExpr); ok && cmdName(c) == "trap" && len(c.Args) > 2 && c.Args[1].Lit() != "-" {
			for _, a := range c.Args[2:] {
				if l := a.Lit(); l == "EXIT" || l == "0" || l == "exit" {
					found = true
				}
			}
		}
		return !found
	})
	return found
}

// ExitTrapUnderRedirection reports whether the program installs an EXIT trap
// and has a command with a redirection of standard output inside which the
// shell may exit (an exit command, a function call, or anything at all when
// errexit is on): bash runs the trap with the redirection still in place,
// the interpreter after it was undone.
func ExitTrapUnderRedirection(f *syntax.File) bool {
	if !setsExitTrap(f) {
		return false
	}
	funcs := funcNames(f)
	errexit := setsErrexit(f)
	found := false
	syntax.Walk(f, func(n syntax.Node) bool {
		st, ok := n.(*syntax.Stmt)
		if !ok || st.Cmd == nil {
			return !found
		}
		out := false
		for _, rd := range st.Redirs {
			switch rd.Op {
			case syntax.RdrOut, syntax.AppOut, syntax.RdrAll, syntax.AppAll, syntax.ClbOut, syntax.DplOut, syntax.RdrInOut:
				if rd.N == nil || rd.N.Value == "1" {
					out = true
				}
			}
		}
		if !out {
			return !found
		}
		if errexit {
			found = true
		}
		syntax.Walk(st.Cmd, func(m syntax.Node) bool {
			if c, ok := m.(*syntax.CallExpr); ok {
				if name := cmdName(c); name == "exit" || funcs[name] || len(c.Args) > 0 && name == "" {
					found = true
				}
			}
			return !found
		})
		return !found
	})
	return found
}
