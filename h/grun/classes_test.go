package grun

import "testing"

func TestClasses(t *testing.T) {
	type tc struct {
		src  string
		want bool
	}
	run := func(name string, pred func(string) bool, cases []tc) {
		for _, c := range cases {
			if got := pred(c.src); got != c.want {
				t.Errorf("%s(%q) = %v, want %v", name, c.src, got, c.want)
			}
		}
	}
	mk := func(p func(src string) bool) func(string) bool { return p }
	run("LastStageChangesState", mk(func(s string) bool { f, err := Parse(s); return err == nil && LastStageChangesState(f) }), []tc{
		{"true | x=1; echo $x", true},
		{"true | x=1; echo done", false},
		{"echo a | read v; echo $v", true},
		{"echo a | while read l; do echo $l; done", false},
		{"echo a | while read l; do n=$((n+1)); done; echo $n", true},
		{"true | exit 3; echo after", true},
		{"shopt -s lastpipe; true | x=1; echo $x", false},
		{"true | (x=1); echo $x", false},
		{"echo a | cat | tr a b", false},
		{"f() { x=1; }; true | f; echo $x", true},
		{"for i in 1; do echo a | while read l; do break; done; done", false},
		{"for i in 1; do echo a | break; done", true},
	})
	run("WhileBodyMayFail", mk(func(s string) bool { f, err := Parse(s); return err == nil && WhileBodyMayFail(f) }), []tc{
		{"while x; do false; done", true},
		{"while x; do false; echo a; done", false},
		{"until x; do y=$(z); done", true},
		{"while x; do y=1; done", false},
		{"for i in 1; do false; done", false},
	})
	run("TestPrecedenceMisparse", mk(func(s string) bool { f, err := Parse(s); return err == nil && TestPrecedenceMisparse(f) }), []tc{
		{"[[ ! -z a && -z b ]]", false},
		{"[[ ! ( -z a && -z b ) ]]", false},
		{"[[ -z a && ! -z b ]]", false},
		{"[[ a == b && c == d || e == f ]]", true},
		{"[[ a == b || c == d && e == f ]]", false},
		{"[[ a == b && ( c == d || e == f ) ]]", false},
		{"[ ! a = b -a c = d ]", true},
		{"[ a = b -a c = d ]", false},
	})
	run("StatementsAfterJump", mk(func(s string) bool { f, err := Parse(s); return err == nil && StatementsAfterJump(f) }), []tc{
		{"for i in 1; do if true; then break; echo bad; fi; done", true},
		{"for i in 1; do if true; then break; fi; echo ok; done", false},
		{"for i in 1; do break; echo x; done", false},
		{"for i in 1; do { break; echo x; }; done", true},
		{"for i in 1; do true && break && echo x; done", true},
		{"for i in 1; do true && break; done", false},
		{"for i in 1; do true || continue; echo x; done", false},
		{"for i in 1; do case x in x) continue ;; esac; echo y; done", false},
		{"for i in 1; do if true; then for j in 1; do break 2; done; echo bad; fi; done", true},
		{"for i in 1; do for j in 1; do break 2; done; echo skipped; done", false},
	})
	run("ErrexitCompoundIgnoredFailure", mk(func(s string) bool { f, err := Parse(s); return err == nil && ErrexitCompoundIgnoredFailure(f) }), []tc{
		{"set -e; { false && true; }; echo here", true},
		{"{ false && true; }; echo here", false},
		{"set -e; if true; then ! true; fi", true},
		{"set -e; for i in 1; do false && true; echo x; done", false},
		{"trap 'echo e' ERR; { false || false; }", true},
		{"set -eu; while x; do a && b; done", true},
	})
	run("StatusAfterSubstitution", mk(func(s string) bool { f, err := Parse(s); return err == nil && StatusAfterSubstitution(f) }), []tc{
		{`echo "$(false)" $?`, true},
		{`echo $? "$(false)"`, false},
		{`x=$(false); echo $?`, false},
		{`echo "$(true)" "$(echo $?)"`, true},
		{`echo "$(echo $?)" a`, false},
		{`f() { echo "st=$?"; }; f "$(true)"`, true},
		{`f() { echo hi; }; f "$(true)"`, false},
	})
	run("ReturnInSubshell", mk(func(s string) bool { f, err := Parse(s); return err == nil && ReturnInSubshell(f) }), []tc{
		{"f() { (return 3); }", true},
		{"f() { return 3; }", false},
		{"f() { echo a | return 3; }", false},
		{"f() { return 3 | cat; }", true},
		{"f() { x=$(return 1); }", true},
	})
	run("ErrTrapWithFunction", mk(func(s string) bool { f, err := Parse(s); return err == nil && ErrTrapWithFunction(f) }), []tc{
		{"trap 'echo e' ERR; f() { false; }; f", true},
		{"trap 'echo e' EXIT; f() { false; }; f", false},
		{"trap - ERR; f() { false; }; f", false},
	})
	run("ExitTrapInSubshell", mk(func(s string) bool { f, err := Parse(s); return err == nil && ExitTrapInSubshell(f) }), []tc{
		{"(trap 'echo s' EXIT; echo x)", true},
		{"trap 'echo s' EXIT; (echo x)", false},
		{"x=$(trap 'echo s' EXIT)", true},
		{"{ trap 'echo s' EXIT; } | cat", true},
	})
	run("ForContinuesAfterReturn", mk(func(s string) bool { f, err := Parse(s); return err == nil && ForContinuesAfterReturn(f) }), []tc{
		{"f() { for x in a b; do return 3; done; }", true},
		{"f() { for x in a b; do (exit 3); done; }", false},
		{"f() { while x; do return 3; done; }", false},
		{"for x in a; do if y; then exit 1; fi; done", true},
		{"for x in a; do g() { return 1; }; done", false},
		{"for ((i=0;i<3;i++)); do for x in a; do :; done; exit 2; done", true},
		{"for x in a; do echo $x | exit 3; done", true},
	})
	run("ExitTrapUnderRedirection", mk(func(s string) bool { f, err := Parse(s); return err == nil && ExitTrapUnderRedirection(f) }), []tc{
		{"trap 'echo bye' EXIT; { exit 3; } > f1", true},
		{"trap 'echo bye' EXIT; { echo a; } > f1", false},
		{"trap 'echo bye' EXIT; set -e; { echo a; } > f1", true},
		{"{ exit 3; } > f1", false},
		{"trap 'echo bye' EXIT; { exit 3; } 2>&1", false},
		{"trap 'echo bye' EXIT; f() { :; }; f >> f2", true},
	})
	run("ErrTrapRepeated", mk(func(s string) bool { f, err := Parse(s); return err == nil && ErrTrapRepeated(f) }), []tc{
		{"trap 'echo e' ERR; { false; }", true},
		{"trap 'echo e' ERR; false; echo x", false},
		{"trap 'echo e' ERR; (if x; then y; fi); false", false},
		{"trap 'echo e' ERR; exit 7", true},
		{"trap 'echo e' ERR; false && true; x=$(for i in 1; do false; done)", false},
	})
	run("ErrexitUnderNegation", mk(func(s string) bool { f, err := Parse(s); return err == nil && ErrexitUnderNegation(f) }), []tc{
		{"set -e; ! { false; echo in; }", true},
		{"set -e; f() { false; }; ! f", true},
		{"set -e; ! false", false},
		{"! { false; }", false},
	})
	run("ErrexitIgnoredContextLostInSubshell", mk(func(s string) bool {
		f, err := Parse(s)
		return err == nil && ErrexitIgnoredContextLostInSubshell(f)
	}), []tc{
		{"set -e; if (false; echo in); then echo yes; fi", true},
		{"set -e; (false; echo in) || echo no", true},
		{"set -e; x=$(false; echo in) || echo no", true},
		{"set -e; if true; then (false); fi", false},
		{"set -e; ! (false)", true},
		{"set -e; f() { (false); }; if f; then :; fi", true},
		{"set -e; f() { false; }; if f; then :; fi", false},
		{"set -e; if echo a | cat; then :; fi", true},
		{"set -e; true && (false)", false},
		{"if (false); then :; fi", false},
	})
}
