package grun

import (
	"regexp"
	"sort"
	"strings"
	"sync"
	"time"

	"mvdan.cc/sh/v3/syntax"
	"pgregory.net/rapid"

	"verifh/corpus"
	"verifh/oracle"
)

// Parse parses src as bash, keeping comments (what shfmt does).
func Parse(src string) (f *syntax.File, err error) {
	defer func() {
		if e := recover(); e != nil {
			f, err = nil, errPanic
		}
	}()
	return syntax.NewParser(syntax.Variant(syntax.LangBash), syntax.KeepComments(true)).Parse(strings.NewReader(src), "")
}

type panicErr struct{}

func (panicErr) Error() string { return "parser panicked" }

var errPanic = panicErr{}

// cmdName returns the literal name of a simple command ("" if not literal).
func cmdName(c *syntax.CallExpr) string {
	if len(c.Args) == 0 {
		return ""
	}
	return c.Args[0].Lit()
}

// Features lists the feature kinds of C26's statement that the program uses
// (syntactically), sorted.
func Features(f *syntax.File) []string {
	set := map[string]bool{}
	syntax.Walk(f, func(n syntax.Node) bool {
		switch x := n.(type) {
		case *syntax.IfClause:
			set["if"] = true
		case *syntax.WhileClause:
			set["while"] = true
		case *syntax.ForClause:
			if _, ok := x.Loop.(*syntax.CStyleLoop); ok {
				set["cfor"] = true
			} else {
				set["for"] = true
			}
		case *syntax.CaseClause:
			set["case"] = true
		case *syntax.FuncDecl:
			set["function"] = true
		case *syntax.Subshell:
			set["subshell"] = true
		case *syntax.CmdSubst:
			set["cmdsubst"] = true
		case *syntax.ArithmExp, *syntax.ArithmCmd:
			set["arith"] = true
		case *syntax.TestClause:
			set["[["] = true
		case *syntax.BinaryCmd:
			switch x.Op {
			case syntax.Pipe, syntax.PipeAll:
				set["pipeline"] = true
			default:
				set["andor"] = true
			}
		case *syntax.Stmt:
			if x.Negated {
				set["!"] = true
			}
		case *syntax.Redirect:
			switch x.Op {
			case syntax.Hdoc, syntax.DashHdoc:
				set["heredoc"] = true
			case syntax.WordHdoc:
				set["herestring"] = true
			case syntax.DplOut, syntax.DplIn:
				set["dupfd"] = true
			default:
				set["fileredir"] = true
			}
		case *syntax.Assign:
			if x.Array != nil || x.Index != nil {
				set["array"] = true
			}
		case *syntax.ParamExp:
			if x.Index != nil {
				set["array"] = true
			}
			if x.Exp != nil || x.Repl != nil || x.Slice != nil || x.Length {
				set["paramop"] = true
			}
		case *syntax.DeclClause:
			if x.Variant.Value == "local" {
				set["local"] = true
			}
		case *syntax.CallExpr:
			switch cmdName(x) {
			case "test", "[":
				set["test"] = true
			case "return":
				set["return"] = true
			case "break", "continue":
				set["break"] = true
			case "trap":
				set["trap"] = true
			case "read":
				set["read"] = true
			case "set":
				for _, a := range x.Args[1:] {
					switch a.Lit() {
					case "-e":
						set["errexit"] = true
					case "pipefail":
						set["pipefail"] = true
					}
				}
			}
		}
		return true
	})
	out := make([]string, 0, len(set))
	for k := range set {
		out = append(out, k)
	}
	sort.Strings(out)
	return out
}

// ---------------------------------------------------------------------------
// safety filter for corpus programs

var denyRe = regexp.MustCompile(`\.\.|~|\bPATH\b|\$0|\$\$|\$!|\$-|\bRANDOM\b|\bSECONDS\b|\bLINENO\b|\bBASHPID\b|\bPPID\b|\bEPOCH|\bBASH_|\bBASH\b|\bGOSH|\bUID\b|\bEUID\b|\bHOSTNAME\b|\bOSTYPE\b|\bMACHTYPE\b|\bSHLVL\b|\bPWD\b|\bOLDPWD\b|\bHOME\b|\bTMPDIR\b|\bUSER\b|/dev/(std|fd|tty|zero|urandom|random|tcp|udp)|\bINTERP_`)

var denyCmds = map[string]bool{
	"rm": true, "kill": true, "sudo": true, "sleep": true, "exec": true, "ulimit": true, "umask": true, "chmod": true,
	"chown": true, "mv": true, "cp": true, "curl": true, "wget": true, "nc": true, "ssh": true, "wait": true, "time": true,
	"times": true, "date": true, "coproc": true, "bg": true, "fg": true, "jobs": true, "disown": true, "enable": true,
	"pwd": true, "dirs": true, "pushd": true, "popd": true, "env": true, "printenv": true, "uname": true, "hostname": true,
	"whoami": true, "id": true, "ps": true, "mktemp": true, "ln": true, "find": true, "xargs": true, "sh": true, "bash": true,
	"source": true, ".": true, "eval": true, "command": true, "builtin": true, "type": true, "hash": true, "help": true,
	"alias": true, "unalias": true, "caller": true, "history": true, "fc": true, "suspend": true, "logout": true, "newgrp": true,
	"shopt": true, "ls": true, "getopts": true, "select": true, "yes": true, "touch": true, "tee": true, "mkfifo": true,
}

var absRe = regexp.MustCompile(`(?:^|[\s=:,])/[A-Za-z0-9_.~$]`)

// absPath reports whether the text mentions an absolute path other than
// /dev/null.
func absPath(v string) bool {
	for _, m := range absRe.FindAllStringIndex(v, -1) {
		rest := v[m[1]-2:]
		if !strings.HasPrefix(rest, "/dev/null") {
			return true
		}
	}
	return false
}

var hazardRe = regexp.MustCompile(`\.\.|~|\bPATH\b|\bHOME\b|\bTMPDIR\b|\bPWD\b|\bOLDPWD\b|/dev/(std|fd|tty|zero|urandom|random|tcp|udp)`)

var hazardCmds = map[string]bool{
	"rm": true, "kill": true, "sudo": true, "sleep": true, "exec": true, "ulimit": true, "umask": true, "chmod": true,
	"chown": true, "mv": true, "cp": true, "curl": true, "wget": true, "nc": true, "ssh": true, "ln": true, "find": true,
	"xargs": true, "sh": true, "bash": true, "source": true, ".": true, "eval": true, "command": true, "builtin": true,
	"enable": true, "yes": true, "tee": true, "mkfifo": true, "env": true, "coproc": true, "pushd": true, "popd": true,
}

// Hazard returns the reason why a program text must not be handed to the
// real bash at all (it could touch something outside its scratch directory
// or leave processes behind), or "". Every case is screened with it,
// because shrinking and text minimisation edit programs blindly.
func Hazard(src string, f *syntax.File) string {
	if m := hazardRe.FindString(src); m != "" {
		return "hazard:" + m
	}
	reason := ""
	syntax.Walk(f, func(n syntax.Node) bool {
		if reason != "" {
			return false
		}
		switch x := n.(type) {
		case *syntax.Stmt:
			if x.Background || x.Coprocess || x.Disown {
				reason = "hazard:background"
			}
		case *syntax.ProcSubst:
			reason = "hazard:procsubst"
		case *syntax.Lit:
			if absPath(x.Value) {
				reason = "hazard:abspath"
			}
		case *syntax.SglQuoted:
			if absPath(x.Value) {
				reason = "hazard:abspath"
			}
		case *syntax.CallExpr:
			name := cmdName(x)
			if len(x.Args) > 0 && name == "" {
				reason = "hazard:computed-command"
			}
			if hazardCmds[name] {
				reason = "hazard:" + name
			}
			if name == "cd" && (len(x.Args) == 1 || x.Args[1].Lit() == "") {
				reason = "hazard:cd"
			}
		}
		return true
	})
	return reason
}

// Unsafe returns the reason why a corpus program must not be handed to the
// real bash (or cannot be compared deterministically), or "".
func Unsafe(src string, f *syntax.File) string {
	if h := Hazard(src, f); h != "" {
		return h
	}
	if m := denyRe.FindString(src); m != "" {
		return "deny:" + m
	}
	if strings.ContainsAny(src, "\x00\r") {
		return "deny:byte"
	}
	if strings.HasSuffix(strings.TrimRight(src, "\n"), "\\") {
		return "deny:trailing-backslash"
	}
	reason := ""
	syntax.Walk(f, func(n syntax.Node) bool {
		if reason != "" {
			return false
		}
		switch x := n.(type) {
		case *syntax.Stmt:
			if x.Background || x.Coprocess || x.Disown {
				reason = "deny:background"
			}
		case *syntax.ProcSubst:
			reason = "deny:procsubst"
		case *syntax.TimeClause, *syntax.CoprocClause:
			reason = "deny:time"
		case *syntax.ExtGlob:
			reason = "deny:extglob"
		case *syntax.Lit:
			if absPath(x.Value) {
				reason = "deny:abspath"
			}
		case *syntax.SglQuoted:
			if absPath(x.Value) {
				reason = "deny:abspath"
			}
		case *syntax.CallExpr:
			name := cmdName(x)
			if len(x.Args) > 0 && name == "" {
				reason = "deny:computed-command"
			}
			if denyCmds[name] {
				reason = "deny:" + name
			}
			if name == "read" {
				for _, a := range x.Args[1:] {
					if l := a.Lit(); strings.HasPrefix(l, "-") && strings.ContainsAny(l, "tspneu") {
						reason = "deny:read-option"
					}
				}
			}
			if name == "cd" && len(x.Args) > 1 && x.Args[1].Lit() == "" {
				reason = "deny:cd-computed"
			}
			if name == "cd" && len(x.Args) == 1 {
				reason = "deny:cd-home"
			}
			if name == "set" {
				for _, a := range x.Args[1:] {
					l := a.Lit()
					if strings.HasPrefix(l, "-") && strings.ContainsAny(l, "xvnm") || l == "xtrace" || l == "verbose" || l == "noexec" {
						reason = "deny:set-option"
					}
				}
			}
		case *syntax.DeclClause:
			for _, a := range x.Args {
				if a.Name == nil && a.Value != nil {
					if l := a.Value.Lit(); l == "-p" || l == "-f" || l == "-F" || l == "-x" && len(x.Args) == 1 {
						reason = "deny:declare-listing"
					}
				}
			}
			if len(x.Args) == 0 {
				reason = "deny:declare-listing"
			}
		case *syntax.BinaryCmd:
			if x.Op == syntax.Pipe || x.Op == syntax.PipeAll {
				// stages run concurrently: a file one stage writes and
				// another reads is a race
				syntax.Walk(x, func(m syntax.Node) bool {
					if rd, ok := m.(*syntax.Redirect); ok {
						switch rd.Op {
						case syntax.RdrOut, syntax.AppOut, syntax.RdrAll, syntax.AppAll, syntax.RdrInOut, syntax.ClbOut:
							if rd.Word == nil || rd.Word.Lit() != "/dev/null" {
								reason = "deny:file-write-in-pipeline"
							}
						}
					}
					return true
				})
			}
		case *syntax.WhileClause:
			// while true / until false / while : never end
			if len(x.Cond) == 1 {
				if c, ok := x.Cond[0].Cmd.(*syntax.CallExpr); ok && len(x.Cond[0].Redirs) == 0 {
					switch cmdName(c) {
					case "true", ":", "false":
						reason = "deny:endless-loop"
					}
				}
			}
		case *syntax.CStyleLoop:
			if x.Cond == nil {
				reason = "deny:endless-loop"
			}
		case *syntax.ForClause:
			if x.Select {
				// interactive construct: menu and prompt go to stderr, bash
				// echoes a newline to stdout at end of input
				reason = "deny:select"
			}
		}
		return true
	})
	return reason
}

// Reflective names a construct whose output reflects the program's own
// layout or text (so formatting may legitimately change it), or "".
func Reflective(src string, f *syntax.File) string {
	for _, w := range []string{"LINENO", "BASH_COMMAND", "BASH_SOURCE", "FUNCNAME", "BASH_LINENO", "BASH_ARGV"} {
		if strings.Contains(src, w) {
			return w
		}
	}
	r := ""
	syntax.Walk(f, func(n syntax.Node) bool {
		switch x := n.(type) {
		case *syntax.CallExpr:
			switch cmdName(x) {
			case "type", "alias", "caller", "history", "fc", "trap":
				if name := cmdName(x); name != "trap" || len(x.Args) == 1 || x.Args[1].Lit() == "-p" {
					r = name
				}
			case "set":
				if len(x.Args) == 1 {
					r = "set-listing"
				}
			case "command":
				for _, a := range x.Args[1:] {
					if l := a.Lit(); l == "-v" || l == "-V" {
						r = "command -v"
					}
				}
			}
		case *syntax.DeclClause:
			for _, a := range x.Args {
				if a.Name == nil && a.Value != nil {
					if l := a.Value.Lit(); strings.HasPrefix(l, "-") && strings.ContainsAny(l, "fFp") {
						r = "declare -f"
					}
				}
			}
			if len(x.Args) == 0 {
				r = "declare-listing"
			}
		}
		return r == ""
	})
	return r
}

var (
	corpOnce sync.Once
	corpProg []string
)

// CorpusPrograms returns the strings harvested from the interpreter's tests
// that parse as bash, are not trivially short, and pass the safety filter.
func CorpusPrograms() []string {
	corpOnce.Do(func() {
		for _, s := range corpus.From("interp") {
			if len(s) < 6 || len(s) > 2000 {
				continue
			}
			f, err := Parse(s)
			if err != nil || len(f.Stmts) == 0 {
				continue
			}
			if Unsafe(s, f) != "" {
				continue
			}
			if !looksLikeProgram(f) {
				continue
			}
			corpProg = append(corpProg, s)
		}
	})
	return corpProg
}

var knownCmds = map[string]bool{
	"echo": true, "printf": true, "true": true, "false": true, ":": true, "test": true, "[": true, "set": true, "unset": true,
	"read": true, "exit": true, "return": true, "break": true, "continue": true, "shift": true, "trap": true, "cat": true,
	"tr": true, "sort": true, "wc": true, "head": true, "tail": true, "seq": true, "rev": true, "cut": true, "uniq": true,
	"sed": true, "grep": true, "basename": true, "dirname": true, "mkdir": true, "cd": true, "let": true, "readarray": true,
	"mapfile": true, "rmdir": true,
}

// looksLikeProgram filters expected-output strings that happen to parse: the
// first command of every top-level statement must be a keyword construct, an
// assignment, a known command or a function defined in the text.
func looksLikeProgram(f *syntax.File) bool {
	funcs := map[string]bool{}
	syntax.Walk(f, func(n syntax.Node) bool {
		if fd, ok := n.(*syntax.FuncDecl); ok && fd.Name != nil {
			funcs[fd.Name.Value] = true
		}
		return true
	})
	ok := true
	calls := 0
	syntax.Walk(f, func(n syntax.Node) bool {
		switch c := n.(type) {
		case *syntax.CallExpr:
			calls++
			if name := cmdName(c); len(c.Args) > 0 && !knownCmds[name] && !funcs[name] {
				ok = false
			}
		case *syntax.TestClause, *syntax.ArithmCmd, *syntax.DeclClause, *syntax.LetClause:
			calls++
		}
		return ok
	})
	return ok && calls > 0
}

// ---------------------------------------------------------------------------
// argument / value mutation

var (
	numRe  = regexp.MustCompile(`^[1-9][0-9]?$|^0$`)
	wordRe = regexp.MustCompile(`^[a-zA-Z]{1,8}$`)
)

var mutWords = []string{"foo", "bar", "a", "b", "x", "zz", "hello", "A", "ab", "y"}

// mutable lists the literals that may be replaced: plain numbers and plain
// words in argument or value position of commands whose arguments are data.
func mutable(f *syntax.File) []*syntax.Lit {
	funcs := map[string]bool{}
	syntax.Walk(f, func(n syntax.Node) bool {
		if fd, ok := n.(*syntax.FuncDecl); ok && fd.Name != nil {
			funcs[fd.Name.Value] = true
		}
		return true
	})
	var out []*syntax.Lit
	addWord := func(w *syntax.Word) {
		if w == nil || len(w.Parts) != 1 {
			return
		}
		if l, ok := w.Parts[0].(*syntax.Lit); ok && (numRe.MatchString(l.Value) || wordRe.MatchString(l.Value)) {
			out = append(out, l)
		}
	}
	var arith func(x syntax.ArithmExpr)
	arith = func(x syntax.ArithmExpr) {
		switch y := x.(type) {
		case *syntax.Word:
			if l := y.Lit(); numRe.MatchString(l) && l != "0" {
				addWord(y)
			}
		case *syntax.BinaryArithm:
			if y.Op == syntax.Quo || y.Op == syntax.Rem || y.Op == syntax.QuoAssgn || y.Op == syntax.RemAssgn || y.Op == syntax.Pow || y.Op == syntax.Shl || y.Op == syntax.Shr {
				arith(y.X)
				return
			}
			arith(y.X)
			arith(y.Y)
		case *syntax.UnaryArithm:
			arith(y.X)
		case *syntax.ParenArithm:
			arith(y.X)
		}
	}
	syntax.Walk(f, func(n syntax.Node) bool {
		switch x := n.(type) {
		case *syntax.CallExpr:
			name := cmdName(x)
			switch {
			case name == "echo", name == "test", name == "[", funcs[name], name == "return", name == "exit":
				for _, a := range x.Args[1:] {
					addWord(a)
				}
			case name == "printf":
				if len(x.Args) > 2 {
					for _, a := range x.Args[2:] {
						addWord(a)
					}
				}
			case name == "set" && len(x.Args) > 1 && x.Args[1].Lit() == "--":
				for _, a := range x.Args[2:] {
					addWord(a)
				}
			}
			for _, as := range x.Assigns {
				addWord(as.Value)
			}
			if len(x.Args) == 0 {
				for _, as := range x.Assigns {
					if as.Array != nil {
						for _, e := range as.Array.Elems {
							if e.Index == nil {
								addWord(e.Value)
							}
						}
					}
				}
			}
		case *syntax.WordIter:
			for _, w := range x.Items {
				addWord(w)
			}
		case *syntax.CaseClause:
			addWord(x.Word)
		case *syntax.ArithmExp:
			arith(x.X)
		case *syntax.ArithmCmd:
			arith(x.X)
		case *syntax.BinaryTest:
			if w, ok := x.X.(*syntax.Word); ok {
				addWord(w)
			}
			if w, ok := x.Y.(*syntax.Word); ok && x.Op != syntax.TsReMatch {
				addWord(w)
			}
		case *syntax.Redirect:
			if x.Op == syntax.WordHdoc {
				addWord(x.Word)
			}
		}
		return true
	})
	sort.Slice(out, func(i, j int) bool { return out[i].Pos().Offset() < out[j].Pos().Offset() })
	// drop duplicates (a literal reached twice)
	var uniq []*syntax.Lit
	for i, l := range out {
		if i == 0 || out[i-1] != l {
			uniq = append(uniq, l)
		}
	}
	return uniq
}

// Mutate replaces 1..3 plain numbers or plain words of the program by other
// plain numbers or words; ok is false when the program has nothing to mutate.
func Mutate(t *rapid.T, src string, f *syntax.File) (out string, ok bool) {
	lits := mutable(f)
	if len(lits) == 0 {
		return src, false
	}
	n := rapid.IntRange(1, min(3, len(lits))).Draw(t, "nmut")
	repl := map[int]string{}
	for i := 0; i < n; i++ {
		k := rapid.IntRange(0, len(lits)-1).Draw(t, "mutlit")
		l := lits[k]
		if numRe.MatchString(l.Value) {
			repl[k] = rapid.SampledFrom([]string{"1", "2", "3", "4", "5", "7", "10", "12"}).Draw(t, "mutnum")
		} else {
			repl[k] = rapid.SampledFrom(mutWords).Draw(t, "mutword")
		}
	}
	out = src
	for k := len(lits) - 1; k >= 0; k-- {
		r, has := repl[k]
		if !has {
			continue
		}
		a, b := int(lits[k].Pos().Offset()), int(lits[k].End().Offset())
		if a < 0 || b > len(out) || a > b || out[a:b] != lits[k].Value {
			continue
		}
		out = out[:a] + r + out[b:]
	}
	return out, out != src
}

// ---------------------------------------------------------------------------
// running

// Outcome is what the properties compare.
type Outcome struct {
	Stdout  string
	Stderr  string
	Status  int
	Timeout bool
	// Infra is set when the run could not be carried out (not a verdict).
	Infra string
	// Denied lists open/exec attempts outside the confinement (interp only).
	Denied []string
	Panic  any
}

// SyntaxError reports whether bash rejected the program text (acceptance
// differences between the parsers belong to C12).
func (o Outcome) SyntaxError() bool {
	return strings.Contains(o.Stderr, "syntax error") || strings.Contains(o.Stderr, "unexpected EOF") || strings.Contains(o.Stderr, "unexpected end of file")
}

// Same reports whether stdout and status agree.
func (o Outcome) Same(p Outcome) bool { return o.Stdout == p.Stdout && o.Status == p.Status }

// Timeouts: a run that exceeds the first is repeated once with the second, so
// that a loaded machine (a fork can take hundreds of milliseconds) does not
// turn a slow run into a verdict.
var timeouts = []time.Duration{20 * time.Second, 75 * time.Second}

// Bash runs src under bash in a fresh directory.
func Bash(src string) (o Outcome) {
	for _, to := range timeouts {
		o = bashOnce(src, to)
		if !o.Timeout {
			break
		}
	}
	return o
}

func bashOnce(src string, to time.Duration) Outcome {
	d, err := oracle.NewDir()
	if err != nil {
		return Outcome{Infra: err.Error()}
	}
	defer oracle.RemoveDir(d)
	r := oracle.RunShell(src, oracle.Opts{Dir: d, Timeout: to})
	o := Outcome{Stdout: string(r.Stdout), Stderr: string(r.Stderr), Status: r.Status, Timeout: r.Timeout}
	if r.Err != nil {
		o.Infra = r.Err.Error()
	}
	return o
}

// Interp runs src under the interpreter in a fresh directory.
func Interp(src string) Outcome {
	f, err := syntax.NewParser(syntax.Variant(syntax.LangBash)).Parse(strings.NewReader(src), "")
	if err != nil {
		return Outcome{Infra: "parse: " + err.Error()}
	}
	return InterpFile(f)
}

// InterpFile runs a parsed program under the interpreter in a fresh
// directory.
func InterpFile(f *syntax.File) (o Outcome) {
	for _, to := range timeouts {
		o = interpOnce(f, to)
		if !o.Timeout {
			break
		}
	}
	return o
}

func interpOnce(f *syntax.File, to time.Duration) Outcome {
	d, err := oracle.NewDir()
	if err != nil {
		return Outcome{Infra: err.Error()}
	}
	defer oracle.RemoveDir(d)
	r := oracle.RunInterpFile(f, oracle.InterpOpts{Dir: d, Timeout: to})
	o := Outcome{Stdout: string(r.Stdout), Stderr: string(r.Stderr), Status: r.Status, Timeout: r.Timeout, Denied: r.Denied, Panic: r.Panic}
	if r.Err != nil {
		o.Infra = r.Err.Error()
	}
	return o
}
