// C03: Formatting never changes what a script does.
//
// A case is a runnable program (drawn by grun with layout noise, or a
// harvested interpreter test program that passes the safety filter) and a
// printer configuration. The program is formatted the way shfmt does (parse
// as bash keeping comments, print) and both texts are run by the SAME shell:
// (a) the in-process interpreter, (b) bash. Standard output and exit status
// must be equal. Differences between the interpreter and bash cannot raise an
// alarm here: they are never compared with each other.
package c03

import (
	"fmt"
	"os"
	"strings"
	"testing"

	"mvdan.cc/sh/v3/syntax"
	"pgregory.net/rapid"

	"verifh/gen"
	"verifh/grun"
	"verifh/sx"
	"verifh/synex"
	"verifh/vh"
)

func TestMain(m *testing.M) { vh.Main(m) }

type Case struct {
	Arm string         `json:"arm"` // gen | corpus
	Src string         `json:"src"`
	Cfg gen.PrinterCfg `json:"cfg"`
}

func genCase(t *rapid.T) Case {
	c := Case{Arm: "gen"}
	if rapid.IntRange(0, 3).Draw(t, "arm") == 0 {
		progs := grun.CorpusPrograms()
		c.Arm = "corpus"
		c.Src = progs[rapid.IntRange(0, len(progs)-1).Draw(t, "corpus")]
	} else {
		c.Src = grun.Program(t, grun.Opts{Noise: true})
	}
	c.Cfg = gen.Printer(t, false)
	if c.Cfg.Minify && c.Cfg.SingleLine {
		c.Cfg.SingleLine = false
	}
	return c
}

func skip(class string, more ...string) vh.Result {
	return vh.Result{Skipped: true, Classes: append([]string{class}, more...)}
}

func clip(s string) string {
	if len(s) > 500 {
		return s[:500] + "…"
	}
	return s
}

func check(c Case) (res vh.Result) {
	if c.Cfg.Minify && c.Cfg.SingleLine {
		return skip("minify+singleline")
	}
	f0, err := grun.Parse(c.Src)
	if err != nil {
		return skip(c.Arm + ":does-not-parse")
	}
	arm := "arm:" + c.Arm
	if h := grun.Hazard(c.Src, f0); h != "" {
		return skip(c.Arm+":"+h, arm)
	}
	if c.Arm == "corpus" {
		if r := grun.Unsafe(c.Src, f0); r != "" {
			return skip("corpus:"+r, arm)
		}
	}
	if r := grun.Reflective(c.Src, f0); r != "" {
		return skip("layout-reflecting", arm)
	}
	if strings.HasSuffix(strings.TrimRight(c.Src, "\n"), "\\") {
		return skip("trailing-backslash", arm)
	}
	if id := synex.Excluded(synex.NewCtx(c.Src, "bash", f0, c.Cfg)); id != "" {
		return skip("excluded:"+id, arm)
	}
	if id := excluded(c, f0); id != "" {
		return skip("excluded:"+id, arm)
	}
	out, perr, pn := sx.Print(f0, c.Cfg)
	if pn != nil {
		return vh.Fail("printing panicked: %v", pn)
	}
	if perr != nil {
		return vh.Fail("printing a parsed program failed: %v", perr)
	}
	res.Classes = append(res.Classes, arm)
	if c.Cfg.Minify {
		res.Classes = append(res.Classes, "cfg:minify")
	}
	if c.Cfg.SingleLine {
		res.Classes = append(res.Classes, "cfg:singleline")
	}
	if out == c.Src {
		res.Classes = append(res.Classes, "already-canonical")
		return res
	}
	// the interpreter: original vs formatted
	i0 := grun.Interp(c.Src)
	if i0.Infra != "" || i0.Timeout || i0.Panic != nil {
		return skip("original-unusable-under-interp", arm)
	}
	if len(i0.Denied) > 0 {
		return skip("leaves-confinement", arm)
	}
	f1, err := syntax.NewParser(syntax.Variant(syntax.LangBash)).Parse(strings.NewReader(out), "")
	if err != nil {
		return vh.Fail("the formatted program does not parse: %v\nformatted:\n%s\noriginal:\n%s", err, out, c.Src)
	}
	i1 := grun.InterpFile(f1)
	if i1.Panic != nil {
		return vh.Fail("the interpreter panicked on the formatted program only: %v\nformatted:\n%s", i1.Panic, out)
	}
	if i1.Timeout {
		return vh.Fail("the formatted program does not finish under the interpreter (original: status=%d)\nformatted:\n%s\noriginal:\n%s", i0.Status, out, c.Src)
	}
	if i1.Infra != "" || len(i1.Denied) > 0 {
		return skip("formatted-unusable-under-interp", arm)
	}
	if !i0.Same(i1) {
		return vh.Fail("interp: original status=%d stdout=%q; formatted status=%d stdout=%q\n%sformatted:\n%s\noriginal:\n%s",
			i0.Status, clip(i0.Stdout), i1.Status, clip(i1.Stdout), diffLine(i0.Stdout, i1.Stdout), out, c.Src)
	}
	// bash: original vs formatted
	b0 := grun.Bash(c.Src)
	if b0.Infra != "" || b0.Timeout {
		return skip("original-unusable-under-bash", arm)
	}
	if b0.SyntaxError() {
		// bash rejects the original text: acceptance is C12's domain
		res.Classes = append(res.Classes, "bash-rejects-original")
		res.Nontrivial = len(i0.Stdout) > 0 || i0.Status != 0
		return res
	}
	b1 := grun.Bash(out)
	if b1.Infra != "" {
		return skip("bash-infra", arm)
	}
	if b1.Timeout {
		return vh.Fail("the formatted program does not finish under bash (original: status=%d)\nformatted:\n%s\noriginal:\n%s", b0.Status, out, c.Src)
	}
	if !b0.Same(b1) {
		return vh.Fail("bash: original status=%d stdout=%q; formatted status=%d stdout=%q\n%sformatted:\n%s\noriginal:\n%s",
			b0.Status, clip(b0.Stdout), b1.Status, clip(b1.Stdout), diffLine(b0.Stdout, b1.Stdout), out, c.Src)
	}
	res.Nontrivial = len(b0.Stdout) > 0 || b0.Status != 0 || len(i0.Stdout) > 0 || i0.Status != 0
	return res
}

func diffLine(a, b string) string {
	la, lb := strings.Split(a, "\n"), strings.Split(b, "\n")
	for i := 0; i < len(la) || i < len(lb); i++ {
		x, y := "<none>", "<none>"
		if i < len(la) {
			x = la[i]
		}
		if i < len(lb) {
			y = lb[i]
		}
		if x != y {
			return fmt.Sprintf("first differing line %d: original %q, formatted %q\n", i+1, x, y)
		}
	}
	return ""
}

var prop = vh.Prop[Case]{ID: "C03", Gen: genCase, Check: check, Text: func(c *Case) *string { return &c.Src }}

func TestC03(t *testing.T) {
	if os.Getenv("VERIF_SURVEY") != "" {
		prop.Text = nil
	}
	vh.Run(t, prop)
}
