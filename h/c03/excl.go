package c03

import (
	"mvdan.cc/sh/v3/syntax"

	"verifh/vh"
)

type class struct {
	id    string
	match func(c Case, f *syntax.File) bool
}

// classes lists the C03-specific exclusion classes (the printer/parser
// classes shared with C01/C02 live in synex).
var classes = []class{}

func excluded(c Case, f *syntax.File) string {
	for _, cl := range classes {
		if vh.Excluded(cl.id) && cl.match(c, f) {
			return cl.id
		}
	}
	return ""
}
