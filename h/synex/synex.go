// Package synex holds the exclusion classes of the confirmed, unfixed
// findings about the parser/printer pair (known_findings.json). Each class
// is a syntactic predicate over the case (source text, variant, parsed tree,
// printer configuration) — never over the outcome — and is only active while
// its finding is listed as "known" (vh.Excluded).
package synex

import (
	"strings"

	"mvdan.cc/sh/v3/syntax"

	"verifh/gen"
	"verifh/norm"
	"verifh/vh"
)

// Class is one exclusion class.
type Class struct {
	ID   string
	What string
	// Match reports whether the case falls in the class.
	Match func(c *Ctx) bool
}

// Ctx is what predicates may look at.
type Ctx struct {
	Src   string
	Lang  string
	File  *syntax.File
	Cfg   gen.PrinterCfg
	Items []norm.Item
}

// NewCtx enumerates the tree once for all predicates.
func NewCtx(src, lang string, f *syntax.File, cfg gen.PrinterCfg) *Ctx {
	return &Ctx{Src: src, Lang: lang, File: f, Cfg: cfg, Items: norm.Enumerate(f)}
}

func isHdoc(r *syntax.Redirect) bool { return r.Op == syntax.Hdoc || r.Op == syntax.DashHdoc }

// text returns the source between two positions ("" if out of range).
func (c *Ctx) text(from, to syntax.Pos) string {
	a, b := int(from.Offset()), int(to.Offset())
	if !from.IsValid() || !to.IsValid() || a > b || b > len(c.Src) {
		return ""
	}
	return c.Src[a:b]
}

func (c *Ctx) anyNode(f func(i int, it norm.Item) bool) bool {
	for i, it := range c.Items {
		if f(i, it) {
			return true
		}
	}
	return false
}

// within reports whether item i lies below item anc.
func (c *Ctx) within(i, anc int) bool {
	for i >= 0 {
		if i == anc {
			return true
		}
		i = c.Items[i].Parent
	}
	return false
}

// hdocChain describes one here-document redirect: its operator position, the
// statement owning it, the outermost statement reached by walking up through
// BinaryCmd operands (the pipeline or && || chain), and where its body starts.
type hdocChain struct {
	op, body   syntax.Pos
	bodyEnd    syntax.Pos
	stmt, root int
}

func (c *Ctx) hdocChains() []hdocChain {
	var hds []hdocChain
	for i, it := range c.Items {
		r, ok := it.Node.(*syntax.Redirect)
		if !ok || !isHdoc(r) {
			continue
		}
		stmt := c.Items[i].Parent
		root := stmt
		for root >= 0 {
			par := c.Items[root].Parent
			if par < 0 {
				break
			}
			switch c.Items[par].Node.(type) {
			case *syntax.BinaryCmd, *syntax.TimeClause, *syntax.CoprocClause:
			default:
				par = -1
			}
			if par < 0 {
				break
			}
			root = c.Items[par].Parent
		}
		h := hdocChain{op: r.OpPos, stmt: stmt, root: root}
		if r.Hdoc != nil {
			h.body = r.Hdoc.Pos()
			h.bodyEnd = r.Hdoc.End()
		}
		hds = append(hds, h)
	}
	return hds
}

func hasHdocBelow(n syntax.Node) bool {
	for _, it := range norm.Enumerate(n) {
		if r, ok := it.Node.(*syntax.Redirect); ok && isHdoc(r) {
			return true
		}
	}
	return false
}

// Classes lists every exclusion class of the syntax family.
var Classes = []Class{
	{
		ID:   "C01-hdoc-in-hdoc-subst",
		What: "a here-document body containing a command substitution that itself has a here-document",
		Match: func(c *Ctx) bool {
			return c.anyNode(func(_ int, it norm.Item) bool {
				r, ok := it.Node.(*syntax.Redirect)
				if !ok || !isHdoc(r) || r.Hdoc == nil {
					return false
				}
				for _, p := range r.Hdoc.Parts {
					switch p.(type) {
					case *syntax.CmdSubst, *syntax.ProcSubst:
						if hasHdocBelow(p) {
							return true
						}
					}
				}
				return false
			})
		},
	},
	{
		ID:   "C01-hdoc-backslash-newline",
		What: "an unquoted <<- here-document body with a backslash-newline, or any here-document body ending in backslash-newline",
		Match: func(c *Ctx) bool {
			return c.anyNode(func(_ int, it norm.Item) bool {
				r, ok := it.Node.(*syntax.Redirect)
				if !ok || !isHdoc(r) || r.Hdoc == nil {
					return false
				}
				body := c.text(r.Hdoc.Pos(), r.Hdoc.End())
				if strings.HasSuffix(body, "\\\n") {
					return true
				}
				return r.Op == syntax.DashHdoc && strings.Contains(body, "\\\n")
			})
		},
	},
	{
		ID:   "C01-func-nonblock-body",
		What: "a function declared with the function keyword and no parentheses whose body is not a { } block, or a zsh anonymous function (non-block body, or written as () { })",
		Match: func(c *Ctx) bool {
			return c.anyNode(func(_ int, it norm.Item) bool {
				fd, ok := it.Node.(*syntax.FuncDecl)
				if !ok || fd.Body == nil {
					return false
				}
				_, block := fd.Body.Cmd.(*syntax.Block)
				anon := fd.Name == nil && len(fd.Names) == 0
				if anon && !fd.RsrvWord {
					// "() { }" right after "(" prints as "(()"
					return true
				}
				return !block && (anon || (fd.RsrvWord && !fd.Parens))
			})
		},
	},
	{
		ID:   "C01-zsh-redir-bang",
		What: "zsh: a redirection operator followed by a word starting with '!', '|', '<' or '(' (printed without the space it becomes >!, >|, << or a process substitution)",
		Match: func(c *Ctx) bool {
			if c.Lang != "zsh" {
				return false
			}
			return c.anyNode(func(_ int, it norm.Item) bool {
				r, ok := it.Node.(*syntax.Redirect)
				if !ok || r.Word == nil || len(r.Word.Parts) == 0 {
					return false
				}
				l, ok := r.Word.Parts[0].(*syntax.Lit)
				return ok && (strings.HasPrefix(l.Value, "!") || strings.HasPrefix(l.Value, "|") || strings.HasPrefix(l.Value, "<") || strings.HasPrefix(l.Value, "("))
			})
		},
	},
	{
		ID:   "C01-dollar-before-backquote",
		What: "a literal ending in '$' (or zsh $#) directly followed by a backquoted command substitution: printed as $$( )",
		Match: func(c *Ctx) bool {
			check := func(parts []syntax.WordPart) bool {
				for i := 0; i+1 < len(parts); i++ {
					if l, ok := parts[i].(*syntax.Lit); ok && c.Lang == "zsh" && strings.Contains(l.Value, "$") {
						return true
					}
					cs, ok := parts[i+1].(*syntax.CmdSubst)
					if !ok || !cs.Backquotes {
						continue
					}
					switch p := parts[i].(type) {
					case *syntax.Lit:
						if n := len(p.Value); n > 0 && strings.Contains(p.Value[max(0, n-2):], "$") {
							return true
						}
					case *syntax.ParamExp:
						if p.Short && p.Param != nil && (p.Param.Value == "#" || p.Param.Value == "$") {
							return true
						}
					}
				}
				return false
			}
			return c.anyNode(func(_ int, it norm.Item) bool {
				switch n := it.Node.(type) {
				case *syntax.Word:
					return check(n.Parts)
				case *syntax.DblQuoted:
					return check(n.Parts)
				}
				return false
			})
		},
	},
	{
		ID:   "C01-array-empty-indexed-elem",
		What: "an array element [i]= with no value that is followed by another element",
		Match: func(c *Ctx) bool {
			return c.anyNode(func(_ int, it norm.Item) bool {
				a, ok := it.Node.(*syntax.ArrayExpr)
				if !ok {
					return false
				}
				for i, el := range a.Elems {
					if el.Index != nil && el.Value == nil && i < len(a.Elems)-1 {
						return true
					}
				}
				return false
			})
		},
	},
	{
		ID:   "C01-comment-on-hdoc-line",
		What: "a comment inside a later command of the pipeline or && || chain that has a here-document operator (its text ends up in the body)",
		Match: func(c *Ctx) bool {
			hds := c.hdocChains()
			if len(hds) == 0 {
				return false
			}
			return c.anyNode(func(i int, it norm.Item) bool {
				cm, ok := it.Node.(*syntax.Comment)
				if !ok {
					return false
				}
				for _, h := range hds {
					if h.body.IsValid() && !h.body.After(cm.Hash) && h.bodyEnd.After(cm.Hash) {
						// inside a substitution in a here-document body:
						// printed with the body
						return false
					}
				}
				for _, h := range hds {
					if it.Parent == h.stmt {
						continue
					}
					if cm.Hash.Line() == h.op.Line() {
						return true
					}
					if cm.Hash.After(h.op) && c.within(i, h.root) {
						return true
					}
				}
				return false
			})
		},
	},
}

func init() {
	Classes = append(Classes,
		Class{
			ID:   "C01-minify-let",
			What: "Minify: a let clause followed by an operator or redirect (the space before it is dropped and let swallows it)",
			Match: func(c *Ctx) bool {
				if !c.Cfg.Minify {
					return false
				}
				return c.anyNode(func(_ int, it norm.Item) bool { _, ok := it.Node.(*syntax.LetClause); return ok })
			},
		},
		Class{
			ID:   "C01-let-then-comment",
			What: "a let clause in a program with comments: a comment printed after it ('let x # c') is parsed by let as an expression",
			Match: func(c *Ctx) bool {
				let := c.anyNode(func(_ int, it norm.Item) bool { _, ok := it.Node.(*syntax.LetClause); return ok })
				return let && c.anyNode(func(_ int, it norm.Item) bool { _, ok := it.Node.(*syntax.Comment); return ok })
			},
		},
		Class{
			ID:   "C01-minify-empty-last-case-item",
			What: "Minify: a case clause whose last item has no statements (printed as 'a);esac')",
			Match: func(c *Ctx) bool {
				if !c.Cfg.Minify {
					return false
				}
				return c.anyNode(func(_ int, it norm.Item) bool {
					cc, ok := it.Node.(*syntax.CaseClause)
					return ok && len(cc.Items) > 0 && len(cc.Items[len(cc.Items)-1].Stmts) == 0
				})
			},
		},
		Class{
			ID:   "C01-minify-arith-sign-adjacent",
			What: "Minify: a binary arithmetic + or - next to a unary sign or ++/-- operand (4- -1 printed as 4--1)",
			Match: func(c *Ctx) bool {
				if !c.Cfg.Minify {
					return false
				}
				isSigned := func(x syntax.ArithmExpr) bool {
					u, ok := x.(*syntax.UnaryArithm)
					return ok && (u.Op == syntax.Minus || u.Op == syntax.Plus || u.Op == syntax.Inc || u.Op == syntax.Dec)
				}
				return c.anyNode(func(_ int, it norm.Item) bool {
					b, ok := it.Node.(*syntax.BinaryArithm)
					return ok && (isSigned(b.X) || isSigned(b.Y))
				})
			},
		},
		Class{
			ID:   "C01-minify-special-param-short",
			What: "Minify: ${#}, ${$} and other braced special parameters inside a longer word (shortened to $#r, which is ${#r})",
			Match: func(c *Ctx) bool {
				if !c.Cfg.Minify {
					return false
				}
				check := func(parts []syntax.WordPart) bool {
					for i := 0; i < len(parts); i++ {
						pe, ok := parts[i].(*syntax.ParamExp)
						if !ok || pe.Short || pe.Param == nil || !simple(pe) {
							continue
						}
						switch pe.Param.Value {
						case "#", "$", "!", "?", "-", "*", "@":
							return true
						}
					}
					return false
				}
				return c.anyNode(func(_ int, it norm.Item) bool {
					switch n := it.Node.(type) {
					case *syntax.Word:
						return check(n.Parts)
					case *syntax.DblQuoted:
						return check(n.Parts)
					}
					return false
				})
			},
		},
		Class{
			ID:   "C01-minify-pipe-andredirect",
			What: "Minify: a pipe whose right side starts with an &> redirect (printed as |&>)",
			Match: func(c *Ctx) bool {
				if !c.Cfg.Minify {
					return false
				}
				return c.anyNode(func(_ int, it norm.Item) bool {
					b, ok := it.Node.(*syntax.BinaryCmd)
					if !ok || b.Op != syntax.Pipe || b.Y == nil {
						return false
					}
					for _, r := range b.Y.Redirs {
						if r.Op == syntax.RdrAll || r.Op == syntax.AppAll {
							return true
						}
					}
					return false
				})
			},
		},
		Class{
			ID:   "C01-dollar-escaped-newline",
			What: "a '$' directly followed by an escaped newline (the printer joins it with what follows: \"$\\<nl>$a\" becomes \"$$a\")",
			Match: func(c *Ctx) bool {
				return strings.Contains(c.Src, "$\\\n") || strings.Contains(c.Src, "$\\\r\n")
			},
		},
		Class{
			ID:   "C01-zsh-dollar-hash-eof",
			What: "zsh: a word ending in $# at the very end of the input parses differently from one followed by a newline",
			Match: func(c *Ctx) bool {
				return c.Lang == "zsh" && strings.Contains(c.Src, "$#")
			},
		},
		Class{
			ID:   "C01-zsh-redirect-before-funcdecl",
			What: "zsh: a redirection written before a function declaration or another compound command is printed after it (where it parses differently)",
			Match: func(c *Ctx) bool {
				return c.anyNode(func(_ int, it norm.Item) bool {
					st, ok := it.Node.(*syntax.Stmt)
					if !ok || len(st.Redirs) == 0 || st.Cmd == nil {
						return false
					}
					if _, fd := st.Cmd.(*syntax.FuncDecl); fd {
						return true
					}
					_, call := st.Cmd.(*syntax.CallExpr)
					return c.Lang == "zsh" && !call && st.Cmd.Pos().After(st.Redirs[0].Pos())
				})
			},
		},
		Class{
			ID:   "C01-hdoc-then-multiline-word",
			What: "a here-document operator followed, later in the same pipeline or && || chain, by a quoted string, [[ ]], (( )) or expansion that spans several lines (the body is written inside it)",
			Match: func(c *Ctx) bool {
				// chain root of every heredoc: the outermost statement reached
				// by walking up through BinaryCmd operands
				type hd struct {
					op   syntax.Pos
					root int
				}
				var hds []hd
				for i, it := range c.Items {
					r, ok := it.Node.(*syntax.Redirect)
					if !ok || !isHdoc(r) {
						continue
					}
					root := c.Items[i].Parent // the Stmt owning the redirect
					for root >= 0 {
						par := c.Items[root].Parent
						if par < 0 {
							break
						}
						if _, ok := c.Items[par].Node.(*syntax.BinaryCmd); !ok {
							break
						}
						root = c.Items[par].Parent // the Stmt holding the BinaryCmd
					}
					hds = append(hds, hd{r.OpPos, root})
				}
				if len(hds) == 0 {
					return false
				}
				return c.anyNode(func(i int, it norm.Item) bool {
					switch it.Node.(type) {
					case *syntax.DblQuoted, *syntax.SglQuoted, *syntax.TestClause, *syntax.ArithmCmd, *syntax.ArithmExp, *syntax.ParamExp:
					default:
						return false
					}
					p, e := it.Node.Pos(), it.Node.End()
					if !p.IsValid() || !e.IsValid() || e.Line() == p.Line() {
						return false
					}
					for _, h := range hds {
						if p.After(h.op) && h.root >= 0 && c.within(i, h.root) {
							return true
						}
					}
					return false
				})
			},
		},
		Class{
			ID:   "C01-minify-zsh-param-subscript",
			What: "zsh Minify: ${a} followed by a literal starting with '[' (shortened to $a[z], a subscript in zsh)",
			Match: func(c *Ctx) bool {
				if !c.Cfg.Minify || c.Lang != "zsh" {
					return false
				}
				check := func(parts []syntax.WordPart) bool {
					for i := 0; i+1 < len(parts); i++ {
						pe, ok := parts[i].(*syntax.ParamExp)
						l, ok2 := parts[i+1].(*syntax.Lit)
						if ok && ok2 && !pe.Short && simple(pe) && strings.HasPrefix(l.Value, "[") {
							return true
						}
					}
					return false
				}
				return c.anyNode(func(_ int, it norm.Item) bool {
					switch n := it.Node.(type) {
					case *syntax.Word:
						return check(n.Parts)
					case *syntax.DblQuoted:
						return check(n.Parts)
					}
					return false
				})
			},
		},
		Class{
			ID:   "C01-keeppadding-hdoc-comment",
			What: "KeepPadding: a here-document in a program with comments (a comment after the operator makes the printer pad the terminator line)",
			Match: func(c *Ctx) bool {
				if !c.Cfg.KeepPadding {
					return false
				}
				hd := c.anyNode(func(_ int, it norm.Item) bool { r, ok := it.Node.(*syntax.Redirect); return ok && isHdoc(r) })
				return hd && c.anyNode(func(_ int, it norm.Item) bool { _, ok := it.Node.(*syntax.Comment); return ok })
			},
		},
		Class{
			ID:   "C01-redirect-extglob-word",
			What: "an extended glob in a redirection word, or anywhere in a simple command that has an assignment prefix or redirections: printed after the assignment or redirection, where the parser rejects it (a=b >?(x), a= >f @(x), >f +(x))",
			Match: func(c *Ctx) bool {
				return c.anyNode(func(_ int, it norm.Item) bool {
					switch n := it.Node.(type) {
					case *syntax.Redirect:
						if n.Word == nil {
							return false
						}
						for _, p := range n.Word.Parts {
							if _, eg := p.(*syntax.ExtGlob); eg {
								return true
							}
						}
					case *syntax.CallExpr:
						redirs := false
						if it.Parent >= 0 {
							if st, ok := c.Items[it.Parent].Node.(*syntax.Stmt); ok && len(st.Redirs) > 0 {
								// ">f +(x)": the words are printed after the
								// first redirection, where "+(" can read as
								// the start of a function declaration
								redirs = true
							}
						}
						if len(n.Assigns) == 0 && !redirs {
							return false
						}
						for _, jt := range norm.Enumerate(n) {
							if _, eg := jt.Node.(*syntax.ExtGlob); eg {
								return true
							}
						}
					}
					return false
				})
			},
		},
		Class{
			ID:    "C01-paren-comment-paren",
			What:  "a subshell or substitution whose first or last command is itself a subshell or (( )): with comments, lone printing or line breaks in between the parentheses are printed adjacent ('(((', '))')",
			Match: func(c *Ctx) bool { return ParenAdjacent(c.File) },
		},
		Class{
			ID:    "C01-minify-escaped-space",
			What:  "Minify: a word ending in an escaped space followed by a process substitution or redirect (the separating space is dropped)",
			Match: func(c *Ctx) bool { return c.Cfg.Minify && strings.Contains(c.Src, "\\ ") },
		},
		Class{
			ID:   "C01-mksh-empty-valsub",
			What: "mksh: an empty ${ ;} or ${|;} command substitution (Minify prints ${|;})",
			Match: func(c *Ctx) bool {
				return c.anyNode(func(_ int, it norm.Item) bool {
					cs, ok := it.Node.(*syntax.CmdSubst)
					return ok && (cs.TempFile || cs.ReplyVar) && len(cs.Stmts) == 0
				})
			},
		},
		Class{
			ID:   "C01-for-name-comment",
			What: "'for name' without 'in' with a comment before 'do' or on its line, or between a preceding '|' and the for keyword (SingleLine prints 'for a# c')",
			Match: func(c *Ctx) bool {
				return c.anyNode(func(i int, it norm.Item) bool {
					wi, ok := it.Node.(*syntax.WordIter)
					if !ok || wi.InPos.IsValid() || it.Parent < 0 {
						return false
					}
					fc, ok := c.Items[it.Parent].Node.(*syntax.ForClause)
					if !ok {
						return false
					}
					stmt := c.Items[it.Parent].Parent
					return c.anyNode(func(_ int, jt norm.Item) bool {
						cm, ok := jt.Node.(*syntax.Comment)
						if ok && jt.Parent == stmt && stmt >= 0 && fc.ForPos.After(cm.Hash) {
							// a comment between "|" and the for keyword
							// belongs to the loop's statement and is
							// printed after the name just the same
							return true
						}
						return ok && !wi.Name.End().After(cm.Hash) && cm.Hash.Line() <= fc.DoPos.Line()
					})
				})
			},
		},
	)
}

func init() {
	Classes = append(Classes,
		Class{
			ID:   "C01-keeppadding-procsubst-command",
			What: "KeepPadding: a command whose first word starts with a process substitution and that has redirections",
			Match: func(c *Ctx) bool {
				if !c.Cfg.KeepPadding {
					return false
				}
				return c.anyNode(func(i int, it norm.Item) bool {
					ce, ok := it.Node.(*syntax.CallExpr)
					if !ok || len(ce.Args) == 0 || len(ce.Args[0].Parts) == 0 || it.Parent < 0 {
						return false
					}
					if _, ok := ce.Args[0].Parts[0].(*syntax.ProcSubst); !ok {
						return false
					}
					st, ok := c.Items[it.Parent].Node.(*syntax.Stmt)
					return ok && len(st.Redirs) > 0
				})
			},
		},
		Class{
			ID:   "C01-minify-pipe-amp-redirect",
			What: "Minify: a pipeline whose right side starts with a redirection operator beginning with '&'",
			Match: func(c *Ctx) bool {
				if !c.Cfg.Minify {
					return false
				}
				return c.anyNode(func(_ int, it norm.Item) bool {
					b, ok := it.Node.(*syntax.BinaryCmd)
					if !ok || b.Y == nil || (b.Op != syntax.Pipe && b.Op != syntax.PipeAll) {
						return false
					}
					for _, r := range b.Y.Redirs {
						if strings.HasPrefix(r.Op.String(), "&") && (b.Y.Cmd == nil || b.Y.Cmd.Pos().After(r.OpPos)) {
							return true
						}
					}
					return false
				})
			},
		},
		Class{
			ID:   "C01-funcbody-subshell-paren",
			What: "a function whose body is a subshell starting with an arithmetic command or another subshell",
			Match: func(c *Ctx) bool {
				return c.anyNode(func(_ int, it norm.Item) bool {
					fd, ok := it.Node.(*syntax.FuncDecl)
					if !ok || fd.Body == nil {
						return false
					}
					sub, ok := fd.Body.Cmd.(*syntax.Subshell)
					return ok && LoneSubshellParen(sub)
				})
			},
		},
	)
}

func simple(p *syntax.ParamExp) bool {
	return p.Param != nil && p.Flags == nil &&
		!p.Excl && !p.Length && !p.Width && !p.IsSet &&
		p.Split == syntax.OptUnset && p.GlobSubst == syntax.OptUnset && p.RcExpand == syntax.OptUnset &&
		p.NestedParam == nil && p.Index == nil &&
		len(p.Modifiers) == 0 && p.Slice == nil &&
		p.Repl == nil && p.Names == 0 && p.Exp == nil
}

// Excluded returns the id of the first active class the case falls in.
func Excluded(c *Ctx) string {
	for _, cl := range Classes {
		if vh.Excluded(cl.ID) && cl.Match(c) {
			return cl.ID
		}
	}
	return ""
}

// LoneSubshellParen reports whether n is a subshell (or contains one as its
// first command) whose first statement starts with '(' on a later line: printed
// on its own it comes out as "((", an arithmetic command.
func LoneSubshellParen(n syntax.Node) bool {
	for _, it := range norm.Enumerate(n) {
		sub, ok := it.Node.(*syntax.Subshell)
		if !ok || len(sub.Stmts) == 0 {
			continue
		}
		cmd := sub.Stmts[0].Cmd
		for {
			b, ok := cmd.(*syntax.BinaryCmd)
			if !ok || b.X == nil {
				break
			}
			cmd = b.X.Cmd
		}
		switch cmd.(type) {
		case *syntax.Subshell, *syntax.ArithmCmd:
			return true
		}
	}
	return false
}

// ParenAdjacent reports whether the tree has a subshell, command or process
// substitution whose first or last command is itself a subshell or (( )):
// the "( (" and ") )" spacing family.
func ParenAdjacent(n syntax.Node) bool {
	edge := func(st *syntax.Stmt, first bool) bool {
		cmd := st.Cmd
		for {
			b, ok := cmd.(*syntax.BinaryCmd)
			if !ok {
				break
			}
			if first {
				cmd = b.X.Cmd
			} else {
				cmd = b.Y.Cmd
			}
		}
		switch cmd.(type) {
		case *syntax.Subshell, *syntax.ArithmCmd:
			return true
		}
		return false
	}
	for _, it := range norm.Enumerate(n) {
		var stmts []*syntax.Stmt
		switch x := it.Node.(type) {
		case *syntax.Subshell:
			stmts = x.Stmts
		case *syntax.CmdSubst:
			stmts = x.Stmts
		case *syntax.ProcSubst:
			stmts = x.Stmts
		}
		if len(stmts) > 0 && (edge(stmts[0], true) || edge(stmts[len(stmts)-1], false)) {
			return true
		}
	}
	return false
}

// MultilineArray reports whether n holds an array literal written over
// several source lines (lone printing of such a node inserts escaped newlines
// and indentation inside neighbouring words).
func MultilineArray(n syntax.Node) bool {
	for _, it := range norm.Enumerate(n) {
		if a, ok := it.Node.(*syntax.ArrayExpr); ok && a.Rparen.Line() > a.Lparen.Line() {
			return true
		}
	}
	return false
}

// HasEmptyCompound reports whether n contains a compound command with an
// empty statement list or an empty case clause (used for the lone-command
// printing class).
func HasEmptyCompound(n syntax.Node) bool {
	for _, it := range norm.Enumerate(n) {
		switch x := it.Node.(type) {
		case *syntax.CaseClause:
			if len(x.Items) == 0 {
				return true
			}
		case *syntax.Block:
			if len(x.Stmts) == 0 {
				return true
			}
		case *syntax.ForClause:
			if len(x.Do) == 0 {
				return true
			}
		case *syntax.WhileClause:
			if len(x.Do) == 0 || len(x.Cond) == 0 {
				return true
			}
		case *syntax.IfClause:
			if len(x.Then) == 0 || (x.ThenPos.IsValid() && len(x.Cond) == 0) {
				return true
			}
		case *syntax.Subshell:
			if len(x.Stmts) == 0 {
				return true
			}
		}
	}
	return false
}
