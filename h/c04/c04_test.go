// C04: Simplify preserves behaviour.
//
// A case is a program: drawn by grun biased towards what syntax.Simplify
// rewrites (parentheses and $var inside arithmetic, substring operands,
// nested subshells, [[ ]] with quoted parameters, negations and parentheses,
// double-quoted literals with escapes, $"..."), or a harvested interpreter
// test program; plus whether the result is printed with Minify (shfmt -mn)
// or plainly (shfmt -s).
//
// Clauses:
//  1. Simplify reports true exactly when the tree changed (strict dump of
//     every field but positions and comments, before vs after).
//  2. The simplified tree prints and re-parses to the same tree.
//  3. Behaviour: the interpreter runs the original tree and the simplified
//     tree; bash runs the printed original and the printed simplified
//     program; standard output and exit status must be equal on each side.
package c04

import (
	"fmt"
	"os"
	"strings"
	"testing"

	"mvdan.cc/sh/v3/syntax"
	"pgregory.net/rapid"

	"verifh/gen"
	"verifh/grun"
	"verifh/norm"
	"verifh/sx"
	"verifh/synex"
	"verifh/vh"
)

func TestMain(m *testing.M) { vh.Main(m) }

type Case struct {
	Arm    string `json:"arm"` // gen | corpus
	Src    string `json:"src"`
	Minify bool   `json:"mn,omitempty"`
}

func genCase(t *rapid.T) Case {
	c := Case{Arm: "gen"}
	if rapid.IntRange(0, 3).Draw(t, "arm") == 0 {
		progs := grun.CorpusPrograms()
		c.Arm = "corpus"
		c.Src = progs[rapid.IntRange(0, len(progs)-1).Draw(t, "corpus")]
	} else {
		c.Src = grun.Program(t, grun.Opts{Simp: true})
	}
	c.Minify = rapid.IntRange(0, 3).Draw(t, "minify") == 0
	return c
}

func skip(class string, more ...string) vh.Result {
	return vh.Result{Skipped: true, Classes: append([]string{class}, more...)}
}

func clip(s string) string {
	if len(s) > 500 {
		return s[:500] + "…"
	}
	return s
}

// arithParam reports whether a simple $name stands as an operand inside an
// arithmetic expression (Simplify turns it into the bare name, which means
// the same only while the variable holds a plain integer).
func arithParam(f *syntax.File) bool {
	found := false
	var arith func(x syntax.ArithmExpr)
	arith = func(x syntax.ArithmExpr) {
		switch y := x.(type) {
		case *syntax.Word:
			if len(y.Parts) == 1 {
				if _, ok := y.Parts[0].(*syntax.ParamExp); ok {
					found = true
				}
			}
		case *syntax.BinaryArithm:
			arith(y.X)
			arith(y.Y)
		case *syntax.UnaryArithm:
			arith(y.X)
		case *syntax.ParenArithm:
			arith(y.X)
		}
	}
	syntax.Walk(f, func(n syntax.Node) bool {
		switch x := n.(type) {
		case *syntax.ArithmExp:
			arith(x.X)
		case *syntax.ArithmCmd:
			arith(x.X)
		case *syntax.ParamExp:
			if x.Slice != nil {
				arith(x.Slice.Offset)
				arith(x.Slice.Length)
			}
		}
		return !found
	})
	return found
}

func check(c Case) (res vh.Result) {
	cfg := gen.PrinterCfg{Minify: c.Minify}
	f0, err := grun.Parse(c.Src)
	if err != nil {
		return skip(c.Arm + ":does-not-parse")
	}
	arm := "arm:" + c.Arm
	if h := grun.Hazard(c.Src, f0); h != "" {
		return skip(c.Arm+":"+h, arm)
	}
	if c.Arm == "corpus" {
		if r := grun.Unsafe(c.Src, f0); r != "" {
			return skip("corpus:"+r, arm)
		}
		if arithParam(f0) {
			// the property only promises equal behaviour while variables
			// used in arithmetic hold plain integers; unknown for the corpus
			return skip("corpus:param-in-arithmetic", arm)
		}
	}
	if id := excluded(c, f0); id != "" {
		return skip("excluded:"+id, arm)
	}
	res.Classes = append(res.Classes, arm)
	// the tree to simplify is a second parse; f0 stays as the original
	f, _ := grun.Parse(c.Src)

	// clause 1
	before := norm.Dump(f, norm.DumpOpts{Strict: true})
	var changed bool
	if pn := sx.Guard(func() { changed = syntax.Simplify(f) }); pn != nil {
		return vh.Fail("Simplify panicked: %v", pn)
	}
	after := norm.Dump(f, norm.DumpOpts{Strict: true})
	if changed != (before != after) {
		return vh.Fail("Simplify returned %v but the tree changed=%v\n%s", changed, before != after, norm.FirstDiff(before, after))
	}
	res.Nontrivial = changed
	if !changed {
		res.Classes = append(res.Classes, "nothing-to-simplify")
		return res
	}
	res.Classes = append(res.Classes, kinds(before, after)...)

	// clause 2 (the printer's known defects are C01's: skipped, counted)
	synexID := synex.Excluded(synex.NewCtx(c.Src, "bash", f0, cfg))
	simp, perr, pn := sx.Print(f, cfg)
	if synexID == "" {
		if pn != nil {
			return vh.Fail("printing the simplified tree panicked: %v", pn)
		}
		if perr != nil {
			return vh.Fail("printing the simplified tree failed: %v", perr)
		}
		f2, err2, pn2 := sx.Parse(simp, "bash", true)
		if pn2 != nil || err2 != nil {
			return vh.Fail("the simplified program does not re-parse: %v %v\nsimplified:\n%s\noriginal:\n%s", err2, pn2, simp, c.Src)
		}
		o := norm.DumpOpts{Minify: c.Minify}
		if d1, d2 := norm.Dump(f, o), norm.Dump(f2, o); d1 != d2 {
			return vh.Fail("the simplified tree does not print and re-parse to itself: %s\nsimplified:\n%s\noriginal:\n%s", norm.FirstDiff(d1, d2), simp, c.Src)
		}
	} else {
		res.Classes = append(res.Classes, "clause2-skipped:"+synexID)
	}

	// clause 3
	if r := grun.Reflective(c.Src, f0); r != "" {
		res.Classes = append(res.Classes, "clause3-skipped:layout-reflecting")
		return res
	}
	i0 := grun.InterpFile(f0)
	if i0.Infra != "" || i0.Timeout || i0.Panic != nil || len(i0.Denied) > 0 {
		res.Classes = append(res.Classes, "clause3-skipped:original-unusable-under-interp")
		return res
	}
	i1 := grun.InterpFile(f)
	if i1.Panic != nil {
		return vh.Fail("the interpreter panicked on the simplified tree only: %v\noriginal:\n%s", i1.Panic, c.Src)
	}
	if i1.Timeout {
		return vh.Fail("the simplified tree does not finish under the interpreter\noriginal:\n%s", c.Src)
	}
	if !i0.Same(i1) {
		return vh.Fail("interp: original status=%d stdout=%q; simplified status=%d stdout=%q\n%ssimplified:\n%s\noriginal:\n%s",
			i0.Status, clip(i0.Stdout), i1.Status, clip(i1.Stdout), diffLine(i0.Stdout, i1.Stdout), simp, c.Src)
	}
	if synexID != "" || pn != nil || perr != nil {
		res.Classes = append(res.Classes, "bash-skipped:printer-class")
		return res
	}
	orig, perr0, pn0 := sx.Print(f0, cfg)
	if pn0 != nil || perr0 != nil {
		res.Classes = append(res.Classes, "bash-skipped:original-does-not-print")
		return res
	}
	b0 := grun.Bash(orig)
	if b0.Infra != "" || b0.Timeout || b0.SyntaxError() {
		res.Classes = append(res.Classes, "bash-skipped:original-unusable")
		return res
	}
	b1 := grun.Bash(simp)
	if b1.Infra != "" {
		res.Classes = append(res.Classes, "bash-skipped:infra")
		return res
	}
	if b1.Timeout {
		return vh.Fail("the simplified program does not finish under bash\nsimplified:\n%s\noriginal:\n%s", simp, orig)
	}
	if !b0.Same(b1) {
		return vh.Fail("bash: original status=%d stdout=%q; simplified status=%d stdout=%q\n%ssimplified:\n%s\noriginal (printed):\n%s",
			b0.Status, clip(b0.Stdout), b1.Status, clip(b1.Stdout), diffLine(b0.Stdout, b1.Stdout), simp, orig)
	}
	res.Classes = append(res.Classes, "ran-under-bash")
	return res
}

// kinds labels which rewrites happened, from the node names that appear or
// disappear in the strict dump.
func kinds(before, after string) []string {
	var out []string
	cnt := func(s, sub string) int { return strings.Count(s, sub) }
	if cnt(before, "ParenArithm") > cnt(after, "ParenArithm") {
		out = append(out, "rw:arith-parens")
	}
	if cnt(before, "ParamExp") > cnt(after, "ParamExp") {
		out = append(out, "rw:arith-dollar")
	}
	if cnt(before, "Subshell") > cnt(after, "Subshell") {
		out = append(out, "rw:dup-subshell")
	}
	if cnt(before, "DblQuoted") > cnt(after, "DblQuoted") && cnt(before, "SglQuoted") == cnt(after, "SglQuoted") {
		out = append(out, "rw:test-unquote")
	}
	if cnt(before, "SglQuoted") < cnt(after, "SglQuoted") {
		out = append(out, "rw:dq-to-sq")
	}
	if cnt(before, "ParenTest") > cnt(after, "ParenTest") {
		out = append(out, "rw:test-parens")
	}
	if cnt(before, "UnaryTest") > cnt(after, "UnaryTest") {
		out = append(out, "rw:test-negation")
	}
	return out
}

func diffLine(a, b string) string {
	la, lb := strings.Split(a, "\n"), strings.Split(b, "\n")
	for i := 0; i < len(la) || i < len(lb); i++ {
		x, y := "<none>", "<none>"
		if i < len(la) {
			x = la[i]
		}
		if i < len(lb) {
			y = lb[i]
		}
		if x != y {
			return fmt.Sprintf("first differing line %d: original %q, simplified %q\n", i+1, x, y)
		}
	}
	return ""
}

var prop = vh.Prop[Case]{ID: "C04", Gen: genCase, Check: check, Text: func(c *Case) *string { return &c.Src }}

func TestC04(t *testing.T) {
	if os.Getenv("VERIF_SURVEY") != "" {
		prop.Text = nil
	}
	vh.Run(t, prop)
}
