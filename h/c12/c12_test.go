// C12: Parser acceptance agrees with the real shells.
package c12

import (
	"bytes"
	"context"
	"fmt"
	"os"
	"os/exec"
	"strings"
	"testing"
	"time"

	"pgregory.net/rapid"

	"verifh/oracle"
	"verifh/sx"
	"verifh/vh"
)

func TestMain(m *testing.M) { vh.Main(m) }

// A program is a token list; tokens are joined by single spaces, except that
// the token "\n" is a line break.
type Case struct {
	// Src is the rendered program; Toks is kept for reading the evidence.
	Src  string   `json:"src"`
	Toks []string `json:"toks,omitempty"`
	// Mut describes the single-token mutation that produced Toks ("" =
	// unmutated grammar output).
	Mut string `json:"mut,omitempty"`
}

type g struct {
	t     *rapid.T
	depth int
	n     int
}

func (g *g) pick(label string, xs ...string) string { return rapid.SampledFrom(xs).Draw(g.t, label) }
func (g *g) chance(p int, label string) bool        { return rapid.IntRange(0, 99).Draw(g.t, label) < p }

func (g *g) word() string {
	return g.pick("word", "a", "b", "foo", "bar", "-n", "x=y", "1", `"q r"`, `'s t'`, "$v", "${v}", `"$v w"`, "$(cmd arg)", "a.b", "./f", "*", "é")
}

func (g *g) simple() []string {
	var out []string
	if g.chance(15, "assign") {
		out = append(out, g.pick("assignw", "v=1", "w=", `u="a b"`))
	}
	out = append(out, g.pick("cmd", "echo", "cmd", "true", "cat", "f", ":"))
	for i, n := 0, rapid.IntRange(0, 3).Draw(g.t, "nargs"); i < n; i++ {
		out = append(out, g.word())
	}
	if g.chance(20, "redir") {
		out = append(out, g.pick("redirw", ">f", ">>f", "<f", "2>&1", "> f", "2>f", ">&2", "<&-"))
	}
	return out
}

func (g *g) sep() []string {
	if g.chance(50, "sepnl") {
		return []string{"\n"}
	}
	return []string{g.pick("sep", ";", ";", "&")}
}

func (g *g) list(min int) []string {
	var out []string
	n := rapid.IntRange(min, 3).Draw(g.t, "nlist")
	for i := 0; i < n; i++ {
		out = append(out, g.andor()...)
		if i < n-1 {
			out = append(out, g.sep()...)
		}
	}
	return out
}

// term ends a list before a closing keyword.
func (g *g) term() []string { return []string{g.pick("term", ";", "\n")} }

func (g *g) andor() []string {
	out := g.pipeline()
	for g.chance(15, "andor") && g.n < 40 {
		out = append(out, g.pick("andorop", "&&", "||"))
		if g.chance(20, "andornl") {
			out = append(out, "\n")
		}
		out = append(out, g.pipeline()...)
	}
	return out
}

func (g *g) pipeline() []string {
	var out []string
	if g.chance(8, "bang") {
		out = append(out, "!")
	}
	out = append(out, g.command()...)
	for g.chance(15, "pipe") && g.n < 40 {
		out = append(out, "|")
		out = append(out, g.command()...)
	}
	return out
}

func (g *g) command() []string {
	g.n++
	if g.depth > 3 || g.n > 30 {
		return g.simple()
	}
	g.depth++
	defer func() { g.depth-- }()
	var out []string
	switch rapid.IntRange(0, 19).Draw(g.t, "cmdkind") {
	case 0:
		out = append(out, "if")
		out = append(out, g.list(1)...)
		out = append(out, g.term()...)
		out = append(out, "then")
		out = append(out, g.list(1)...)
		out = append(out, g.term()...)
		if g.chance(30, "elif") {
			out = append(out, "elif")
			out = append(out, g.list(1)...)
			out = append(out, g.term()...)
			out = append(out, "then")
			out = append(out, g.list(1)...)
			out = append(out, g.term()...)
		}
		if g.chance(40, "else") {
			out = append(out, "else")
			out = append(out, g.list(1)...)
			out = append(out, g.term()...)
		}
		out = append(out, "fi")
	case 1:
		out = append(out, g.pick("loopkw", "while", "until"))
		out = append(out, g.list(1)...)
		out = append(out, g.term()...)
		out = append(out, "do")
		out = append(out, g.list(1)...)
		out = append(out, g.term()...)
		out = append(out, "done")
	case 2:
		out = append(out, "for", g.pick("forvar", "i", "x"))
		if g.chance(70, "forin") {
			out = append(out, "in")
			for i, n := 0, rapid.IntRange(0, 3).Draw(g.t, "nfor"); i < n; i++ {
				out = append(out, g.word())
			}
		}
		out = append(out, g.term()...)
		out = append(out, "do")
		out = append(out, g.list(1)...)
		out = append(out, g.term()...)
		out = append(out, "done")
	case 3:
		out = append(out, "case", g.word(), "in")
		if g.chance(50, "casenl") {
			out = append(out, "\n")
		}
		for i, n := 0, rapid.IntRange(0, 2).Draw(g.t, "ncase"); i < n; i++ {
			if g.chance(20, "caseparen") {
				out = append(out, "(")
			}
			out = append(out, g.pick("pat", "a", "*", "b|c", "[a-z]*", `"q"`)+")")
			if g.chance(70, "casebody") {
				out = append(out, g.list(1)...)
			}
			out = append(out, ";;")
			if g.chance(50, "caseitemnl") {
				out = append(out, "\n")
			}
		}
		out = append(out, "esac")
	case 4:
		out = append(out, "{")
		out = append(out, g.list(1)...)
		out = append(out, g.term()...)
		out = append(out, "}")
	case 5:
		out = append(out, "(")
		out = append(out, g.list(1)...)
		out = append(out, ")")
	case 6:
		out = append(out, g.pick("fname", "f", "fn2")+"()", "{")
		out = append(out, g.list(1)...)
		out = append(out, g.term()...)
		out = append(out, "}")
	case 7:
		// a here-document is one atom: operator line, body and terminator
		out = append(out, "cat", g.pick("hdoc", "<<EOF\nbody $v\nEOF\n", "<<'E'\nraw $x\nE\n", "<<-T\n\ttab\n\tT\n"))
		return out
	default:
		out = g.simple()
	}
	if len(out) > 0 && out[len(out)-1] != "\n" && g.chance(10, "cmpredir") && out[0] != "echo" {
		switch out[len(out)-1] {
		case "fi", "done", "esac", "}", ")":
			out = append(out, g.pick("cmpredirw", ">f", "2>&1", "<f"))
		}
	}
	return out
}

var mutDict = []string{";", "&", "&&", "||", "|", "!", "(", ")", "{", "}", "if", "then", "elif", "else", "fi", "while", "until", "do", "done", "for", "in", "case", "esac", ";;", "\n", "a", "foo", ">f", "<f", "2>&1", "$v", `"q"`, "f()", "# c\n", ">", "<", ">>"}

func genCase(t *rapid.T) Case {
	gg := &g{t: t}
	toks := gg.list(1)
	c := Case{Toks: toks}
	hasHdoc := false
	for _, tk := range toks {
		if strings.HasPrefix(tk, "<<") {
			hasHdoc = true
		}
	}
	if rapid.IntRange(0, 3).Draw(t, "mutate") == 0 || len(toks) == 0 {
		c.Src = render(c.Toks)
		c.Toks = nil
		return c
	}
	i := rapid.IntRange(0, len(toks)-1).Draw(t, "mutpos")
	switch rapid.IntRange(0, 3).Draw(t, "mutkind") {
	case 0:
		c.Mut = "delete " + toks[i]
		c.Toks = append(append([]string{}, toks[:i]...), toks[i+1:]...)
	case 1:
		tk := rapid.SampledFrom(mutDict).Draw(t, "muttok")
		c.Mut = "insert " + tk
		c.Toks = append(append(append([]string{}, toks[:i]...), tk), toks[i:]...)
	case 2:
		j := rapid.IntRange(0, len(toks)-1).Draw(t, "mutpos2")
		c.Mut = "swap"
		c.Toks = append([]string{}, toks...)
		c.Toks[i], c.Toks[j] = c.Toks[j], c.Toks[i]
	case 3:
		tk := rapid.SampledFrom(mutDict).Draw(t, "muttok")
		c.Mut = "replace " + toks[i] + " by " + tk
		c.Toks = append([]string{}, toks...)
		c.Toks[i] = tk
	}
	_ = hasHdoc
	c.Src = render(c.Toks)
	c.Toks = nil
	return c
}

func render(toks []string) string {
	var sb strings.Builder
	for i, t := range toks {
		if i > 0 && !strings.HasSuffix(toks[i-1], "\n") && t != "\n" {
			sb.WriteByte(' ')
		}
		sb.WriteString(t)
	}
	s := sb.String()
	if !strings.HasSuffix(s, "\n") {
		s += "\n"
	}
	return s
}

// shellRejects runs `<shell> -n` on the program the way the repository's
// confirmParse does: a non-zero status, or any non-warning text on stderr,
// is a rejection.
func shellRejects(shell, src string) (rejects bool, detail string, err error) {
	dir, err := oracle.NewDir()
	if err != nil {
		return false, "", err
	}
	defer oracle.RemoveDir(dir)
	ctx, cancel := context.WithTimeout(context.Background(), 20*time.Second)
	defer cancel()
	args := []string{"-n"}
	if shell == "bash" {
		args = []string{"--norc", "--noprofile", "-n"}
	}
	cmd := exec.CommandContext(ctx, shell, args...)
	cmd.Dir = dir
	cmd.Env = oracle.Env(dir)
	cmd.Stdin = strings.NewReader(src)
	var stderr bytes.Buffer
	cmd.Stderr = &stderr
	runErr := cmd.Run()
	if ctx.Err() != nil {
		return false, "", fmt.Errorf("%s -n timed out", shell)
	}
	if cmd.ProcessState == nil || cmd.ProcessState.ExitCode() == -1 {
		return false, "", fmt.Errorf("%s -n did not exit normally: %v", shell, runErr)
	}
	var lines []string
	for _, l := range strings.Split(stderr.String(), "\n") {
		l = strings.TrimSpace(l)
		if l != "" && !strings.Contains(l, "warning:") {
			lines = append(lines, l)
		}
	}
	if cmd.ProcessState.ExitCode() != 0 || len(lines) > 0 {
		return true, strings.Join(lines, " | "), nil
	}
	return false, "", nil
}

func check(c Case) (res vh.Result) {
	src := c.Src
	if src == "" && len(c.Toks) > 0 {
		src = render(c.Toks)
	}
	if id := excluded(c, src); id != "" {
		return vh.Result{Skipped: true, Classes: []string{"excluded:" + id}}
	}
	if os.Getenv("C12_NO_SHELL") != "" {
		return res
	}
	for _, sh := range []struct{ lang, shell string }{{"bash", "bash"}, {"posix", "dash"}} {
		_, perr, pn := sx.Parse(src, sh.lang, true)
		if pn != nil {
			return vh.Result{Skipped: true, Classes: []string{"parser-panic(C06)"}}
		}
		rej, detail, err := shellRejects(sh.shell, src)
		if err != nil {
			return vh.Result{Skipped: true, Classes: []string{"infra:" + sh.shell}}
		}
		if rej {
			res.Classes = append(res.Classes, sh.shell+":rejects")
		} else {
			res.Classes = append(res.Classes, sh.shell+":accepts")
		}
		if (perr != nil) != rej {
			if rej {
				return vh.Fail("%s -n rejects the program (%s) but the parser accepts it as %s\nprogram: %q", sh.shell, detail, sh.lang, src)
			}
			return vh.Fail("%s -n accepts the program but the parser rejects it as %s: %v\nprogram: %q", sh.shell, sh.lang, perr, src)
		}
	}
	res.Nontrivial = c.Mut != ""
	if c.Mut != "" {
		res.Classes = append(res.Classes, "mutated")
	}
	return res
}

var prop = vh.Prop[Case]{ID: "C12", Gen: genCase, Check: check, Text: func(c *Case) *string { return &c.Src }}

func TestC12(t *testing.T) { vh.Run(t, prop) }

// canonical programs, one per construct of the core grammar, as token lists
var enumPrograms = [][]string{
	{"for", "i", "in", "a", "b", ";", "do", "echo", "$i", ";", "done"},
	{"for", "x", "\n", "do", "echo", "$x", "\n", "done", ">f"},
	{"while", "a", ";", "do", "b", "&&", "c", ";", "done"},
	{"if", "a", ";", "then", "b", ";", "elif", "c", ";", "then", "d", "\n", "else", "e", ";", "fi"},
	{"case", "$v", "in", "a)", "b", ";;", "(", "c|d)", ";;", "esac"},
	{"f()", "{", "a", "|", "b", ";", "}", "\n", "(", "c", ")", "2>&1"},
	{"!", "a", "||", "{", "b", "&", "}", "\n", "x=1", "y", "<f"},
}

// TestC12Enum applies EVERY single-token insertion and deletion (thorough:
// replacement and swap as well) to the canonical programs: the random stage
// reaches a given position/token pair only now and then.
func TestC12Enum(t *testing.T) {
	shard, n := vh.Shard()
	k := 0
	run := func(toks []string, mut string) {
		k++
		if k%n != shard {
			return
		}
		vh.Each(t, prop, Case{Src: render(toks), Mut: mut})
	}
	for _, toks := range enumPrograms {
		run(toks, "")
		for i := 0; i <= len(toks); i++ {
			if i < len(toks) {
				run(append(append([]string{}, toks[:i]...), toks[i+1:]...), "delete "+toks[i])
			}
			for _, tk := range mutDict {
				run(append(append(append([]string{}, toks[:i]...), tk), toks[i:]...), "insert "+tk)
				if vh.Thorough() && i < len(toks) {
					r := append([]string{}, toks...)
					r[i] = tk
					run(r, "replace "+toks[i]+" by "+tk)
				}
			}
			if vh.Thorough() {
				for j := i + 1; j < len(toks); j++ {
					r := append([]string{}, toks...)
					r[i], r[j] = r[j], r[i]
					run(r, "swap")
				}
			}
		}
	}
}
