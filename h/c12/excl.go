package c12

import (
	"regexp"

	"verifh/vh"
)

// A lone "!" or a doubled "! !": bash accepts them, dash and the parser do
// not; the repository lists them as confirm-flipped (parser_test.go: "!",
// "! !", "! ! foo").
var loneBang = regexp.MustCompile(`(^|[\s;&|(){}])!\s*($|[;&|)}\n#]|!\s|(then|do|fi|done|esac|else|elif|in)\b)`)

// "for" followed by something that is not a plain name: bash -n defers the
// check to run time ("not a valid identifier"), dash rejects quoted or
// numeric names at parse time, the parser has rules of its own. Whether a
// word is a valid loop variable is not part of the shared core grammar.
var forBadName = regexp.MustCompile(`(^|[\s;&|(){}])for\s+([^A-Za-z_\s]|[A-Za-z_][A-Za-z0-9_]*[^A-Za-z0-9_\s;])`)

// excluded returns the id of an exclusion: either one of the intentional
// differences the repository lists as confirm-flipped or that lie outside the
// core grammar (prefix "documented:"), or the class of a known finding.
func excluded(c Case, src string) string {
	if loneBang.MatchString(src) {
		return "documented:lone-bang"
	}
	if forBadName.MatchString(src) {
		return "documented:for-variable-name"
	}
	for _, cl := range classes {
		if vh.Excluded(cl.id) && cl.re.MatchString(src) {
			return cl.id
		}
	}
	return ""
}

type class struct {
	id string
	re *regexp.Regexp
}

var classes = []class{
	// f() followed by anything but a compound command: bash rejects a
	// simple command as function body, the parser accepts it in Bash mode.
	{"C12-bash-funcdecl-simple-body", regexp.MustCompile(`\(\)\s*([^\s{(]|\n)`)},
	// a reserved word or "!" right after a redirection is an ordinary word
	// for bash and dash (">f then" runs "then"; "done >f do" is an error);
	// the parser decides by position in the statement instead.
	// "> 2>&1": after a redirection operator bash reads "2>&1" as another
	// redirection and reports a missing target; the parser takes "2" as the
	// target word.
	{"C12-redirect-target-io-number", regexp.MustCompile(`(>>|>&|<&|>|<)[ \t]+[0-9]+[<>]`)},
	// "for x" + newline + "; do": dash accepts the semicolon on the next
	// line, the parser (and bash) reject it.
	{"C12-for-newline-semicolon", regexp.MustCompile(`(^|[\s;&|(){}])for\s+[A-Za-z_][A-Za-z0-9_]*[ \t]*\n\s*;`)},
	{"C12-reserved-word-after-redirect", regexp.MustCompile(`[0-9]*(>>|>&|<&|>|<)[ \t]*[^\s;&|()]+[ \t]+(!|if|then|elif|else|fi|while|until|do|done|for|in|case|esac|\{|\})([\s;&|()]|$)`)},
}
