package c12

import (
	"regexp"

	"verifh/vh"
)

// A lone "!" or a doubled "! !": bash accepts them, dash and the parser do
// not; the repository lists them as confirm-flipped (parser_test.go: "!",
// "! !", "! ! foo").
var loneBang = regexp.MustCompile(`(^|[\s;&|(){}])!\s*($|[;&|)}\n]|!\s|(then|do|fi|done|esac|else|elif|in)\b)`)

// excluded returns the id of an exclusion: either one of the intentional
// differences the repository lists as confirm-flipped (prefix "documented:")
// or the class of a known finding.
func excluded(c Case, src string) string {
	if loneBang.MatchString(src) {
		return "documented:lone-bang"
	}
	for _, cl := range classes {
		if vh.Excluded(cl.id) && cl.re.MatchString(src) {
			return cl.id
		}
	}
	return ""
}

type class struct {
	id string
	re *regexp.Regexp
}

var classes = []class{}
