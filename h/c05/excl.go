package c05

import (
	"mvdan.cc/sh/v3/syntax"

	"verifh/norm"
	"verifh/synex"
	"verifh/vh"
)

func isHdoc(r *syntax.Redirect) bool { return r.Op == syntax.Hdoc || r.Op == syntax.DashHdoc }

// excluded returns the id of an active C05-specific exclusion class.
func excluded(c Case, f *syntax.File) string {
	items := norm.Enumerate(f)
	ncom := 0
	var hdocs []*syntax.Redirect
	for _, it := range items {
		switch n := it.Node.(type) {
		case *syntax.Comment:
			ncom++
		case *syntax.Redirect:
			if isHdoc(n) {
				hdocs = append(hdocs, n)
			}
		}
	}
	if vh.Excluded("C05-hdoc-line-comment-order") && ncom > 1 {
		// a comment between a here-document operator and its body, in a
		// program with other comments: it is printed out of order
		for _, it := range items {
			cm, ok := it.Node.(*syntax.Comment)
			if !ok {
				continue
			}
			for _, r := range hdocs {
				if cm.Hash.Line() == r.OpPos.Line() {
					return "C05-hdoc-line-comment-order"
				}
				if r.Hdoc != nil && cm.Hash.After(r.OpPos) && r.Hdoc.Pos().After(cm.Hash) {
					return "C05-hdoc-line-comment-order"
				}
			}
		}
	}
	if vh.Excluded("C05-comment-after-multiline-subst") && ncom > 1 {
		// a comment that follows a multi-line command/process substitution
		// which has comments of its own: it is printed inside it
		for i, it := range items {
			switch it.Node.(type) {
			case *syntax.CmdSubst, *syntax.ProcSubst:
			default:
				continue
			}
			p, e := it.Node.Pos(), it.Node.End()
			if !p.IsValid() || !e.IsValid() || e.Line() == p.Line() {
				continue
			}
			inner, after := false, false
			for j, jt := range items {
				cm, ok := jt.Node.(*syntax.Comment)
				if !ok {
					continue
				}
				within := false
				for k := j; k >= 0; k = items[k].Parent {
					if k == i {
						within = true
					}
				}
				if within {
					inner = true
				} else if cm.Hash.After(e) || cm.Hash == e {
					after = true
				}
			}
			if inner && after {
				return "C05-comment-after-multiline-subst"
			}
		}
	}
	if vh.Excluded("C05-singleline-hdoc-comments") && c.Cfg.SingleLine && ncom > 0 {
		// SingleLine: comments that follow a here-document operator (between
		// two here-document statements, after the body) are printed late or
		// dropped
		for _, it := range items {
			cm, ok := it.Node.(*syntax.Comment)
			if !ok {
				continue
			}
			for _, r := range hdocs {
				if cm.Hash.After(r.OpPos) {
					return "C05-singleline-hdoc-comments"
				}
			}
		}
	}
	if vh.Excluded("C05-comment-in-empty-body") && ncom > 0 && synex.HasEmptyCompound(f) {
		// zsh/mksh accept empty statement lists; the parser drops a comment
		// that is the only thing in one ("then # c" + newline + "fi")
		return "C05-comment-in-empty-body"
	}
	if vh.Excluded("C05-simplify-drops-subshell-comments") && c.Simplify {
		// Simplify removes a redundant nested subshell together with the
		// comments attached to it
		for _, it := range items {
			if _, ok := it.Node.(*syntax.Comment); !ok || it.Parent < 0 {
				continue
			}
			switch items[it.Parent].Node.(type) {
			case *syntax.Subshell, *syntax.CmdSubst:
				return "C05-simplify-drops-subshell-comments"
			}
		}
	}
	return ""
}
