// C05: Formatting keeps every comment.
package c05

import (
	"fmt"
	"regexp"
	"slices"
	"sort"
	"strings"
	"testing"

	"mvdan.cc/sh/v3/syntax"
	"pgregory.net/rapid"

	"verifh/gen"
	"verifh/norm"
	"verifh/sx"
	"verifh/synex"
	"verifh/vh"
)

func TestMain(m *testing.M) { vh.Main(m) }

type Case struct {
	Src      string         `json:"src"`
	Lang     string         `json:"lang"`
	Cfg      gen.PrinterCfg `json:"cfg"`
	Simplify bool           `json:"simplify,omitempty"`
}

func genCase(t *rapid.T) Case {
	c := Case{Lang: gen.Lang(t)}
	c.Src = gen.Valid(t, gen.LangByName(c.Lang))
	c.Cfg = gen.Printer(t, true)
	if c.Cfg.Minify && c.Cfg.SingleLine {
		c.Cfg.SingleLine = false
	}
	c.Simplify = rapid.IntRange(0, 5).Draw(t, "simplify") == 0
	return c
}

// comments lists the comment texts in source order, found by the
// reflection enumerator (independent of syntax.Walk).
func comments(f *syntax.File) []syntax.Comment {
	var out []syntax.Comment
	for _, it := range norm.Enumerate(f) {
		if c, ok := it.Node.(*syntax.Comment); ok {
			out = append(out, *c)
		}
	}
	sort.SliceStable(out, func(i, j int) bool { return out[i].Hash.Offset() < out[j].Hash.Offset() })
	return out
}

func texts(cs []syntax.Comment) []string {
	out := make([]string, len(cs))
	for i, c := range cs {
		out[i] = strings.TrimRight(c.Text, " \t\r\n\v\f")
	}
	return out
}

// shellShebang matches a first line that names a shell interpreter.
var shellShebang = regexp.MustCompile(`^#!\s?/(usr/)?bin/(env\s+)?(sh|bash|mksh|bats|zsh|dash|ksh)(\s|$)`)

func check(c Case) (res vh.Result) {
	f, perr, pn := sx.Parse(c.Src, c.Lang, true)
	if pn != nil || perr != nil {
		return vh.Result{Skipped: true, Classes: []string{"parse-fail"}}
	}
	if id := synex.Excluded(synex.NewCtx(c.Src, c.Lang, f, c.Cfg)); id != "" {
		return vh.Result{Skipped: true, Classes: []string{"excluded:" + id}}
	}
	// The two ordering findings only move a comment: inside their classes the
	// sequence is still compared as a multiset, so a lost or duplicated
	// comment is reported there too.
	orderOnly := ""
	if id := excluded(c, f); id != "" {
		if id != "C05-hdoc-line-comment-order" && id != "C05-comment-after-multiline-subst" {
			return vh.Result{Skipped: true, Classes: []string{"excluded:" + id}}
		}
		orderOnly = id
	}
	before := comments(f)
	want := texts(before)
	if c.Simplify {
		syntax.Simplify(f)
	}
	out, err, pn := sx.Print(f, c.Cfg)
	if pn != nil || err != nil {
		return vh.Fail("print failed: %v %v", err, pn)
	}
	re, perr, pn := sx.Parse(out, c.Lang, true)
	if pn != nil || perr != nil {
		return vh.Result{Skipped: true, Classes: []string{"output-does-not-reparse(C01)"}}
	}
	got := texts(comments(re))
	nonLeading := false
	for _, cm := range before {
		if cm.Hash.Line() > 1 && len(f.Stmts) > 0 && cm.Hash.After(f.Stmts[0].Pos()) {
			nonLeading = true
		}
	}
	res.Nontrivial = nonLeading
	res.Classes = append(res.Classes, fmt.Sprintf("comments:%d", min(len(want), 5)))
	if c.Cfg.Minify {
		res.Classes = append(res.Classes, "minify")
		var exp []string
		if len(before) > 0 && before[0].Hash.Line() == 1 && before[0].Hash.Col() == 1 && strings.HasPrefix(before[0].Text, "!") {
			exp = []string{want[0]}
			if !shellShebang.MatchString("#"+before[0].Text) && len(got) == 0 {
				// "#!" followed by something that does not name a shell:
				// whether that is "a shebang" is not ours to decide
				res.Classes = append(res.Classes, "minify-nonshell-hashbang")
				exp = nil
			}
		}
		if fmt.Sprint(got) != fmt.Sprint(exp) {
			return vh.Fail("Minify kept the wrong comments: got %q, want %q\noutput: %q", got, exp, out)
		}
		return res
	}
	if orderOnly != "" {
		res.Classes = append(res.Classes, "multiset-only:"+orderOnly)
		got, want = slices.Clone(got), slices.Clone(want)
		sort.Strings(got)
		sort.Strings(want)
	}
	if len(got) != len(want) {
		return vh.Fail("formatting changed the number of comments from %d to %d: %q became %q\noutput: %q", len(want), len(got), want, got, out)
	}
	for i := range want {
		if got[i] != want[i] {
			return vh.Fail("formatting changed the comment sequence at index %d: %q became %q\noutput: %q", i, want, got, out)
		}
	}
	return res
}

var prop = vh.Prop[Case]{ID: "C05", Gen: genCase, Check: check, Text: func(c *Case) *string { return &c.Src }}

func TestC05(t *testing.T) { vh.Run(t, prop) }
