// Command harvest extracts every string literal from the repository's test
// files; the result is the committed seed corpus (h/corpus/strings.json).
package main

import (
	"encoding/json"
	"go/ast"
	"go/parser"
	"go/token"
	"os"
	"path/filepath"
	"sort"
	"strconv"
	"strings"
)

type entry struct {
	S    string `json:"s"`
	From string `json:"from"` // package directory: syntax, interp, expand, ...
}

func main() {
	root := os.Args[1]
	seen := map[string]bool{}
	var out []entry
	filepath.Walk(root, func(p string, info os.FileInfo, err error) error {
		if err != nil || info.IsDir() || !strings.HasSuffix(p, "_test.go") {
			return nil
		}
		fset := token.NewFileSet()
		f, err := parser.ParseFile(fset, p, nil, 0)
		if err != nil {
			return nil
		}
		rel, _ := filepath.Rel(root, filepath.Dir(p))
		ast.Inspect(f, func(n ast.Node) bool {
			bl, ok := n.(*ast.BasicLit)
			if !ok || bl.Kind != token.STRING {
				return true
			}
			s, err := strconv.Unquote(bl.Value)
			if err != nil || s == "" || len(s) > 4096 {
				return true
			}
			k := rel + "\x00" + s
			if !seen[k] {
				seen[k] = true
				out = append(out, entry{s, rel})
			}
			return true
		})
		return nil
	})
	sort.Slice(out, func(i, j int) bool {
		if out[i].From != out[j].From {
			return out[i].From < out[j].From
		}
		return out[i].S < out[j].S
	})
	enc := json.NewEncoder(os.Stdout)
	enc.SetEscapeHTML(false)
	enc.SetIndent("", "")
	enc.Encode(out)
}
