//go:build linux && amd64

// ptkill runs a command under ptrace, counts its system calls and kills the
// whole process on ENTRY to a chosen one, i.e. before that call executes.
// It is the fault injector of check C35 (shfmt -w replaces files atomically).
//
//	ptkill [-k K] [-kf J] [-fileonly] [-plain] [-log FILE] [-timeout SECONDS] -- cmd args...
//
// Mechanism. By default the command is started through a small launcher (this
// binary re-executed with -launch) that installs a seccomp filter returning
// SECCOMP_RET_TRACE and then execve()s the command: the tracer gets exactly one
// PTRACE_EVENT_SECCOMP stop per syscall, before the call executes, and resumes
// with PTRACE_CONT. With -fileonly the filter reports only the file syscalls
// (about 70 stops for a `shfmt -w` run instead of about 350), which is all -kf
// needs. -plain uses PTRACE_SYSCALL stops instead (two stops per call, no
// filter, no launcher); both mechanisms count the same entries.
//
// Counting. One global counter runs over the syscall ENTRIES of all threads of
// the traced process (and of any process it forks), starting at 1 with the
// first syscall made after the initial execve returned.
//
//	-k K   SIGKILL the process (every traced thread group) when the K-th
//	       syscall is entered; that syscall never executes. K=0: never kill.
//	-kf J  like -k, but J counts only "file" syscalls (sysTable entries with file=true: every
//	       call taking a path or a file descriptor, which excludes the Go
//	       runtime's scheduling noise: futex, mmap, sigaltstack, clone, ...).
//	       That subsequence is a deterministic function of the program and
//	       its input, so a J names the same boundary in every run.
//	-fileonly  stop at (count, log) file syscalls only; -k is not allowed then
//	       and the all-syscalls index is logged as 0.
//	-log FILE  write one line per syscall entry, tab separated:
//	       index, file-index (0 when not a file syscall), tid, number, name,
//	       the six raw arguments in hex (comma separated), and for path-taking
//	       calls the decoded path argument(s) as Go-quoted strings.
//	       The last line is a summary:
//	       "# syscalls=N file=NF killed=0|1 exited=0|1 status=S signal=G timeout=0|1"
//	       (status/signal describe how the main process ended).
//
// Exit status of ptkill itself:
//
//	0  the command ran to completion by itself (it may have failed: its own
//	   exit status is the "status=" field of the summary line);
//	   with -k/-kf this means the process ended before reaching that call
//	3  the process was killed at the requested syscall
//	4  the overall timeout fired and the process was killed by the guard
//	5  tracing failed (ptrace error, command not startable)
//	2  usage error
//
// The tracer never resumes a thread after the kill decision, sets
// PTRACE_O_EXITKILL so nothing survives the tracer, and gives up after
// -timeout seconds (default 20).
package main

import (
	"bufio"
	"flag"
	"fmt"
	"os"
	"os/exec"
	"runtime"
	"strconv"
	"sync"
	"syscall"
	"time"
	"unsafe"
)

const (
	ptraceGetSyscallInfo = 0x420e
	infoOpEntry          = 1
	infoOpExit           = 2
	infoOpSeccomp        = 3

	optTraceSysGood = 0x1
	optTraceFork    = 0x2
	optTraceVfork   = 0x4
	optTraceClone   = 0x8
	optTraceExec    = 0x10
	optTraceSeccomp = 0x80
	optExitKill     = 0x100000

	eventFork    = 1
	eventVfork   = 2
	eventClone   = 3
	eventExec    = 4
	eventSeccomp = 7

	prSetNoNewPrivs   = 38
	prSetSeccomp      = 22
	seccompModeFilter = 2
	seccompRetAllow   = 0x7fff0000
	seccompRetTrace   = 0x7ff00000
)

// syscallInfo mirrors struct ptrace_syscall_info (entry variant).
type syscallInfo struct {
	Op    uint8
	_     [3]uint8
	Arch  uint32
	IP    uint64
	SP    uint64
	Nr    uint64
	Args  [6]uint64
	Extra [16]byte
}

type sysDesc struct {
	name  string
	paths []int // argument indexes holding a path
	file  bool  // counts for -kf
}

var sysTable = map[uint64]sysDesc{
	0:   {"read", nil, true},
	1:   {"write", nil, true},
	2:   {"open", []int{0}, true},
	3:   {"close", nil, true},
	4:   {"stat", []int{0}, true},
	5:   {"fstat", nil, true},
	6:   {"lstat", []int{0}, true},
	8:   {"lseek", nil, true},
	9:   {"mmap", nil, false},
	10:  {"mprotect", nil, false},
	11:  {"munmap", nil, false},
	12:  {"brk", nil, false},
	13:  {"rt_sigaction", nil, false},
	14:  {"rt_sigprocmask", nil, false},
	15:  {"rt_sigreturn", nil, false},
	16:  {"ioctl", nil, true},
	17:  {"pread64", nil, true},
	18:  {"pwrite64", nil, true},
	19:  {"readv", nil, true},
	20:  {"writev", nil, true},
	21:  {"access", []int{0}, true},
	24:  {"sched_yield", nil, false},
	28:  {"madvise", nil, false},
	32:  {"dup", nil, true},
	33:  {"dup2", nil, true},
	35:  {"nanosleep", nil, false},
	39:  {"getpid", nil, false},
	40:  {"sendfile", nil, true},
	56:  {"clone", nil, false},
	57:  {"fork", nil, false},
	58:  {"vfork", nil, false},
	59:  {"execve", []int{0}, false},
	60:  {"exit", nil, false},
	62:  {"kill", nil, false},
	63:  {"uname", nil, false},
	72:  {"fcntl", nil, true},
	73:  {"flock", nil, true},
	74:  {"fsync", nil, true},
	75:  {"fdatasync", nil, true},
	76:  {"truncate", []int{0}, true},
	77:  {"ftruncate", nil, true},
	78:  {"getdents", nil, true},
	79:  {"getcwd", nil, true},
	80:  {"chdir", []int{0}, true},
	82:  {"rename", []int{0, 1}, true},
	83:  {"mkdir", []int{0}, true},
	84:  {"rmdir", []int{0}, true},
	85:  {"creat", []int{0}, true},
	86:  {"link", []int{0, 1}, true},
	87:  {"unlink", []int{0}, true},
	88:  {"symlink", []int{0, 1}, true},
	89:  {"readlink", []int{0}, true},
	90:  {"chmod", []int{0}, true},
	91:  {"fchmod", nil, true},
	92:  {"chown", []int{0}, true},
	93:  {"fchown", nil, true},
	94:  {"lchown", []int{0}, true},
	95:  {"umask", nil, true},
	96:  {"gettimeofday", nil, false},
	97:  {"getrlimit", nil, false},
	102: {"getuid", nil, false},
	104: {"getgid", nil, false},
	107: {"geteuid", nil, false},
	108: {"getegid", nil, false},
	131: {"sigaltstack", nil, false},
	157: {"prctl", nil, false},
	158: {"arch_prctl", nil, false},
	186: {"gettid", nil, false},
	200: {"tkill", nil, false},
	202: {"futex", nil, false},
	203: {"sched_setaffinity", nil, false},
	204: {"sched_getaffinity", nil, false},
	213: {"epoll_create", nil, false},
	217: {"getdents64", nil, true},
	218: {"set_tid_address", nil, false},
	228: {"clock_gettime", nil, false},
	230: {"clock_nanosleep", nil, false},
	231: {"exit_group", nil, false},
	232: {"epoll_wait", nil, false},
	233: {"epoll_ctl", nil, false},
	234: {"tgkill", nil, false},
	257: {"openat", []int{1}, true},
	258: {"mkdirat", []int{1}, true},
	260: {"fchownat", []int{1}, true},
	262: {"newfstatat", []int{1}, true},
	263: {"unlinkat", []int{1}, true},
	264: {"renameat", []int{1, 3}, true},
	265: {"linkat", []int{1, 3}, true},
	266: {"symlinkat", []int{0, 2}, true},
	267: {"readlinkat", []int{1}, true},
	268: {"fchmodat", []int{1}, true},
	269: {"faccessat", []int{1}, true},
	273: {"set_robust_list", nil, false},
	280: {"utimensat", []int{1}, true},
	281: {"epoll_pwait", nil, false},
	284: {"eventfd", nil, false},
	285: {"fallocate", nil, true},
	290: {"eventfd2", nil, false},
	291: {"epoll_create1", nil, false},
	292: {"dup3", nil, true},
	293: {"pipe2", nil, false},
	295: {"preadv", nil, true},
	296: {"pwritev", nil, true},
	302: {"prlimit64", nil, false},
	316: {"renameat2", []int{1, 3}, true},
	318: {"getrandom", nil, false},
	326: {"copy_file_range", nil, true},
	332: {"statx", []int{1}, true},
	334: {"rseq", nil, false},
	435: {"clone3", nil, false},
	437: {"openat2", []int{1}, true},
	439: {"faccessat2", []int{1}, true},
	441: {"epoll_pwait2", nil, false},
	452: {"fchmodat2", []int{1}, true},
}

func getSyscallInfo(tid int, info *syscallInfo) error {
	_, _, e := syscall.Syscall6(syscall.SYS_PTRACE, ptraceGetSyscallInfo, uintptr(tid),
		unsafe.Sizeof(*info), uintptr(unsafe.Pointer(info)), 0, 0)
	if e != 0 {
		return e
	}
	return nil
}

// peekString reads a NUL-terminated string from the tracee (at most 4096
// bytes); ok is false when the memory could not be read.
func peekString(tid int, addr uint64) (string, bool) {
	if addr == 0 {
		return "", false
	}
	var out []byte
	var word [8]byte
	for len(out) < 4096 {
		n, err := syscall.PtracePeekData(tid, uintptr(addr)+uintptr(len(out)), word[:])
		if err != nil || n != 8 {
			return string(out), false
		}
		for _, b := range word {
			if b == 0 {
				return string(out), true
			}
			out = append(out, b)
		}
	}
	return string(out), true
}

type tracer struct {
	mu      sync.Mutex
	procs   map[int]bool // thread-group ids to kill
	timeout bool
}

func (t *tracer) addProc(pid int) {
	t.mu.Lock()
	t.procs[pid] = true
	t.mu.Unlock()
}

func (t *tracer) killAll() {
	t.mu.Lock()
	for p := range t.procs {
		syscall.Kill(p, syscall.SIGKILL)
	}
	t.mu.Unlock()
}

func main() {
	k := flag.Int("k", 0, "kill on entry to the K-th syscall (0: never)")
	kf := flag.Int("kf", 0, "kill on entry to the J-th file syscall (0: never)")
	count := flag.Bool("count", false, "only count (same as -k 0 -kf 0)")
	fileOnly := flag.Bool("fileonly", false, "stop at file syscalls only (seccomp mechanism)")
	plain := flag.Bool("plain", false, "use PTRACE_SYSCALL stops instead of a seccomp filter")
	launch := flag.String("launch", "", "internal: install the seccomp filter (all|file) and exec the command")
	logPath := flag.String("log", "", "write the syscall log to this file")
	timeoutS := flag.Int("timeout", 20, "overall timeout in seconds")
	flag.Parse()
	args := flag.Args()
	if len(args) == 0 || *k < 0 || *kf < 0 || (*fileOnly && (*k > 0 || *plain)) {
		fmt.Fprintln(os.Stderr, "usage: ptkill [-k K] [-kf J] [-fileonly] [-plain] [-log FILE] [-timeout S] -- cmd args...")
		os.Exit(2)
	}
	if *launch != "" {
		launcher(*launch, args)
	}
	if *count {
		*k, *kf = 0, 0
	}
	os.Exit(run(args, *k, *kf, *fileOnly, *plain, *logPath, *timeoutS))
}

type sockFilter struct {
	code   uint16
	jt, jf uint8
	k      uint32
}

type sockFprog struct {
	n      uint16
	filter *sockFilter
}

// launcher runs in the traced child: it installs the filter on this thread
// and replaces the process image. It never returns.
func launcher(mode string, args []string) {
	runtime.LockOSThread()
	die := func(what string, err error) {
		fmt.Fprintf(os.Stderr, "ptkill launcher: %s: %v\n", what, err)
		os.Exit(125)
	}
	path, err := exec.LookPath(args[0])
	if err != nil {
		die("lookup", err)
	}
	var prog []sockFilter
	if mode == "file" {
		var nrs []uint32
		for nr, d := range sysTable {
			if d.file {
				nrs = append(nrs, uint32(nr))
			}
		}
		prog = append(prog, sockFilter{code: 0x20, k: 0}) // ld [nr]
		for i, nr := range nrs {
			prog = append(prog, sockFilter{code: 0x15, jt: uint8(len(nrs) - i), k: nr}) // jeq nr -> trace
		}
		prog = append(prog, sockFilter{code: 0x06, k: seccompRetAllow}, sockFilter{code: 0x06, k: seccompRetTrace})
	} else {
		prog = []sockFilter{{code: 0x06, k: seccompRetTrace}}
	}
	fp := sockFprog{n: uint16(len(prog)), filter: &prog[0]}
	if _, _, e := syscall.RawSyscall6(syscall.SYS_PRCTL, prSetNoNewPrivs, 1, 0, 0, 0, 0); e != 0 {
		die("PR_SET_NO_NEW_PRIVS", e)
	}
	if _, _, e := syscall.RawSyscall6(syscall.SYS_PRCTL, prSetSeccomp, seccompModeFilter, uintptr(unsafe.Pointer(&fp)), 0, 0, 0); e != 0 {
		die("PR_SET_SECCOMP", e)
	}
	err = syscall.Exec(path, args, os.Environ())
	die("exec", err)
}

func run(args []string, k, kf int, fileOnly, plain bool, logPath string, timeoutS int) int {
	// Every ptrace request must come from the thread that is the tracer.
	runtime.LockOSThread()

	var logw *bufio.Writer
	if logPath != "" {
		f, err := os.Create(logPath)
		if err != nil {
			fmt.Fprintln(os.Stderr, "ptkill:", err)
			return 5
		}
		defer f.Close()
		logw = bufio.NewWriterSize(f, 64<<10)
		defer logw.Flush()
	}

	cmd := exec.Command(args[0], args[1:]...)
	if !plain {
		self, err := os.Executable()
		if err != nil {
			fmt.Fprintln(os.Stderr, "ptkill:", err)
			return 5
		}
		mode := "all"
		if fileOnly {
			mode = "file"
		}
		cmd = exec.Command(self, append([]string{"-launch", mode, "--"}, args...)...)
	}
	cmd.Stdin = nil
	cmd.Stdout = os.Stdout
	cmd.Stderr = os.Stderr
	cmd.SysProcAttr = &syscall.SysProcAttr{Ptrace: true}
	if err := cmd.Start(); err != nil {
		fmt.Fprintln(os.Stderr, "ptkill: start:", err)
		return 5
	}
	pid := cmd.Process.Pid
	tr := &tracer{procs: map[int]bool{pid: true}}

	fail := func(what string, err error) int {
		fmt.Fprintf(os.Stderr, "ptkill: %s: %v\n", what, err)
		tr.killAll()
		reap()
		return 5
	}

	// The child stops with SIGTRAP once its execve has completed.
	var ws syscall.WaitStatus
	if _, err := wait4(pid, &ws); err != nil {
		return fail("initial wait", err)
	}
	if !ws.Stopped() {
		fmt.Fprintln(os.Stderr, "ptkill: command did not stop after exec")
		return 5
	}
	opts := optTraceSysGood | optTraceClone | optTraceFork | optTraceVfork | optTraceExec | optExitKill
	if !plain {
		opts |= optTraceSeccomp
	}
	// resume lets a stopped thread run to its next stop of interest.
	resume := func(tid int, sig int) error {
		var err error
		if plain {
			err = syscall.PtraceSyscall(tid, sig)
		} else {
			err = syscall.PtraceCont(tid, sig)
		}
		if err == syscall.ESRCH {
			return nil // killed meanwhile (exit_group or exec by a sibling)
		}
		return err
	}
	// armed: the command itself is running (with the launcher: its execve
	// has completed); only then are syscalls counted.
	armed := plain
	if err := syscall.PtraceSetOptions(pid, opts); err != nil {
		return fail("PTRACE_SETOPTIONS", err)
	}

	done := make(chan struct{})
	defer close(done)
	go func() {
		select {
		case <-done:
		case <-time.After(time.Duration(timeoutS) * time.Second):
			tr.mu.Lock()
			tr.timeout = true
			tr.mu.Unlock()
			tr.killAll()
		}
	}()

	if err := resume(pid, 0); err != nil {
		return fail("resume", err)
	}

	var (
		n, nf      int  // syscall entries seen, file syscall entries seen
		killed     bool // the requested kill was delivered
		mainExited bool
		mainStatus = -1
		mainSignal = 0
		// threads whose initial SIGSTOP is still to be swallowed / was
		// already seen before the parent's clone event.
		started = map[int]bool{pid: true}
		info    syscallInfo
	)

	for {
		var ws syscall.WaitStatus
		tid, err := wait4(-1, &ws)
		if err == syscall.ECHILD {
			break
		}
		if err != nil {
			return fail("wait4", err)
		}
		switch {
		case ws.Exited() || ws.Signaled():
			if tid == pid {
				mainExited = true
				if ws.Exited() {
					mainStatus = ws.ExitStatus()
				} else {
					mainSignal = int(ws.Signal())
				}
			}
			delete(started, tid)
			continue
		case !ws.Stopped():
			continue
		}
		if killed {
			// Never resume anything after the kill decision.
			continue
		}
		sig := ws.StopSignal()
		cause := 0
		if sig == syscall.SIGTRAP {
			cause = ws.TrapCause()
		}
		switch {
		case sig == syscall.SIGTRAP|0x80 || cause == eventSeccomp: // a syscall
			if !armed {
				if err := resume(tid, 0); err != nil {
					return fail("resume", err)
				}
				continue
			}
			if err := getSyscallInfo(tid, &info); err != nil {
				if err == syscall.ESRCH {
					continue
				}
				return fail("PTRACE_GET_SYSCALL_INFO", err)
			}
			if info.Op == infoOpEntry || info.Op == infoOpSeccomp {
				d, known := sysTable[info.Nr]
				if !known {
					d = sysDesc{name: "sys_" + strconv.FormatUint(info.Nr, 10)}
				}
				idx := 0
				if !fileOnly {
					n++
					idx = n
				}
				fidx := 0
				if d.file {
					nf++
					fidx = nf
				}
				if logw != nil {
					fmt.Fprintf(logw, "%d\t%d\t%d\t%d\t%s\t%x,%x,%x,%x,%x,%x", idx, fidx, tid, info.Nr, d.name,
						info.Args[0], info.Args[1], info.Args[2], info.Args[3], info.Args[4], info.Args[5])
					for _, ai := range d.paths {
						s, ok := peekString(tid, info.Args[ai])
						if !ok {
							s += "<unreadable>"
						}
						fmt.Fprintf(logw, "\t%s", strconv.Quote(s))
					}
					logw.WriteByte('\n')
				}
				if (k > 0 && idx == k) || (kf > 0 && fidx == kf) {
					killed = true
					tr.killAll()
					continue
				}
			}
			if err := resume(tid, 0); err != nil {
				return fail("resume", err)
			}
		case cause > 0: // other PTRACE_EVENT stops
			switch cause {
			case eventFork, eventVfork:
				if msg, err := syscall.PtraceGetEventMsg(tid); err == nil {
					tr.addProc(int(msg))
				}
			case eventExec:
				if !armed {
					// the launcher has become the command
					armed = true
					n, nf = 0, 0
				}
			}
			if err := resume(tid, 0); err != nil {
				return fail("resume", err)
			}
		case sig == syscall.SIGSTOP && !started[tid]:
			// a new thread or process, auto-attached: swallow its first stop
			started[tid] = true
			if err := resume(tid, 0); err != nil {
				return fail("resume", err)
			}
		default:
			// signal-delivery stop: pass the signal on
			started[tid] = true
			if err := resume(tid, int(sig)); err != nil {
				return fail("resume", err)
			}
		}
	}

	tr.mu.Lock()
	timedOut := tr.timeout
	tr.mu.Unlock()
	if logw != nil {
		fmt.Fprintf(logw, "# syscalls=%d file=%d killed=%d exited=%d status=%d signal=%d timeout=%d\n",
			n, nf, b2i(killed), b2i(mainExited && mainSignal == 0), mainStatus, mainSignal, b2i(timedOut))
	}
	switch {
	case killed:
		return 3
	case timedOut:
		return 4
	case !armed:
		fmt.Fprintln(os.Stderr, "ptkill: the launcher never reached the command")
		return 5
	}
	return 0
}

func b2i(b bool) int {
	if b {
		return 1
	}
	return 0
}

func wait4(pid int, ws *syscall.WaitStatus) (int, error) {
	for {
		tid, err := syscall.Wait4(pid, ws, syscall.WALL, nil)
		if err == syscall.EINTR {
			continue
		}
		return tid, err
	}
}

// reap waits for everything that is left after a kill.
func reap() {
	for {
		var ws syscall.WaitStatus
		if _, err := wait4(-1, &ws); err != nil {
			return
		}
	}
}
