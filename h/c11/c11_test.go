// C11: Language variants gate their features consistently.
package c11

import (
	"fmt"
	"strings"
	"testing"

	"mvdan.cc/sh/v3/syntax"
	"pgregory.net/rapid"

	"verifh/gen"
	"verifh/norm"
	"verifh/sx"
	"verifh/vh"
)

func TestMain(m *testing.M) { vh.Main(m) }

type Case struct {
	Src     string `json:"src"`
	Recover int    `json:"recover"`
}

func genCase(t *rapid.T) Case {
	var c Case
	l := gen.Langs[rapid.IntRange(0, len(gen.Langs)-1).Draw(t, "srclang")]
	switch rapid.IntRange(0, 5).Draw(t, "kind") {
	case 0:
		c.Src = gen.Syn(t, l, true)
	case 1:
		c.Src = gen.Mutate(t, gen.Valid(t, l))
	default:
		c.Src = gen.Valid(t, l)
	}
	c.Recover = rapid.SampledFrom([]int{1, 2, 5, 100}).Draw(t, "recover")
	return c
}

// posixForbidden describes a non-POSIX construct found in a tree.
func posixForbidden(f *syntax.File) string {
	for _, it := range norm.Enumerate(f) {
		switch n := it.Node.(type) {
		case *syntax.TestClause, *syntax.ArithmCmd, *syntax.ArrayExpr, *syntax.ProcSubst, *syntax.ExtGlob,
			*syntax.DeclClause, *syntax.LetClause, *syntax.TimeClause, *syntax.CoprocClause, *syntax.CStyleLoop,
			*syntax.FlagsArithm, *syntax.TestDecl:
			return fmt.Sprintf("%T at %s", n, n.Pos())
		case *syntax.SglQuoted:
			if n.Dollar {
				return fmt.Sprintf("$'' string at %s", n.Pos())
			}
		case *syntax.DblQuoted:
			if n.Dollar {
				return fmt.Sprintf("$\"\" string at %s", n.Pos())
			}
		case *syntax.Assign:
			if n.Append {
				return fmt.Sprintf("+= assignment at %s", n.Pos())
			}
			if n.Index != nil {
				return fmt.Sprintf("indexed assignment at %s", n.Pos())
			}
		case *syntax.ParamExp:
			switch {
			case n.Excl:
				return fmt.Sprintf("${!x} at %s", n.Pos())
			case n.Width, n.IsSet, n.Flags != nil, n.NestedParam != nil, len(n.Modifiers) > 0:
				return fmt.Sprintf("mksh/zsh parameter form at %s", n.Pos())
			case n.Split != syntax.OptUnset, n.GlobSubst != syntax.OptUnset, n.RcExpand != syntax.OptUnset:
				return fmt.Sprintf("zsh expansion prefix at %s", n.Pos())
			case n.Index != nil:
				return fmt.Sprintf("${a[i]} at %s", n.Pos())
			case n.Slice != nil:
				return fmt.Sprintf("${a:x:y} slice at %s", n.Pos())
			case n.Repl != nil:
				return fmt.Sprintf("${a/x/y} at %s", n.Pos())
			case n.Names != 0:
				return fmt.Sprintf("${!prefix*} at %s", n.Pos())
			}
			if n.Exp != nil {
				switch n.Exp.Op {
				case syntax.UpperFirst, syntax.UpperAll, syntax.LowerFirst, syntax.LowerAll, syntax.OtherParamOps:
					return fmt.Sprintf("case conversion / @ operator at %s", n.Pos())
				}
			}
		case *syntax.CaseItem:
			if n.Op != syntax.Break {
				return fmt.Sprintf("case operator %s at %s", n.Op, n.OpPos)
			}
		case *syntax.BinaryCmd:
			if n.Op == syntax.PipeAll {
				return fmt.Sprintf("|& at %s", n.OpPos)
			}
		case *syntax.Redirect:
			switch n.Op {
			case syntax.RdrAll, syntax.AppAll, syntax.WordHdoc, syntax.RdrAllClob, syntax.AppAllClob:
				return fmt.Sprintf("redirect %s at %s", n.Op, n.OpPos)
			}
			if n.N != nil && strings.HasPrefix(n.N.Value, "{") {
				return fmt.Sprintf("{var}> redirect at %s", n.OpPos)
			}
		case *syntax.FuncDecl:
			if n.RsrvWord {
				return fmt.Sprintf("function keyword at %s", n.Pos())
			}
		case *syntax.ForClause:
			if n.Select {
				return fmt.Sprintf("select at %s", n.Pos())
			}
			if n.Braces {
				return fmt.Sprintf("brace for loop at %s", n.Pos())
			}
		case *syntax.CaseClause:
			if n.Braces {
				return fmt.Sprintf("brace case at %s", n.Pos())
			}
		case *syntax.CmdSubst:
			if n.TempFile || n.ReplyVar {
				return fmt.Sprintf("${ cmd;} at %s", n.Pos())
			}
		case *syntax.ArithmExp:
			if n.Unsigned || n.Bracket {
				return fmt.Sprintf("$[ ] or unsigned arithmetic at %s", n.Pos())
			}
		case *syntax.Stmt:
			if n.Coprocess || n.Disown {
				return fmt.Sprintf("|& coprocess or &| disown at %s", n.Pos())
			}
		}
	}
	return ""
}

var nonPosixTokens = []string{"[[", "((", "=(", "<(", ">(", "$'", "$\"", "+=", "${!", "@(", "?(", "+(", "!(", "*(", ";&", ";|", "|&", "&>", "<<<", "{fd}", "function ", "select ", "coproc", "declare", "let ", "time ", "${ ", "${|", "$[", "&|", "&!", "^^", ",,", "@Q", "for (("}

func check(c Case) (res vh.Result) {
	parse := func(lang string, opts ...syntax.ParserOption) (*syntax.File, error, *sx.Panic) {
		return sx.Parse(c.Src, lang, true, opts...)
	}
	hasNonPosix := false
	for _, t := range nonPosixTokens {
		if strings.Contains(c.Src, t) {
			hasNonPosix = true
		}
	}
	// (a) accepted as POSIX => no non-POSIX construct in the tree
	fp, errp, pn := parse("posix")
	if pn != nil {
		return vh.Result{Skipped: true, Classes: []string{"parser-panic(C06)"}}
	}
	if errp == nil {
		res.Classes = append(res.Classes, "posix:accepts")
		if d := posixForbidden(fp); d != "" && excluded(c, d) == "" {
			return vh.Fail("the input is accepted in POSIX mode, but its tree contains a non-POSIX construct: %s", d)
		}
		if hasNonPosix {
			res.Nontrivial = true
		}
	} else {
		res.Classes = append(res.Classes, "posix:rejects")
	}
	// (b) Bash-accepted => Bats-accepted with the same tree
	fb, errb, pn := parse("bash")
	if pn != nil {
		return vh.Result{Skipped: true, Classes: []string{"parser-panic(C06)"}}
	}
	compound := false
	if errb == nil {
		res.Classes = append(res.Classes, "bash:accepts")
		d := norm.Dump(fb, norm.DumpOpts{Strict: true})
		compound = strings.Contains(d, "Clause{") || strings.Contains(d, "CmdSubst{") || strings.Contains(d, "Block{")
		if strings.Contains(c.Src, "@test") {
			res.Classes = append(res.Classes, "bats:@test-excluded")
		} else {
			ft, errt, pn := parse("bats")
			if pn != nil {
				return vh.Fail("parsing as Bats panicked: %v", pn)
			}
			if errt != nil {
				return vh.Fail("accepted as Bash but rejected as Bats: %v", errt)
			}
			if ok, path := norm.DeepEq(fb, ft); !ok {
				return vh.Fail("Bash and Bats trees differ at %s", path)
			}
			res.Nontrivial = res.Nontrivial || compound
		}
	}
	// (c) RecoverErrors does not change how a valid input parses
	for _, lang := range []string{"bash", "posix", "mksh", "bats", "zsh"} {
		f0, err0, pn := parse(lang)
		if pn != nil || err0 != nil {
			continue
		}
		if lang == "zsh" && vh.Excluded("C09-zsh-arith-dot") && strings.Contains(c.Src, "((") && strings.Contains(c.Src, ".") {
			// zsh: a "." inside arithmetic ends the expansion early and the
			// rest is dropped, so an unclosed "$((n ." counts as valid
			// (finding C09-zsh-arith-dot); with RecoverErrors it is rejected
			res.Classes = append(res.Classes, "excluded:C09-zsh-arith-dot")
			continue
		}
		f1, err1, pn := parse(lang, syntax.RecoverErrors(c.Recover))
		if pn != nil {
			return vh.Fail("parsing as %s with RecoverErrors(%d) panicked: %v", lang, c.Recover, pn)
		}
		if err1 != nil {
			return vh.Fail("valid %s input fails with RecoverErrors(%d): %v", lang, c.Recover, err1)
		}
		if ok, path := norm.DeepEq(f0, f1); !ok {
			return vh.Fail("RecoverErrors(%d) changes the %s tree of a valid input at %s", c.Recover, lang, path)
		}
	}
	return res
}

func excluded(c Case, what string) string { return "" }

var prop = vh.Prop[Case]{ID: "C11", Gen: genCase, Check: check, Text: func(c *Case) *string { return &c.Src }}

func TestC11(t *testing.T) { vh.Run(t, prop) }
