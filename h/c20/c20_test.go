// C20: Arithmetic evaluation matches bash.
//
// A case is a list of sub-cases; every sub-case is a tiny shell program built
// from variable initialisations, one arithmetic expression tree rendered to
// text inside one of seven contexts, and a dump of every variable. All
// sub-cases of a case are evaluated by ONE bash process (the programs are
// concatenated into one script file, separated by marker lines, so that bash
// recovers from an arithmetic error exactly like it does in a script: the
// failing command gets status 1 and the next line runs) and one by one by the
// in-process interpreter. Standard output (value line, "s=$?" line, dump lines)
// must be equal.
//
// A reference evaluator (int64 with math/big overflow detection, modelled on
// bash's expr.c including its "noeval" treatment of unevaluated operands)
// FILTERS what the property excludes (shift counts outside 0..63, signed
// overflow, MinInt64 / -1) and serves as a third opinion: sub-cases on which
// the reference and bash disagree are counted (class "ref-mismatch") and
// skipped, never reported against the interpreter.
package c20

import (
	"errors"
	"fmt"
	"math"
	"math/big"
	"os"
	"regexp"
	"sort"
	"strconv"
	"strings"
	"testing"

	"pgregory.net/rapid"

	"verifh/oracle"
	"verifh/vh"
)

func TestMain(m *testing.M) { vh.Main(m) }

// ---------------------------------------------------------------- case model

// Node is an arithmetic expression tree. K is one of
//
//	num  S = literal text (never negative; negatives are un("-", num))
//	var  S = name
//	dvar S = name, rendered $name (Op=="b": ${name})
//	elem S = array name, X = subscript
//	par  X
//	un   Op in - + ! ~ , X
//	pre  Op in ++ --, X = var|elem        (++x)
//	post Op in ++ --, X = var|elem        (x++)
//	bin  Op, X, Y                         (all binary operators and the comma)
//	asg  Op in = += -= ... , X = var|elem, Y
//	tern X ? Y : Z
//
// Sp asks for blanks around the node's operator.
type Node struct {
	K  string `json:"k"`
	Op string `json:"op,omitempty"`
	S  string `json:"s,omitempty"`
	X  *Node  `json:"x,omitempty"`
	Y  *Node  `json:"y,omitempty"`
	Z  *Node  `json:"z,omitempty"`
	Sp bool   `json:"sp,omitempty"`
}

// Var is one scalar initialisation NAME='<pad>text(Val)<pad>'.
type Var struct {
	Name string `json:"n"`
	Val  *Node  `json:"v"`
	Pad  int    `json:"pad,omitempty"` // 1 leading blank, 2 trailing, 3 both
}

type ArrEl struct {
	I int   `json:"i"`
	V int64 `json:"v"`
}

// Sub is one program.
type Sub struct {
	Vars []Var   `json:"vars,omitempty"`
	Arr  []ArrEl `json:"arr,omitempty"` // a=([i]=v ...); the array always exists
	// Ctx: echo | cmd | let | aset | aget | slice | for
	Ctx  string `json:"ctx"`
	LetQ bool   `json:"letq,omitempty"` // let "E" (quoted); unquoted only if E has no shell-special character
	E    *Node  `json:"e"`
	E2   *Node  `json:"e2,omitempty"` // slice length
	N    int    `json:"n,omitempty"`  // for: iterations
	Hdr  int    `json:"hdr,omitempty"`
	Body int    `json:"body,omitempty"`
}

type Case struct {
	Subs []Sub `json:"subs"`
}

// ------------------------------------------------------------------ rendering

const (
	pComma = 1
	pAsg   = 2
	pTern  = 3
	pLor   = 4
	pUn    = 15
	pAtom  = 16
)

var binPrec = map[string]int{
	",": 1, "||": 4, "&&": 5, "|": 6, "^": 7, "&": 8, "==": 9, "!=": 9,
	"<": 10, "<=": 10, ">": 10, ">=": 10, "<<": 11, ">>": 11,
	"+": 12, "-": 12, "*": 13, "/": 13, "%": 13, "**": 14,
}

func prec(n *Node) int {
	switch n.K {
	case "bin":
		return binPrec[n.Op]
	case "asg":
		return pAsg
	case "tern":
		return pTern
	case "un":
		return pUn
	}
	return pAtom
}

type tok struct {
	s  string
	sp bool
}

// toks renders n for a position that requires precedence >= min, adding
// parentheses when the tree shape would otherwise be lost. The grammar is the
// one of bash's expr.c, which syntax/parser_arithm.go states it follows:
// comma < assignment (right) < ?: (right) < || < && < | < ^ < & < == != <
// relational < shifts < + - < * / % < ** (right; its left operand is a unary
// expression) < unary - + ! ~ < ++/-- and primaries.
func (n *Node) toks(min int, out *[]tok) {
	if prec(n) < min {
		*out = append(*out, tok{s: "("})
		n.toks(0, out)
		*out = append(*out, tok{s: ")"})
		return
	}
	switch n.K {
	case "num", "var":
		*out = append(*out, tok{s: n.S})
	case "dvar":
		if n.Op == "b" {
			*out = append(*out, tok{s: "${" + n.S + "}"})
		} else {
			*out = append(*out, tok{s: "$" + n.S})
		}
	case "elem":
		*out = append(*out, tok{s: n.S + "[" + n.X.text() + "]"})
	case "par":
		*out = append(*out, tok{s: "("})
		n.X.toks(0, out)
		*out = append(*out, tok{s: ")"})
	case "un":
		*out = append(*out, tok{s: n.Op})
		n.X.toks(pUn, out)
	case "pre":
		*out = append(*out, tok{s: n.Op + n.X.text()})
	case "post":
		*out = append(*out, tok{s: n.X.text() + n.Op})
	case "bin":
		p := binPrec[n.Op]
		l, r := p, p+1
		if n.Op == "**" {
			l, r = pUn, p
		}
		if n.Op == "," {
			// operands of the comma are assignment expressions
			l, r = pComma, pAsg
		}
		n.X.toks(l, out)
		*out = append(*out, tok{s: n.Op, sp: n.Sp})
		n.Y.toks(r, out)
	case "asg":
		*out = append(*out, tok{s: n.X.text()})
		*out = append(*out, tok{s: n.Op, sp: n.Sp})
		n.Y.toks(pAsg, out)
	case "tern":
		// commas and assignments inside the branches are always
		// parenthesised: what bash and the parser accept unparenthesised
		// there is a parser matter (C12), not arithmetic evaluation.
		n.X.toks(pLor, out)
		*out = append(*out, tok{s: "?", sp: n.Sp})
		n.Y.toks(pTern, out)
		*out = append(*out, tok{s: ":", sp: n.Sp})
		n.Z.toks(pTern, out)
	default:
		panic("c20: bad node kind " + n.K)
	}
}

func isPM(c byte) bool { return c == '+' || c == '-' }

// text renders the expression. A blank is forced between two tokens that
// would otherwise fuse into ++ or -- (bash lexes "3--2" as 3 - -2 by looking
// ahead for an identifier; that lexer quirk is not what C20 is about).
func (n *Node) text() string {
	var ts []tok
	n.toks(0, &ts)
	var b strings.Builder
	for i, t := range ts {
		if i > 0 {
			p := ts[i-1]
			// $name may hold a negative number: "z-$w" would reach bash's
			// arithmetic lexer as "z--3" (post-decrement, then garbage)
			// "<(" and ">(" are read as process substitutions inside ${a[...]}
			pl := p.s[len(p.s)-1]
			if t.sp || p.sp || (isPM(pl) && (isPM(t.s[0]) || t.s[0] == '$')) || ((pl == '<' || pl == '>') && t.s == "(") {
				b.WriteByte(' ')
			}
		}
		b.WriteString(t.s)
	}
	return b.String()
}

// compact renders without optional blanks (for unquoted let arguments).
func (n *Node) compact() string {
	var ts []tok
	n.toks(0, &ts)
	var b strings.Builder
	for i, t := range ts {
		if i > 0 {
			p := ts[i-1]
			if isPM(p.s[len(p.s)-1]) && isPM(t.s[0]) {
				b.WriteByte(' ')
			}
		}
		b.WriteString(t.s)
	}
	return b.String()
}

func (v Var) text() string {
	s := v.Val.text()
	if v.Pad&1 != 0 {
		s = " " + s
	}
	if v.Pad&2 != 0 {
		s += " "
	}
	return s
}

const sliceStr = "abcdefghij"

var scalarNames = []string{"x", "y", "z", "w", "u"}

var letSafe = regexp.MustCompile(`^[A-Za-z0-9_+\-/%=,:#@]+$`)

// letArg returns the argument text of the let context and whether it is
// quoted.
func (s *Sub) letArg() (string, bool) {
	if !s.LetQ {
		c := s.E.compact()
		// an unquoted argument must be one shell word without any
		// character special to the shell, and must not look like an option
		if letSafe.MatchString(c) && c[0] != '-' && c[0] != '+' {
			return c, false
		}
	}
	return s.E.text(), true
}

// asetSafe: the subscript of a statement-level assignment word is read by the
// shell's word lexer first, so it must not contain blanks or characters that
// start other tokens there (bash reads "a[2-w>(0 >= 2)]=7" as something else).
var asetSafe = regexp.MustCompile(`^[A-Za-z0-9_+\-*/%=,:#@?!^\[\]]+$`)

var forHdr = []string{
	"i=0;i<%d;i++",
	"i = 0; i < %d; ++i",
	"i=0;i!=%d;i+=1",
	"i=0; %d>i; i=i+1",
}
var forHdrDown = "i=%d;i>0;i--"

// script is the program both shells run (one statement per line).
func (s *Sub) script() string {
	var b strings.Builder
	for _, v := range s.Vars {
		fmt.Fprintf(&b, "%s=%s\n", v.Name, oracle.ShQuote(v.text()))
	}
	b.WriteString("a=(")
	for i, e := range s.Arr {
		if i > 0 {
			b.WriteByte(' ')
		}
		fmt.Fprintf(&b, "[%d]=%d", e.I, e.V)
	}
	b.WriteString(")\n")
	switch s.Ctx {
	case "echo":
		fmt.Fprintf(&b, "echo \"v=$(( %s ))\"\n", s.E.text())
	case "cmd":
		fmt.Fprintf(&b, "(( %s ))\n", s.E.text())
	case "let":
		arg, q := s.letArg()
		if q {
			fmt.Fprintf(&b, "let \"%s\"\n", arg)
		} else {
			fmt.Fprintf(&b, "let %s\n", arg)
		}
	case "aset":
		fmt.Fprintf(&b, "a[%s]=7\n", s.E.compact())
	case "aget":
		fmt.Fprintf(&b, "echo \"e=${a[%s]}\"\n", s.E.text())
	case "slice":
		fmt.Fprintf(&b, "v=%s\n", sliceStr)
		fmt.Fprintf(&b, "echo \"e=${v:(%s):(%s)}\"\n", s.E.text(), s.E2.text())
	case "for":
		var hdr string
		if s.Hdr == len(forHdr) {
			hdr = fmt.Sprintf(forHdrDown, s.N)
		} else {
			hdr = fmt.Sprintf(forHdr[s.Hdr%len(forHdr)], s.N)
		}
		fmt.Fprintf(&b, "for ((%s)); do\n", hdr)
		switch s.Body {
		case 0:
			fmt.Fprintf(&b, "(( %s ))\n", s.E.text())
		case 1:
			fmt.Fprintf(&b, ": $(( %s ))\n", s.E.text())
		default:
			fmt.Fprintf(&b, "w=$(( %s ))\n", s.E.text())
		}
		b.WriteString("done\n")
	default:
		panic("c20: bad ctx " + s.Ctx)
	}
	b.WriteString("echo \"s=$?\"\n")
	b.WriteString("echo \"x=$x y=$y z=$z w=$w u=$u i=$i\"\n")
	b.WriteString("echo \"a=${a[@]} k=${!a[@]}\"\n")
	return b.String()
}

// ------------------------------------------------------- reference evaluator

var (
	errDiv = errors.New("division by 0")
	errExp = errors.New("exponent less than 0")
	errLit = errors.New("invalid literal")
)

// parseLit follows bash's strlong: 0x/0X hex, leading 0 octal, base#digits
// with base 2..64 (digits 0-9 a-z A-Z @ _; for bases <= 36 letters are case
// insensitive). over reports a value that does not fit int64 (bash wraps).
func parseLit(s string) (v int64, over bool, err error) {
	base := int64(10)
	digits := s
	switch {
	case strings.HasPrefix(s, "0x") || strings.HasPrefix(s, "0X"):
		base, digits = 16, s[2:]
		if digits == "" {
			return 0, false, nil // bash 5.2: "0x" is 0
		}
	case len(s) > 1 && s[0] == '0' && !strings.Contains(s, "#"):
		base, digits = 8, s[1:]
	case strings.Contains(s, "#"):
		bs, ds, _ := strings.Cut(s, "#")
		b, e := strconv.ParseInt(bs, 10, 64)
		if e != nil || b < 2 || b > 64 || ds == "" {
			return 0, false, errLit
		}
		base, digits = b, ds
	}
	acc := new(big.Int)
	bb := big.NewInt(base)
	for i := 0; i < len(digits); i++ {
		c := digits[i]
		var d int64
		switch {
		case c >= '0' && c <= '9':
			d = int64(c - '0')
		case c >= 'a' && c <= 'z':
			d = int64(c-'a') + 10
		case c >= 'A' && c <= 'Z':
			if base <= 36 {
				d = int64(c-'A') + 10
			} else {
				d = int64(c-'A') + 36
			}
		case c == '@':
			d = 62
		case c == '_':
			d = 63
		default:
			return 0, false, errLit
		}
		if d >= base {
			return 0, false, errLit
		}
		acc.Mul(acc, bb)
		acc.Add(acc, big.NewInt(d))
	}
	if !acc.IsInt64() {
		return 0, true, nil
	}
	return acc.Int64(), false, nil
}

type scalar struct {
	set   bool
	isInt bool
	i     int64
	node  *Node // initial value (evaluated as an expression when read)
	text  string
}

type ev struct {
	sc   map[string]*scalar
	snap map[string]*Node // initial values seen by $name
	arr  map[int64]int64
	skip string
	deep int
	// inLoop: evaluating the body of a for loop
	inLoop bool
}

func (e *ev) setSkip(why string) {
	if e.skip == "" {
		e.skip = why
	}
}

func fits(b *big.Int) bool { return b.IsInt64() }

func b2i(b bool) int64 {
	if b {
		return 1
	}
	return 0
}

func (e *ev) readVar(name string) (int64, error) {
	s := e.sc[name]
	if s == nil || !s.set {
		return 0, nil
	}
	if s.isInt {
		return s.i, nil
	}
	e.deep++
	defer func() { e.deep-- }()
	if e.deep > 64 {
		e.setSkip("recursion")
		return 0, nil
	}
	return e.eval(s.node, false)
}

func (e *ev) writeVar(name string, v int64) {
	e.sc[name] = &scalar{set: true, isInt: true, i: v}
}

func (e *ev) index(n *Node) (int64, error) {
	i, err := e.eval(n.X, false)
	if err != nil {
		if e.inLoop {
			// bash abandons the whole for command when the error is
			// raised while a subscript is evaluated (it continues after
			// an error elsewhere in the body); not an arithmetic matter
			e.setSkip("error-in-subscript-in-loop")
		}
		return 0, err
	}
	if i < 0 || i > 63 {
		// negative subscripts count from the end in bash and are a
		// documented error in the interpreter (interp_test.go:3075
		// "negative array index" #JUSTERR); huge ones are array matters (C33)
		e.setSkip("subscript-range")
		return 0, nil
	}
	return i, nil
}

func (e *ev) readLv(n *Node) (int64, int64, error) {
	if n.K == "elem" {
		i, err := e.index(n)
		if err != nil {
			return 0, 0, err
		}
		return e.arr[i], i, nil
	}
	v, err := e.readVar(n.S)
	return v, 0, err
}

func (e *ev) writeLv(n *Node, idx, v int64) {
	if n.K == "elem" {
		e.arr[idx] = v
		return
	}
	e.writeVar(n.S, v)
}

// arith computes l op r. ne is bash's noeval mode: the operand is parsed and
// computed but division by zero is not an error and nothing is assigned.
func (e *ev) arith(op string, l, r int64, ne bool) (int64, error) {
	bl, br := big.NewInt(l), big.NewInt(r)
	chk := func(b *big.Int) int64 {
		if !fits(b) {
			if !ne {
				e.setSkip("overflow")
			}
			return 0
		}
		return b.Int64()
	}
	switch op {
	case "+":
		return chk(bl.Add(bl, br)), nil
	case "-":
		return chk(bl.Sub(bl, br)), nil
	case "*":
		return chk(bl.Mul(bl, br)), nil
	case "/", "%":
		if r == 0 {
			if ne {
				r = 1
			} else {
				return 0, errDiv
			}
		}
		if l == math.MinInt64 && r == -1 {
			if !ne {
				e.setSkip("overflow")
			}
			return 0, nil
		}
		if op == "/" {
			return l / r, nil
		}
		return l % r, nil
	case "**":
		if r < 0 {
			if ne {
				// bash raises this even in an unevaluated operand
				// (expr.c exppower does not look at noeval); the
				// interpreter does not. The sub-case is set aside: an
				// error raised for an operand that is never evaluated is
				// an artefact of bash's one-pass evaluator, not a case
				// "bash reports as error" in the sense of the property.
				e.setSkip("dead-branch-neg-exponent")
				return 0, nil
			}
			return 0, errExp
		}
		if r > 64 && l != 0 && l != 1 && l != -1 {
			if !ne {
				e.setSkip("overflow")
			}
			return 0, nil
		}
		if r > 64 {
			r = 64 + r%2 // base is 0, 1 or -1
			br = big.NewInt(r)
		}
		return chk(bl.Exp(bl, br, nil)), nil
	case "<<", ">>":
		if r < 0 || r > 63 {
			if !ne {
				e.setSkip("shift-count")
			}
			return 0, nil
		}
		if op == ">>" {
			return l >> uint(r), nil
		}
		return chk(bl.Lsh(bl, uint(r))), nil
	case "<":
		return b2i(l < r), nil
	case "<=":
		return b2i(l <= r), nil
	case ">":
		return b2i(l > r), nil
	case ">=":
		return b2i(l >= r), nil
	case "==":
		return b2i(l == r), nil
	case "!=":
		return b2i(l != r), nil
	case "&":
		return l & r, nil
	case "^":
		return l ^ r, nil
	case "|":
		return l | r, nil
	}
	panic("c20: bad operator " + op)
}

func (e *ev) eval(n *Node, ne bool) (int64, error) {
	switch n.K {
	case "num":
		v, over, err := parseLit(n.S)
		if err != nil {
			return 0, err // bash validates literals even when not evaluating
		}
		if over {
			e.setSkip("overflow")
		}
		return v, nil
	case "var":
		if ne {
			return 0, nil
		}
		return e.readVar(n.S)
	case "dvar":
		// $name is replaced by the text the variable held when the
		// command was expanded
		init := e.snap[n.S]
		if init == nil {
			e.setSkip("dollar-unrepresentable")
			return 0, nil
		}
		return e.eval(init, ne)
	case "elem":
		if ne {
			return 0, nil
		}
		v, _, err := e.readLv(n)
		return v, err
	case "par":
		return e.eval(n.X, ne)
	case "un":
		v, err := e.eval(n.X, ne)
		if err != nil {
			return 0, err
		}
		switch n.Op {
		case "-":
			if v == math.MinInt64 {
				if !ne {
					e.setSkip("overflow")
				}
				return 0, nil
			}
			return -v, nil
		case "+":
			return v, nil
		case "!":
			return b2i(v == 0), nil
		case "~":
			return ^v, nil
		}
	case "pre", "post":
		d := int64(1)
		if n.Op == "--" {
			d = -1
		}
		if ne {
			if n.K == "pre" {
				return d, nil
			}
			return 0, nil
		}
		old, idx, err := e.readLv(n.X)
		if err != nil {
			return 0, err
		}
		nv, _ := e.arith("+", old, d, false)
		if e.skip != "" {
			return 0, nil
		}
		e.writeLv(n.X, idx, nv)
		if n.K == "pre" {
			return nv, nil
		}
		return old, nil
	case "bin":
		switch n.Op {
		case "&&", "||":
			l, err := e.eval(n.X, ne)
			if err != nil {
				return 0, err
			}
			short := (n.Op == "&&" && l == 0) || (n.Op == "||" && l != 0)
			r, err := e.eval(n.Y, ne || short)
			if err != nil {
				return 0, err
			}
			if short {
				return b2i(n.Op == "||"), nil
			}
			return b2i(r != 0), nil
		case ",":
			if _, err := e.eval(n.X, ne); err != nil {
				return 0, err
			}
			return e.eval(n.Y, ne)
		}
		l, err := e.eval(n.X, ne)
		if err != nil {
			return 0, err
		}
		r, err := e.eval(n.Y, ne)
		if err != nil {
			return 0, err
		}
		return e.arith(n.Op, l, r, ne)
	case "tern":
		c, err := e.eval(n.X, ne)
		if err != nil {
			return 0, err
		}
		y, err := e.eval(n.Y, ne || c == 0)
		if err != nil {
			return 0, err
		}
		z, err := e.eval(n.Z, ne || c != 0)
		if err != nil {
			return 0, err
		}
		if c != 0 {
			return y, nil
		}
		return z, nil
	case "asg":
		if n.Op == "=" {
			r, err := e.eval(n.Y, ne)
			if err != nil {
				return 0, err
			}
			if !ne {
				var idx int64
				if n.X.K == "elem" {
					if idx, err = e.index(n.X); err != nil {
						return 0, err
					}
				}
				if e.skip == "" {
					e.writeLv(n.X, idx, r)
				}
			}
			return r, nil
		}
		var old, idx int64
		var err error
		if !ne {
			if old, idx, err = e.readLv(n.X); err != nil {
				return 0, err
			}
		}
		r, err := e.eval(n.Y, ne)
		if err != nil {
			return 0, err
		}
		v, err := e.arith(strings.TrimSuffix(n.Op, "="), old, r, ne)
		if err != nil {
			return 0, err
		}
		if !ne && e.skip == "" {
			e.writeLv(n.X, idx, v)
		}
		return v, nil
	}
	panic("c20: bad node " + n.K + " " + n.Op)
}

// top evaluates one expression the way one expansion of it happens: $name
// sees the values at this point.
func (e *ev) top(n *Node) (int64, error) {
	e.snap = map[string]*Node{}
	for name, s := range e.sc {
		if !s.set {
			continue
		}
		if s.isInt {
			if s.i < 0 {
				// only reachable when an earlier iteration assigned the
				// variable; -MinInt64 cannot be written as un(-, num)
				if s.i == math.MinInt64 {
					continue
				}
				e.snap[name] = &Node{K: "un", Op: "-", X: &Node{K: "num", S: strconv.FormatInt(-s.i, 10)}}
			} else {
				e.snap[name] = &Node{K: "num", S: strconv.FormatInt(s.i, 10)}
			}
		} else {
			e.snap[name] = s.node
		}
	}
	return e.eval(n, false)
}

// refRun predicts the program's output; skip is non-empty when the sub-case
// is outside the property's domain.
// expErr reports an arithmetic error raised inside an expansion (as opposed
// to the (( )) and let commands).
//
// loopFail reports a for loop whose body fails in an iteration that is not
// the last one.
func refRun(s *Sub) (out string, skip string, expErr, loopFail bool) {
	e := &ev{sc: map[string]*scalar{}, arr: map[int64]int64{}}
	for _, v := range s.Vars {
		e.sc[v.Name] = &scalar{set: true, node: v.Val, text: v.text()}
	}
	for _, el := range s.Arr {
		e.arr[int64(el.I)] = el.V
	}
	var b strings.Builder
	status := 0
	st := func(v int64, err error) int {
		if err != nil || v == 0 {
			return 1
		}
		return 0
	}
	switch s.Ctx {
	case "echo":
		v, err := e.top(s.E)
		if err != nil {
			status, expErr = 1, true
		} else {
			fmt.Fprintf(&b, "v=%d\n", v)
		}
	case "cmd", "let":
		status = st(e.top(s.E))
	case "aset":
		if !asetSafe.MatchString(s.E.compact()) {
			e.setSkip("aset-shell-special")
		}
		v, err := e.top(s.E)
		if err != nil {
			status, expErr = 1, true
		} else if v < 0 || v > 63 {
			e.setSkip("subscript-range")
		} else {
			e.arr[v] = 7
		}
	case "aget":
		v, err := e.top(s.E)
		if err != nil {
			status, expErr = 1, true
		} else if v < 0 || v > 63 {
			e.setSkip("subscript-range")
		} else if x, ok := e.arr[v]; ok {
			fmt.Fprintf(&b, "e=%d\n", x)
		} else {
			b.WriteString("e=\n")
		}
	case "slice":
		off, err := e.top(s.E)
		var ln int64
		if err == nil {
			ln, err = e.top(s.E2)
		}
		if err != nil {
			status, expErr = 1, true
		} else if off < 0 || off > 12 || ln < 0 || ln > 12 {
			// negative offsets/lengths count from the end: substring
			// semantics belong to C21
			e.setSkip("slice-range")
		} else {
			str := sliceStr
			if int(off) >= len(str) {
				str = ""
			} else {
				str = str[off:]
			}
			if int(ln) < len(str) {
				str = str[:ln]
			}
			fmt.Fprintf(&b, "e=%s\n", str)
		}
	case "for":
		// the body never assigns i, so every header variant runs the body
		// with i = 0..N-1 (or N..1 counting down)
		down := s.Hdr == len(forHdr)
		e.inLoop = true
		for k := 0; k < s.N && e.skip == ""; k++ {
			if down {
				e.writeVar("i", int64(s.N-k))
			} else {
				e.writeVar("i", int64(k))
			}
			v, err := e.top(s.E)
			switch s.Body {
			case 0:
				status = st(v, err)
			case 1:
				status = 0
				if err != nil {
					status, expErr = 1, true
				}
			default:
				status = 0
				if err != nil {
					status, expErr = 1, true
				} else {
					e.writeVar("w", v)
				}
			}
			if status != 0 && k < s.N-1 {
				loopFail = true
			}
		}
		if down {
			e.writeVar("i", 0)
		} else {
			e.writeVar("i", int64(s.N))
		}
	}
	fmt.Fprintf(&b, "s=%d\n", status)
	b.WriteString("x=" + e.dump("x") + " y=" + e.dump("y") + " z=" + e.dump("z") + " w=" + e.dump("w") + " u=" + e.dump("u") + " i=" + e.dump("i") + "\n")
	keys := make([]int64, 0, len(e.arr))
	for k := range e.arr {
		keys = append(keys, k)
	}
	sort.Slice(keys, func(i, j int) bool { return keys[i] < keys[j] })
	var vs, ks []string
	for _, k := range keys {
		vs = append(vs, strconv.FormatInt(e.arr[k], 10))
		ks = append(ks, strconv.FormatInt(k, 10))
	}
	fmt.Fprintf(&b, "a=%s k=%s\n", strings.Join(vs, " "), strings.Join(ks, " "))
	return b.String(), e.skip, expErr, loopFail
}

func (e *ev) dump(name string) string {
	s := e.sc[name]
	if s == nil || !s.set {
		return ""
	}
	if s.isInt {
		return strconv.FormatInt(s.i, 10)
	}
	return s.text
}

// ------------------------------------------------------- syntactic analysis

func walk(n *Node, f func(*Node)) {
	if n == nil {
		return
	}
	f(n)
	walk(n.X, f)
	walk(n.Y, f)
	walk(n.Z, f)
}

var simpleValue = regexp.MustCompile(`^\s*[+-]?(0[xX][0-9a-fA-F]*|[0-9]+#[0-9a-zA-Z@_]*|[0-9]+)\s*$`)
var validName = regexp.MustCompile(`^[A-Za-z_][A-Za-z0-9_]*$`)

// info is what the exclusion predicates and the evidence classes look at. It
// is a function of the case only.
type info struct {
	ops        int
	sideEffect bool
	nonDecimal bool
	invalidLit bool // a literal bash rejects (digit too great for the base, bad base)
	exprValue  bool // a variable that is read holds text that is neither a literal nor a name
	dollarAsg  bool // $name of a variable that the expression also assigns
	elemAssign bool // assignment or ++/-- on an array element
	sideInSub  bool // side effect inside an array subscript
	rmwName    bool // ++, -- or op= on a variable whose value is another variable's name
	kinds      map[string]bool
}

func (s *Sub) exprs() []*Node {
	if s.E2 != nil {
		return []*Node{s.E, s.E2}
	}
	return []*Node{s.E}
}

func analyse(s *Sub) info {
	in := info{kinds: map[string]bool{}}
	vals := map[string]*Var{}
	for i := range s.Vars {
		vals[s.Vars[i].Name] = &s.Vars[i]
	}
	assigned := map[string]bool{}
	dollars := map[string]bool{}
	reach := map[string]bool{}
	var visit func(n *Node, top bool)
	var reachVar func(name string)
	reachVar = func(name string) {
		if reach[name] {
			return
		}
		reach[name] = true
		if v := vals[name]; v != nil {
			visit(v.Val, false)
			t := v.text()
			if !simpleValue.MatchString(t) && !validName.MatchString(t) {
				in.exprValue = true
			}
		}
	}
	visit = func(root *Node, top bool) {
		walk(root, func(n *Node) {
			switch n.K {
			case "num":
				if _, _, err := parseLit(n.S); err != nil {
					in.invalidLit = true
				}
				if !regexp.MustCompile(`^(0|[1-9][0-9]*)$`).MatchString(n.S) {
					in.nonDecimal = true
					in.kinds["lit:"+litKind(n.S)] = true
				}
			case "var":
				reachVar(n.S)
			case "dvar":
				dollars[n.S] = true
				reachVar(n.S)
				in.kinds["dollar"] = true
			case "elem":
				in.kinds["elem"] = true
				walk(n.X, func(m *Node) {
					if m.K == "asg" || m.K == "pre" || m.K == "post" {
						in.sideInSub = true
					}
				})
			case "un", "bin", "tern":
				in.ops++
				if top {
					in.kinds["op:"+n.K+n.Op] = true
				}
			case "asg", "pre", "post":
				in.ops++
				in.sideEffect = true
				if top {
					in.kinds["op:"+n.K+n.Op] = true
				}
				if n.X.K == "elem" {
					in.elemAssign = true
				} else {
					assigned[n.X.S] = true
					if n.K != "asg" || n.Op != "=" {
						reachVar(n.X.S)
						if v := vals[n.X.S]; v != nil && validName.MatchString(v.text()) {
							in.rmwName = true
						}
					}
				}
			}
		})
	}
	for _, e := range s.exprs() {
		visit(e, true)
	}
	for n := range dollars {
		if assigned[n] {
			in.dollarAsg = true
		}
	}
	return in
}

func litKind(s string) string {
	switch {
	case strings.HasPrefix(s, "0x"), strings.HasPrefix(s, "0X"):
		return "hex"
	case strings.Contains(s, "#"):
		b, _, _ := strings.Cut(s, "#")
		if n, err := strconv.Atoi(b); err == nil && n > 36 {
			return "base37-64"
		}
		return "base2-36"
	case len(s) > 1 && s[0] == '0':
		return "octal"
	}
	return "dec"
}

// exclusion returns the id of the known finding whose syntactic class the
// sub-case falls in, or "". Every class is a predicate over the case.
func exclusion(s *Sub, in info, expErr, loopFail bool) string {
	switch {
	case loopFail && excluded("C20-cfor-stops-after-failing-body"):
		// interp/runner.go CStyleLoop: "if !r.exit.ok() || ..." looks at
		// the status the previous iteration's body left behind
		return "C20-cfor-stops-after-failing-body"
	case in.elemAssign && excluded("C20-array-elem-assign"):
		// expand/arith.go: Inc/Dec and assgnArit take the name with
		// Word.Lit(), which is "" for a[i]: panic "variable name must not be empty"
		return "C20-array-elem-assign"
	case in.rmwName && excluded("C20-rmw-name-value"):
		// expand/arith.go:44 and :211 read the old value with atoi(envGet(name)):
		// x=y y=5; x++ starts from 0 instead of 5
		return "C20-rmw-name-value"
	case in.invalidLit && excluded("C20-invalid-literal"):
		// expand/arith.go atoi ignores conversion errors: 08, 2#12, 65#1 are 0
		return "C20-invalid-literal"
	case in.exprValue && excluded("C20-var-expr-value"):
		// expand/arith.go:37 a value that is neither a number nor a name is 0
		return "C20-var-expr-value"
	case s.Ctx == "let" && letQuoted(s) && excluded("C20-let-quoted-arg"):
		// let "E": the quoted word is a Word whose text goes through atoi
		return "C20-let-quoted-arg"
	case in.dollarAsg && excluded("C20-dollar-lazy-expansion"):
		// $x is expanded when the operand is evaluated, not before the
		// expression is evaluated: $(( x=5, $x ))
		return "C20-dollar-lazy-expansion"
	case expErr && excluded("C20-expansion-error-status"):
		// an arithmetic error inside an expansion leaves $? at 0
		return "C20-expansion-error-status"
	}
	return ""
}

// excluded: the class of a known finding is skipped during generation; a
// replay (regress tier, --replay) always shows the real behaviour.
func excluded(id string) bool {
	return os.Getenv("VERIF_REPLAY") == "" && vh.Excluded(id)
}

func letQuoted(s *Sub) bool {
	_, q := s.letArg()
	return q
}

// ------------------------------------------------------------------ oracle

const marker = "@@C20@@ "

func bashBatch(dir string, scripts []string) ([]string, error) {
	var b strings.Builder
	for i, s := range scripts {
		fmt.Fprintf(&b, "echo \"%s%d\"\nunset x y z w u i a v\n", marker, i)
		b.WriteString(s)
	}
	fmt.Fprintf(&b, "echo \"%send\"\n", marker)
	r := oracle.RunShell(b.String(), oracle.Opts{Dir: dir})
	if r.Err != nil {
		return nil, r.Err
	}
	if r.Timeout {
		return nil, fmt.Errorf("bash timed out")
	}
	parts := strings.Split(string(r.Stdout), marker)
	if len(parts) != len(scripts)+2 || parts[0] != "" || parts[len(parts)-1] != "end\n" {
		return nil, fmt.Errorf("bash batch incomplete: %d parts for %d scripts (status %d)", len(parts), len(scripts), r.Status)
	}
	outs := make([]string, len(scripts))
	for i := range scripts {
		head, rest, _ := strings.Cut(parts[i+1], "\n")
		if head != strconv.Itoa(i) {
			return nil, fmt.Errorf("bash batch out of order at %d: %q", i, head)
		}
		outs[i] = rest
	}
	return outs, nil
}

func check(c Case) (res vh.Result) {
	if len(c.Subs) == 0 {
		res.Skipped = true
		return res
	}
	dir, err := oracle.NewDir()
	if err != nil {
		panic(err)
	}
	defer oracle.RemoveDir(dir)

	type act struct {
		i      int
		script string
		ref    string
	}
	var active []act
	classes := map[string]int{}
	for i := range c.Subs {
		s := &c.Subs[i]
		classes["sub:total"]++
		in := analyse(s)
		ref, skip, expErr, loopFail := refRun(s)
		if skip != "" {
			classes["sub:skip:"+skip]++
			continue
		}
		if id := exclusion(s, in, expErr, loopFail); id != "" {
			classes["sub:excluded:"+id]++
			continue
		}
		classes["sub:ctx:"+s.Ctx]++
		for k := range in.kinds {
			classes["sub:"+k]++
		}
		if in.ops >= 2 || in.sideEffect || in.nonDecimal {
			classes["sub:nontrivial"]++
			res.Nontrivial = true
		}
		if in.sideEffect {
			classes["sub:side-effect"]++
		}
		if strings.HasPrefix(ref, "s=1\n") || strings.Contains(ref, "\ns=1\n") {
			classes["sub:status1"]++
		}
		active = append(active, act{i, s.script(), ref})
	}
	defer func() {
		for k, n := range classes {
			vh.Count("C20", k, n)
		}
	}()
	if len(active) == 0 {
		res.Skipped = true
		return res
	}
	scripts := make([]string, len(active))
	for k, a := range active {
		scripts[k] = a.script
	}
	bouts, err := bashBatch(dir, scripts)
	if err != nil {
		// infrastructure: never a verdict about the interpreter
		res.Skipped = true
		res.Classes = append(res.Classes, "infra:bash-batch")
		if os.Getenv("C20_DEBUG") != "" {
			return vh.Fail("bash batch: %v", err)
		}
		return res
	}
	for k, a := range active {
		bout := bouts[k]
		if bout != a.ref {
			classes["sub:ref-mismatch"]++
			if os.Getenv("C20_STRICTREF") != "" {
				return vh.Fail("HARNESS: reference evaluator disagrees with bash on sub-case %d\n--- program\n%s--- bash\n%s--- reference\n%s", a.i, a.script, bout, a.ref)
			}
			continue
		}
		classes["sub:compared"]++
		ir := oracle.RunInterp(a.script, oracle.InterpOpts{Dir: dir})
		var got string
		switch {
		case ir.ParseErr != nil:
			got = "parse error: " + ir.ParseErr.Error()
		case ir.Panic != nil:
			got = fmt.Sprintf("panic: %v", ir.Panic)
		case ir.Timeout:
			got = "timeout"
		case ir.Err != nil:
			panic(ir.Err)
		default:
			got = string(ir.Stdout)
			if ir.Status != 0 {
				got += fmt.Sprintf("[exit status %d]", ir.Status)
			}
		}
		if got != bout {
			return vh.Fail("sub-case %d: interpreter and bash disagree\n--- program\n%s--- bash stdout\n%s--- interp stdout\n%s--- interp stderr\n%s", a.i, a.script, bout, got, ir.Stderr)
		}
	}
	return res
}

var prop = vh.Prop[Case]{ID: "C20", Gen: gen, Check: check}

func TestC20(t *testing.T) { vh.Run(t, prop) }

// --------------------------------------------------------------- generation

type gctx struct {
	t       *rapid.T
	names   []string         // scalar names that may be read/assigned
	dollar  []string         // names that may be written $name
	loopVar bool             // i may be read
	noSide  bool             // no assignments (subscripts of lvalues)
	noElem  bool             // no array elements (inside a subscript when $name is in use)
	nest    bool             // nested subscripts allowed; then no $name and no ~ (see leaf)
	noTilde bool             // no ~ operator (inside subscripts)
	plain   bool             // only operators made of characters that are not special to the shell's word lexer
	vals    map[string]*Node // initial values
}

func num(v int64) *Node {
	if v < 0 {
		return &Node{K: "un", Op: "-", X: &Node{K: "num", S: strconv.FormatInt(-v, 10)}}
	}
	return &Node{K: "num", S: strconv.FormatInt(v, 10)}
}

var bigInts = []int64{math.MaxInt64, math.MaxInt64 - 1, 1 << 62, 1 << 32, 1<<31 - 1, 1 << 31, 4294967295, 65536, 255, 1000000007, 100, 64, 63}

const digitSet = "0123456789abcdefghijklmnopqrstuvwxyzABCDEFGHIJKLMNOPQRSTUVWXYZ@_"

func genLiteral(t *rapid.T) *Node {
	switch rapid.IntRange(0, 19).Draw(t, "litkind") {
	case 0, 1, 2, 3, 4, 5, 6, 7, 8:
		return num(int64(rapid.IntRange(0, 9).Draw(t, "small")))
	case 9:
		return num(int64(rapid.IntRange(10, 300).Draw(t, "mid")))
	case 10:
		return num(rapid.SampledFrom(bigInts).Draw(t, "big"))
	case 11, 12: // hex
		p := rapid.SampledFrom([]string{"0x", "0x", "0X"}).Draw(t, "hexp")
		return &Node{K: "num", S: p + rapid.StringMatching(`[0-9a-fA-F]{1,4}`).Draw(t, "hexd")}
	case 13, 14: // octal
		return &Node{K: "num", S: "0" + rapid.StringMatching(`[0-7]{1,4}`).Draw(t, "octd")}
	case 15: // invalid forms
		return &Node{K: "num", S: rapid.SampledFrom([]string{"08", "09", "019", "0778", "2#2", "2#12", "8#8", "10#a", "16#g", "36#@", "37#Z", "37#_", "63#_", "62#@", "65#1", "1#0", "0#1"}).Draw(t, "badlit")}
	default: // base#digits, valid
		base := rapid.OneOf(rapid.SampledFrom([]int{2, 8, 10, 16, 36, 37, 62, 63, 64}), rapid.IntRange(2, 64)).Draw(t, "base")
		n := rapid.IntRange(1, 4).Draw(t, "ndig")
		var b strings.Builder
		fmt.Fprintf(&b, "%d#", base)
		for i := 0; i < n; i++ {
			d := rapid.IntRange(0, base-1).Draw(t, "dig")
			ch := digitSet[d]
			if base <= 36 && d >= 10 && rapid.Bool().Draw(t, "upper") {
				ch = ch - 'a' + 'A'
			}
			b.WriteByte(ch)
		}
		return &Node{K: "num", S: b.String()}
	}
}

func (g *gctx) lvalue() *Node {
	if !g.noSide && !g.noElem && rapid.IntRange(0, 9).Draw(g.t, "lvelem") == 0 {
		sub := *g
		sub.noSide = true
		sub.noElem = !g.nest
		sub.noTilde = true
		sub.dollar = nil
		return &Node{K: "elem", S: "a", X: sub.expr(1)}
	}
	return &Node{K: "var", S: rapid.SampledFrom(g.names).Draw(g.t, "lvname")}
}

func (g *gctx) leaf() *Node {
	t := g.t
	k := rapid.IntRange(0, 19).Draw(t, "leaf")
	switch {
	case k < 11:
		return genLiteral(t)
	case k < 16:
		names := g.names
		if g.loopVar {
			names = append(append([]string{}, names...), "i", "i")
		}
		return &Node{K: "var", S: rapid.SampledFrom(names).Draw(t, "vname")}
	case k < 18:
		if len(g.dollar) == 0 {
			return genLiteral(t)
		}
		n := &Node{K: "dvar", S: rapid.SampledFrom(g.dollar).Draw(t, "dname")}
		if rapid.IntRange(0, 3).Draw(t, "dbrace") == 0 {
			n.Op = "b"
		}
		// a value that is not a single literal or name must stay one
		// operand after textual substitution
		if v := g.vals[n.S]; v != nil && !atomicValue(v) {
			return &Node{K: "par", X: n}
		}
		return n
	default:
		// bash 5.2.15 mis-quotes the brackets of NESTED subscripts once
		// the expression text contains a $ expansion or a tilde
		// ("$(( a[a[1]] + $w ))" and "$(( a[a[1]] + ~1 ))" fail with
		// "a\[1\]: syntax error" there), so a sub-case uses nested
		// subscripts (g.nest) or $name and ~, never both
		if g.noElem {
			return genLiteral(t)
		}
		sub := *g
		sub.noElem = !g.nest
		sub.dollar = nil
		sub.noTilde = true // bash 5.2.15: "$(( a[~x] ))" is "\\~x: syntax error"
		return &Node{K: "elem", S: "a", X: sub.expr(1)}
	}
}

// atomicValue: the value's text is one operand at every precedence level
// (a literal, a name, or a sign followed by a literal: unary minus binds
// tighter than every binary operator, ** included).
func atomicValue(v *Node) bool {
	switch v.K {
	case "num", "var":
		return true
	case "un":
		return (v.Op == "-" || v.Op == "+") && v.X.K == "num"
	}
	return false
}

var binOps = []string{
	"+", "+", "+", "-", "-", "-", "*", "*", "*", "/", "/", "%", "%", "**", "**",
	"<<", ">>", "<", "<=", ">", ">=", "==", "!=", "&", "^", "|", "&&", "&&", "||", "||",
}
var asgOps = []string{"=", "=", "=", "+=", "-=", "*=", "/=", "%=", "<<=", ">>=", "&=", "^=", "|="}

func (g *gctx) expr(depth int) *Node {
	t := g.t
	if depth <= 0 || rapid.IntRange(0, 9).Draw(t, "stop") < 2 {
		return g.leaf()
	}
	k := rapid.IntRange(0, 99).Draw(t, "kind")
	sp := rapid.IntRange(0, 2).Draw(t, "sp") == 0
	switch {
	case k < 50:
		op := rapid.SampledFrom(binOps).Draw(t, "binop")
		if g.plain {
			op = rapid.SampledFrom([]string{"+", "-", "*", "/", "%", "**", "==", "!=", "^"}).Draw(t, "plainop")
		}
		x := g.expr(depth - 1)
		var y *Node
		switch op {
		case "/", "%":
			if rapid.IntRange(0, 3).Draw(t, "divlit") > 0 {
				y = num(int64(rapid.IntRange(1, 9).Draw(t, "divisor")))
				if rapid.IntRange(0, 4).Draw(t, "divneg") == 0 {
					y = &Node{K: "un", Op: "-", X: y}
				}
			}
		case "**":
			if rapid.IntRange(0, 5).Draw(t, "powlit") > 0 {
				y = num(int64(rapid.IntRange(0, 6).Draw(t, "exponent")))
			}
		case "<<", ">>":
			if rapid.IntRange(0, 5).Draw(t, "shlit") > 0 {
				y = num(int64(rapid.SampledFrom([]int{0, 1, 2, 3, 5, 8, 31, 32, 62, 63}).Draw(t, "shift")))
			}
		}
		if y == nil {
			y = g.expr(depth - 1)
		}
		return &Node{K: "bin", Op: op, X: x, Y: y, Sp: sp}
	case k < 62:
		ops := []string{"-", "-", "+", "!", "~"}
		if g.plain || g.nest || g.noTilde {
			ops = ops[:4]
		}
		return &Node{K: "un", Op: rapid.SampledFrom(ops).Draw(t, "unop"), X: g.expr(depth - 1)}
	case k < 70:
		return &Node{K: "tern", X: g.expr(depth - 1), Y: g.expr(depth - 1), Z: g.expr(depth - 1), Sp: sp}
	case k < 80:
		if g.noSide {
			return g.leaf()
		}
		op := rapid.SampledFrom(asgOps).Draw(t, "asgop")
		if g.plain {
			op = rapid.SampledFrom([]string{"=", "+=", "-=", "*=", "^="}).Draw(t, "plainasg")
		}
		lv := g.lvalue()
		var y *Node
		switch op {
		case "/=", "%=":
			if rapid.IntRange(0, 3).Draw(t, "divlit") > 0 {
				y = num(int64(rapid.IntRange(1, 9).Draw(t, "divisor")))
			}
		case "<<=", ">>=":
			if rapid.IntRange(0, 5).Draw(t, "shlit") > 0 {
				y = num(int64(rapid.IntRange(0, 8).Draw(t, "shift")))
			}
		}
		if y == nil {
			y = g.expr(depth - 1)
		}
		return &Node{K: "asg", Op: op, X: lv, Y: y, Sp: sp}
	case k < 88:
		if g.noSide {
			return g.leaf()
		}
		return &Node{K: rapid.SampledFrom([]string{"pre", "post"}).Draw(t, "incpos"), Op: rapid.SampledFrom([]string{"++", "--"}).Draw(t, "incop"), X: g.lvalue()}
	case k < 93:
		return &Node{K: "bin", Op: ",", X: g.expr(depth - 1), Y: g.expr(depth - 1), Sp: sp}
	default:
		return &Node{K: "par", X: g.expr(depth - 1)}
	}
}

func genSub(t *rapid.T) Sub {
	var s Sub
	g := &gctx{t: t, names: scalarNames, vals: map[string]*Node{}}
	// variables: later names may be mentioned by earlier values (no cycles:
	// "a=b b=a" is a documented divergence, interp_test.go:2392 #IGNORE)
	fancy := rapid.IntRange(0, 9).Draw(t, "fancy") < 3 // values that are expressions
	pool := []string{"x", "y", "z", "w"}
	for i, name := range pool {
		if rapid.IntRange(0, 3).Draw(t, "set") == 0 {
			continue
		}
		later := append(append([]string{}, pool[i+1:]...), "u")
		v := Var{Name: name}
		k := rapid.IntRange(0, 19).Draw(t, "valkind")
		switch {
		case k < 9:
			v.Val = num(int64(rapid.IntRange(-3, 9).Draw(t, "ival")))
		case k < 11:
			v.Val = num(rapid.SampledFrom(bigInts).Draw(t, "bigval"))
			if rapid.Bool().Draw(t, "negbig") {
				v.Val = &Node{K: "un", Op: "-", X: v.Val}
			}
		case k < 13:
			v.Val = genLiteral(t)
			if rapid.IntRange(0, 3).Draw(t, "sign") == 0 {
				v.Val = &Node{K: "un", Op: rapid.SampledFrom([]string{"-", "+"}).Draw(t, "signop"), X: v.Val}
			}
		case k < 16:
			v.Val = &Node{K: "var", S: rapid.SampledFrom(later).Draw(t, "target")}
		default:
			if fancy {
				vg := &gctx{t: t, names: later, vals: map[string]*Node{}}
				vg.noSide = rapid.IntRange(0, 3).Draw(t, "valside") > 0
				v.Val = vg.expr(2)
			} else {
				v.Val = num(int64(rapid.IntRange(0, 5).Draw(t, "ival2")))
			}
		}
		if atomicValue(v.Val) && v.Val.K != "var" && rapid.IntRange(0, 5).Draw(t, "pad") == 0 {
			v.Pad = rapid.IntRange(1, 3).Draw(t, "padkind")
		}
		s.Vars = append(s.Vars, v)
		g.vals[name] = v.Val
		g.dollar = append(g.dollar, name)
	}
	if rapid.IntRange(0, 2).Draw(t, "hasarr") > 0 {
		n := rapid.IntRange(1, 4).Draw(t, "narr")
		idx := 0
		for i := 0; i < n; i++ {
			idx += rapid.IntRange(0, 2).Draw(t, "gap")
			s.Arr = append(s.Arr, ArrEl{I: idx, V: int64(rapid.IntRange(-2, 9).Draw(t, "aval"))})
			idx++
		}
	}
	if rapid.IntRange(0, 2).Draw(t, "nest") == 0 {
		g.nest = true
		g.dollar = nil
	}
	s.Ctx = rapid.SampledFrom([]string{"echo", "echo", "echo", "echo", "cmd", "cmd", "let", "let", "aset", "aget", "slice", "for", "for"}).Draw(t, "ctx")
	depth := rapid.IntRange(1, 4).Draw(t, "depth")
	switch s.Ctx {
	case "let":
		s.LetQ = rapid.Bool().Draw(t, "letq")
		if !s.LetQ {
			// unquoted: no $name (it would be a word expansion), shallow
			g.dollar = nil
		}
		s.E = g.expr(depth)
	case "aset":
		g.dollar = nil
		g.plain = true
		s.E = g.expr(depth - 1)
		if rapid.IntRange(0, 3).Draw(t, "mask") > 0 {
			s.E = &Node{K: "bin", Op: "%", X: s.E, Y: num(8)}
		}
	case "aget":
		s.E = g.expr(depth - 1)
		if rapid.IntRange(0, 3).Draw(t, "mask") > 0 {
			s.E = &Node{K: "bin", Op: "&", X: s.E, Y: num(7)}
		}
	case "slice":
		s.E = g.expr(depth - 1)
		if rapid.IntRange(0, 3).Draw(t, "mask") > 0 {
			s.E = &Node{K: "bin", Op: "&", X: s.E, Y: num(7)}
		}
		s.E2 = g.expr(depth - 1)
		if rapid.IntRange(0, 3).Draw(t, "mask2") > 0 {
			s.E2 = &Node{K: "bin", Op: "&", X: s.E2, Y: num(7)}
		}
	case "for":
		s.N = rapid.IntRange(0, 8).Draw(t, "n")
		s.Hdr = rapid.IntRange(0, len(forHdr)).Draw(t, "hdr")
		s.Body = rapid.IntRange(0, 2).Draw(t, "body")
		g.loopVar = true
		s.E = g.expr(depth)
	default:
		s.E = g.expr(depth)
	}
	return s
}

func gen(t *rapid.T) Case {
	// the length is drawn separately: SliceOfN(1, 64) alone averages 7
	// elements and one bash process per case would dominate the cost
	n := rapid.IntRange(1, 64).Draw(t, "nsubs")
	return Case{Subs: rapid.SliceOfN(rapid.Custom(genSub), n, n).Draw(t, "subs")}
}

// ------------------------------------------------------- exhaustive stage

var enumBin = []string{"+", "-", "*", "/", "%", "**", "<<", ">>", "<", "<=", ">", ">=", "==", "!=", "&", "^", "|", "&&", "||", ","}

// group builds the tree that the flat text "A op1 B op2 C" denotes.
func group(op1, op2 string, a, b, c *Node) *Node {
	p1, p2 := binPrec[op1], binPrec[op2]
	rightAssoc := op1 == "**" && op2 == "**"
	if p1 > p2 || (p1 == p2 && !rightAssoc) {
		return &Node{K: "bin", Op: op2, X: &Node{K: "bin", Op: op1, X: a, Y: b}, Y: c}
	}
	return &Node{K: "bin", Op: op1, X: a, Y: &Node{K: "bin", Op: op2, X: b, Y: c}}
}

// allEnum enumerates every ordered pair of binary operators over operand
// triples chosen to tell the two groupings apart, every unary operator in
// front of and behind every binary operator, every binary operator in each
// position of a conditional, and every assignment operator in front of every
// binary operator. The text of each expression has no parentheses other than
// those the tree needs, so the interpreter's own precedence and
// associativity decide the value.
func allEnum() []Sub {
	var subs []Sub
	vars := []Var{{Name: "x", Val: num(7)}, {Name: "y", Val: num(3)}, {Name: "z", Val: num(2)}, {Name: "w", Val: num(-5)}}
	add := func(e *Node, ctx string) {
		subs = append(subs, Sub{Vars: vars, Ctx: ctx, E: e, LetQ: true})
	}
	triples := [][3]*Node{
		{num(7), num(3), num(2)},
		{num(2), num(3), num(2)},
		{&Node{K: "var", S: "w"}, num(2), num(3)},
		{&Node{K: "var", S: "x"}, &Node{K: "var", S: "y"}, &Node{K: "var", S: "z"}},
		{num(1), num(0), num(1)},
		{num(6), num(4), num(1)},
	}
	for _, o1 := range enumBin {
		for _, o2 := range enumBin {
			for _, tr := range triples {
				add(group(o1, o2, tr[0], tr[1], tr[2]), "echo")
			}
			add(group(o1, o2, &Node{K: "var", S: "x"}, num(3), num(2)), "cmd")
		}
	}
	for _, u := range []string{"-", "+", "!", "~"} {
		for _, o := range enumBin {
			for _, tr := range triples[:4] {
				// unary binds tighter than every binary operator
				add(&Node{K: "bin", Op: o, X: &Node{K: "un", Op: u, X: tr[0]}, Y: tr[1]}, "echo")
				add(&Node{K: "bin", Op: o, X: tr[0], Y: &Node{K: "un", Op: u, X: tr[1]}}, "echo")
			}
		}
		for _, u2 := range []string{"-", "+", "!", "~"} {
			add(&Node{K: "un", Op: u, X: &Node{K: "un", Op: u2, X: &Node{K: "var", S: "y"}}}, "echo")
		}
	}
	for _, o := range enumBin[:19] { // the comma is parenthesised inside ?:
		for _, tr := range triples[:4] {
			add(&Node{K: "tern", X: &Node{K: "bin", Op: o, X: tr[0], Y: tr[1]}, Y: tr[2], Z: num(9)}, "echo")
			add(&Node{K: "tern", X: tr[2], Y: &Node{K: "bin", Op: o, X: tr[0], Y: tr[1]}, Z: num(9)}, "echo")
			add(&Node{K: "tern", X: num(0), Y: num(9), Z: &Node{K: "bin", Op: o, X: tr[0], Y: tr[1]}}, "echo")
			add(&Node{K: "tern", X: tr[0], Y: num(8), Z: &Node{K: "tern", X: tr[1], Y: num(9), Z: &Node{K: "bin", Op: o, X: tr[2], Y: num(4)}}}, "echo")
		}
	}
	for _, ao := range []string{"=", "+=", "-=", "*=", "/=", "%=", "<<=", ">>=", "&=", "^=", "|="} {
		for _, o := range enumBin {
			add(&Node{K: "asg", Op: ao, X: &Node{K: "var", S: "x"}, Y: &Node{K: "bin", Op: o, X: num(5), Y: num(3)}}, "echo")
			add(&Node{K: "asg", Op: ao, X: &Node{K: "var", S: "u"}, Y: &Node{K: "bin", Op: o, X: &Node{K: "var", S: "y"}, Y: num(2)}}, "let")
		}
		for _, ao2 := range []string{"=", "+=", "*="} {
			add(&Node{K: "asg", Op: ao, X: &Node{K: "var", S: "x"}, Y: &Node{K: "asg", Op: ao2, X: &Node{K: "var", S: "y"}, Y: num(4)}}, "echo")
		}
	}
	for _, k := range []string{"pre", "post"} {
		for _, io := range []string{"++", "--"} {
			inc := &Node{K: k, Op: io, X: &Node{K: "var", S: "x"}}
			for _, o := range enumBin {
				add(&Node{K: "bin", Op: o, X: inc, Y: &Node{K: "var", S: "x"}}, "echo")
				add(&Node{K: "bin", Op: o, X: &Node{K: "var", S: "x"}, Y: inc}, "echo")
			}
			for _, u := range []string{"-", "+", "!", "~"} {
				add(&Node{K: "un", Op: u, X: inc}, "echo")
			}
		}
	}
	return subs
}

func TestC20Enum(t *testing.T) {
	if os.Getenv("VERIF_REPLAY") != "" {
		vh.Run(t, prop)
		return
	}
	subs := allEnum()
	i, n := vh.Shard()
	const per = 64
	k := 0
	for off := 0; off < len(subs); off += per {
		end := min(off+per, len(subs))
		if k%n == i {
			vh.Each(t, prop, Case{Subs: subs[off:end]})
		}
		k++
	}
	vh.SetExhaustive("C20")
}
