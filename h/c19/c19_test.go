// C19: Pathname expansion matches bash.
package c19

import (
	"bytes"
	"fmt"
	"os"
	"path/filepath"
	"sort"
	"strings"
	"testing"

	"pgregory.net/rapid"

	"verifh/oracle"
	"verifh/vh"
)

func TestMain(m *testing.M) { vh.Main(m) }

// Entry is one directory entry of the generated tree.
type Entry struct {
	Path string `json:"path"`         // relative, '/'-separated
	Kind string `json:"kind"`         // file dir link
	To   string `json:"to,omitempty"` // link target (relative to the link's dir)
}

type Sub struct {
	Opts []string `json:"opts"` // subset of dotglob nullglob globstar nocaseglob extglob noglob
	Word string   `json:"word"`
}

type Case struct {
	Tree []Entry `json:"tree"`
	Subs []Sub   `json:"subs"`
}

var nameGen = rapid.SampledFrom([]string{"a", "b", "ab", "A", "B", "aB", ".h", ".hid", "a.txt", "b.txt", "A.TXT", "d", "e", "x y", "a*b", "q?", "[z]", "-n", "é", "a.b.c", "..x", "c1", "c2", "c10"})

func genTree(t *rapid.T) []Entry {
	var tree []Entry
	seen := map[string]bool{}
	dirs := []string{""}
	n := rapid.IntRange(1, 12).Draw(t, "nentries")
	for i := 0; i < n; i++ {
		dir := dirs[rapid.IntRange(0, len(dirs)-1).Draw(t, "parent")]
		name := nameGen.Draw(t, "name")
		p := filepath.ToSlash(filepath.Join(dir, name))
		key := strings.ToLower(p) // avoid case-only twins: keep results independent of directory order quirks
		if seen[key] || strings.Count(p, "/") > 3 {
			continue
		}
		seen[key] = true
		switch rapid.IntRange(0, 9).Draw(t, "kind") {
		case 0, 1, 2:
			tree = append(tree, Entry{Path: p, Kind: "dir"})
			dirs = append(dirs, p)
		case 3:
			// symlink to an earlier entry or dangling
			to := "nonexistent"
			if len(tree) > 0 && rapid.Bool().Draw(t, "linkreal") {
				tgt := tree[rapid.IntRange(0, len(tree)-1).Draw(t, "linkto")]
				rel, err := filepath.Rel(filepath.Join("/r", dir), filepath.Join("/r", tgt.Path))
				if err == nil {
					to = filepath.ToSlash(rel)
				}
			}
			tree = append(tree, Entry{Path: p, Kind: "link", To: to})
		default:
			tree = append(tree, Entry{Path: p, Kind: "file"})
		}
	}
	return tree
}

var optNames = []string{"dotglob", "nullglob", "globstar", "nocaseglob", "extglob"}

func genWord(t *rapid.T, ext bool) string {
	comp := func() string {
		k := rapid.IntRange(0, 19).Draw(t, "comp")
		switch {
		case k < 4:
			return "*"
		case k < 6:
			return rapid.SampledFrom([]string{"a*", "*b", "*.txt", "a?", "?", "??", "[ab]*", "[!a]*", "[a-c]*", "[A-Z]*", ".*", ".h*", "*.*", "c[0-9]*", "[[:upper:]]*", "*[[:digit:]]", "\\**", "'a'*", "\"x \"*", "a\\*b", "[.]*", "*é*"}).Draw(t, "glob")
		case k < 8:
			return "**"
		case k < 10:
			return nameGen.Draw(t, "lit")
		case k < 11:
			return "."
		case k < 12:
			return ".."
		case k < 14 && ext:
			return rapid.SampledFrom([]string{"@(a|b)", "+(a|b)", "!(a)", "?(a)b", "*(a)", "@(a|b)*", "!(*.txt)", "!(.*)", "@(.h|a)*"}).Draw(t, "ext")
		default:
			return rapid.SampledFrom([]string{"*", "a*", "d", "e", "*/"}).Draw(t, "more")
		}
	}
	n := rapid.IntRange(1, 3).Draw(t, "ncomp")
	var parts []string
	for i := 0; i < n; i++ {
		parts = append(parts, comp())
	}
	w := strings.Join(parts, "/")
	w = strings.ReplaceAll(w, "//", "/")
	switch rapid.IntRange(0, 9).Draw(t, "wordform") {
	case 0:
		w += "/"
	case 1:
		w = "./" + w
	case 2:
		w = "\"$PWD\"/" + w // absolute
	}
	return w
}

func genCase(t *rapid.T) Case {
	c := Case{Tree: genTree(t)}
	n := rapid.IntRange(1, 24).Draw(t, "nsubs")
	for i := 0; i < n; i++ {
		var s Sub
		for _, o := range optNames {
			if rapid.IntRange(0, 3).Draw(t, "opt-"+o) == 0 {
				s.Opts = append(s.Opts, o)
			}
		}
		if rapid.IntRange(0, 11).Draw(t, "noglob") == 0 {
			s.Opts = append(s.Opts, "noglob")
		}
		ext := false
		for _, o := range s.Opts {
			ext = ext || o == "extglob"
		}
		s.Word = genWord(t, ext)
		c.Subs = append(c.Subs, s)
	}
	return c
}

func mkTree(root string, tree []Entry) error {
	for _, e := range tree {
		p := filepath.Join(root, filepath.FromSlash(e.Path))
		if err := os.MkdirAll(filepath.Dir(p), 0o755); err != nil {
			return err
		}
		switch e.Kind {
		case "dir":
			if err := os.MkdirAll(p, 0o755); err != nil {
				return err
			}
		case "link":
			if err := os.Symlink(filepath.FromSlash(e.To), p); err != nil {
				return err
			}
		default:
			if err := os.WriteFile(p, nil, 0o644); err != nil {
				return err
			}
		}
	}
	return nil
}

func script(subs []Sub) string {
	var sb strings.Builder
	for i, s := range subs {
		// options are set on lines of their own, before the line using the word
		sb.WriteString("shopt -u dotglob nullglob globstar nocaseglob extglob\nset +f\n")
		for _, o := range s.Opts {
			if o == "noglob" {
				sb.WriteString("set -f\n")
			} else {
				sb.WriteString("shopt -s " + o + "\n")
			}
		}
		fmt.Fprintf(&sb, "printf '%%s\\n' %s\n", s.Word)
		fmt.Fprintf(&sb, "echo \"--end %d--\"\n", i)
	}
	return sb.String()
}

func split(out []byte, n int) ([]string, bool) {
	res := make([]string, 0, n)
	rest := string(out)
	for i := 0; i < n; i++ {
		mark := fmt.Sprintf("--end %d--\n", i)
		j := strings.Index(rest, mark)
		if j < 0 {
			return res, false
		}
		res = append(res, rest[:j])
		rest = rest[j+len(mark):]
	}
	return res, true
}

func check(c Case) (res vh.Result) {
	var subs []Sub
	for _, s := range c.Subs {
		if id := excluded(c, s); id != "" {
			res.Classes = append(res.Classes, "excluded:"+id)
			continue
		}
		subs = append(subs, s)
	}
	if len(subs) == 0 {
		res.Skipped = true
		return res
	}
	dir, err := oracle.NewDir()
	if err != nil {
		return vh.Result{Skipped: true, Classes: []string{"infra:mkdir"}}
	}
	defer oracle.RemoveDir(dir)
	// nested so that words with ../.. components stay inside directories
	// that hold nothing else
	root := filepath.Join(dir, "p1", "p2", "p3", "r")
	if err := mkTree(root, c.Tree); err != nil || os.MkdirAll(root, 0o755) != nil {
		return vh.Result{Skipped: true, Classes: []string{"infra:mktree"}}
	}
	src := script(subs)
	bash := oracle.RunShell(src, oracle.Opts{Dir: root})
	if bash.Err != nil || bash.Timeout {
		return vh.Result{Skipped: true, Classes: []string{"infra:bash"}}
	}
	in := oracle.RunInterp(src, oracle.InterpOpts{Dir: root})
	if in.Panic != nil {
		return vh.Fail("the interpreter panicked: %v\nscript:\n%s", in.Panic, src)
	}
	if in.ParseErr != nil {
		return vh.Result{Skipped: true, Classes: []string{"parse-fail"}}
	}
	bs, okb := split(bash.Stdout, len(subs))
	is, oki := split(in.Stdout, len(subs))
	if !okb {
		return vh.Result{Skipped: true, Classes: []string{"bash-aborted"}}
	}
	var tree []string
	for _, e := range c.Tree {
		tree = append(tree, e.Kind+":"+e.Path+map[bool]string{true: "->" + e.To, false: ""}[e.Kind == "link"])
	}
	sort.Strings(tree)
	hidden := false
	for _, e := range c.Tree {
		if strings.HasPrefix(filepath.Base(e.Path), ".") || e.Kind == "link" {
			hidden = true
		}
	}
	for i, s := range subs {
		var got string
		if i < len(is) {
			got = is[i]
		} else if !oki {
			got = "<interpreter stopped: " + string(bytes.TrimSpace(in.Stderr)) + ">"
		}
		want := bs[i]
		want = strings.ReplaceAll(want, root, "$PWD")
		got = strings.ReplaceAll(got, root, "$PWD")
		lit := strings.Trim(s.Word, "") + "\n"
		if want != lit && want != strings.ReplaceAll(lit, "\"$PWD\"", "$PWD") || (len(s.Opts) > 0 && hidden) {
			res.Nontrivial = true
		}
		if want != got {
			return vh.Fail("word %s with options %v expands differently\nbash:   %q\ninterp: %q\ntree: %v", s.Word, s.Opts, want, got, tree)
		}
	}
	res.Classes = append(res.Classes, fmt.Sprintf("subs:%d", len(subs)))
	return res
}

var prop = vh.Prop[Case]{ID: "C19", Gen: genCase, Check: check}

func TestC19(t *testing.T) { vh.Run(t, prop) }
