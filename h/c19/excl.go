package c19

import (
	"strings"

	"verifh/vh"
)

func has(s Sub, opt string) bool {
	for _, o := range s.Opts {
		if o == opt {
			return true
		}
	}
	return false
}

func hasExtPattern(w string) bool {
	for _, op := range []string{"@(", "+(", "!(", "?(", "*("} {
		if strings.Contains(w, op) {
			return true
		}
	}
	return false
}

// excluded returns the id of an active known-finding class for a sub-case.
func excluded(c Case, s Sub) string {
	if vh.Excluded("C19-extglob-not-expanded") && has(s, "extglob") && hasExtPattern(s.Word) {
		return "C19-extglob-not-expanded"
	}
	if vh.Excluded("C19-globstar-differences") && has(s, "globstar") && strings.Contains(s.Word, "**") {
		return "C19-globstar-differences"
	}
	if vh.Excluded("C19-escaped-glob-char") && strings.Contains(s.Word, "\\") {
		return "C19-escaped-glob-char"
	}
	if vh.Excluded("C19-nocaseglob-class") && has(s, "nocaseglob") && strings.Contains(s.Word, "[[:") {
		return "C19-nocaseglob-class"
	}
	if vh.Excluded("C19-dangling-symlink-literal") {
		// a dangling symlink named by a literal last component after a glob
		comps := strings.Split(strings.TrimSuffix(s.Word, "/"), "/")
		last := comps[len(comps)-1]
		if len(comps) > 1 && !strings.ContainsAny(last, "*?[") {
			for _, e := range c.Tree {
				if e.Kind == "link" {
					return "C19-dangling-symlink-literal"
				}
			}
		}
	}
	if vh.Excluded("C19-dotdot-after-symlink") && strings.Contains("/"+s.Word+"/", "/../") {
		// ".." after a symlinked directory is resolved lexically
		for _, e := range c.Tree {
			if e.Kind == "link" {
				return "C19-dotdot-after-symlink"
			}
		}
	}
	if vh.Excluded("C19-leading-dot") && !has(s, "dotglob") && !has(s, "noglob") {
		for _, e := range c.Tree {
			for _, comp := range strings.Split(e.Path, "/") {
				if strings.HasPrefix(comp, ".") {
					return "C19-leading-dot"
				}
			}
		}
	}
	return ""
}
