// C22: Field splitting and quote removal match bash.
//
// A case is a batch of independent sub-cases. Each sub-case sets IFS, a few
// variables whose values hold IFS characters at the start, middle and end,
// and expands ONE word assembled from quoted and unquoted parts. The fields
// are observed with `args() { printf '%d' $#; printf '<%s>' "$@"; echo; }`.
//
// Oracle A: interp's standard output and status equal bash's.
// Oracle B: expand.Fields (Go API, same variables and IFS) yields the fields
// bash printed.
package c22

import (
	"fmt"
	"io"
	"os"
	"sort"
	"strconv"
	"strings"
	"testing"
	"time"
	"unicode/utf8"

	"mvdan.cc/sh/v3/expand"
	"mvdan.cc/sh/v3/syntax"
	"pgregory.net/rapid"

	"verifh/oracle"
	"verifh/vh"
)

func TestMain(m *testing.M) { vh.Main(m) }

// ---------------------------------------------------------------------------
// case

// Part is one piece of the word.
type Part struct {
	// Kind: lit (unquoted literal), esc (backslash escape), sq ('...'),
	// ansi ($'...'), dq ("..." holding Inner), var ($v ${v}), arr (${a[@]}
	// ${a[*]}), pos ($@ $*), cmd ($(printf ...)).
	Kind string `json:"kind"`
	// Src is the shell source of the part ("dq": without the quotes, built
	// from Inner).
	Src   string `json:"src"`
	Inner []Part `json:"inner,omitempty"`
	// Ref names what an expansion reads: v, w, a, @ (for var/arr/pos); for
	// cmd it is the text printed by the command substitution.
	Ref string `json:"ref,omitempty"`
}

// Sub is one sub-case.
type Sub struct {
	IFSMode string   `json:"ifs_mode"` // "default" (untouched), "unset", "set"
	IFS     string   `json:"ifs"`      // value when IFSMode is "set"
	V       string   `json:"v"`
	W       string   `json:"w"`
	A       []string `json:"a"`
	Params  []string `json:"params"`
	Parts   []Part   `json:"parts"`
	// Assign: the word is expanded as the value of an assignment
	// (x=WORD; args "$x"): quote removal without field splitting. Oracle B is
	// expand.Literal in that case.
	Assign bool `json:"assign,omitempty"`
}

// Case is a batch of sub-cases evaluated by one bash process.
type Case struct {
	Subs []Sub `json:"subs"`
}

// shq single-quotes s for the shell. A single quote inside s is written as
// '"'"' rather than '\” so that setting up the state does not depend on how
// an unquoted backslash escape is removed (that is part of what C22 tests).
func shq(s string) string { return "'" + strings.ReplaceAll(s, "'", `'"'"'`) + "'" }

func (p Part) source() string {
	if p.Kind == "dq" {
		var sb strings.Builder
		sb.WriteByte('"')
		for _, in := range p.Inner {
			sb.WriteString(in.Src)
		}
		sb.WriteByte('"')
		return sb.String()
	}
	return p.Src
}

// Word is the shell source of the word under test.
func (s Sub) Word() string {
	var sb strings.Builder
	for _, p := range s.Parts {
		sb.WriteString(p.source())
	}
	return sb.String()
}

// ifsValue returns the effective IFS and whether the variable is set.
func (s Sub) ifsValue() (string, bool) {
	switch s.IFSMode {
	case "set":
		return s.IFS, true
	case "unset":
		return " \t\n", false
	}
	return " \t\n", true
}

// Script renders the sub-case as a shell program.
func (s Sub) Script() string {
	var sb strings.Builder
	sb.WriteString("args() { printf '%d' $#; printf '<%s>' \"$@\"; echo; }\n")
	sb.WriteString("v=" + shq(s.V) + "\n")
	sb.WriteString("w=" + shq(s.W) + "\n")
	sb.WriteString("a=(")
	for i, e := range s.A {
		if i > 0 {
			sb.WriteByte(' ')
		}
		sb.WriteString(shq(e))
	}
	sb.WriteString(")\nset --")
	for _, p := range s.Params {
		sb.WriteString(" " + shq(p))
	}
	sb.WriteString("\n")
	switch s.IFSMode {
	case "unset":
		sb.WriteString("unset IFS\n")
	case "set":
		sb.WriteString("IFS=" + shq(s.IFS) + "\n")
	}
	if s.Assign {
		sb.WriteString("x=" + s.Word() + "\n")
		sb.WriteString("args \"$x\"\n")
	} else {
		sb.WriteString("args " + s.Word() + "\n")
	}
	sb.WriteString("echo \"st=$?\"\n")
	return sb.String()
}

// ---------------------------------------------------------------------------
// generators

var ifsValues = []string{
	"", " ", "\t", "\n", " \t\n", " \t", ":", ",", "-", ": ", " :", " :,", ":,", "\n:", "é", "→", ":→", "a", "\\", "*",
}

var fillers = []string{"a", "b", "xy", "é", "*", "?", "\\", "1", "[", "'", "\""}

// genValue builds a value out of fillers and separator characters so that IFS
// characters appear at the start, in the middle, at the end and adjacent to
// each other.
func genValue(t *rapid.T, ifs string) string {
	seps := []string{" ", " ", "\t", "\n", ":", ","}
	for _, r := range ifs {
		seps = append(seps, string(r), string(r))
	}
	n := rapid.IntRange(0, 6).Draw(t, "nval")
	var sb strings.Builder
	for i := 0; i < n; i++ {
		if rapid.Bool().Draw(t, "issep") {
			sb.WriteString(rapid.SampledFrom(seps).Draw(t, "sep"))
		} else {
			sb.WriteString(rapid.SampledFrom(fillers).Draw(t, "fill"))
		}
	}
	return sb.String()
}

func genList(t *rapid.T, ifs string, label string) []string {
	n := rapid.IntRange(0, 3).Draw(t, label)
	out := []string{}
	for i := 0; i < n; i++ {
		out = append(out, genValue(t, ifs))
	}
	return out
}

// literal text safe in an unquoted position: no whitespace, no quote, glob,
// brace, tilde, comment or operator characters. IFS characters like ':' are
// deliberately present: literal text is never split.
// No "/": "/$v" with v='*' would glob the root directory.
var litToks = []string{"a", "b", "x", "1", ":", ",", "-", "é", "→", ".", "=", "+", "%", "a:b", "-:", "@"}

// text inside quotes: may hold anything but the closing quote.
var quotedToks = []string{"a", "b", " ", "  ", "\t", "\n", ":", ",", "-", "é", "→", "*", "?", "x y", " a ", "::", "#", "~", "{a,b}"}

func genInner(t *rapid.T) []Part {
	n := rapid.IntRange(0, 3).Draw(t, "ninner")
	var out []Part
	for i := 0; i < n; i++ {
		switch rapid.IntRange(0, 9).Draw(t, "ikind") {
		case 0, 1:
			out = append(out, Part{Kind: "lit", Src: rapid.SampledFrom(append([]string{"'", "'q'"}, quotedToks...)).Draw(t, "itext")})
		case 2:
			// inside double quotes a backslash only escapes $ ` " \ (and
			// newline); before anything else it stays.
			out = append(out, Part{Kind: "esc", Src: rapid.SampledFrom([]string{`\"`, `\\`, `\$`, `\a`, `\ `, `\:`, `\'`, "\\`", `\*`}).Draw(t, "iesc")})
		case 3, 4:
			name := rapid.SampledFrom([]string{"v", "w"}).Draw(t, "ivar")
			src := "$" + name
			if rapid.Bool().Draw(t, "ibrace") {
				src = "${" + name + "}"
			}
			out = append(out, Part{Kind: "var", Src: src, Ref: name})
		case 5, 6:
			out = append(out, Part{Kind: "arr", Src: rapid.SampledFrom([]string{"${a[@]}", "${a[*]}"}).Draw(t, "iarr"), Ref: "a"})
		case 7, 8:
			out = append(out, Part{Kind: "pos", Src: rapid.SampledFrom([]string{"$@", "$*", "${@}", "${*}"}).Draw(t, "ipos"), Ref: "@"})
		case 9:
			out = append(out, genCmd(t))
		}
	}
	return out
}

func genCmd(t *rapid.T) Part {
	n := rapid.IntRange(0, 4).Draw(t, "ncmd")
	var sb strings.Builder
	for i := 0; i < n; i++ {
		sb.WriteString(rapid.SampledFrom(quotedToks).Draw(t, "ctext"))
	}
	text := sb.String()
	format := rapid.SampledFrom([]string{"%s", "%s", `%s\n`, `%s\n\n`}).Draw(t, "cfmt")
	out := text
	switch format {
	case `%s\n`:
		out += "\n"
	case `%s\n\n`:
		out += "\n\n"
	}
	return Part{Kind: "cmd", Src: "$(printf '" + format + "' " + shq(text) + ")", Ref: out}
}

func genPart(t *rapid.T) Part {
	switch rapid.IntRange(0, 15).Draw(t, "pkind") {
	case 0, 1:
		return Part{Kind: "lit", Src: rapid.SampledFrom(litToks).Draw(t, "lit")}
	case 2:
		return Part{Kind: "esc", Src: rapid.SampledFrom([]string{`\ `, `\:`, `\\`, `\$`, `\"`, `\'`, `\a`, `\*`, `\,`, "\\\t", `\-`, `\é`}).Draw(t, "esc")}
	case 3:
		n := rapid.IntRange(0, 3).Draw(t, "nsq")
		var sb strings.Builder
		for i := 0; i < n; i++ {
			sb.WriteString(rapid.SampledFrom(append([]string{`\`, `"`, "$v"}, quotedToks...)).Draw(t, "sqtext"))
		}
		return Part{Kind: "sq", Src: "'" + sb.String() + "'"}
	case 4:
		return Part{Kind: "ansi", Src: rapid.SampledFrom([]string{`$''`, `$'a b'`, `$'\t'`, `$'\n'`, `$':'`, `$'a\tb'`, `$'\\'`, `$'\''`, `$'\x41'`}).Draw(t, "ansi")}
	case 5, 6, 7:
		return Part{Kind: "dq", Inner: genInner(t)}
	case 8, 9, 10:
		name := rapid.SampledFrom([]string{"v", "v", "w"}).Draw(t, "var")
		src := "$" + name
		if rapid.Bool().Draw(t, "brace") {
			src = "${" + name + "}"
		}
		return Part{Kind: "var", Src: src, Ref: name}
	case 11, 12:
		return Part{Kind: "arr", Src: rapid.SampledFrom([]string{"${a[@]}", "${a[*]}"}).Draw(t, "arr"), Ref: "a"}
	case 13, 14:
		return Part{Kind: "pos", Src: rapid.SampledFrom([]string{"$@", "$*", "${@}", "${*}"}).Draw(t, "pos"), Ref: "@"}
	default:
		return genCmd(t)
	}
}

func genSub(t *rapid.T) Sub {
	var s Sub
	switch rapid.IntRange(0, 9).Draw(t, "ifsmode") {
	case 0:
		s.IFSMode = "default"
	case 1:
		s.IFSMode = "unset"
	default:
		s.IFSMode = "set"
		s.IFS = rapid.SampledFrom(ifsValues).Draw(t, "ifs")
	}
	s.Assign = rapid.IntRange(0, 6).Draw(t, "assign") == 0
	ifs, _ := s.ifsValue()
	s.V = genValue(t, ifs)
	s.W = genValue(t, ifs)
	s.A = genList(t, ifs, "na")
	s.Params = genList(t, ifs, "np")
	n := rapid.IntRange(1, 4).Draw(t, "nparts")
	for i := 0; i < n; i++ {
		p := genPart(t)
		// two unquoted "$v" "x" parts glued together would change meaning
		// ($vx): a name character must not directly follow an unbraced $v.
		if len(s.Parts) > 0 {
			prev := s.Parts[len(s.Parts)-1]
			if unbracedVar(prev) && startsNameChar(p.source()) {
				continue
			}
		}
		s.Parts = append(s.Parts, p)
	}
	if hasNonASCII(ifs) {
		// bash 5.2.15 splits QUOTED or literal text that contains a
		// multi-byte IFS character when the word also holds an unquoted
		// expansion (`IFS=é; v=aéb; args "$v"$e` prints <a\xc3><b>): the
		// judge is unreliable there. With a multi-byte IFS the generator keeps
		// non-ASCII text to the values of unquoted expansions.
		for pi := range s.Parts {
			s.Parts[pi] = asciiOnly(s.Parts[pi])
		}
	}
	// the same hazard exists inside double quotes
	for pi := range s.Parts {
		if s.Parts[pi].Kind != "dq" {
			continue
		}
		var kept []Part
		for _, in := range s.Parts[pi].Inner {
			if len(kept) > 0 && unbracedVar(kept[len(kept)-1]) && startsNameChar(in.Src) {
				continue
			}
			kept = append(kept, in)
		}
		s.Parts[pi].Inner = kept
	}
	return s
}

func unbracedVar(p Part) bool {
	return (p.Kind == "var" || p.Kind == "pos") && !strings.HasPrefix(p.Src, "${")
}

func startsNameChar(src string) bool {
	if src == "" {
		return false
	}
	c := src[0]
	// "$@[" or "$v[" would start a subscript; "$v:" is fine in bash.
	return c == '_' || c == '[' || (c >= 'a' && c <= 'z') || (c >= 'A' && c <= 'Z') || (c >= '0' && c <= '9')
}

func gen(t *rapid.T) Case {
	chunks := rapid.SliceOfN(rapid.SliceOfN(rapid.Custom(genSub), 1, 12), 1, 12).Draw(t, "subs")
	var c Case
	for _, ch := range chunks {
		c.Subs = append(c.Subs, ch...)
	}
	return c
}

// ---------------------------------------------------------------------------
// known findings: exclusion classes over the sub-case syntax

type finding struct {
	id    string
	match func(Sub) bool
}

func excludedBy(s Sub) string {
	if os.Getenv("VERIF_REPLAY") != "" {
		// a replayed case (regress/known_*.json) is always evaluated: that
		// is how a listed finding is reported while it still reproduces.
		return ""
	}
	for _, f := range findings {
		if vh.Excluded(f.id) && f.match(s) {
			return f.id
		}
	}
	return ""
}

// unquotedValues lists the strings that the word expands in unquoted
// positions (the text subject to field splitting). For an unquoted list
// ($@ $* ${a[@]} ${a[*]}) bash splits the elements joined with the first IFS
// character when that character is not whitespace, so an empty element turns
// into an empty field; the joined string is listed in that case.
func (s Sub) unquotedValues() []string {
	if s.Assign {
		return nil // nothing is split in an assignment
	}
	ifs, _ := s.ifsValue()
	join := ""
	if ifs != "" {
		r, size := utf8.DecodeRuneInString(ifs)
		if r != ' ' && r != '\t' && r != '\n' {
			join = ifs[:size]
		}
	}
	list := func(elems []string) []string {
		if join == "" || len(elems) < 2 {
			return elems
		}
		return []string{strings.Join(elems, join)}
	}
	var out []string
	for _, p := range s.Parts {
		switch p.Kind {
		case "var":
			if p.Ref == "v" {
				out = append(out, s.V)
			} else {
				out = append(out, s.W)
			}
		case "arr":
			out = append(out, list(s.A)...)
		case "pos":
			out = append(out, list(s.Params)...)
		case "cmd":
			out = append(out, strings.TrimRight(p.Ref, "\n"))
		}
	}
	return out
}

// ---------------------------------------------------------------------------
// Go API side (oracle B)

type mapEnv map[string]expand.Variable

func (m mapEnv) Get(name string) expand.Variable { return m[name] }
func (m mapEnv) Each(f func(string, expand.Variable) bool) {
	names := make([]string, 0, len(m))
	for n := range m {
		names = append(names, n)
	}
	sort.Strings(names)
	for _, n := range names {
		if !f(n, m[n]) {
			return
		}
	}
}

func (s Sub) env() mapEnv {
	env := mapEnv{
		"v": {Set: true, Kind: expand.String, Str: s.V},
		"w": {Set: true, Kind: expand.String, Str: s.W},
		"a": {Set: true, Kind: expand.Indexed, List: append([]string{}, s.A...)},
		"@": {Set: true, Kind: expand.Indexed, List: append([]string{}, s.Params...)},
		"*": {Set: true, Kind: expand.Indexed, List: append([]string{}, s.Params...)},
		"#": {Set: true, Kind: expand.String, Str: strconv.Itoa(len(s.Params))},
	}
	switch s.IFSMode {
	case "default":
		env["IFS"] = expand.Variable{Set: true, Kind: expand.String, Str: " \t\n"}
	case "set":
		env["IFS"] = expand.Variable{Set: true, Kind: expand.String, Str: s.IFS}
	}
	return env
}

// cmdSubst evaluates the one command form the generator emits:
// printf '<format>' '<text>'.
func cmdSubst(w io.Writer, cs *syntax.CmdSubst) error {
	if len(cs.Stmts) != 1 {
		return fmt.Errorf("harness: unexpected command substitution")
	}
	call, ok := cs.Stmts[0].Cmd.(*syntax.CallExpr)
	if !ok || len(call.Args) != 3 || call.Args[0].Lit() != "printf" {
		return fmt.Errorf("harness: unexpected command substitution")
	}
	unq := func(wd *syntax.Word) (string, error) {
		var sb strings.Builder
		for _, p := range wd.Parts {
			switch p := p.(type) {
			case *syntax.SglQuoted:
				if p.Dollar {
					return "", fmt.Errorf("harness: unexpected quoting")
				}
				sb.WriteString(p.Value)
			case *syntax.DblQuoted: // shq writes a single quote as "'"
				if len(p.Parts) != 1 {
					return "", fmt.Errorf("harness: unexpected quoting")
				}
				lit, ok := p.Parts[0].(*syntax.Lit)
				if !ok || lit.Value != "'" {
					return "", fmt.Errorf("harness: unexpected quoting")
				}
				sb.WriteByte('\'')
			default:
				return "", fmt.Errorf("harness: unexpected word part %T", p)
			}
		}
		return sb.String(), nil
	}
	format, err := unq(call.Args[1])
	if err != nil {
		return err
	}
	text, err := unq(call.Args[2])
	if err != nil {
		return err
	}
	io.WriteString(w, text)
	io.WriteString(w, strings.ReplaceAll(strings.TrimPrefix(format, "%s"), `\n`, "\n"))
	return nil
}

func apiFields(s Sub) (fields []string, err error) {
	defer func() {
		if e := recover(); e != nil {
			err = fmt.Errorf("PANIC: %v", e)
		}
	}()
	f, perr := syntax.NewParser(syntax.Variant(syntax.LangBash)).Parse(strings.NewReader("x "+s.Word()+"\n"), "")
	if perr != nil {
		return nil, fmt.Errorf("parse error: %v", perr)
	}
	if len(f.Stmts) != 1 {
		return nil, fmt.Errorf("harness: word parsed as %d statements", len(f.Stmts))
	}
	call, ok := f.Stmts[0].Cmd.(*syntax.CallExpr)
	if !ok || len(call.Args) != 2 {
		return nil, fmt.Errorf("harness: word did not parse as one argument")
	}
	cfg := &expand.Config{Env: s.env(), CmdSubst: cmdSubst}
	if s.Assign {
		lit, err := expand.Literal(cfg, call.Args[1])
		return []string{lit}, err
	}
	return expand.Fields(cfg, call.Args[1])
}

// parseArgs decodes the line printed by args(): "<count><f1><f2>...".
func parseArgs(out string) ([]string, bool) {
	line, rest, ok := strings.Cut(out, ">\nst=")
	if !ok {
		// zero fields: "0<>\nst=0\n"
		return nil, false
	}
	_ = rest
	i := strings.IndexByte(line, '<')
	if i <= 0 {
		return nil, false
	}
	n, err := strconv.Atoi(line[:i])
	if err != nil {
		return nil, false
	}
	body := line[i+1:]
	if n == 0 {
		if body != "" {
			return nil, false
		}
		return []string{}, true
	}
	fields := strings.Split(body, "><")
	if len(fields) != n {
		return nil, false // a field held "><": ambiguous, not decoded
	}
	return fields, true
}

// ---------------------------------------------------------------------------
// check

type outcome struct {
	out    string
	status int
	note   string
}

func (o outcome) String() string {
	if o.note != "" {
		return fmt.Sprintf("status=%d stdout=%q (%s)", o.status, o.out, o.note)
	}
	return fmt.Sprintf("status=%d stdout=%q", o.status, o.out)
}

func runInterp(script, dir string) outcome {
	r := oracle.RunInterp(script, oracle.InterpOpts{Dir: dir, Timeout: 60 * time.Second})
	o := outcome{out: string(r.Stdout), status: r.Status}
	switch {
	case r.ParseErr != nil:
		o.note = "parse error: " + r.ParseErr.Error()
		o.status = -2
	case r.Panic != nil:
		o.note = fmt.Sprintf("PANIC: %v", r.Panic)
		o.status = -3
	case r.Timeout:
		o.note = "timeout"
	case r.Err != nil:
		o.note = "runner error: " + r.Err.Error()
	}
	if o.note == "" && len(r.Stderr) > 0 {
		o.note = "stderr: " + strings.TrimSpace(string(r.Stderr))
	}
	return o
}

func (s Sub) nontrivial() bool {
	if s.Assign {
		for _, p := range s.Parts {
			if p.Kind == "esc" || p.Kind == "sq" || p.Kind == "dq" || p.Kind == "ansi" {
				return true
			}
		}
		return false
	}
	ifs, _ := s.ifsValue()
	if ifs == "" {
		return false
	}
	for _, v := range s.unquotedValues() {
		if strings.ContainsAny(v, ifs) {
			return true
		}
	}
	return false
}

func (s Sub) classes() []string {
	var out []string
	ifs, _ := s.ifsValue()
	switch {
	case s.IFSMode != "set":
		out = append(out, "ifs:"+s.IFSMode)
	case ifs == "":
		out = append(out, "ifs:empty")
	case strings.Trim(ifs, " \t\n") == "":
		out = append(out, "ifs:whitespace")
	case strings.ContainsAny(ifs, " \t\n"):
		out = append(out, "ifs:mixed")
	default:
		out = append(out, "ifs:non-whitespace")
	}
	if s.Assign {
		out = append(out, "context:assignment")
	} else {
		out = append(out, "context:argument")
	}
	seen := map[string]bool{}
	for _, p := range s.Parts {
		k := "part:" + p.Kind
		if !seen[k] {
			seen[k] = true
			out = append(out, k)
		}
	}
	return out
}

func check(c Case) (res vh.Result) {
	dir, err := oracle.NewDir()
	if err != nil {
		return vh.Result{Skipped: true, Classes: []string{"infra:newdir"}}
	}
	defer oracle.RemoveDir(dir)

	classes := map[string]int{}
	defer func() {
		keys := make([]string, 0, len(classes))
		for k := range classes {
			keys = append(keys, k)
		}
		sort.Strings(keys)
		for _, k := range keys {
			vh.Count("C22", k, classes[k])
		}
	}()
	var subs []Sub
	var scripts []string
	for _, s := range c.Subs {
		if id := excludedBy(s); id != "" {
			classes["excluded:"+id]++
			continue
		}
		if why := judgeUnreliable(s); why != "" {
			classes["judge-unreliable:"+why]++
			continue
		}
		subs = append(subs, s)
		scripts = append(scripts, s.Script())
	}
	if len(subs) == 0 {
		return vh.Result{Skipped: true}
	}
	bres, err := oracle.Batch(scripts, oracle.Opts{Dir: dir, Timeout: batchTimeout})
	if err != nil {
		return vh.Result{Skipped: true, Classes: []string{"infra:batch"}}
	}
	for i, s := range subs {
		b := bres[i]
		if b.Err != nil {
			classes["infra:batch-aborted"]++
			continue
		}
		want := outcome{out: string(b.Stdout), status: b.Status}
		classes["sub-cases"]++
		for _, cl := range s.classes() {
			classes[cl]++
		}
		if s.nontrivial() {
			res.Nontrivial = true
			classes["sub-cases-nontrivial"]++
		}
		// oracle A: the interpreter
		got := runInterp(scripts[i], dir)
		if got.out != want.out || got.status != want.status {
			return vh.Result{Nontrivial: true, Err: fmt.Sprintf("sub-case %d: interp differs from bash for word %s\nscript:\n%s\nbash:   %s\ninterp: %s\nbash stderr: %s",
				i, s.Word(), scripts[i], want, got, strings.TrimSpace(string(b.Stderr)))}
		}
		// oracle B: expand.Fields
		wantFields, ok := parseArgs(want.out)
		if !ok || want.status != 0 {
			classes["api-not-compared"]++
			continue
		}
		gotFields, err := apiFields(s)
		classes["api-compared"]++
		if err != nil {
			return vh.Result{Nontrivial: true, Err: fmt.Sprintf("sub-case %d: expand.Fields failed for word %s: %v\nscript:\n%s\nbash fields: %q", i, s.Word(), err, scripts[i], wantFields)}
		}
		if !equalFields(gotFields, wantFields) {
			return vh.Result{Nontrivial: true, Err: fmt.Sprintf("sub-case %d: expand.Fields differs from bash for word %s\nscript:\n%s\nbash fields:   %q\nexpand.Fields: %q", i, s.Word(), scripts[i], wantFields, gotFields)}
		}
	}
	return res
}

func equalFields(a, b []string) bool {
	if len(a) != len(b) {
		return false
	}
	for i := range a {
		if a[i] != b[i] {
			return false
		}
	}
	return true
}

var prop = vh.Prop[Case]{ID: "C22", Gen: gen, Check: check}

func TestC22(t *testing.T) { vh.Run(t, prop) }

// batchTimeout bounds one bash process evaluating a whole batch. It is
// generous because a loaded machine makes every fork slow; sub-cases left
// without a result are counted as infra:batch-aborted, never as a pass.
const batchTimeout = 120 * time.Second
