package c22

import (
	"strings"
	"unicode/utf8"
)

func hasNonASCII(s string) bool {
	for i := 0; i < len(s); i++ {
		if s[i] >= utf8.RuneSelf {
			return true
		}
	}
	return false
}

func toASCII(s string) string {
	if !hasNonASCII(s) {
		return s
	}
	var sb strings.Builder
	for _, r := range s {
		if r >= utf8.RuneSelf {
			sb.WriteByte('e')
		} else {
			sb.WriteRune(r)
		}
	}
	return sb.String()
}

// asciiOnly rewrites a part for the multi-byte IFS sub-domain: literal and
// quoted text becomes ASCII, and double quotes keep only literal text.
func asciiOnly(p Part) Part {
	switch p.Kind {
	case "lit", "esc", "sq", "ansi":
		p.Src = toASCII(p.Src)
	case "dq":
		var kept []Part
		for _, in := range p.Inner {
			if in.Kind == "lit" || in.Kind == "esc" {
				in.Src = toASCII(in.Src)
				kept = append(kept, in)
			}
		}
		p.Inner = kept
	}
	return p
}

// judgeUnreliable names sub-cases on which bash 5.2.15 itself misbehaves, so
// that it cannot serve as the judge. They are skipped and counted; the
// generator avoids them by construction.
func judgeUnreliable(s Sub) string {
	ifs, _ := s.ifsValue()
	if !hasNonASCII(ifs) {
		return ""
	}
	if strings.ContainsAny(ifs, " \t\n") {
		// IFS='é '; v='x éy'; args $v gives <x><><y> although IFS=': ' with
		// 'x :y' gives <x><y>: IFS whitespace next to a multi-byte
		// delimiter is not merged into it.
		return "bash-multibyte-ifs-with-whitespace"
	}
	for _, p := range s.Parts {
		switch p.Kind {
		case "lit", "esc", "sq", "ansi":
			if hasNonASCII(p.Src) {
				return "bash-multibyte-ifs-in-quoted-text"
			}
		case "dq":
			for _, in := range p.Inner {
				if (in.Kind != "lit" && in.Kind != "esc") || hasNonASCII(in.Src) {
					return "bash-multibyte-ifs-in-quoted-text"
				}
			}
		}
	}
	return ""
}

func isIFSWhite(r rune) bool { return r == ' ' || r == '\t' || r == '\n' }

// createsEmptyField reports whether val, split with ifs, holds a
// non-whitespace IFS character that delimits an empty field: one at the
// start of the value or right after another one (IFS whitespace between
// them ignored).
func createsEmptyField(val, ifs string) bool {
	prevDelim := true // start of value counts as "after a delimiter"
	for _, r := range val {
		switch {
		case strings.ContainsRune(ifs, r) && !isIFSWhite(r):
			if prevDelim {
				return true
			}
			prevDelim = true
		case strings.ContainsRune(ifs, r): // IFS whitespace
		default:
			prevDelim = false
		}
	}
	return false
}

func (p Part) isAtList() bool {
	return (p.Kind == "arr" && strings.Contains(p.Src, "[@]")) || (p.Kind == "pos" && strings.Contains(p.Src, "@"))
}

func (p Part) isUnquotedExpansion() bool {
	return p.Kind == "var" || p.Kind == "arr" || p.Kind == "pos" || p.Kind == "cmd"
}

// One entry per root cause; predicates are syntactic classes over the
// sub-case and never look at an outcome.
var findings = []finding{
	// "x$@y", "${a[@]}$v": a double-quoted list expansion with sibling parts
	// inside the same quotes yields ONE field; bash yields one per element.
	// expand.go wordFields only special-cases a DblQuoted with a single part.
	{"C22-dq-list-glued", func(s Sub) bool {
		if s.Assign {
			return false
		}
		for _, p := range s.Parts {
			if p.Kind != "dq" || len(p.Inner) < 2 {
				continue
			}
			for _, in := range p.Inner {
				if in.isAtList() {
					return true
				}
			}
		}
		return false
	}},
	// IFS=:; v=a::b -> <a><b> instead of <a><><b>: splitAdd treats every IFS
	// character like whitespace, so non-whitespace delimiters never produce
	// an empty field (adjacent delimiters, or a delimiter starting a value).
	{"C22-ifs-nonws-empty-fields", func(s Sub) bool {
		ifs, _ := s.ifsValue()
		if strings.Trim(ifs, " \t\n") == "" {
			return false
		}
		for _, v := range s.unquotedValues() {
			if createsEmptyField(v, ifs) {
				return true
			}
		}
		return false
	}},
	// IFS=' :'; set --; v=' :b'; args $*$v -> bash 1<b>, interp 2<><b>; a=('' ':x');
	// args ${a[*]} -> bash 1<x>, interp 2<><x>; set -- ' ' ' '; IFS=': '; args $@ ->
	// bash 0, interp 1<>: bash splits the elements of an unquoted list one by
	// one and lets a null expansion swallow the empty field that a leading
	// non-whitespace delimiter of the next value would create; the
	// interpreter splits the joined text.
	{"C22-ifs-nonws-null-adjacent", func(s Sub) bool {
		ifs, _ := s.ifsValue()
		if s.Assign || strings.Trim(ifs, " \t\n") == "" {
			return false
		}
		wsOnly := func(v string) bool {
			for _, r := range v {
				if !strings.ContainsRune(ifs, r) || !isIFSWhite(r) {
					return false
				}
			}
			return true
		}
		leadDelim := func(v string) bool {
			for _, r := range v {
				if strings.ContainsRune(ifs, r) && isIFSWhite(r) {
					continue
				}
				return strings.ContainsRune(ifs, r)
			}
			return false
		}
		null, lead := false, false
		for _, p := range s.Parts {
			switch p.Kind {
			case "arr", "pos":
				elems := s.A
				if p.Kind == "pos" {
					elems = s.Params
				}
				for _, e := range elems {
					if wsOnly(e) || leadDelim(e) {
						return true
					}
				}
				// a list next to a delimiter-led value: `v=' ::'; set -- b;
				// args ${v}$@` is 2<><b> in bash, 3<><><b> with ${v}${w} and in dash
				null = true
			case "var", "cmd":
				val := s.W
				if p.Kind == "cmd" {
					val = strings.TrimRight(p.Ref, "\n")
				} else if p.Ref == "v" {
					val = s.V
				}
				if leadDelim(val) {
					lead = true
				}
				if val == "" {
					null = true
				}
			}
		}
		if null && lead {
			// a null expansion or a list anywhere in the word (before or after)
			return true
		}
		return false
	}},
	// x=\a; echo "$x" prints \a: expand.Literal (assignments) keeps the
	// backslash of an unquoted escape instead of removing it.
	{"C22-literal-backslash-kept", func(s Sub) bool {
		if !s.Assign {
			return false
		}
		for _, p := range s.Parts {
			if p.Kind == "esc" {
				return true
			}
		}
		return false
	}},
	// args /\* lists the root directory: a backslash-escaped glob character
	// in an unquoted literal is unescaped by wordFields and then taken for a
	// live pattern by pathname expansion.
	{"C22-escaped-glob-char", func(s Sub) bool {
		if s.Assign {
			return false
		}
		for _, p := range s.Parts {
			if p.Kind == "esc" && strings.ContainsAny(p.Src, "*?[") {
				return true
			}
		}
		return false
	}},
	// ""$v with v=' a' -> <a> instead of <><a>: an empty "" contributes no
	// field part, so a field that consists only of it is dropped when a
	// neighbouring unquoted expansion starts or ends with a separator.
	{"C22-empty-dq-dropped", func(s Sub) bool {
		if s.Assign {
			return false
		}
		empty, unq := false, false
		for _, p := range s.Parts {
			if p.Kind == "dq" && len(p.Inner) == 0 {
				empty = true
			}
			if p.isUnquotedExpansion() {
				unq = true
			}
		}
		return empty && unq
	}},
}
