// C15: Typed JSON round-trips syntax trees.
package c15

import (
	"bytes"
	"encoding/json"
	"fmt"
	"reflect"
	"strings"
	"testing"

	"mvdan.cc/sh/v3/syntax"
	"mvdan.cc/sh/v3/syntax/typedjson"
	"pgregory.net/rapid"

	"verifh/gen"
	"verifh/norm"
	"verifh/sx"
	"verifh/vh"
)

func TestMain(m *testing.M) { vh.Main(m) }

type Case struct {
	Src     string `json:"src"`
	Lang    string `json:"lang"`
	Recover int    `json:"recover"` // RecoverErrors limit (0 = off)
	// Sub selects the node to encode (index mod count into the reflection
	// enumeration, comments excluded); -1 = the file.
	Sub    int    `json:"sub"`
	Indent string `json:"indent,omitempty"`
	// Mut, when non-empty, is a list of mutations applied to the encoded
	// JSON before decoding it (the no-panic clause).
	Mut []Mutation `json:"mut,omitempty"`
	// Raw, when non-empty, is decoded as is (no-panic clause).
	Raw string `json:"raw,omitempty"`
}

type Mutation struct {
	Kind int    `json:"kind"`
	Pos  int    `json:"pos"`
	Text string `json:"text,omitempty"`
}

var mutTexts = []string{`null`, `true`, `0`, `-1`, `1e999`, `18446744073709551616`, `1.5`, `""`, `"x"`, `[]`, `{}`, `[null]`, `{"Type":"Lit"}`, `{"Type":"Nope"}`, `{"Type":1}`,
	`"Type"`, `"Pos"`, `"Offset"`, `"Line"`, `"Col"`, `"Stmts"`, `"Parts"`, `"Value"`, `"Op"`, `"Cmd"`, `"X"`, `"Word"`, `"File"`, `"Stmt"`, `"CallExpr"`, `"Word"`, `"ParamExp"`, `"BinaryCmd"`, `"Comment"`, `,`, `:`, `[`, `]`, `{`, `}`}

func genCase(t *rapid.T) Case {
	c := Case{Lang: gen.Lang(t)}
	switch rapid.IntRange(0, 9).Draw(t, "mode") {
	case 0:
		c.Raw = rapid.OneOf(
			rapid.SampledFrom([]string{``, `null`, `[]`, `{}`, `1`, `"x"`, `{"Type":"File"}`, `{"Type":"Word","Parts":[null]}`, `{"Type":"Stmt","Cmd":{"Type":"File"}}`, `{"Type":"Lit","ValuePos":{"Offset":-1}}`, `{"Type":"File","Stmts":[{"Cmd":null,"Position":1}]}`, `{"Type":"Pos"}`, `{"Type":"Comment","Hash":{"Offset":1e30,"Line":1,"Col":1}}`, `{"Type":"BinaryCmd","Op":"x"}`, `{"Type":"BinaryCmd","Op":99999999999}`, `{"Type":"ParamExp","Names":-3}`, `{"Type":"File","Type":"Word"}`, `{"Stmts":[],"Type":"File"}`}),
			rapid.StringOf(rapid.RuneFrom([]rune(`{}[]:,"TypeFileStmtWordLitPosOffset0123456789nulltruefalse.-e \n`))),
		).Draw(t, "raw")
		return c
	case 1, 2:
		c.Src = gen.Valid(t, gen.LangByName(c.Lang))
		n := rapid.IntRange(1, 3).Draw(t, "nmut")
		for i := 0; i < n; i++ {
			c.Mut = append(c.Mut, Mutation{
				Kind: rapid.IntRange(0, 4).Draw(t, "mutkind"),
				Pos:  rapid.IntRange(0, 1<<16).Draw(t, "mutpos"),
				Text: rapid.SampledFrom(mutTexts).Draw(t, "muttext"),
			})
		}
	case 3:
		c.Src = gen.Any(t, gen.LangByName(c.Lang))
		c.Recover = rapid.SampledFrom([]int{1, 2, 5, 100}).Draw(t, "recover")
	default:
		c.Src = gen.Valid(t, gen.LangByName(c.Lang))
	}
	c.Sub = rapid.IntRange(-1, 80).Draw(t, "sub")
	if rapid.IntRange(0, 4).Draw(t, "indent") == 0 {
		c.Indent = rapid.SampledFrom([]string{"\t", "  "}).Draw(t, "indentstr")
	}
	return c
}

// unsetRecovered returns a deep copy of v with every recovered position
// replaced by the zero Pos, which is what decoding documents.
func unsetRecovered(v reflect.Value) reflect.Value {
	posT := reflect.TypeOf(syntax.Pos{})
	switch v.Kind() {
	case reflect.Pointer:
		if v.IsNil() {
			return v
		}
		n := reflect.New(v.Type().Elem())
		n.Elem().Set(unsetRecovered(v.Elem()))
		return n
	case reflect.Interface:
		if v.IsNil() {
			return v
		}
		n := reflect.New(v.Type()).Elem()
		n.Set(unsetRecovered(v.Elem()))
		return n
	case reflect.Slice:
		if v.IsNil() {
			return v
		}
		n := reflect.MakeSlice(v.Type(), v.Len(), v.Len())
		for i := 0; i < v.Len(); i++ {
			n.Index(i).Set(unsetRecovered(v.Index(i)))
		}
		return n
	case reflect.Struct:
		if v.Type() == posT {
			if v.Interface().(syntax.Pos).IsRecovered() {
				return reflect.Zero(posT)
			}
			return v
		}
		n := reflect.New(v.Type()).Elem()
		for i := 0; i < v.NumField(); i++ {
			if v.Type().Field(i).IsExported() {
				n.Field(i).Set(unsetRecovered(v.Field(i)))
			}
		}
		return n
	}
	return v
}

func mutate(js []byte, muts []Mutation) []byte {
	for _, m := range muts {
		// token boundaries: positions of structural characters and quotes
		var cuts []int
		for i, b := range js {
			switch b {
			case '{', '}', '[', ']', ',', ':', '"':
				cuts = append(cuts, i)
			}
		}
		if len(cuts) < 2 {
			break
		}
		a := cuts[m.Pos%len(cuts)]
		b := cuts[(m.Pos/7+1)%len(cuts)]
		if a > b {
			a, b = b, a
		}
		switch m.Kind {
		case 0: // insert text at a boundary
			js = append(append(append([]byte{}, js[:a]...), m.Text...), js[a:]...)
		case 1: // replace a span
			js = append(append(append([]byte{}, js[:a]...), m.Text...), js[b:]...)
		case 2: // delete a span
			js = append(append([]byte{}, js[:a]...), js[b:]...)
		case 3: // duplicate a span
			js = append(append(append([]byte{}, js[:b]...), js[a:b]...), js[b:]...)
		case 4: // truncate
			js = js[:a]
		}
		if len(js) > 1<<20 {
			js = js[:1<<20]
		}
	}
	return js
}

func check(c Case) (res vh.Result) {
	if c.Raw != "" || (c.Src == "" && len(c.Mut) == 0 && c.Raw == "") {
		var err error
		if pn := sx.Guard(func() { _, err = typedjson.Decode(strings.NewReader(c.Raw)) }); pn != nil {
			return vh.Fail("Decode panicked on %q: %v", c.Raw, pn)
		}
		_ = err
		return vh.Result{Classes: []string{"raw-json"}, Nontrivial: json.Valid([]byte(c.Raw)), Key: "raw:" + c.Raw}
	}
	var opts []syntax.ParserOption
	if c.Recover > 0 {
		opts = append(opts, syntax.RecoverErrors(c.Recover))
	}
	f, perr, pn := sx.Parse(c.Src, c.Lang, true, opts...)
	if pn != nil || perr != nil || f == nil {
		return vh.Result{Skipped: true, Classes: []string{"parse-fail"}}
	}
	var node syntax.Node = f
	items := norm.Enumerate(f)
	if c.Sub >= 0 {
		var cands []syntax.Node
		for _, it := range items {
			switch it.Node.(type) {
			case *syntax.Comment:
				// typedjson encodes comments as plain structs inside their
				// parent; they are not nodes one can encode on their own?
				// They are syntax.Node, so keep them too.
				cands = append(cands, it.Node)
			default:
				cands = append(cands, it.Node)
			}
		}
		node = cands[c.Sub%len(cands)]
	}
	types := map[string]bool{}
	for _, it := range norm.Enumerate(node) {
		types[fmt.Sprintf("%T", it.Node)] = true
	}
	recovered := false
	if c.Recover > 0 {
		res.Classes = append(res.Classes, "recover-errors")
		d := norm.Dump(node, norm.DumpOpts{Strict: true})
		_ = d
	}
	var buf bytes.Buffer
	var err error
	if pn := sx.Guard(func() { err = typedjson.EncodeOptions{Indent: c.Indent}.Encode(&buf, node) }); pn != nil {
		return vh.Fail("Encode of %T panicked: %v", node, pn)
	}
	if err != nil {
		return vh.Fail("Encode of %T failed: %v", node, err)
	}
	enc1 := append([]byte{}, buf.Bytes()...)

	if len(c.Mut) > 0 {
		js := mutate(enc1, c.Mut)
		if pn := sx.Guard(func() { _, err = typedjson.Decode(bytes.NewReader(js)) }); pn != nil {
			return vh.Fail("Decode panicked on a mutated encoding: %v\njson: %s", pn, clip(string(js), 600))
		}
		return vh.Result{Classes: []string{"mutated-json"}, Nontrivial: json.Valid(js)}
	}

	var dec syntax.Node
	if pn := sx.Guard(func() { dec, err = typedjson.Decode(bytes.NewReader(enc1)) }); pn != nil {
		return vh.Fail("Decode panicked on Encode's own output: %v", pn)
	}
	if err != nil {
		return vh.Fail("Decode rejects Encode's own output for %T: %v\njson: %s", node, err, clip(string(enc1), 400))
	}
	want := unsetRecovered(reflect.ValueOf(node)).Interface()
	if ok, _ := norm.DeepEq(node, want); !ok {
		recovered = true
	}
	if ok, path := norm.DeepEq(want, dec); !ok {
		return vh.Fail("decode(encode(%T)) differs from the original at %s\njson: %s", node, path, clip(string(enc1), 400))
	}
	buf.Reset()
	if err := (typedjson.EncodeOptions{Indent: c.Indent}).Encode(&buf, dec); err != nil {
		return vh.Fail("re-encode failed: %v", err)
	}
	if recovered {
		// the decoded tree has the recovered positions unset, so its
		// encoding is compared with that of the original with them unset
		var b2 bytes.Buffer
		if wn, ok := want.(syntax.Node); ok {
			typedjson.EncodeOptions{Indent: c.Indent}.Encode(&b2, wn)
			enc1 = b2.Bytes()
		}
	}
	if !bytes.Equal(buf.Bytes(), enc1) {
		return vh.Fail("re-encoding the decoded tree is not byte-identical\nfirst:  %s\nsecond: %s", clip(string(enc1), 300), clip(buf.String(), 300))
	}
	res.Nontrivial = len(types) >= 5
	if recovered {
		res.Classes = append(res.Classes, "has-recovered-pos")
	}
	if c.Sub >= 0 {
		res.Classes = append(res.Classes, "subnode")
	}
	return res
}

func clip(s string, n int) string {
	if len(s) > n {
		return s[:n] + "…"
	}
	return s
}

var prop = vh.Prop[Case]{ID: "C15", Gen: genCase, Check: check, Text: func(c *Case) *string { return &c.Src }}

func TestC15(t *testing.T) { vh.Run(t, prop) }

// FuzzC15 is the native, coverage-guided target for the no-panic clause
// (thorough tier only).
func FuzzC15(f *testing.F) {
	for _, s := range []string{`{"Type":"File"}`, `{"Type":"Word","Parts":[{"Type":"Lit","Value":"a"}]}`, `{"Type":"File","Stmts":[{"Cmd":{"Type":"CallExpr","Args":[{"Parts":[{"Type":"Lit","ValuePos":{"Offset":0,"Line":1,"Col":1},"ValueEnd":{"Offset":1,"Line":1,"Col":2},"Value":"a"}]}]},"Position":{"Offset":0,"Line":1,"Col":1}}]}`} {
		f.Add([]byte(s))
	}
	f.Fuzz(func(t *testing.T, data []byte) {
		// The property only promises that Decode does not panic. What it
		// returns for hand-written JSON need not be a well-formed tree (a Word
		// without parts, say), so nothing is done with it: re-encoding such a
		// tree panics in Word.Pos, which C15 does not rule out.
		typedjson.Decode(bytes.NewReader(data))
	})
}
