// Package corpus exposes the committed snapshot of string literals harvested
// from the repository's own test files (cmd/harvest). It is a seed corpus:
// many entries are shell programs, many are not; users parse and discard.
package corpus

import (
	_ "embed"
	"encoding/json"
	"sync"
)

//go:embed strings.json
var raw []byte

// Entry is one harvested literal.
type Entry struct {
	S    string `json:"s"`
	From string `json:"from"`
}

var (
	once sync.Once
	all  []Entry
)

// All returns every entry, in a fixed order.
func All() []Entry {
	once.Do(func() {
		if err := json.Unmarshal(raw, &all); err != nil {
			panic(err)
		}
	})
	return all
}

// From returns the strings harvested from the given package directories
// (e.g. "syntax", "interp"); no arguments means all.
func From(dirs ...string) []string {
	var out []string
	seen := map[string]bool{}
	for _, e := range All() {
		ok := len(dirs) == 0
		for _, d := range dirs {
			if e.From == d {
				ok = true
			}
		}
		if ok && !seen[e.S] {
			seen[e.S] = true
			out = append(out, e.S)
		}
	}
	return out
}
