// C09: Source positions point at the source they describe.
package c09

import (
	"fmt"
	"reflect"
	"strings"
	"testing"

	"mvdan.cc/sh/v3/syntax"
	"pgregory.net/rapid"

	"verifh/gen"
	"verifh/norm"
	"verifh/sx"
	"verifh/vh"
)

func TestMain(m *testing.M) { vh.Main(m) }

type Case struct {
	Src      string `json:"src"`
	Lang     string `json:"lang"`
	Comments bool   `json:"keep_comments"`
}

func genCase(t *rapid.T) Case {
	c := Case{Lang: gen.Lang(t)}
	l := gen.LangByName(c.Lang)
	switch rapid.IntRange(0, 9).Draw(t, "kind") {
	case 0:
		// CRLF line endings
		c.Src = strings.ReplaceAll(gen.Valid(t, l), "\n", "\r\n")
	case 1:
		// NUL bytes sprinkled in
		s := gen.Valid(t, l)
		if len(s) > 0 {
			k := rapid.IntRange(0, len(s)).Draw(t, "nulpos")
			s = s[:k] + "\x00" + s[k:]
		}
		c.Src = s
	case 2:
		c.Src = gen.Mutate(t, gen.Valid(t, l))
	default:
		c.Src = gen.Valid(t, l)
	}
	c.Comments = rapid.IntRange(0, 3).Draw(t, "comments") != 0
	return c
}

// lineCol recomputes line and column (1-based, in bytes) from an offset.
func lineCol(src string, off int) (line, col int) {
	line = 1 + strings.Count(src[:off], "\n")
	col = off - strings.LastIndexByte(src[:off], '\n')
	return
}

type checker struct {
	src    string
	inBq   bool // inside a backquoted command substitution
	inDash bool // inside a <<- here-document body
	errs   []string
}

func (c *checker) errf(format string, a ...any) {
	if len(c.errs) < 3 {
		c.errs = append(c.errs, fmt.Sprintf(format, a...))
	}
}

// at reports whether the source at off, after the lexer's transparent
// deletions (NUL bytes, CR before LF, escaped newlines), starts with want.
func (c *checker) at(off int, want string) bool {
	s := c.src[off:]
	if n := len(want)*4 + 32; len(s) > n {
		s = s[:n]
	}
	// NUL bytes and a CR before LF are dropped by the lexer before anything else
	// (a CR only counts when the LF follows it directly in the raw input)
	s = strings.ReplaceAll(strings.ReplaceAll(s, "\r\n", "\n"), "\x00", "")
	var match func(i, j int) bool
	match = func(i, j int) bool {
		if j == len(want) {
			return true
		}
		if i >= len(s) {
			return false
		}
		// literal match first, then the escaped-newline deletion
		if s[i] == want[j] && match(i+1, j+1) {
			return true
		}
		if s[i] == '\\' && i+1 < len(s) && s[i+1] == '\n' {
			return match(i+2, j)
		}
		return false
	}
	return match(0, 0)
}

func (c *checker) pos(n syntax.Node, what string, p syntax.Pos, wants ...string) {
	if !p.IsValid() {
		c.errf("%T.%s is invalid", n, what)
		return
	}
	off := int(p.Offset())
	if off > len(c.src) {
		c.errf("%T.%s offset %d is beyond the input (%d bytes)", n, what, off, len(c.src))
		return
	}
	// line and column agree with the offset (0 = overflow, documented)
	if p.Line() != 0 && p.Col() != 0 {
		l, col := lineCol(c.src, off)
		if int(p.Line()) != l || int(p.Col()) != col {
			// an End just past a newline may stay on the previous line
			prevOK := false
			if off > 0 && c.src[off-1] == '\n' && what == "End()" {
				pl, pc := lineCol(c.src, off-1)
				prevOK = int(p.Line()) == pl && int(p.Col()) == pc+1
			}
			if !prevOK {
				c.errf("%T.%s is %d:%d at offset %d, but that offset is line %d column %d", n, what, p.Line(), p.Col(), off, l, col)
			}
		}
	}
	if len(wants) == 0 || c.inBq {
		return
	}
	for _, w := range wants {
		if c.at(off, w) {
			return
		}
	}
	c.errf("%T.%s at %s (offset %d): expected one of %q, source has %q", n, what, p, off, wants, clip(c.src[off:], 12))
}

func clip(s string, n int) string {
	if len(s) > n {
		return s[:n]
	}
	return s
}

func (c *checker) node(n syntax.Node) {
	p, e := n.Pos(), n.End()
	if p.IsValid() && e.IsValid() && p.After(e) {
		c.errf("%T starts at %s after its end %s", n, p, e)
	}
	if p.IsValid() {
		c.pos(n, "Pos()", p)
	}
	if e.IsValid() {
		c.pos(n, "End()", e)
	}
	switch x := n.(type) {
	case *syntax.Comment:
		c.pos(x, "Hash", x.Hash, "#"+x.Text)
	case *syntax.Stmt:
		if x.Semicolon.IsValid() {
			c.pos(x, "Semicolon", x.Semicolon, ";", "&", "|&")
		}
		for _, r := range x.Redirs {
			strs := []string{r.Op.String()}
			switch r.Op {
			case syntax.RdrClob:
				strs = append(strs, ">!")
			case syntax.AppClob:
				strs = append(strs, ">>!")
			case syntax.RdrAllClob:
				strs = append(strs, "&>!", ">&|", ">&!")
			case syntax.AppAll:
				strs = append(strs, ">>&")
			case syntax.AppAllClob:
				strs = append(strs, "&>>!", ">>&|", ">>&!")
			}
			c.pos(r, "OpPos", r.OpPos, strs...)
		}
	case *syntax.Lit:
		if c.inDash || strings.Contains(x.Value, "\n") && strings.Contains(c.src, "\r") {
			c.pos(x, "ValuePos", x.ValuePos)
		} else {
			c.pos(x, "ValuePos", x.ValuePos, x.Value)
		}
		c.pos(x, "ValueEnd", x.ValueEnd)
	case *syntax.Subshell:
		c.pos(x, "Lparen", x.Lparen, "(")
		c.pos(x, "Rparen", x.Rparen, ")")
	case *syntax.Block:
		c.pos(x, "Lbrace", x.Lbrace, "{")
		c.pos(x, "Rbrace", x.Rbrace, "}")
	case *syntax.IfClause:
		if x.ThenPos.IsValid() {
			c.pos(x, "Position", x.Position, "if", "elif")
			c.pos(x, "ThenPos", x.ThenPos, "then")
		} else {
			c.pos(x, "Position", x.Position, "else")
		}
		c.pos(x, "FiPos", x.FiPos, "fi")
	case *syntax.WhileClause:
		if x.Until {
			c.pos(x, "WhilePos", x.WhilePos, "until")
		} else {
			c.pos(x, "WhilePos", x.WhilePos, "while")
		}
		c.pos(x, "DoPos", x.DoPos, "do")
		c.pos(x, "DonePos", x.DonePos, "done")
	case *syntax.ForClause:
		if x.Select {
			c.pos(x, "ForPos", x.ForPos, "select")
		} else {
			c.pos(x, "ForPos", x.ForPos, "for")
		}
		if x.Braces {
			c.pos(x, "DoPos", x.DoPos, "{")
			c.pos(x, "DonePos", x.DonePos, "}")
		} else {
			c.pos(x, "DoPos", x.DoPos, "do")
			c.pos(x, "DonePos", x.DonePos, "done")
		}
	case *syntax.WordIter:
		if x.InPos.IsValid() {
			c.pos(x, "InPos", x.InPos, "in")
		}
	case *syntax.CStyleLoop:
		c.pos(x, "Lparen", x.Lparen, "((")
		c.pos(x, "Rparen", x.Rparen, "))")
	case *syntax.SglQuoted:
		if x.Dollar {
			c.pos(x, "Left", x.Left, "$'")
		} else {
			c.pos(x, "Left", x.Left, "'")
		}
		c.pos(x, "Right", x.Right, "'")
	case *syntax.DblQuoted:
		if x.Dollar {
			c.pos(x, "Left", x.Left, `$"`)
		} else {
			c.pos(x, "Left", x.Left, `"`)
		}
		c.pos(x, "Right", x.Right, `"`)
	case *syntax.UnaryArithm:
		c.pos(x, "OpPos", x.OpPos, x.Op.String())
	case *syntax.BinaryCmd:
		c.pos(x, "OpPos", x.OpPos, x.Op.String())
	case *syntax.BinaryArithm:
		c.pos(x, "OpPos", x.OpPos, x.Op.String())
	case *syntax.BinaryTest:
		strs := []string{x.Op.String()}
		if x.Op == syntax.TsMatch {
			strs = append(strs, "=")
		}
		c.pos(x, "OpPos", x.OpPos, strs...)
	case *syntax.UnaryTest:
		strs := []string{x.Op.String()}
		switch x.Op {
		case syntax.TsExists:
			strs = append(strs, "-a")
		case syntax.TsSmbLink:
			strs = append(strs, "-h")
		}
		c.pos(x, "OpPos", x.OpPos, strs...)
	case *syntax.ParenArithm:
		c.pos(x, "Lparen", x.Lparen, "(")
		c.pos(x, "Rparen", x.Rparen, ")")
	case *syntax.ParenTest:
		c.pos(x, "Lparen", x.Lparen, "(")
		c.pos(x, "Rparen", x.Rparen, ")")
	case *syntax.FuncDecl:
		if x.RsrvWord {
			c.pos(x, "Position", x.Position, "function")
		}
	case *syntax.ParamExp:
		if x.Dollar.IsValid() {
			c.pos(x, "Dollar", x.Dollar, "$")
		}
		if !x.Short {
			c.pos(x, "Rbrace", x.Rbrace, "}")
		}
	case *syntax.ArithmExp:
		if x.Bracket {
			c.pos(x, "Left", x.Left, "$[")
			c.pos(x, "Right", x.Right, "]")
		} else {
			c.pos(x, "Left", x.Left, "$((")
			c.pos(x, "Right", x.Right, "))")
		}
	case *syntax.ArithmCmd:
		c.pos(x, "Left", x.Left, "((")
		c.pos(x, "Right", x.Right, "))")
	case *syntax.CmdSubst:
		switch {
		case x.TempFile:
			c.pos(x, "Left", x.Left, "${ ", "${\t", "${\n")
			c.pos(x, "Right", x.Right, "}")
		case x.ReplyVar:
			c.pos(x, "Left", x.Left, "${|")
			c.pos(x, "Right", x.Right, "}")
		case x.Backquotes:
			c.pos(x, "Left", x.Left, "`", "\\`")
			c.pos(x, "Right", x.Right, "`", "\\`")
		default:
			c.pos(x, "Left", x.Left, "$(")
			c.pos(x, "Right", x.Right, ")")
		}
	case *syntax.CaseClause:
		c.pos(x, "Case", x.Case, "case")
		if x.Braces {
			c.pos(x, "In", x.In, "{")
			c.pos(x, "Esac", x.Esac, "}")
		} else {
			c.pos(x, "In", x.In, "in")
			c.pos(x, "Esac", x.Esac, "esac")
		}
	case *syntax.CaseItem:
		if x.OpPos.IsValid() {
			c.pos(x, "OpPos", x.OpPos, x.Op.String())
		}
	case *syntax.TestClause:
		c.pos(x, "Left", x.Left, "[[")
		c.pos(x, "Right", x.Right, "]]")
	case *syntax.TimeClause:
		c.pos(x, "Time", x.Time, "time")
	case *syntax.CoprocClause:
		c.pos(x, "Coproc", x.Coproc, "coproc")
	case *syntax.LetClause:
		c.pos(x, "Let", x.Let, "let")
	case *syntax.ArrayExpr:
		c.pos(x, "Lparen", x.Lparen, "(")
		c.pos(x, "Rparen", x.Rparen, ")")
	case *syntax.ExtGlob:
		c.pos(x, "OpPos", x.OpPos, x.Op.String())
	case *syntax.ProcSubst:
		c.pos(x, "OpPos", x.OpPos, x.Op.String())
		c.pos(x, "Rparen", x.Rparen, ")")
	}
}

func hasHdoc(n syntax.Node) bool {
	for _, it := range norm.Enumerate(n) {
		if r, ok := it.Node.(*syntax.Redirect); ok && r.Hdoc != nil {
			return true
		}
	}
	return false
}

func check(c Case) (res vh.Result) {
	f, perr, pn := sx.Parse(c.Src, c.Lang, c.Comments)
	if pn != nil || perr != nil {
		return vh.Result{Skipped: true, Classes: []string{"parse-fail"}}
	}
	if id := excluded(c, f); id != "" {
		return vh.Result{Skipped: true, Classes: []string{"excluded:" + id}}
	}
	ck := &checker{src: c.Src}
	items := norm.Enumerate(f)
	// flags per item: inside backquotes / inside a <<- body
	inBq := make([]bool, len(items))
	inDash := make([]bool, len(items))
	for i, it := range items {
		if it.Parent >= 0 {
			inBq[i], inDash[i] = inBq[it.Parent], inDash[it.Parent]
			if cs, ok := items[it.Parent].Node.(*syntax.CmdSubst); ok && cs.Backquotes {
				inBq[i] = true
			}
			if r, ok := items[it.Parent].Node.(*syntax.Redirect); ok && r.Op == syntax.DashHdoc && it.Field == "Redirect.Hdoc" {
				inDash[i] = true
			}
		}
	}
	for i, it := range items {
		if _, isFile := it.Node.(*syntax.File); isFile && len(f.Stmts) == 0 && len(f.Last) == 0 {
			continue
		}
		ck.inBq, ck.inDash = inBq[i], inDash[i]
		if w, ok := it.Node.(*syntax.Word); ok && len(w.Parts) == 0 {
			continue // Pos() of an empty word panics; not produced by the parser
		}
		if pn := sx.Guard(func() { ck.node(it.Node) }); pn != nil {
			return vh.Fail("Pos/End of %T panicked: %v", it.Node, pn)
		}
		// containment: a child lies within its parent, except that a
		// here-document body is displaced text (exempt from the End clause)
		if it.Parent >= 0 {
			par := items[it.Parent].Node
			if _, isFile := par.(*syntax.File); isFile && !c.Comments {
				continue
			}
			cp, ce := it.Node.Pos(), it.Node.End()
			pp, pe := par.Pos(), par.End()
			if cp.IsValid() && pp.IsValid() && pp.After(cp) {
				if _, isCom := it.Node.(*syntax.Comment); !isCom {
					ck.errf("%T at %s starts before its parent %T at %s", it.Node, cp, par, pp)
				}
			}
			if ce.IsValid() && pe.IsValid() && ce.After(pe) && !hasHdoc(it.Node) {
				if _, isCom := it.Node.(*syntax.Comment); !isCom {
					ck.errf("%T ending at %s extends past its parent %T ending at %s", it.Node, ce, par, pe)
				}
			}
		}
	}
	// statements of each list appear in source order
	for _, it := range items {
		v := reflect.ValueOf(it.Node).Elem()
		for i := 0; i < v.NumField(); i++ {
			if sl, ok := v.Field(i).Interface().([]*syntax.Stmt); ok {
				for j := 1; j < len(sl); j++ {
					if !sl[j].Pos().After(sl[j-1].Pos()) {
						ck.errf("statements out of source order in %T.%s: %s then %s", it.Node, v.Type().Field(i).Name, sl[j-1].Pos(), sl[j].Pos())
					}
				}
			}
		}
	}
	if len(ck.errs) > 0 {
		return vh.Fail("%s", strings.Join(ck.errs, "\n"))
	}
	s := c.Src
	special := strings.Contains(s, "\n") && len(items) > 6 || strings.Contains(s, "<<") || strings.Contains(s, "`") || strings.Contains(s, "\\\n") || strings.Contains(s, "\r") || strings.Contains(s, "\x00")
	for i := 0; i < len(s) && !special; i++ {
		special = s[i] >= 0x80
	}
	res.Nontrivial = len(items) > 6 && special
	for _, t := range [][2]string{{"\r\n", "crlf"}, {"\x00", "nul"}, {"\\\n", "escaped-newline"}, {"<<", "heredoc"}, {"`", "backquote"}} {
		if strings.Contains(s, t[0]) {
			res.Classes = append(res.Classes, t[1])
		}
	}
	return res
}

var prop = vh.Prop[Case]{ID: "C09", Gen: genCase, Check: check, Text: func(c *Case) *string { return &c.Src }}

func TestC09(t *testing.T) { vh.Run(t, prop) }
