package c09

import (
	"regexp"
	"strings"

	"mvdan.cc/sh/v3/syntax"

	"verifh/norm"
	"verifh/vh"
)

// excluded returns the id of an active known-finding exclusion class.
func excluded(c Case, f *syntax.File) string {
	if vh.Excluded("C09-trailing-backslash-eof") {
		// the input ends in an odd number of backslashes
		t := strings.TrimRight(c.Src, "\x00")
		if n := len(t) - len(strings.TrimRight(t, `\`)); n%2 == 1 {
			return "C09-trailing-backslash-eof"
		}
	}
	if vh.Excluded("C09-nul-in-assignment") && (strings.Contains(c.Src, "\x00") || strings.Contains(c.Src, "\\\n") || strings.Contains(c.Src, "\\\r\n")) {
		for _, it := range norm.Enumerate(f) {
			if _, ok := it.Node.(*syntax.Assign); ok {
				return "C09-nul-in-assignment"
			}
		}
	}
	if vh.Excluded("C09-nul-after-backslash") && strings.Contains(c.Src, "\\\x00") {
		// "\<NUL>": the NUL byte is dropped and the columns after it are off by one
		return "C09-nul-after-backslash"
	}
	if vh.Excluded("C09-assign-index-newline") || vh.Excluded("C09-comment-in-test-clause") {
		for _, it := range norm.Enumerate(f) {
			switch n := it.Node.(type) {
			case *syntax.Assign:
				// o[1<newline>]= : End() adds "]=" to the end of the index on its line
				if vh.Excluded("C09-assign-index-newline") && n.Index != nil && n.Value == nil && n.Array == nil &&
					strings.Contains(c.Src[min(int(n.Index.End().Offset()), len(c.Src)):], "\n") {
					rest := c.Src[min(int(n.Index.End().Offset()), len(c.Src)):]
					if i := strings.IndexByte(rest, ']'); i >= 0 && strings.Contains(rest[:i], "\n") {
						return "C09-assign-index-newline"
					}
				}
			case *syntax.TestClause:
				// [[ # c<newline> x ]]: the comment lands in File.Last although
				// the statement goes on, and File.End() is the comment's end
				if vh.Excluded("C09-comment-in-test-clause") {
					for _, jt := range norm.Enumerate(f) {
						if cm, ok := jt.Node.(*syntax.Comment); ok && cm.Hash.After(n.Left) && n.Right.After(cm.Hash) {
							return "C09-comment-in-test-clause"
						}
						if cm, ok := jt.Node.(*syntax.Comment); ok && cm.Hash.After(n.Left) && !n.Right.IsValid() {
							return "C09-comment-in-test-clause"
						}
					}
				}
			}
		}
	}
	if vh.Excluded("C09-zsh-arith-dot") && c.Lang == "zsh" && zshArithDot.MatchString(c.Src) {
		return "C09-zsh-arith-dot"
	}
	return ""
}

// zsh: "$((i .f" — a '.' word after a space inside arithmetic ends the
// expansion early and the rest is dropped.
var zshArithDot = regexp.MustCompile(`\(\([^)]*\s\.`)
