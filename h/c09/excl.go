package c09

import (
	"regexp"
	"strings"

	"mvdan.cc/sh/v3/syntax"

	"verifh/norm"
	"verifh/vh"
)

// excluded returns the id of an active known-finding exclusion class.
func excluded(c Case, f *syntax.File) string {
	if vh.Excluded("C09-trailing-backslash-eof") {
		// the input ends in an odd number of backslashes
		t := strings.TrimRight(c.Src, "\x00")
		if n := len(t) - len(strings.TrimRight(t, `\`)); n%2 == 1 {
			return "C09-trailing-backslash-eof"
		}
	}
	if vh.Excluded("C09-nul-in-assignment") && (strings.Contains(c.Src, "\x00") || strings.Contains(c.Src, "\\\n") || strings.Contains(c.Src, "\\\r\n")) {
		for _, it := range norm.Enumerate(f) {
			if _, ok := it.Node.(*syntax.Assign); ok {
				return "C09-nul-in-assignment"
			}
		}
	}
	if vh.Excluded("C09-zsh-arith-dot") && c.Lang == "zsh" && zshArithDot.MatchString(c.Src) {
		return "C09-zsh-arith-dot"
	}
	return ""
}

// zsh: "$((i .f" — a '.' word after a space inside arithmetic ends the
// expansion early and the rest is dropped.
var zshArithDot = regexp.MustCompile(`\(\([^)]*\s\.`)
