// Package norm holds the tree comparison helpers shared by the syntax
// properties: a reflection-driven node enumerator (independent of
// syntax.Walk), a deep equality that treats nil and empty slices alike, and a
// canonical dump that ignores positions, comments and exactly the printer's
// documented cosmetic rewrites.
package norm

import (
	"fmt"
	"reflect"
	"strings"

	"mvdan.cc/sh/v3/syntax"
)

var (
	posType      = reflect.TypeOf(syntax.Pos{})
	commentType  = reflect.TypeOf(syntax.Comment{})
	commentsType = reflect.TypeOf([]syntax.Comment(nil))
	nodeType     = reflect.TypeOf((*syntax.Node)(nil)).Elem()
	wordPartType = reflect.TypeOf((*syntax.WordPart)(nil)).Elem()
	litPtrType   = reflect.TypeOf((*syntax.Lit)(nil))
)

// ---------------------------------------------------------------------------
// DeepEq

// DeepEq compares two values field by field (exported fields only; the syntax
// package has no unexported fields in nodes), including positions. A nil
// slice equals an empty slice. It returns the path of the first difference.
func DeepEq(a, b any) (bool, string) {
	return deepEq(reflect.ValueOf(a), reflect.ValueOf(b), "", 0)
}

func deepEq(a, b reflect.Value, path string, depth int) (bool, string) {
	if depth > 100000 {
		return false, path + ": too deep"
	}
	if !a.IsValid() || !b.IsValid() {
		if a.IsValid() == b.IsValid() {
			return true, ""
		}
		return false, path + ": one side is invalid"
	}
	if a.Type() != b.Type() {
		return false, fmt.Sprintf("%s: type %s vs %s", path, a.Type(), b.Type())
	}
	if a.Type() == posType {
		pa, pb := a.Interface().(syntax.Pos), b.Interface().(syntax.Pos)
		if pa != pb {
			return false, fmt.Sprintf("%s: pos %s(off %d, recovered %v) vs %s(off %d, recovered %v)", path, pa, pa.Offset(), pa.IsRecovered(), pb, pb.Offset(), pb.IsRecovered())
		}
		return true, ""
	}
	switch a.Kind() {
	case reflect.Pointer, reflect.Interface:
		if a.IsNil() || b.IsNil() {
			if a.IsNil() == b.IsNil() {
				return true, ""
			}
			return false, fmt.Sprintf("%s: nil vs non-nil (%v / %v)", path, a.IsNil(), b.IsNil())
		}
		if a.Kind() == reflect.Interface {
			return deepEq(a.Elem(), b.Elem(), path, depth+1)
		}
		return deepEq(a.Elem(), b.Elem(), path+"."+a.Elem().Type().Name(), depth+1)
	case reflect.Slice:
		if a.Len() != b.Len() {
			return false, fmt.Sprintf("%s: len %d vs %d", path, a.Len(), b.Len())
		}
		for i := 0; i < a.Len(); i++ {
			if ok, p := deepEq(a.Index(i), b.Index(i), fmt.Sprintf("%s[%d]", path, i), depth+1); !ok {
				return false, p
			}
		}
		return true, ""
	case reflect.Struct:
		t := a.Type()
		for i := 0; i < t.NumField(); i++ {
			if !t.Field(i).IsExported() {
				continue
			}
			if ok, p := deepEq(a.Field(i), b.Field(i), path+"."+t.Field(i).Name, depth+1); !ok {
				return false, p
			}
		}
		return true, ""
	case reflect.String:
		if a.String() != b.String() {
			return false, fmt.Sprintf("%s: %q vs %q", path, a.String(), b.String())
		}
		return true, ""
	case reflect.Bool:
		if a.Bool() != b.Bool() {
			return false, fmt.Sprintf("%s: %v vs %v", path, a.Bool(), b.Bool())
		}
		return true, ""
	case reflect.Int, reflect.Int8, reflect.Int16, reflect.Int32, reflect.Int64:
		if a.Int() != b.Int() {
			return false, fmt.Sprintf("%s: %d vs %d", path, a.Int(), b.Int())
		}
		return true, ""
	case reflect.Uint, reflect.Uint8, reflect.Uint16, reflect.Uint32, reflect.Uint64:
		if a.Uint() != b.Uint() {
			return false, fmt.Sprintf("%s: %d vs %d", path, a.Uint(), b.Uint())
		}
		return true, ""
	}
	return false, fmt.Sprintf("%s: unsupported kind %s", path, a.Kind())
}

// ---------------------------------------------------------------------------
// Enumerate

// Item is one node found by the reflection enumerator.
type Item struct {
	Node   syntax.Node
	Parent int    // index of the parent item, -1 for the root
	Field  string // field of the parent through which it was reached
	Depth  int
}

// Enumerate lists every syntax.Node reachable from root through exported
// fields, parents before children, in field declaration order. Comments are
// reported as *syntax.Comment pointing into their slice.
func Enumerate(root syntax.Node) []Item {
	var items []Item
	var visit func(v reflect.Value, parent int, field string, depth int)
	visit = func(v reflect.Value, parent int, field string, depth int) {
		if !v.IsValid() {
			return
		}
		switch v.Kind() {
		case reflect.Interface:
			if v.IsNil() {
				return
			}
			visit(v.Elem(), parent, field, depth)
		case reflect.Pointer:
			if v.IsNil() {
				return
			}
			if v.Type().Implements(nodeType) && v.Elem().Kind() == reflect.Struct {
				items = append(items, Item{Node: v.Interface().(syntax.Node), Parent: parent, Field: field, Depth: depth})
				me := len(items) - 1
				e := v.Elem()
				t := e.Type()
				for i := 0; i < t.NumField(); i++ {
					if !t.Field(i).IsExported() || t.Field(i).Type == posType {
						continue
					}
					visit(e.Field(i), me, t.Name()+"."+t.Field(i).Name, depth+1)
				}
				return
			}
			visit(v.Elem(), parent, field, depth)
		case reflect.Slice:
			for i := 0; i < v.Len(); i++ {
				el := v.Index(i)
				if el.Type() == commentType {
					items = append(items, Item{Node: el.Addr().Interface().(*syntax.Comment), Parent: parent, Field: field, Depth: depth})
					continue
				}
				visit(el, parent, field, depth)
			}
		case reflect.Struct:
			if v.Type() == posType {
				return
			}
			// plain (non-node) structs such as Slice, Replace, Expansion
			t := v.Type()
			for i := 0; i < t.NumField(); i++ {
				if !t.Field(i).IsExported() || t.Field(i).Type == posType {
					continue
				}
				visit(v.Field(i), parent, field+">"+t.Name()+"."+t.Field(i).Name, depth)
			}
		}
	}
	visit(reflect.ValueOf(root), -1, "", 0)
	return items
}

// ---------------------------------------------------------------------------
// Dump

// DumpOpts selects which cosmetic rewrites Dump forgives.
type DumpOpts struct {
	// Minify forgives ${x} vs $x for simple expansions.
	Minify bool
	// Strict disables every cosmetic normalisation: only positions,
	// comments and File.Name are ignored (used by C04's "changed" clause).
	Strict bool
}

// Dump renders a canonical text of the tree that ignores positions, comments
// and File.Name, plus (unless Strict) the printer's documented cosmetic
// rewrites: CmdSubst.Backquotes, ArithmExp.Bracket, ForClause.Braces and
// CaseClause.Braces, ParamExp.Short under Minify for simple expansions,
// adjacent literals merged and empty literals dropped, a heredoc body made
// only of empty literals equal to no body, leading tabs of <<- body lines,
// and an odd run of trailing backslashes in the last literal of a word.
func Dump(n any, o DumpOpts) string {
	var sb strings.Builder
	d := dumper{sb: &sb, o: o}
	d.val(reflect.ValueOf(n), "")
	return sb.String()
}

type dumper struct {
	sb *strings.Builder
	o  DumpOpts
	// inDashHdoc is set while dumping the top-level parts of a <<- body.
	inDashHdoc bool
}

func simpleParam(p *syntax.ParamExp) bool {
	return p.Param != nil && p.Flags == nil &&
		!p.Excl && !p.Length && !p.Width && !p.IsSet &&
		p.Split == syntax.OptUnset && p.GlobSubst == syntax.OptUnset && p.RcExpand == syntax.OptUnset &&
		p.NestedParam == nil && p.Index == nil &&
		len(p.Modifiers) == 0 && p.Slice == nil &&
		p.Repl == nil && p.Names == 0 && p.Exp == nil
}

func (d *dumper) val(v reflect.Value, owner string) {
	if !v.IsValid() {
		d.sb.WriteString("nil")
		return
	}
	switch v.Kind() {
	case reflect.Interface:
		if v.IsNil() {
			d.sb.WriteString("nil")
			return
		}
		d.val(v.Elem(), owner)
	case reflect.Pointer:
		if v.IsNil() {
			d.sb.WriteString("nil")
			return
		}
		d.val(v.Elem(), owner)
	case reflect.Slice:
		if v.Type().Elem() == wordPartType && !d.o.Strict {
			d.parts(v)
			return
		}
		d.sb.WriteString("[")
		for i := 0; i < v.Len(); i++ {
			if i > 0 {
				d.sb.WriteString(" ")
			}
			d.val(v.Index(i), owner)
		}
		d.sb.WriteString("]")
	case reflect.Struct:
		d.strct(v)
	case reflect.String:
		fmt.Fprintf(d.sb, "%q", v.String())
	case reflect.Bool:
		fmt.Fprintf(d.sb, "%v", v.Bool())
	case reflect.Int, reflect.Int8, reflect.Int16, reflect.Int32, reflect.Int64:
		fmt.Fprintf(d.sb, "%d", v.Int())
	case reflect.Uint, reflect.Uint8, reflect.Uint16, reflect.Uint32, reflect.Uint64:
		fmt.Fprintf(d.sb, "%d", v.Uint())
	default:
		fmt.Fprintf(d.sb, "?%s", v.Kind())
	}
}

func (d *dumper) strct(v reflect.Value) {
	t := v.Type()
	name := t.Name()
	d.sb.WriteString(name)
	d.sb.WriteString("{")
	saveDash := d.inDashHdoc
	// nested structures are not top-level heredoc text any more, except the
	// Hdoc word itself, handled below.
	if name != "Word" || !saveDash {
		d.inDashHdoc = false
	}
	if name == "CaseClause" && d.o.Minify && !d.o.Strict && v.CanAddr() {
		// Minify omits the operator of the last item (nothing follows it,
		// so ;; ;& ;;& and ;| are equivalent there): dump a copy with ;;.
		cc := v.Addr().Interface().(*syntax.CaseClause)
		if n := len(cc.Items); n > 0 && cc.Items[n-1].Op != syntax.Break {
			cp := *cc
			cp.Items = append([]*syntax.CaseItem{}, cc.Items...)
			last := *cc.Items[n-1]
			last.Op = syntax.Break
			cp.Items[n-1] = &last
			v = reflect.ValueOf(&cp).Elem()
		}
	}
	var pe *syntax.ParamExp
	if name == "ParamExp" && v.CanAddr() {
		pe = v.Addr().Interface().(*syntax.ParamExp)
	}
	first := true
	for i := 0; i < t.NumField(); i++ {
		f := t.Field(i)
		if !f.IsExported() {
			continue
		}
		fv := v.Field(i)
		if f.Type == commentsType {
			continue
		}
		if f.Type == posType {
			// validity of these two is structure the printer looks at
			if (name == "WordIter" && f.Name == "InPos") || (name == "IfClause" && f.Name == "ThenPos") {
				if !first {
					d.sb.WriteString(" ")
				}
				first = false
				fmt.Fprintf(d.sb, "%s:%v", f.Name, fv.Interface().(syntax.Pos).IsValid())
			}
			continue
		}
		if name == "File" && f.Name == "Name" {
			continue
		}
		if !d.o.Strict {
			if (name == "CmdSubst" && f.Name == "Backquotes") ||
				(name == "ArithmExp" && f.Name == "Bracket") ||
				(name == "ForClause" && f.Name == "Braces") ||
				(name == "CaseClause" && f.Name == "Braces") {
				continue
			}
			if name == "ParamExp" && f.Name == "Short" && d.o.Minify && pe != nil && simpleParam(pe) {
				continue
			}
		}
		if !first {
			d.sb.WriteString(" ")
		}
		first = false
		d.sb.WriteString(f.Name)
		d.sb.WriteString(":")
		if name == "Redirect" && f.Name == "Hdoc" && !d.o.Strict {
			d.hdoc(v, fv)
			continue
		}
		d.val(fv, name)
	}
	d.sb.WriteString("}")
	d.inDashHdoc = saveDash
}

func (d *dumper) hdoc(redir, hv reflect.Value) {
	if hv.IsNil() {
		d.sb.WriteString("nil")
		return
	}
	w := hv.Interface().(*syntax.Word)
	allEmpty := true
	for _, p := range w.Parts {
		if l, ok := p.(*syntax.Lit); !ok || l.Value != "" {
			allEmpty = false
		}
	}
	if allEmpty {
		d.sb.WriteString("nil")
		return
	}
	r := redir.Addr().Interface().(*syntax.Redirect)
	// render into a scratch buffer: a <<- body made only of tabs is empty
	// once stripped, which equals no body.
	var tmp strings.Builder
	sub := dumper{sb: &tmp, o: d.o, inDashHdoc: r.Op == syntax.DashHdoc}
	sub.val(hv, "Redirect")
	if tmp.String() == "Word{Parts:[]}" {
		d.sb.WriteString("nil")
		return
	}
	d.sb.WriteString(tmp.String())
}

// parts dumps a []WordPart with adjacent literals merged and empty literals
// dropped.
func (d *dumper) parts(v reflect.Value) {
	dash := d.inDashHdoc
	d.inDashHdoc = false
	type run struct {
		lit  bool
		text string
		v    reflect.Value
	}
	var runs []run
	for i := 0; i < v.Len(); i++ {
		el := v.Index(i)
		if el.IsNil() {
			runs = append(runs, run{v: el})
			continue
		}
		if l, ok := el.Interface().(*syntax.Lit); ok {
			if l == nil {
				runs = append(runs, run{v: el})
				continue
			}
			if n := len(runs); n > 0 && runs[n-1].lit {
				runs[n-1].text += l.Value
			} else {
				runs = append(runs, run{lit: true, text: l.Value})
			}
			continue
		}
		runs = append(runs, run{v: el})
	}
	d.sb.WriteString("[")
	n := 0
	for i, r := range runs {
		if r.lit {
			text := r.text
			if dash {
				text = stripLeadingTabs(text, i == 0)
			}
			if i == len(runs)-1 {
				// a trailing backslash at EOF is printed doubled
				bs := 0
				for j := len(text) - 1; j >= 0 && text[j] == '\\'; j-- {
					bs++
				}
				if bs%2 == 1 {
					text += `\`
				}
			}
			if text == "" {
				continue
			}
			if n > 0 {
				d.sb.WriteString(" ")
			}
			n++
			fmt.Fprintf(d.sb, "Lit{%q}", text)
			continue
		}
		if n > 0 {
			d.sb.WriteString(" ")
		}
		n++
		d.val(r.v, "")
	}
	d.sb.WriteString("]")
}

// stripLeadingTabs removes the tabs that follow each newline (and, when
// atStart, those at the very beginning): what <<- does to its body.
func stripLeadingTabs(s string, atStart bool) string {
	var sb strings.Builder
	strip := atStart
	for i := 0; i < len(s); i++ {
		c := s[i]
		if strip && c == '\t' {
			continue
		}
		strip = c == '\n'
		sb.WriteByte(c)
	}
	return sb.String()
}

// FirstDiff returns a short excerpt around the first difference of two dumps.
func FirstDiff(a, b string) string {
	i := 0
	for i < len(a) && i < len(b) && a[i] == b[i] {
		i++
	}
	lo := max(0, i-60)
	return fmt.Sprintf("at %d: …%s⟪%s⟫ vs …⟪%s⟫", i, a[lo:i], clip(a[i:], 80), clip(b[i:], 80))
}

func clip(s string, n int) string {
	if len(s) > n {
		return s[:n] + "…"
	}
	return s
}
