// C25: shell.Expand and shell.Fields behave like bash.
//
// A case is a list of sub-cases (string s built from pieces, environment with
// non-empty values). For every sub-case
//
//   - shell.Expand(s, env) is compared with what bash reads from the
//     here-document "<<DELIM\n" + s + "\nDELIM" (read into a variable with
//     "IFS= read -r -d ”": no fork), and
//   - shell.Fields(s, env) is compared with the arguments a shell function
//     receives from  eval "f " + s  under "set -f" (no globbing),
//
// with the same variables set on both sides. bash failing to expand (or, for
// Fields, to parse) must coincide with the Go call returning an error.
//
// All sub-cases of a case run as consecutive lines of one bash script; every
// name a sub-case may touch is unset before it.
package c25

import (
	"fmt"
	"os"
	"regexp"
	"strings"
	"testing"

	"mvdan.cc/sh/v3/shell"
	"pgregory.net/rapid"

	"verifh/oracle"
	"verifh/vh"
)

func TestMain(m *testing.M) { vh.Main(m) }

// Piece is a part of the input string. T is one of
//
//	lit   S literal text without characters special to the shell
//	sp    S blanks (space, tab)
//	nl    a newline (Expand only)
//	var   $S
//	bvar  ${S}
//	par   ${S Op Arg}   Op in :- - :+ + # ## % %% / // ^ ^^ , ,, :off :off:len, Arg pieces
//	len   ${#S}
//	arith $((S)) with S an arithmetic text over numeric variables
//	sq    'S'
//	dq    "Arg"
//	bs    \S (S one character)
//	brace {a,b} / {1..3}: S is the full text
//	tilde ~ or ~/ at the start of a word
//	raw   S verbatim (special-character probes and broken forms)
type Piece struct {
	T   string  `json:"t"`
	S   string  `json:"s,omitempty"`
	Op  string  `json:"op,omitempty"`
	Arg []Piece `json:"arg,omitempty"`
}

type Sub struct {
	Pieces []Piece     `json:"pieces"`
	Env    [][2]string `json:"env"`
}

type Case struct {
	Subs []Sub `json:"subs"`
}

func text(ps []Piece) string {
	var b strings.Builder
	for _, p := range ps {
		switch p.T {
		case "lit", "sp", "raw", "brace", "tilde":
			b.WriteString(p.S)
		case "nl":
			b.WriteString("\n")
		case "var":
			b.WriteString("$" + p.S)
		case "bvar":
			b.WriteString("${" + p.S + "}")
		case "par":
			b.WriteString("${" + p.S + p.Op + text(p.Arg) + "}")
		case "len":
			b.WriteString("${#" + p.S + "}")
		case "arith":
			b.WriteString("$((" + p.S + "))")
		case "sq":
			b.WriteString("'" + p.S + "'")
		case "dq":
			b.WriteString(`"` + text(p.Arg) + `"`)
		case "bs":
			b.WriteString(`\` + p.S)
		default:
			panic("c25: bad piece " + p.T)
		}
	}
	return b.String()
}

// names a sub-case may set or read; all are unset in bash before each sub-case
var allNames = []string{"v", "w", "x", "n", "m", "A_1", "HOME", "IFS", "unset1"}

// ------------------------------------------------------- syntactic analysis

type info struct {
	hasNL, hasQuote, hasBrace, hasTilde, hasBS, hasPar, hasArith, hasRaw bool
	ifs                                                                  bool
	classes                                                              []string
}

func walk(ps []Piece, f func(Piece)) {
	for _, p := range ps {
		f(p)
		walk(p.Arg, f)
	}
}

func analyse(s *Sub) info {
	var in info
	cl := map[string]bool{}
	walk(s.Pieces, func(p Piece) {
		cl["piece:"+p.T] = true
		switch p.T {
		case "nl":
			in.hasNL = true
		case "sq", "dq":
			in.hasQuote = true
		case "brace":
			in.hasBrace = true
		case "tilde":
			in.hasTilde = true
		case "bs":
			in.hasBS = true
		case "par":
			in.hasPar = true
			cl["op:"+strings.TrimRight(p.Op, "0123456789 -")] = true
		case "arith":
			in.hasArith = true
		case "raw":
			in.hasRaw = true
		}
	})
	for _, e := range s.Env {
		if e[0] == "IFS" {
			in.ifs = true
			cl["env:IFS"] = true
		}
	}
	for k := range cl {
		in.classes = append(in.classes, k)
	}
	return in
}

func excluded(id string) bool {
	return os.Getenv("VERIF_REPLAY") == "" && vh.Excluded(id)
}

// ------------------------------------------------------------------ oracle

const (
	marker = "@@C25:Xq7Zk2:"
	delim  = "C25_EOF_Xq7Zk2"
	sent   = "C25_NOT_RUN"
)

var reMarker = regexp.MustCompile(marker + `([a-z]+):([0-9]+)@@\n`)

// prelude: no globbing; f prints the argument count and every argument
// followed by \x01 (which no generator produces).
const prelude = `set -f
c25f() { printf '%s\001' "$#" "$@"; }
`

type bashRes struct {
	expand    string
	expandErr bool
	fields    []string
	fieldsErr bool
	hasFields bool
}

func (s *Sub) bashScript(doFields bool) string {
	var b strings.Builder
	b.WriteString("unset " + strings.Join(allNames, " ") + "\n")
	for _, e := range s.Env {
		fmt.Fprintf(&b, "%s=%s\n", e[0], oracle.ShQuote(e[1]))
	}
	str := text(s.Pieces)
	b.WriteString("out=" + sent + "\n")
	fmt.Fprintf(&b, "IFS= read -r -d '' out <<%s\n%s\n%s\n", delim, str, delim)
	fmt.Fprintf(&b, "printf '%%s' \"$out\"\necho \"%sexpand:0@@\"\n", marker)
	if doFields {
		fmt.Fprintf(&b, "eval %s\n", oracle.ShQuote("c25f "+str))
		fmt.Fprintf(&b, "echo \"%sfields:$?@@\"\n", marker)
	}
	return b.String()
}

func runBash(dir string, subs []*Sub, doFields []bool) ([]bashRes, error) {
	var b strings.Builder
	b.WriteString(prelude)
	for i, s := range subs {
		b.WriteString(s.bashScript(doFields[i]))
	}
	r := oracle.RunShell(b.String(), oracle.Opts{Dir: dir})
	if r.Err != nil {
		return nil, r.Err
	}
	if r.Timeout {
		return nil, fmt.Errorf("bash timed out")
	}
	locs := reMarker.FindAllSubmatchIndex(r.Stdout, -1)
	want := 0
	for _, f := range doFields {
		want++
		if f {
			want++
		}
	}
	if len(locs) != want {
		return nil, fmt.Errorf("bash batch: %d markers, want %d (status %d, stderr %q)", len(locs), want, r.Status, tail(r.Stderr))
	}
	res := make([]bashRes, len(subs))
	prev, k := 0, 0
	next := func(kind string) (string, int) {
		l := locs[k]
		k++
		if string(r.Stdout[l[2]:l[3]]) != kind {
			panic("c25: marker order")
		}
		out := string(r.Stdout[prev:l[0]])
		prev = l[1]
		st := 0
		fmt.Sscanf(string(r.Stdout[l[4]:l[5]]), "%d", &st)
		return out, st
	}
	for i := range subs {
		out, _ := next("expand")
		if out == sent {
			res[i].expandErr = true
		} else {
			// the here-document adds the final newline
			res[i].expand = strings.TrimSuffix(out, "\n")
			if !strings.HasSuffix(out, "\n") {
				return nil, fmt.Errorf("here-document body without final newline: %q", out)
			}
		}
		if doFields[i] {
			res[i].hasFields = true
			out, st := next("fields")
			parts := strings.Split(out, "\x01")
			if out == "" {
				res[i].fieldsErr = true
				if st == 0 {
					return nil, fmt.Errorf("fields: no output but status 0")
				}
			} else {
				n := 0
				fmt.Sscanf(parts[0], "%d", &n)
				if len(parts) != n+2 || parts[n+1] != "" {
					return nil, fmt.Errorf("fields: malformed output %q", out)
				}
				res[i].fields = parts[1 : n+1]
			}
		}
	}
	return res, nil
}

func tail(b []byte) string {
	if len(b) > 300 {
		b = b[len(b)-300:]
	}
	return string(b)
}

// fieldsOK: the string can be spliced into a command line as arguments. By
// construction pieces never contain unquoted operators; newlines only occur
// as "nl" pieces and inside quotes.
func fieldsOK(s *Sub) bool {
	for _, p := range s.Pieces {
		if p.T == "nl" {
			return false
		}
		// bash 5.2.15 does not split a word that contains a bare "$"
		// (x='a b'; f ${x}$ passes ONE argument "a b$"): no judge there
		if p.T == "raw" && (p.S == "$" || p.S == "a$" || p.S == "$%") {
			return false
		}
	}
	return true
}

func goExpand(s string, env func(string) string) (out string, err error, pan any) {
	defer func() {
		if e := recover(); e != nil {
			pan = e
		}
	}()
	out, err = shell.Expand(s, env)
	return
}

func goFields(s string, env func(string) string) (out []string, err error, pan any) {
	defer func() {
		if e := recover(); e != nil {
			pan = e
		}
	}()
	out, err = shell.Fields(s, env)
	return
}

func check(c Case) (res vh.Result) {
	if len(c.Subs) == 0 {
		res.Skipped = true
		return res
	}
	dir, err := oracle.NewDir()
	if err != nil {
		panic(err)
	}
	defer oracle.RemoveDir(dir)
	classes := map[string]int{}
	defer func() {
		for k, n := range classes {
			vh.Count("C25", k, n)
		}
	}()
	var subs []*Sub
	var idx []int
	var doFields, doExpand []bool
	for i := range c.Subs {
		s := &c.Subs[i]
		classes["sub:total"]++
		in := analyse(s)
		xe, xf := exclusion(s, in)
		if xe != "" {
			classes["sub:excluded-expand:"+xe]++
		}
		if xf != "" {
			classes["sub:excluded-fields:"+xf]++
		}
		for _, k := range in.classes {
			classes["sub:"+k]++
		}
		subs = append(subs, s)
		idx = append(idx, i)
		doFields = append(doFields, fieldsOK(s) && xf == "")
		doExpand = append(doExpand, xe == "")
		if len(s.Pieces) >= 2 {
			res.Nontrivial = true
			classes["sub:nontrivial"]++
		}
	}
	if len(subs) == 0 {
		res.Skipped = true
		return res
	}
	bres, err := runBash(dir, subs, doFields)
	if err != nil {
		res.Skipped = true
		res.Classes = append(res.Classes, "infra:bash-batch")
		if os.Getenv("C25_DEBUG") != "" {
			return vh.Fail("bash batch: %v", err)
		}
		return res
	}
	survey := os.Getenv("C25_SURVEY")
	report := func(i int, format string, args ...any) *vh.Result {
		msg := fmt.Sprintf(format, args...)
		if survey != "" {
			f, _ := os.OpenFile(survey, os.O_APPEND|os.O_CREATE|os.O_WRONLY, 0o644)
			fmt.Fprintf(f, "%s\n", strings.ReplaceAll(msg, "\n", "\\n"))
			f.Close()
			return nil
		}
		r := vh.Fail("sub-case %d: %s", idx[i], msg)
		return &r
	}
	for i, s := range subs {
		str := text(s.Pieces)
		env := map[string]string{}
		for _, e := range s.Env {
			env[e[0]] = e[1]
		}
		envf := func(name string) string { return env[name] }
		br := bres[i]
		var got string
		var gerr error
		var pan any
		if doExpand[i] {
			classes["sub:expand-compared"]++
			got, gerr, pan = goExpand(str, envf)
		}
		switch {
		case !doExpand[i]:
		case pan != nil:
			if r := report(i, "Expand(%q) env %v panicked: %v", str, s.Env, pan); r != nil {
				return *r
			}
		case br.expandErr != (gerr != nil):
			if r := report(i, "Expand(%q) env %v: bash error=%v (%q), Go error=%v (%q)", str, s.Env, br.expandErr, br.expand, gerr, got); r != nil {
				return *r
			}
		case gerr == nil && got != br.expand:
			if r := report(i, "Expand(%q) env %v: bash %q, Go %q", str, s.Env, br.expand, got); r != nil {
				return *r
			}
		}
		if br.expandErr && doExpand[i] {
			classes["sub:expand-error"]++
		}
		if !br.hasFields {
			continue
		}
		classes["sub:fields-compared"]++
		gf, gerr, pan := goFields(str, envf)
		switch {
		case pan != nil:
			if r := report(i, "Fields(%q) env %v panicked: %v", str, s.Env, pan); r != nil {
				return *r
			}
		case br.fieldsErr != (gerr != nil):
			if r := report(i, "Fields(%q) env %v: bash error=%v (%q), Go error=%v (%q)", str, s.Env, br.fieldsErr, br.fields, gerr, gf); r != nil {
				return *r
			}
		case gerr == nil && !eqStrings(gf, br.fields):
			if r := report(i, "Fields(%q) env %v: bash %q, Go %q", str, s.Env, br.fields, gf); r != nil {
				return *r
			}
		}
		if br.fieldsErr {
			classes["sub:fields-error"]++
		}
		if len(br.fields) > 1 {
			classes["sub:fields-multi"]++
		}
	}
	return res
}

func eqStrings(a, b []string) bool {
	if len(a) != len(b) {
		return false
	}
	for i := range a {
		if a[i] != b[i] {
			return false
		}
	}
	return true
}

func isSet(s *Sub, name string) bool {
	for _, e := range s.Env {
		if e[0] == name {
			return true
		}
	}
	return false
}

// words splits the top-level pieces at blanks and newlines.
func words(ps []Piece) [][]Piece {
	var out [][]Piece
	var cur []Piece
	for _, p := range ps {
		if p.T == "sp" || p.T == "nl" {
			if len(cur) > 0 {
				out = append(out, cur)
			}
			cur = nil
			continue
		}
		cur = append(cur, p)
	}
	if len(cur) > 0 {
		out = append(out, cur)
	}
	return out
}

var (
	reDollarAtAltEnd = regexp.MustCompile(`\$[A-Za-z_][A-Za-z0-9_]*[,}]`)
	reNameStart      = regexp.MustCompile(`^[A-Za-z0-9_]`)
	reDollarNameEnd  = regexp.MustCompile(`\$[A-Za-z_][A-Za-z0-9_]*$`)
	reEmptyAlt       = regexp.MustCompile(`\{,|,,|,\}`)
)

// exclusion names the known findings whose syntactic class the sub-case is
// in, separately for Expand and for Fields ("" = compare).
func exclusion(s *Sub, in info) (expand, fields string) {
	quoteInWord, bsInWord := false, false
	var slashPat, eager, quotedEmpty, emptyRepl string
	walk(s.Pieces, func(p Piece) {
		if p.T != "par" {
			return
		}
		if (p.Op == "/" || p.Op == "//") && len(p.Arg) > 0 && strings.HasPrefix(p.Arg[0].S, "*/") && !isSet(s, p.S) {
			// ${unset/*/X}: bash leaves an unset or empty value alone,
			// the pattern * is matched against "" here
			emptyRepl = "C25-replace-on-unset"
		}
		if (p.Op == "/" || p.Op == "//") && len(p.Arg) > 0 && strings.HasPrefix(p.Arg[0].S, "/") {
			// ${v////X}, ${v///}: bash reads // + a pattern that starts
			// with "/"; that pattern is not recognised here
			slashPat = "C25-replace-slash-pattern"
		}
		if p.Op == ":-" || p.Op == "-" || p.Op == ":+" || p.Op == "+" {
			walk(p.Arg, func(q Piece) {
				if q.T == "arith" && strings.ContainsAny(q.S, "/%") {
					// the word is expanded even when it is not used, so an
					// error in it (division by zero) surfaces
					eager = "C25-unused-param-word-evaluated"
				}
			})
		}
		walk(p.Arg, func(q Piece) {
			switch {
			case q.T == "sq" || q.T == "dq" || (q.T == "lit" && strings.ContainsAny(q.S, `'"`)):
				quoteInWord = true
			case q.T == "bs":
				bsInWord = true
			}
		})
	})
	first := func(ids ...string) string {
		for _, id := range ids {
			if id != "" && excluded(id) {
				return id
			}
		}
		return ""
	}
	var q, b string
	if quoteInWord {
		// ${v:-'a b'}: the quotes inside the word are removed where bash
		// keeps them (here-document, double quotes) and do not protect
		// from splitting where bash honours them (unquoted)
		q = "C25-quote-in-param-word"
	}
	if bsInWord {
		// ${v:-\$x} / ${v:-a\ b}: the backslash is kept
		b = "C25-backslash-in-param-word"
	}
	var ifs, braceName, braceEmpty, tildeEq string
	for _, e := range s.Env {
		if e[0] == "IFS" && strings.Trim(e[1], " \t\n") != "" {
			// a:b::c with IFS=: gives a b "" c in bash (empty field kept)
			ifs = "C25-ifs-empty-fields"
		}
	}
	for _, w := range words(s.Pieces) {
		for i, p := range w {
			isExp := func(q Piece) bool { return q.T == "var" || q.T == "bvar" || q.T == "par" }
			if (p.T == "sq" && p.S == "" || p.T == "dq" && len(p.Arg) == 0) && ((i > 0 && isExp(w[i-1])) || (i+1 < len(w) && isExp(w[i+1]))) {
				// $v"" with v='x ' (or ""$v with v=' x'): bash gives "x" and
				// an empty field, Fields only "x"
				quotedEmpty = "C25-quoted-empty-next-to-expansion"
			}
			if p.T == "lit" || p.T == "raw" {
				// a=~ and a=x:~ : bash expands a tilde after "=" and, in a
				// word that looks like an assignment, after ":"
				before := text(w[:i])
				for k := 0; k < len(p.S); k++ {
					if p.S[k] != '~' {
						continue
					}
					pre := before + p.S[:k]
					if strings.Contains(pre, "=") && (strings.HasSuffix(pre, "=") || strings.HasSuffix(pre, ":")) {
						tildeEq = "C25-tilde-after-equals"
					}
				}
			}
			if p.T != "brace" {
				continue
			}
			// $name{a,b}: bash expands the braces first ($namea $nameb)
			if i > 0 && w[i-1].T == "var" {
				braceName = "C25-brace-after-dollar-name"
			}
			if reDollarNameEnd.MatchString(text(w[:i])) {
				// $v followed by name characters and then the braces: the
				// name bash reads includes the brace alternatives too
				braceName = "C25-brace-after-dollar-name"
			}
			if reDollarAtAltEnd.MatchString(p.S) && i+1 < len(w) && (w[i+1].T == "brace" || reNameStart.MatchString(text(w[i+1:i+2]))) {
				braceName = "C25-brace-after-dollar-name"
			}
			// an alternative that expands to nothing, or to text ending
			// in a blank, leaves an empty field behind
			if reEmptyAlt.MatchString(p.S) || strings.Contains(p.S, "$") {
				braceEmpty = "C25-brace-empty-word"
			}
			for j, o := range w {
				if j != i && (o.T == "var" || o.T == "bvar" || o.T == "par") {
					braceEmpty = "C25-brace-empty-word"
				}
			}
		}
	}
	return first(q, b, slashPat, eager, emptyRepl), first(q, b, slashPat, eager, emptyRepl, ifs, braceName, braceEmpty, tildeEq, quotedEmpty)
}

var prop = vh.Prop[Case]{ID: "C25", Gen: gen, Check: check}

func TestC25(t *testing.T) { vh.Run(t, prop) }

// --------------------------------------------------------------- generation

var litAlphabet = []string{"a", "b", "c", "x", "Z", "0", "1", "9", "_", ".", "/", ":", ",", "=", "+", "-", "@", "%", "^", "é", "€"}

func genLit(t *rapid.T) string {
	n := rapid.IntRange(1, 4).Draw(t, "litlen")
	var b strings.Builder
	for i := 0; i < n; i++ {
		b.WriteString(rapid.SampledFrom(litAlphabet).Draw(t, "litch"))
	}
	return b.String()
}

var varNames = []string{"v", "v", "w", "x", "n", "m", "A_1", "HOME", "unset1", "unset1"}

var patterns = []string{"a", "?", "*", "a*", "*a", "[a-c]", "[!a]", "/", "b?", ".", " ", "é", "x*x"}

// genArith: arithmetic over literals and the numeric variables n, m and an
// unset name (C20 covers arithmetic proper).
func genArith(t *rapid.T, nSet bool) string {
	atoms := []string{"1", "2", "7", "10", "0", "n", "m", "unset1", "(n+1)"}
	if nSet {
		// $n of an unset n leaves "1+" behind: a syntax error in bash,
		// 0 for the interpreter (C20's $name finding), not Expand's matter
		atoms = append(atoms, "$n", "${n}")
	}
	ops := []string{"+", "-", "*", "/", "%", " + ", " * ", "<", "==", "&&"}
	a := rapid.SampledFrom(atoms).Draw(t, "aa")
	for i := rapid.IntRange(0, 2).Draw(t, "an"); i > 0; i-- {
		a += rapid.SampledFrom(ops).Draw(t, "aop") + rapid.SampledFrom(atoms).Draw(t, "ab")
	}
	return a
}

// genInner: pieces allowed inside "..." and inside ${v op ARG}.
func genInner(t *rapid.T, depth int, inDQ, nSet bool) []Piece {
	n := rapid.IntRange(0, 3).Draw(t, "innern")
	var ps []Piece
	for i := 0; i < n; i++ {
		switch rapid.IntRange(0, 9).Draw(t, "innerk") {
		case 0, 1, 2:
			ps = append(ps, Piece{T: "lit", S: genLit(t)})
		case 3:
			ps = append(ps, Piece{T: "sp", S: " "})
		case 4, 5:
			ps = append(ps, Piece{T: "var", S: rapid.SampledFrom(varNames).Draw(t, "ivar")})
		case 6:
			if depth > 0 {
				ps = append(ps, genPar(t, depth-1, inDQ, nSet))
			}
		case 7:
			ps = append(ps, Piece{T: "bs", S: rapid.SampledFrom([]string{`\`, "$", `"`, "a", "'", " ", "}"}).Draw(t, "ibs")})
		case 8:
			if !inDQ {
				ps = append(ps, Piece{T: "sq", S: rapid.SampledFrom([]string{"", "a b", "x", "$v", "*"}).Draw(t, "isq")})
			} else {
				ps = append(ps, Piece{T: "lit", S: "'"})
			}
		default:
			ps = append(ps, Piece{T: "arith", S: genArith(t, nSet)})
		}
	}
	return ps
}

var parOps = []string{":-", ":-", "-", ":+", "+", "#", "##", "%", "%%", "/", "//", "^", "^^", ",", ",,", ":1", ":0:2", ":2:1", ": -2"}

func genPar(t *rapid.T, depth int, inDQ, nSet bool) Piece {
	p := Piece{T: "par", S: rapid.SampledFrom(varNames).Draw(t, "pvar"), Op: rapid.SampledFrom(parOps).Draw(t, "pop")}
	switch p.Op {
	case ":-", "-", ":+", "+":
		p.Arg = genInner(t, depth, inDQ, nSet)
	case "#", "##", "%", "%%":
		p.Arg = []Piece{{T: "lit", S: rapid.SampledFrom(patterns).Draw(t, "pat")}}
	case "/", "//":
		p.Arg = []Piece{{T: "lit", S: rapid.SampledFrom(patterns).Draw(t, "pat") + "/" + rapid.SampledFrom([]string{"", "X", "yy", "é"}).Draw(t, "rep")}}
	case "^", "^^", ",", ",,":
		if rapid.IntRange(0, 3).Draw(t, "casepat") == 0 {
			p.Arg = []Piece{{T: "lit", S: rapid.SampledFrom([]string{"a", "[a-c]", "?"}).Draw(t, "cpat")}}
		}
	}
	return p
}

// raw probes are always followed by a blank (see genSub): "$" glued to the
// next piece would name a special parameter ($$, $-, $#), which have no
// counterpart in shell.Expand's environment function.
var rawProbes = []string{"$", "a$", "$%", "a#b", "!", "[", "*", "?", "a*b", "}", "{", "{}", "{a}", "{a,b", "a,b}", "$'a\\tb'", "$\"a b\"", "a=~", "~a"}
var rawBroken = []string{"${v", "${}", "${v!}", "$((1+))", "$((", "${v:}", "${v-", "${ v}", "${v }"}

func genSub(t *rapid.T) Sub {
	var s Sub
	// environment: non-empty values only (an empty value means unset)
	vals := []string{"val", "a b", " lead", "trail ", "a  b", "abcabc", "ABC", "x*y", "*", "a:b::c", "é€", "q'q", `b\s`, "d\"q", "$v", "~", "{a,b}", "-n", "a\tb", "/home/u", "one\ntwo", "\nlead", "x \n y", "trailnl\n"}
	for _, name := range []string{"v", "w", "x", "A_1"} {
		if rapid.IntRange(0, 2).Draw(t, "set") > 0 {
			s.Env = append(s.Env, [2]string{name, rapid.SampledFrom(vals).Draw(t, "val")})
		}
	}
	for _, name := range []string{"n", "m"} {
		if rapid.IntRange(0, 2).Draw(t, "setn") > 0 {
			s.Env = append(s.Env, [2]string{name, rapid.SampledFrom([]string{"0", "1", "3", "10", "-2", "42"}).Draw(t, "nval")})
		}
	}
	// HOME is always set: with HOME unset bash asks the password database
	s.Env = append(s.Env, [2]string{"HOME", rapid.SampledFrom([]string{"/home/u", "/", "/h m", "/a*b"}).Draw(t, "home")})
	if rapid.IntRange(0, 7).Draw(t, "ifs") == 0 {
		s.Env = append(s.Env, [2]string{"IFS", rapid.SampledFrom([]string{":", ",", " :", ": ", "b", "\t", " "}).Draw(t, "ifsval")})
	}
	// $n inside $(( )) only for a set, non-negative n: "n-$n" with n=-2 is
	// "n--2" to bash's arithmetic lexer
	nSet := false
	for _, e := range s.Env {
		if e[0] == "n" && !strings.HasPrefix(e[1], "-") {
			nSet = true
		}
	}
	n := rapid.IntRange(1, 6).Draw(t, "npieces")
	wordStart := true
	for i := 0; i < n; i++ {
		k := rapid.IntRange(0, 29).Draw(t, "piecek")
		var p Piece
		switch {
		case k < 6:
			p = Piece{T: "lit", S: genLit(t)}
		case k < 9:
			p = Piece{T: "sp", S: rapid.SampledFrom([]string{" ", " ", "  ", "\t"}).Draw(t, "sp")}
		case k < 12:
			p = Piece{T: "var", S: rapid.SampledFrom(varNames).Draw(t, "var")}
		case k < 14:
			p = Piece{T: "bvar", S: rapid.SampledFrom(varNames).Draw(t, "bvar")}
		case k < 18:
			p = genPar(t, 1, false, nSet)
		case k == 18:
			p = Piece{T: "len", S: rapid.SampledFrom(varNames).Draw(t, "lvar")}
		case k < 21:
			p = Piece{T: "arith", S: genArith(t, nSet)}
		case k < 23:
			p = Piece{T: "sq", S: rapid.SampledFrom([]string{"", "a", "a b", "$v", `\`, `"`, "*", "a\nb", ";|&<>()", "#"}).Draw(t, "sq")}
		case k < 25:
			p = Piece{T: "dq", Arg: genInner(t, 1, true, nSet)}
		case k == 25:
			p = Piece{T: "bs", S: rapid.SampledFrom([]string{`\`, "$", `"`, "'", "a", " ", ";", "*", "~", "{", "#", "n"}).Draw(t, "bs")}
		case k == 26:
			p = Piece{T: "brace", S: rapid.SampledFrom([]string{"{a,b}", "{a,b,c}", "{1..3}", "{a,}", "{,}", "x{a,b}y", "{a,b}{c,d}", "{a,{b,c}}", "{$v,w}", "{3..1}", "{a..c}"}).Draw(t, "brace")}
		case k == 27:
			if wordStart {
				p = Piece{T: "tilde", S: rapid.SampledFrom([]string{"~", "~/", "~/x"}).Draw(t, "tilde")}
			} else {
				p = Piece{T: "lit", S: "~"}
			}
		case k == 28:
			p = Piece{T: "raw", S: rapid.SampledFrom(rawProbes).Draw(t, "raw")}
		default:
			switch rapid.IntRange(0, 3).Draw(t, "rare") {
			case 0:
				p = Piece{T: "nl"}
			case 1:
				// an unterminated form must be the last thing in the string,
				// or the next "}" would terminate it
				if i == n-1 {
					p = Piece{T: "raw", S: rapid.SampledFrom(rawBroken).Draw(t, "broken")}
				} else {
					p = Piece{T: "lit", S: genLit(t)}
				}
			default:
				p = Piece{T: "lit", S: genLit(t)}
			}
		}
		s.Pieces = append(s.Pieces, p)
		if (p.T == "raw" || (p.T == "tilde" && p.S == "~")) && i < n-1 {
			// "~" directly followed by ":" is a tilde-prefix to bash
			s.Pieces = append(s.Pieces, Piece{T: "sp", S: " "})
		}
		wordStart = p.T == "sp" || p.T == "nl" || p.T == "raw" || (p.T == "tilde" && p.S == "~")
	}
	// a trailing backslash would swallow the here-document's newline
	if last := s.Pieces[len(s.Pieces)-1]; last.T == "bs" && last.S == "" {
		s.Pieces = append(s.Pieces, Piece{T: "lit", S: "a"})
	}
	return s
}

func gen(t *rapid.T) Case {
	n := rapid.IntRange(1, 64).Draw(t, "nsubs")
	return Case{Subs: rapid.SliceOfN(rapid.Custom(genSub), n, n).Draw(t, "subs")}
}

// ------------------------------------------------------- exhaustive stage

// allEnum: every parameter-expansion operator x {unset, plain value, value
// with blanks} x {bare, inside a word, double-quoted, single-quoted,
// backslash-escaped}, plus a fixed list of quoting, tilde and brace forms.
func allEnum() []Sub {
	var subs []Sub
	envs := [][][2]string{
		{{"w", "W"}, {"n", "3"}, {"HOME", "/h"}},
		{{"v", "val"}, {"w", "W"}, {"n", "3"}, {"HOME", "/h"}},
		{{"v", "a b"}, {"w", "W x"}, {"n", "3"}, {"HOME", "/h m"}},
		{{"v", " Ab*a "}, {"n", "3"}, {"HOME", "/"}},
	}
	lit := func(s string) Piece { return Piece{T: "lit", S: s} }
	par := func(op string, arg ...Piece) Piece { return Piece{T: "par", S: "v", Op: op, Arg: arg} }
	forms := []Piece{
		{T: "var", S: "v"}, {T: "bvar", S: "v"}, {T: "len", S: "v"},
		par(":-", lit("d")), par("-", lit("d")), par(":+", lit("d")), par("+", lit("d")),
		par(":-", Piece{T: "var", S: "w"}), par(":+", Piece{T: "var", S: "w"}), par(":-"), par(":+"),
		par(":-", lit("d"), Piece{T: "sp", S: " "}, lit("e")),
		par("#", lit("a")), par("#", lit("?")), par("##", lit("*a")), par("%", lit("l")), par("%", lit("?")), par("%%", lit("a*")),
		par("/", lit("a/X")), par("//", lit("a/X")), par("/", lit("a/")), par("//", lit("?/X")), par("/", lit("[a-c]/X")),
		par("^"), par("^^"), par(","), par(",,"), par("^^", lit("a")),
		par(":1"), par(":1:1"), par(":0:2"), par(": -1"), par(":9"),
		{T: "arith", S: "1+2"}, {T: "arith", S: "n*2"}, {T: "arith", S: "unset1+1"}, {T: "arith", S: " 7 / 2 "},
	}
	for _, env := range envs {
		for _, f := range forms {
			subs = append(subs,
				Sub{Env: env, Pieces: []Piece{f}},
				Sub{Env: env, Pieces: []Piece{lit("x"), f, lit("y")}},
				Sub{Env: env, Pieces: []Piece{{T: "dq", Arg: []Piece{f}}}},
				Sub{Env: env, Pieces: []Piece{{T: "dq", Arg: []Piece{lit("x "), f, lit(" y")}}}},
				Sub{Env: env, Pieces: []Piece{{T: "sq", S: text([]Piece{f})}}},
				Sub{Env: env, Pieces: []Piece{{T: "bs", S: ""}, f}},
				Sub{Env: env, Pieces: []Piece{f, {T: "sp", S: " "}, f}},
			)
		}
		for _, s := range []string{
			"~", "~/x", "a~", "~a", "a ~ b", "'a b'", `"a b"`, `a\ b`, `\\`, `\$v`, `\"`, `\'`, `"\$v\"\\\a"`, `'\$v'`,
			"{a,b}", "{1..3}", "x{a,b}y", "{a,b}{c,d}", "{a,{b,c}}", "{a}", "{a,b", "'{a,b}'", `"{a,b}"`, `\{a,b}`, "{3..1}", "{a..c}", "{1..5..2}",
			"a  b", " a ", "*", "'*'", "?", "[a]", "a\tb", "", " ", "''", `""`, "a'b'\"c\"d", `a"$v"b`, `"$v"'$v'$v`, "a#b", "$", "é€", "-n", "--",
		} {
			subs = append(subs, Sub{Env: env, Pieces: []Piece{{T: "raw", S: s}}})
		}
	}
	return subs
}

func TestC25Enum(t *testing.T) {
	if os.Getenv("VERIF_REPLAY") != "" {
		vh.Run(t, prop)
		return
	}
	subs := allEnum()
	i, n := vh.Shard()
	const per = 64
	k := 0
	for off := 0; off < len(subs); off += per {
		end := min(off+per, len(subs))
		if k%n == i {
			vh.Each(t, prop, Case{Subs: subs[off:end]})
		}
		k++
	}
	vh.SetExhaustive("C25")
}
