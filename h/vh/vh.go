// Package vh is the shared harness glue: it runs a property over generated
// cases (rapid) or enumerated cases, records what was explored for the
// evidence file, writes a replay file for every failure, and re-runs a saved
// case without the library.
//
// Environment contract (set by /verif/check):
//
//	VERIF_STATS    path of the JSON stats file this process writes at exit
//	VERIF_REPLAYDIR directory where failing cases are written
//	VERIF_REPLAY   path of a case file to re-run (replay mode, no generation)
//	VERIF_EXCLUDE  comma separated ids of known findings whose exclusion
//	               class is active
//	VERIF_SHARD    "i/n" for enumerations split across workers
//	VERIF_TIER     quick | thorough
package vh

import (
	"crypto/sha256"
	"encoding/base64"
	"encoding/binary"
	"encoding/hex"
	"encoding/json"
	"fmt"
	"hash/fnv"
	"os"
	"path/filepath"
	"reflect"
	"sort"
	"strconv"
	"strings"
	"sync"
	"testing"
	"unicode/utf8"

	"pgregory.net/rapid"
)

// Result is what a property reports for one case.
type Result struct {
	// Err is empty when the property held.
	Err string
	// Nontrivial says whether the case satisfies the property's stated
	// non-triviality rule.
	Nontrivial bool
	// Classes are labels counted into the evidence histogram.
	Classes []string
	// Skipped marks a case that was outside the property's domain
	// (counted, never a pass).
	Skipped bool
	// Key overrides the identity used to count distinct cases.
	Key string
}

// Fail builds a failing result.
func Fail(format string, args ...any) Result {
	return Result{Err: fmt.Sprintf(format, args...)}
}

type stats struct {
	mu          sync.Mutex
	Property    string         `json:"property"`
	Evaluations int64          `json:"evaluations"`
	Skipped     int64          `json:"skipped"`
	Classes     map[string]int `json:"classes"`
	Samples     []sample       `json:"samples"`
	Failures    []string       `json:"failures"`
	Exhaustive  bool           `json:"exhaustive"`
	hashes      map[uint64]struct{}
}

type sample struct {
	H    uint64          `json:"h"`
	Case json.RawMessage `json:"case"`
}

var (
	st     *stats
	stOnce sync.Once
)

const maxSamples = 8

func getStats(id string) *stats {
	stOnce.Do(func() {
		st = &stats{Property: id, Classes: map[string]int{}, hashes: map[uint64]struct{}{}}
	})
	return st
}

func hash64(b []byte) uint64 {
	h := fnv.New64a()
	h.Write(b)
	return h.Sum64()
}

// Record adds one evaluated case to the statistics.
func Record(id string, c any, r Result) {
	s := getStats(id)
	s.mu.Lock()
	defer s.mu.Unlock()
	s.Evaluations++
	if r.Skipped {
		s.Skipped++
	}
	for _, cl := range r.Classes {
		s.Classes[cl]++
	}
	if r.Nontrivial && !r.Skipped {
		var h uint64
		var js []byte
		if r.Key != "" {
			h = hash64([]byte(r.Key))
		} else {
			js = MarshalCase(c)
			h = hash64(js)
		}
		if _, ok := s.hashes[h]; !ok {
			s.hashes[h] = struct{}{}
			// keep the samples with the smallest hashes: deterministic
			// and spread over the run.
			if len(s.Samples) < maxSamples || h < s.Samples[len(s.Samples)-1].H {
				if js == nil {
					js = MarshalCase(c)
				}
				if len(js) < 4000 {
					s.Samples = append(s.Samples, sample{h, js})
					sort.Slice(s.Samples, func(i, j int) bool { return s.Samples[i].H < s.Samples[j].H })
					if len(s.Samples) > maxSamples {
						s.Samples = s.Samples[:maxSamples]
					}
				}
			}
		}
	}
}

// Count adds n to a histogram class without counting an evaluation.
func Count(id, class string, n int) {
	s := getStats(id)
	s.mu.Lock()
	s.Classes[class] += n
	s.mu.Unlock()
}

// SetExhaustive marks the run as a complete enumeration of a finite space.
func SetExhaustive(id string) {
	s := getStats(id)
	s.mu.Lock()
	s.Exhaustive = true
	s.mu.Unlock()
}

var (
	surveyMu    sync.Mutex
	surveyKinds = map[string]*surveyEntry{}
)

type surveyEntry struct {
	n   int
	js  []byte
	msg string
}

// surveyAdd records a failure without stopping (development aid:
// VERIF_SURVEY=1 lists every failure kind of a run with its smallest case).
func surveyAdd(c any, msg string) {
	js := MarshalCase(c)
	k := failKind(msg)
	surveyMu.Lock()
	defer surveyMu.Unlock()
	e := surveyKinds[k]
	if e == nil {
		e = &surveyEntry{}
		surveyKinds[k] = e
	}
	e.n++
	if e.js == nil || len(js) < len(e.js) {
		e.js, e.msg = js, msg
	}
}

func surveyDump[C any](p Prop[C]) {
	surveyMu.Lock()
	defer surveyMu.Unlock()
	var ks []string
	for k := range surveyKinds {
		ks = append(ks, k)
	}
	sort.Slice(ks, func(i, j int) bool { return surveyKinds[ks[i]].n > surveyKinds[ks[j]].n })
	for _, k := range ks {
		e := surveyKinds[k]
		var c C
		if UnmarshalCase(e.js, &c) == nil {
			if c2, r, ok := minimizeCase(p, c); ok {
				e.js = MarshalCase(c2)
				e.msg = r.Err
			}
		}
		fmt.Printf("SURVEY %5d  %s\n        case: %s\n        msg: %s\n", e.n, k, e.js, oneLine(e.msg))
	}
}

// Flush writes the statistics file; call it from TestMain after m.Run.
func Flush() {
	if st == nil {
		return
	}
	path := os.Getenv("VERIF_STATS")
	if path == "" {
		return
	}
	st.mu.Lock()
	defer st.mu.Unlock()
	f, err := os.Create(path)
	if err != nil {
		fmt.Fprintln(os.Stderr, "vh: cannot write stats:", err)
		return
	}
	defer f.Close()
	json.NewEncoder(f).Encode(st)
	hf, err := os.Create(path + ".hashes")
	if err != nil {
		return
	}
	defer hf.Close()
	buf := make([]byte, 0, 8*len(st.hashes))
	for h := range st.hashes {
		buf = binary.LittleEndian.AppendUint64(buf, h)
	}
	hf.Write(buf)
}

// Main is a TestMain body that flushes statistics.
func Main(m *testing.M) {
	code := m.Run()
	Flush()
	os.Exit(code)
}

// Excluded reports whether the exclusion class of the known finding with the
// given id is active (the finding is listed as known, not fixed).
func Excluded(id string) bool {
	for _, e := range strings.Split(os.Getenv("VERIF_EXCLUDE"), ",") {
		if e == id {
			return true
		}
	}
	return false
}

// Thorough reports whether the thorough tier is running.
func Thorough() bool { return os.Getenv("VERIF_TIER") == "thorough" }

// Scale returns q in the quick tier and t in the thorough tier.
func Scale(q, t int) int {
	if Thorough() {
		return t
	}
	return q
}

// Shard returns (index, count) for enumerations split over workers.
func Shard() (int, int) {
	s := os.Getenv("VERIF_SHARD")
	a, b, ok := strings.Cut(s, "/")
	if !ok {
		return 0, 1
	}
	i, _ := strconv.Atoi(a)
	n, _ := strconv.Atoi(b)
	if n <= 0 {
		return 0, 1
	}
	return i, n
}

// SaveReplay writes the failing case to the replay directory and returns the
// path. The file name is the content hash, so shrinking overwrites nothing
// and the driver picks the last one written (listed in the stats).
func SaveReplay(id string, c any, msg string) string {
	dir := os.Getenv("VERIF_REPLAYDIR")
	if dir == "" {
		dir = filepath.Join(os.TempDir(), "verif-replays", id)
	}
	os.MkdirAll(dir, 0o755)
	js := MarshalCase(c)
	doc := map[string]any{"property": id, "case": json.RawMessage(js), "message": msg}
	out, _ := json.MarshalIndent(doc, "", " ")
	sum := sha256.Sum256(js)
	path := filepath.Join(dir, hex.EncodeToString(sum[:8])+".json")
	os.WriteFile(path, out, 0o644)
	s := getStats(id)
	s.mu.Lock()
	s.Failures = append(s.Failures, path)
	s.mu.Unlock()
	return path
}

// LoadReplay reads a case saved by SaveReplay (or a regress file of the same
// shape) into c.
func LoadReplay(path string, c any) error {
	b, err := os.ReadFile(path)
	if err != nil {
		return err
	}
	var doc struct {
		Case json.RawMessage `json:"case"`
	}
	if err := json.Unmarshal(b, &doc); err != nil {
		return err
	}
	if doc.Case == nil {
		return fmt.Errorf("%s: no \"case\" key", path)
	}
	return UnmarshalCase(doc.Case, c)
}

// Prop is one executable property over cases of type C. C must survive a JSON
// round trip (it is the replay format).
type Prop[C any] struct {
	ID    string
	Gen   func(t *rapid.T) C
	Check func(c C) Result
	// Text, if set, points at the case's main text field; a failing case is
	// then minimised further by delta debugging on that text (the driver
	// calls the test binary with VERIF_MINIMIZE=<replay file>).
	Text func(c *C) *string
}

// Run drives the property: replay mode when VERIF_REPLAY is set, otherwise
// rapid generation (case count and PRNG value come from the -rapid.* flags the
// driver passes).
func Run[C any](t *testing.T, p Prop[C]) {
	if rp := os.Getenv("VERIF_REPLAY"); rp != "" {
		var c C
		if err := LoadReplay(rp, &c); err != nil {
			t.Fatalf("replay: %v", err)
		}
		r := p.Check(c)
		if r.Err != "" {
			fmt.Printf("REPLAY-FAIL property=%s %s\n", p.ID, oneLine(r.Err))
			t.Fatalf("%s", r.Err)
		}
		if r.Skipped {
			fmt.Printf("REPLAY-SKIPPED property=%s (case outside the property's domain or in an active exclusion class)\n", p.ID)
			return
		}
		fmt.Printf("REPLAY-OK property=%s\n", p.ID)
		return
	}
	if mp := os.Getenv("VERIF_MINIMIZE"); mp != "" {
		minimize(t, p, mp)
		return
	}
	survey := os.Getenv("VERIF_SURVEY") != ""
	rapid.Check(t, func(rt *rapid.T) {
		c := p.Gen(rt)
		r := safeCheck(p, c)
		Record(p.ID, c, r)
		if r.Err != "" && survey {
			surveyAdd(c, r.Err)
			return
		}
		if r.Err != "" {
			path := SaveReplay(p.ID, c, r.Err)
			rt.Fatalf("property %s violated (replay %s): %s", p.ID, path, r.Err)
		}
	})
	if survey {
		surveyDump(p)
	}
}

// Each runs the property over one enumerated case (no rapid); it returns
// false when the case failed. Use it inside loops of exhaustive sub-runs.
func Each[C any](t *testing.T, p Prop[C], c C) bool {
	r := safeCheck(p, c)
	Record(p.ID, c, r)
	if r.Err != "" {
		path := SaveReplay(p.ID, c, r.Err)
		t.Errorf("property %s violated (replay %s): %s", p.ID, path, r.Err)
		return false
	}
	return true
}

func safeCheck[C any](p Prop[C], c C) (r Result) {
	defer func() {
		if e := recover(); e != nil {
			r = Result{Err: fmt.Sprintf("harness or code under test panicked outside a guarded call: %v", e)}
		}
	}()
	return p.Check(c)
}

func oneLine(s string) string {
	s = strings.ReplaceAll(s, "\n", "\\n")
	if len(s) > 400 {
		s = s[:400] + "..."
	}
	return s
}

// failKind identifies the kind of a failure: the first line of the message
// with digits removed (so positions and counts do not matter) and quoted
// excerpts of the case dropped.
func failKind(msg string) string {
	if i := strings.IndexByte(msg, '\n'); i >= 0 {
		msg = msg[:i]
	}
	var sb strings.Builder
	inq := false
	for i := 0; i < len(msg); i++ {
		c := msg[i]
		switch {
		case c == '"' && (i == 0 || msg[i-1] != '\\'):
			inq = !inq
		case inq || (c >= '0' && c <= '9'):
		default:
			sb.WriteByte(c)
		}
	}
	return sb.String()
}

// minimize shrinks the text of a saved failing case by delta debugging
// (chunks of lines, then chunks of bytes), keeping the failure kind, and
// rewrites the replay file in place.
func minimize[C any](t *testing.T, p Prop[C], path string) {
	var c C
	if err := LoadReplay(path, &c); err != nil {
		t.Fatalf("minimize: %v", err)
	}
	c2, r, ok := minimizeCase(p, c)
	if !ok {
		fmt.Printf("MINIMIZE property=%s: nothing to do\n", p.ID)
		return
	}
	js := MarshalCase(c2)
	doc := map[string]any{}
	if b, err := os.ReadFile(path); err == nil {
		json.Unmarshal(b, &doc)
	}
	doc["case"] = json.RawMessage(js)
	doc["message"] = r.Err
	doc["minimized"] = true
	out, _ := json.MarshalIndent(doc, "", " ")
	os.WriteFile(path, out, 0o644)
	fmt.Printf("MINIMIZE property=%s: text reduced to %d bytes\n", p.ID, len(*p.Text(&c2)))
}

func minimizeCase[C any](p Prop[C], c C) (C, Result, bool) {
	if p.Text == nil {
		return c, Result{}, false
	}
	r0 := safeCheck(p, c)
	if r0.Err == "" {
		return c, r0, false
	}
	kind := failKind(r0.Err)
	budget := 4000
	if b, err := strconv.Atoi(os.Getenv("VERIF_MINBUDGET")); err == nil && b > 0 {
		budget = b // expensive checks (one shell per evaluation) lower it
	}
	clone := func() C {
		var c2 C
		UnmarshalCase(MarshalCase(c), &c2)
		return c2
	}
	fails := func(s string) bool {
		if budget <= 0 {
			return false
		}
		budget--
		c2 := clone()
		*p.Text(&c2) = s
		r := safeCheck(p, c2)
		return r.Err != "" && failKind(r.Err) == kind
	}
	cur := *p.Text(&c)
	split := func(s string, lines bool) []string {
		if lines {
			return strings.SplitAfter(s, "\n")
		}
		out := make([]string, 0, len(s))
		for i := 0; i < len(s); i++ {
			out = append(out, s[i:i+1])
		}
		return out
	}
	for _, lines := range []bool{true, false} {
		parts := split(cur, lines)
		n := 2
		for len(parts) >= 2 && budget > 0 {
			chunk := (len(parts) + n - 1) / n
			reduced := false
			for i := 0; i < len(parts); i += chunk {
				end := min(len(parts), i+chunk)
				cand := strings.Join(parts[:i], "") + strings.Join(parts[end:], "")
				if fails(cand) {
					parts = append(append([]string{}, parts[:i]...), parts[end:]...)
					n = max(n-1, 2)
					reduced = true
					break
				}
			}
			if !reduced {
				if chunk == 1 {
					break
				}
				n = min(n*2, len(parts))
			}
		}
		cur = strings.Join(parts, "")
	}
	c2 := clone()
	*p.Text(&c2) = cur
	r := safeCheck(p, c2)
	if r.Err == "" {
		return c, r0, false
	}
	return c2, r, true
}

// JSON cannot hold invalid UTF-8, but shell source under test can: strings
// that are not valid UTF-8 are stored as "\x00verif-b64:<base64>".
const b64Marker = "\x00verif-b64:"

// MarshalCase encodes a case for a replay file or for hashing.
func MarshalCase(c any) []byte {
	v := reflect.ValueOf(c)
	cp := reflect.New(v.Type()).Elem()
	copyEnc(cp, v, true)
	js, _ := json.Marshal(cp.Interface())
	return js
}

// UnmarshalCase is the inverse of MarshalCase; c must be a pointer.
func UnmarshalCase(js []byte, c any) error {
	if err := json.Unmarshal(js, c); err != nil {
		return err
	}
	v := reflect.ValueOf(c).Elem()
	cp := reflect.New(v.Type()).Elem()
	copyEnc(cp, v, false)
	v.Set(cp)
	return nil
}

func copyEnc(dst, src reflect.Value, enc bool) {
	switch src.Kind() {
	case reflect.String:
		s := src.String()
		if enc && !utf8.ValidString(s) {
			s = b64Marker + base64.StdEncoding.EncodeToString([]byte(s))
		} else if !enc && strings.HasPrefix(s, b64Marker) {
			if b, err := base64.StdEncoding.DecodeString(s[len(b64Marker):]); err == nil {
				s = string(b)
			}
		}
		dst.SetString(s)
	case reflect.Struct:
		for i := 0; i < src.NumField(); i++ {
			if dst.Field(i).CanSet() {
				copyEnc(dst.Field(i), src.Field(i), enc)
			}
		}
	case reflect.Slice:
		if src.IsNil() {
			return
		}
		n := reflect.MakeSlice(src.Type(), src.Len(), src.Len())
		for i := 0; i < src.Len(); i++ {
			copyEnc(n.Index(i), src.Index(i), enc)
		}
		dst.Set(n)
	case reflect.Pointer:
		if src.IsNil() {
			return
		}
		n := reflect.New(src.Type().Elem())
		copyEnc(n.Elem(), src.Elem(), enc)
		dst.Set(n)
	case reflect.Map:
		if src.IsNil() {
			return
		}
		n := reflect.MakeMap(src.Type())
		for _, k := range src.MapKeys() {
			e := reflect.New(src.Type().Elem()).Elem()
			copyEnc(e, src.MapIndex(k), enc)
			n.SetMapIndex(k, e)
		}
		dst.Set(n)
	default:
		dst.Set(src)
	}
}
