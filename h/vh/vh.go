// Package vh is the shared harness glue: it runs a property over generated
// cases (rapid) or enumerated cases, records what was explored for the
// evidence file, writes a replay file for every failure, and re-runs a saved
// case without the library.
//
// Environment contract (set by /verif/check):
//
//	VERIF_STATS    path of the JSON stats file this process writes at exit
//	VERIF_REPLAYDIR directory where failing cases are written
//	VERIF_REPLAY   path of a case file to re-run (replay mode, no generation)
//	VERIF_EXCLUDE  comma separated ids of known findings whose exclusion
//	               class is active
//	VERIF_SHARD    "i/n" for enumerations split across workers
//	VERIF_TIER     quick | thorough
package vh

import (
	"crypto/sha256"
	"encoding/binary"
	"encoding/hex"
	"encoding/json"
	"fmt"
	"hash/fnv"
	"os"
	"path/filepath"
	"sort"
	"strconv"
	"strings"
	"sync"
	"testing"

	"pgregory.net/rapid"
)

// Result is what a property reports for one case.
type Result struct {
	// Err is empty when the property held.
	Err string
	// Nontrivial says whether the case satisfies the property's stated
	// non-triviality rule.
	Nontrivial bool
	// Classes are labels counted into the evidence histogram.
	Classes []string
	// Skipped marks a case that was outside the property's domain
	// (counted, never a pass).
	Skipped bool
	// Key overrides the identity used to count distinct cases.
	Key string
}

// Fail builds a failing result.
func Fail(format string, args ...any) Result {
	return Result{Err: fmt.Sprintf(format, args...)}
}

type stats struct {
	mu          sync.Mutex
	Property    string         `json:"property"`
	Evaluations int64          `json:"evaluations"`
	Skipped     int64          `json:"skipped"`
	Classes     map[string]int `json:"classes"`
	Samples     []sample       `json:"samples"`
	Failures    []string       `json:"failures"`
	Exhaustive  bool           `json:"exhaustive"`
	hashes      map[uint64]struct{}
}

type sample struct {
	H    uint64          `json:"h"`
	Case json.RawMessage `json:"case"`
}

var (
	st     *stats
	stOnce sync.Once
)

const maxSamples = 8

func getStats(id string) *stats {
	stOnce.Do(func() {
		st = &stats{Property: id, Classes: map[string]int{}, hashes: map[uint64]struct{}{}}
	})
	return st
}

func hash64(b []byte) uint64 {
	h := fnv.New64a()
	h.Write(b)
	return h.Sum64()
}

// Record adds one evaluated case to the statistics.
func Record(id string, c any, r Result) {
	s := getStats(id)
	s.mu.Lock()
	defer s.mu.Unlock()
	s.Evaluations++
	if r.Skipped {
		s.Skipped++
	}
	for _, cl := range r.Classes {
		s.Classes[cl]++
	}
	if r.Nontrivial && !r.Skipped {
		var h uint64
		var js []byte
		if r.Key != "" {
			h = hash64([]byte(r.Key))
		} else {
			js, _ = json.Marshal(c)
			h = hash64(js)
		}
		if _, ok := s.hashes[h]; !ok {
			s.hashes[h] = struct{}{}
			// keep the samples with the smallest hashes: deterministic
			// and spread over the run.
			if len(s.Samples) < maxSamples || h < s.Samples[len(s.Samples)-1].H {
				if js == nil {
					js, _ = json.Marshal(c)
				}
				if len(js) < 4000 {
					s.Samples = append(s.Samples, sample{h, js})
					sort.Slice(s.Samples, func(i, j int) bool { return s.Samples[i].H < s.Samples[j].H })
					if len(s.Samples) > maxSamples {
						s.Samples = s.Samples[:maxSamples]
					}
				}
			}
		}
	}
}

// Count adds n to a histogram class without counting an evaluation.
func Count(id, class string, n int) {
	s := getStats(id)
	s.mu.Lock()
	s.Classes[class] += n
	s.mu.Unlock()
}

// SetExhaustive marks the run as a complete enumeration of a finite space.
func SetExhaustive(id string) {
	s := getStats(id)
	s.mu.Lock()
	s.Exhaustive = true
	s.mu.Unlock()
}

// Flush writes the statistics file; call it from TestMain after m.Run.
func Flush() {
	if st == nil {
		return
	}
	path := os.Getenv("VERIF_STATS")
	if path == "" {
		return
	}
	st.mu.Lock()
	defer st.mu.Unlock()
	f, err := os.Create(path)
	if err != nil {
		fmt.Fprintln(os.Stderr, "vh: cannot write stats:", err)
		return
	}
	defer f.Close()
	json.NewEncoder(f).Encode(st)
	hf, err := os.Create(path + ".hashes")
	if err != nil {
		return
	}
	defer hf.Close()
	buf := make([]byte, 0, 8*len(st.hashes))
	for h := range st.hashes {
		buf = binary.LittleEndian.AppendUint64(buf, h)
	}
	hf.Write(buf)
}

// Main is a TestMain body that flushes statistics.
func Main(m *testing.M) {
	code := m.Run()
	Flush()
	os.Exit(code)
}

// Excluded reports whether the exclusion class of the known finding with the
// given id is active (the finding is listed as known, not fixed).
func Excluded(id string) bool {
	for _, e := range strings.Split(os.Getenv("VERIF_EXCLUDE"), ",") {
		if e == id {
			return true
		}
	}
	return false
}

// Thorough reports whether the thorough tier is running.
func Thorough() bool { return os.Getenv("VERIF_TIER") == "thorough" }

// Scale returns q in the quick tier and t in the thorough tier.
func Scale(q, t int) int {
	if Thorough() {
		return t
	}
	return q
}

// Shard returns (index, count) for enumerations split over workers.
func Shard() (int, int) {
	s := os.Getenv("VERIF_SHARD")
	a, b, ok := strings.Cut(s, "/")
	if !ok {
		return 0, 1
	}
	i, _ := strconv.Atoi(a)
	n, _ := strconv.Atoi(b)
	if n <= 0 {
		return 0, 1
	}
	return i, n
}

// SaveReplay writes the failing case to the replay directory and returns the
// path. The file name is the content hash, so shrinking overwrites nothing
// and the driver picks the last one written (listed in the stats).
func SaveReplay(id string, c any, msg string) string {
	dir := os.Getenv("VERIF_REPLAYDIR")
	if dir == "" {
		dir = filepath.Join(os.TempDir(), "verif-replays", id)
	}
	os.MkdirAll(dir, 0o755)
	js, _ := json.Marshal(c)
	doc := map[string]any{"property": id, "case": json.RawMessage(js), "message": msg}
	out, _ := json.MarshalIndent(doc, "", " ")
	sum := sha256.Sum256(js)
	path := filepath.Join(dir, hex.EncodeToString(sum[:8])+".json")
	os.WriteFile(path, out, 0o644)
	s := getStats(id)
	s.mu.Lock()
	s.Failures = append(s.Failures, path)
	s.mu.Unlock()
	return path
}

// LoadReplay reads a case saved by SaveReplay (or a regress file of the same
// shape) into c.
func LoadReplay(path string, c any) error {
	b, err := os.ReadFile(path)
	if err != nil {
		return err
	}
	var doc struct {
		Case json.RawMessage `json:"case"`
	}
	if err := json.Unmarshal(b, &doc); err != nil {
		return err
	}
	if doc.Case == nil {
		return fmt.Errorf("%s: no \"case\" key", path)
	}
	return json.Unmarshal(doc.Case, c)
}

// Prop is one executable property over cases of type C. C must survive a JSON
// round trip (it is the replay format).
type Prop[C any] struct {
	ID    string
	Gen   func(t *rapid.T) C
	Check func(c C) Result
}

// Run drives the property: replay mode when VERIF_REPLAY is set, otherwise
// rapid generation (case count and PRNG value come from the -rapid.* flags the
// driver passes).
func Run[C any](t *testing.T, p Prop[C]) {
	if rp := os.Getenv("VERIF_REPLAY"); rp != "" {
		var c C
		if err := LoadReplay(rp, &c); err != nil {
			t.Fatalf("replay: %v", err)
		}
		r := p.Check(c)
		if r.Err != "" {
			fmt.Printf("REPLAY-FAIL property=%s %s\n", p.ID, oneLine(r.Err))
			t.Fatalf("%s", r.Err)
		}
		fmt.Printf("REPLAY-OK property=%s\n", p.ID)
		return
	}
	rapid.Check(t, func(rt *rapid.T) {
		c := p.Gen(rt)
		r := safeCheck(p, c)
		Record(p.ID, c, r)
		if r.Err != "" {
			path := SaveReplay(p.ID, c, r.Err)
			rt.Fatalf("property %s violated (replay %s): %s", p.ID, path, r.Err)
		}
	})
}

// Each runs the property over one enumerated case (no rapid); it returns
// false when the case failed. Use it inside loops of exhaustive sub-runs.
func Each[C any](t *testing.T, p Prop[C], c C) bool {
	r := safeCheck(p, c)
	Record(p.ID, c, r)
	if r.Err != "" {
		path := SaveReplay(p.ID, c, r.Err)
		t.Errorf("property %s violated (replay %s): %s", p.ID, path, r.Err)
		return false
	}
	return true
}

func safeCheck[C any](p Prop[C], c C) (r Result) {
	defer func() {
		if e := recover(); e != nil {
			r = Result{Err: fmt.Sprintf("harness or code under test panicked outside a guarded call: %v", e)}
		}
	}()
	return p.Check(c)
}

func oneLine(s string) string {
	s = strings.ReplaceAll(s, "\n", "\\n")
	if len(s) > 400 {
		s = s[:400] + "..."
	}
	return s
}
