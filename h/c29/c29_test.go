// C29: Running a program leaves the tree and Env untouched.
//
// A case is a small runnable program (biased to aliases with a trailing blank,
// brace expansion, declare with expanded arguments, here-documents, functions,
// traps, arrays, and writes to variables that exist in the supplied Env) plus
// the Env pairs. The parsed tree is encoded (typed JSON) and printed before
// and after Runner.Run; the Environ given to interp.Env is a recording
// wrapper that also implements expand.WriteEnviron. The same tree is then run
// a second time on a fresh Runner.
package c29

import (
	"bytes"
	"fmt"
	"regexp"
	"strings"
	"sync"
	"testing"
	"time"

	"mvdan.cc/sh/v3/expand"
	"mvdan.cc/sh/v3/interp"
	"mvdan.cc/sh/v3/syntax"
	"mvdan.cc/sh/v3/syntax/typedjson"
	"pgregory.net/rapid"

	"verifh/oracle"
	"verifh/vh"
)

func TestMain(m *testing.M) { vh.Main(m) }

type Case struct {
	Src string   `json:"src"`
	Env []string `json:"env"` // NAME=value pairs added to the confined environment
}

var (
	words  = []string{"x", "y", "zz", "ab", "q1"}
	evars  = []string{"E1", "E2", "E3"}
	evals  = []string{"one", "two", "three", "a b", ""}
	pick   = func(t *rapid.T, label string, ss ...string) string { return rapid.SampledFrom(ss).Draw(t, label) }
	ev     = func(t *rapid.T) string { return rapid.SampledFrom(evars).Draw(t, "evar") }
	w      = func(t *rapid.T) string { return rapid.SampledFrom(words).Draw(t, "word") }
	braces = []string{"{a,b}", "{a,b}{1,2}", "x{1..3}y", "{a,b,c}", "{1..4..2}", "p{q,r{s,t}}", "{a,b}$E1", "$E2{1,2}", "{,x}y"}
)

func genBrace(t *rapid.T) string { return rapid.SampledFrom(braces).Draw(t, "brace") }

// snippet kinds; every snippet is a self-contained group of lines.
func genSnippet(t *rapid.T) string {
	kind := rapid.IntRange(0, 9).Draw(t, "group")
	switch kind {
	case 0: // aliases
		return pick(t, "alias",
			"alias e='echo '\nalias g='hello world'\ne g",
			"alias e='echo '\nalias g='hello "+genBrace(t)+"'\ne e g",
			"alias e='echo '\nalias g=$E1\ne g "+w(t),
			"alias ll='echo "+genBrace(t)+"'\nll "+w(t)+"\nll",
			"alias e='echo ' g='one  two'\nfa() { e g \"$@\"; }\nfa "+w(t),
			"alias p='printf %s\\\\n '\nalias q='"+w(t)+" "+w(t)+"'\np q q",
			"alias e='echo '\ne "+w(t)+"\nunalias e\ne "+w(t),
			"alias a1='a2 ' a2='echo ' a3="+w(t)+"\na1 a3 a3",
			"alias x='E1=ali echo'\nx $E1",
			"alias e='echo '\nalias e\ne e",
		)
	case 1: // brace expansion
		b := genBrace(t)
		return pick(t, "brace",
			"echo "+b,
			"echo "+b+" "+genBrace(t),
			"for i in "+b+" "+w(t)+"; do echo \"i=$i\"; done",
			"v="+b+"\necho \"$v\"",
			"arr=("+b+" "+w(t)+")\necho \"${#arr[@]} ${arr[@]}\"",
			"echo \""+b+"\" '"+b+"' "+b,
			"fb() { echo \"$#:$*\"; }\nfb "+b+" "+b,
			"set -- "+b+"\necho \"$# $2\"",
			"case "+w(t)+" in "+w(t)+") echo "+b+";; *) echo other "+b+";; esac",
			"read -r r1 r2 <<< \""+w(t)+" "+w(t)+"\"\necho $r1"+b,
		)
	case 2: // declare with expanded arguments
		n := ev(t)
		return pick(t, "declare",
			"x='A=1 B=2'\ndeclare $x\necho \"$A $B\"",
			"y="+n+"=decl\ndeclare $y\necho \"$"+n+"\"",
			"y="+n+"=exp\nexport $y\necho \"$"+n+"\"",
			"z='"+n+" NEW1'\nexport $z\ndeclare -p "+n,
			"z="+n+"\nreadonly $z\n"+n+"=again\necho \"$"+n+"\"",
			"x='L1=7 L2=8'\nfd() { local $x; echo \"$L1 $L2\"; }\nfd\necho \"${L1-unset}\"",
			"declare {P,Q}=1\necho \"$P $Q\"",
			"x='-x "+n+"'\ndeclare $x\ndeclare -p "+n,
			"k=KEY\ndeclare \"$k=v $E1\"\necho \"$KEY\"",
			"x='A=1 B=2'\nfor i in 1 2; do declare $x; A=$i; done\necho \"$A $B\"",
		)
	case 3: // here-documents (builtin readers, sometimes cat)
		n := ev(t)
		return pick(t, "hdoc",
			"while read -r l; do echo \"[$l]\"; done <<EOF\nv=$"+n+" "+genBrace(t)+"\n$(echo sub) $((1+2))\nEOF",
			"while read -r l; do echo \"[$l]\"; done <<-EOF\n\tindented $"+n+"\n\t\ttwo\n\tEOF",
			"read -r l <<'EOF'\n$"+n+" raw "+genBrace(t)+"\nEOF\necho \"$l\"",
			"fh() {\nread -r l <<EOF\nin func $1 $"+n+"\nEOF\necho \"$l\"\n}\nfh "+w(t)+"\nfh "+w(t),
			"cat <<EOF\ncat $"+n+" "+w(t)+"\nEOF",
			"for i in 1 2; do read -r l <<EOF\nloop $i $"+n+"\nEOF\necho \"$l\"; done",
			"read -r a b <<EOF\n${"+n+":-dflt} ${"+n+"/o/0}\nEOF\necho \"$a|$b\"",
			"x=$(while read -r l; do echo \"<$l>\"; done <<EOF\ninner $"+n+"\nEOF\n)\necho \"$x\"",
		)
	case 4: // functions
		n := ev(t)
		return pick(t, "func",
			"f1() { echo \"f:$1:$#\"; "+n+"=inf; local E2=loc; echo \"$E2\"; }\nf1 a b\necho \"$"+n+" $E2\"",
			"rec() { if (( $1 > 0 )); then echo $1; rec $(( $1 - 1 )); fi; }\nrec 3",
			"f2() { local "+n+"; "+n+"=l; echo \"$"+n+"\"; unset "+n+"; echo \"${"+n+"-gone}\"; }\nf2\necho \"${"+n+"-unset}\"",
			"f3() { return 3; }\nf3\necho $?\nf3() { echo redefined; }\nf3",
			n+"=tmp f4 2>/dev/null\nf4() { echo \"in:$"+n+"\"; }\n"+n+"=tmp f4\necho \"out:$"+n+"\"",
			"f5() { "+n+"+=more; export "+n+"; }\nf5; f5\necho \"$"+n+"\"",
			"f6() { echo \"$@\"; set -- z; echo \"$@\"; }\nf6 "+genBrace(t)+"\necho \"$#\"",
		)
	case 5: // traps
		n := ev(t)
		return pick(t, "trap",
			"trap 'echo bye $"+n+"' EXIT",
			"trap 'echo err' ERR\nfalse\ntrue",
			"trap '"+n+"=trap; echo \"$"+n+"\"' EXIT",
			"trap 'echo "+genBrace(t)+"' EXIT\ntrap",
			"trap 'echo first' EXIT\ntrap 'echo second' EXIT",
			"trap 'echo e:$?' ERR\nft() { false; }\nft\necho after",
			"trap 'echo gone' EXIT\ntrap - EXIT",
		)
	case 6: // arrays
		n := ev(t)
		return pick(t, "array",
			"a=(x "+genBrace(t)+" $"+n+")\necho \"${#a[@]}\" \"${a[@]}\"",
			"a=(p q r)\na[1]=$"+n+"\na+=(z)\nunset 'a[0]'\necho \"${a[@]}\" \"${!a[@]}\"",
			"declare -A m=([k]=v)\nm[j]=$"+n+"\necho \"${m[k]} ${m[j]}\"",
			n+"=(now an array)\necho \"${"+n+"[1]} ${#"+n+"[@]}\"",
			"a=("+w(t)+" "+w(t)+")\nfor x in \"${a[@]}\"; do echo \"$x\"; done\necho \"${a[@]:1}\"",
			"a=([3]=c [1]=a)\na[2]=b\necho \"${a[@]}\" \"${!a[@]}\"",
			"read -r -a ra <<< \"$"+n+" "+w(t)+"\"\necho \"${#ra[@]} ${ra[0]}\"",
		)
	case 7, 8: // variables that exist in Env
		n, v := ev(t), w(t)
		return pick(t, "envop",
			n+"="+v+"\necho \"$"+n+"\"",
			n+"+="+v+"\necho \"$"+n+"\"",
			"export "+n+"="+v+"\necho \"$"+n+"\"",
			"export "+n+"\necho \"$"+n+"\"",
			"unset "+n+"\necho \"${"+n+"-unset}\"",
			"unset E1 E2 E3\necho \"${E1-u}${E2-u}${E3-u}\"",
			"readonly "+n+"\n"+n+"="+v+"\necho \"$"+n+"\"",
			"declare -x E9="+v+"\necho \"$E9\"",
			n+"=tmp eval 'echo $"+n+"'\necho \"$"+n+"\"",
			"for "+n+" in a "+v+"; do :; done\necho \"$"+n+"\"",
			"read "+n+" <<< "+v+"\necho \"$"+n+"\"",
			": ${E4:=dflt} ${"+n+":=no}\necho \"$E4 $"+n+"\"",
			"(("+n+"=3))\necho \"$"+n+"\"",
			"("+n+"=sub; echo \"$"+n+"\")\necho \"$"+n+"\"",
			"x=$("+n+"=y; echo \"$"+n+"\")\necho \"$x $"+n+"\"",
			"{ "+n+"=bg; } &\nwait\necho \"$"+n+"\"",
			"echo "+v+" | { read "+n+"; echo \"$"+n+"\"; }\necho \"$"+n+"\"",
			"set -a\nN1="+v+"\n"+n+"="+v+"\nset +a\ndeclare -p N1 "+n,
			"eval '"+n+"=ev'\necho \"$"+n+"\"",
			"unset -v "+n+"\n"+n+"=back\necho \"$"+n+"\"",
			"declare -p "+n+"\necho \"${"+n+"@Q}\"",
			"echo \"$E1|$E2|$E3\"",
			"env | grep '^E[0-9]=' | sort",
			n+"="+v+" env | grep '^"+n+"='\necho \"$"+n+"\"",
			"getopts ab opt -a\necho \"$opt $OPTIND\"",
			"IFS= read -r "+n+" <<< ' sp '\necho \"[$"+n+"]\"",
			"OLD=$"+n+"\n"+n+"=\necho \"[$"+n+"][$OLD]\"",
			"HOME=/nonexistent\nPATH=$PATH\necho ok",
		)
	default: // control flow and the rest
		n := ev(t)
		return pick(t, "misc",
			"if [[ $"+n+" == one ]]; then echo yes; else echo no; fi",
			"case $"+n+" in t*) echo t;; o*) echo o;; *) echo other;; esac",
			"i=0\nwhile (( i < 3 )); do i=$((i+1)); done\necho $i",
			"set -- a b c\nshift\necho \"$1 $#\"",
			"false\necho $?",
			"shopt -s expand_aliases",
			"shopt -u expand_aliases",
			"echo \"${"+n+":-d} ${"+n+":+alt} ${#"+n+"}\"",
			"exit 3",
			"x=$(echo "+genBrace(t)+")\necho \"$x\"",
			"[ -n \"$"+n+"\" ] && echo nonempty || echo empty",
		)
	}
}

func gen(t *rapid.T) Case {
	var c Case
	for _, n := range evars {
		if rapid.IntRange(0, 4).Draw(t, "have") != 0 {
			c.Env = append(c.Env, n+"="+rapid.SampledFrom(evals).Draw(t, "eval"))
		}
	}
	var b strings.Builder
	if rapid.IntRange(0, 4).Draw(t, "expand_aliases") != 0 {
		b.WriteString("shopt -s expand_aliases\n")
	}
	n := rapid.IntRange(1, 7).Draw(t, "nsnip")
	for i := 0; i < n; i++ {
		b.WriteString(genSnippet(t))
		b.WriteString("\n")
	}
	c.Src = b.String()
	return c
}

// recEnv is the Environ handed to the Runner: reads go to a ListEnviron
// snapshot, writes are recorded (and not performed).
type recEnv struct {
	base expand.Environ
	mu   sync.Mutex
	sets []string
}

func (e *recEnv) Get(name string) expand.Variable { return e.base.Get(name) }

func (e *recEnv) Each(f func(string, expand.Variable) bool) { e.base.Each(f) }

func (e *recEnv) Set(name string, vr expand.Variable) error {
	e.mu.Lock()
	e.sets = append(e.sets, fmt.Sprintf("Set(%q, set=%v kind=%d %q)", name, vr.Set, vr.Kind, vr.String()))
	e.mu.Unlock()
	return nil
}

var _ expand.WriteEnviron = (*recEnv)(nil)

func eachSnapshot(e expand.Environ) string {
	var b strings.Builder
	e.Each(func(n string, v expand.Variable) bool {
		fmt.Fprintf(&b, "%s=%q set=%v exp=%v ro=%v local=%v kind=%d list=%q\n", n, v.Str, v.Set, v.Exported, v.ReadOnly, v.Local, v.Kind, v.List)
		return true
	})
	return b.String()
}

func treeForms(f *syntax.File) (js, printed string, err error) {
	var jb, pb bytes.Buffer
	if err := typedjson.Encode(&jb, f); err != nil {
		return "", "", fmt.Errorf("typedjson.Encode: %v", err)
	}
	if err := syntax.NewPrinter().Print(&pb, f); err != nil {
		return "", "", fmt.Errorf("Print: %v", err)
	}
	return jb.String(), pb.String(), nil
}

var (
	reAlias  = regexp.MustCompile(`\balias\b`)
	reBrace  = regexp.MustCompile(`\{[^{}'" ]*(,|\.\.)[^{}'" ]*\}`)
	reEnvSet = regexp.MustCompile(`\b(E[123])(\+?=|=\()|(unset|export|readonly|read|for|declare -x|unset -v|declare) (-r )?(-a )?E[123]\b|\(\(E[123]=|y=E[123]=|z='?E[123]|\$\{E[123]:=`)
)

func firstDiff(a, b string) string {
	i := 0
	for i < len(a) && i < len(b) && a[i] == b[i] {
		i++
	}
	lo := max(0, i-60)
	return fmt.Sprintf("at byte %d: before %q, after %q", i, a[lo:min(len(a), i+60)], b[lo:min(len(b), i+60)])
}

func check(c Case) (res vh.Result) {
	file, err := syntax.NewParser(syntax.Variant(syntax.LangBash)).Parse(strings.NewReader(c.Src), "")
	if err != nil {
		return vh.Result{Skipped: true, Classes: []string{"parse-fail"}}
	}
	usesAlias := reAlias.MatchString(c.Src)
	usesBrace := reBrace.MatchString(c.Src)
	writesEnv := false
	for _, m := range reEnvSet.FindAllString(c.Src, -1) {
		for _, p := range c.Env {
			name, _, _ := strings.Cut(p, "=")
			if strings.Contains(m, name) {
				writesEnv = true
			}
		}
	}
	if strings.Contains(c.Src, "unset E1 E2 E3") && len(c.Env) > 0 {
		writesEnv = true
	}
	res.Nontrivial = usesAlias || usesBrace || writesEnv
	for _, cl := range []struct {
		name string
		on   bool
	}{{"alias", usesAlias}, {"brace", usesBrace}, {"writes-env-var", writesEnv},
		{"heredoc", strings.Contains(c.Src, "<<")}, {"trap", strings.Contains(c.Src, "trap ")},
		{"declare-expanded", strings.Contains(c.Src, "declare $") || strings.Contains(c.Src, "export $") || strings.Contains(c.Src, "local $")}} {
		if cl.on {
			res.Classes = append(res.Classes, cl.name)
		}
	}
	js0, pr0, err := treeForms(file)
	if err != nil {
		return vh.Result{Skipped: true, Classes: []string{"encode-fail(C15)"}}
	}
	dir, err := oracle.NewDir()
	if err != nil {
		return vh.Result{Skipped: true, Classes: []string{"infra"}}
	}
	defer oracle.RemoveDir(dir)

	var outs [2]oracle.InterpResult
	for run := 0; run < 2; run++ {
		env := &recEnv{base: expand.ListEnviron(oracle.Env(dir, c.Env...)...)}
		snap0 := eachSnapshot(env)
		r := oracle.RunInterpFile(file, oracle.InterpOpts{Dir: dir, Timeout: 6 * time.Second, Extra: []interp.RunnerOption{interp.Env(env)}})
		outs[run] = r
		if r.Err != nil {
			return vh.Result{Skipped: true, Classes: []string{"infra"}}
		}
		if r.Panic != nil {
			return vh.Result{Skipped: true, Classes: []string{"interp-panic(C28)"}}
		}
		if r.Timeout {
			return vh.Result{Skipped: true, Classes: []string{"interp-timeout"}}
		}
		if len(env.sets) > 0 {
			return vh.Fail("Run wrote to the Environ given through interp.Env (run %d): %s\nprogram:\n%s", run+1, strings.Join(env.sets, "; "), c.Src)
		}
		if snap1 := eachSnapshot(env); snap1 != snap0 {
			return vh.Fail("the supplied Environ yields other variables after Run (run %d): %s\nprogram:\n%s", run+1, firstDiff(snap0, snap1), c.Src)
		}
		js1, pr1, err := treeForms(file)
		if err != nil {
			return vh.Fail("the tree cannot be encoded/printed any more after Run (run %d): %v\nprogram:\n%s", run+1, err, c.Src)
		}
		if js1 != js0 {
			return vh.Fail("Run modified the syntax tree, typed JSON differs (run %d) %s\nprogram:\n%s", run+1, firstDiff(js0, js1), c.Src)
		}
		if pr1 != pr0 {
			return vh.Fail("Run modified the syntax tree, printed form differs (run %d) %s\nprogram:\n%s", run+1, firstDiff(pr0, pr1), c.Src)
		}
		if len(r.Denied) > 0 {
			res.Classes = append(res.Classes, "denied-open-or-exec")
		}
	}
	if string(outs[0].Stdout) != string(outs[1].Stdout) || outs[0].Status != outs[1].Status {
		return vh.Fail("the same tree behaves differently on a second fresh Runner: first status=%d stdout=%q, second status=%d stdout=%q\nprogram:\n%s",
			outs[0].Status, outs[0].Stdout, outs[1].Status, outs[1].Stdout, c.Src)
	}
	if len(outs[0].Stdout) > 0 {
		res.Classes = append(res.Classes, "has-output")
	}
	return res
}

var prop = vh.Prop[Case]{ID: "C29", Gen: gen, Check: check, Text: func(c *Case) *string { return &c.Src }}

func TestC29(t *testing.T) { vh.Run(t, prop) }
