// C35: shfmt -w replaces files atomically.
//
// Fault injection at enumerated syscall boundaries: cmd/ptkill runs
// `shfmt -w` under ptrace and SIGKILLs it on entry to a chosen syscall; the
// harness then inspects the file system. See spec.json for the exact claim.
package c35

import (
	"bufio"
	"bytes"
	"context"
	"crypto/sha256"
	"encoding/hex"
	"fmt"
	"os"
	"os/exec"
	"path/filepath"
	"sort"
	"strconv"
	"strings"
	"sync"
	"syscall"
	"testing"
	"time"

	"verifh/vh"
)

func TestMain(m *testing.M) { vh.Main(m) }

// Case is one execution of `shfmt -w`: a scenario (what is on disk), and the
// point at which the process is killed.
type Case struct {
	// Kind: regular | symlink | symlink-walk | fifo | fifo-walk | dir
	Kind string `json:"kind"`
	// Gen: shrink | grow | mixed | formatted | literal. Content of the one
	// regular file of the scenario is content(Gen, Size, Seed) or Lit.
	Gen  string `json:"gen"`
	Size int    `json:"size"`
	Seed int    `json:"seed"`
	Lit  string `json:"lit,omitempty"`
	// Mode of that regular file, octal ("0644").
	Mode string `json:"mode"`
	// Tmp: "tmpdir" (TMPDIR is a usable scratch directory on the same file
	// system, where renameio puts its temporary file) or "fallback" (TMPDIR
	// does not exist, the temporary file is created next to the target).
	Tmp string `json:"tmp"`
	// K > 0: kill on entry to the K-th syscall counted over all threads.
	// J > 0: kill on entry to the J-th file syscall (path/fd taking calls
	// only; a deterministic sequence). Both 0: the run is not killed.
	K int `json:"k"`
	J int `json:"j"`
}

var prop = vh.Prop[Case]{ID: "C35", Check: check}

// ---- content -----------------------------------------------------------------

// content is a deterministic function of (gen, size, seed): shell source of
// about size bytes. "shrink" lines get shorter when formatted, "grow" lines
// longer, "formatted" lines are already canonical.
func content(gen string, size, seed int) []byte {
	var b bytes.Buffer
	x := uint32(seed)*2654435761 + 12345
	next := func() uint32 { x = x*1664525 + 1013904223; return x >> 8 }
	line := func(i int) string {
		g := gen
		if g == "mixed" {
			g = []string{"shrink", "grow", "formatted"}[next()%3]
		}
		w := fmt.Sprintf("w%d_%d", i, next()%1000)
		switch g {
		case "shrink":
			return "   echo   \"" + w + "\"   >out ;   foo   |   bar\n"
		case "grow":
			return w + "|b|c&&d||e>f\n"
		default: // formatted
			return "echo \"" + w + "\" >out\n"
		}
	}
	for i := 0; ; i++ {
		l := line(i)
		if b.Len()+len(l) > size {
			break
		}
		b.WriteString(l)
	}
	if r := size - b.Len(); r >= 2 {
		// pad to the exact size with a comment (comments are kept as is)
		b.WriteString("#" + strings.Repeat("x", r-2) + "\n")
	}
	return b.Bytes()
}

func (c Case) data() []byte {
	if c.Gen == "literal" {
		return []byte(c.Lit)
	}
	return content(c.Gen, c.Size, c.Seed)
}

func (c Case) perm() (os.FileMode, error) {
	m, err := strconv.ParseUint(c.Mode, 8, 32)
	if err != nil || m > 0o777 {
		return 0, fmt.Errorf("bad mode %q", c.Mode)
	}
	return os.FileMode(m), nil
}

// ---- tools ---------------------------------------------------------------------

func binPath(name string) string {
	d := os.Getenv("VERIF_BIN")
	if d == "" {
		d = "/verif/.build"
	}
	return filepath.Join(d, name)
}

func scratch() string {
	if s := os.Getenv("VERIF_SCRATCH"); s != "" {
		return s
	}
	return os.TempDir()
}

var (
	fmtMu   sync.Mutex
	fmtMemo = map[[32]byte][]byte{}
)

// formatted returns `shfmt < data` run in an empty directory holding only a
// root EditorConfig file without sections: the expected output, obtained
// without the write path.
func formatted(data []byte) ([]byte, error) {
	key := sha256.Sum256(data)
	fmtMu.Lock()
	defer fmtMu.Unlock()
	if out, ok := fmtMemo[key]; ok {
		return out, nil
	}
	dir, err := os.MkdirTemp(scratch(), "c35fmt-")
	if err != nil {
		return nil, err
	}
	defer os.RemoveAll(dir)
	if err := os.WriteFile(filepath.Join(dir, ".editorconfig"), []byte("root = true\n"), 0o644); err != nil {
		return nil, err
	}
	ctx, cancel := context.WithTimeout(context.Background(), 60*time.Second)
	defer cancel()
	cmd := exec.CommandContext(ctx, binPath("shfmt"))
	cmd.Dir = dir
	cmd.Env = []string{"TMPDIR=" + dir, "HOME=" + dir, "NO_COLOR=1"}
	cmd.Stdin = bytes.NewReader(data)
	var stdout, stderr bytes.Buffer
	cmd.Stdout, cmd.Stderr = &stdout, &stderr
	if err := cmd.Run(); err != nil {
		return nil, fmt.Errorf("shfmt < file: %v: %s", err, stderr.String())
	}
	out := stdout.Bytes()
	fmtMemo[key] = out
	return out, nil
}

// ---- scenario --------------------------------------------------------------------

type entry struct {
	path string // relative to the target directory
	typ  byte   // 'f' regular, 'l' symlink, 'p' FIFO, 'd' directory
	data []byte
	perm os.FileMode
	link string
	// written: a completed run with exit status 0 must leave the formatted
	// bytes in this file.
	written bool
}

type scenario struct {
	entries []entry
	args    []string // arguments after `shfmt -w`
	names   []string // base names whose first mention opens the write window
}

func build(c Case) (scenario, error) {
	perm, err := c.perm()
	if err != nil {
		return scenario{}, err
	}
	data := c.data()
	ec := entry{path: ".editorconfig", typ: 'f', data: []byte("root = true\n"), perm: 0o644}
	small := content("shrink", 100, 7)
	switch c.Kind {
	case "regular":
		return scenario{
			entries: []entry{ec, {path: "t.sh", typ: 'f', data: data, perm: perm, written: true}},
			args:    []string{"t.sh"}, names: []string{"t.sh"}}, nil
	case "symlink":
		// an explicit symlink argument: shfmt documents that it refuses to
		// replace it ("refusing to atomically replace").
		return scenario{
			entries: []entry{ec, {path: "real.sh", typ: 'f', data: data, perm: perm},
				{path: "t.sh", typ: 'l', link: "real.sh"}},
			args: []string{"t.sh"}, names: []string{"t.sh", "real.sh"}}, nil
	case "symlink-walk":
		// a directory walk meets a symlink to a file outside the directory
		return scenario{
			entries: []entry{ec, {path: "../outside/real.sh", typ: 'f', data: data, perm: perm},
				{path: "link.sh", typ: 'l', link: "../outside/real.sh"},
				{path: "other.sh", typ: 'f', data: small, perm: 0o644, written: true}},
			args: []string{"."}, names: []string{"link.sh", "real.sh", "other.sh"}}, nil
	case "fifo":
		return scenario{
			entries: []entry{ec, {path: "t.sh", typ: 'p', perm: perm}},
			args:    []string{"t.sh"}, names: []string{"t.sh"}}, nil
	case "fifo-walk":
		return scenario{
			entries: []entry{ec, {path: "pipe.sh", typ: 'p', perm: perm},
				{path: "other.sh", typ: 'f', data: data, perm: perm, written: true}},
			args: []string{"."}, names: []string{"pipe.sh", "other.sh"}}, nil
	case "dir":
		// a directory whose name looks like a script
		return scenario{
			entries: []entry{ec, {path: "t.sh", typ: 'd', perm: 0o755},
				{path: "t.sh/inner.sh", typ: 'f', data: data, perm: perm, written: true}},
			args: []string{"t.sh"}, names: []string{"t.sh", "inner.sh"}}, nil
	}
	return scenario{}, fmt.Errorf("unknown kind %q", c.Kind)
}

func (s scenario) create(dir string) error {
	for _, e := range s.entries {
		p := filepath.Join(dir, e.path)
		if err := os.MkdirAll(filepath.Dir(p), 0o755); err != nil {
			return err
		}
		var err error
		switch e.typ {
		case 'f':
			if err = os.WriteFile(p, e.data, 0o600); err == nil {
				err = os.Chmod(p, e.perm)
			}
		case 'l':
			err = os.Symlink(e.link, p)
		case 'p':
			if err = syscall.Mkfifo(p, 0o600); err == nil {
				err = os.Chmod(p, e.perm)
			}
		case 'd':
			err = os.MkdirAll(p, e.perm)
		}
		if err != nil {
			return err
		}
	}
	return nil
}

// ---- one traced run -----------------------------------------------------------

type logLine struct {
	idx, fidx int
	name      string
	paths     []string
}

type runInfo struct {
	rc       int // ptkill's exit status
	n, nf    int // syscall entries / file syscall entries seen
	killed   bool
	timeout  bool
	status   int  // shfmt's exit status (completed runs)
	win      bool // some syscall named a file of the scenario: the window is open
	winK     int  // all-threads index of the first such syscall (0 with -fileonly)
	winJ     int  // its file-syscall index
	lastName string
	stderr   string
	lines    []logLine
}

func parseLog(path string, names []string) (ri runInfo, err error) {
	f, err := os.Open(path)
	if err != nil {
		return ri, err
	}
	defer f.Close()
	sc := bufio.NewScanner(f)
	sc.Buffer(make([]byte, 0, 64<<10), 1<<20)
	summary := false
	for sc.Scan() {
		l := sc.Text()
		if strings.HasPrefix(l, "# ") {
			for _, kv := range strings.Fields(l[2:]) {
				k, v, _ := strings.Cut(kv, "=")
				n, _ := strconv.Atoi(v)
				switch k {
				case "syscalls":
					ri.n = n
				case "file":
					ri.nf = n
				case "killed":
					ri.killed = n == 1
				case "status":
					ri.status = n
				case "timeout":
					ri.timeout = n == 1
				}
			}
			summary = true
			continue
		}
		fs := strings.Split(l, "\t")
		if len(fs) < 6 {
			return ri, fmt.Errorf("malformed log line %q", l)
		}
		var ll logLine
		ll.idx, _ = strconv.Atoi(fs[0])
		ll.fidx, _ = strconv.Atoi(fs[1])
		ll.name = fs[4]
		for _, q := range fs[6:] {
			p, err := strconv.Unquote(q)
			if err != nil {
				p = q
			}
			ll.paths = append(ll.paths, p)
		}
		if !ri.win {
			for _, p := range ll.paths {
				base := filepath.Base(p)
				for _, n := range names {
					// the file itself, or renameio's temporary ".<name><random>"
					if base == n || strings.HasPrefix(base, "."+n) {
						ri.win, ri.winK, ri.winJ = true, ll.idx, ll.fidx
					}
				}
			}
		}
		ri.lastName = ll.name
		ri.lines = append(ri.lines, ll)
	}
	if !summary {
		return ri, fmt.Errorf("syscall log has no summary line")
	}
	return ri, sc.Err()
}

type layout struct {
	base, dir, tmp, log string
}

func newLayout(c Case) (layout, error) {
	base, err := os.MkdirTemp(scratch(), "c35-")
	if err != nil {
		return layout{}, err
	}
	l := layout{base: base, dir: filepath.Join(base, "d"), tmp: filepath.Join(base, "tmp"), log: filepath.Join(base, "log")}
	if err := os.Mkdir(l.dir, 0o755); err != nil {
		return l, err
	}
	if c.Tmp != "fallback" {
		if err := os.Mkdir(l.tmp, 0o755); err != nil {
			return l, err
		}
	}
	return l, nil
}

func (l layout) remove() {
	if l.base != "" {
		os.RemoveAll(l.base)
	}
}

// trace runs `shfmt -w args` in l.dir under ptkill.
func trace(l layout, s scenario, k, j int) (runInfo, error) {
	// Hold every FIFO of the scenario open for reading and writing, so that
	// an open(2) of it by shfmt could not block for ever; the supervisor's
	// and our own timeouts bound everything else.
	for _, e := range s.entries {
		if e.typ == 'p' {
			if fd, err := syscall.Open(filepath.Join(l.dir, e.path), syscall.O_RDWR|syscall.O_NONBLOCK|syscall.O_CLOEXEC, 0); err == nil {
				defer syscall.Close(fd)
			}
		}
	}
	ctx, cancel := context.WithTimeout(context.Background(), 45*time.Second)
	defer cancel()
	args := []string{"-k", strconv.Itoa(k), "-kf", strconv.Itoa(j), "-log", l.log, "-timeout", "20"}
	if j > 0 {
		// only the file syscalls need to stop the process: fewer stops,
		// less perturbation (the all-threads index is then logged as 0)
		args = append(args, "-fileonly")
	}
	if os.Getenv("C35_PLAIN") != "" {
		args = []string{"-k", strconv.Itoa(k), "-kf", strconv.Itoa(j), "-log", l.log, "-timeout", "20", "-plain"}
	}
	args = append(args, "--", binPath("shfmt"), "-w")
	args = append(args, s.args...)
	cmd := exec.CommandContext(ctx, binPath("ptkill"), args...)
	cmd.Dir = l.dir
	cmd.Env = []string{"TMPDIR=" + l.tmp, "HOME=" + l.base, "NO_COLOR=1"}
	var stderr bytes.Buffer
	cmd.Stderr = &stderr
	err := cmd.Run()
	rc := 0
	if err != nil {
		ee, ok := err.(*exec.ExitError)
		if !ok {
			return runInfo{}, err
		}
		rc = ee.ExitCode()
	}
	if ctx.Err() != nil {
		return runInfo{rc: 4, timeout: true}, nil
	}
	if rc != 0 && rc != 3 && rc != 4 {
		return runInfo{rc: rc}, fmt.Errorf("ptkill failed (exit %d): %s", rc, stderr.String())
	}
	ri, err := parseLog(l.log, s.names)
	if err != nil {
		return ri, err
	}
	ri.rc = rc
	ri.stderr = stderr.String()
	return ri, nil
}

// ---- the property ----------------------------------------------------------------

func check(c Case) vh.Result {
	if os.Getenv("VERIF_REPLAY") == "" {
		return checkOnce(c)
	}
	// Replay: which boundary the K-th syscall of all threads is varies from
	// run to run (Go runtime scheduling), so a K case is re-run several
	// times and at K-2..K+2; a J case names a deterministic boundary and is
	// simply repeated.
	var last vh.Result
	for rep := 0; rep < 5; rep++ {
		for dk := -2; dk <= 2; dk++ {
			c2 := c
			if c.K > 0 {
				if c2.K = c.K + dk; c2.K < 1 {
					continue
				}
			} else if dk != 0 {
				continue
			}
			last = checkOnce(c2)
			if last.Err != "" {
				return last
			}
		}
	}
	return last
}

func sizeClass(n int) string {
	switch {
	case n == 0:
		return "size:0"
	case n < 64:
		return "size:<64"
	case n <= 4096:
		return "size:<=4K"
	case n <= 65536:
		return "size:<=64K"
	case n <= 262144:
		return "size:<=256K"
	}
	return "size:>256K"
}

func checkOnce(c Case) (res vh.Result) {
	s, err := build(c)
	if err != nil {
		return vh.Result{Skipped: true, Classes: []string{"bad-case"}}
	}
	if (c.K > 0 && c.J > 0) || c.K < 0 || c.J < 0 {
		return vh.Result{Skipped: true, Classes: []string{"bad-case"}}
	}
	data := c.data()
	want, err := formatted(data)
	if err != nil {
		// the generated content is always valid shell
		return vh.Result{Skipped: true, Classes: []string{"inconclusive:no-expected-output"}}
	}
	wantOf := func(e entry) ([]byte, bool) {
		if bytes.Equal(e.data, data) {
			return want, true
		}
		w, err := formatted(e.data)
		return w, err == nil
	}
	l, err := newLayout(c)
	defer l.remove()
	if err == nil {
		err = s.create(l.dir)
	}
	if err != nil {
		return harnessError("cannot build the scenario", err)
	}
	ri, err := trace(l, s, c.K, c.J)
	if err != nil {
		return harnessError("traced run", err)
	}
	res.Classes = []string{"kind:" + c.Kind, "gen:" + c.Gen, "mode:" + c.Mode, "tmp:" + c.Tmp, sizeClass(len(data))}
	if ri.timeout || ri.rc == 4 {
		// the hang guard fired: not a statement about atomicity
		res.Skipped = true
		res.Classes = append(res.Classes, "inconclusive:timeout")
		return res
	}
	killed := ri.rc == 3
	inWindow := killed && ri.win
	res.Nontrivial = inWindow
	sum := sha256.Sum256(data)
	res.Key = fmt.Sprintf("%s|%s|%s|%s|%s|k%d|j%d", c.Kind, hex.EncodeToString(sum[:8]), c.Mode, c.Tmp, c.Gen, c.K, c.J)
	switch {
	case !killed:
		res.Classes = append(res.Classes, "run:completed")
	case inWindow:
		res.Classes = append(res.Classes, "run:killed-in-window", "killed-before:"+ri.lastName)
	default:
		res.Classes = append(res.Classes, "run:killed-before-window")
	}
	if c.K > 0 {
		res.Classes = append(res.Classes, "by:K")
	} else if c.J > 0 {
		res.Classes = append(res.Classes, "by:J")
	}
	where := "after an unkilled run"
	if killed {
		where = fmt.Sprintf("after a kill on entry to syscall #%d (file syscall #%d) = %s", ri.n, ri.nf, describe(ri))
		if c.J > 0 {
			where = fmt.Sprintf("after a kill on entry to file syscall #%d = %s", ri.nf, describe(ri))
		}
	}

	// 1. every entry keeps its type; regular files hold the original or the
	// formatted bytes and keep their permission bits.
	for _, e := range s.entries {
		p := filepath.Join(l.dir, e.path)
		fi, err := os.Lstat(p)
		if err != nil {
			return vh.Fail("%s: %s is gone %s: %v", c.Kind, e.path, where, err)
		}
		switch e.typ {
		case 'f':
			if !fi.Mode().IsRegular() {
				return vh.Fail("%s: %s is no longer a regular file (%v) %s", c.Kind, e.path, fi.Mode(), where)
			}
			got, err := os.ReadFile(p)
			if err != nil {
				return vh.Fail("%s: cannot read %s %s: %v", c.Kind, e.path, where, err)
			}
			w, wok := wantOf(e)
			isOrig, isFmt := bytes.Equal(got, e.data), wok && bytes.Equal(got, w)
			if !isOrig && !isFmt {
				return vh.Fail("%s: %s (mode %s, %d bytes, formatted %d bytes) holds %d bytes that are neither the original nor the formatted contents %s; common prefix with formatted: %d bytes",
					c.Kind, e.path, c.Mode, len(e.data), len(w), len(got), where, commonPrefix(got, w))
			}
			if fi.Mode().Perm() != e.perm {
				return vh.Fail("%s: %s has permission bits %04o, want the original %04o, %s", c.Kind, e.path, fi.Mode().Perm(), e.perm, where)
			}
			if e.written || e.path == "real.sh" || strings.HasSuffix(e.path, "/real.sh") {
				switch {
				case wok && bytes.Equal(e.data, w):
					res.Classes = append(res.Classes, "state:original=formatted")
				case isFmt:
					res.Classes = append(res.Classes, "state:formatted")
				default:
					res.Classes = append(res.Classes, "state:original")
				}
			}
			if !killed && e.written && ri.status == 0 && !isFmt {
				return vh.Fail("%s: shfmt -w exited 0 but %s still holds the unformatted original", c.Kind, e.path)
			}
		case 'l':
			if fi.Mode()&os.ModeSymlink == 0 {
				return vh.Fail("%s: the symlink %s was replaced by %v %s", c.Kind, e.path, fi.Mode(), where)
			}
			if t, err := os.Readlink(p); err != nil || t != e.link {
				return vh.Fail("%s: the symlink %s now points to %q (err %v), want %q, %s", c.Kind, e.path, t, err, e.link, where)
			}
		case 'p':
			if fi.Mode()&os.ModeNamedPipe == 0 {
				return vh.Fail("%s: the FIFO %s was replaced by %v %s", c.Kind, e.path, fi.Mode(), where)
			}
			if fi.Mode().Perm() != e.perm {
				return vh.Fail("%s: the FIFO %s has permission bits %04o, want %04o, %s", c.Kind, e.path, fi.Mode().Perm(), e.perm, where)
			}
		case 'd':
			if !fi.IsDir() {
				return vh.Fail("%s: the directory %s was replaced by %v %s", c.Kind, e.path, fi.Mode(), where)
			}
		}
	}

	// 2. a completed run leaves nothing behind.
	extra := leftovers(l, s)
	if !killed {
		res.Classes = append(res.Classes, fmt.Sprintf("exit:%d", ri.status))
		if strings.Contains(ri.stderr, "refusing to atomically replace") {
			res.Classes = append(res.Classes, "refused-non-regular")
		}
		if len(extra) > 0 {
			return vh.Fail("%s: a completed `shfmt -w %s` (exit %d) left behind: %q", c.Kind, strings.Join(s.args, " "), ri.status, extra)
		}
	} else if len(extra) > 0 {
		res.Classes = append(res.Classes, "killed-run-left-temp-file")
	}
	return res
}

// harnessError reports a failure of the harness itself (scratch space, the
// supervisor): the case is counted as skipped, never as a violation. A
// harness that cannot run at all is caught by the probe runs (t.Fatalf).
func harnessError(what string, err error) vh.Result {
	fmt.Fprintf(os.Stderr, "c35: harness error (%s): %v\n", what, err)
	return vh.Result{Skipped: true, Classes: []string{"inconclusive:harness-error"}}
}

func describe(ri runInfo) string {
	if len(ri.lines) == 0 {
		return "?"
	}
	ll := ri.lines[len(ri.lines)-1]
	return fmt.Sprintf("%s%q", ll.name, ll.paths)
}

func commonPrefix(a, b []byte) int {
	n := 0
	for n < len(a) && n < len(b) && a[n] == b[n] {
		n++
	}
	return n
}

// leftovers lists entries of the target tree and of TMPDIR that the scenario
// did not create.
func leftovers(l layout, s scenario) []string {
	known := map[string]bool{}
	for _, e := range s.entries {
		p := filepath.Clean(filepath.Join(l.dir, e.path))
		for p != l.base && p != "/" {
			known[p] = true
			p = filepath.Dir(p)
		}
	}
	known[l.dir] = true
	var extra []string
	for _, root := range []string{l.dir, l.tmp, filepath.Join(l.base, "outside")} {
		filepath.WalkDir(root, func(p string, d os.DirEntry, err error) error {
			if err != nil {
				return nil
			}
			if p != root && !known[p] {
				extra = append(extra, strings.TrimPrefix(p, l.base+"/"))
			}
			return nil
		})
	}
	sort.Strings(extra)
	return extra
}

// ---- enumeration -----------------------------------------------------------------

func regular(gen string, size int, mode, tmp string) Case {
	return Case{Kind: "regular", Gen: gen, Size: size, Seed: 1, Mode: mode, Tmp: tmp}
}

func specs() []Case {
	out := []Case{
		{Kind: "regular", Gen: "literal", Lit: "", Mode: "0644", Tmp: "tmpdir"},
		{Kind: "regular", Gen: "literal", Lit: "a", Mode: "0600", Tmp: "tmpdir"},
		{Kind: "regular", Gen: "literal", Lit: "#!/bin/sh\n foo", Mode: "0755", Tmp: "fallback"},
		regular("shrink", 120, "0644", "tmpdir"),
		regular("shrink", 120, "0400", "tmpdir"),
		regular("shrink", 120, "0640", "fallback"),
		regular("grow", 120, "0600", "tmpdir"),
		regular("grow", 120, "0700", "fallback"),
		regular("mixed", 300, "0755", "tmpdir"),
		regular("formatted", 120, "0644", "tmpdir"),
		regular("shrink", 4096, "0400", "tmpdir"),
		regular("grow", 4097, "0640", "tmpdir"),
		regular("mixed", 32768, "0700", "tmpdir"),
		regular("shrink", 32769, "0755", "fallback"),
		regular("formatted", 32768, "0755", "tmpdir"),
		regular("grow", 65536, "0644", "tmpdir"),
		regular("mixed", 262144, "0600", "tmpdir"),
		regular("shrink", 262144, "0640", "fallback"),
		{Kind: "symlink", Gen: "shrink", Size: 120, Seed: 1, Mode: "0644", Tmp: "tmpdir"},
		{Kind: "symlink", Gen: "grow", Size: 4096, Seed: 1, Mode: "0600", Tmp: "fallback"},
		{Kind: "symlink-walk", Gen: "shrink", Size: 120, Seed: 1, Mode: "0644", Tmp: "tmpdir"},
		{Kind: "fifo", Gen: "literal", Mode: "0644", Tmp: "tmpdir"},
		{Kind: "fifo-walk", Gen: "shrink", Size: 120, Seed: 1, Mode: "0640", Tmp: "tmpdir"},
		{Kind: "dir", Gen: "shrink", Size: 120, Seed: 1, Mode: "0644", Tmp: "fallback"},
	}
	if vh.Thorough() {
		for si, size := range []int{2, 9, 1000, 8191, 8192, 65535, 131072, 524288, 1048576} {
			for mi, mode := range []string{"0400", "0600", "0644", "0640", "0755", "0700"} {
				gen := []string{"shrink", "grow", "mixed"}[(si+mi)%3]
				tmp := []string{"tmpdir", "fallback"}[(si+mi/3)%2]
				out = append(out, Case{Kind: "regular", Gen: gen, Size: size, Seed: 2 + si, Mode: mode, Tmp: tmp})
			}
		}
		for _, kind := range []string{"symlink", "symlink-walk", "fifo-walk", "dir"} {
			out = append(out, Case{Kind: kind, Gen: "mixed", Size: 40000, Seed: 3, Mode: "0700", Tmp: "tmpdir"},
				Case{Kind: kind, Gen: "grow", Size: 300, Seed: 4, Mode: "0400", Tmp: "fallback"})
		}
	}
	return out
}

// baseSpec: the scenario belongs to the quick tier's list (Seed 1 or literal).
func baseSpec(c Case) bool { return c.Seed <= 1 }

// fullK selects the scenarios whose all-threads index K is swept without
// gaps in the quick tier.
func fullK(c Case) bool {
	switch c.Kind {
	case "regular":
		return c.Gen != "literal" && c.Gen != "formatted" && (c.Size == 120 && c.Mode != "0400" || c.Size == 32768)
	case "symlink":
		return c.Size == 120
	}
	return false
}

// kSweep lists the all-threads kill indexes tried for a scenario, given the
// numbers of this worker's probe run (the window moves by tens of syscalls
// from run to run, so this sweep is statistical): from a margin before the
// window to a margin past the end of the run, plus earlier points. The
// thorough tier takes every k (from 1 for the scenarios of the quick list,
// from the window for the others); the quick tier bounds the count (the
// complete sweep of the quick tier is the J one): every k of the window for
// the fullK scenarios (at most 400 points), about 120 evenly spaced points
// for the others, and about 24 points before the window.
func kSweep(c Case, pi probeInfo) []int {
	const margin = 12
	lo, hi := pi.winK-margin, pi.n+margin
	if lo < 1 {
		lo = 1
	}
	var ks []int
	step := func(n, max int) int { return (n + max - 1) / max }
	if vh.Thorough() {
		// every k from 1 for the scenarios of the quick list, every k of
		// the window (and 1 in 4 before it) for the additional ones; runs
		// of large files make thousands of syscalls (mmap, madvise, ...):
		// above 64 KiB the window is covered by 600 evenly spaced points.
		st := 1
		if len(c.data()) > 65536 {
			st = step(hi-lo+1, 600)
		}
		for k := 1; k < lo; k++ {
			if baseSpec(c) || k%4 == 0 {
				ks = append(ks, k)
			}
		}
		for k := lo; k <= hi; k += st {
			ks = append(ks, k)
		}
		return ks
	}
	for k, st := 1, step(lo-1, 24); k < lo; k += st {
		ks = append(ks, k)
	}
	max := 120
	if fullK(c) {
		max = 400
	}
	for k, st := lo, step(hi-lo+1, max); k <= hi; k += st {
		ks = append(ks, k)
	}
	return ks
}

type probeInfo struct {
	n, nf, winK, winJ int
}

// probe runs the scenario once without a kill to learn how many syscalls a
// run makes and where the write window opens. It records nothing.
func probe(c Case) (probeInfo, error) {
	s, err := build(c)
	if err != nil {
		return probeInfo{}, err
	}
	l, err := newLayout(c)
	defer l.remove()
	if err != nil {
		return probeInfo{}, err
	}
	if err := s.create(l.dir); err != nil {
		return probeInfo{}, err
	}
	ri, err := trace(l, s, 0, 0)
	if err != nil {
		return probeInfo{}, err
	}
	if ri.rc != 0 {
		return probeInfo{}, fmt.Errorf("probe run of %+v did not complete (ptkill exit %d)", c, ri.rc)
	}
	if !ri.win {
		return probeInfo{}, fmt.Errorf("probe run of %+v never named the target: cannot locate the write window", c)
	}
	return probeInfo{ri.n, ri.nf, ri.winK, ri.winJ}, nil
}

// A unit is a slice of one spec's kill points, small enough to balance the
// workers: the unkilled run, the file-syscall boundaries, or one residue
// class of the all-threads syscall indexes.
type unit struct {
	spec    int
	part    string // "none" | "J" | "K"
	residue int
}

const kParts = 4

func TestC35Enum(t *testing.T) {
	if os.Getenv("VERIF_REPLAY") != "" || os.Getenv("VERIF_MINIMIZE") != "" {
		// replay of one saved case (vh.Run); there is no text to minimise
		vh.Run(t, prop)
		return
	}
	all := specs()
	var units []unit
	for si := range all {
		units = append(units, unit{si, "none", 0}, unit{si, "J", 0})
		for r := 0; r < kParts; r++ {
			units = append(units, unit{si, "K", r})
		}
	}
	wi, wn := vh.Shard()
	probes := map[int]probeInfo{}
	for ui, u := range units {
		if ui%wn != wi {
			continue
		}
		c := all[u.spec]
		pi, ok := probes[u.spec]
		if !ok {
			var err error
			if pi, err = probe(c); err != nil {
				t.Fatalf("probe: %v", err)
			}
			probes[u.spec] = pi
		}
		switch u.part {
		case "none":
			vh.Each(t, prop, c)
		case "J":
			// Every file-syscall boundary, before and inside the window,
			// and one past the end (that run completes).
			for j := 1; j <= pi.nf+1; j++ {
				cj := c
				cj.J = j
				if !vh.Each(t, prop, cj) {
					return
				}
			}
		case "K":
			for i, k := range kSweep(c, pi) {
				if i%kParts != u.residue {
					continue
				}
				ck := c
				ck.K = k
				if !vh.Each(t, prop, ck) {
					return
				}
			}
		}
	}
	vh.SetExhaustive("C35")
}

// TestC35Probe prints the probe numbers of every scenario (development aid).
func TestC35Probe(t *testing.T) {
	if os.Getenv("C35_PROBE") == "" {
		t.Skip("development aid")
	}
	for _, c := range specs() {
		t0 := time.Now()
		pi, err := probe(c)
		t.Logf("%-13s %-9s %7d %s %-8s n=%d nf=%d winK=%d winJ=%d err=%v %v", c.Kind, c.Gen, len(c.data()), c.Mode, c.Tmp, pi.n, pi.nf, pi.winK, pi.winJ, err, time.Since(t0).Round(time.Millisecond))
	}
}
