// C30: Runner reuse is equivalent to a fresh runner.
//
// A: one Runner runs a history of programs, is Reset, then runs P; a second
// Runner made by New with the same options runs only P, in an identical
// directory tree. Standard output, returned error and Runner.Vars must agree.
// B: P's top-level statements fed one Run call at a time (stopping once
// Exited reports true) agree with Run(P) on stdout, variables and final
// status, for programs without an EXIT trap.
package c30

import (
	"bytes"
	"context"
	"fmt"
	"io"
	"os"
	"path/filepath"
	"sort"
	"strings"
	"sync"
	"syscall"
	"testing"
	"time"

	"mvdan.cc/sh/v3/expand"
	"mvdan.cc/sh/v3/interp"
	"mvdan.cc/sh/v3/syntax"
	"pgregory.net/rapid"

	"verifh/oracle"
	"verifh/vh"
)

func TestMain(m *testing.M) { vh.Main(m) }

type Case struct {
	// options given to interp.New: they must survive Reset
	Flags       []string `json:"flags,omitempty"` // e.g. "-u": passed through interp.Params before "--"
	Args        []string `json:"args,omitempty"`  // positional parameters
	Interactive bool     `json:"interactive,omitempty"`
	History     []string `json:"history"`
	// ResetBetween: also call Reset between the programs of the history
	ResetBetween bool   `json:"reset_between,omitempty"`
	P            string `json:"p"`
}

var words = []string{"x", "y", "zz", "ab"}

func w(t *rapid.T) string { return rapid.SampledFrom(words).Draw(t, "w") }

// state-changing snippets: what a history leaves behind
func genChange(t *rapid.T) string {
	return rapid.SampledFrom([]string{
		"set -e", "set -u", "set -o pipefail", "set -f", "set -a", "set +u",
		"shopt -s nullglob", "shopt -s dotglob", "shopt -s extglob", "shopt -s globstar", "shopt -s nocaseglob", "shopt -s expand_aliases", "shopt -u expand_aliases",
		"trap 'echo bye' EXIT", "trap 'echo err' ERR", "trap 'echo bye2; v1=trap' EXIT",
		"f() { echo in-f; }", "g() { echo in-g \"$#\"; v2=g; }", "f() { echo other-f; }", "unset -f f",
		"shopt -s expand_aliases\nalias e='echo '\nalias h=hello", "alias e='echo aliased '", "unalias e",
		"cd d1", "cd d1/d2", "cd d3", "cd d1/d2\ncd ..", "pushd d3 >/dev/null", "pushd d1 >/dev/null\npopd >/dev/null",
		"v1=x", "v1=" + w(t), "export v2=y", "readonly v3=z", "a=(1 2 3)", "a[5]=five", "declare -A m=([k]=v)", "unset v1", "v1+=more", "local_like=1",
		"IFS=:", "OPTIND=3", "HOME=/elsewhere", "unset HOME", "PWD=/fake", "export E1=changed", "unset E1", "E1+=x",
		"{ v1=bg; } &\nwait", ": &\nwait $!", ": &",
		"echo data > file1", "echo more >> f0", "echo x > d1/new", ": > f0",
		"exec >/dev/null", "exec 2>/dev/null", "exec < f0",
		"getopts ab o -a -b", "getopts ab o -a -b\ngetopts ab o -a -b", "getopts abc o -abc", "getopts abc o -abc\ngetopts abc o -abc",
		"set -- n1 n2 n3", "shift", "set --",
		"read -r v1 < f0", "read -r v1 <<< here",
		"for i in 1 2 3; do v1=$i; [ $i = 2 ] && break; done",
		"exit 3", "exit", "false", "nosuchcmd", "(exit 4)", "true", "[[ a == b ]]", "echo ${unset_var?boom}", "eval 'v1=ev; false'",
	}).Draw(t, "change")
}

// probes: what P prints about the state it finds
func genProbe(t *rapid.T) string {
	return rapid.SampledFrom([]string{
		"echo hello", "echo \"args:$#:$*\"", "echo \"flags=$-\"", "set -o", "shopt nullglob dotglob extglob globstar nocaseglob expand_aliases",
		"[[ -o errexit ]] && echo errexit-on", "[[ -o nounset ]] && echo nounset-on",
		"trap", "f 2>/dev/null; echo \"f rc=$?\"", "g a b 2>/dev/null; echo \"g rc=$? ${v2-unset}\"", "declare -f f",
		"alias e 2>/dev/null; echo \"alias rc=$?\"", "e h 2>/dev/null; echo \"e rc=$?\"",
		"pwd", "echo \"$PWD|${OLDPWD-unset}\"", "dirs", "cd d1 && pwd",
		"echo \"v1=${v1-unset} v2=${v2-unset} v3=${v3-unset}\"", "echo \"a=${a[*]-unset} n=${#a[@]}\"", "echo \"m=${m[k]-unset}\"",
		"echo \"E1=${E1-unset} HOME=${HOME-unset}\"", "echo \"IFS=[$IFS] OPTIND=$OPTIND\"", "v3=again 2>/dev/null; echo \"v3=$v3\"",
		"echo \"bang=[$!]\"", ": &\necho \"bang=$!\"\nwait",
		"echo *", "echo d1/*", "read -r l < f0; echo \"f0:$l\"", "[ -e file1 ] && echo file1-exists", "read -r l; echo \"stdin:$l rc=$?\"",
		"getopts ab o -a -b; echo \"opt=$o $OPTIND\"", "getopts abc o -abc; echo \"opt=$o $OPTIND\"",
		"echo ${unset_var-dflt}", "echo \"$unset_var\"; echo after-unset",
		"false; echo \"after false\"", "echo to-stderr >&2; echo to-stdout",
		"x=a:b; set -- $x; echo \"$#\"",
		"echo \"status=$?\"",
	}).Draw(t, "probe")
}

func genProg(t *rapid.T, probeBias int) string {
	n := rapid.IntRange(1, 5).Draw(t, "nsnip")
	var parts []string
	for i := 0; i < n; i++ {
		if rapid.IntRange(0, 9).Draw(t, "which") < probeBias {
			parts = append(parts, genProbe(t))
		} else {
			parts = append(parts, genChange(t))
		}
	}
	return strings.Join(parts, "\n") + "\n"
}

func gen(t *rapid.T) Case {
	var c Case
	c.Flags = rapid.SliceOfNDistinct(rapid.SampledFrom([]string{"-u", "-f", "-a", "-e"}), 0, 2, rapid.ID[string]).Draw(t, "flags")
	c.Args = rapid.SliceOfN(rapid.SampledFrom(words), 0, 3).Draw(t, "args")
	c.Interactive = rapid.IntRange(0, 3).Draw(t, "interactive") == 2
	n := rapid.IntRange(1, 6).Draw(t, "nhist")
	for i := 0; i < n; i++ {
		c.History = append(c.History, genProg(t, 2))
	}
	c.ResetBetween = rapid.IntRange(0, 3).Draw(t, "resetbetween") == 1
	c.P = genProg(t, 7)
	return c
}

// ---- running ----------------------------------------------------------------

type syncBuf struct {
	mu sync.Mutex
	b  bytes.Buffer
}

func (s *syncBuf) Write(p []byte) (int, error) {
	s.mu.Lock()
	defer s.mu.Unlock()
	if s.b.Len() < 1<<20 {
		s.b.Write(p)
	}
	return len(p), nil
}

func (s *syncBuf) String() string {
	s.mu.Lock()
	defer s.mu.Unlock()
	return s.b.String()
}

func (s *syncBuf) Len() int {
	s.mu.Lock()
	defer s.mu.Unlock()
	return s.b.Len()
}

// restoreDir puts the working directory tree into its initial content.
func restoreDir(dir string) error {
	ents, err := os.ReadDir(dir)
	if err != nil {
		return err
	}
	for _, e := range ents {
		if err := os.RemoveAll(filepath.Join(dir, e.Name())); err != nil {
			return err
		}
	}
	for _, d := range []string{"d1/d2", "d3"} {
		if err := os.MkdirAll(filepath.Join(dir, d), 0o755); err != nil {
			return err
		}
	}
	if err := os.WriteFile(filepath.Join(dir, "f0"), []byte("line0\nline1\n"), 0o644); err != nil {
		return err
	}
	return os.WriteFile(filepath.Join(dir, "d1", "inner"), []byte("inner\n"), 0o644)
}

func newRunner(c Case, dir string, out, errw *syncBuf) (*interp.Runner, error) {
	params := append([]string{}, c.Flags...)
	params = append(params, "--")
	params = append(params, c.Args...)
	return interp.New(
		interp.Dir(dir),
		interp.Env(expand.ListEnviron(oracle.Env(dir, "E1=one")...)),
		interp.StdIO(nil, out, errw), // no stdin: a consumed stream cannot be reset
		interp.Params(params...),
		interp.Interactive(c.Interactive),
		interp.OpenHandler(confinedOpen(dir)),
	)
}

// confinedOpen only lets programs open files under dir and /dev/null (no
// generated program leaves dir; this is a second line of defence).
func confinedOpen(dir string) interp.OpenHandlerFunc {
	def := interp.DefaultOpenHandler()
	return func(ctx context.Context, path string, flag int, perm os.FileMode) (io.ReadWriteCloser, error) {
		abs := path
		if !filepath.IsAbs(abs) {
			abs = filepath.Join(interp.HandlerCtx(ctx).Dir, abs)
		}
		abs = filepath.Clean(abs)
		if abs == "/dev/null" || abs == dir || strings.HasPrefix(abs, dir+string(filepath.Separator)) {
			return def(ctx, path, flag, perm)
		}
		return nil, &os.PathError{Op: "open", Path: path, Err: syscall.EACCES}
	}
}

func varString(v expand.Variable) string {
	var b strings.Builder
	fmt.Fprintf(&b, "set=%v local=%v exp=%v ro=%v kind=%d str=%q list=%q idx=%v map=[", v.Set, v.Local, v.Exported, v.ReadOnly, v.Kind, v.Str, v.List, v.Indexes)
	ks := make([]string, 0, len(v.Map))
	for k := range v.Map {
		ks = append(ks, k)
	}
	sort.Strings(ks)
	for _, k := range ks {
		fmt.Fprintf(&b, "%q:%q ", k, v.Map[k])
	}
	b.WriteString("]")
	return b.String()
}

func varsOf(r *interp.Runner) map[string]string {
	m := map[string]string{}
	for n, v := range r.Vars {
		m[n] = varString(v)
	}
	return m
}

func diffVars(a, b map[string]string, la, lb string) string {
	var names []string
	for n := range a {
		names = append(names, n)
	}
	for n := range b {
		if _, ok := a[n]; !ok {
			names = append(names, n)
		}
	}
	sort.Strings(names)
	for _, n := range names {
		va, oka := a[n]
		vb, okb := b[n]
		switch {
		case oka && !okb:
			return fmt.Sprintf("variable %s only after %s (%s)", n, la, va)
		case !oka && okb:
			return fmt.Sprintf("variable %s only after %s (%s)", n, lb, vb)
		case va != vb:
			return fmt.Sprintf("variable %s: %s: %s; %s: %s", n, la, va, lb, vb)
		}
	}
	return ""
}

type outcome struct {
	stdout string
	err    string
	vars   map[string]string
	panic  any
}

func errString(err error) string {
	if err == nil {
		return "<nil>"
	}
	return fmt.Sprintf("%T(%v)", err, err)
}

func parse(src string) (*syntax.File, error) {
	return syntax.NewParser(syntax.Variant(syntax.LangBash)).Parse(strings.NewReader(src), "")
}

func guard(f func()) (p any) {
	defer func() { p = recover() }()
	f()
	return nil
}

func check(c Case) (res vh.Result) {
	pf, err := parse(c.P)
	if err != nil {
		return vh.Result{Skipped: true, Classes: []string{"parse-fail"}}
	}
	var hist []*syntax.File
	for _, h := range c.History {
		f, err := parse(h)
		if err != nil {
			return vh.Result{Skipped: true, Classes: []string{"parse-fail"}}
		}
		hist = append(hist, f)
	}
	all := strings.Join(c.History, "\n")
	failing := false
	for _, k := range []string{"exit", "false", "nosuchcmd", "boom", "[[ a == b ]]", "set -", "shopt -s"} {
		if strings.Contains(all, k) {
			failing = true
		}
	}
	res.Nontrivial = len(c.History) >= 2 && failing
	for _, cl := range []struct {
		name string
		on   bool
	}{{"hist-exit", strings.Contains(all, "exit")}, {"hist-option", strings.Contains(all, "set -") || strings.Contains(all, "shopt -")},
		{"hist-trap", strings.Contains(all, "trap ")}, {"hist-func", strings.Contains(all, "() {")}, {"hist-alias", strings.Contains(all, "alias ")},
		{"hist-cd", strings.Contains(all, "cd ") || strings.Contains(all, "pushd")}, {"hist-bg", strings.Contains(all, "&\n")},
		{"hist-exec-redirect", strings.Contains(all, "exec ")}, {"hist-files", strings.Contains(all, "> ")},
		{"reset-between", c.ResetBetween}, {"new-flags", len(c.Flags) > 0}, {"interactive", c.Interactive}} {
		if cl.on {
			res.Classes = append(res.Classes, cl.name)
		}
	}

	dir, err := oracle.NewDir()
	if err != nil {
		return vh.Result{Skipped: true, Classes: []string{"infra"}}
	}
	defer oracle.RemoveDir(dir)
	ctx, cancel := context.WithTimeout(context.Background(), 10*time.Second)
	defer cancel()

	// ---- reused Runner: history, Reset, P
	if err := restoreDir(dir); err != nil {
		return vh.Result{Skipped: true, Classes: []string{"infra"}}
	}
	var outA, errA syncBuf
	rA, err := newRunner(c, dir, &outA, &errA)
	if err != nil {
		return vh.Result{Skipped: true, Classes: []string{"new-failed"}}
	}
	var reused outcome
	reused.panic = guard(func() {
		for i, f := range hist {
			rA.Run(ctx, f)
			if c.ResetBetween && i+1 < len(hist) {
				rA.Reset()
			}
		}
		rA.Reset()
	})
	if reused.panic != nil {
		return vh.Result{Skipped: true, Classes: []string{"interp-panic(C28)"}}
	}
	if err := restoreDir(dir); err != nil {
		return vh.Result{Skipped: true, Classes: []string{"infra"}}
	}
	mark := outA.Len()
	reused.panic = guard(func() {
		reused.err = errString(rA.Run(ctx, pf))
	})
	reused.stdout = outA.String()[mark:]
	if reused.panic == nil {
		reused.vars = varsOf(rA)
	}

	// ---- fresh Runner: P
	runFresh := func(incremental bool) (o outcome, ok bool) {
		if err := restoreDir(dir); err != nil {
			return o, false
		}
		var out, errw syncBuf
		r, err := newRunner(c, dir, &out, &errw)
		if err != nil {
			return o, false
		}
		o.panic = guard(func() {
			if !incremental {
				o.err = errString(r.Run(ctx, pf))
				return
			}
			o.err = errString(nil)
			for _, st := range pf.Stmts {
				o.err = errString(r.Run(ctx, st))
				if r.Exited() {
					break
				}
			}
		})
		o.stdout = out.String()
		if o.panic == nil {
			o.vars = varsOf(r)
		}
		return o, true
	}
	fresh, ok := runFresh(false)
	if !ok {
		return vh.Result{Skipped: true, Classes: []string{"infra"}}
	}
	if ctx.Err() != nil {
		return vh.Result{Skipped: true, Classes: []string{"interp-timeout"}}
	}
	if fresh.panic != nil || reused.panic != nil {
		if (fresh.panic == nil) != (reused.panic == nil) {
			return vh.Fail("P panics on one of the two Runners only: fresh %v, reused %v\n%s", fresh.panic, reused.panic, describe(c))
		}
		return vh.Result{Skipped: true, Classes: []string{"interp-panic(C28)"}}
	}
	if fresh.stdout != reused.stdout {
		return vh.Fail("Reset+Run differs from New+Run in stdout: reused %q, fresh %q\n%s", reused.stdout, fresh.stdout, describe(c))
	}
	if fresh.err != reused.err {
		return vh.Fail("Reset+Run differs from New+Run in the returned error: reused %s, fresh %s\n%s", reused.err, fresh.err, describe(c))
	}
	if d := diffVars(reused.vars, fresh.vars, "Reset+Run", "New+Run"); d != "" {
		return vh.Fail("Reset+Run differs from New+Run in Runner.Vars: %s\n%s", d, describe(c))
	}

	// ---- incremental: one Run call per top-level statement
	if strings.Contains(c.P, "EXIT") {
		res.Classes = append(res.Classes, "incremental-skipped(EXIT trap)")
		return res
	}
	inc, ok := runFresh(true)
	if !ok {
		return vh.Result{Skipped: true, Classes: []string{"infra"}}
	}
	if ctx.Err() != nil {
		return vh.Result{Skipped: true, Classes: []string{"interp-timeout"}}
	}
	if inc.panic != nil {
		return vh.Result{Skipped: true, Classes: []string{"interp-panic(C28)"}}
	}
	res.Classes = append(res.Classes, "incremental-compared")
	if inc.stdout != fresh.stdout {
		return vh.Fail("statement-by-statement Run differs from Run(file) in stdout: incremental %q, whole %q\nP:\n%s", inc.stdout, fresh.stdout, c.P)
	}
	if inc.err != fresh.err {
		return vh.Fail("statement-by-statement Run differs from Run(file) in the final status: incremental %s, whole %s\nP:\n%s", inc.err, fresh.err, c.P)
	}
	if d := diffVars(inc.vars, fresh.vars, "incremental", "whole"); d != "" {
		return vh.Fail("statement-by-statement Run differs from Run(file) in Runner.Vars: %s\nP:\n%s", d, c.P)
	}
	return res
}

func describe(c Case) string {
	var b strings.Builder
	fmt.Fprintf(&b, "New options: Params(%q --, %q) Interactive(%v)\n", c.Flags, c.Args, c.Interactive)
	for i, h := range c.History {
		fmt.Fprintf(&b, "history[%d]:\n%s", i, h)
		if c.ResetBetween && i+1 < len(c.History) {
			b.WriteString("(Reset)\n")
		}
	}
	fmt.Fprintf(&b, "Reset, then P:\n%s", c.P)
	return b.String()
}

var prop = vh.Prop[Case]{ID: "C30", Gen: gen, Check: check}

func TestC30(t *testing.T) { vh.Run(t, prop) }
