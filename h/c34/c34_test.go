// C34: Environment lists behave like an ordered map.
package c34

import (
	"fmt"
	"sort"
	"strings"
	"testing"

	"mvdan.cc/sh/v3/expand"
	"pgregory.net/rapid"

	"verifh/vh"
)

func TestMain(m *testing.M) { vh.Main(m) }

type Case struct {
	Pairs   []string `json:"pairs"`
	Lookups []string `json:"lookups"`
	// FuncVals: name -> value for the FuncEnviron clause.
	FuncNames []string `json:"func_names"`
	FuncVals  []string `json:"func_vals"`
}

// names are drawn from a small pool so duplicates, prefixes and names with
// bytes on both sides of '=' (0x3d) are frequent: '1' (0x31) sorts below '=',
// 'A' and '_' above.
var nameGen = rapid.OneOf(
	rapid.SampledFrom([]string{"A", "AB", "A1", "A_", "ABC", "B", "a", "ab", "HOME", "PATH", "_", "A=", "Z", "é", "A\x00", " ", "A B"}),
	rapid.StringMatching(`[AaB1_]{0,3}`),
	rapid.StringN(0, 3, 6),
)

var valGen = rapid.OneOf(
	rapid.SampledFrom([]string{"", "x", "=", "a=b", "==", "A=1", " ", "\n"}),
	rapid.StringN(0, 4, 8),
)

func genPair(t *rapid.T) string {
	switch rapid.IntRange(0, 9).Draw(t, "pairkind") {
	case 0: // no '='
		return nameGen.Draw(t, "bare")
	case 1: // empty name
		return "=" + valGen.Draw(t, "v")
	default:
		return nameGen.Draw(t, "n") + "=" + valGen.Draw(t, "v")
	}
}

func gen(t *rapid.T) Case {
	var c Case
	c.Pairs = rapid.SliceOfN(rapid.Custom(genPair), 0, 12).Draw(t, "pairs")
	if rapid.IntRange(0, 4).Draw(t, "bigenv") == 0 {
		// a realistic environment: dozens of variables, a few names set
		// more than once (sort implementations switch algorithm with size)
		n := rapid.IntRange(13, 90).Draw(t, "bign")
		c.Pairs = c.Pairs[:0]
		for i := 0; i < n; i++ {
			name := rapid.SampledFrom([]string{"HOME", "PATH", "A", "B", "USER", "LANG", "a", "TERM"}).Draw(t, "bigname")
			if rapid.IntRange(0, 2).Draw(t, "bigfresh") > 0 {
				name = "V" + string(rune('A'+rapid.IntRange(0, 25).Draw(t, "bigl1"))) + string(rune('a'+rapid.IntRange(0, 25).Draw(t, "bigl2")))
			}
			c.Pairs = append(c.Pairs, name+"="+valGen.Draw(t, "bigv"))
		}
	}
	c.Lookups = rapid.SliceOfN(nameGen, 0, 6).Draw(t, "lookups")
	n := rapid.IntRange(0, 4).Draw(t, "nfunc")
	for i := 0; i < n; i++ {
		c.FuncNames = append(c.FuncNames, nameGen.Draw(t, "fn"))
		c.FuncVals = append(c.FuncVals, valGen.Draw(t, "fv"))
	}
	return c
}

func check(c Case) (res vh.Result) {
	// reference: map built left to right.
	model := map[string]string{}
	invalid := 0
	dups := false
	for _, p := range c.Pairs {
		name, val, ok := strings.Cut(p, "=")
		if !ok || name == "" {
			invalid++
			continue
		}
		if _, seen := model[name]; seen {
			dups = true
		}
		model[name] = val
	}
	prefix := false
	for a := range model {
		for b := range model {
			if a != b && strings.HasPrefix(b, a) {
				prefix = true
			}
		}
	}
	res.Nontrivial = len(model) >= 2 && (dups || prefix || invalid > 0)
	if dups {
		res.Classes = append(res.Classes, "dup-names")
	}
	if prefix {
		res.Classes = append(res.Classes, "prefix-names")
	}
	if invalid > 0 {
		res.Classes = append(res.Classes, "invalid-pairs")
	}

	var env expand.Environ
	if err := guard(func() { env = expand.ListEnviron(c.Pairs...) }); err != nil {
		return vh.Fail("ListEnviron(%q) panicked: %v", c.Pairs, err)
	}

	// Get agrees with the model for every name in the model, every lookup,
	// and prefixes/extensions of model names.
	lookups := append([]string{}, c.Lookups...)
	for n := range model {
		lookups = append(lookups, n, n+"1", n+"=", n+"A")
		if len(n) > 1 {
			lookups = append(lookups, n[:len(n)-1])
		}
	}
	sort.Strings(lookups)
	for _, n := range lookups {
		var got expand.Variable
		if err := guard(func() { got = env.Get(n) }); err != nil {
			return vh.Fail("Get(%q) on ListEnviron(%q) panicked: %v", n, c.Pairs, err)
		}
		want, ok := model[n]
		if ok {
			if !got.IsSet() || !got.Set || !got.Exported || got.Kind != expand.String || got.Str != want {
				return vh.Fail("ListEnviron(%q).Get(%q) = %+v, want set exported string %q", c.Pairs, n, got, want)
			}
		} else if got.IsSet() || got.Set || got.Str != "" {
			return vh.Fail("ListEnviron(%q).Get(%q) = %+v, want unset (name never given)", c.Pairs, n, got)
		}
	}

	// Each yields every surviving name exactly once, sorted, with the value.
	var names []string
	seen := map[string]bool{}
	var eachErr string
	if err := guard(func() {
		env.Each(func(name string, vr expand.Variable) bool {
			if seen[name] && eachErr == "" {
				eachErr = fmt.Sprintf("Each yielded %q twice", name)
			}
			seen[name] = true
			names = append(names, name)
			want, ok := model[name]
			if eachErr == "" && (!ok || vr.Str != want || !vr.Set || !vr.Exported || vr.Kind != expand.String) {
				eachErr = fmt.Sprintf("Each yielded %q=%+v, model has %q (present=%v)", name, vr, want, ok)
			}
			return true
		})
	}); err != nil {
		return vh.Fail("Each on ListEnviron(%q) panicked: %v", c.Pairs, err)
	}
	if eachErr != "" {
		return vh.Fail("ListEnviron(%q): %s", c.Pairs, eachErr)
	}
	if len(names) != len(model) {
		return vh.Fail("ListEnviron(%q).Each yielded %d names %q, model has %d", c.Pairs, len(names), names, len(model))
	}
	// "sorted": ascending by name, or ascending by "name=" (the key the
	// implementation documents sorting on). Anything else is a violation.
	byName := sort.SliceIsSorted(names, func(i, j int) bool { return names[i] < names[j] })
	byKey := sort.SliceIsSorted(names, func(i, j int) bool { return names[i]+"=" < names[j]+"=" })
	if !byName && !byKey {
		return vh.Fail("ListEnviron(%q).Each order %q is sorted neither by name nor by name=", c.Pairs, names)
	}
	// Early stop is honoured.
	if len(names) > 1 {
		calls := 0
		env.Each(func(string, expand.Variable) bool { calls++; return false })
		if calls != 1 {
			return vh.Fail("ListEnviron(%q).Each continued after the callback returned false (%d calls)", c.Pairs, calls)
		}
	}
	// The input slice is not modified.
	// (ListEnviron documents nothing about it, but callers pass os.Environ().)

	// FuncEnviron: empty value means unset.
	fm := map[string]string{}
	for i, n := range c.FuncNames {
		fm[n] = c.FuncVals[i]
	}
	fenv := expand.FuncEnviron(func(n string) string { return fm[n] })
	for n, v := range fm {
		got := fenv.Get(n)
		if v == "" {
			if got.IsSet() {
				return vh.Fail("FuncEnviron Get(%q) with empty value = %+v, want unset", n, got)
			}
		} else if !got.IsSet() || got.Str != v || got.Kind != expand.String {
			return vh.Fail("FuncEnviron Get(%q) = %+v, want %q", n, got, v)
		}
	}
	if got := fenv.Get("verif_never_given"); got.IsSet() {
		return vh.Fail("FuncEnviron Get(absent) = %+v, want unset", got)
	}
	return res
}

func guard(f func()) (err error) {
	defer func() {
		if e := recover(); e != nil {
			err = fmt.Errorf("%v", e)
		}
	}()
	f()
	return nil
}

var prop = vh.Prop[Case]{ID: "C34", Gen: gen, Check: check}

func TestC34(t *testing.T) { vh.Run(t, prop) }
