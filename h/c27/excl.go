package c27

import (
	"os"

	"verifh/vh"
)

// Exclusion classes of confirmed, unfixed defects: syntactic predicates over
// the case, never over the outcome; never active in replay mode.

func hasOp(ops []Op, pred func(Op) bool) bool {
	for _, op := range ops {
		if pred(op) {
			return true
		}
	}
	return false
}

func isIndexed(kind string) bool {
	switch kind {
	case "dense", "sparse", "holes", "grown", "nofirst":
		return true
	}
	return false
}

func excluded(c Case) string {
	if os.Getenv("VERIF_REPLAY") != "" {
		return ""
	}
	// name+=word (string append) on an indexed array of the parent: the
	// append is done in place on storage shared with the parent.
	if vh.Excluded("C27-array-string-append-shared") {
		appendsToParentArray := func(op Op) bool {
			return op.Kind == "append-str" && isIndexed(parentKind(c, op.Name))
		}
		if hasOp(c.S, appendsToParentArray) {
			return "C27-array-string-append-shared"
		}
		// fm sees the caller's variables (dynamic scope)
		if hasOp(c.S, func(op Op) bool { return op.Kind == "call-fm" }) && hasOp(c.Mutator, appendsToParentArray) {
			return "C27-array-string-append-shared"
		}
	}
	// the last stage of a pipeline runs in the parent shell itself
	// (C26 lists the same defect as C26-last-pipeline-stage-in-parent)
	if (vh.Excluded("C27-last-pipeline-stage-in-parent") || vh.Excluded("C26-last-pipeline-stage-in-parent")) && c.Ctx == "pipe-last" {
		return "C27-last-pipeline-stage-in-parent"
	}
	return ""
}
