// C27: Subshells cannot change the parent shell.
//
// A case is a parent state (variables of every kind, functions, aliases,
// options, working directory, positional parameters, optionally locals of an
// enclosing function), a list S of state-mutating commands and an isolating
// context. The parent state is dumped by a fixed shell program before and
// after the context ran S; the two dumps must be byte-identical, and the
// exported Runner fields (Vars, Funcs, Dir, Params) must compare equal too.
package c27

import (
	"bytes"
	"context"
	"fmt"
	"os"
	"path/filepath"
	"sort"
	"strings"
	"sync"
	"testing"
	"time"

	"mvdan.cc/sh/v3/expand"
	"mvdan.cc/sh/v3/interp"
	"mvdan.cc/sh/v3/syntax"
	"pgregory.net/rapid"

	"verifh/oracle"
	"verifh/vh"
)

func TestMain(m *testing.M) { vh.Main(m) }

// Var is one variable of the parent state.
type Var struct {
	Name string `json:"name"`
	// Kind: scalar | dense | sparse | holes | grown | nofirst | assoc
	Kind string   `json:"kind"`
	Vals []string `json:"vals"`
	// Attr: "" | export | readonly
	Attr string `json:"attr,omitempty"`
}

// Op is one state-mutating command.
type Op struct {
	Kind string   `json:"kind"`
	Name string   `json:"name,omitempty"`
	Vals []string `json:"vals,omitempty"`
	Idx  int      `json:"idx,omitempty"`
	Key  string   `json:"key,omitempty"`
	Arg  string   `json:"arg,omitempty"`
}

type Case struct {
	Vars    []Var    `json:"vars"`
	Funcs   []string `json:"funcs,omitempty"`   // plain functions defined in the parent
	Mutator []Op     `json:"mutator,omitempty"` // body of function fm (global mutations), if any
	Aliases []string `json:"aliases,omitempty"`
	Opts    []string `json:"opts,omitempty"` // option-setting commands of the parent
	Cwd     string   `json:"cwd,omitempty"`
	Params  []string `json:"params,omitempty"`
	InFunc  bool     `json:"in_func,omitempty"`
	Locals  []Var    `json:"locals,omitempty"`
	S       []Op     `json:"s"`
	// Ctx: subshell | cmdsubst | cmdsubst-assign | procin | procout |
	// pipe-first | pipe-mid | pipe-last | bg | api
	Ctx  string `json:"ctx"`
	Bash bool   `json:"bash,omitempty"` // also run the script under bash (harness sanity)
}

var (
	scalarNames = []string{"s1", "s2", "s3", "r1"}
	arrayNames  = []string{"a1", "a2"}
	assocNames  = []string{"m1"}
	newNames    = []string{"n1", "n2", "n3"} // never set in the parent
	localNames  = []string{"l1", "la", "s1", "a1"}
	funcNames   = []string{"f1", "f2"}
	aliasNames  = []string{"al1", "al2"}
	keys        = []string{"k1", "k2", "k3"}
	words       = []string{"x", "y", "zz", "ab", "q1", "w"}
	dirs        = []string{"d1", "d1/d2", "d3"}
	ctxs        = []string{"subshell", "cmdsubst", "cmdsubst-assign", "procin", "procout", "pipe-first", "pipe-mid", "pipe-last", "bg", "api"}
	parentOpts  = []string{"set -f", "set -a", "set -o pipefail", "shopt -s nullglob", "shopt -s dotglob", "shopt -s extglob", "shopt -s globstar", "shopt -s nocaseglob", "shopt -s expand_aliases"}
	subOpts     = []string{"set -f", "set +f", "set -a", "set -u", "set -e", "set -o pipefail", "set +o pipefail", "set -o noglob", "set -o allexport",
		"shopt -s nullglob", "shopt -u nullglob", "shopt -s dotglob", "shopt -s extglob", "shopt -s globstar", "shopt -s nocaseglob", "shopt -s expand_aliases", "shopt -u expand_aliases", "shopt -u extglob"}
	opKinds = []string{"assign", "append-str", "arr-set", "arr-sparse", "arr-append", "elem-set", "key-set", "unset", "unset-elem", "unset-key",
		"export", "export-assign", "readonly", "func-def", "unset-f", "alias", "unalias", "opt", "cd", "pushd", "set-params", "shift",
		"declare-g", "declare-a", "declare-A", "read", "read-a", "call-fm", "for", "default-assign", "arith-assign"}
)

func word(t *rapid.T) string { return rapid.SampledFrom(words).Draw(t, "w") }

func wordsN(t *rapid.T, lo, hi int) []string {
	return rapid.SliceOfN(rapid.SampledFrom(words), lo, hi).Draw(t, "ws")
}

func genVar(t *rapid.T, name, kind string) Var {
	v := Var{Name: name, Kind: kind}
	switch kind {
	case "scalar":
		v.Vals = wordsN(t, 1, 1)
	case "assoc":
		v.Vals = wordsN(t, 1, 3) // values of k1, k2, k3
	default:
		v.Vals = wordsN(t, 2, 4)
	}
	return v
}

var arrayKinds = []string{"dense", "sparse", "holes", "grown", "nofirst"}

func genOp(t *rapid.T, inFunc bool) Op {
	op := Op{Kind: rapid.SampledFrom(opKinds).Draw(t, "opkind")}
	pick := func(pools ...[]string) string {
		var all []string
		for _, p := range pools {
			all = append(all, p...)
		}
		if inFunc {
			all = append(all, "l1", "la")
		}
		return rapid.SampledFrom(all).Draw(t, "name")
	}
	// most ops aim at a name of the fitting kind, some at any name
	any := rapid.IntRange(0, 5).Draw(t, "anyname") == 0
	everything := [][]string{scalarNames, arrayNames, assocNames, newNames}
	switch op.Kind {
	case "assign", "append-str", "export-assign", "readonly", "declare-g", "read", "for", "default-assign":
		if any {
			op.Name = pick(everything...)
		} else {
			op.Name = pick(scalarNames, arrayNames, newNames[:1])
		}
		op.Vals = wordsN(t, 1, 1)
	case "arith-assign":
		op.Name = pick(scalarNames, newNames[:1])
		op.Idx = rapid.IntRange(0, 9).Draw(t, "num")
	case "arr-set", "arr-append", "declare-a", "read-a":
		if any {
			op.Name = pick(everything...)
		} else {
			op.Name = pick(arrayNames, newNames[1:2])
		}
		op.Vals = wordsN(t, 0, 3)
	case "arr-sparse":
		op.Name = pick(arrayNames, newNames[1:2])
		op.Vals = wordsN(t, 1, 2)
		op.Idx = rapid.IntRange(0, 7).Draw(t, "idx")
	case "elem-set", "unset-elem":
		if any {
			op.Name = pick(scalarNames, arrayNames, newNames)
		} else {
			op.Name = pick(arrayNames)
		}
		op.Idx = rapid.IntRange(-2, 7).Draw(t, "idx")
		op.Vals = wordsN(t, 1, 1)
	case "key-set", "unset-key", "declare-A":
		op.Name = pick(assocNames, newNames[2:3])
		op.Key = rapid.SampledFrom(keys).Draw(t, "key")
		op.Vals = wordsN(t, 1, 1)
	case "unset", "export":
		op.Name = pick(everything...)
	case "func-def", "unset-f":
		op.Name = rapid.SampledFrom([]string{"f1", "f2", "fm", "nf"}).Draw(t, "fname")
		op.Vals = wordsN(t, 1, 1)
	case "alias", "unalias":
		op.Name = rapid.SampledFrom([]string{"al1", "al2", "nal"}).Draw(t, "aname")
		op.Vals = wordsN(t, 1, 1)
	case "opt":
		op.Arg = rapid.SampledFrom(subOpts).Draw(t, "opt")
	case "cd", "pushd":
		op.Arg = rapid.SampledFrom([]string{"d1", "d2", "d3", "..", "d1/d2", "../d3"}).Draw(t, "dir")
	case "set-params":
		op.Vals = wordsN(t, 0, 3)
	case "shift", "call-fm":
	}
	return op
}

func gen(t *rapid.T) Case {
	var c Case
	c.Ctx = rapid.SampledFrom(ctxs).Draw(t, "ctx")
	c.InFunc = c.Ctx != "api" && rapid.IntRange(0, 3).Draw(t, "infunc") == 0
	for _, n := range scalarNames {
		if rapid.IntRange(0, 4).Draw(t, "have") == 0 {
			continue
		}
		v := genVar(t, n, "scalar")
		switch n {
		case "s3":
			v.Attr = "export"
		case "r1":
			v.Attr = "readonly"
		}
		c.Vars = append(c.Vars, v)
	}
	for _, n := range arrayNames {
		if rapid.IntRange(0, 5).Draw(t, "have") == 0 {
			continue
		}
		v := genVar(t, n, rapid.SampledFrom(arrayKinds).Draw(t, "akind"))
		if n == "a2" {
			v.Attr = rapid.SampledFrom([]string{"", "", "export", "readonly"}).Draw(t, "attr")
		}
		c.Vars = append(c.Vars, v)
	}
	if rapid.IntRange(0, 3).Draw(t, "have") != 0 {
		c.Vars = append(c.Vars, genVar(t, "m1", "assoc"))
	}
	for _, n := range funcNames {
		if rapid.Bool().Draw(t, "havef") {
			c.Funcs = append(c.Funcs, n)
		}
	}
	if rapid.IntRange(0, 2).Draw(t, "havefm") == 0 {
		n := rapid.IntRange(1, 3).Draw(t, "nfm")
		for i := 0; i < n; i++ {
			op := genOp(t, false)
			if op.Kind == "call-fm" {
				op.Kind = "shift"
			}
			c.Mutator = append(c.Mutator, op)
		}
	}
	for _, n := range aliasNames {
		if rapid.Bool().Draw(t, "havea") {
			c.Aliases = append(c.Aliases, n)
		}
	}
	c.Opts = rapid.SliceOfNDistinct(rapid.SampledFrom(parentOpts), 0, 3, rapid.ID[string]).Draw(t, "opts")
	c.Cwd = rapid.SampledFrom([]string{"", "", "d1", "d1/d2", "d3"}).Draw(t, "cwd")
	c.Params = wordsN(t, 0, 3)
	if c.InFunc {
		for _, n := range localNames {
			if !rapid.Bool().Draw(t, "havel") {
				continue
			}
			kind := "scalar"
			if n == "la" || n == "a1" {
				kind = rapid.SampledFrom(arrayKinds).Draw(t, "lkind")
			}
			c.Locals = append(c.Locals, genVar(t, n, kind))
		}
	}
	n := rapid.IntRange(1, 5).Draw(t, "ns")
	for i := 0; i < n; i++ {
		c.S = append(c.S, genOp(t, c.InFunc))
	}
	c.Bash = c.Ctx != "api" && rapid.IntRange(0, 39).Draw(t, "bash") == 23
	return c
}

// ---- rendering ------------------------------------------------------------

func renderVar(v Var, local bool) string {
	pfx := ""
	if local {
		pfx = "local "
	}
	var b strings.Builder
	val := func(i int) string {
		if i < len(v.Vals) {
			return v.Vals[i]
		}
		return "x"
	}
	switch v.Kind {
	case "scalar":
		fmt.Fprintf(&b, "%s%s=%s\n", pfx, v.Name, val(0))
	case "dense":
		fmt.Fprintf(&b, "%s%s=(%s)\n", pfx, v.Name, strings.Join(v.Vals, " "))
	case "sparse":
		var el []string
		for i, s := range v.Vals {
			el = append(el, fmt.Sprintf("[%d]=%s", 2+3*i, s))
		}
		fmt.Fprintf(&b, "%s%s=(%s)\n", pfx, v.Name, strings.Join(el, " "))
	case "holes":
		fmt.Fprintf(&b, "%s%s=(%s)\nunset '%s[1]'\n", pfx, v.Name, strings.Join(v.Vals, " "), v.Name)
	case "grown":
		fmt.Fprintf(&b, "%s%s=(%s)\n", pfx, v.Name, val(0))
		for _, s := range v.Vals[min(1, len(v.Vals)):] {
			fmt.Fprintf(&b, "%s+=(%s)\n", v.Name, s)
		}
	case "nofirst":
		fmt.Fprintf(&b, "%s%s=(%s)\nunset '%s[0]'\n", pfx, v.Name, strings.Join(v.Vals, " "), v.Name)
	case "assoc":
		var el []string
		for i, s := range v.Vals {
			el = append(el, fmt.Sprintf("[%s]=%s", keys[i%len(keys)], s))
		}
		if local {
			fmt.Fprintf(&b, "local -A %s=(%s)\n", v.Name, strings.Join(el, " "))
		} else {
			fmt.Fprintf(&b, "declare -A %s=(%s)\n", v.Name, strings.Join(el, " "))
		}
	}
	switch v.Attr {
	case "export":
		fmt.Fprintf(&b, "export %s\n", v.Name)
	case "readonly":
		fmt.Fprintf(&b, "readonly %s\n", v.Name)
	}
	return b.String()
}

func renderOp(op Op) string {
	v0 := "x"
	if len(op.Vals) > 0 {
		v0 = op.Vals[0]
	}
	list := strings.Join(op.Vals, " ")
	switch op.Kind {
	case "assign":
		return fmt.Sprintf("%s=%s", op.Name, v0)
	case "append-str":
		return fmt.Sprintf("%s+=%s", op.Name, v0)
	case "arr-set":
		return fmt.Sprintf("%s=(%s)", op.Name, list)
	case "arr-sparse":
		var el []string
		for i, s := range op.Vals {
			el = append(el, fmt.Sprintf("[%d]=%s", op.Idx+2*i, s))
		}
		return fmt.Sprintf("%s=(%s)", op.Name, strings.Join(el, " "))
	case "arr-append":
		return fmt.Sprintf("%s+=(%s)", op.Name, list)
	case "elem-set":
		return fmt.Sprintf("%s[%d]=%s", op.Name, op.Idx, v0)
	case "key-set":
		return fmt.Sprintf("%s[%s]=%s", op.Name, op.Key, v0)
	case "unset":
		return "unset " + op.Name
	case "unset-elem":
		return fmt.Sprintf("unset '%s[%d]'", op.Name, op.Idx)
	case "unset-key":
		return fmt.Sprintf("unset '%s[%s]'", op.Name, op.Key)
	case "export":
		return "export " + op.Name
	case "export-assign":
		return fmt.Sprintf("export %s=%s", op.Name, v0)
	case "readonly":
		return fmt.Sprintf("readonly %s=%s", op.Name, v0)
	case "func-def":
		return fmt.Sprintf("%s() { echo new-%s-%s; }", op.Name, op.Name, v0)
	case "unset-f":
		return "unset -f " + op.Name
	case "alias":
		return fmt.Sprintf("alias %s='echo new-%s '", op.Name, v0)
	case "unalias":
		return "unalias " + op.Name
	case "opt":
		return op.Arg
	case "cd":
		return "cd " + op.Arg
	case "pushd":
		return "pushd " + op.Arg + " >/dev/null"
	case "set-params":
		return strings.TrimSpace("set -- " + list)
	case "shift":
		return "shift"
	case "declare-g":
		return fmt.Sprintf("declare -g %s=%s", op.Name, v0)
	case "declare-a":
		return fmt.Sprintf("declare -a %s=(%s)", op.Name, list)
	case "declare-A":
		return fmt.Sprintf("declare -A %s=([%s]=%s)", op.Name, op.Key, v0)
	case "read":
		return fmt.Sprintf("read %s <<< %s", op.Name, v0)
	case "read-a":
		return fmt.Sprintf("read -a %s <<< \"%s\"", op.Name, list)
	case "call-fm":
		return "fm"
	case "for":
		return fmt.Sprintf("for %s in %s q; do :; done", op.Name, v0)
	case "default-assign":
		return fmt.Sprintf(": ${%s:=%s}", op.Name, v0)
	case "arith-assign":
		return fmt.Sprintf(": $((%s=%d))", op.Name, op.Idx)
	}
	return ":"
}

func renderOps(ops []Op, sep string) string {
	var parts []string
	for _, op := range ops {
		parts = append(parts, renderOp(op))
	}
	return strings.Join(parts, sep)
}

// dump prints the parent state; it reads only, and it is the same text for
// every case (all names of all pools, set or not).
func dump() string {
	var b strings.Builder
	b.WriteString("{\n")
	for _, n := range []string{"s1", "s2", "s3", "r1", "n1", "l1"} {
		fmt.Fprintf(&b, "echo \"%s=${%s-U}|${%s+S}\"\n", n, n, n)
	}
	b.WriteString("declare -p s1 s2 s3 r1 n1 l1 a1 a2 n2 la\n")
	for _, n := range []string{"a1", "a2", "n2", "la", "s1"} {
		// (the interpreter treats the keys of an unset name as a fatal "invalid
		// indirect expansion": C21's domain, kept out of this dump)
		fmt.Fprintf(&b, "if ((${#%s[@]})); then printf '%sk'; printf ' <%%s>' \"${!%s[@]}\"; echo; fi\n", n, n, n)
		fmt.Fprintf(&b, "printf '%sv'; printf ' <%%s>' \"${%s[@]}\"; echo\n", n, n)
		fmt.Fprintf(&b, "echo \"%sn=${#%s[@]}\"\n", n, n)
	}
	for _, n := range []string{"m1", "n3"} {
		for _, k := range keys {
			fmt.Fprintf(&b, "echo \"%s[%s]=${%s[%s]-U}\"\n", n, k, n, k)
		}
		fmt.Fprintf(&b, "echo \"%sn=${#%s[@]} attr=${%s@a}\"\n", n, n, n)
	}
	b.WriteString("declare -f f1 f2 fm nf\n")
	b.WriteString("f1\nf2\nnf\n")
	b.WriteString("alias al1\nalias al2\nalias nal\n")
	b.WriteString("set -o\n")
	b.WriteString("shopt dotglob expand_aliases extglob globstar nocaseglob nullglob\n")
	b.WriteString("echo \"flags=$-\"\n")
	b.WriteString("pwd\necho \"PWD=$PWD OLDPWD=${OLDPWD-U}\"\ndirs\n")
	b.WriteString("printf 'params %s' \"$#\"; printf ' <%s>' \"$@\"; echo\n")
	b.WriteString("} 2>/dev/null\n")
	return b.String()
}

const (
	mark1 = "@@C27-BEFORE-END@@"
	mark2 = "@@C27-AFTER-BEGIN@@"
)

func renderCtx(c Case) string {
	s := renderOps(c.S, "; ")
	switch c.Ctx {
	case "subshell":
		return "( " + s + " )"
	case "cmdsubst":
		return ": \"$( " + s + " )\""
	case "cmdsubst-assign":
		return "cx=$( " + s + " )"
	case "procin":
		return "read -r cx < <( " + s + " )"
	case "procout":
		return ": > >( " + s + " )\nwait"
	case "pipe-first":
		return "{ " + s + "; } | true"
	case "pipe-mid":
		return "true | { " + s + "; } | true"
	case "pipe-last":
		return "true | { " + s + "; }"
	case "bg":
		return "{ " + s + "; } &\nwait"
	}
	return ":"
}

// parts returns the three pieces of the program: everything up to the end of
// the first dump, the context statement, and the second dump. In function
// mode the pieces are: global setup plus the definition of main, the call of
// main, nothing.
func parts(c Case) (string, string, string) {
	var g strings.Builder
	for _, v := range c.Vars {
		g.WriteString(renderVar(v, false))
	}
	for _, f := range c.Funcs {
		fmt.Fprintf(&g, "%s() { echo body-%s; }\n", f, f)
	}
	if len(c.Mutator) > 0 {
		fmt.Fprintf(&g, "fm() {\n%s\n}\n", renderOps(c.Mutator, "\n"))
	}
	for _, a := range c.Aliases {
		fmt.Fprintf(&g, "alias %s='echo old-%s '\n", a, a)
	}
	for _, o := range c.Opts {
		g.WriteString(o + "\n")
	}
	if c.Cwd != "" {
		fmt.Fprintf(&g, "cd %s\n", c.Cwd)
	}
	if !c.InFunc {
		g.WriteString(strings.TrimSpace("set -- "+strings.Join(c.Params, " ")) + "\n")
		return g.String() + dump() + "echo " + mark1 + "\n", renderCtx(c) + "\n", "echo " + mark2 + "\n" + dump()
	}
	g.WriteString("set -- outer\n")
	g.WriteString("main() {\n")
	for _, v := range c.Locals {
		g.WriteString(renderVar(v, true))
	}
	g.WriteString(dump() + "echo " + mark1 + "\n" + renderCtx(c) + "\necho " + mark2 + "\n" + dump())
	g.WriteString("}\n")
	return g.String(), strings.TrimSpace("main "+strings.Join(c.Params, " ")) + "\n", ""
}

// ---- evaluation -----------------------------------------------------------

func mkdirs(dir string) error {
	for _, d := range []string{"d1/d2", "d3", "d1/d3"} {
		if err := os.MkdirAll(filepath.Join(dir, d), 0o755); err != nil {
			return err
		}
	}
	return nil
}

var (
	wdOnce sync.Once
	wdPath string
	wdErr  error
)

// workDir is the working directory tree (d1/d2, d1/d3, d3) shared by all
// cases of this process: no generated command creates or removes files (the
// interpreter's FIFOs for process substitutions are removed by it), so the
// tree is the same for every case. It lives under $VERIF_SCRATCH.
func workDir() (string, error) {
	wdOnce.Do(func() {
		wdPath, wdErr = oracle.NewDir()
		if wdErr == nil {
			wdErr = mkdirs(wdPath)
		}
	})
	return wdPath, wdErr
}

func splitDumps(out string) (before, after string, ok bool) {
	i := strings.Index(out, mark1)
	j := strings.LastIndex(out, mark2)
	if i < 0 || j < 0 || j < i {
		return "", "", false
	}
	return out[:i], strings.TrimPrefix(out[j+len(mark2):], "\n"), true
}

func varString(v expand.Variable) string {
	var b strings.Builder
	fmt.Fprintf(&b, "set=%v local=%v exp=%v ro=%v kind=%d str=%q list=%q idx=%v map=[", v.Set, v.Local, v.Exported, v.ReadOnly, v.Kind, v.Str, v.List, v.Indexes)
	ks := make([]string, 0, len(v.Map))
	for k := range v.Map {
		ks = append(ks, k)
	}
	sort.Strings(ks)
	for _, k := range ks {
		fmt.Fprintf(&b, "%q:%q ", k, v.Map[k])
	}
	b.WriteString("]")
	return b.String()
}

type snapshot struct {
	vars   map[string]string
	funcs  map[string]string
	fptr   map[string]*syntax.Stmt
	dir    string
	params string
}

func snap(r *interp.Runner) snapshot {
	s := snapshot{vars: map[string]string{}, funcs: map[string]string{}, fptr: map[string]*syntax.Stmt{}}
	for n, v := range r.Vars {
		if n == "cx" {
			continue // the target of cx=$( S ) and of read -r cx < <( S )
		}
		s.vars[n] = varString(v)
	}
	pr := syntax.NewPrinter()
	for n, f := range r.Funcs {
		var b bytes.Buffer
		pr.Print(&b, f)
		s.funcs[n] = b.String()
		s.fptr[n] = f
	}
	s.dir = r.Dir
	s.params = fmt.Sprintf("%q", r.Params)
	return s
}

func diffMaps(what string, a, b map[string]string) string {
	var names []string
	for n := range a {
		names = append(names, n)
	}
	for n := range b {
		if _, ok := a[n]; !ok {
			names = append(names, n)
		}
	}
	sort.Strings(names)
	for _, n := range names {
		va, oka := a[n]
		vb, okb := b[n]
		switch {
		case oka && !okb:
			return fmt.Sprintf("%s %s disappeared (was %s)", what, n, va)
		case !oka && okb:
			return fmt.Sprintf("%s %s appeared (%s)", what, n, vb)
		case va != vb:
			return fmt.Sprintf("%s %s changed: before %s, after %s", what, n, va, vb)
		}
	}
	return ""
}

func (a snapshot) diff(b snapshot) string {
	if d := diffMaps("Runner.Vars", a.vars, b.vars); d != "" {
		return d
	}
	if d := diffMaps("Runner.Funcs", a.funcs, b.funcs); d != "" {
		return d
	}
	for n, p := range a.fptr {
		if b.fptr[n] != p {
			return fmt.Sprintf("Runner.Funcs[%s] points at another statement", n)
		}
	}
	if a.dir != b.dir {
		return fmt.Sprintf("Runner.Dir changed: %s -> %s", a.dir, b.dir)
	}
	if a.params != b.params {
		return fmt.Sprintf("Runner.Params changed: %s -> %s", a.params, b.params)
	}
	return ""
}

type syncBuf struct {
	mu sync.Mutex
	b  bytes.Buffer
}

func (s *syncBuf) Write(p []byte) (int, error) {
	s.mu.Lock()
	defer s.mu.Unlock()
	if s.b.Len() < 1<<20 {
		s.b.Write(p)
	}
	return len(p), nil
}

func (s *syncBuf) String() string {
	s.mu.Lock()
	defer s.mu.Unlock()
	return s.b.String()
}

type interpOutcome struct {
	out     string
	apiDiff string
	panic   any
	timeout bool
	infra   error
}

func parseSrc(src string) (*syntax.File, error) {
	return syntax.NewParser(syntax.Variant(syntax.LangBash)).Parse(strings.NewReader(src), "")
}

func runInterp(c Case, dir string) (res interpOutcome) {
	p1, p2, p3 := parts(c)
	var files []*syntax.File
	for _, src := range []string{p1, p2, p3} {
		f, err := parseSrc(src)
		if err != nil {
			res.infra = fmt.Errorf("generated program does not parse: %v\n%s", err, src)
			return res
		}
		files = append(files, f)
	}
	var out syncBuf
	var errb syncBuf
	r, err := interp.New(
		interp.Dir(dir),
		interp.Env(expand.ListEnviron(oracle.Env(dir)...)),
		interp.StdIO(nil, &out, &errb),
	)
	if err != nil {
		res.infra = err
		return res
	}
	ctx, cancel := context.WithTimeout(context.Background(), 8*time.Second)
	defer cancel()
	defer func() {
		if e := recover(); e != nil {
			res.panic = e
		}
		res.out = out.String()
		res.timeout = ctx.Err() != nil
	}()
	runStmts := func(r *interp.Runner, f *syntax.File) {
		for _, st := range f.Stmts {
			r.Run(ctx, st)
			if r.Exited() {
				return
			}
		}
	}
	runStmts(r, files[0])
	before := snap(r)
	if c.Ctx == "api" {
		// the documented API: a Subshell copy "can be modified without
		// affecting the original"
		sf, err := parseSrc(renderOps(c.S, "\n") + "\n")
		if err != nil {
			res.infra = err
			return res
		}
		r2 := r.Subshell()
		runStmts(r2, sf)
	} else {
		runStmts(r, files[1])
	}
	after := snap(r)
	res.apiDiff = before.diff(after)
	runStmts(r, files[2])
	if res.apiDiff == "" {
		res.apiDiff = after.diff(snap(r))
		if res.apiDiff != "" {
			res.apiDiff = "the dump program itself changed the state: " + res.apiDiff
		}
	}
	return res
}

func firstDiff(a, b string) string {
	la, lb := strings.Split(a, "\n"), strings.Split(b, "\n")
	for i := 0; i < len(la) || i < len(lb); i++ {
		var x, y string
		if i < len(la) {
			x = la[i]
		}
		if i < len(lb) {
			y = lb[i]
		}
		if x != y {
			return fmt.Sprintf("before %q, after %q", x, y)
		}
	}
	return ""
}

// parentHas reports whether the entity an op aims at exists in the parent.
func parentHas(c Case, op Op) bool {
	switch op.Kind {
	case "opt", "cd", "pushd":
		return true
	case "set-params", "shift":
		return len(c.Params) > 0
	case "func-def", "unset-f":
		if op.Name == "fm" {
			return len(c.Mutator) > 0
		}
		for _, f := range c.Funcs {
			if f == op.Name {
				return true
			}
		}
		return false
	case "alias", "unalias":
		for _, a := range c.Aliases {
			if a == op.Name {
				return true
			}
		}
		return false
	case "call-fm":
		for _, m := range c.Mutator {
			if m.Kind != "call-fm" && parentHas(c, m) {
				return true
			}
		}
		return false
	}
	return parentKind(c, op.Name) != ""
}

// parentKind is the kind of the variable as the context sees it (a local of
// the enclosing function shadows a global), or "".
func parentKind(c Case, name string) string {
	if c.InFunc {
		for _, v := range c.Locals {
			if v.Name == name {
				return v.Kind
			}
		}
	}
	for _, v := range c.Vars {
		if v.Name == name {
			return v.Kind
		}
	}
	return ""
}

func check(c Case) (res vh.Result) {
	if id := excluded(c); id != "" {
		return vh.Result{Skipped: true, Classes: []string{"excluded:" + id}}
	}
	res.Classes = append(res.Classes, "ctx:"+c.Ctx)
	if c.InFunc {
		res.Classes = append(res.Classes, "in-function")
	}
	for _, op := range c.S {
		if parentHas(c, op) {
			res.Nontrivial = true
			res.Classes = append(res.Classes, "hits:"+op.Kind)
		}
	}
	dir, err := workDir()
	if err != nil {
		return vh.Result{Skipped: true, Classes: []string{"infra"}}
	}
	io := runInterp(c, dir)
	if io.infra != nil {
		return vh.Fail("harness: %v", io.infra)
	}
	if io.panic != nil {
		// C28 owns panics; they are not a statement about isolation
		return vh.Result{Skipped: true, Classes: []string{"interp-panic(C28)"}}
	}
	if io.timeout {
		return vh.Result{Skipped: true, Classes: []string{"interp-timeout"}}
	}
	var fail string
	before, after, ok := splitDumps(io.out)
	switch {
	case !ok:
		// the parent shell did not reach the second dump: it exited, which
		// is a change of the parent too (set -e / exit leaking out)
		fail = fmt.Sprintf("the parent shell did not survive the context: output %q", tail(io.out))
	case before != after:
		fail = "parent state dump differs after the context: " + firstDiff(before, after)
	case io.apiDiff != "":
		fail = "exported Runner state differs after the context: " + io.apiDiff
	}
	if c.Bash || fail != "" {
		if c.Ctx != "api" {
			p1, p2, p3 := parts(c)
			br := oracle.RunShell(p1+p2+p3, oracle.Opts{Dir: dir, Timeout: 10 * time.Second})
			if br.Err != nil || br.Timeout {
				return vh.Result{Skipped: true, Classes: []string{"bash-infra"}}
			}
			bb, ba, ok := splitDumps(string(br.Stdout))
			if !ok || bb != ba {
				// bash cannot leak state out of a forked subshell: the
				// generated program does not measure what it should
				// (counted: more than a handful means the dump needs fixing)
				if os.Getenv("C27_DEBUG") != "" {
					return vh.Fail("harness: the dump program is not invariant under bash itself: %s\nscript:\n%s", firstDiff(bb, ba), p1+p2+p3)
				}
				return vh.Result{Skipped: true, Classes: []string{"bash-dump-not-invariant(harness)"}}
			}
			res.Classes = append(res.Classes, "bash-sanity-ok")
		}
	}
	if fail != "" {
		p1, p2, p3 := parts(c)
		script := p1 + p2 + p3
		if c.Ctx == "api" {
			script = p1 + "# Runner.Subshell() copy runs:\n" + renderOps(c.S, "\n") + "\n" + p3
		}
		var kinds []string
		for _, op := range c.S {
			kinds = append(kinds, op.Kind)
		}
		return vh.Fail("[%s: %s] %s\ncontext: %s\nscript:\n%s", c.Ctx, strings.Join(kinds, ","), fail, strings.ReplaceAll(renderCtxOrAPI(c), "\n", "; "), script)
	}
	return res
}

func renderCtxOrAPI(c Case) string {
	if c.Ctx == "api" {
		return "Subshell().Run: " + renderOps(c.S, "; ")
	}
	return renderCtx(c)
}

func tail(s string) string {
	if len(s) > 200 {
		return "..." + s[len(s)-200:]
	}
	return s
}

var prop = vh.Prop[Case]{ID: "C27", Gen: gen, Check: check}

func TestC27(t *testing.T) { vh.Run(t, prop) }
