// C17: Glob patterns match exactly what bash matches.
//
// For every shell pattern and matching mode, pattern.Regexp either reports a
// syntax error for a malformed pattern or returns an expression that compiles
// and accepts exactly the strings the pattern matches under bash's rules.
//
// Judges:
//   - modes that `case $s in $p)` can express (EntireString without Filenames,
//     with or without ExtendedOperators / NoGlobCase): real bash, asked in
//     the same run;
//   - every other mode (unanchored search, Filenames and its sub-options):
//     the reference matcher verifh/globref, and only for patterns on which
//     that reference agreed with bash in this very run.
package c17

import (
	"fmt"
	"os"
	"regexp"
	"strings"
	"testing"
	"unicode/utf8"

	"mvdan.cc/sh/v3/pattern"
	"pgregory.net/rapid"

	"verifh/globref"
	"verifh/vh"
)

func TestMain(m *testing.M) {
	code := m.Run()
	stopJudge()
	vh.Flush()
	if judgeFailures > 0 {
		// An oracle that could not answer makes the run inconclusive, never
		// a pass and never a violation.
		fmt.Printf("C17: the bash judge failed %d time(s), last error: %v\n", judgeFailures, judgeLastErr)
		if code == 0 {
			code = 3
		}
	}
	os.Exit(code)
}

// The reference uses the same bit values as the package under test.
var _ = [1]struct{}{}[uint(pattern.Shortest)-uint(globref.Shortest)]
var _ = [1]struct{}{}[uint(pattern.Filenames)-uint(globref.Filenames)]
var _ = [1]struct{}{}[uint(pattern.EntireString)-uint(globref.EntireString)]
var _ = [1]struct{}{}[uint(pattern.NoGlobCase)-uint(globref.NoGlobCase)]
var _ = [1]struct{}{}[uint(pattern.NoGlobStar)-uint(globref.NoGlobStar)]
var _ = [1]struct{}{}[uint(pattern.GlobLeadingDot)-uint(globref.GlobLeadingDot)]
var _ = [1]struct{}{}[uint(pattern.ExtendedOperators)-uint(globref.ExtendedOperators)]

const (
	mS  = uint(globref.Shortest)
	mF  = uint(globref.Filenames)
	mE  = uint(globref.EntireString)
	mI  = uint(globref.NoGlobCase)
	mNS = uint(globref.NoGlobStar)
	mD  = uint(globref.GlobLeadingDot)
	mX  = uint(globref.ExtendedOperators)
)

// Case is one pattern, one mode and the strings it is tried on.
type Case struct {
	Pattern string   `json:"pattern"`
	Mode    uint     `json:"mode"`
	Cands   []string `json:"cands"`
}

// Known findings (see /verif/known_findings.json); each id names a syntactic
// class of cases that is skipped while the finding is listed as known.
const (
	// A "-" that stands for itself inside a bracket expression (first, after
	// a range or class) or a range whose end point is escaped is taken for an
	// invalid range: `[-+]`, `[--]`, `[a-\z]` are rejected, `[+-\*]` yields
	// an expression that does not compile.
	fDash = "C17-bracket-dash"
	// An extended operator whose list is not closed yields an expression that
	// does not compile (`@(a`); parentheses inside a list are not balanced
	// (`@(a(b)c)`).
	fParen = "C17-extglob-paren"
	// Filenames without GlobLeadingDot: only a "*" written at the start of a
	// path component refuses a leading "."; "?", bracket expressions, "***"
	// and extended operators match it.
	fDot = "C17-filenames-leading-dot"
	// Filenames: a bracket expression that holds "/" through a complement, a
	// range or a class matches "/".
	fSlash = "C17-filenames-bracket-slash"
	// NoGlobCase: [:upper:] and [:lower:] match letters of either case.
	fCaseClass = "C17-nocase-upper-lower"
	// Filenames + ExtendedOperators: "**(" is read as "**" followed by "(".
	fStarStarGroup = "C17-filenames-starstar-group"
)

// excluded: the exclusion class of a known finding is active. A replay always
// runs the full check, so that the saved case of a known finding keeps
// failing (and is reported as KNOWN-FINDING) for as long as the defect exists.
func excluded(id string) bool {
	return os.Getenv("VERIF_REPLAY") == "" && vh.Excluded(id)
}

func modeString(m uint) string {
	var parts []string
	for _, b := range []struct {
		bit  uint
		name string
	}{{mS, "Shortest"}, {mF, "Filenames"}, {mE, "EntireString"}, {mI, "NoGlobCase"}, {mNS, "NoGlobStar"}, {mD, "GlobLeadingDot"}, {mX, "ExtendedOperators"}} {
		if m&b.bit != 0 {
			parts = append(parts, b.name)
		}
	}
	if len(parts) == 0 {
		return "0"
	}
	return strings.Join(parts, "|")
}

func hasLeadingDot(s string) bool {
	return strings.HasPrefix(s, ".") || strings.Contains(s, "/.")
}

func hasDotDirComponent(s string) bool {
	for _, c := range strings.Split(s, "/") {
		if c == "." || c == ".." {
			return true
		}
	}
	return false
}

func isASCII(s string) bool {
	for i := 0; i < len(s); i++ {
		if s[i] >= 0x80 {
			return false
		}
	}
	return true
}

// facesComponentStart reports whether the pattern has an element other than a
// leading "*"/"**" that may have to match the first character of a path
// component: the class of finding fDot.
func facesComponentStart(p *globref.Pattern) bool {
	facing := true
	stars := 0
	for i := range p.Nodes {
		n := &p.Nodes[i]
		switch {
		case n.IsLit():
			facing = n.R == '/'
			stars = 0
		case n.IsGlobStar():
			// "**" itself is handled; "**/" ends at a component start.
			facing = true
			stars = 0
		case n.IsStar():
			if facing {
				stars++
				if stars >= 3 {
					return true
				}
			}
		default: // ?, bracket expression, extended operator
			if facing {
				return true
			}
		}
	}
	// a "/" inside an extended operator starts a component there
	slashInGroup := false
	p.Walk(func(n *globref.Node, depth int) {
		if depth > 0 && n.IsLit() && n.R == '/' {
			slashInGroup = true
		}
	})
	return slashInGroup
}

func check(c Case) (res vh.Result) {
	mode := c.Mode & 127
	if !utf8.ValidString(c.Pattern) || strings.ContainsRune(c.Pattern, 0) {
		return vh.Result{Skipped: true, Classes: []string{"skip:pattern-not-utf8"}}
	}
	res.Key = fmt.Sprintf("%d\x00%s", mode, c.Pattern)
	class := func(s string) { res.Classes = append(res.Classes, s) }
	class("mode:" + modeString(mode))

	p := globref.Parse(c.Pattern, globref.Mode(mode))
	// base: the same pattern the way `case` sees it (entire string, no
	// pathname rules).
	base := globref.Parse(c.Pattern, globref.Mode(mode&(mX|mI)))

	// ---- known findings: exclusion classes, decided on the case alone ----
	dropLeadingDot, dropSlash := false, false
	if p.Malformed == "" {
		misfire := false
		p.Walk(func(n *globref.Node, _ int) {
			if n.IsSet() {
				for _, d := range n.Set.Dashes {
					if d.Next != ']' && d.Prev > d.Next {
						misfire = true
					}
				}
			}
		})
		if misfire && excluded(fDash) {
			class("excluded:" + fDash)
			res.Skipped = true
			return res
		}
	}
	if strings.Contains(c.Pattern, "[") && excluded(fDash) &&
		(strings.Contains(c.Pattern, `-\`) || strings.Contains(c.Pattern, "-[:") || strings.Contains(c.Pattern, "-[.") || strings.Contains(c.Pattern, "-[=")) {
		// a range whose end point is escaped, or is a class: the end point
		// is not understood and the expression may not even compile
		class("excluded:" + fDash)
		res.Skipped = true
		return res
	}
	if mode&mX != 0 && excluded(fParen) {
		// unclosed per bash's scanner, or malformed for another reason
		// with a pattern list somewhere (whose end the translator may then
		// place differently, again reaching the end of the pattern)
		bad := globref.UnclosedGroup(c.Pattern) || (p.Malformed != "" && hasGroupOpener(c.Pattern))
		p.Walk(func(n *globref.Node, depth int) {
			if depth > 0 && n.IsLit() && n.R == '(' && n.End-n.Pos == 1 {
				bad = true
			}
		})
		if bad {
			class("excluded:" + fParen)
			res.Skipped = true
			return res
		}
	}
	if mode&mF != 0 && mode&mX != 0 && strings.Contains(c.Pattern, "**(") && excluded(fStarStarGroup) {
		class("excluded:" + fStarStarGroup)
		res.Skipped = true
		return res
	}
	if mode&mI != 0 && excluded(fCaseClass) {
		bad := false
		p.Walk(func(n *globref.Node, _ int) {
			if n.IsSet() {
				for _, cl := range n.Set.Classes() {
					if cl == "upper" || cl == "lower" {
						bad = true
					}
				}
			}
		})
		if bad {
			class("excluded:" + fCaseClass)
			res.Skipped = true
			return res
		}
	}
	if mode&mF != 0 && mode&mD == 0 && excluded(fDot) && facesComponentStart(p) {
		class("excluded:" + fDot)
		dropLeadingDot = true
	}
	if mode&mF != 0 && excluded(fSlash) {
		p.Walk(func(n *globref.Node, _ int) {
			if n.IsSet() && n.Set.Contains('/') {
				dropSlash = true
			}
		})
		if dropSlash {
			class("excluded:" + fSlash)
		}
	}

	// ---- candidate strings inside the property's domain ----
	hasClass := false
	p.Walk(func(n *globref.Node, _ int) {
		if n.IsSet() && len(n.Set.Classes()) > 0 {
			hasClass = true
		}
	})
	var cands []string
	seen := map[string]bool{}
	// bash's matcher (and any backtracking matcher) is exponential in the
	// subject length for nested pattern lists: keep subjects short.
	maxRunes := 16
	if hasGroup(p) {
		maxRunes = 10
	}
	for _, s := range c.Cands {
		switch {
		case seen[s]:
		case utf8.RuneCountInString(s) > maxRunes:
		case !utf8.ValidString(s) || strings.ContainsRune(s, 0):
			// not a shell string in a UTF-8 locale
		case hasClass && !isASCII(s):
			// class membership of non-ASCII characters depends on the locale
		case mode&mI != 0 && !isASCII(s) && !simpleFoldOnly(s):
			// exotic case folding differs between libc and Unicode tables
		case mode&mF != 0 && mode&mD != 0 && hasDotDirComponent(s):
			// "." and ".." are never produced by directory reading
		case dropLeadingDot && (hasLeadingDot(s) || (mode&mE == 0 && strings.Contains(s, "."))):
			// unanchored: every substring start is a component start
		case dropSlash && strings.Contains(s, "/"):
		default:
			seen[s] = true
			cands = append(cands, s)
		}
	}

	// ---- the code under test ----
	var expr string
	var err error
	if pe := guard(func() { expr, err = pattern.Regexp(c.Pattern, pattern.Mode(mode)) }); pe != nil {
		return failWith(res, "Regexp(%q, %s) panicked: %v", c.Pattern, modeString(mode), pe)
	}

	unspecified := p.Unspecified != "" || base.Unspecified != ""
	if err != nil {
		if unspecified {
			class("skip:unspecified")
			res.Skipped = true
		}
		switch e := err.(type) {
		case *pattern.SyntaxError, pattern.SyntaxError:
			class("result:syntax-error")
			if p.Malformed == "" && !unspecified {
				return failWith(res, "Regexp(%q, %s) = error %q, but the pattern is well formed (bash accepts it; reference parse found nothing malformed)", c.Pattern, modeString(mode), err)
			}
		case *pattern.NegExtGlobError:
			class("result:negext-error")
			if mode&mX == 0 {
				return failWith(res, "Regexp(%q, %s) = NegExtGlobError without ExtendedOperators", c.Pattern, modeString(mode))
			}
			if p.Malformed == "" && !unspecified {
				if len(p.NegGroups) == 0 {
					return failWith(res, "Regexp(%q, %s) = NegExtGlobError, but the pattern has no !(...) group", c.Pattern, modeString(mode))
				}
				for _, g := range e.Groups {
					ok := false
					for _, rg := range p.NegGroups {
						if rg[0] == g.Start && rg[1] == g.End {
							ok = true
						}
					}
					if !ok {
						return failWith(res, "Regexp(%q, %s) = NegExtGlobError group [%d,%d) = %q is not a !(...) group of the pattern (groups: %v)", c.Pattern, modeString(mode), g.Start, g.End, safeSlice(c.Pattern, g.Start, g.End), p.NegGroups)
					}
				}
			}
		default:
			return failWith(res, "Regexp(%q, %s) = error of type %T (%v), want *pattern.SyntaxError or *pattern.NegExtGlobError", c.Pattern, modeString(mode), err, err)
		}
		return res
	}

	rx, cerr := regexp.Compile(expr)
	if cerr != nil {
		return failWith(res, "Regexp(%q, %s) = %q with a nil error, but regexp.Compile fails: %q", c.Pattern, modeString(mode), expr, cerr.Error())
	}
	if p.Malformed != "" {
		// Malformed but accepted: nothing says what it should match.
		class("malformed-accepted")
		return res
	}
	if unspecified {
		class("skip:unspecified")
		res.Skipped = true
		return res
	}
	class("result:regexp")

	// ---- the judges ----
	bashVerdict, berr := bashMatch(c.Pattern, mode&mX != 0, mode&mI != 0, cands)
	if berr == errJudgeTimeout {
		class("skip:bash-timeout")
		res.Skipped = true
		return res
	}
	if berr != nil {
		class("skip:bash-judge-failed")
		res.Skipped = true
		return res
	}
	refOK := base.Malformed == ""
	for i, s := range cands {
		if !refOK {
			break
		}
		if base.Match(s) != bashVerdict[i] {
			refOK = false
			if os.Getenv("VERIF_C17_STRICTREF") != "" {
				return failWith(res, "HARNESS: reference and bash disagree: pattern %q (extglob=%v nocase=%v) string %q: reference %v, bash %v", c.Pattern, mode&mX != 0, mode&mI != 0, s, !bashVerdict[i], bashVerdict[i])
			}
		}
	}
	if base.Malformed != "" {
		// e.g. an invalid range inside a bracket that Filenames mode takes
		// literally because of a "/": bash cannot vouch for the reference
		class("ref-not-validated:malformed-without-filenames")
	} else if !refOK {
		class("ref-disagrees-with-bash")
	}
	entire := mode&mE != 0
	bashJudges := entire && mode&mF == 0
	if !bashJudges && !refOK {
		class("skip:reference-unreliable")
		res.Skipped = true
		return res
	}
	if bashJudges {
		class("judge:bash")
	} else {
		class("judge:reference")
	}
	nMatch, nNo := 0, 0
	for i, s := range cands {
		var want bool
		switch {
		case bashJudges:
			want = bashVerdict[i]
		case entire:
			want = p.Match(s)
		default:
			want = p.Contains(s)
		}
		if want {
			nMatch++
		} else {
			nNo++
		}
		got := rx.MatchString(s)
		if got != want {
			judge := "reference matcher (validated against bash on this pattern)"
			if bashJudges {
				judge = "bash"
			}
			return failWith(res, "pattern %q mode %s string %q: regexp %q says %v, %s says %v", c.Pattern, modeString(mode), s, expr, got, judge, want)
		}
	}
	// Shortest: "prefer the shortest match". Checked where the shortest match
	// is well defined by the leftmost start: unanchored, no pathname rules, no
	// pattern lists.
	if mode&mS != 0 && !entire && mode&mF == 0 && !hasGroup(p) {
		class("shortest-position")
		for _, s := range cands {
			ws, we, wok := p.Find(s)
			loc := rx.FindStringIndex(s)
			if wok != (loc != nil) {
				return failWith(res, "pattern %q mode %s string %q: FindStringIndex = %v, reference found=%v", c.Pattern, modeString(mode), s, loc, wok)
			}
			if wok && (loc[0] != ws || loc[1] != we) {
				return failWith(res, "pattern %q mode %s string %q: regexp %q finds [%d,%d), the leftmost shortest match is [%d,%d)", c.Pattern, modeString(mode), s, expr, loc[0], loc[1], ws, we)
			}
		}
	}
	meta := p.HasMeta()
	res.Nontrivial = meta && nMatch > 0 && nNo > 0
	if meta {
		class("has-meta")
	}
	p.Walk(func(n *globref.Node, _ int) {
		switch {
		case n.IsSet():
			class("elem:bracket")
			if len(n.Set.Classes()) > 0 {
				class("elem:class")
			}
			if n.Set.HasRange() {
				class("elem:range")
			}
		case n.IsGroup():
			class("elem:extglob-" + string(n.Op))
		case n.IsGlobStar():
			class("elem:globstar")
		}
	})
	if !isASCII(c.Pattern) {
		class("pattern:multibyte")
	}
	return res
}

func hasGroupOpener(pat string) bool {
	for _, op := range []string{"?(", "*(", "+(", "@(", "!("} {
		if strings.Contains(pat, op) {
			return true
		}
	}
	return false
}

func hasGroup(p *globref.Pattern) bool {
	g := false
	p.Walk(func(n *globref.Node, _ int) {
		if n.IsGroup() {
			g = true
		}
	})
	return g
}

// simpleFoldOnly: every non-ASCII rune of s is one whose case mapping is the
// same in Unicode's simple folding and in libc's towlower/towupper (Latin-1
// letters; caseless runes).
func simpleFoldOnly(s string) bool {
	for _, r := range s {
		if r < 0x80 {
			continue
		}
		if r >= 0xC0 && r <= 0xFE && r != 0xD7 && r != 0xF7 && r != 0xDF {
			continue
		}
		if r >= 0x4E00 && r <= 0x9FFF { // CJK: caseless
			continue
		}
		return false
	}
	return true
}

func safeSlice(s string, a, b int) string {
	if a < 0 || b > len(s) || a > b {
		return fmt.Sprintf("<out of range %d:%d>", a, b)
	}
	return s[a:b]
}

func failWith(res vh.Result, format string, args ...any) vh.Result {
	res.Err = fmt.Sprintf(format, args...)
	return res
}

func guard(f func()) (err error) {
	defer func() {
		if e := recover(); e != nil {
			err = fmt.Errorf("%v", e)
		}
	}()
	f()
	return nil
}

var prop = vh.Prop[Case]{ID: "C17", Gen: gen, Check: check}

func TestC17(t *testing.T) { vh.Run(t, prop) }

// ---------------------------------------------------------------------------
// rapid generator

var litRunes = []rune{'a', 'b', 'c', 'A', 'B', 'é', 'É', '世', '.', '/', '-', '_', '0', '9', ' ', '\n', ':', '+', '@', '!', '^', '{', '}', '$', '|', '(', ')', ']'}
var escRunes = []rune{'*', '?', '[', ']', '\\', '(', ')', '|', '-', '!', 'a', 'd', '0', 'n', '.', '/', 'é', '^', '+', '@'}
var setRunes = []rune{'a', 'b', 'c', 'z', 'A', 'Z', '0', '9', '.', '/', '-', '_', '!', '^', '*', '?', '[', '+', '|', '(', ')', 'é', ' ', ':', '='}
var classList = []string{"alnum", "alpha", "ascii", "blank", "cntrl", "digit", "graph", "lower", "print", "punct", "space", "upper", "word", "xdigit"}
var noise = []string{"[", "]", "(", ")", "|", "\\", "!", "^", "-", ":", "@", "+", "[:", ":]", "[!", "[]", "**", "***"}

var modePool = []uint{
	mE, mE, mE, mE | mX, mE | mX, mE | mX, mE | mI, mE | mX | mI,
	0, 0, mX, mI, mS, mS, mS | mI, mS | mX,
	mE | mS, mE | mNS | mD,
	mF | mE, mF | mE, mF | mE | mD, mF | mE | mNS, mF | mE | mNS | mD,
	mF | mE | mX, mF | mE | mX | mNS, mF | mE | mI, mF | mE | mX | mI | mD | mNS,
	mF, mF | mS,
}

func genBracket(t *rapid.T) string {
	var sb strings.Builder
	sb.WriteByte('[')
	switch rapid.IntRange(0, 5).Draw(t, "neg") {
	case 0:
		sb.WriteByte('!')
	case 1:
		sb.WriteByte('^')
	}
	if rapid.IntRange(0, 7).Draw(t, "rbfirst") == 0 {
		sb.WriteByte(']')
	}
	if rapid.IntRange(0, 7).Draw(t, "dashfirst") == 0 {
		sb.WriteByte('-')
	}
	n := rapid.IntRange(0, 4).Draw(t, "nitems")
	for i := 0; i < n; i++ {
		switch rapid.IntRange(0, 15).Draw(t, "item") {
		case 0, 1, 2, 3, 4, 5:
			sb.WriteRune(rapid.SampledFrom(setRunes).Draw(t, "ch"))
		case 6, 7, 8:
			a := rapid.SampledFrom(setRunes).Draw(t, "lo")
			b := rapid.SampledFrom(setRunes).Draw(t, "hi")
			if a > b && rapid.IntRange(0, 5).Draw(t, "keeporder") != 0 {
				a, b = b, a
			}
			sb.WriteRune(a)
			sb.WriteByte('-')
			sb.WriteRune(b)
		case 9, 10, 11:
			sb.WriteString("[:" + rapid.SampledFrom(classList).Draw(t, "class") + ":]")
		case 12, 13:
			sb.WriteByte('\\')
			sb.WriteRune(rapid.SampledFrom(escRunes).Draw(t, "esc"))
		case 14:
			sb.WriteString(rapid.SampledFrom([]string{"[:wrong:]", "[:alpha", "[.a.]", "[=a=]", "[:", "[.", "a-\\z", "+-\\*", "[:ALPHA:]"}).Draw(t, "odd"))
		case 15:
			sb.WriteByte('-')
		}
	}
	if rapid.IntRange(0, 7).Draw(t, "dashlast") == 0 {
		sb.WriteByte('-')
	}
	if rapid.IntRange(0, 11).Draw(t, "close") != 0 {
		sb.WriteByte(']')
	}
	return sb.String()
}

func genSeq(t *rapid.T, depth int, ext bool) string {
	var sb strings.Builder
	max := 6
	if depth > 0 {
		max = 3
	}
	n := rapid.IntRange(0, max).Draw(t, "ntok")
	for i := 0; i < n; i++ {
		k := rapid.IntRange(0, 23).Draw(t, "tok")
		switch {
		case k < 8:
			sb.WriteRune(rapid.SampledFrom(litRunes).Draw(t, "lit"))
		case k < 11:
			sb.WriteByte('*')
		case k < 13:
			sb.WriteByte('?')
		case k < 14:
			sb.WriteString(rapid.SampledFrom([]string{"**", "**/", "/**", "/**/", "/", "/.", "./"}).Draw(t, "path"))
		case k < 16:
			sb.WriteByte('\\')
			sb.WriteRune(rapid.SampledFrom(escRunes).Draw(t, "esc"))
		case k < 19:
			sb.WriteString(genBracket(t))
		case k < 22:
			if depth < 2 && (ext || rapid.IntRange(0, 3).Draw(t, "grpanyway") == 0) {
				sb.WriteByte(rapid.SampledFrom([]byte("?*+@!@+*")).Draw(t, "op"))
				sb.WriteByte('(')
				na := rapid.IntRange(1, 3).Draw(t, "nalt")
				for a := 0; a < na; a++ {
					if a > 0 {
						sb.WriteByte('|')
					}
					sb.WriteString(genSeq(t, depth+1, ext))
				}
				if rapid.IntRange(0, 15).Draw(t, "closegrp") != 0 {
					sb.WriteByte(')')
				}
			} else {
				sb.WriteRune(rapid.SampledFrom(litRunes).Draw(t, "lit"))
			}
		default:
			sb.WriteString(rapid.SampledFrom(noise).Draw(t, "noise"))
		}
	}
	return sb.String()
}

func gen(t *rapid.T) Case {
	var c Case
	c.Mode = rapid.SampledFrom(modePool).Draw(t, "mode")
	if rapid.IntRange(0, 19).Draw(t, "anymode") == 0 {
		c.Mode = uint(rapid.IntRange(0, 127).Draw(t, "modebits"))
	}
	c.Pattern = genSeq(t, 0, c.Mode&mX != 0)

	// candidate strings: near the pattern's language, and random ones over
	// the pattern's own characters
	p := globref.Parse(c.Pattern, globref.Mode(c.Mode&127))
	alpha := []rune{'a', 'b', 'A', '/', '.', 'x', '-', ']', 'é', '\n'}
	for _, r := range c.Pattern {
		alpha = append(alpha, r)
	}
	pick := func(n int) int {
		if n <= 1 {
			return 0
		}
		return rapid.IntRange(0, n-1).Draw(t, "pick")
	}
	nc := rapid.IntRange(4, 14).Draw(t, "ncands")
	c.Cands = append(c.Cands, "")
	for i := 0; i < nc; i++ {
		var s string
		switch rapid.IntRange(0, 9).Draw(t, "candkind") {
		case 0, 1, 2, 3:
			s = p.Sample(pick, alpha)
		case 4, 5, 6:
			s = mutate(t, p.Sample(pick, alpha), alpha)
		case 7:
			s = mutate(t, c.Pattern, alpha)
		default:
			l := rapid.IntRange(0, 5).Draw(t, "len")
			rs := make([]rune, l)
			for j := range rs {
				rs[j] = alpha[pick(len(alpha))]
			}
			s = string(rs)
		}
		c.Cands = append(c.Cands, s)
	}
	return c
}

func mutate(t *rapid.T, s string, alpha []rune) string {
	rs := []rune(s)
	switch k := rapid.IntRange(0, 4).Draw(t, "mut"); {
	case k == 0 && len(rs) > 0: // delete
		i := rapid.IntRange(0, len(rs)-1).Draw(t, "at")
		rs = append(rs[:i:i], rs[i+1:]...)
	case k == 1: // insert
		i := rapid.IntRange(0, len(rs)).Draw(t, "at")
		r := alpha[rapid.IntRange(0, len(alpha)-1).Draw(t, "r")]
		rs = append(rs[:i:i], append([]rune{r}, rs[i:]...)...)
	case k == 2 && len(rs) > 0: // replace
		i := rapid.IntRange(0, len(rs)-1).Draw(t, "at")
		rs[i] = alpha[rapid.IntRange(0, len(alpha)-1).Draw(t, "r")]
	case k == 3 && len(rs) > 0: // swap case
		i := rapid.IntRange(0, len(rs)-1).Draw(t, "at")
		switch r := rs[i]; {
		case r >= 'a' && r <= 'z':
			rs[i] = r - 32
		case r >= 'A' && r <= 'Z':
			rs[i] = r + 32
		case r == 'é':
			rs[i] = 'É'
		case r == 'É':
			rs[i] = 'é'
		}
	}
	return string(rs)
}

// ---------------------------------------------------------------------------
// exhaustive stages

// allStrings returns every string over alpha of length 0..maxLen.
func allStrings(alpha []rune, maxLen int) []string {
	out := []string{""}
	prev := []string{""}
	for l := 1; l <= maxLen; l++ {
		var cur []string
		for _, p := range prev {
			for _, r := range alpha {
				cur = append(cur, p+string(r))
			}
		}
		out = append(out, cur...)
		prev = cur
	}
	return out
}

// candidatesFor: every string up to maxLen over the pattern's own characters
// plus a letter, "/" and "." (and upper-case letters under NoGlobCase): any
// other character behaves like the extra letter for every pattern element.
func candidatesFor(pat string, mode uint, maxLen int, extra []rune) []string {
	var alpha []rune
	add := func(r rune) {
		for _, x := range alpha {
			if x == r {
				return
			}
		}
		alpha = append(alpha, r)
	}
	for _, r := range pat {
		add(r)
	}
	for _, r := range extra {
		add(r)
	}
	if mode&mI != 0 {
		for _, r := range append([]rune(nil), alpha...) {
			if r >= 'a' && r <= 'z' {
				add(r - 32)
			}
		}
	}
	return allStrings(alpha, maxLen)
}

func runEnum(t *testing.T, alphabet []rune, maxPat int, maxStr func(patLen int) int, modes []uint, extra []rune) {
	shard, nshard := vh.Shard()
	vh.SetExhaustive("C17")
	pats := allStrings(alphabet, maxPat)
	for k, pat := range pats {
		if k%nshard != shard {
			continue
		}
		var plain, nocase []string
		for _, m := range modes {
			ml := maxStr(len([]rune(pat)))
			var cands []string
			if m&mI != 0 {
				if nocase == nil {
					nocase = candidatesFor(pat, m, ml-1, extra)
				}
				cands = nocase
			} else {
				if plain == nil {
					plain = candidatesFor(pat, m, ml, extra)
				}
				cands = plain
			}
			vh.Each(t, prop, Case{Pattern: pat, Mode: m, Cands: cands})
		}
	}
}

var enumModes = []uint{
	mE,
	0,
	mE | mI,
	mS,
	mF | mE,
	mF | mE | mNS,
	mF | mE | mD,
	mF | mE | mD | mNS,
}

// TestC17Enum: every pattern up to length 4 (5 in the thorough tier) over the
// alphabet * ? [ ] ! - \ a b /, in eight modes, on every string up to length 3
// (4 for patterns up to length 4 in the thorough tier; one less under
// NoGlobCase, whose alphabet also has the upper-case letters) over the
// pattern's characters plus "/", "." and "c".
func TestC17Enum(t *testing.T) {
	maxPat := vh.Scale(4, 5)
	maxStr := func(pl int) int {
		if vh.Thorough() && pl <= 4 {
			return 4
		}
		return 3
	}
	runEnum(t, []rune(`*?[]!-\ab/`), maxPat, maxStr, enumModes, []rune{'/', '.', 'c'})
}

// TestC17EnumExt: every pattern up to length 4 (5 in the thorough tier) over
// the alphabet ? * + @ ( | ) a b, with ExtendedOperators (bash judges the
// EntireString mode; the reference the unanchored and Filenames ones), on
// every string up to length 3 (4 for patterns up to length 4 in the thorough
// tier) over the pattern's characters plus "a" and ".".
func TestC17EnumExt(t *testing.T) {
	maxPat := vh.Scale(4, 5)
	maxStr := func(pl int) int {
		if vh.Thorough() && pl <= 4 {
			return 4
		}
		return 3
	}
	runEnum(t, []rune(`?*+@(|)ab`), maxPat, maxStr, []uint{mE | mX, mX, mF | mE | mX}, []rune{'a', '.'})
}
