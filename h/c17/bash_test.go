package c17

import (
	"bufio"
	"errors"
	"fmt"
	"io"
	"os"
	"os/exec"
	"path/filepath"
	"strconv"
	"strings"
	"sync"
	"time"

	"verifh/oracle"
)

// The bash judge: ONE long-lived bash per test process answers
// "does string s match pattern p" for batches of strings. It is stateless
// between requests (the two shopt switches are set explicitly by every
// request), so check() stays a pure function of its case.
//
// Request: a file of NUL terminated fields (flags, pattern, count, count
// strings), announced by one line on the shell's standard input (bash reads
// pipes one byte at a time, files in blocks).
// Response: one line of count characters, '1' = match, '0' = no match.
//
// The pattern reaches `case` through an unquoted parameter expansion, so
// nothing of it is ever parsed as shell syntax; `case $s in $p)` matches the
// whole string with exactly the matcher `[[ $s == $p ]]` uses, but, unlike
// `[[`, it only honours the extended operators when `shopt extglob` is on,
// which lets the judge answer for both settings of ExtendedOperators.
const judgeScript = `
while IFS= read -r _; do
  mapfile -d '' -t A < "$1" || exit 3
  f=${A[0]} p=${A[1]} n=${A[2]}
  (( ${#A[@]} == n + 3 )) || { echo "bad request: ${#A[@]} fields for n=$n"; continue; }
  case $f in *x*) shopt -s extglob;; *) shopt -u extglob;; esac
  case $f in *i*) shopt -s nocasematch;; *) shopt -u nocasematch;; esac
  out=
  for ((k = 3; k < n + 3; k++)); do
    case ${A[k]} in
      $p) out+=1;;
      *) out+=0;;
    esac
  done
  printf '%s\n' "$out"
done
`

type bashProc struct {
	cmd *exec.Cmd
	in  io.WriteCloser
	out *bufio.Reader
}

var (
	judgeMu       sync.Mutex
	judge         *bashProc
	judgeDir      string
	judgeFailures int
	judgeLastErr  error

	cacheKey string
	cacheVal []bool

	judgeTimeouts   int
	errJudgeTimeout = errors.New("bash judge: no answer within the deadline")
)

const judgeTimeout = 15 * time.Second

func startJudge() (*bashProc, error) {
	if judgeDir == "" {
		d, err := oracle.NewDir()
		if err != nil {
			return nil, err
		}
		judgeDir = d
		if err := os.WriteFile(filepath.Join(d, "judge.sh"), []byte(judgeScript), 0o644); err != nil {
			return nil, err
		}
	}
	sh, err := exec.LookPath("bash")
	if err != nil {
		return nil, err
	}
	cmd := exec.Command(sh, "--norc", "--noprofile", filepath.Join(judgeDir, "judge.sh"), filepath.Join(judgeDir, "req"))
	cmd.Dir = judgeDir
	cmd.Env = oracle.Env(judgeDir)
	cmd.Stderr = nil
	in, err := cmd.StdinPipe()
	if err != nil {
		return nil, err
	}
	out, err := cmd.StdoutPipe()
	if err != nil {
		return nil, err
	}
	if err := cmd.Start(); err != nil {
		return nil, err
	}
	return &bashProc{cmd: cmd, in: in, out: bufio.NewReaderSize(out, 1<<16)}, nil
}

func stopJudge() {
	judgeMu.Lock()
	defer judgeMu.Unlock()
	if judge != nil {
		judge.in.Close()
		judge.cmd.Process.Kill()
		judge.cmd.Wait()
		judge = nil
	}
	if judgeDir != "" {
		oracle.RemoveDir(judgeDir)
		judgeDir = ""
	}
}

// bashMatch asks bash whether each of cands matches pattern as a whole, with
// extglob and nocasematch set as given. Strings must be NUL-free.
func bashMatch(pattern string, ext, nocase bool, cands []string) ([]bool, error) {
	judgeMu.Lock()
	defer judgeMu.Unlock()
	flags := "-"
	if ext {
		flags += "x"
	}
	if nocase {
		flags += "i"
	}
	var req strings.Builder
	req.WriteString(flags)
	req.WriteByte(0)
	req.WriteString(pattern)
	req.WriteByte(0)
	req.WriteString(strconv.Itoa(len(cands)))
	req.WriteByte(0)
	for _, s := range cands {
		req.WriteString(s)
		req.WriteByte(0)
	}
	key := req.String()
	if key == cacheKey && cacheVal != nil {
		return cacheVal, nil
	}
	var lastErr error
	for attempt := 0; attempt < 2; attempt++ {
		if judge == nil {
			j, err := startJudge()
			if err != nil {
				lastErr = err
				break
			}
			judge = j
		}
		res, err := judge.ask(key, len(cands))
		if err == nil {
			cacheKey, cacheVal = key, res
			return res, nil
		}
		lastErr = err
		judge.in.Close()
		judge.cmd.Process.Kill()
		judge.cmd.Wait()
		judge = nil
		if err == errJudgeTimeout {
			// bash's own matcher is exponential on some nested pattern
			// lists; that is not an infrastructure failure.
			judgeTimeouts++
			return nil, err
		}
	}
	judgeFailures++
	judgeLastErr = lastErr
	return nil, lastErr
}

func (b *bashProc) ask(req string, n int) ([]bool, error) {
	// A pathological pattern must not hang the run: kill the shell after a
	// generous deadline; the pending read then fails.
	timedOut := false
	timer := time.AfterFunc(judgeTimeout, func() { timedOut = true; b.cmd.Process.Kill() })
	defer timer.Stop()
	if err := os.WriteFile(filepath.Join(judgeDir, "req"), []byte(req), 0o644); err != nil {
		return nil, fmt.Errorf("bash judge: %v", err)
	}
	werr := make(chan error, 1)
	go func() {
		_, err := io.WriteString(b.in, "go\n")
		werr <- err
	}()
	t0 := time.Now()
	line, err := b.out.ReadString('\n')
	if d := time.Since(t0); d > 2*time.Second && os.Getenv("VERIF_C17_DEBUG") != "" {
		fmt.Fprintf(os.Stderr, "SLOW JUDGE %v: %q\n", d, req)
	}
	if err != nil {
		if timedOut {
			return nil, errJudgeTimeout
		}
		return nil, fmt.Errorf("bash judge: read: %v", err)
	}
	if err := <-werr; err != nil {
		return nil, fmt.Errorf("bash judge: write: %v", err)
	}
	line = strings.TrimSuffix(line, "\n")
	if len(line) != n {
		return nil, fmt.Errorf("bash judge: got %d verdicts for %d strings", len(line), n)
	}
	res := make([]bool, n)
	for i := 0; i < n; i++ {
		switch line[i] {
		case '1':
			res[i] = true
		case '0':
		default:
			return nil, fmt.Errorf("bash judge: bad verdict byte %q", line[i])
		}
	}
	return res, nil
}
