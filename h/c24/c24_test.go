// C24: printf and echo -e format like bash.
//
// A case is a list of sub-cases, each ONE printf or echo command whose
// operands are presented as single-quoted words (the test is about the
// builtins, not about word expansion). All sub-cases of a case are run by one
// bash process (the commands are consecutive lines of one script, each
// followed by a marker line carrying $?; the builtins leave no state behind,
// and a subshell per command as in oracle.Batch costs ~60 ms in this sandbox)
// and one by one by the in-process interpreter. Standard output bytes and the exit status must be equal;
// standard error is ignored.
package c24

import (
	"bytes"
	"fmt"
	"math/big"
	"os"
	"regexp"
	"strings"
	"testing"

	"pgregory.net/rapid"

	"verifh/oracle"
	"verifh/vh"
)

func TestMain(m *testing.M) { vh.Main(m) }

// Piece is a part of a printf format: literal text, one escape sequence, or
// one conversion (%[flags][width]verb).
type Piece struct {
	T     string `json:"t"` // lit | esc | dir
	S     string `json:"s,omitempty"`
	Flags string `json:"flags,omitempty"`
	Width string `json:"width,omitempty"`
	Verb  string `json:"verb,omitempty"`
}

func (p Piece) text() string {
	if p.T == "dir" {
		return "%" + p.Flags + p.Width + p.Verb
	}
	return p.S
}

// Sub is one command: printf [--] FORMAT ARGS..., or echo OPTS... ARGS...
type Sub struct {
	Cmd  string   `json:"cmd"` // printf | echo
	DD   bool     `json:"dd,omitempty"`
	Fmt  []Piece  `json:"fmt,omitempty"`
	Opts []string `json:"opts,omitempty"`
	Args []string `json:"args,omitempty"`
}

type Case struct {
	Subs []Sub `json:"subs"`
}

func (s *Sub) format() string {
	var b strings.Builder
	for _, p := range s.Fmt {
		b.WriteString(p.text())
	}
	return b.String()
}

func (s *Sub) script() string {
	var b strings.Builder
	b.WriteString(s.Cmd)
	if s.Cmd == "printf" {
		if s.DD {
			b.WriteString(" --")
		}
		b.WriteString(" " + oracle.ShQuote(s.format()))
	} else {
		for _, o := range s.Opts {
			b.WriteString(" " + o)
		}
	}
	for _, a := range s.Args {
		b.WriteString(" " + oracle.ShQuote(a))
	}
	b.WriteString("\n")
	return b.String()
}

// ------------------------------------------------------- syntactic analysis

// esc is one backslash sequence found in a string: C is the character after
// the backslash (0 at the end of the string), Rest what follows it.
type esc struct {
	C    byte
	Rest string
}

// scanEsc lists the backslash sequences of s, pairing backslashes left to
// right (all three escape dialects consume "\\" as a unit).
func scanEsc(s string) []esc {
	var out []esc
	for i := 0; i < len(s); i++ {
		if s[i] != '\\' {
			continue
		}
		if i+1 >= len(s) {
			out = append(out, esc{})
			break
		}
		out = append(out, esc{C: s[i+1], Rest: s[i+2:]})
		i++
	}
	return out
}

func isOct(c byte) bool { return c >= '0' && c <= '7' }
func isDig(c byte) bool { return c >= '0' && c <= '9' }
func isHex(c byte) bool {
	return isDig(c) || (c >= 'a' && c <= 'f') || (c >= 'A' && c <= 'F')
}

type escInfo struct {
	octal89    bool // an octal escape directly followed (within 3 characters) by 8 or 9, or with a value above 0377
	octalDial  bool // an octal escape that the %b / echo -e dialect reads differently from the format dialect
	quoteEsc   bool // \" \' \?
	backC      bool // \c
	badUnicode bool // \u / \U naming a surrogate or a value above 0x10FFFF
	any        bool
}

// classify looks at the escapes of s. dialect: "fmt" (printf format), "b"
// (%b argument), "echo" (echo -e argument).
func classify(s, dialect string) escInfo {
	var in escInfo
	for _, e := range scanEsc(s) {
		in.any = true
		switch {
		case isOct(e.C):
			win := string(e.C)
			for i := 0; i < len(e.Rest) && i < 3 && isDig(e.Rest[i]); i++ {
				win += string(e.Rest[i])
			}
			// the interpreter reads up to 3 characters 0-9
			w3 := win
			if len(w3) > 3 {
				w3 = w3[:3]
			}
			if strings.ContainsAny(w3, "89") {
				in.octal89 = true
			} else if len(w3) == 3 && w3[0] > '3' {
				in.octal89 = true
			}
			switch dialect {
			case "echo":
				// bash: only \0 followed by up to three octal digits
				if e.C != '0' || (len(win) == 4 && isOct(win[1]) && isOct(win[2]) && isOct(win[3])) {
					in.octalDial = true
				}
			case "b":
				// bash: \0 + up to three digits, or \N + up to two more
				if e.C == '0' && len(win) == 4 && isOct(win[1]) && isOct(win[2]) && isOct(win[3]) {
					in.octalDial = true
				}
			}
		case e.C == '"' || e.C == '\'' || e.C == '?':
			in.quoteEsc = true
		case e.C == 'c':
			in.backC = true
		case e.C == 'u' || e.C == 'U':
			max := 4
			if e.C == 'U' {
				max = 8
			}
			j := 0
			for j < len(e.Rest) && j < max && isHex(e.Rest[j]) {
				j++
			}
			if j > 0 {
				v, _ := new(big.Int).SetString(e.Rest[:j], 16)
				n := v.Int64()
				if (n >= 0xD800 && n <= 0xDFFF) || n > 0x10FFFF {
					in.badUnicode = true
				}
			}
		}
	}
	return in
}

var reEchoOpt = regexp.MustCompile(`^-[neE]+$`)

var (
	reValidNum = regexp.MustCompile(`^[+-]?(0[xX][0-9a-fA-F]+|0[0-7]*|[1-9][0-9]*)$`)
	reCharCode = regexp.MustCompile(`^['"]`)
)

var (
	maxInt64  = new(big.Int).SetUint64(1<<63 - 1)
	minInt64  = new(big.Int).Neg(new(big.Int).SetUint64(1 << 63))
	maxUint64 = new(big.Int).SetUint64(^uint64(0))
)

// numClass: "empty", "ok" (a C integer constant that fits int64), "big"
// (fits only as an unsigned 64-bit value), "huge" (fits neither), "char"
// ('x or "x), "bad" (anything else).
func numClass(a string) string {
	switch {
	case a == "":
		return "empty"
	case reCharCode.MatchString(a):
		return "char"
	case !reValidNum.MatchString(a):
		return "bad"
	}
	v, ok := new(big.Int).SetString(strings.TrimPrefix(a, "+"), 0)
	if !ok {
		return "bad"
	}
	switch {
	case v.Cmp(minInt64) >= 0 && v.Cmp(maxInt64) <= 0:
		return "ok"
	case v.Sign() > 0 && v.Cmp(maxUint64) <= 0:
		return "big"
	}
	return "huge"
}

type info struct {
	esc                                    escInfo
	zeroStr, signUnsigned, multiFlag       bool
	widthCB, widthMultibyte                bool
	backslashPercent                       bool
	numChar, numBad, numBig                bool
	echoCombined, echoEAfterE, echoExpands bool
	classes                                []string
	nontrivial                             bool
}

func merge(a *escInfo, b escInfo) {
	a.octal89 = a.octal89 || b.octal89
	a.octalDial = a.octalDial || b.octalDial
	a.quoteEsc = a.quoteEsc || b.quoteEsc
	a.backC = a.backC || b.backC
	a.badUnicode = a.badUnicode || b.badUnicode
	a.any = a.any || b.any
}

func analyse(s *Sub) info {
	var in info
	cl := map[string]bool{}
	if s.Cmd == "echo" {
		// which options does bash honour? the leading words matching
		// -[neE]+, whether they were generated as options or as operands
		words := append(append([]string{}, s.Opts...), s.Args...)
		expand := false
		lastE := ""
		k := 0
		for ; k < len(words); k++ {
			o := words[k]
			if !reEchoOpt.MatchString(o) {
				break
			}
			cl["echo:opt:"+o] = true
			if len(o) > 2 {
				in.echoCombined = true
			}
			for _, c := range o[1:] {
				switch c {
				case 'e':
					expand = true
					lastE = "e"
				case 'E':
					if lastE == "e" {
						in.echoEAfterE = true
					}
					expand = false
					lastE = "E"
				}
			}
		}
		in.echoExpands = expand
		if k < len(words) && strings.HasPrefix(words[k], "-") {
			cl["echo:dash-operand"] = true
		}
		// every word after the options is printed; with -e its escapes count
		for _, a := range words[k:] {
			if expand {
				merge(&in.esc, classify(a, "echo"))
			}
		}
		if expand && in.esc.any {
			cl["echo:escapes"] = true
		}
		in.nontrivial = len(s.Opts) > 0 || len(s.Args) > 1
		for k := range cl {
			in.classes = append(in.classes, k)
		}
		return in
	}
	var dirs []Piece
	// escapes are classified on the whole format: a literal digit after an
	// escape piece continues the escape ("\6" + "37")
	merge(&in.esc, classify(s.format(), "fmt"))
	for i, p := range s.Fmt {
		switch p.T {
		case "esc":
			cl["fmt:escape"] = true
			if p.S == `\` && i+1 < len(s.Fmt) && s.Fmt[i+1].T == "dir" {
				in.backslashPercent = true
			}
		case "dir":
			cl["verb:"+p.Verb] = true
			if p.Flags != "" {
				cl["flags"] = true
			}
			if p.Width != "" {
				cl["width"] = true
			}
			if p.Verb == "%" {
				continue
			}
			dirs = append(dirs, p)
			if len(p.Flags) > 1 {
				in.multiFlag = true
			}
			zero := strings.HasPrefix(p.Width, "0") || strings.Contains(p.Flags, "0")
			switch p.Verb {
			case "s":
				if zero {
					in.zeroStr = true
				}
			case "c", "b":
				if p.Width != "" || p.Flags != "" {
					in.widthCB = true
				}
			case "u", "o", "x":
				if strings.ContainsAny(p.Flags, "+ ") {
					in.signUnsigned = true
				}
			}
		}
	}
	if len(dirs) > 0 {
		n := len(s.Args)
		if n > len(dirs) {
			cl["reuse"] = true
		}
		if n%len(dirs) != 0 || n == 0 {
			cl["missing-args"] = true
		}
		for j, a := range s.Args {
			d := dirs[j%len(dirs)]
			switch d.Verb {
			case "b":
				merge(&in.esc, classify(a, "b"))
			case "s":
				if d.Width != "" && !isASCII(a) {
					in.widthMultibyte = true
				}
			case "d", "i", "u", "o", "x":
				c := numClass(a)
				cl["num:"+c] = true
				switch c {
				case "char":
					in.numChar = true
				case "bad":
					in.numBad = true
				case "big", "huge":
					// %d and %i clamp on both sides; the unsigned
					// conversions go through int64 in the interpreter
					if d.Verb != "d" && d.Verb != "i" {
						in.numBig = true
					}
				}
			}
		}
	} else if len(s.Args) > 0 {
		cl["args-without-directive"] = true
	}
	in.nontrivial = len(dirs) > 0 || in.esc.any || cl["fmt:escape"]
	for k := range cl {
		in.classes = append(in.classes, k)
	}
	return in
}

func excluded(id string) bool {
	return os.Getenv("VERIF_REPLAY") == "" && vh.Excluded(id)
}

// exclusion names the known finding whose syntactic class the command is in.
func exclusion(s *Sub, in info) string {
	type rule struct {
		hit bool
		id  string
	}
	bOrEcho := s.Cmd == "echo" || hasVerb(s, "b")
	rules := []rule{
		// printf -- FORMAT: "--" is taken as the format
		{s.Cmd == "printf" && s.DD, "C24-printf-double-dash"},
		// echo -ne / -en / -nn: only the separate words -n -e -E are options
		{in.echoCombined, "C24-echo-combined-options"},
		// echo -e -E: a later -E does not switch escapes off again
		{in.echoEAfterE, "C24-echo-E-after-e"},
		// expand.Format: \c is not an escape in %b arguments and echo -e
		{bOrEcho && in.esc.backC, "C24-backslash-c"},
		// expand.Format uses the format dialect for %b and echo -e: there
		// bash reads \0 + three digits (and echo -e nothing but \0...)
		{bOrEcho && in.esc.octalDial, "C24-b-echo-octal"},
		// ... and keeps the backslash of \" \' \?
		{bOrEcho && in.esc.quoteEsc, "C24-b-echo-quote-escapes"},
		// readDigits takes 8 and 9 as octal digits; values above 0377 saturate
		{in.esc.octal89, "C24-octal-escape-value"},
		// \uD800 and \U00110000 become U+FFFD
		{in.esc.badUnicode, "C24-unicode-escape-invalid"},
		// %05s: Go pads strings with zeros
		{in.zeroStr, "C24-zero-flag-string"},
		// %+u %+x % o: Go prints the sign for unsigned conversions
		{in.signUnsigned, "C24-sign-flag-unsigned"},
		// %-+5d: one flag character at most
		{in.multiFlag, "C24-multiple-flags"},
		// %5c %-5b: flags and width are dropped
		{in.widthCB, "C24-width-c-b"},
		// %5s with a multibyte argument: Go counts characters, bash bytes
		{in.widthMultibyte, "C24-width-multibyte"},
		// \%d: the backslash swallows the percent sign
		{in.backslashPercent, "C24-backslash-percent"},
		// 'a / "a: character code
		{in.numChar, "C24-charcode-arg"},
		// 12abc, " 12", 0b1, 1_0: strconv.ParseInt(arg, 0, 0), error ignored
		{in.numBad, "C24-invalid-number"},
		// %u %o %x of a value outside int64: parsed as int64 (saturating),
		// then converted
		{in.numBig, "C24-unsigned-outside-int64"},
	}
	for _, r := range rules {
		if r.hit && excluded(r.id) {
			return r.id
		}
	}
	if os.Getenv("C24_SURVEY") != "" {
		var hits []string
		for _, r := range rules {
			if r.hit {
				hits = append(hits, strings.TrimPrefix(r.id, "C24-"))
			}
		}
		surveyHits = strings.Join(hits, ",")
	}
	return ""
}

var surveyHits string

func ruleHits(s *Sub, in info) string {
	surveyHits = ""
	exclusion(s, in)
	if surveyHits == "" {
		return "UNCLASSIFIED"
	}
	return surveyHits
}

func isASCII(s string) bool {
	for i := 0; i < len(s); i++ {
		if s[i] >= 0x80 {
			return false
		}
	}
	return true
}

func hasVerb(s *Sub, v string) bool {
	for _, p := range s.Fmt {
		if p.T == "dir" && p.Verb == v {
			return true
		}
	}
	return false
}

// ------------------------------------------------------------------ oracle

// marker separates the outputs; no generator can produce it ('@' is in no
// alphabet of this file).
const marker = "@@C24:Xq7Zk2:"

var reMarker = regexp.MustCompile(marker + `([0-9]+)@@\n`)

type bashOut struct {
	Stdout []byte
	Status int
	Err    error
}

func bashBatch(dir string, scripts []string) ([]bashOut, error) {
	var b strings.Builder
	for _, s := range scripts {
		b.WriteString(s)
		fmt.Fprintf(&b, "echo \"%s$?@@\"\n", marker)
	}
	r := oracle.RunShell(b.String(), oracle.Opts{Dir: dir})
	if r.Err != nil {
		return nil, r.Err
	}
	if r.Timeout {
		return nil, fmt.Errorf("bash timed out")
	}
	locs := reMarker.FindAllSubmatchIndex(r.Stdout, -1)
	if len(locs) != len(scripts) {
		return nil, fmt.Errorf("bash batch: %d markers for %d commands (status %d)", len(locs), len(scripts), r.Status)
	}
	outs := make([]bashOut, len(scripts))
	prev := 0
	for i, l := range locs {
		outs[i].Stdout = r.Stdout[prev:l[0]]
		fmt.Sscanf(string(r.Stdout[l[2]:l[3]]), "%d", &outs[i].Status)
		prev = l[1]
	}
	return outs, nil
}

func check(c Case) (res vh.Result) {
	if len(c.Subs) == 0 {
		res.Skipped = true
		return res
	}
	dir, err := oracle.NewDir()
	if err != nil {
		panic(err)
	}
	defer oracle.RemoveDir(dir)
	classes := map[string]int{}
	defer func() {
		for k, n := range classes {
			vh.Count("C24", k, n)
		}
	}()
	type act struct {
		i      int
		script string
	}
	var active []act
	for i := range c.Subs {
		s := &c.Subs[i]
		classes["sub:total"]++
		in := analyse(s)
		if id := exclusion(s, in); id != "" {
			classes["sub:excluded:"+id]++
			continue
		}
		classes["sub:"+s.Cmd]++
		for _, k := range in.classes {
			classes["sub:"+k]++
		}
		if in.nontrivial {
			classes["sub:nontrivial"]++
			res.Nontrivial = true
		}
		active = append(active, act{i, s.script()})
	}
	if len(active) == 0 {
		res.Skipped = true
		return res
	}
	scripts := make([]string, len(active))
	for k, a := range active {
		scripts[k] = a.script
	}
	bres, err := bashBatch(dir, scripts)
	if err != nil {
		res.Skipped = true
		res.Classes = append(res.Classes, "infra:bash-batch")
		return res
	}
	for k, a := range active {
		br := bres[k]
		if br.Err != nil {
			classes["sub:infra"]++
			continue
		}
		ir := oracle.RunInterp(a.script, oracle.InterpOpts{Dir: dir})
		var got []byte
		status := ir.Status
		switch {
		case ir.ParseErr != nil:
			got = []byte("parse error: " + ir.ParseErr.Error())
		case ir.Panic != nil:
			got = []byte(fmt.Sprintf("panic: %v", ir.Panic))
		case ir.Timeout:
			got = []byte("timeout")
		case ir.Err != nil:
			panic(ir.Err)
		default:
			got = ir.Stdout
		}
		classes["sub:compared"]++
		if br.Status != 0 {
			classes["sub:bash-status-nonzero"]++
		}
		if sv := os.Getenv("C24_SURVEY"); sv != "" && (!bytes.Equal(got, br.Stdout) || status != br.Status) {
			in := analyse(&c.Subs[a.i])
			f, _ := os.OpenFile(sv, os.O_APPEND|os.O_CREATE|os.O_WRONLY, 0o644)
			fmt.Fprintf(f, "%s\t%s\tbash=%q/%d\tinterp=%q/%d\n", ruleHits(&c.Subs[a.i], in), strings.TrimSpace(a.script), br.Stdout, br.Status, got, status)
			f.Close()
			continue
		}
		if !bytes.Equal(got, br.Stdout) || status != br.Status {
			return vh.Fail("sub-case %d: %s  bash: %q status %d\n  interp: %q status %d (stderr %q)",
				a.i, a.script, br.Stdout, br.Status, got, status, ir.Stderr)
		}
	}
	return res
}

var prop = vh.Prop[Case]{ID: "C24", Gen: gen, Check: check}

func TestC24(t *testing.T) { vh.Run(t, prop) }

// --------------------------------------------------------------- generation

var litChars = []string{"a", "b", "Z", "0", "1", "7", "8", "9", " ", " ", ":", ",", "-", "_", "/", "=", "#", "é", "€", "x", "u", "c", "n", "'", "\"", "?", "[", "*", "$", "~", "!"}

func genLit(t *rapid.T) string {
	n := rapid.IntRange(1, 4).Draw(t, "litlen")
	var b strings.Builder
	for i := 0; i < n; i++ {
		b.WriteString(rapid.SampledFrom(litChars).Draw(t, "litch"))
	}
	return b.String()
}

var simpleEsc = []string{`\a`, `\b`, `\e`, `\E`, `\f`, `\n`, `\n`, `\r`, `\t`, `\t`, `\v`, `\\`, `\\`, `\'`, `\"`, `\?`}

// genEsc draws one escape sequence; dialect chooses how often the
// dialect-specific forms appear.
func genEsc(t *rapid.T) string {
	switch rapid.IntRange(0, 13).Draw(t, "esckind") {
	case 0, 1, 2, 3, 4:
		return rapid.SampledFrom(simpleEsc).Draw(t, "simple")
	case 5, 6: // octal: 1-4 digits, first possibly 0
		return `\` + rapid.StringMatching(`[0-7]{1,4}`).Draw(t, "oct")
	case 7: // octal followed by 8/9 or more digits
		return `\` + rapid.StringMatching(`[0-7]{1,2}[0-9]{1,2}`).Draw(t, "oct89")
	case 8, 9:
		return `\x` + rapid.StringMatching(`[0-9a-fA-F]{1,3}`).Draw(t, "hex")
	case 10:
		return `\u` + rapid.SampledFrom([]string{"41", "e9", "00e9", "20AC", "20ac", "7f", "80", "7ff", "800", "FFFF", "fffd", "D7FF", "E000", "1", "0041x", "D800", "dfff"}).Draw(t, "u4")
	case 11:
		return `\U` + rapid.SampledFrom([]string{"41", "0001F600", "1F600", "10FFFF", "0010FFFF", "e9", "000000e9", "00110000", "7FFFFFFF", "FFFFFFFF", "0000D800"}).Draw(t, "u8")
	case 12:
		return rapid.SampledFrom([]string{`\c`, `\q`, `\z`, `\8`, `\9`, `\-`, `\ `, `\x`, `\xg`, `\u`, `\U`, `\$`}).Draw(t, "odd")
	default:
		return `\0`
	}
}

var verbs = []string{"s", "s", "s", "b", "b", "c", "d", "d", "d", "i", "u", "o", "x", "x", "%"}

func genDir(t *rapid.T) Piece {
	p := Piece{T: "dir", Verb: rapid.SampledFrom(verbs).Draw(t, "verb")}
	if p.Verb == "%" {
		return p // bash rejects %5% ("invalid format character")
	}
	switch rapid.IntRange(0, 9).Draw(t, "flagk") {
	case 0, 1, 2, 3, 4:
	case 5:
		p.Flags = "-"
	case 6:
		p.Flags = "+"
	case 7:
		p.Flags = " "
	case 8:
		p.Flags = "0"
	default:
		p.Flags = rapid.SampledFrom([]string{"-+", "+-", "+ ", "-0", "0-", "+0", "0+", " 0", "- ", "--", "00"}).Draw(t, "flags2")
	}
	if rapid.IntRange(0, 1).Draw(t, "haswidth") == 0 {
		p.Width = rapid.SampledFrom([]string{"1", "2", "3", "5", "8", "10", "12", "20"}).Draw(t, "width")
	}
	return p
}

var numArgs = []string{
	"0", "1", "5", "42", "-1", "-42", "+7", "255", "65535", "0x1f", "0X1F", "-0x1f", "010", "0777", "-010", "00", "007",
	"2147483647", "2147483648", "-2147483649", "4294967295", "9223372036854775807", "-9223372036854775808",
	"9223372036854775808", "18446744073709551615", "18446744073709551616", "-9223372036854775809", "99999999999999999999",
	"'a", "\"a", "'", "'é", "'ab", "'\\n",
	"", "abc", "12abc", " 12", "12 ", "1.5", "1e3", "0b101", "0o17", "1_000", "08", "0x", "0xg", "-", "+", "--1", "٣",
}

var strArgs = []string{
	"", "a", "foo", "foo bar", " lead", "trail ", "é", "€uro", "日本", "%s", "%d", "100%", "-n", "-e", "--", "a'b", "a\"b",
	`\n`, `\t`, `a\tb`, `\\`, `a\\nb`, `\101`, `\0101`, `\01011`, `\1`, `\18`, `\08`, `\400`, `\0400`, `\777`, `\0`, `a\0b`,
	`\x41`, `\x4`, `\xg`, `é`, `\U0001F600`, `\uD800`, `a\cb`, `\c`, `\"`, `\'`, `\?`, `\q`, `\e[0m`, `\E`, `tail\`, `$x`, "*", "~",
}

func genStrArg(t *rapid.T) string {
	switch rapid.IntRange(0, 5).Draw(t, "strk") {
	case 0, 1, 2:
		return rapid.SampledFrom(strArgs).Draw(t, "strarg")
	case 3:
		return rapid.SampledFrom(numArgs).Draw(t, "numasstr")
	default:
		// literal text and escapes mixed
		n := rapid.IntRange(1, 4).Draw(t, "mixn")
		var b strings.Builder
		for i := 0; i < n; i++ {
			if rapid.Bool().Draw(t, "mixesc") {
				b.WriteString(genEsc(t))
			} else {
				b.WriteString(genLit(t))
			}
		}
		return b.String()
	}
}

func genPrintf(t *rapid.T) Sub {
	s := Sub{Cmd: "printf"}
	n := rapid.IntRange(1, 6).Draw(t, "npieces")
	var argVerbs []string
	for i := 0; i < n; i++ {
		switch rapid.IntRange(0, 9).Draw(t, "piecek") {
		case 0, 1, 2:
			l := genLit(t)
			if i == 0 && strings.HasPrefix(l, "-") {
				l = "a" + l // a format starting with '-' is an option to bash
			}
			// a literal digit after an escape is part of the case ("\18")
			s.Fmt = append(s.Fmt, Piece{T: "lit", S: l})
		case 3, 4:
			s.Fmt = append(s.Fmt, Piece{T: "esc", S: genEsc(t)})
		default:
			d := genDir(t)
			if d.Verb != "%" && rapid.IntRange(0, 29).Draw(t, "bspct") == 0 {
				// "\%d": to bash a backslash, then a conversion
				s.Fmt = append(s.Fmt, Piece{T: "esc", S: `\`})
			}
			s.Fmt = append(s.Fmt, d)
			if d.Verb != "%" {
				argVerbs = append(argVerbs, d.Verb)
			}
		}
	}
	if s.Fmt[0].T == "dir" && strings.HasPrefix(s.Fmt[0].Flags, "-") {
		// "%-5d" is fine: the word starts with '%'
	}
	// arguments: usually as many as conversions, sometimes fewer or a
	// multiple plus a remainder
	want := len(argVerbs)
	switch rapid.IntRange(0, 9).Draw(t, "nargk") {
	case 0:
		want = 0
	case 1:
		want = rapid.IntRange(0, max(want, 1)).Draw(t, "fewer")
	case 2, 3:
		want = want*2 + rapid.IntRange(0, 2).Draw(t, "extra")
	case 4:
		want += rapid.IntRange(1, 3).Draw(t, "surplus")
	}
	if want > 8 {
		want = 8
	}
	for j := 0; j < want; j++ {
		verb := "s"
		if len(argVerbs) > 0 {
			verb = argVerbs[j%len(argVerbs)]
		}
		numeric := strings.Contains("diuox", verb)
		if rapid.IntRange(0, 9).Draw(t, "mismatch") == 0 {
			numeric = !numeric
		}
		if numeric {
			s.Args = append(s.Args, rapid.SampledFrom(numArgs).Draw(t, "numarg"))
		} else {
			s.Args = append(s.Args, genStrArg(t))
		}
	}
	s.DD = rapid.IntRange(0, 49).Draw(t, "dd") == 0
	return s
}

var echoOpts = []string{"-n", "-n", "-e", "-e", "-e", "-e", "-e", "-E", "-E", "-ne", "-en", "-nE", "-eE", "-Ee", "-nn", "-x", "--", "-", "-ex"}

func genEcho(t *rapid.T) Sub {
	s := Sub{Cmd: "echo"}
	n := rapid.IntRange(0, 3).Draw(t, "nopts")
	for i := 0; i < n; i++ {
		s.Opts = append(s.Opts, rapid.SampledFrom(echoOpts).Draw(t, "opt"))
	}
	m := rapid.IntRange(0, 4).Draw(t, "nargs")
	for i := 0; i < m; i++ {
		s.Args = append(s.Args, genStrArg(t))
	}
	return s
}

func genSub(t *rapid.T) Sub {
	if rapid.IntRange(0, 3).Draw(t, "cmd") == 0 {
		return genEcho(t)
	}
	return genPrintf(t)
}

func gen(t *rapid.T) Case {
	n := rapid.IntRange(1, 64).Draw(t, "nsubs")
	return Case{Subs: rapid.SliceOfN(rapid.Custom(genSub), n, n).Draw(t, "subs")}
}

// ------------------------------------------------------- exhaustive stage

// allEnum lists every verb x single flag x width over a fixed argument set,
// every escape form in each of the three dialects (format, %b argument,
// echo -e argument), and every sequence of up to two echo options.
func allEnum() []Sub {
	var subs []Sub
	strs := []string{"", "a", "abc", "é", "a b"}
	nums := []string{"", "0", "7", "-7", "0x1f", "010", "+3", "255"}
	for _, v := range []string{"s", "b", "c", "d", "i", "u", "o", "x"} {
		args := nums
		if strings.Contains("sbc", v) {
			args = strs
		}
		for _, f := range []string{"", "-", "+", " ", "0"} {
			for _, w := range []string{"", "1", "5"} {
				for _, a := range args {
					subs = append(subs, Sub{Cmd: "printf", Fmt: []Piece{{T: "lit", S: "["}, {T: "dir", Flags: f, Width: w, Verb: v}, {T: "lit", S: "]"}}, Args: []string{a}})
				}
				subs = append(subs, Sub{Cmd: "printf", Fmt: []Piece{{T: "lit", S: "["}, {T: "dir", Flags: f, Width: w, Verb: v}, {T: "lit", S: "]"}}})
			}
		}
		// reuse and defaults
		subs = append(subs, Sub{Cmd: "printf", Fmt: []Piece{{T: "dir", Verb: v}, {T: "lit", S: ","}, {T: "dir", Verb: "s"}, {T: "esc", S: `\n`}}, Args: []string{"1", "x", "2"}})
	}
	escs := []string{`\a`, `\b`, `\e`, `\E`, `\f`, `\n`, `\r`, `\t`, `\v`, `\\`, `\'`, `\"`, `\?`, `\c`, `\q`, `\`,
		`\0`, `\1`, `\7`, `\8`, `\10`, `\18`, `\08`, `\101`, `\0101`, `\01011`, `\377`, `\400`, `\0377`, `\0400`, `\777`,
		`\x41`, `\x4`, `\x414`, `\xg`, `\x`, `\u41`, `é`, `€`, `\u`, `\uD800`, `\U0001F600`, `\U41`, `\U00110000`, `\U`}
	for _, e := range escs {
		for _, tail := range []string{"", "z", "1"} {
			subs = append(subs,
				Sub{Cmd: "printf", Fmt: []Piece{{T: "lit", S: "a"}, {T: "esc", S: e}, {T: "lit", S: tail + "|"}}},
				Sub{Cmd: "printf", Fmt: []Piece{{T: "dir", Verb: "b"}, {T: "lit", S: "|"}}, Args: []string{"a" + e + tail, "q"}},
				Sub{Cmd: "echo", Opts: []string{"-e"}, Args: []string{"a" + e + tail, "q"}},
				Sub{Cmd: "echo", Args: []string{"a" + e + tail}},
				Sub{Cmd: "printf", Fmt: []Piece{{T: "dir", Verb: "s"}, {T: "lit", S: "|"}}, Args: []string{"a" + e + tail}},
			)
		}
	}
	opts := []string{"-n", "-e", "-E", "-ne", "-x", "--", "-"}
	subs = append(subs, Sub{Cmd: "echo"}, Sub{Cmd: "echo", Args: []string{`a\tb`, "c"}})
	for _, o1 := range opts {
		subs = append(subs, Sub{Cmd: "echo", Opts: []string{o1}}, Sub{Cmd: "echo", Opts: []string{o1}, Args: []string{`a\tb`, "c"}})
		for _, o2 := range opts {
			subs = append(subs, Sub{Cmd: "echo", Opts: []string{o1, o2}, Args: []string{`a\tb`, "c"}})
		}
	}
	return subs
}

func TestC24Enum(t *testing.T) {
	if os.Getenv("VERIF_REPLAY") != "" {
		vh.Run(t, prop)
		return
	}
	subs := allEnum()
	i, n := vh.Shard()
	const per = 64
	k := 0
	for off := 0; off < len(subs); off += per {
		end := min(off+per, len(subs))
		if k%n == i {
			vh.Each(t, prop, Case{Subs: subs[off:end]})
		}
		k++
	}
	vh.SetExhaustive("C24")
}
