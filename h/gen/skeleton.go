package gen

import (
	"strings"

	"mvdan.cc/sh/v3/syntax"
	"pgregory.net/rapid"
)

// Skeleton draws a small program built around one or two here-documents with
// comments in the places where the printer has to queue them: after the
// here-document operator, inside a command substitution in the body, right
// after the body, before a closing keyword. The full grammar reaches these
// shapes too, but only inside programs so large that some other construct
// nearly always puts them into an exclusion class.
func Skeleton(t *rapid.T, l syntax.LangVariant) string {
	pick := func(label string, xs ...string) string { return rapid.SampledFrom(xs).Draw(t, label) }
	chance := func(pct int, label string) bool { return rapid.IntRange(0, 99).Draw(t, label) < pct }
	com := func(label string) string {
		return "#" + pick(label, " c1", " c2", " c3", "", " after", "!x", " $(x", " é", " 'q")
	}
	simple := func(label string) string {
		return pick(label, "foo", "bar baz", "a=1 b", "echo \"$x\"", "x=$y", "foo >out", "! foo", "foo && bar", "foo | bar", "foo &")
	}
	hdocN := 0
	var pending []string
	nl := func() string {
		s := "\n" + strings.Join(pending, "")
		pending = nil
		return s
	}
	// substitution renders $( ... ) with optional comments inside
	var substitution func(depth int) string
	substitution = func(depth int) string {
		if l != syntax.LangPOSIX && chance(10, "sk-procsubst") {
			return pick("sk-procop", "<(", ">(") + simple("sk-procbody") + ")"
		}
		if chance(30, "sk-sub1") {
			return "$(" + simple("sk-subcmd") + ")"
		}
		var sb strings.Builder
		sb.WriteString("$(")
		if chance(50, "sk-subnl") {
			sb.WriteString("\n")
		}
		for i, n := 0, rapid.IntRange(1, 3).Draw(t, "sk-sublines"); i < n; i++ {
			switch rapid.IntRange(0, 5).Draw(t, "sk-subline") {
			case 0:
				sb.WriteString(com("sk-subcom") + "\n")
			case 1:
				if depth < 2 {
					sb.WriteString("echo " + substitution(depth+1) + "\n")
					continue
				}
				fallthrough
			default:
				sb.WriteString(simple("sk-subcmd"))
				if chance(50, "sk-subtrail") {
					sb.WriteString(" " + com("sk-subcom"))
				}
				sb.WriteString("\n")
			}
		}
		sb.WriteString(")")
		return sb.String()
	}
	heredoc := func() string {
		hdocN++
		delim := pick("sk-delim", "EOF", "END", "E")
		if hdocN > 1 {
			delim += "2"
		}
		op := pick("sk-hop", "<<", "<<", "<<-")
		raw := chance(20, "sk-raw")
		word := delim
		if raw {
			word = pick("sk-q", "'"+delim+"'", "\""+delim+"\"", "\\"+delim)
		}
		var body strings.Builder
		for i, n := 0, rapid.IntRange(0, 3).Draw(t, "sk-hlines"); i < n; i++ {
			if op == "<<-" && chance(50, "sk-tab") {
				body.WriteString("\t")
			}
			switch rapid.IntRange(0, 5).Draw(t, "sk-hline") {
			case 0, 1:
				body.WriteString(pick("sk-text", "text", "two words", "#notacomment", "x y # z", ""))
			case 2:
				body.WriteString("a $x ${y} b")
			default:
				if raw {
					body.WriteString("$(raw # text\n)")
				} else {
					body.WriteString(pick("sk-pre", "", "v=") + substitution(0) + pick("sk-post", "", " tail"))
				}
			}
			body.WriteString("\n")
		}
		pending = append(pending, body.String()+delim+"\n")
		return op + pick("sk-hsp", "", " ") + word
	}
	// one statement that owns a here-document
	hdocStmt := func() string {
		s := pick("sk-cmd", "cat", "cat -", "foo bar", "x=1 cat") + " " + heredoc()
		switch rapid.IntRange(0, 9).Draw(t, "sk-shape") {
		case 0:
			s += " | " + simple("sk-rhs")
		case 1:
			s += " && " + simple("sk-rhs")
		case 2:
			s += " >out"
		case 3:
			s = simple("sk-lhs") + " | " + s
		case 4:
			s += " " + heredoc()
		case 5:
			s += " &"
		}
		if chance(30, "sk-opcom") {
			s += " " + com("sk-opcomtext")
		}
		return s
	}
	lines := func(indent string) string {
		var sb strings.Builder
		for i, n := 0, rapid.IntRange(1, 3).Draw(t, "sk-stmts"); i < n; i++ {
			if chance(25, "sk-precom") {
				sb.WriteString(indent + com("sk-precomtext") + "\n")
			}
			if i == 0 || chance(40, "sk-morehdoc") {
				sb.WriteString(indent + hdocStmt() + nl())
			} else {
				sb.WriteString(indent + simple("sk-plain"))
				if chance(30, "sk-trail") {
					sb.WriteString(" " + com("sk-trailtext"))
				}
				sb.WriteString(nl())
			}
			for chance(35, "sk-aftercom") {
				sb.WriteString(pick("sk-afterindent", indent, "", "\t\t") + com("sk-aftertext") + "\n")
			}
			if chance(10, "sk-blank") {
				sb.WriteString("\n")
			}
		}
		return sb.String()
	}
	var sb strings.Builder
	if chance(15, "sk-shebang") {
		sb.WriteString("#!/bin/sh\n")
	}
	switch rapid.IntRange(0, 9).Draw(t, "sk-wrap") {
	case 0, 1, 2:
		sb.WriteString(lines(""))
	case 3:
		sb.WriteString("{\n" + lines("\t") + "}\n")
	case 4:
		sb.WriteString("if a; then\n" + lines("\t"))
		if chance(60, "sk-else") {
			sb.WriteString("else\n" + lines("\t"))
		}
		sb.WriteString("fi\n")
	case 5:
		sb.WriteString(pick("sk-loop", "while a; do\n", "for i in 1 2; do\n", "until a; do\n") + lines("\t") + "done\n")
	case 6:
		sb.WriteString("f() {\n" + lines("\t") + "}\n")
	case 7:
		sb.WriteString("(\n" + lines("\t") + ")\n")
	case 8:
		sb.WriteString("case x in\na)\n" + lines("\t") + "\t;;\n")
		if chance(50, "sk-case2") {
			sb.WriteString("b)\n" + lines("\t"))
			if chance(50, "sk-case2end") {
				sb.WriteString("\t;;\n")
			}
		}
		sb.WriteString("esac\n")
	default:
		sb.WriteString("if a; then\n\twhile b; do\n" + lines("\t\t") + "\tdone\nfi\n")
	}
	if chance(30, "sk-final") {
		sb.WriteString(com("sk-finaltext") + "\n")
	}
	return sb.String()
}
