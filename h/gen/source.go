package gen

import (
	"strings"
	"sync"

	"mvdan.cc/sh/v3/syntax"
	"pgregory.net/rapid"

	"verifh/corpus"
)

var (
	corpOnce sync.Once
	corpAll  []string
	// corpOK[lang] lists corpus strings that parse in that variant.
	corpOK map[syntax.LangVariant][]string
)

func loadCorpus() {
	corpOnce.Do(func() {
		corpAll = corpus.From("syntax", "interp", "cmd/shfmt", "expand", "shell", "cmd/gosh")
		corpOK = map[syntax.LangVariant][]string{}
		for _, l := range Langs {
			p := syntax.NewParser(syntax.Variant(l), syntax.KeepComments(true))
			for _, s := range corpAll {
				if _, err := safeParse(p, s); err == nil {
					corpOK[l] = append(corpOK[l], s)
				}
			}
		}
	})
}

func safeParse(p *syntax.Parser, s string) (f *syntax.File, err error) {
	defer func() {
		if e := recover(); e != nil {
			err = errPanic
		}
	}()
	return p.Parse(strings.NewReader(s), "")
}

type panicErr struct{}

func (panicErr) Error() string { return "panic" }

var errPanic = panicErr{}

// CorpusAll returns every harvested string (parseable or not).
func CorpusAll() []string { loadCorpus(); return corpAll }

// CorpusOK returns the harvested strings that parse in the variant.
func CorpusOK(l syntax.LangVariant) []string { loadCorpus(); return corpOK[l] }

// Corpus draws one harvested string that parses in the variant.
func Corpus(t *rapid.T, l syntax.LangVariant) string {
	ok := CorpusOK(l)
	return ok[rapid.IntRange(0, len(ok)-1).Draw(t, "corpus")]
}

func ensureNL(s string) string {
	if strings.HasSuffix(s, "\n") && !strings.HasSuffix(s, "\\\n") {
		return s
	}
	return s + "\n"
}

// Splice combines parseable pieces with templates that are valid in every
// variant, so that corpus constructs appear nested inside compound commands,
// command substitutions and function bodies.
func Splice(t *rapid.T, l syntax.LangVariant, piece func() string) string {
	a := ensureNL(piece())
	switch rapid.IntRange(0, 11).Draw(t, "template") {
	case 0:
		return a + ensureNL(piece())
	case 1:
		return "if " + a + "then\n" + ensureNL(piece()) + "fi\n"
	case 2:
		return "while " + a + "do\n" + ensureNL(piece()) + "done\n"
	case 3:
		return "{\n" + a + "}\n"
	case 4:
		return "(\n" + a + ")\n"
	case 5:
		return "f() {\n" + a + "}\n"
	case 6:
		return "echo \"$(\n" + a + ")\" x\n"
	case 7:
		return "x=$(\n" + a + ")\n"
	case 8:
		return "case x in\na)\n" + a + ";;\nb) " + ensureNL(piece()) + "esac\n"
	case 9:
		return "# leading\n" + a + "# between\n\n" + ensureNL(piece()) + "# last\n"
	case 10:
		return "if a; then\n\tb\nelse\n" + a + "fi\n"
	default:
		return "for i in 1 2; do\n" + a + "done\n"
	}
}

var mutDict = []string{
	";", "&", "|", "&&", "||", ";;", "(", ")", "{", "}", "<", ">", ">>", "<<", "<<-", "<<<", "<&", ">&", "&>", "|&", "<(", ">(",
	"$", "$(", "$((", "${", "`", "\"", "'", "$'", "$\"", "\\", "\\\n", "\n", " ", "\t", "#", "!", "=", "+=", "[", "]", "[[", "]]", "((", "))",
	"if", "then", "elif", "else", "fi", "while", "until", "do", "done", "for", "in", "case", "esac", "function", "select", "time", "coproc", "let", "declare",
	"EOF", "EOF\n", "<<EOF\n", "\r\n", "\x00", "é", "\xff", "@(", "?(", "*", "~", "..", ",", ":-", "%", "@test", "${|", "${ ", "<->", "(#q", "=(", "&|", "&!",
}

// Mutate applies 1..3 token-level mutations to src.
func Mutate(t *rapid.T, src string) string {
	n := rapid.IntRange(1, 3).Draw(t, "nmut")
	for i := 0; i < n; i++ {
		pos := 0
		if len(src) > 0 {
			pos = rapid.IntRange(0, len(src)).Draw(t, "mutpos")
		}
		switch rapid.IntRange(0, 6).Draw(t, "mutkind") {
		case 0: // insert token
			tok := rapid.SampledFrom(mutDict).Draw(t, "muttok")
			src = src[:pos] + tok + src[pos:]
		case 1: // delete span
			end := min(len(src), pos+rapid.IntRange(1, 6).Draw(t, "mutlen"))
			src = src[:pos] + src[end:]
		case 2: // duplicate span
			end := min(len(src), pos+rapid.IntRange(1, 10).Draw(t, "mutlen"))
			src = src[:end] + src[pos:end] + src[end:]
		case 3: // truncate
			src = src[:pos]
		case 4: // replace a whitespace by newline / escaped newline / comment
			if j := strings.IndexAny(src[pos:], " \t\n"); j >= 0 {
				rep := rapid.SampledFrom([]string{"\n", " \\\n", " # c\n", "  ", "\t", ";", "\r\n"}).Draw(t, "mutws")
				src = src[:pos+j] + rep + src[pos+j+1:]
			}
		case 5: // flip a byte
			if pos < len(src) {
				b := byte(rapid.IntRange(0, 255).Draw(t, "mutbyte"))
				src = src[:pos] + string([]byte{b}) + src[pos+1:]
			}
		case 6: // swap two spans
			if len(src) > 4 {
				q := rapid.IntRange(0, len(src)).Draw(t, "mutpos2")
				a, b := min(pos, q), max(pos, q)
				la := min(rapid.IntRange(1, 5).Draw(t, "mutlen"), b-a)
				lb := min(rapid.IntRange(1, 5).Draw(t, "mutlen2"), len(src)-b)
				src = src[:a] + src[b:b+lb] + src[a+la:b] + src[a:a+la] + src[b+lb:]
			}
		}
		if len(src) > 1<<14 {
			src = src[:1<<14]
		}
	}
	return src
}

var metaAlphabet = []byte(" \t\n;&|()<>{}$`\"'\\#!=[]*?~-+:,.%@^/aeifx01E\r\x00\xc3\xa9\xff")

// Bytes draws a raw byte string over a shell-metacharacter-heavy alphabet.
func Bytes(t *rapid.T, maxLen int) string {
	n := rapid.IntRange(0, maxLen).Draw(t, "rawlen")
	b := make([]byte, n)
	for i := range b {
		b[i] = metaAlphabet[rapid.IntRange(0, len(metaAlphabet)-1).Draw(t, "rawbyte")]
	}
	return string(b)
}

// Valid draws source text that is intended to parse in the variant: corpus
// entries, spliced corpus/generated pieces, and grammar-generated programs.
func Valid(t *rapid.T, l syntax.LangVariant) string {
	switch rapid.IntRange(0, 10).Draw(t, "srckind") {
	case 0, 1:
		return Corpus(t, l)
	case 10:
		return Skeleton(t, l)
	case 2, 3:
		return Splice(t, l, func() string {
			if rapid.IntRange(0, 3).Draw(t, "piecekind") == 0 {
				return Syn(t, l, false)
			}
			return Corpus(t, l)
		})
	default:
		return Syn(t, l, false)
	}
}

// Any draws arbitrary input: valid programs, programs of the wrong variant,
// mutated programs and raw bytes.
func Any(t *rapid.T, l syntax.LangVariant) string {
	switch rapid.IntRange(0, 10).Draw(t, "anykind") {
	case 0, 1:
		return Valid(t, l)
	case 10:
		return Soup(t)
	case 2:
		all := CorpusAll()
		return all[rapid.IntRange(0, len(all)-1).Draw(t, "corpusany")]
	case 3:
		return Syn(t, l, true)
	case 4:
		other := Langs[rapid.IntRange(0, len(Langs)-1).Draw(t, "otherlang")]
		return Valid(t, other)
	case 5:
		return Bytes(t, 40)
	default:
		return Mutate(t, Valid(t, l))
	}
}

// PrinterCfg is a JSON-friendly printer configuration.
type PrinterCfg struct {
	Indent           uint `json:"indent"`
	BinaryNextLine   bool `json:"bn,omitempty"`
	SwitchCaseIndent bool `json:"ci,omitempty"`
	SpaceRedirects   bool `json:"sr,omitempty"`
	KeepPadding      bool `json:"kp,omitempty"`
	FunctionNextLine bool `json:"fn,omitempty"`
	Minify           bool `json:"mn,omitempty"`
	SingleLine       bool `json:"sl,omitempty"`
}

// Options converts the configuration to printer options.
func (c PrinterCfg) Options() []syntax.PrinterOption {
	return []syntax.PrinterOption{
		syntax.Indent(c.Indent),
		syntax.BinaryNextLine(c.BinaryNextLine),
		syntax.SwitchCaseIndent(c.SwitchCaseIndent),
		syntax.SpaceRedirects(c.SpaceRedirects),
		syntax.KeepPadding(c.KeepPadding),
		syntax.FunctionNextLine(c.FunctionNextLine),
		syntax.Minify(c.Minify),
		syntax.SingleLine(c.SingleLine),
	}
}

// Printer draws a printer configuration; each boolean is on with
// probability 1/4 so that most cases have a few options set, and the default
// configuration stays frequent. Minify+SingleLine is drawn too (it must give
// the documented error).
func Printer(t *rapid.T, allowKeepPadding bool) PrinterCfg {
	bit := func(label string) bool { return rapid.IntRange(0, 3).Draw(t, label) == 0 }
	c := PrinterCfg{
		Indent:           uint(rapid.SampledFrom([]int{0, 0, 0, 2, 4, 1, 3, 5, 6, 7, 8}).Draw(t, "indent")),
		BinaryNextLine:   bit("bn"),
		SwitchCaseIndent: bit("ci"),
		SpaceRedirects:   bit("sr"),
		FunctionNextLine: bit("fn"),
		Minify:           bit("mn"),
		SingleLine:       bit("sl"),
	}
	if allowKeepPadding {
		c.KeepPadding = bit("kp")
	}
	return c
}
