package gen

import (
	"strings"

	"pgregory.net/rapid"
)

// Soup draws a short token sequence over the alphabet of one of the parser's
// sub-grammars (arithmetic, [[ ]] tests, parameter expansions, redirections)
// and places it in a context that reaches that sub-parser. Most results are
// near misses: operators next to operators, missing operands, unbalanced
// brackets. Byte-level mutation of whole programs rarely lands two such
// tokens next to each other inside the right context.
func Soup(t *rapid.T) string {
	toks := func(label string, alphabet []string, lo, hi int) string {
		n := rapid.IntRange(lo, hi).Draw(t, label+"-n")
		var sb strings.Builder
		for i := 0; i < n; i++ {
			sb.WriteString(rapid.SampledFrom(alphabet).Draw(t, label))
			if rapid.IntRange(0, 2).Draw(t, label+"-sp") == 0 {
				sb.WriteByte(' ')
			}
		}
		return sb.String()
	}
	switch rapid.IntRange(0, 5).Draw(t, "soupkind") {
	case 0, 1: // arithmetic
		e := toks("arith", arithAlphabet, 1, 8)
		switch rapid.IntRange(0, 9).Draw(t, "arithctx") {
		case 0:
			return e // for the Arithmetic entry point; a command line otherwise
		case 1:
			return "echo $((" + e + "))\n"
		case 2:
			return "((" + e + "))\n"
		case 3:
			return "a[" + e + "]=x\n"
		case 4:
			return "echo ${a[" + e + "]}\n"
		case 5:
			return "let " + strings.ReplaceAll(e, " ", "") + "\n"
		case 6:
			return "for ((" + e + ";" + toks("arith", arithAlphabet, 0, 3) + ";" + toks("arith", arithAlphabet, 0, 3) + ")); do :; done\n"
		case 7:
			return "echo ${x:" + e + ":" + toks("arith", arithAlphabet, 0, 3) + "}\n"
		case 8:
			return "echo \"$((" + e + "))\" $[" + toks("arith", arithAlphabet, 0, 3) + "]\n"
		default:
			return "a=(" + "[" + e + "]=v)\ndeclare -A m=([" + e + "]=w)\n"
		}
	case 2: // [[ ]] and test
		e := toks("test", testAlphabet, 1, 8)
		if rapid.IntRange(0, 3).Draw(t, "testctx") == 0 {
			return "[ " + e + " ]\n"
		}
		return "[[ " + e + " ]]\n"
	case 3: // parameter expansion
		e := toks("param", paramAlphabet, 1, 6)
		switch rapid.IntRange(0, 2).Draw(t, "paramctx") {
		case 0:
			return "echo ${" + e + "}\n"
		case 1:
			return "echo \"${" + e + "}\"\n"
		default:
			return "cat <<EOF\n${" + e + "}\nEOF\n"
		}
	case 4: // redirections and command prefixes
		return toks("redir", redirAlphabet, 1, 8) + "\n"
	default: // case patterns and extended globs
		return "case " + toks("pat", patAlphabet, 1, 3) + " in " + toks("pat", patAlphabet, 1, 6) + ") x;; esac\n"
	}
}

var arithAlphabet = []string{
	"x", "y", "a[1]", "1", "0", "010", "0x1F", "16#ff", "$x", "${y}", "$(echo 1)", "\"3\"", "'4'", "$((1))",
	"+", "-", "*", "/", "%", "**", "++", "--", "!", "~", "<<", ">>", "<", ">", "<=", ">=", "==", "!=",
	"&", "|", "^", "&&", "||", "?", ":", ",", "=", "+=", "-=", "*=", "/=", "%=", "<<=", ">>=", "&=", "|=", "^=", "**=",
	"(", ")", "[", "]", "#", "$", ".", "1.5", "\\\n", "\n", ";",
}

var testAlphabet = []string{
	"a", "$x", "\"$y\"", "''", "*.sh", "1", "-n", "-z", "-e", "-f", "-d", "-v", "-R", "-o", "-a", "-t",
	"=", "==", "!=", "=~", "<", ">", "-eq", "-ne", "-lt", "-nt", "-ot", "-ef",
	"!", "&&", "||", "(", ")", "]]", "[[", "^a(b|c)$", "a b", "\\\n", "\n", ";", "#c",
}

var paramAlphabet = []string{
	"x", "a", "1", "@", "*", "#", "?", "!", "-", "$", "a[1]", "a[@]", "a[*]", "!a[@]", "!x*", "!x@",
	":-", "-", ":=", "=", ":?", "?", ":+", "+", "#", "##", "%", "%%", "/", "//", "/#", "/%", "^", "^^", ",", ",,", "@Q", "@E", "@a", ":", "::",
	"1", "-1", " -1", "$y", "${z}", "\"q\"", "'s'", "*", "?", "[a-z]", "}", "{", "|", "\\\n", "(", "=", "~", "(#q)", "(f)",
}

var redirAlphabet = []string{
	"cmd", "x=1", "a+=(b)", ">", ">>", "<", "<<<", "<&", ">&", "&>", "&>>", ">|", "<>", "2", "1", "{fd}", "-", "f", "$f", "\"$g\"",
	"<(x)", ">(y)", "|", "|&", "&", "&&", "||", ";", "!", "time", "coproc", "function", "{", "}", "(", ")", "\\\n",
}

var patAlphabet = []string{
	"a", "*", "?", "[a-z]", "[!x]", "[[:alpha:]]", "|", "(", ")", "@(", "?(", "*(", "+(", "!(", "$x", "\"q\"", "'s'", "\\", "~", "{a,b}", "#", ";;", ";&", " ",
}
