// Package gen holds the rapid generators for shell source text shared by the
// syntax properties.
package gen

import (
	"fmt"
	"strings"

	"mvdan.cc/sh/v3/syntax"
	"pgregory.net/rapid"
)

// Langs lists the five resolved language variants.
var Langs = []syntax.LangVariant{syntax.LangBash, syntax.LangPOSIX, syntax.LangMirBSDKorn, syntax.LangBats, syntax.LangZsh}

// LangName gives a stable name used in replay files.
func LangName(l syntax.LangVariant) string {
	switch l {
	case syntax.LangBash:
		return "bash"
	case syntax.LangPOSIX:
		return "posix"
	case syntax.LangMirBSDKorn:
		return "mksh"
	case syntax.LangBats:
		return "bats"
	case syntax.LangZsh:
		return "zsh"
	}
	return fmt.Sprintf("lang%d", int(l))
}

// LangByName is the inverse of LangName.
func LangByName(s string) syntax.LangVariant {
	for _, l := range Langs {
		if LangName(l) == s {
			return l
		}
	}
	return syntax.LangBash
}

// Lang draws a variant name; bash is favoured since it has the most syntax.
func Lang(t *rapid.T) string {
	return rapid.SampledFrom([]string{"bash", "bash", "bash", "posix", "posix", "mksh", "bats", "zsh", "zsh"}).Draw(t, "lang")
}

// syn is the state of one structure-aware generation.
type syn struct {
	t       *rapid.T
	lang    syntax.LangVariant
	foreign bool     // also use constructs of other variants (C06/C11)
	pending []string // heredoc bodies (with terminator line) waiting for the next newline
	budget  int      // remaining compound nodes
	hdocN   int
	noise   bool // layout noise (comments, blank lines, escaped newlines)
}

func (g *syn) n(lo, hi int, label string) int { return rapid.IntRange(lo, hi).Draw(g.t, label) }
func (g *syn) b(label string) bool            { return rapid.Bool().Draw(g.t, label) }
func (g *syn) pick(label string, xs ...string) string {
	return rapid.SampledFrom(xs).Draw(g.t, label)
}
func (g *syn) chance(pct int, label string) bool { return g.n(0, 99, label) < pct }

func (g *syn) is(l syntax.LangVariant) bool {
	if g.foreign && g.chance(30, "foreign") {
		return true
	}
	return g.lang&l != 0
}

const (
	bashLike = syntax.LangBash | syntax.LangBats
	bashKsh  = syntax.LangBash | syntax.LangBats | syntax.LangMirBSDKorn
	bashZsh  = syntax.LangBash | syntax.LangBats | syntax.LangZsh
	nonPosix = syntax.LangBash | syntax.LangBats | syntax.LangMirBSDKorn | syntax.LangZsh
)

// Syn generates a program for the given variant. With foreign set, syntax of
// other variants is mixed in (such programs often do not parse).
func Syn(t *rapid.T, lang syntax.LangVariant, foreign bool) string {
	g := &syn{t: t, lang: lang, foreign: foreign}
	g.budget = g.n(1, 14, "budget")
	g.noise = g.chance(70, "noise")
	var sb strings.Builder
	if g.chance(15, "shebang") {
		sb.WriteString(g.pick("shebangtext", "#!/bin/sh\n", "#!/usr/bin/env bash\n", "#!/bin/bash -e\n", "# leading comment\n\n"))
	}
	sb.WriteString(g.stmtLines(0, g.n(1, 4, "toplines")))
	if g.chance(10, "nofinalnl") && len(g.pending) == 0 {
		return strings.TrimSuffix(sb.String(), "\n")
	}
	return sb.String()
}

// nl emits a newline and the heredoc bodies that were waiting for it.
func (g *syn) nl() string {
	s := "\n"
	for _, b := range g.pending {
		s += b
	}
	g.pending = nil
	return s
}

func (g *syn) comment() string {
	return "#" + g.pick("commenttext", " c", "", " a comment", "!x", " 'q", " $(x", "\tt", " é", "#", " trailing  ")
}

// eol ends a line: optional trailing comment, newline (+heredocs), optional
// blank lines and full-line comments.
func (g *syn) eol(indent string) string {
	s := ""
	if g.noise && g.chance(20, "trailcomment") {
		s += " " + g.comment()
	}
	s += g.nl()
	if g.noise {
		for g.chance(15, "extraline") {
			if g.b("blank") {
				s += "\n"
			} else {
				s += g.ws(indent) + g.comment() + "\n"
			}
		}
	}
	return s
}

func (g *syn) ws(indent string) string {
	if !g.noise {
		return indent
	}
	return g.pick("indent", indent, indent, "", "\t", "  ", " \t ", "        ")
}

// sep separates two statements: ';' on the same line or an end of line. A
// pending heredoc forces the end of line.
func (g *syn) sep(indent string) string {
	if len(g.pending) == 0 && g.chance(35, "semi") {
		return g.pick("semisp", "; ", ";", " ; ", ";  ")
	}
	if g.chance(10, "semi-nl") {
		return ";" + g.eol(indent) + g.ws(indent)
	}
	return g.eol(indent) + g.ws(indent)
}

// stmtLines renders n statements separated by sep, ending with an eol.
func (g *syn) stmtLines(depth, n int) string {
	indent := strings.Repeat("\t", depth)
	var sb strings.Builder
	sb.WriteString(g.ws(indent))
	for i := 0; i < n; i++ {
		st := g.stmt(depth)
		sb.WriteString(st)
		if i < n-1 {
			if isBg(st) {
				// background statements need no further separator
				if len(g.pending) > 0 || g.b("bgnl") {
					sb.WriteString(g.eol(indent) + g.ws(indent))
				} else {
					sb.WriteString(" ")
				}
			} else {
				sb.WriteString(g.sep(indent))
			}
		}
	}
	sb.WriteString(g.eol(indent))
	return sb.String()
}

// body renders a nested statement list that follows a keyword such as
// "then" or "do" and is followed by closer (fi, done, }, ...).
func (g *syn) body(depth int, opener, closer string) string {
	indent := strings.Repeat("\t", depth)
	n := g.n(1, 3, "bodyn")
	if g.budget <= 0 {
		n = 1
	}
	var sb strings.Builder
	sb.WriteString(opener)
	oneLine := len(g.pending) == 0 && g.chance(35, "oneline")
	if oneLine {
		sb.WriteString(" ")
		for i := 0; i < n; i++ {
			st := g.stmt(depth + 1)
			sb.WriteString(st)
			bg := isBg(st)
			if len(g.pending) > 0 {
				if !bg {
					if g.b("semibeforenl") {
						sb.WriteString(";")
					}
				}
				sb.WriteString(g.eol(indent) + g.ws(indent))
			} else if bg {
				sb.WriteString(" ")
			} else {
				sb.WriteString("; ")
			}
		}
		sb.WriteString(closer)
		return sb.String()
	}
	if g.noise && g.chance(10, "openercomment") {
		sb.WriteString(" " + g.comment())
	}
	sb.WriteString(g.nl())
	sb.WriteString(g.stmtLines(depth+1, n))
	sb.WriteString(g.ws(indent) + closer)
	return sb.String()
}

func isReserved(w string) bool {
	switch w {
	case "if", "then", "elif", "else", "fi", "do", "done", "in", "}", "{", "!", "]]", "[[", "time", "function", "case", "esac", "for", "while", "until", "select", "coproc", "let", "declare", "local", "export", "readonly", "typeset", "nameref", "@test", "((", "e":
		return true
	}
	return strings.HasPrefix(w, "(") || strings.HasPrefix(w, "=")
}

func isBg(st string) bool {
	return strings.HasSuffix(st, "&") || strings.HasSuffix(st, "&|") || strings.HasSuffix(st, "&!")
}

func (g *syn) stmt(depth int) string {
	s := ""
	if g.chance(6, "negated") {
		s = "! "
	}
	s += g.andOr(depth)
	if g.chance(6, "background") {
		s += " &"
		if g.is(syntax.LangZsh) && g.chance(20, "disown") {
			s = strings.TrimSuffix(s, "&") + g.pick("disownop", "&|", "&!")
		}
	}
	return s
}

func (g *syn) andOr(depth int) string {
	s := g.pipeline(depth)
	for g.budget > 0 && g.chance(12, "andor") {
		g.budget--
		op := g.pick("andorop", "&&", "||")
		s += " " + op
		if g.chance(25, "andor-nl") {
			s += g.eol("") + g.ws(strings.Repeat("\t", depth+1))
		} else {
			s += " "
		}
		s += g.pipeline(depth)
	}
	return s
}

func (g *syn) pipeline(depth int) string {
	s := g.command(depth)
	for g.budget > 0 && g.chance(15, "pipe") {
		g.budget--
		op := "|"
		if g.is(bashZsh|syntax.LangMirBSDKorn) && g.chance(15, "pipeall") {
			op = "|&"
		}
		s += " " + op
		if g.chance(20, "pipe-nl") {
			s += g.eol("") + g.ws(strings.Repeat("\t", depth+1))
		} else if len(g.pending) == 0 && g.noise && g.chance(10, "pipe-escnl") {
			s += " \\\n\t"
		} else {
			s += " "
		}
		s += g.command(depth)
	}
	return s
}

var names = []string{"a", "b", "foo", "bar", "x", "_v", "A1", "i", "arr", "PATH"}

func (g *syn) name() string { return rapid.SampledFrom(names).Draw(g.t, "name") }

func (g *syn) command(depth int) string {
	if g.budget <= 0 || depth > 4 {
		return g.simple(depth)
	}
	k := g.n(0, 99, "cmdkind")
	switch {
	case k < 40:
		return g.simple(depth)
	case k < 47:
		g.budget--
		s := g.body(depth, "if "+g.cond(depth)+"then", "")
		for g.budget > 0 && g.chance(25, "elif") {
			g.budget--
			s += g.body(depth, "elif "+g.cond(depth)+"then", "")
		}
		if g.chance(40, "else") {
			s += g.body(depth, "else", "")
		}
		return s + "fi" + g.redirs(depth, 15)
	case k < 52:
		g.budget--
		return g.body(depth, g.pick("while", "while ", "until ")+g.cond(depth)+"do", "done") + g.redirs(depth, 15)
	case k < 58:
		g.budget--
		return g.forClause(depth)
	case k < 64:
		g.budget--
		return g.caseClause(depth)
	case k < 69:
		g.budget--
		return g.body(depth, "{", "}") + g.redirs(depth, 20)
	case k < 74:
		g.budget--
		return g.subshell(depth)
	case k < 79:
		g.budget--
		return g.funcDecl(depth)
	case k < 84:
		if g.is(bashKsh | syntax.LangZsh) {
			return "[[ " + g.testExpr(2) + " ]]"
		}
	case k < 88:
		if g.is(bashKsh | syntax.LangZsh) {
			return "((" + g.sp() + g.arith(2) + g.sp() + "))"
		}
	case k < 92:
		if g.is(bashLike | syntax.LangZsh | syntax.LangMirBSDKorn) {
			return g.declClause(depth)
		}
	case k < 94:
		if g.is(bashKsh | syntax.LangZsh) {
			return "let " + g.letArg() + g.letMore()
		}
	case k < 96:
		if g.is(bashKsh | syntax.LangZsh) {
			g.budget--
			return "time " + g.pick("timep", "", "-p ") + g.pipeline(depth)
		}
	case k < 97:
		if g.is(bashLike) {
			g.budget--
			return "coproc " + g.pick("coprocname", "", "", "cp ") + g.body(depth, "{", "}")
		}
	case k < 98:
		if g.lang == syntax.LangBats || (g.foreign && g.chance(20, "batsforeign")) {
			g.budget--
			return "@test " + g.pick("testdesc", `"desc"`, `'a b'`, "plain") + " " + g.body(depth, "{", "}")
		}
	}
	return g.simple(depth)
}

func (g *syn) sp() string {
	if g.noise {
		return g.pick("sp", "", " ", "", "  ")
	}
	return ""
}

func (g *syn) cond(depth int) string {
	n := 1
	if g.chance(15, "cond2") {
		n = 2
	}
	var sb strings.Builder
	for i := 0; i < n; i++ {
		st := g.stmt(depth + 1)
		sb.WriteString(st)
		if len(g.pending) > 0 || g.chance(30, "condnl") {
			sb.WriteString(g.eol("") + g.ws(strings.Repeat("\t", depth)))
		} else if isBg(st) {
			sb.WriteString(" ")
		} else {
			sb.WriteString("; ")
		}
	}
	return sb.String()
}

func (g *syn) subshell(depth int) string {
	s := g.body(depth, "(", ")")
	// "((" must not be produced by accident: body() puts a space or a
	// newline after "(", so "( (" is the worst case.
	return s + g.redirs(depth, 10)
}

func (g *syn) funcDecl(depth int) string {
	name := g.pick("fname", "f", "foo", "my_func", "f2", "a-b", "ns::fn")
	var head string
	switch {
	case g.is(nonPosix) && g.chance(35, "functionkw"):
		head = "function " + name
		if g.b("fnparens") {
			head += g.pick("fnparensp", "()", " ()", "( )")
		}
	default:
		head = name + g.pick("fparens", "()", " ()", "( )", "()")
	}
	if !strings.ContainsAny(name, "-:") || g.is(nonPosix) {
	} else {
		head = "f()"
	}
	sepr := " "
	if g.chance(15, "fnnl") && len(g.pending) == 0 {
		sepr = "\n"
	}
	k := g.n(0, 9, "fbody")
	switch {
	case k < 7:
		return head + sepr + g.body(depth, "{", "}") + g.redirs(depth, 10)
	case k < 8:
		return head + sepr + g.body(depth, "(", ")")
	default:
		return head + sepr + g.body(depth, "if "+g.cond(depth)+"then", "fi")
	}
}

func (g *syn) forClause(depth int) string {
	kw := "for"
	if g.is(bashKsh|syntax.LangZsh) && g.chance(12, "select") {
		kw = "select"
	}
	var head string
	if kw == "for" && g.is(bashLike|syntax.LangZsh) && g.chance(25, "cstyle") {
		init, cond, post := g.arithOpt(), g.arithOpt(), g.arithOpt()
		head = "for ((" + init + ";" + g.sp() + cond + ";" + g.sp() + post + "))"
		if g.chance(50, "cstylesemi") {
			head += ";"
		}
	} else {
		head = kw + " " + g.name()
		forin := g.n(0, 3, "forin")
		if kw == "select" && forin == 0 {
			forin = 1
		}
		switch forin {
		case 0:
			head += ";" // for x; do
			if g.chance(30, "fornosemi") {
				head = strings.TrimSuffix(head, ";")
				return head + g.eol("") + g.body(depth, "do", "done")
			}
		default:
			head += " in"
			for i, n := 0, g.n(0, 3, "foritems"); i < n; i++ {
				head += " " + g.word(2)
			}
			head += ";"
		}
	}
	if g.chance(30, "fornl") || len(g.pending) > 0 {
		head = strings.TrimSuffix(head, ";")
		head += g.eol("") + g.ws(strings.Repeat("\t", depth))
	} else {
		if !strings.HasSuffix(head, ";") {
			head += ";"
		}
		head += " "
	}
	if kw == "for" && g.is(bashKsh) && g.chance(8, "forbraces") {
		return head + g.body(depth, "{", "}")
	}
	return head + g.body(depth, "do", "done") + g.redirs(depth, 10)
}

func (g *syn) caseClause(depth int) string {
	indent := strings.Repeat("\t", depth)
	var sb strings.Builder
	sb.WriteString("case " + g.word(2) + " in")
	n := g.n(0, 3, "caseitems")
	oneLine := n <= 1 && len(g.pending) == 0 && g.chance(30, "caseoneline")
	if oneLine {
		sb.WriteString(" ")
	} else {
		sb.WriteString(g.eol(indent))
	}
	for i := 0; i < n; i++ {
		if !oneLine {
			sb.WriteString(g.ws(indent + "\t"))
		}
		if g.chance(25, "caselparen") {
			sb.WriteString("(")
		}
		sb.WriteString(g.pattern())
		for g.chance(25, "casealt") {
			sb.WriteString(g.pick("casebar", "|", " | ") + g.pattern())
		}
		sb.WriteString(")")
		ns := g.n(0, 2, "casestmts")
		last := i == n-1
		if oneLine {
			for j := 0; j < ns; j++ {
				st := g.stmt(depth + 2)
				sb.WriteString(" " + st)
				if j < ns-1 && !isBg(st) {
					sb.WriteString(";")
				}
			}
			if len(g.pending) > 0 {
				sb.WriteString(g.eol(indent))
			}
			sb.WriteString(" " + g.caseOp(last) + " ")
			continue
		}
		if ns == 0 {
			sb.WriteString(" " + g.caseOp(false) + g.eol(indent))
			continue
		}
		if g.chance(50, "casesameline") {
			sb.WriteString(" ")
		} else {
			sb.WriteString(g.eol(indent) + g.ws(indent+"\t\t"))
		}
		for j := 0; j < ns; j++ {
			st := g.stmt(depth + 2)
			sb.WriteString(st)
			if j < ns-1 {
				if isBg(st) {
					sb.WriteString(g.eol(indent) + g.ws(indent+"\t\t"))
				} else {
					sb.WriteString(g.sep(indent + "\t\t"))
				}
			}
		}
		op := g.caseOp(last)
		if op == "" {
			sb.WriteString(g.eol(indent))
		} else if g.chance(50, "caseopsameline") && len(g.pending) == 0 {
			sb.WriteString(" " + op + g.eol(indent))
		} else {
			sb.WriteString(g.eol(indent) + g.ws(indent+"\t\t") + op + g.eol(indent))
		}
	}
	if !oneLine {
		sb.WriteString(g.ws(indent))
	}
	sb.WriteString("esac")
	return sb.String()
}

func (g *syn) caseOp(mayOmit bool) string {
	if mayOmit && g.chance(30, "caseomit") {
		return ""
	}
	if g.is(bashLike|syntax.LangZsh|syntax.LangMirBSDKorn) && g.chance(20, "casefall") {
		ops := []string{";&"}
		if g.is(bashLike | syntax.LangMirBSDKorn) {
			ops = append(ops, ";;&")
		}
		if g.is(syntax.LangMirBSDKorn | syntax.LangZsh) {
			ops = append(ops, ";|")
		}
		return rapid.SampledFrom(ops).Draw(g.t, "casefallop")
	}
	return ";;"
}

func (g *syn) pattern() string {
	switch g.n(0, 6, "patkind") {
	case 0:
		return "*"
	case 1:
		return g.pick("patlit", "a", "foo", "b*", "?x", "[a-z]*", "[!0-9]", `"q r"`, `'s'`, "-h", "--help", `\*`)
	case 2:
		if g.is(bashKsh) {
			return g.pick("patext", "@(a|b)", "+(x)", "!(y)*", "?(z)", "*(a)")
		}
	}
	return g.word(1)
}

var simpleCmds = []string{"echo", "foo", "cat", "true", ":", "printf", "cmd", "ls", "read", "test", "[", "exit", "return", "break", "set", "eval", "exec", "cd", "shift"}

func (g *syn) simple(depth int) string {
	var parts []string
	onlyAssign := g.chance(8, "onlyassign")
	for g.chance(12, "assignprefix") || (onlyAssign && len(parts) == 0) {
		parts = append(parts, g.assign(depth, onlyAssign))
	}
	if !onlyAssign {
		cmd := rapid.SampledFrom(simpleCmds).Draw(g.t, "cmdname")
		if g.chance(8, "cmdword") {
			cmd = g.word(2)
			if isReserved(cmd) {
				cmd = "x" + cmd
			}
		}
		if cmd == "[" {
			parts = append(parts, "[", g.word(1), g.pick("testop", "=", "!=", "-eq", "-lt", "-f"), g.word(1), "]")
		} else {
			parts = append(parts, cmd)
			for i, n := 0, g.n(0, 3, "nargs"); i < n; i++ {
				parts = append(parts, g.word(2))
			}
		}
	}
	s := ""
	for i, p := range parts {
		if i > 0 {
			if g.noise && len(g.pending) == 0 && g.chance(4, "escnl") {
				s += " \\\n\t"
			} else if g.noise && g.chance(8, "widesp") {
				s += g.pick("wide", "  ", "\t", "   ")
			} else {
				s += " "
			}
		}
		s += p
	}
	if onlyAssign {
		return s + g.redirs(depth, 5)
	}
	// redirects can also come first or in the middle
	if g.chance(4, "redirfirst") && !isReserved(parts[0]) {
		return strings.TrimSpace(g.redirs(depth, 100)) + " " + s
	}
	return s + g.redirs(depth, 22)
}

func (g *syn) assign(depth int, allowArray bool) string {
	n := g.name()
	op := "="
	if g.is(nonPosix) && g.chance(15, "append") {
		op = "+="
	}
	if allowArray && g.is(nonPosix) && g.chance(15, "idxassign") {
		n += "[" + g.arith(1) + "]"
	} else if allowArray && g.is(nonPosix) && g.chance(25, "arrayval") {
		return n + op + g.array(depth)
	}
	if g.chance(15, "emptyval") {
		return n + op
	}
	return n + op + g.word(2)
}

func (g *syn) array(depth int) string {
	var sb strings.Builder
	sb.WriteString("(")
	n := g.n(0, 4, "arrn")
	multi := g.chance(25, "arrmulti") && len(g.pending) == 0
	for i := 0; i < n; i++ {
		if multi {
			sb.WriteString("\n\t")
			if g.noise && g.chance(30, "arrcomment") {
				sb.WriteString(g.comment() + "\n\t")
			}
		} else if i > 0 {
			sb.WriteString(" ")
		}
		if g.chance(20, "arrkey") {
			sb.WriteString("[" + g.pick("arrkeyv", "0", "1+1", "k", `"a b"`, "i") + "]=")
			if i == n-1 && g.chance(25, "arremptyv") {
				continue
			}
		}
		if w := g.word(1); strings.HasPrefix(w, "[") || strings.HasPrefix(w, "=") || strings.HasPrefix(w, "(") {
			sb.WriteString("x" + w)
		} else {
			sb.WriteString(w)
		}
		if multi && g.noise && g.chance(20, "arrtrailc") {
			sb.WriteString(" " + g.comment())
		}
	}
	if multi {
		sb.WriteString("\n")
	}
	sb.WriteString(")")
	return sb.String()
}

func (g *syn) declClause(depth int) string {
	kw := g.pick("declkw", "declare", "local", "export", "readonly", "typeset")
	if g.lang == syntax.LangMirBSDKorn {
		kw = g.pick("declkwksh", "export", "readonly", "typeset", "local")
	}
	s := kw
	for g.chance(35, "declopt") {
		s += " " + g.pick("declflag", "-a", "-A", "-r", "-x", "-i", "-g", "-n", "+x", "-p")
	}
	for i, n := 0, g.n(0, 2, "declargs"); i < n; i++ {
		if g.b("declassign") {
			s += " " + g.assign(depth, true)
		} else {
			s += " " + g.pick("declname", "a", "foo", "$x", `"$@"`, "b")
		}
	}
	return s
}

func (g *syn) letArg() string {
	return g.pick("letarg", "i++", "x=1", "a+=2", `"y = 3 * 2"`, "'z<<1'", "j--", "k=(1+2)")
}

func (g *syn) letMore() string {
	if g.chance(30, "letmore") {
		return " " + g.letArg()
	}
	return ""
}

func (g *syn) redirs(depth, pct int) string {
	s := ""
	for g.chance(pct, "redir") {
		pct = 30
		s += " " + g.redir(depth)
	}
	return s
}

func (g *syn) redir(depth int) string {
	fd := g.pick("fd", "", "", "", "2", "1", "0", "3")
	if g.is(bashLike|syntax.LangZsh) && g.chance(5, "fdvar") {
		fd = "{fd}"
	}
	sp := g.pick("redirsp", "", "", " ")
	k := g.n(0, 99, "redirkind")
	switch {
	case k < 25:
		return fd + ">" + sp + g.word(1)
	case k < 35:
		return fd + ">>" + sp + g.word(1)
	case k < 45:
		return fd + "<" + sp + g.word(1)
	case k < 52:
		return fd + g.pick("dupop", ">&", "<&") + g.pick("duptarget", "1", "2", "-", "3", "$fd")
	case k < 56:
		return fd + g.pick("clobber", ">|", "<>") + sp + g.word(1)
	case k < 62:
		if g.is(nonPosix) {
			return g.pick("andredir", "&>", "&>>") + sp + g.word(1)
		}
	case k < 70:
		if g.is(nonPosix) {
			return fd + "<<<" + sp + g.word(2)
		}
	case k < 100:
		if depth <= 3 {
			return fd + g.heredoc(depth)
		}
	}
	return fd + ">" + sp + g.word(1)
}

func (g *syn) heredoc(depth int) string {
	g.hdocN++
	delim := g.pick("hdelim", "EOF", "EOF", "E", "END_1", "eof", "!", "EOF2")
	if g.hdocN > 1 && g.chance(50, "hdelimuniq") {
		delim = fmt.Sprintf("H%d", g.hdocN)
	}
	op := "<<"
	dash := g.chance(30, "hdash")
	if dash {
		op = "<<-"
	}
	quoted := g.n(0, 5, "hquoted")
	word := delim
	switch quoted {
	case 0:
		word = "'" + delim + "'"
	case 1:
		word = `"` + delim + `"`
	case 2:
		word = `\` + delim
	}
	raw := quoted <= 2
	var body strings.Builder
	for i, n := 0, g.n(0, 3, "hlines"); i < n; i++ {
		line := ""
		if dash && g.chance(50, "htab") {
			line += g.pick("htabs", "\t", "\t\t")
		}
		for j, m := 0, g.n(0, 3, "hparts"); j < m; j++ {
			switch g.n(0, 9, "hpart") {
			case 0, 1, 2:
				line += g.pick("htext", "text", "two words", " lead", "trail ", "a\tb", "é", "}", ")", "'", `"`, "#nc", "`")
			case 3:
				if raw {
					line += "$novar"
				} else {
					line += g.param(1)
				}
			case 4:
				if raw {
					line += "$(nocmd)"
				} else if depth <= 2 && g.budget > 0 {
					g.budget--
					line += g.cmdSubst(depth + 1)
				}
			case 5:
				line += g.pick("hesc", `\$x`, `\\`, "\\`", `\a`, `\"`)
			case 6:
				if !raw {
					line += "$((" + g.arith(1) + "))"
				}
			case 7:
				if g.chance(40, "hescnl") && i < n-1 {
					line += "\\"
				}
			default:
				line += "x"
			}
		}
		// the backquote sample above would open a command substitution
		// in an unquoted heredoc; keep it for raw bodies only
		if !raw {
			line = strings.ReplaceAll(line, "`", "")
		}
		if strings.TrimLeft(line, "\t") == delim {
			line += "x"
		}
		body.WriteString(line + "\n")
	}
	term := delim
	if dash && g.chance(40, "htermtab") {
		term = "\t" + delim
	}
	g.pending = append(g.pending, body.String()+term+"\n")
	return op + g.pick("hopsp", "", " ") + word
}

func (g *syn) cmdSubst(depth int) string {
	if g.chance(18, "backquote") && depth <= 2 {
		// no nested backquotes/heredocs inside: keep it simple and valid
		return "`" + g.pick("bqcmd", "foo", "echo a", "cmd | tr a b", `echo \$x`, "x=1 y", `echo "a b"`, "") + "`"
	}
	if g.lang == syntax.LangMirBSDKorn && g.chance(15, "valsub") {
		return g.pick("valsubop", "${ ", "${|") + g.simple(depth+1) + ";}"
	}
	saved := g.pending
	g.pending = nil
	var s string
	if g.budget > 0 && g.chance(25, "cmdsubmulti") {
		s = "$(" + g.nl() + g.stmtLines(depth+1, g.n(1, 2, "cmdsubn")) + ")"
	} else {
		st := g.stmt(depth + 1)
		if strings.HasPrefix(st, "(") {
			st = " " + st
		}
		s = "$(" + st
		if len(g.pending) > 0 {
			s += g.nl()
		}
		s += ")"
	}
	g.pending = saved
	return s
}

func (g *syn) procSubst(depth int) string {
	saved := g.pending
	g.pending = nil
	s := g.pick("procop", "<(", ">(") + g.stmt(depth+1)
	if len(g.pending) > 0 {
		s += g.nl()
	}
	g.pending = saved
	return s + ")"
}

func (g *syn) param(depth int) string {
	n := g.pick("pname", "a", "foo", "x", "1", "@", "*", "#", "?", "arr", "_v", "10")
	k := g.n(0, 99, "paramkind")
	special := strings.ContainsAny(n, "@*#?") || n == "10"
	switch {
	case k < 30 && n != "10":
		return "$" + n
	case k < 45:
		return "${" + n + "}"
	case k < 60:
		op := g.pick("pexpop", ":-", "-", ":=", "=", ":?", "?", ":+", "+", "#", "##", "%", "%%")
		if special && strings.Contains(op, "=") {
			op = ":-"
		}
		w := ""
		if depth > 0 && g.chance(70, "pexpword") {
			w = g.word(depth - 1)
		}
		return "${" + n + op + w + "}"
	case k < 65:
		if !special {
			return "${#" + n + "}"
		}
	case k < 80:
		if g.is(nonPosix) && !special {
			switch g.n(0, 7, "bashparam") {
			case 0:
				return "${" + n + "[" + g.pick("pidx", "0", "@", "*", "i+1", "$i", `"k"`, "-1") + "]}"
			case 1:
				return "${" + n + ":" + g.pick("poff", "1", "0:2", " -1", "i", "1:$n", "(1+1)") + "}"
			case 2:
				return "${" + n + g.pick("prepl", "/a/b", "//a/b", "/#a/b", "/%a/b", "/a", "//[0-9]/", "/a\\/b/c") + "}"
			case 3:
				if g.is(bashLike | syntax.LangZsh) {
					return "${" + n + g.pick("pcase", "^", "^^", ",", ",,", "^^[a-c]") + "}"
				}
			case 4:
				if g.is(bashLike) {
					return "${!" + g.pick("pexcl", "a", "foo", "arr[@]", "pre*", "pre@", "arr[*]") + "}"
				}
			case 5:
				if g.is(bashLike | syntax.LangMirBSDKorn) {
					return "${" + n + "@" + g.pick("pat", "Q", "U", "L", "u", "E", "P", "a", "A") + "}"
				}
			case 6:
				return "${#" + n + "[@]}"
			case 7:
				return "${" + n + "[@]" + g.pick("parrop", ":1:2", "#a", "/x/y", "") + "}"
			}
		}
	case k < 88:
		if g.lang == syntax.LangZsh || (g.foreign && g.chance(30, "zshparam")) {
			return g.pick("zshparam",
				"${(U)foo}", "${(j:,:)arr}", "${foo:h}", "${foo:t:r}", "$arr[1]", "${arr[1,2]}", "${+foo}", "${=foo}", "${==foo}",
				"${~foo}", "${^arr}", "${^^arr}", "${${foo}#a}", "${(s.:.)PATH}", "${#${foo}}", "$foo[2,-1]", "${foo:a}", "${(@)arr}", "${~~foo}")
		}
	case k < 92:
		if g.lang == syntax.LangMirBSDKorn {
			return g.pick("kshparam", "${%foo}", "${foo@#}", "${#foo[*]}")
		}
	}
	return "${" + n + "}"
}

func (g *syn) dblQuoted(depth int) string {
	var sb strings.Builder
	q := `"`
	if g.is(bashLike|syntax.LangZsh) && g.chance(5, "dollardq") {
		q = `$"`
	}
	sb.WriteString(q)
	for i, n := 0, g.n(0, 3, "dqparts"); i < n; i++ {
		switch g.n(0, 9, "dqpart") {
		case 0, 1, 2:
			sb.WriteString(g.pick("dqlit", "a", "b c", " ", "it's", "x;y", "#", "{a,b}", "*", "~", "é", "(", ")", "|", "\t", "  "))
		case 3:
			sb.WriteString(g.pick("dqesc", `\"`, `\\`, `\$`, "\\`", `\n`, `\a`, `\'`))
		case 4, 5:
			sb.WriteString(g.param(depth))
		case 6:
			if depth > 0 && g.budget > 0 {
				g.budget--
				sb.WriteString(g.cmdSubst(depth))
			}
		case 7:
			sb.WriteString("$((" + g.arith(1) + "))")
		case 8:
			if g.noise && len(g.pending) == 0 && g.chance(50, "dqnl") {
				sb.WriteString(g.pick("dqnlkind", "\n", "\\\n"))
			}
		case 9:
			sb.WriteString("$")
		}
	}
	sb.WriteString(`"`)
	return sb.String()
}

// word renders one shell word made of 1..3 parts.
func (g *syn) word(depth int) string {
	var sb strings.Builder
	n := 1
	if g.chance(25, "multipart") {
		n = g.n(2, 3, "nparts")
	}
	for i := 0; i < n; i++ {
		k := g.n(0, 99, "partkind")
		switch {
		case k < 35:
			sb.WriteString(g.pick("lit", "a", "b", "foo", "bar", "-n", "--opt=v", "1", "42", "a.b", "x/y", "./f", "~", "~/p", "a=b", "%s\\n", "*", "?", "[a-z]", "*.sh", "{a,b}", "{1..3}", "a,b", "é", "ñandú", "+x", "@", ":", "=", "a:b", "if", "then", "do", "in", "}", "!", "]]", "time", "function", "a#b", "a~b"))
		case k < 42:
			sb.WriteString(g.pick("esc", `\ `, `\$`, `\"`, `\'`, `\\`, `\*`, `\;`, `\#`, `\a`, `\&`, `\(`, `\<`, `\|`))
		case k < 52:
			sb.WriteString("'" + g.pick("sq", "", "a", "b c", `"`, `$x`, `\`, "#", "x;y", "é", "\t", "(", "`", "*") + "'")
		case k < 64:
			sb.WriteString(g.dblQuoted(depth))
		case k < 76:
			sb.WriteString(g.param(depth))
		case k < 82:
			if depth > 0 && g.budget > 0 {
				g.budget--
				sb.WriteString(g.cmdSubst(depth))
			} else {
				sb.WriteString("$(x)")
			}
		case k < 86:
			if g.chance(15, "arithbracket") && g.is(bashLike) {
				sb.WriteString("$[" + g.arith(1) + "]")
			} else {
				sb.WriteString("$((" + g.sp() + g.arith(2) + g.sp() + "))")
			}
		case k < 89:
			if g.is(nonPosix) {
				sb.WriteString("$'" + g.pick("dsq", "a", `\n`, `\t`, `\'`, `\\`, `\x41`, `a b`, `é`, `"`, `\e[0m`, "") + "'")
			} else {
				sb.WriteString("x")
			}
		case k < 92:
			if g.is(bashLike|syntax.LangZsh) && depth > 0 && g.budget > 0 && i == 0 && n == 1 {
				g.budget--
				sb.WriteString(g.procSubst(depth))
			} else {
				sb.WriteString("y")
			}
		case k < 95:
			if g.is(bashKsh) {
				sb.WriteString(g.pick("extglob", "@(a|b)", "+(x|y)", "!(z)", "?(a)", "*(b c)", "@(a|$x)"))
			} else {
				sb.WriteString("z")
			}
		case k < 97:
			if g.lang == syntax.LangZsh || (g.foreign && g.chance(30, "zshword")) {
				sb.WriteString(g.pick("zshword", "*(.)", "**/*(/)", "<1-10>", "<->", "<5->", "*.c(#q.)", "^foo", "a#", "(a|b)", "*~x", "=cmd"))
			} else {
				sb.WriteString("w")
			}
		default:
			if i == n-1 && g.chance(30, "trailingdollar") {
				sb.WriteString(g.pick("dollarlit", "$", "a$"))
				break
			}
			sb.WriteString(g.pick("oddlit", "%", "^", "-", "--", "a{", "}b", "{", "{}", "{a", "a}", ",", "\\\\", "a\\b"))
		}
	}
	s := sb.String()
	if s == "" {
		return "e"
	}
	return s
}

func (g *syn) arithOpt() string {
	if g.chance(25, "arithempty") {
		return ""
	}
	return g.arith(1)
}

func (g *syn) arith(depth int) string {
	if depth <= 0 || g.chance(35, "arithleaf") {
		return g.pick("arithleaf", "1", "0", "42", "x", "i", "$x", "${y}", "a[1]", "a[i+1]", "0x1F", "010", "16#ff", "-1", "$(echo 1)", `"3"`, "x++", "--i", "!x", "~y", "$#", "${#a}")
	}
	switch g.n(0, 9, "arithkind") {
	case 0:
		return "(" + g.sp() + g.arith(depth-1) + g.sp() + ")"
	case 1:
		return g.arith(depth-1) + g.sp() + "?" + g.sp() + g.arith(depth-1) + g.sp() + ":" + g.sp() + g.arith(depth-1)
	case 2:
		return g.pick("arithlhs", "x", "i", "a[0]", "y") + g.sp() + g.pick("arithassign", "=", "+=", "-=", "*=", "/=", "%=", "<<=", ">>=", "&=", "|=", "^=") + g.sp() + g.arith(depth-1)
	case 3:
		return g.arith(depth-1) + g.sp() + "," + g.sp() + g.arith(depth-1)
	default:
		op := g.pick("arithop", "+", "-", "*", "/", "%", "**", "<<", ">>", "<", "<=", ">", ">=", "==", "!=", "&", "|", "^", "&&", "||")
		l, r := g.arith(depth-1), g.arith(depth-1)
		sp := g.sp()
		if sp == "" && (strings.HasPrefix(r, "-") && strings.HasSuffix(op, "-") || strings.HasPrefix(r, "+") && strings.HasSuffix(op, "+") || strings.HasPrefix(r, "--") || strings.HasSuffix(l, "++") || strings.HasSuffix(l, "--")) {
			sp = " "
		}
		return l + sp + op + sp + r
	}
}

func (g *syn) testExpr(depth int) string {
	if depth <= 0 || g.chance(40, "testleaf") {
		switch g.n(0, 5, "testleafkind") {
		case 0:
			return g.pick("unop", "-f", "-d", "-z", "-n", "-e", "-x", "-v", "-L", "!") + " " + g.word(1)
		case 1:
			return g.word(1) + " " + g.pick("binop", "==", "=", "!=", "-eq", "-ne", "-lt", "-gt", "-nt", "-ef", "<", ">") + " " + g.word(1)
		case 2:
			return g.word(1) + " =~ " + g.pick("regex", "^a+$", "a|b", "[0-9]+", `"lit"`, "(x|y)z", "^[[:alpha:]]", "$re", `a\ b`, ".*")
		case 3:
			return g.word(1) + " == " + g.pick("testpat", "*.sh", "a*", "[a-z]?", "@(a|b)", `"q"*`, "$p")
		default:
			return g.word(1)
		}
	}
	switch g.n(0, 3, "testkind") {
	case 0:
		return "( " + g.testExpr(depth-1) + " )"
	case 1:
		return "! " + g.testExpr(depth-1)
	default:
		op := g.pick("testlogic", "&&", "||")
		sepr := " "
		if g.noise && g.chance(15, "testnl") {
			sepr = "\n\t"
		}
		return g.testExpr(depth-1) + " " + op + sepr + g.testExpr(depth-1)
	}
}
