package gen

import (
	"fmt"
	"os"
	"sort"
	"strings"
	"testing"

	"mvdan.cc/sh/v3/syntax"
	"pgregory.net/rapid"
)

// TestMeasure reports how often generated programs parse, per variant.
func TestMeasure(t *testing.T) {
	for _, l := range Langs {
		ok, total := 0, 0
		errs := map[string]int{}
		ex := map[string]string{}
		rapid.Check(t, func(rt *rapid.T) {
			src := Syn(rt, l, false)
			total++
			p := syntax.NewParser(syntax.Variant(l), syntax.KeepComments(true))
			_, err := p.Parse(strings.NewReader(src), "")
			if err == nil {
				ok++
			} else {
				m := err.Error()
				if i := strings.Index(m, ": "); i >= 0 {
					m = m[i+2:]
				}
				errs[m]++
				if len(src) < len(ex[m]) || ex[m] == "" {
					ex[m] = src
				}
			}
		})
		fmt.Printf("%s: %d/%d parse\n", LangName(l), ok, total)
		if os.Getenv("SHOW") != "" {
			var ks []string
			for k := range errs {
				ks = append(ks, k)
			}
			sort.Slice(ks, func(i, j int) bool { return errs[ks[i]] > errs[ks[j]] })
			for _, k := range ks[:min(12, len(ks))] {
				fmt.Printf("   %4d %s\n        %q\n", errs[k], k, ex[k])
			}
		}
	}
}
