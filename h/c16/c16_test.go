// C16: Brace expansion matches bash.
//
// For every word made of literal characters, syntax.SplitBraces leaves the
// word's text unchanged and reports whether it found a brace expansion, and
// expand.Fields gives exactly the list of words bash gives for the unquoted
// word (or an error, only when that list has more than 16384 elements).
package c16

import (
	"fmt"
	"math/big"
	"os"
	"path/filepath"
	"regexp"
	"strconv"
	"strings"
	"sync"
	"testing"
	"time"

	"mvdan.cc/sh/v3/expand"
	"mvdan.cc/sh/v3/syntax"
	"pgregory.net/rapid"

	"verifh/oracle"
	"verifh/vh"
)

func TestMain(m *testing.M) { vh.Main(m) }

// Case is a list of words over the alphabet { } , . 0-9 a-z A-Z - + \ .
// The enumeration stage uses one word per case, the random stage a handful so
// that one bash process expands all of them.
type Case struct {
	Words []string `json:"words"`
}

// limit is the documented cap of expand.BracesSeq (expand/braces.go: "16Ki
// expanded elements"; the error text says "would exceed 16384 elements").
const limit = 16 << 10

// maxBash bounds the number of words we let bash build for one input word.
const maxBash = 50000

func inAlphabet(w string) bool {
	for i := 0; i < len(w); i++ {
		c := w[i]
		switch {
		case c >= '0' && c <= '9', c >= 'a' && c <= 'z', c >= 'A' && c <= 'Z':
		case c == '{', c == '}', c == ',', c == '.', c == '-', c == '+', c == '\\':
		default:
			return false
		}
	}
	return true
}

// trailingBackslash: the word ends in an unescaped backslash, which would
// quote whatever follows the word in a script; such a string is not a word.
func trailingBackslash(w string) bool {
	n := 0
	for i := len(w) - 1; i >= 0 && w[i] == '\\'; i-- {
		n++
	}
	return n%2 == 1
}

// unquote is quote removal for a word of this alphabet: drop each escaping
// backslash.
func unquote(w string) string {
	if !strings.Contains(w, `\`) {
		return w
	}
	var sb strings.Builder
	for i := 0; i < len(w); i++ {
		if w[i] == '\\' && i+1 < len(w) {
			i++
		}
		sb.WriteByte(w[i])
	}
	return sb.String()
}

var seqRe = regexp.MustCompile(`\{([+-]?[0-9]+|[a-zA-Z])\.\.([+-]?[0-9]+|[a-zA-Z])(?:\.\.([+-]?[0-9]+))?\}`)

// sizeBound over-approximates how many words bash can build from w: the
// product of the sizes of everything that looks like a sequence expression
// and, for every open brace, of one plus the commas directly inside it.
func sizeBound(w string) *big.Int {
	bound := big.NewInt(1)
	for _, m := range seqRe.FindAllStringSubmatch(w, -1) {
		var n *big.Int
		a, okA := new(big.Int).SetString(m[1], 10)
		b, okB := new(big.Int).SetString(m[2], 10)
		if okA && okB {
			n = new(big.Int).Sub(a, b)
			n.Abs(n)
			if m[3] != "" {
				if s, ok := new(big.Int).SetString(m[3], 10); ok && s.Sign() != 0 {
					n.Quo(n, s.Abs(s))
				}
			}
			n.Add(n, big.NewInt(1))
		} else {
			n = big.NewInt(64) // letter ranges: at most 'A'..'z'
		}
		bound.Mul(bound, n)
	}
	var stack []int64
	mul := func(k int64) { bound.Mul(bound, big.NewInt(k)) }
	for i := 0; i < len(w); i++ {
		switch w[i] {
		case '\\':
			i++
		case '{':
			stack = append(stack, 1)
		case ',':
			if len(stack) > 0 {
				stack[len(stack)-1]++
			}
		case '}':
			if len(stack) > 0 {
				mul(stack[len(stack)-1])
				stack = stack[:len(stack)-1]
			}
		}
	}
	for _, k := range stack {
		mul(k)
	}
	return bound
}

// spanOverflows: the word holds a sequence that bash's intmax_t arithmetic
// gives up on, leaving the text alone: the end minus the start is outside
// [INTMAX_MIN+3, INTMAX_MAX-2] (although with a large step the documented
// sequence would be short), or the sequence ascends and the step is
// INTMAX_MIN, which braces.c cannot negate. Such words are outside what the
// reference can answer.
func spanOverflows(w string) bool {
	ms := numRangeRe.FindAllStringSubmatch(w, -1)
	ms = append(ms, chrRangeRe.FindAllStringSubmatch(w, -1)...)
	for _, m := range ms {
		from, _ := new(big.Int).SetString(m[1], 10)
		to, _ := new(big.Int).SetString(m[2], 10)
		if from == nil && to == nil { // letters: their character codes
			from, to = big.NewInt(int64(m[1][0])), big.NewInt(int64(m[2][0]))
		}
		if from == nil || to == nil || !fitsInt64(from) || !fitsInt64(to) {
			continue
		}
		if m[3] != "" && from.Cmp(to) < 0 {
			// an ascending sequence with step -2^63: bash cannot negate it.
			if st, ok := new(big.Int).SetString(m[3], 10); ok && st.Cmp(minInt64) == 0 {
				return true
			}
		}
		d := new(big.Int).Sub(to, from)
		lo := new(big.Int).Add(minInt64, big.NewInt(3))
		hi := new(big.Int).Sub(maxInt64, big.NewInt(2))
		if d.Cmp(lo) < 0 || d.Cmp(hi) > 0 {
			return true
		}
	}
	return false
}

var leadingZeroRe = regexp.MustCompile(`^[+-]?0[0-9]`)

// padBeyondInt32: a zero-padded numeric sequence with an endpoint outside the
// 32-bit range. bash 5.2 formats padded elements through a C int, so
// {4294967296..04294967297} prints 00000000000 00000000001: a defect of the
// reference, not something to agree with.
func padBeyondInt32(w string) bool {
	for _, m := range numRangeRe.FindAllStringSubmatch(w, -1) {
		if !leadingZeroRe.MatchString(m[1]) && !leadingZeroRe.MatchString(m[2]) {
			continue
		}
		for _, t := range m[1:3] {
			x, ok := new(big.Int).SetString(t, 10)
			if ok && x.Abs(x).Cmp(big.NewInt(1<<31-1)) > 0 {
				return true
			}
		}
	}
	return false
}

// ---------------------------------------------------------------------------
// bash, many words per process

type bashOut struct {
	words []string
	ok    bool   // bash expanded the word without complaint
	infra string // infrastructure problem: no verdict
}

var (
	cacheMu   sync.Mutex
	cache     = map[string]bashOut{}
	bashProcs int
	infraErrs []string
)

// runBash expands every word in one bash process. Each word is given to
// `set --` unquoted in an empty directory; a record is "R <ok> <count>"
// followed by one line per resulting word.
func runBash(ws []string) ([]bashOut, string) {
	dir, err := oracle.NewDir()
	if err != nil {
		return nil, err.Error()
	}
	defer oracle.RemoveDir(dir)
	cwd := filepath.Join(dir, "empty")
	if err := os.Mkdir(cwd, 0o755); err != nil {
		return nil, err.Error()
	}
	var sb strings.Builder
	sb.WriteString("exec >../out.txt 2>../err.txt\n")
	for _, w := range ws {
		sb.WriteString("ok=0\nset --\nset -- ")
		sb.WriteString(w)
		sb.WriteString(" && ok=1\nprintf '%s\\n' \"R $ok $#\" \"$@\"\n")
	}
	sb.WriteString("echo END\n")
	cacheMu.Lock()
	bashProcs++
	cacheMu.Unlock()
	r := oracle.RunShell(sb.String(), oracle.Opts{Dir: cwd, Shell: "bash", Timeout: 120 * time.Second})
	if r.Err != nil {
		return nil, "cannot run bash: " + r.Err.Error()
	}
	if r.Timeout {
		return nil, "bash timed out"
	}
	b, err := os.ReadFile(filepath.Join(dir, "out.txt"))
	if err != nil {
		return nil, "no output file: " + err.Error()
	}
	lines := strings.Split(string(b), "\n")
	res := make([]bashOut, 0, len(ws))
	i := 0
	for range ws {
		if i >= len(lines) || !strings.HasPrefix(lines[i], "R ") {
			return nil, fmt.Sprintf("bash output out of step at line %d (%d records read)", i, len(res))
		}
		f := strings.Fields(lines[i])
		if len(f) != 3 {
			return nil, fmt.Sprintf("bad record header %q", lines[i])
		}
		n, err := strconv.Atoi(f[2])
		if err != nil || i+1+n > len(lines) {
			return nil, fmt.Sprintf("bad record header %q", lines[i])
		}
		// "$@" with no parameters still prints nothing: printf reuses the
		// format only for arguments that exist, and the header is one.
		res = append(res, bashOut{words: append([]string(nil), lines[i+1:i+1+n]...), ok: f[1] == "1"})
		i += 1 + n
	}
	if i >= len(lines) || lines[i] != "END" {
		return nil, fmt.Sprintf("bash output has no end mark after %d records", len(res))
	}
	return res, ""
}

func bashEval(ws []string) []bashOut {
	res := make([]bashOut, len(ws))
	var pend []int
	cacheMu.Lock()
	for i, w := range ws {
		if v, ok := cache[w]; ok {
			res[i] = v
		} else {
			pend = append(pend, i)
		}
	}
	cacheMu.Unlock()
	if len(pend) == 0 {
		return res
	}
	sub := make([]string, len(pend))
	for k, i := range pend {
		sub[k] = ws[i]
	}
	outs, infra := runBash(sub)
	if infra != "" && len(sub) > 1 {
		// one word may have derailed the script: halve to isolate it.
		mid := len(sub) / 2
		a := bashEval(sub[:mid])
		b := bashEval(sub[mid:])
		outs = append(a, b...)
		infra = ""
	} else if infra != "" {
		outs = []bashOut{{infra: infra}}
	}
	cacheMu.Lock()
	for k, i := range pend {
		res[i] = outs[k]
		if outs[k].infra == "" {
			cache[ws[i]] = outs[k]
		}
	}
	cacheMu.Unlock()
	return res
}

// ---------------------------------------------------------------------------
// in-process side

// excluded reports whether the exclusion class of a known finding is active.
// While regress/C16/known_<slug>.json is being replayed the class of that very
// finding (id "C16-<slug with dashes>") stays in play, so that the replay shows
// the defect (KNOWN-FINDING) instead of skipping it.
func excluded(id string) bool {
	if rp := os.Getenv("VERIF_REPLAY"); rp != "" {
		base := strings.TrimSuffix(filepath.Base(rp), ".json")
		if slug, ok := strings.CutPrefix(base, "known_"); ok && "C16-"+strings.ReplaceAll(slug, "_", "-") == id {
			return false
		}
	}
	return vh.Excluded(id)
}

func guard(f func()) (err error) {
	defer func() {
		if e := recover(); e != nil {
			err = fmt.Errorf("panic: %v", e)
		}
	}()
	f()
	return nil
}

// flatten renders a word that holds only literals and brace expansions (the
// printer has no BraceExp case).
func flatten(sb *strings.Builder, w *syntax.Word) error {
	for _, p := range w.Parts {
		switch p := p.(type) {
		case *syntax.Lit:
			sb.WriteString(p.Value)
		case *syntax.BraceExp:
			sb.WriteByte('{')
			for i, e := range p.Elems {
				if i > 0 {
					if p.Sequence {
						sb.WriteString("..")
					} else {
						sb.WriteByte(',')
					}
				}
				if err := flatten(sb, e); err != nil {
					return err
				}
			}
			sb.WriteByte('}')
		default:
			return fmt.Errorf("unexpected %T", p)
		}
	}
	return nil
}

func hasBraceExp(w *syntax.Word) bool {
	for _, p := range w.Parts {
		if b, ok := p.(*syntax.BraceExp); ok {
			_ = b
			return true
		}
	}
	return false
}

// parseWord parses `x WORD` as bash and returns the second word if it is one
// literal spelling exactly w.
func parseWord(w string) (*syntax.Word, string) {
	var f *syntax.File
	var err error
	if perr := guard(func() {
		f, err = syntax.NewParser(syntax.Variant(syntax.LangBash)).Parse(strings.NewReader("x "+w+"\n"), "")
	}); perr != nil {
		return nil, "parser " + perr.Error()
	}
	if err != nil {
		return nil, "parse error: " + err.Error()
	}
	if len(f.Stmts) != 1 {
		return nil, "not one statement"
	}
	call, ok := f.Stmts[0].Cmd.(*syntax.CallExpr)
	if !ok || len(call.Args) != 2 || len(f.Stmts[0].Redirs) != 0 {
		return nil, "not a two-word command"
	}
	word := call.Args[1]
	if len(word.Parts) != 1 {
		return nil, "not one part"
	}
	lit, ok := word.Parts[0].(*syntax.Lit)
	if !ok || lit.Value != w {
		return nil, "not one literal spelling the word"
	}
	return word, ""
}

type one struct {
	err        string
	skip       string
	classes    []string
	nontrivial bool
}

func evalOne(w string, bo bashOut) (o one) {
	// ---- bash's answer
	if !bo.ok {
		// bash itself could not expand the word (a later expansion stage
		// tripped over the generated text): no reference list.
		o.skip = "skip:bash-error"
		return o
	}
	plain := unquote(w)
	expanded := !(len(bo.words) == 1 && bo.words[0] == plain)
	o.nontrivial = expanded
	if expanded {
		o.classes = append(o.classes, "bash-expands")
		switch n := len(bo.words); {
		case n == 0:
			o.classes = append(o.classes, "n:0")
		case n == 1:
			o.classes = append(o.classes, "n:1")
		case n <= 16:
			o.classes = append(o.classes, "n:2-16")
		case n <= limit:
			o.classes = append(o.classes, "n:17-16384")
		default:
			o.classes = append(o.classes, "n:>16384")
		}
	}

	word, why := parseWord(w)
	if word == nil {
		o.skip = "skip:" + why
		return o
	}

	// ---- SplitBraces keeps the text and reports what it found
	split := *word
	var ret bool
	if perr := guard(func() { ret = syntax.SplitBraces(&split) }); perr != nil {
		o.err = fmt.Sprintf("SplitBraces(%s) %v", w, perr)
		return o
	}
	var sb strings.Builder
	if err := flatten(&sb, &split); err != nil {
		o.err = fmt.Sprintf("SplitBraces(%s) left a part that is neither literal nor brace expansion: %v", w, err)
		return o
	}
	if sb.String() != w {
		o.err = fmt.Sprintf("SplitBraces(%s) changed the word's text to %s", w, sb.String())
		return o
	}
	found := hasBraceExp(&split)
	if found {
		o.classes = append(o.classes, "go-braceexp")
	}
	if ret != found {
		if !ret || !excluded("C16-splitbraces-true-without-braceexp") {
			o.err = fmt.Sprintf("SplitBraces(%s) returned %v but the word holds %s BraceExp node", w, ret, map[bool]string{true: "a", false: "no"}[found])
			return o
		}
		o.classes = append(o.classes, "excluded:C16-splitbraces-true-without-braceexp")
	}

	// ---- known defects: classes of words, decided from the word alone
	if id := knownClass(w); id != "" {
		o.classes = append(o.classes, "excluded:"+id)
		return o
	}

	if found != expanded {
		o.err = fmt.Sprintf("SplitBraces(%s) found %s brace expansion, but bash expands the word to %q", w, map[bool]string{true: "a", false: "no"}[found], bo.words)
		return o
	}

	// ---- expansion gives bash's list
	var got []string
	var ferr error
	if perr := guard(func() { got, ferr = expand.Fields(&expand.Config{}, word) }); perr != nil {
		o.err = fmt.Sprintf("expand.Fields(%s) %v", w, perr)
		return o
	}
	if ferr != nil {
		o.classes = append(o.classes, "go-error")
		if emptyAlt.MatchString(w) && excluded("C16-empty-alternative-kept") && sizeBound(w).Cmp(big.NewInt(limit)) > 0 {
			// the empty results bash drops still count towards the limit.
			o.classes = append(o.classes, "excluded:C16-empty-alternative-kept")
			return o
		}
		if len(bo.words) <= limit {
			o.err = fmt.Sprintf("expand.Fields(%s) failed (%v) but bash's list has only %d elements: %q", w, ferr, len(bo.words), clip(bo.words))
		}
		return o
	}
	if emptyAlt.MatchString(w) && excluded("C16-empty-alternative-kept") {
		// confirmed defect: an expansion result that is empty is kept as an
		// empty field where bash drops it. Compare modulo those.
		o.classes = append(o.classes, "excluded:C16-empty-alternative-kept")
		var kept []string
		for _, g := range got {
			if g != "" {
				kept = append(kept, g)
			}
		}
		got = kept
	}
	if len(got) != len(bo.words) {
		o.err = fmt.Sprintf("expand.Fields(%s) gives %d words %q, bash gives %d words %q", w, len(got), clip(got), len(bo.words), clip(bo.words))
		return o
	}
	for i := range got {
		if got[i] != bo.words[i] {
			o.err = fmt.Sprintf("expand.Fields(%s) word %d is %q, bash gives %q (all: %q vs %q)", w, i, got[i], bo.words[i], clip(got), clip(bo.words))
			return o
		}
	}
	return o
}

func clip(ws []string) []string {
	if len(ws) > 12 {
		return append(append([]string{}, ws[:12]...), fmt.Sprintf("... %d more", len(ws)-12))
	}
	return ws
}

// knownClass is filled in below (findings.go part of this file).
func knownClass(w string) string {
	for _, k := range knownClasses {
		if excluded(k.id) && k.match(w) {
			return k.id
		}
	}
	return ""
}

type known struct {
	id    string
	match func(w string) bool
}

var knownClasses = []known{
	{"C16-close-before-comma", earlyClose},
	{"C16-seq-like-group-nested", seqLikeNested},
	{"C16-char-range-backslash", rangeHitsBackslash},
	{"C16-seq-int64-overflow", seqOverflows},
}

var numRangeRe = regexp.MustCompile(`\{([+-]?[0-9]+)\.\.([+-]?[0-9]+)(?:\.\.([+-]?[0-9]+))?\}`)

var (
	maxInt64 = big.NewInt(1<<63 - 1)
	minInt64 = new(big.Int).Neg(new(big.Int).Lsh(big.NewInt(1), 63))
)

func fitsInt64(x *big.Int) bool { return x.Cmp(minInt64) >= 0 && x.Cmp(maxInt64) <= 0 }

// seqOverflows: the word holds a numeric or letter sequence (all numbers fit in
// int64) where stepping once past the last element leaves the int64 range, or
// whose step is the most negative int64 (its absolute value does not fit).
// bash guards both; the loop in expand/braces.go wraps around.
func seqOverflows(w string) bool {
	ms := numRangeRe.FindAllStringSubmatch(w, -1)
	ms = append(ms, chrRangeRe.FindAllStringSubmatch(w, -1)...)
	for _, m := range ms {
		from, _ := new(big.Int).SetString(m[1], 10)
		to, _ := new(big.Int).SetString(m[2], 10)
		if from == nil && to == nil { // a letter range steps over the character codes
			from, to = big.NewInt(int64(m[1][0])), big.NewInt(int64(m[2][0]))
		}
		step := big.NewInt(1)
		if m[3] != "" {
			step, _ = new(big.Int).SetString(m[3], 10)
		}
		if from == nil || to == nil || step == nil || !fitsInt64(from) || !fitsInt64(to) || !fitsInt64(step) {
			continue
		}
		if step.Cmp(minInt64) == 0 {
			return true
		}
		step.Abs(step)
		if step.Sign() == 0 {
			step.SetInt64(1)
		}
		dist := new(big.Int).Sub(to, from)
		dist.Abs(dist)
		k := new(big.Int).Quo(dist, step)
		k.Add(k, big.NewInt(1)) // steps to the first value past the end
		k.Mul(k, step)
		var past *big.Int
		if from.Cmp(to) <= 0 {
			past = new(big.Int).Add(from, k)
		} else {
			past = new(big.Int).Sub(from, k)
		}
		if !fitsInt64(past) {
			return true
		}
	}
	return false
}

var chrRangeRe = regexp.MustCompile(`\{([a-zA-Z])\.\.([a-zA-Z])(?:\.\.([+-]?[0-9]+))?\}`)

// rangeHitsBackslash: the word holds a letter range such as {Z..a} whose
// elements include the backslash (0x5c). bash reads that generated backslash
// as quoting what follows; expand.Fields keeps it as a character.
func rangeHitsBackslash(w string) bool {
	for _, m := range chrRangeRe.FindAllStringSubmatch(w, -1) {
		from, to := int(m[1][0]), int(m[2][0])
		step := 1
		if m[3] != "" {
			n, err := strconv.ParseInt(m[3], 10, 64)
			if err != nil {
				continue
			}
			if n < 0 {
				n = -n
			}
			if n > 64 || n < 0 {
				n = 64
			}
			if n != 0 {
				step = int(n)
			}
		}
		if from > to {
			step = -step
		}
		for c := from; (step > 0 && c <= to) || (step < 0 && c >= to); c += step {
			if c == '\\' {
				return true
			}
		}
	}
	return false
}

// group describes one open brace the way bash's scanner (brace_gobbler) sees
// it: the scan runs to the first closing brace of the group's own level that
// follows at least one separator of that level (a comma, or a ".." that is
// not directly before a closing brace).
type group struct {
	closed bool // such a closing brace exists
	early  bool // a closing brace of this level came before any separator
	commas int  // commas of this level before the close
	dots   int  // counted ".." of this level before the close
	nested bool // an open brace inside
}

func groups(w string) []group {
	var gs []group
	for i := 0; i < len(w); i++ {
		if w[i] == '\\' {
			i++
			continue
		}
		if w[i] != '{' {
			continue
		}
		var g group
		level := 0
	scan:
		for j := i + 1; j < len(w); j++ {
			switch c := w[j]; {
			case c == '\\':
				j++
			case c == '{':
				level++
				g.nested = true
			case c == '}' && level > 0:
				level--
			case c == '}':
				if g.commas+g.dots == 0 {
					g.early = true
				} else {
					g.closed = true
					break scan
				}
			case c == ',' && level == 0:
				g.commas++
			case c == '.' && level == 0 && j+2 < len(w) && w[j+1] == '.' && w[j+2] != '}':
				g.dots++
			}
		}
		gs = append(gs, g)
	}
	return gs
}

// earlyClose: for some open brace, the first closing brace at its own level
// comes before any comma or ".." of that level, and a later closing brace
// does follow such a separator. bash does not let the early brace close the
// group ({a},b} gives "a}" and "b"); SplitBraces does.
func earlyClose(w string) bool {
	for _, g := range groups(w) {
		if g.closed && g.early {
			return true
		}
	}
	return false
}

// seqLikeNested: some group has ".." but no comma at its own level and holds
// another open brace, as in {{1..2}...} or {1..{2,3}}. bash then either keeps
// the whole group literal, inner braces included, or (a comma anywhere
// inside) expands the inside and drops the outer braces; SplitBraces keeps
// the outer braces and expands the inner group.
func seqLikeNested(w string) bool {
	for _, g := range groups(w) {
		if g.closed && g.commas == 0 && g.dots > 0 && g.nested {
			return true
		}
	}
	return false
}

// ---------------------------------------------------------------------------
// the property

func check(c Case) (res vh.Result) {
	if len(c.Words) == 0 {
		return vh.Result{Skipped: true, Classes: []string{"skip:bad-case"}}
	}
	var ws []string
	skipAll := true
	pre := make([]string, len(c.Words))
	for i, w := range c.Words {
		switch {
		case w == "" || !inAlphabet(w):
			pre[i] = "skip:outside-alphabet"
		case trailingBackslash(w):
			pre[i] = "skip:trailing-backslash"
		case sizeBound(w).Cmp(big.NewInt(maxBash)) > 0:
			pre[i] = "skip:too-large-for-bash"
		case spanOverflows(w):
			pre[i] = "skip:span-beyond-bash-arithmetic"
		case padBeyondInt32(w):
			pre[i] = "skip:bash-pads-with-32-bit-int"
		default:
			ws = append(ws, w)
			skipAll = false
		}
		if pre[i] != "" {
			res.Classes = append(res.Classes, pre[i])
		}
	}
	if skipAll {
		res.Skipped = true
		return res
	}
	outs := bashEval(ws)
	k := 0
	evaluated := 0
	for i, w := range c.Words {
		if pre[i] != "" {
			continue
		}
		bo := outs[k]
		k++
		if bo.infra != "" {
			cacheMu.Lock()
			infraErrs = append(infraErrs, bo.infra)
			cacheMu.Unlock()
			res.Classes = append(res.Classes, "skip:bash-infrastructure")
			continue
		}
		o := evalOne(w, bo)
		res.Classes = append(res.Classes, o.classes...)
		res.Classes = append(res.Classes, wordClasses(w)...)
		if o.skip != "" {
			res.Classes = append(res.Classes, o.skip)
			continue
		}
		evaluated++
		if o.nontrivial {
			res.Nontrivial = true
		}
		if o.err != "" {
			res.Err = o.err
			return res
		}
	}
	if evaluated == 0 {
		res.Skipped = true
	}
	return res
}

var (
	numSeqRe  = regexp.MustCompile(`\{[+-]?[0-9]+\.\.[+-]?[0-9]+(\.\.[+-]?[0-9]+)?\}`)
	chrSeqRe  = regexp.MustCompile(`\{[a-zA-Z]\.\.[a-zA-Z](\.\.[+-]?[0-9]+)?\}`)
	padRe     = regexp.MustCompile(`\{[+-]?[0-9]*\.?\.?-?0[0-9]`)
	bigNumRe  = regexp.MustCompile(`[0-9]{18,}`)
	adjRe     = regexp.MustCompile(`\}\{`)
	emptyAlt  = regexp.MustCompile(`\{,|,,|,\}`)
	nestedRe  = regexp.MustCompile(`\{[^{}]*\{`)
	stepRe    = regexp.MustCompile(`\.\.[^.{}]+\.\.`)
	negStepRe = regexp.MustCompile(`\.\.[^.{}]+\.\.-`)
)

func wordClasses(w string) []string {
	var cl []string
	add := func(b bool, s string) {
		if b {
			cl = append(cl, s)
		}
	}
	add(numSeqRe.MatchString(w), "w:num-seq")
	add(chrSeqRe.MatchString(w), "w:char-seq")
	add(padRe.MatchString(w), "w:zero-pad")
	add(bigNumRe.MatchString(w), "w:huge-number")
	add(adjRe.MatchString(w), "w:adjacent")
	add(emptyAlt.MatchString(w), "w:empty-alt")
	add(nestedRe.MatchString(w), "w:nested")
	add(stepRe.MatchString(w), "w:step")
	add(negStepRe.MatchString(w), "w:neg-step")
	add(strings.Contains(w, `\`), "w:backslash")
	return cl
}

var prop = vh.Prop[Case]{ID: "C16", Gen: gen, Check: check}

func failOnInfra(t *testing.T) {
	cacheMu.Lock()
	defer cacheMu.Unlock()
	vh.Count("C16", "bash-processes", bashProcs)
	bashProcs = 0
	if len(infraErrs) > 0 {
		t.Fatalf("infrastructure: %d bash runs gave no verdict, first: %s", len(infraErrs), infraErrs[0])
	}
}

func TestC16(t *testing.T) {
	vh.Run(t, prop)
	failOnInfra(t)
}

// ---------------------------------------------------------------------------
// generator: words built from a grammar of brace expressions, then (sometimes)
// damaged by a one-character edit.

const alphabet = `{},.0123456789abcdefghijklmnopqrstuvwxyzABCDEFGHIJKLMNOPQRSTUVWXYZ-+\`

var edgeNums = []string{
	"9223372036854775807", "9223372036854775806", "9223372036854775800", "-9223372036854775808", "-9223372036854775807", "-9223372036854775800",
	"9223372036854775808", "-9223372036854775809", "18446744073709551616", "99999999999999999999", "4294967296", "2147483647", "-2147483648",
}

func genNum(t *rapid.T) string {
	switch rapid.IntRange(0, 11).Draw(t, "numkind") {
	case 0:
		return rapid.SampledFrom(edgeNums).Draw(t, "edge")
	case 1: // zero padded
		return strings.Repeat("0", rapid.IntRange(1, 3).Draw(t, "zeros")) + strconv.Itoa(rapid.IntRange(0, 20).Draw(t, "n"))
	case 2: // negative, zero padded
		return "-" + strings.Repeat("0", rapid.IntRange(1, 2).Draw(t, "zeros")) + strconv.Itoa(rapid.IntRange(0, 20).Draw(t, "n"))
	case 3:
		return "+" + strconv.Itoa(rapid.IntRange(0, 12).Draw(t, "n"))
	case 4:
		return rapid.SampledFrom([]string{"0", "-0", "00", "-00", "+0", "0x1", "1e1", "08", "010", "--1", "-", "+", ""}).Draw(t, "odd")
	case 5, 6:
		return strconv.Itoa(rapid.IntRange(-12, 12).Draw(t, "n"))
	default:
		return strconv.Itoa(rapid.IntRange(0, 12).Draw(t, "n"))
	}
}

func genStep(t *rapid.T) string {
	switch rapid.IntRange(0, 9).Draw(t, "stepkind") {
	case 0:
		return "0"
	case 1:
		return rapid.SampledFrom([]string{"-0", "00", "01", "-01", "+2", "a", "", "9223372036854775807", "-9223372036854775808", "-9223372036854775807", "9223372036854775808", "4294967296"}).Draw(t, "oddstep")
	case 2, 3, 4:
		return strconv.Itoa(-rapid.IntRange(1, 5).Draw(t, "s"))
	default:
		return strconv.Itoa(rapid.IntRange(1, 5).Draw(t, "s"))
	}
}

const letters = "abcdefghijklmnopqrstuvwxyzABCDEFGHIJKLMNOPQRSTUVWXYZ"

func genSeq(t *rapid.T) string {
	var a, b string
	kind := rapid.IntRange(0, 9).Draw(t, "seqkind")
	if kind == 4 && rapid.IntRange(0, 7).Draw(t, "rarely") != 0 {
		kind = 9 // expansions of 16k words are slow on both sides: keep them rare
	}
	switch kind {
	case 0, 1, 2: // letters
		// mostly short ranges (long ones multiply under nesting and make
		// both sides slow), around the case boundaries now and then.
		x := rapid.SampledFrom([]byte(letters)).Draw(t, "a")
		y := rapid.SampledFrom([]byte(letters)).Draw(t, "b")
		if rapid.IntRange(0, 5).Draw(t, "short") != 0 {
			y = x + byte(rapid.IntRange(0, 12).Draw(t, "delta")) - 6
			switch {
			case y < 'A':
				y = 'A'
			case y > 'z':
				y = 'z'
			case y > 'Z' && y < 'a':
				y = rapid.SampledFrom([]byte("XYZabc")).Draw(t, "edge")
			}
		}
		a, b = string(x), string(y)
	case 3: // near the integer limits, a short range
		base := rapid.SampledFrom([]string{"9223372036854775807", "-9223372036854775808"}).Draw(t, "limit")
		x, _ := new(big.Int).SetString(base, 10)
		d1 := int64(rapid.IntRange(0, 6).Draw(t, "d1"))
		d2 := int64(rapid.IntRange(0, 6).Draw(t, "d2"))
		if x.Sign() > 0 {
			d1, d2 = -d1, -d2
		}
		a = new(big.Int).Add(x, big.NewInt(d1)).String()
		b = new(big.Int).Add(x, big.NewInt(d2)).String()
	case 4: // around the 16384 limit
		lo := rapid.IntRange(-3, 3).Draw(t, "lo")
		n := rapid.SampledFrom([]int{16382, 16383, 16384, 16385, 16386, 20000}).Draw(t, "len")
		a, b = strconv.Itoa(lo), strconv.Itoa(lo+n-1)
		if rapid.Bool().Draw(t, "down") {
			a, b = b, a
		}
	case 5: // mixed: letter and number, or multi-letter
		a = rapid.SampledFrom([]string{"a", "1", "aa", "A", "-", "z"}).Draw(t, "a")
		b = rapid.SampledFrom([]string{"b", "2", "bb", "Z", "+", "1"}).Draw(t, "b")
	default:
		a, b = genNum(t), genNum(t)
	}
	s := "{" + a + ".." + b
	switch rapid.IntRange(0, 11).Draw(t, "hasstep") {
	case 0, 1, 2, 3:
		s += ".." + genStep(t)
	case 4: // four parts: not a sequence
		s += ".." + genStep(t) + ".." + genStep(t)
	}
	return s + "}"
}

func genLit(t *rapid.T) string {
	return rapid.SampledFrom([]string{"", "a", "b", "x", "ab", "1", "0", "-", "+", ".", "..", "...", "a.b", `\{`, `\}`, `\,`, `\\`, `\.`, `\a`, "Z", "_x"[1:]}).Draw(t, "lit")
}

func genWord(t *rapid.T, depth int) string {
	var sb strings.Builder
	n := rapid.IntRange(1, 3).Draw(t, "pieces")
	for i := 0; i < n; i++ {
		k := rapid.IntRange(0, 9).Draw(t, "piece")
		switch {
		case k <= 2:
			sb.WriteString(genLit(t))
		case k <= 5:
			sb.WriteString(genSeq(t))
		case k <= 8 && depth > 0:
			m := rapid.IntRange(1, 3).Draw(t, "alts")
			sb.WriteByte('{')
			for j := 0; j < m; j++ {
				if j > 0 {
					sb.WriteByte(',')
				}
				if rapid.IntRange(0, 3).Draw(t, "emptyalt") > 0 {
					sb.WriteString(genWord(t, depth-1))
				}
			}
			sb.WriteByte('}')
		default:
			sb.WriteString(rapid.SampledFrom([]string{"{", "}", ",", "{}", "{,}", "{a}", "{a,b}", "{a,b", "a,b}", "{{", "}}", "{..}", "{1..}", "{..2}"}).Draw(t, "junk"))
		}
	}
	return sb.String()
}

func genOne(t *rapid.T) string {
	w := genWord(t, 2)
	// one-character damage
	switch rapid.IntRange(0, 7).Draw(t, "edit") {
	case 0: // delete
		if len(w) > 1 {
			i := rapid.IntRange(0, len(w)-1).Draw(t, "at")
			w = w[:i] + w[i+1:]
		}
	case 1: // insert
		i := rapid.IntRange(0, len(w)).Draw(t, "at")
		c := rapid.SampledFrom([]byte(`{},.\-+01a`)).Draw(t, "ch")
		w = w[:i] + string(c) + w[i:]
	case 2: // replace
		if len(w) > 0 {
			i := rapid.IntRange(0, len(w)-1).Draw(t, "at")
			c := rapid.SampledFrom([]byte(alphabet)).Draw(t, "ch")
			w = w[:i] + string(c) + w[i+1:]
		}
	}
	if w == "" {
		w = "{}"
	}
	return w
}

func gen(t *rapid.T) Case {
	n := rapid.IntRange(1, 24).Draw(t, "n")
	var c Case
	for i := 0; i < n; i++ {
		c.Words = append(c.Words, genOne(t))
	}
	return c
}

// ---------------------------------------------------------------------------
// exhaustive stage

// enumChars: every word of 1..6 characters over this alphabet.
const enumChars = `{},.12a-\`

// enumSeqTokens: every word of 1..6 tokens (1..7 in the thorough tier); the
// tokens spell sequences with steps, signs and zero padding.
var enumSeqTokens = []string{"{", "}", "..", "1", "3", "-2", "01", "c"}

// enumTokens (thorough tier): every word of 1..7 tokens.
var enumTokens = []string{"{", "}", ",", "..", "0", "1", "a", "-"}

func enumerate(syms []string, maxLen int, yield func(string)) {
	idx := make([]int, maxLen)
	for n := 1; n <= maxLen; n++ {
		for i := range idx[:n] {
			idx[i] = 0
		}
		for {
			var sb strings.Builder
			for _, k := range idx[:n] {
				sb.WriteString(syms[k])
			}
			yield(sb.String())
			p := n - 1
			for p >= 0 {
				idx[p]++
				if idx[p] < len(syms) {
					break
				}
				idx[p] = 0
				p--
			}
			if p < 0 {
				break
			}
		}
	}
}

const chunk = 4000

// maxFailures: an enumeration worker stops after this many violations (one is
// enough for the verdict).
const maxFailures = 20

func TestC16Enum(t *testing.T) {
	if os.Getenv("VERIF_REPLAY") != "" {
		vh.Run(t, prop)
		return
	}
	shard, n := vh.Shard()
	var batch []string
	failures := 0
	flush := func() {
		var ws []string
		for _, w := range batch {
			if !trailingBackslash(w) && sizeBound(w).Cmp(big.NewInt(maxBash)) <= 0 && !spanOverflows(w) && !padBeyondInt32(w) {
				ws = append(ws, w)
			}
		}
		if len(ws) > 0 {
			bashEval(ws) // warm the cache: one process for the chunk
		}
		for _, w := range batch {
			if !vh.Each(t, prop, Case{Words: []string{w}}) {
				if failures++; failures >= maxFailures {
					t.Fatalf("stopping after %d violations", failures)
				}
			}
		}
		batch = batch[:0]
		cacheMu.Lock()
		cache = map[string]bashOut{}
		cacheMu.Unlock()
	}
	k := 0
	add := func(w string) {
		if k%n == shard {
			batch = append(batch, w)
			if len(batch) == chunk {
				flush()
			}
		}
		k++
	}
	var chars []string
	for _, c := range enumChars {
		chars = append(chars, string(c))
	}
	enumerate(chars, 6, add)
	enumerate(enumSeqTokens, vh.Scale(6, 7), add)
	if vh.Thorough() {
		enumerate(enumTokens, 7, add)
	}
	flush()
	vh.SetExhaustive("C16")
	failOnInfra(t)
}
