package c16

import (
	"fmt"
	"math/big"
	"os"
	"strconv"
	"strings"
	"testing"
)

func TestProbe(t *testing.T) {
	maxLen, _ := strconv.Atoi(os.Getenv("PROBE_LEN"))
	if maxLen == 0 {
		t.Skip()
	}
	var chars []string
	for _, c := range os.Getenv("PROBE_CHARS") {
		chars = append(chars, string(c))
	}
	if tk := os.Getenv("PROBE_TOKENS"); tk != "" {
		chars = strings.Fields(tk)
	}
	var all []string
	enumerate(chars, maxLen, func(w string) {
		if !trailingBackslash(w) && sizeBound(w).Cmp(big.NewInt(maxBash)) <= 0 && !spanOverflows(w) && !padBeyondInt32(w) {
			all = append(all, w)
		}
	})
	nfail := 0
	skips := map[string]int{}
	for lo := 0; lo < len(all); lo += chunk {
		part := all[lo:min(lo+chunk, len(all))]
		outs := bashEval(part)
		for i, w := range part {
			if outs[i].infra != "" {
				t.Fatalf("infra %s", outs[i].infra)
			}
			o := evalOne(w, outs[i])
			if o.skip != "" {
				skips[o.skip]++
				if skips[o.skip] < 5 {
					fmt.Printf("SKIP %q %s\n", w, o.skip)
				}
			}
			if id := knownClass(w); id != "" {
				skips[id]++
			}
			if o.err != "" {
				nfail++
				if nfail < 100000 {
					fmt.Println("FAIL", o.err)
				}
			}
		}
		cache = map[string]bashOut{}
	}
	fmt.Println("total", len(all), "fail", nfail, "skips", skips)
}
