package c23

import (
	"fmt"
	"os"
	"path/filepath"
	"sort"
	"strconv"
	"strings"
	"testing"

	"pgregory.net/rapid"

	"verifh/oracle"
)

// TestC23Survey is a development aid (not a stage): it evaluates C23_SURVEY
// generated sub-cases and prints every disagreement grouped by a syntactic
// signature. Skipped unless C23_SURVEY is set.
func TestC23Survey(t *testing.T) {
	n, _ := strconv.Atoi(os.Getenv("C23_SURVEY"))
	if n <= 0 {
		t.Skip("C23_SURVEY not set")
	}
	seed0, _ := strconv.Atoi(os.Getenv("C23_SURVEY_SEED"))
	maxEx := 2
	if v, err := strconv.Atoi(os.Getenv("C23_SURVEY_EX")); err == nil {
		maxEx = v
	}
	g := rapid.Custom(genSub)
	type grp struct {
		n  int
		ex []string
	}
	groups := map[string]*grp{}
	total, excluded, bad := 0, 0, 0
	dir, err := oracle.NewDir()
	if err != nil {
		t.Fatal(err)
	}
	defer oracle.RemoveDir(dir)
	for done := 0; done < n; {
		var subs []Sub
		var scripts []string
		for len(subs) < 64 && done < n {
			s := g.Example(seed0*1000003 + done)
			done++
			if excludedBy(s) != "" || judgeUnreliable(s) != "" {
				excluded++
				continue
			}
			in := fmt.Sprintf("in%d", len(subs))
			if err := os.WriteFile(filepath.Join(dir, in), []byte(s.Input), 0o644); err != nil {
				t.Fatal(err)
			}
			subs = append(subs, s)
			scripts = append(scripts, s.Script(in))
		}
		if len(subs) == 0 {
			continue
		}
		bres, err := oracle.Batch(scripts, oracle.Opts{Dir: dir, Timeout: batchTimeout})
		if err != nil {
			t.Fatal(err)
		}
		for i, s := range subs {
			total++
			b := bres[i]
			if b.Err != nil {
				continue
			}
			want := outcome{out: string(b.Stdout), status: b.Status}
			got := runInterp(scripts[i], dir)
			which, detail := "", ""
			if got.out != want.out || got.status != want.status {
				which = "A"
				detail = fmt.Sprintf("bash:   %s\n    interp: %s\n    bash stderr: %s", want, got, strings.TrimSpace(string(b.Stderr)))
			} else if wf, ok := parseVars(want.out, s); ok && s.apiApplicable() {
				gf, err := apiFields(s)
				if err != nil || !equalFields(gf, wf) {
					which = "B"
					detail = fmt.Sprintf("bash vars:   %q\n    ReadFields: %q err=%v", wf, gf, err)
				}
			}
			if which == "" {
				continue
			}
			bad++
			sig := fmt.Sprintf("%s %s", which, strings.Join(s.classes(), " "))
			if os.Getenv("C23_SURVEY_COARSE") != "" {
				sig = fmt.Sprintf("%s %s %s", which, s.classes()[0], s.classes()[1])
			}
			gr := groups[sig]
			if gr == nil {
				gr = &grp{}
				groups[sig] = gr
			}
			gr.n++
			if len(gr.ex) < maxEx {
				gr.ex = append(gr.ex, fmt.Sprintf("    input=%q\n    %s\n    %s", s.Input, strings.ReplaceAll(strings.TrimRight(scripts[i], "\n"), "\n", "\n    "), detail))
			}
		}
	}
	keys := make([]string, 0, len(groups))
	for k := range groups {
		keys = append(keys, k)
	}
	sort.Strings(keys)
	for _, k := range keys {
		fmt.Printf("== %s : %d\n", k, groups[k].n)
		for _, e := range groups[k].ex {
			fmt.Println(e)
		}
	}
	fmt.Printf("survey: %d evaluated, %d excluded, %d disagree, %d groups\n", total, excluded, bad, len(groups))
}
