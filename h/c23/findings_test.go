package c23

import (
	"strings"
	"unicode/utf8"
)

func hasNonASCII(s string) bool {
	for i := 0; i < len(s); i++ {
		if s[i] >= utf8.RuneSelf {
			return true
		}
	}
	return false
}

func isIFSWhite(r rune) bool { return r == ' ' || r == '\t' || r == '\n' }

// logicalLine returns the text read consumes for its first line: the first
// physical line, extended over backslash-newline continuations unless raw.
func (s Sub) logicalLine() string {
	if s.Raw {
		line, _, _ := strings.Cut(s.Input, "\n")
		return line
	}
	var sb strings.Builder
	esc := false
	for i := 0; i < len(s.Input); i++ {
		c := s.Input[i]
		switch {
		case c == '\n' && esc:
			// continuation: drop the backslash-newline pair and keep going
			esc = false
			str := sb.String()
			sb.Reset()
			sb.WriteString(str[:len(str)-1])
		case c == '\n':
			return sb.String()
		case c == '\\':
			esc = !esc
			sb.WriteByte(c)
		default:
			esc = false
			sb.WriteByte(c)
		}
	}
	return sb.String()
}

// judgeUnreliable names sub-cases on which bash 5.2.15 itself misbehaves.
func judgeUnreliable(s Sub) string {
	if ifs := s.ifsValue(); hasNonASCII(ifs) && strings.ContainsAny(ifs, " \t\n") {
		// With IFS='é ' bash splits "x éy" into x / "" / y although the
		// same input with IFS=': ' ("x :y") gives x / y: IFS whitespace next
		// to a multi-byte delimiter is not merged into it.
		return "bash-multibyte-ifs-with-whitespace"
	}
	if !s.Raw && hasNonASCII(s.ifsValue()) {
		// IFS=→ read a b on 'x\→y': bash protects only the first byte of
		// the escaped multi-byte character and splits inside it.
		for i := 0; i+1 < len(s.Input); i++ {
			if s.Input[i] == '\\' && s.Input[i+1] >= utf8.RuneSelf {
				return "bash-escaped-multibyte-ifs"
			}
		}
	}
	if !s.Raw && s.Input != "" && !strings.HasSuffix(s.Input, "\n") {
		// `printf '\\' | { read x; }` leaves bash's internal CTLESC byte
		// (\x01) in the variable: an input that ends in an unterminated
		// escape (a backslash as the last byte of the file).
		n := 0
		for n < len(s.Input) && s.Input[len(s.Input)-1-n] == '\\' {
			n++
		}
		if n%2 == 1 {
			return "bash-ctlesc-leak"
		}
	}
	return ""
}

// nonwsDelimiterEdge reports whether line holds a non-whitespace IFS
// character that delimits an empty field (at the start, or right after
// another one, IFS whitespace ignored) or, when atEnd is asked for, one that
// ends the line.
func nonwsDelimiterEdge(line, ifs string, atEnd bool) bool {
	prevDelim := true
	lastIsDelim := false
	for _, r := range line {
		switch {
		case strings.ContainsRune(ifs, r) && !isIFSWhite(r):
			if prevDelim {
				return true
			}
			prevDelim = true
			lastIsDelim = true
		case strings.ContainsRune(ifs, r): // IFS whitespace
		default:
			prevDelim = false
			lastIsDelim = false
		}
	}
	return atEnd && lastIsDelim
}

// One entry per root cause; predicates are syntactic classes over the
// sub-case and never look at an outcome.
var findings = []finding{
	// IFS=: read a b c <<< "x::y:z:" assigns x / y / z instead of x / "" /
	// "y:z:". expand.ReadFields treats non-whitespace IFS characters like
	// whitespace: no empty field for adjacent or leading delimiters, and a
	// delimiter ending the line is dropped from the last variable.
	{"C23-ifs-nonws-fields", func(s Sub) bool {
		if !s.Array && s.Names == 0 {
			return false
		}
		ifs := s.ifsValue()
		if strings.Trim(ifs, " \t\n") == "" {
			return false
		}
		return nonwsDelimiterEdge(s.logicalLine(), ifs, !s.Array)
	}},
	// read a <<< 'x \ ' assigns "x" in bash (and dash) but "x  " here: when
	// the last variable takes the remainder of the line, a trailing
	// backslash-escaped IFS whitespace character is stripped by bash.
	{"C23-escaped-trailing-space", func(s Sub) bool {
		if s.Raw || s.Array || s.Names == 0 {
			return false
		}
		ifs := s.ifsValue()
		line := s.logicalLine()
		// strip trailing unescaped IFS whitespace
		for {
			if line == "" {
				return false
			}
			r := rune(line[len(line)-1])
			if !isIFSWhite(r) || !strings.ContainsRune(ifs, r) {
				return false
			}
			rest := line[:len(line)-1]
			n := 0
			for n < len(rest) && rest[len(rest)-1-n] == '\\' {
				n++
			}
			if n%2 == 1 {
				return true // the whitespace character is escaped
			}
			line = rest
		}
	}},
	// IFS containing a backslash, without -r: ReadFields tests "is this an
	// IFS character" before "is this the escape character".
	{"C23-ifs-backslash", func(s Sub) bool {
		return !s.Raw && strings.Contains(s.ifsValue(), `\`) && strings.Contains(s.Input, `\`)
	}},
}
