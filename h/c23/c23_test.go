// C23: read splits lines like bash.
//
// A case is a batch of independent sub-cases. Each sub-case is an input file,
// an IFS setting and one `read` invocation (0..4 names, optional -r, or
// -a arr). The program prints read's status, the variables it assigned and
// the next raw line of the input (which shows how much input read consumed).
//
// Oracle A: interp's standard output and status equal bash's.
// Oracle B: for inputs of one physical line, expand.ReadFields (Go API, same
// IFS) yields the values bash assigned.
package c23

import (
	"fmt"
	"os"
	"path/filepath"
	"sort"
	"strings"
	"testing"
	"time"

	"mvdan.cc/sh/v3/expand"
	"pgregory.net/rapid"

	"verifh/oracle"
	"verifh/vh"
)

func TestMain(m *testing.M) { vh.Main(m) }

// ---------------------------------------------------------------------------
// case

// Sub is one sub-case.
type Sub struct {
	IFSMode string `json:"ifs_mode"` // "default" (untouched), "unset", "set"
	IFS     string `json:"ifs"`      // value when IFSMode is "set"
	Input   string `json:"input"`    // content of the file read reads from
	Names   int    `json:"names"`    // number of variable names, 0 = REPLY
	Raw     bool   `json:"raw"`      // -r
	Array   bool   `json:"array"`    // read -a arr (Names is ignored)
}

// Case is a batch of sub-cases evaluated by one bash process.
type Case struct {
	Subs []Sub `json:"subs"`
}

var varNames = []string{"a", "b", "c", "d"}

func shq(s string) string { return "'" + strings.ReplaceAll(s, "'", `'"'"'`) + "'" }

func (s Sub) ifsValue() string {
	if s.IFSMode == "set" {
		return s.IFS
	}
	return " \t\n"
}

// Script renders the sub-case; the input is expected in the file named in.
func (s Sub) Script(in string) string {
	var sb strings.Builder
	sb.WriteString("a=_A b=_B c=_C d=_D REPLY=_R arr=(_X _Y)\n")
	switch s.IFSMode {
	case "unset":
		sb.WriteString("unset IFS\n")
	case "set":
		sb.WriteString("IFS=" + shq(s.IFS) + "\n")
	}
	cmd := "read"
	if s.Raw {
		cmd += " -r"
	}
	if s.Array {
		cmd += " -a arr"
	} else {
		for i := 0; i < s.Names; i++ {
			cmd += " " + varNames[i]
		}
	}
	sb.WriteString("{ " + cmd + "; st=$?; IFS= read -r rest; rst=$?; } < " + in + "\n")
	sb.WriteString("echo \"st=$st rst=$rst\"\n")
	switch {
	case s.Array:
		sb.WriteString("printf '<%s>' \"${arr[@]}\"; echo \" n=${#arr[@]}\"\n")
	case s.Names == 0:
		sb.WriteString("printf '<%s>' \"$REPLY\"; echo\n")
	default:
		sb.WriteString("printf '<%s>'")
		for i := 0; i < s.Names; i++ {
			sb.WriteString(" \"$" + varNames[i] + "\"")
		}
		sb.WriteString("; echo\n")
	}
	sb.WriteString("printf '[%s]' \"$rest\"; echo\n")
	return sb.String()
}

// ---------------------------------------------------------------------------
// generators

var ifsValues = []string{
	"", " ", "\t", " \t\n", " \t", ":", ",", "-", ": ", " :", " :,", ":,", "\t:", "é", "→", ":→", "a", "\\", "\n", "\n:",
}

var fillers = []string{"a", "b", "xy", "é", "→", "1", "*", "'", "\""}

func genLine(t *rapid.T, ifs string) string {
	seps := []string{" ", " ", "\t", ":", ","}
	for _, r := range ifs {
		if r != '\n' {
			seps = append(seps, string(r), string(r))
		}
	}
	n := rapid.IntRange(0, 8).Draw(t, "nline")
	var sb strings.Builder
	for i := 0; i < n; i++ {
		switch rapid.IntRange(0, 9).Draw(t, "tok") {
		case 0, 1, 2, 3:
			sb.WriteString(rapid.SampledFrom(seps).Draw(t, "sep"))
		case 4:
			sb.WriteString(`\`)
		case 5:
			// a backslash in front of a separator or another backslash
			sb.WriteString(`\` + rapid.SampledFrom(append([]string{`\`, "a", "n"}, seps...)).Draw(t, "escaped"))
		default:
			sb.WriteString(rapid.SampledFrom(fillers).Draw(t, "fill"))
		}
	}
	return sb.String()
}

func genSub(t *rapid.T) Sub {
	var s Sub
	switch rapid.IntRange(0, 9).Draw(t, "ifsmode") {
	case 0, 1:
		s.IFSMode = "default"
	case 2:
		s.IFSMode = "unset"
	default:
		s.IFSMode = "set"
		s.IFS = rapid.SampledFrom(ifsValues).Draw(t, "ifs")
	}
	ifs := s.ifsValue()
	nl := rapid.SampledFrom([]int{1, 1, 1, 1, 2, 2, 3, 0}).Draw(t, "nlines")
	var sb strings.Builder
	for i := 0; i < nl; i++ {
		sb.WriteString(genLine(t, ifs))
		if i < nl-1 || rapid.IntRange(0, 4).Draw(t, "finalnl") > 0 {
			sb.WriteString("\n")
		}
	}
	s.Input = sb.String()
	s.Raw = rapid.Bool().Draw(t, "raw")
	if rapid.IntRange(0, 4).Draw(t, "array") == 0 {
		s.Array = true
	} else {
		s.Names = rapid.IntRange(0, 4).Draw(t, "names")
	}
	return s
}

func gen(t *rapid.T) Case {
	chunks := rapid.SliceOfN(rapid.SliceOfN(rapid.Custom(genSub), 1, 12), 1, 12).Draw(t, "subs")
	var c Case
	for _, ch := range chunks {
		c.Subs = append(c.Subs, ch...)
	}
	return c
}

// ---------------------------------------------------------------------------
// known findings: exclusion classes over the sub-case

type finding struct {
	id    string
	match func(Sub) bool
}

func excludedBy(s Sub) string {
	if os.Getenv("VERIF_REPLAY") != "" {
		// a replayed case (regress/known_*.json) is always evaluated: that
		// is how a listed finding is reported while it still reproduces.
		return ""
	}
	for _, f := range findings {
		if vh.Excluded(f.id) && f.match(s) {
			return f.id
		}
	}
	return ""
}

// firstLine returns the first logical line's physical text (up to the first
// newline) and whether the input holds exactly one physical line.
func (s Sub) firstLine() (line string, single bool) {
	line, rest, found := strings.Cut(s.Input, "\n")
	return line, !found || rest == ""
}

// ---------------------------------------------------------------------------
// Go API side (oracle B)

type mapEnv map[string]expand.Variable

func (m mapEnv) Get(name string) expand.Variable { return m[name] }
func (m mapEnv) Each(f func(string, expand.Variable) bool) {
	names := make([]string, 0, len(m))
	for n := range m {
		names = append(names, n)
	}
	sort.Strings(names)
	for _, n := range names {
		if !f(n, m[n]) {
			return
		}
	}
}

// apiApplicable: ReadFields sees one line; it is compared when the input is
// one physical line that does not end in a continuation backslash, and names
// are given (REPLY is not produced by ReadFields).
func (s Sub) apiApplicable() bool {
	if !s.Array && s.Names == 0 {
		return false
	}
	line, single := s.firstLine()
	if !single || s.Input == "" {
		return false
	}
	if !s.Raw {
		// trailing run of backslashes: odd length means continuation / a
		// dangling escape at end of input.
		n := 0
		for n < len(line) && line[len(line)-1-n] == '\\' {
			n++
		}
		if n%2 == 1 {
			return false
		}
	}
	return true
}

func apiFields(s Sub) (fields []string, err error) {
	defer func() {
		if e := recover(); e != nil {
			err = fmt.Errorf("PANIC: %v", e)
		}
	}()
	env := mapEnv{}
	switch s.IFSMode {
	case "default":
		env["IFS"] = expand.Variable{Set: true, Kind: expand.String, Str: " \t\n"}
	case "set":
		env["IFS"] = expand.Variable{Set: true, Kind: expand.String, Str: s.IFS}
	}
	line, _ := s.firstLine()
	n := s.Names
	if s.Array {
		n = -1
	}
	got := expand.ReadFields(&expand.Config{Env: env}, line, n, s.Raw)
	if !s.Array {
		if len(got) > n {
			return got, fmt.Errorf("ReadFields returned %d fields for n=%d", len(got), n)
		}
		for len(got) < n {
			got = append(got, "")
		}
	}
	return got, nil
}

// parseVars decodes the "<v1><v2>..." line (second line of the output).
func parseVars(out string, s Sub) ([]string, bool) {
	lines := strings.SplitN(out, "\n", 2)
	if len(lines) < 2 {
		return nil, false
	}
	rest := lines[1]
	end := ">\n["
	if s.Array {
		end = "> n="
	}
	i := strings.Index(rest, end)
	if i < 0 || !strings.HasPrefix(rest, "<") {
		return nil, false
	}
	body := rest[1:i]
	if s.Array {
		var n int
		if _, err := fmt.Sscanf(rest[i+len(end):], "%d", &n); err != nil {
			return nil, false
		}
		if n == 0 {
			if body != "" {
				return nil, false
			}
			return []string{}, true
		}
		f := strings.Split(body, "><")
		return f, len(f) == n
	}
	f := strings.Split(body, "><")
	return f, len(f) == s.Names
}

// ---------------------------------------------------------------------------
// check

type outcome struct {
	out    string
	status int
	note   string
}

func (o outcome) String() string {
	if o.note != "" {
		return fmt.Sprintf("status=%d stdout=%q (%s)", o.status, o.out, o.note)
	}
	return fmt.Sprintf("status=%d stdout=%q", o.status, o.out)
}

func runInterp(script, dir string) outcome {
	r := oracle.RunInterp(script, oracle.InterpOpts{Dir: dir, Timeout: 60 * time.Second})
	o := outcome{out: string(r.Stdout), status: r.Status}
	switch {
	case r.ParseErr != nil:
		o.note = "parse error: " + r.ParseErr.Error()
		o.status = -2
	case r.Panic != nil:
		o.note = fmt.Sprintf("PANIC: %v", r.Panic)
		o.status = -3
	case r.Timeout:
		o.note = "timeout"
	case r.Err != nil:
		o.note = "runner error: " + r.Err.Error()
	}
	if o.note == "" && len(r.Stderr) > 0 {
		o.note = "stderr: " + strings.TrimSpace(string(r.Stderr))
	}
	return o
}

func (s Sub) nontrivial() bool {
	line, _ := s.firstLine()
	return strings.ContainsAny(line, s.ifsValue()+`\`)
}

func (s Sub) classes() []string {
	var out []string
	ifs := s.ifsValue()
	switch {
	case s.IFSMode != "set":
		out = append(out, "ifs:"+s.IFSMode)
	case ifs == "":
		out = append(out, "ifs:empty")
	case strings.Trim(ifs, " \t\n") == "":
		out = append(out, "ifs:whitespace")
	case strings.ContainsAny(ifs, " \t\n"):
		out = append(out, "ifs:mixed")
	default:
		out = append(out, "ifs:non-whitespace")
	}
	switch {
	case s.Array:
		out = append(out, "names:-a")
	default:
		out = append(out, fmt.Sprintf("names:%d", s.Names))
	}
	if s.Raw {
		out = append(out, "raw")
	} else {
		out = append(out, "cooked")
		if strings.Contains(s.Input, "\\\n") {
			out = append(out, "continuation")
		}
	}
	if strings.Contains(s.Input, `\`) {
		out = append(out, "backslash")
	}
	if s.Input != "" && !strings.HasSuffix(s.Input, "\n") {
		out = append(out, "no-final-newline")
	}
	if s.Input == "" {
		out = append(out, "empty-input")
	}
	return out
}

func check(c Case) (res vh.Result) {
	dir, err := oracle.NewDir()
	if err != nil {
		return vh.Result{Skipped: true, Classes: []string{"infra:newdir"}}
	}
	defer oracle.RemoveDir(dir)

	classes := map[string]int{}
	defer func() {
		keys := make([]string, 0, len(classes))
		for k := range classes {
			keys = append(keys, k)
		}
		sort.Strings(keys)
		for _, k := range keys {
			vh.Count("C23", k, classes[k])
		}
	}()
	var subs []Sub
	var scripts []string
	for _, s := range c.Subs {
		if id := excludedBy(s); id != "" {
			classes["excluded:"+id]++
			continue
		}
		if why := judgeUnreliable(s); why != "" {
			classes["judge-unreliable:"+why]++
			continue
		}
		in := fmt.Sprintf("in%d", len(subs))
		if err := os.WriteFile(filepath.Join(dir, in), []byte(s.Input), 0o644); err != nil {
			return vh.Result{Skipped: true, Classes: []string{"infra:write"}}
		}
		subs = append(subs, s)
		scripts = append(scripts, s.Script(in))
	}
	if len(subs) == 0 {
		return vh.Result{Skipped: true}
	}
	bres, err := oracle.Batch(scripts, oracle.Opts{Dir: dir, Timeout: batchTimeout})
	if err != nil {
		return vh.Result{Skipped: true, Classes: []string{"infra:batch"}}
	}
	for i, s := range subs {
		b := bres[i]
		if b.Err != nil {
			classes["infra:batch-aborted"]++
			continue
		}
		want := outcome{out: string(b.Stdout), status: b.Status}
		classes["sub-cases"]++
		for _, cl := range s.classes() {
			classes[cl]++
		}
		if s.nontrivial() {
			res.Nontrivial = true
			classes["sub-cases-nontrivial"]++
		}
		// oracle A: the interpreter's read builtin
		got := runInterp(scripts[i], dir)
		if got.out != want.out || got.status != want.status {
			return vh.Result{Nontrivial: true, Err: fmt.Sprintf("sub-case %d: interp differs from bash, input %q\nscript:\n%s\nbash:   %s\ninterp: %s\nbash stderr: %s",
				i, s.Input, scripts[i], want, got, strings.TrimSpace(string(b.Stderr)))}
		}
		// oracle B: expand.ReadFields
		if !s.apiApplicable() {
			continue
		}
		wantVars, ok := parseVars(want.out, s)
		if !ok {
			classes["api-not-decoded"]++
			continue
		}
		classes["api-compared"]++
		gotVars, err := apiFields(s)
		if err != nil || !equalFields(gotVars, wantVars) {
			line, _ := s.firstLine()
			n := s.Names
			if s.Array {
				n = -1
			}
			return vh.Result{Nontrivial: true, Err: fmt.Sprintf("sub-case %d: expand.ReadFields(IFS=%q, %q, %d, raw=%v) = %q (err %v), bash read assigned %q\nscript:\n%s",
				i, s.ifsValue(), line, n, s.Raw, gotVars, err, wantVars, scripts[i])}
		}
	}
	return res
}

func equalFields(a, b []string) bool {
	if len(a) != len(b) {
		return false
	}
	for i := range a {
		if a[i] != b[i] {
			return false
		}
	}
	return true
}

var prop = vh.Prop[Case]{ID: "C23", Gen: gen, Check: check}

func TestC23(t *testing.T) { vh.Run(t, prop) }

// batchTimeout bounds one bash process evaluating a whole batch. It is
// generous because a loaded machine makes every fork slow; sub-cases left
// without a result are counted as infra:batch-aborted, never as a pass.
const batchTimeout = 120 * time.Second
