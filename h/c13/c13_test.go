// C13: Quote produces a word that expands back to the string.
//
// For every (string, variant) where syntax.Quote succeeds the result must
// parse as exactly one word made of literal/quoted parts, expand.Literal of
// that word must give the string back, and the real shell (bash for
// Bash/Bats, dash for POSIX) must print the string for `printf %s <quoted>`.
// Quote may fail only for strings the variant cannot represent.
package c13

import (
	"bytes"
	"encoding/hex"
	"fmt"
	"os"
	"path/filepath"
	"strings"
	"sync"
	"testing"
	"time"
	"unicode"
	"unicode/utf8"

	"mvdan.cc/sh/v3/expand"
	"mvdan.cc/sh/v3/syntax"
	"pgregory.net/rapid"

	"verifh/oracle"
	"verifh/vh"
)

func TestMain(m *testing.M) { vh.Main(m) }

// Case is a list of strings (hex encoded: they hold arbitrary bytes, which
// JSON strings cannot carry) quoted for one language variant. The enumeration
// stage uses one string per case, the random stage a handful so that one
// shell process confirms all of them.
type Case struct {
	Lang string   `json:"lang"`
	Strs []string `json:"strs"`
}

var langs = map[string]syntax.LangVariant{
	"bash":  syntax.LangBash,
	"posix": syntax.LangPOSIX,
	"mksh":  syntax.LangMirBSDKorn,
	"bats":  syntax.LangBats,
	"zsh":   syntax.LangZsh,
}

var langNames = []string{"bash", "posix", "mksh", "bats", "zsh"}

// shellFor names the installed reference shell of a variant ("" = none:
// mksh and zsh are not installed, those variants get the in-process clauses).
func shellFor(lang string) string {
	switch lang {
	case "bash", "bats":
		return "bash"
	case "posix":
		return "dash"
	}
	return ""
}

// ---------------------------------------------------------------------------
// the property's own notion of which failures are allowed

// printable is the property's "printable": Go's definition (letters, marks,
// numbers, punctuation, symbols and the ASCII space).
func printable(r rune) bool { return unicode.IsPrint(r) }

// mayFail reports whether the property lets Quote refuse s for the variant.
func mayFail(lang string, s string) bool {
	if strings.IndexByte(s, 0) >= 0 {
		return true
	}
	for rem := s; len(rem) > 0; {
		r, size := utf8.DecodeRuneInString(rem)
		invalid := r == utf8.RuneError && size == 1
		switch lang {
		case "posix":
			if invalid || !printable(r) {
				return true
			}
		case "mksh":
			if !invalid && r > 0xFFFD && !printable(r) {
				return true
			}
		}
		rem = rem[size:]
	}
	return false
}

// ---------------------------------------------------------------------------
// in-process clauses

type one struct {
	s       string
	quoted  string
	quoteOK bool
	err     string   // property violation found in process
	classes []string // histogram labels
	shell   bool     // wants confirmation by the real shell
}

// excluded reports whether the exclusion class of a known finding is active.
// While regress/C13/known_<slug>.json is being replayed the class of that very
// finding (id "C13-<slug with dashes>") stays in play, so that the replay shows
// the defect (KNOWN-FINDING) instead of skipping it.
func excluded(id string) bool {
	if rp := os.Getenv("VERIF_REPLAY"); rp != "" {
		base := strings.TrimSuffix(filepath.Base(rp), ".json")
		if slug, ok := strings.CutPrefix(base, "known_"); ok && "C13-"+strings.ReplaceAll(slug, "_", "-") == id {
			return false
		}
	}
	return vh.Excluded(id)
}

func guard(f func()) (err error) {
	defer func() {
		if e := recover(); e != nil {
			err = fmt.Errorf("panic: %v", e)
		}
	}()
	f()
	return nil
}

// wordOK checks that the word is made only of Lit, SglQuoted and DblQuoted
// parts, the latter holding only Lit.
func wordOK(w *syntax.Word) string {
	if len(w.Parts) == 0 {
		return "word has no parts"
	}
	for _, p := range w.Parts {
		switch p := p.(type) {
		case *syntax.Lit, *syntax.SglQuoted:
		case *syntax.DblQuoted:
			for _, q := range p.Parts {
				if _, ok := q.(*syntax.Lit); !ok {
					return fmt.Sprintf("double quotes contain a %T", q)
				}
			}
		default:
			return fmt.Sprintf("word contains a %T", p)
		}
	}
	return ""
}

func parse(lang syntax.LangVariant, src string) (f *syntax.File, err error) {
	if perr := guard(func() {
		f, err = syntax.NewParser(syntax.Variant(lang)).Parse(strings.NewReader(src), "")
	}); perr != nil {
		return nil, perr
	}
	return f, err
}

func evalOne(langName string, s string) (o one) {
	o.s = s
	lang := langs[langName]
	var q string
	var qerr error
	if perr := guard(func() { q, qerr = syntax.Quote(s, lang) }); perr != nil {
		o.err = fmt.Sprintf("Quote(%q, %s) %v", s, langName, perr)
		return o
	}
	hasNUL := strings.IndexByte(s, 0) >= 0
	if qerr != nil {
		o.classes = append(o.classes, "quote-error")
		if langName == "posix" && strings.Contains(s, "\ufffd") && excluded("C13-posix-fffd") {
			// confirmed defect: a validly encoded U+FFFD is taken for
			// invalid UTF-8 and refused.
			o.classes = append(o.classes, "excluded:C13-posix-fffd")
			return o
		}
		if !mayFail(langName, s) {
			o.err = fmt.Sprintf("Quote(%q, %s) failed (%v) but the variant can represent the string: no NUL%s", s, langName, qerr,
				map[string]string{"posix": ", only printable valid UTF-8", "mksh": ", no non-printable rune above U+FFFD"}[langName])
		}
		return o
	}
	if hasNUL {
		o.err = fmt.Sprintf("Quote(%q, %s) = %q succeeded for a string containing NUL", s, langName, q)
		return o
	}
	o.quoted, o.quoteOK = q, true
	switch {
	case q == s:
		o.classes = append(o.classes, "form:unquoted")
	case strings.HasPrefix(q, "$'"):
		o.classes = append(o.classes, "form:dollar-single")
	case strings.HasPrefix(q, "'"):
		o.classes = append(o.classes, "form:single")
	case strings.HasPrefix(q, `"`):
		o.classes = append(o.classes, "form:double")
	default:
		o.classes = append(o.classes, "form:other")
	}

	// (1) alone, the result is one statement, one simple command, one word.
	if id := knownStandalone(langName, s); id != "" {
		// confirmed defect: the word is returned unquoted although the
		// parser gives it a meaning of its own at the start of a command.
		// The remaining clauses still apply.
		o.classes = append(o.classes, "excluded:"+id)
		return evalArg(o, langName, q, nil)
	}
	f, err := parse(lang, q)
	if err != nil {
		o.err = fmt.Sprintf("Quote(%q, %s) = %s does not parse as %s: %v", s, langName, q, langName, err)
		return o
	}
	if len(f.Stmts) != 1 {
		o.err = fmt.Sprintf("Quote(%q, %s) = %s parses as %d statements, want 1", s, langName, q, len(f.Stmts))
		return o
	}
	st := f.Stmts[0]
	call, ok := st.Cmd.(*syntax.CallExpr)
	if !ok || len(call.Args) != 1 || len(call.Assigns) != 0 || len(st.Redirs) != 0 || st.Negated || st.Background || st.Coprocess || st.Disown || len(st.Comments) != 0 || len(f.Last) != 0 {
		o.err = fmt.Sprintf("Quote(%q, %s) = %s parses as %T (%d args) rather than a simple command of exactly one word", s, langName, q, st.Cmd, nargs(st.Cmd))
		return o
	}
	word := call.Args[0]
	if msg := wordOK(word); msg != "" {
		o.err = fmt.Sprintf("Quote(%q, %s) = %s: %s", s, langName, q, msg)
		return o
	}
	return evalArg(o, langName, q, word)
}

// knownStandalone names the known finding (if its exclusion is active) that
// covers quoting s for the variant: words Quote returns bare although they do
// not parse as a one-word simple command on their own.
func knownStandalone(langName, s string) string {
	const elif, clause = "C13-elif-unquoted", "C13-clause-words-unquoted"
	id := ""
	switch s {
	case "elif":
		id = elif
	case "let", "local", "export", "readonly", "typeset", "nameref":
		if langName != "posix" {
			id = clause
		}
	case "declare":
		if langName == "bash" || langName == "bats" || langName == "zsh" {
			id = clause
		}
	case "@test":
		if langName == "bats" {
			id = clause
		}
	}
	if id != "" && excluded(id) {
		return id
	}
	return ""
}

// evalArg runs the clauses that use the quoted string as an argument.
func evalArg(o one, langName, q string, word *syntax.Word) one {
	s := o.s
	lang := langs[langName]
	// (2) as an argument (the way the shell clause uses it) it is one word too.
	f2, err := parse(lang, "printf %s "+q+"\n")
	if err != nil {
		o.err = fmt.Sprintf("`printf %%s %s` (Quote(%q, %s)) does not parse: %v", q, s, langName, err)
		return o
	}
	if len(f2.Stmts) != 1 {
		o.err = fmt.Sprintf("`printf %%s %s` (Quote(%q, %s)) parses as %d statements", q, s, langName, len(f2.Stmts))
		return o
	}
	call2, ok := f2.Stmts[0].Cmd.(*syntax.CallExpr)
	if !ok || len(call2.Args) != 3 || len(f2.Stmts[0].Redirs) != 0 || f2.Stmts[0].Background || len(f2.Stmts[0].Comments) != 0 || len(f2.Last) != 0 {
		o.err = fmt.Sprintf("`printf %%s %s` (Quote(%q, %s)) is not a simple command of three words", q, s, langName)
		return o
	}
	if msg := wordOK(call2.Args[2]); msg != "" {
		o.err = fmt.Sprintf("`printf %%s %s` (Quote(%q, %s)): %s", q, s, langName, msg)
		return o
	}
	// (3) the expand package gives the string back, for both parses.
	for i, w := range []*syntax.Word{word, call2.Args[2]} {
		if w == nil {
			continue
		}
		var got string
		var lerr error
		if perr := guard(func() { got, lerr = expand.Literal(&expand.Config{}, w) }); perr != nil {
			o.err = fmt.Sprintf("expand.Literal of Quote(%q, %s) = %s: %v", s, langName, q, perr)
			return o
		}
		if lerr != nil {
			o.err = fmt.Sprintf("expand.Literal of Quote(%q, %s) = %s: error %v", s, langName, q, lerr)
			return o
		}
		if got != s {
			o.err = fmt.Sprintf("expand.Literal of Quote(%q, %s) = %s gives %q (parse %d)", s, langName, q, got, i)
			return o
		}
	}
	o.shell = shellFor(langName) != ""
	return o
}

func nargs(c syntax.Command) int {
	if call, ok := c.(*syntax.CallExpr); ok {
		return len(call.Args)
	}
	return -1
}

// ---------------------------------------------------------------------------
// the real shells, many strings per process

type shellOut struct {
	out   string // bytes printed for this string (without the record mark)
	ok    bool   // a complete record was produced
	infra string // infrastructure problem: no verdict
}

var (
	cacheMu    sync.Mutex
	cache      = map[string]shellOut{}
	shellProcs int
	infraErrs  []string
)

func cacheKey(shell, s string) string { return shell + "\x00" + s }

// runRecords runs `printf %s <q>` for every q in one process of the shell;
// every command is followed by a NUL record mark (strings never hold NUL).
// It returns the records found in the output file.
func runRecords(shell string, qs []string) (recs []string, complete bool, infra string) {
	dir, err := oracle.NewDir()
	if err != nil {
		return nil, false, err.Error()
	}
	defer oracle.RemoveDir(dir)
	var sb strings.Builder
	sb.WriteString("exec >out.bin\n")
	for _, q := range qs {
		sb.WriteString("printf %s ")
		sb.WriteString(q)
		sb.WriteString("\nprintf '\\0'\n")
	}
	sb.WriteString("printf 'END'\n")
	cacheMu.Lock()
	shellProcs++
	cacheMu.Unlock()
	r := oracle.RunShell(sb.String(), oracle.Opts{Dir: dir, Shell: shell, Timeout: 60 * time.Second})
	if r.Err != nil {
		return nil, false, "cannot run " + shell + ": " + r.Err.Error()
	}
	if r.Timeout {
		return nil, false, shell + " timed out"
	}
	b, err := os.ReadFile(filepath.Join(dir, "out.bin"))
	if err != nil {
		return nil, false, "no output file: " + err.Error()
	}
	parts := bytes.Split(b, []byte{0})
	// the text after the last mark is "END" when the script ran to the end.
	last := string(parts[len(parts)-1])
	parts = parts[:len(parts)-1]
	for _, p := range parts {
		recs = append(recs, string(p))
	}
	return recs, last == "END" && len(recs) == len(qs), ""
}

// shellEval returns what the shell printed for each quoted string. Strings
// are batched; when a record differs from the expected string (or records are
// missing because a mis-quoted string swallowed or aborted the rest of the
// script) that one string is re-run alone for its own verdict and the batch
// continues after it, so a broken string cannot cast blame on its neighbours.
func shellEval(shell string, strs, quoted []string) []shellOut {
	res := make([]shellOut, len(strs))
	var pend []int
	cacheMu.Lock()
	for i, s := range strs {
		if v, ok := cache[cacheKey(shell, s)]; ok {
			res[i] = v
		} else {
			pend = append(pend, i)
		}
	}
	cacheMu.Unlock()
	for len(pend) > 0 {
		qs := make([]string, len(pend))
		for j, i := range pend {
			qs[j] = quoted[i]
		}
		recs, complete, infra := runRecords(shell, qs)
		if infra != "" {
			for _, i := range pend {
				res[i] = shellOut{infra: infra}
			}
			break
		}
		j := 0
		for j < len(pend) && j < len(recs) && recs[j] == strs[pend[j]] {
			res[pend[j]] = shellOut{out: recs[j], ok: true}
			j++
		}
		if j == len(pend) && complete {
			break
		}
		if len(pend) == 1 {
			// a string run alone: this is its verdict.
			out := strings.Join(recs, "\x00")
			switch {
			case len(recs) == 0:
				out = "[no output: the shell rejected or did not finish the command]"
			case !complete:
				out += " [the script did not end normally]"
			}
			res[pend[0]] = shellOut{out: out, ok: false}
			break
		}
		if j == len(pend) {
			// every record is right, yet there are extra records or the end
			// mark is missing: isolate the culprit by halving.
			mid := len(pend) / 2
			for _, half := range [][]int{pend[:mid], pend[mid:]} {
				sub := shellEvalSub(shell, strs, quoted, half)
				for k, i := range half {
					res[i] = sub[k]
				}
			}
			break
		}
		// pend[j] is wrong or missing: give it its own process and go on
		// with the strings after it.
		res[pend[j]] = shellEvalSub(shell, strs, quoted, pend[j:j+1])[0]
		pend = pend[j+1:]
	}
	cacheMu.Lock()
	for i, s := range strs {
		if res[i].infra == "" {
			cache[cacheKey(shell, s)] = res[i]
		}
	}
	cacheMu.Unlock()
	return res
}

func shellEvalSub(shell string, strs, quoted []string, idx []int) []shellOut {
	s2 := make([]string, len(idx))
	q2 := make([]string, len(idx))
	for k, i := range idx {
		s2[k], q2[k] = strs[i], quoted[i]
	}
	// distinct strings only reach here uncached.
	return shellEval(shell, s2, q2)
}

// ---------------------------------------------------------------------------
// the property

func decode(c Case) ([]string, error) {
	out := make([]string, len(c.Strs))
	for i, h := range c.Strs {
		b, err := hex.DecodeString(h)
		if err != nil {
			return nil, err
		}
		out[i] = string(b)
	}
	return out, nil
}

func check(c Case) (res vh.Result) {
	if _, ok := langs[c.Lang]; !ok {
		return vh.Result{Skipped: true, Classes: []string{"skip:unknown-lang"}}
	}
	strs, err := decode(c)
	if err != nil || len(strs) == 0 {
		return vh.Result{Skipped: true, Classes: []string{"skip:bad-case"}}
	}
	res.Classes = append(res.Classes, "lang:"+c.Lang)
	ones := make([]one, len(strs))
	var shStrs, shQuoted []string
	var shIdx []int
	seen := map[string]bool{}
	for i, s := range strs {
		o := evalOne(c.Lang, s)
		ones[i] = o
		res.Classes = append(res.Classes, o.classes...)
		res.Classes = append(res.Classes, stringClasses(s)...)
		if o.quoteOK && o.quoted != s {
			res.Nontrivial = true
		}
		if o.err != "" {
			return vh.Result{Err: o.err, Classes: res.Classes, Nontrivial: res.Nontrivial}
		}
		if o.shell && !seen[s] {
			seen[s] = true
			shStrs = append(shStrs, s)
			shQuoted = append(shQuoted, o.quoted)
			shIdx = append(shIdx, i)
		}
	}
	if len(shStrs) > 0 {
		shell := shellFor(c.Lang)
		outs := shellEval(shell, shStrs, shQuoted)
		for k, so := range outs {
			s := shStrs[k]
			if so.infra != "" {
				cacheMu.Lock()
				infraErrs = append(infraErrs, so.infra)
				cacheMu.Unlock()
				return vh.Result{Skipped: true, Classes: append(res.Classes, "skip:shell-infrastructure")}
			}
			if !so.ok || so.out != s {
				res.Err = fmt.Sprintf("%s prints %q for `printf %%s %s`, want %q (Quote(%q, %s) = %s)", shell, so.out, shQuoted[k], s, s, c.Lang, shQuoted[k])
				return res
			}
		}
		res.Classes = append(res.Classes, "shell-confirmed:"+shell)
	}
	return res
}

// stringClasses labels what the generator produced.
func stringClasses(s string) []string {
	var cl []string
	if strings.IndexByte(s, 0) >= 0 {
		cl = append(cl, "s:nul")
	}
	if !utf8.ValidString(s) {
		cl = append(cl, "s:invalid-utf8")
	}
	ctrl, high, multi := false, false, false
	for _, r := range s {
		if r < 0x20 || r == 0x7f {
			ctrl = true
		}
		if r >= 0x80 && r != utf8.RuneError {
			multi = true
		}
		if r > 0xFFFD {
			high = true
		}
	}
	if ctrl {
		cl = append(cl, "s:control")
	}
	if multi {
		cl = append(cl, "s:multibyte")
	}
	if high {
		cl = append(cl, "s:above-fffd")
	}
	if syntax.IsKeyword(s) {
		cl = append(cl, "s:keyword")
	}
	if len(s) > 2 {
		cl = append(cl, "s:len>2")
	}
	return cl
}

var prop = vh.Prop[Case]{ID: "C13", Gen: gen, Check: check}

func failOnInfra(t *testing.T) {
	cacheMu.Lock()
	defer cacheMu.Unlock()
	vh.Count("C13", "shell-processes", shellProcs)
	shellProcs = 0
	if len(infraErrs) > 0 {
		t.Fatalf("infrastructure: %d shell runs gave no verdict, first: %s", len(infraErrs), infraErrs[0])
	}
}

func TestC13(t *testing.T) {
	vh.Run(t, prop)
	failOnInfra(t)
}

// ---------------------------------------------------------------------------
// generator

var tokens = []string{
	// metacharacters
	";", `"`, "'", "(", ")", "$", "|", "&", ">", "<", "`", " ", "\t", "\r", "\n", `\`, "#", "{", "}", "~", "*", "?", "[", "]", "=", "!", "^", "%", "-", "+", ",", ".", "/", ":", "@",
	"$(", "${", "$((", "`x`", "$x", "${x}", "$'", `$"`, "&&", "||", ";;", ">>", "<<", "<(", "\\\n", `\'`, `\"`, `\\`, "''", `""`, "'\\''",
	// keywords and words the parsers treat specially
	"if", "then", "else", "elif", "fi", "for", "while", "until", "do", "done", "case", "esac", "in", "function", "select", "time", "coproc", "{", "}", "!", "[[", "]]", "((", "))", "[", "let", "declare", "local", "export", "readonly", "typeset", "nameref", "eval", "test", "repeat", "always", "foreach", "end", "{}", "@test",
	// leading characters
	"~", "~root", "~/x", "#x", "=x", "a=b", "a+=b", "a[1]=b", "-n", "--", "%1",
	// control bytes
	"\x01", "\x02", "\x07", "\x08", "\x0b", "\x0c", "\x1b", "\x1f", "\x7f",
	// multi-byte runes: printable, non-printable, boundaries
	"é", "ß", "世界", "\u00a0", "\u00ad", "\u0080", "\u009f", "\u200b", "\u2028", "\u2029", "\ufeff", "\ufffc", "\ufffd", "\ufffe", "\uffff",
	"\U00010000", "\U0001F600", "\U000E0001", "\U000F0000", "\U0010FFFD", "\U0010FFFE", "\U0010FFFF", "\u0301", "e\u0301", "\ud7ff", "\ue000",
	// invalid UTF-8
	"\x80", "\xbf", "\xc0", "\xc1", "\xc3", "\xe2", "\xe2\x82", "\xf0\x9f\x98", "\xf5", "\xff", "\xfe", "\xed\xa0\x80", "\xc0\xaf", "\xf4\x90\x80\x80", "\xe0\x80\x80",
	// hex digits (what follows a \xXX or \uXXXX escape matters)
	"0", "9", "a", "f", "A", "F", "g", "1234", "abcdef",
	// plain
	"x", "foo", "bar_1", "Z",
}

// printableTokens is the part of the token list POSIX can represent.
var printableTokens = func() []string {
	var out []string
	for _, tok := range tokens {
		if !mayFail("posix", tok) {
			out = append(out, tok)
		}
	}
	return out
}()

// genString builds a string from 1..6 pieces. printableOnly restricts the
// pieces to printable, valid UTF-8 (what every variant must accept), so that
// the POSIX variant is not refused most of the time.
func genString(t *rapid.T, printableOnly bool) string {
	var sb strings.Builder
	n := rapid.IntRange(1, 6).Draw(t, "pieces")
	if rapid.IntRange(0, 9).Draw(t, "short") == 0 {
		n = 1
	}
	for i := 0; i < n; i++ {
		if printableOnly {
			if rapid.IntRange(0, 9).Draw(t, "kind") == 0 {
				sb.WriteByte(byte(rapid.IntRange(0x20, 0x7e).Draw(t, "ascii")))
			} else {
				sb.WriteString(rapid.SampledFrom(printableTokens).Draw(t, "tok"))
			}
			continue
		}
		switch rapid.IntRange(0, 9).Draw(t, "kind") {
		case 0: // any byte but NUL
			sb.WriteByte(byte(rapid.IntRange(1, 255).Draw(t, "byte")))
		case 1: // any rune, biased to the planes around the mksh limit
			var r rune
			switch rapid.IntRange(0, 3).Draw(t, "plane") {
			case 0:
				r = rune(rapid.IntRange(0x80, 0x7ff).Draw(t, "r"))
			case 1:
				r = rune(rapid.IntRange(0x800, 0xffff).Draw(t, "r"))
			case 2:
				r = rune(rapid.IntRange(0xfff0, 0x1000f).Draw(t, "r"))
			default:
				r = rune(rapid.IntRange(0x10000, 0x10ffff).Draw(t, "r"))
			}
			if r >= 0xd800 && r <= 0xdfff {
				// surrogates have no valid encoding; emit the raw 3-byte form
				sb.Write([]byte{0xed, byte(0x80 | (r>>6)&0x3f), byte(0x80 | r&0x3f)})
			} else {
				sb.WriteRune(r)
			}
		case 2: // NUL, rarely: for the "must fail" direction
			if rapid.IntRange(0, 5).Draw(t, "nul") == 0 {
				sb.WriteByte(0)
			} else {
				sb.WriteByte(byte(rapid.IntRange(1, 31).Draw(t, "ctl")))
			}
		default:
			sb.WriteString(rapid.SampledFrom(tokens).Draw(t, "tok"))
		}
	}
	return sb.String()
}

func gen(t *rapid.T) Case {
	c := Case{Lang: rapid.SampledFrom(langNames).Draw(t, "lang")}
	n := rapid.IntRange(1, 40).Draw(t, "n")
	// two cases in three for POSIX, one in four elsewhere, stay printable.
	printable := rapid.IntRange(0, 11).Draw(t, "printable")
	printableOnly := printable < 3 || (c.Lang == "posix" && printable < 8)
	for i := 0; i < n; i++ {
		c.Strs = append(c.Strs, hex.EncodeToString([]byte(genString(t, printableOnly))))
	}
	return c
}

// ---------------------------------------------------------------------------
// exhaustive stage: every string of up to two bytes 1..255 (plus the empty
// string and all strings of three bytes over a small set of troublesome
// bytes), for each variant.

var three = []byte{'\'', '"', '\\', '$', '`', ' ', '\n', 'a', 'f', '~', '#', '=', '{', '!', '*', 0x01, 0x7f, 0x80, 0xc3, 0xa9, 0xff}

func enumStrings() []string {
	out := []string{""}
	for a := 1; a < 256; a++ {
		out = append(out, string([]byte{byte(a)}))
	}
	for a := 1; a < 256; a++ {
		for b := 1; b < 256; b++ {
			out = append(out, string([]byte{byte(a), byte(b)}))
		}
	}
	for _, a := range three {
		for _, b := range three {
			for _, c := range three {
				out = append(out, string([]byte{a, b, c}))
			}
		}
	}
	return out
}

const chunk = 2000

// maxFailures: an enumeration worker stops after this many violations (each
// one costs extra shell processes and one is enough for the verdict).
const maxFailures = 20

func TestC13Enum(t *testing.T) {
	if os.Getenv("VERIF_REPLAY") != "" {
		vh.Run(t, prop)
		return
	}
	shard, n := vh.Shard()
	all := enumStrings()
	failures := 0
	k := 0
	for _, lang := range langNames {
		var mine []string
		for _, s := range all {
			if k%n == shard {
				mine = append(mine, s)
			}
			k++
		}
		for lo := 0; lo < len(mine); lo += chunk {
			part := mine[lo:min(lo+chunk, len(mine))]
			// warm the shell cache with one process for the whole chunk;
			// check() then finds every verdict there.
			if shell := shellFor(lang); shell != "" {
				var ss, qs []string
				for _, s := range part {
					if o := evalOne(lang, s); o.err == "" && o.shell {
						ss = append(ss, s)
						qs = append(qs, o.quoted)
					}
				}
				if len(ss) > 0 {
					shellEval(shell, ss, qs)
				}
			}
			for _, s := range part {
				if !vh.Each(t, prop, Case{Lang: lang, Strs: []string{hex.EncodeToString([]byte(s))}}) {
					if failures++; failures >= maxFailures {
						t.Fatalf("stopping after %d violations", failures)
					}
				}
			}
			cacheMu.Lock()
			cache = map[string]shellOut{}
			cacheMu.Unlock()
		}
	}
	vh.SetExhaustive("C13")
	failOnInfra(t)
}
