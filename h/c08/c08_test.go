// C08: Streaming, interactive and reused parsers agree with Parse.
package c08

import (
	"bytes"
	"fmt"
	"io"
	"strings"
	"testing"

	"mvdan.cc/sh/v3/syntax"
	"pgregory.net/rapid"

	"verifh/gen"
	"verifh/norm"
	"verifh/sx"
	"verifh/vh"
)

func TestMain(m *testing.M) { vh.Main(m) }

// Use is one earlier use of the parser or printer under reuse.
type Use struct {
	Kind string `json:"kind"` // parse stmts1 words document arithmetic interactive | print-file print-stmt print-word
	Src  string `json:"src"`
}

type Case struct {
	Src      string         `json:"src"`
	Lang     string         `json:"lang"`
	Comments bool           `json:"keep_comments"`
	History  []Use          `json:"history,omitempty"`
	Cfg      gen.PrinterCfg `json:"cfg"`
}

var parserUses = []string{"parse", "stmts1", "words", "document", "arithmetic", "interactive"}
var printerUses = []string{"print-file", "print-stmt", "print-word"}

func genCase(t *rapid.T) Case {
	c := Case{Lang: gen.Lang(t)}
	l := gen.LangByName(c.Lang)
	c.Src = gen.Valid(t, l)
	c.Comments = rapid.Bool().Draw(t, "comments")
	c.Cfg = gen.Printer(t, true)
	if c.Cfg.Minify && c.Cfg.SingleLine {
		c.Cfg.SingleLine = false
	}
	n := rapid.IntRange(0, 6).Draw(t, "nhist")
	for i := 0; i < n; i++ {
		u := Use{Kind: rapid.SampledFrom(append(append([]string{}, parserUses...), printerUses...)).Draw(t, "usekind")}
		switch rapid.IntRange(0, 3).Draw(t, "usesrc") {
		case 0:
			u.Src = gen.Valid(t, l)
		case 1:
			u.Src = gen.Mutate(t, gen.Valid(t, l)) // often invalid or incomplete
		case 2:
			u.Src = rapid.SampledFrom([]string{"", "(", "\"", "if x; then", "a <<EOF\n", "$((", "`", "foo \\", "{", "case x in", "a=(", "'", "a;;b", "))"}).Draw(t, "badsrc")
		default:
			u.Src = gen.Any(t, l)
		}
		c.History = append(c.History, u)
	}
	return c
}

// lineReader hands out exactly one line per Read and counts them.
type lineReader struct {
	s     string
	reads int
}

func (r *lineReader) Read(p []byte) (int, error) {
	if r.s == "" {
		return 0, io.EOF
	}
	i := strings.IndexByte(r.s, '\n')
	n := len(r.s)
	if i >= 0 {
		n = i + 1
	}
	n = copy(p, r.s[:n])
	if n > 0 && r.s[n-1] == '\n' {
		r.reads++
	}
	r.s = r.s[n:]
	return n, nil
}

func newParser(c Case) *syntax.Parser {
	return syntax.NewParser(syntax.Variant(gen.LangByName(c.Lang)), syntax.KeepComments(c.Comments))
}

// apply performs one history use; all results are discarded, panics too
// (C06 owns those).
func applyParser(p *syntax.Parser, u Use) {
	sx.Guard(func() {
		switch u.Kind {
		case "parse":
			p.Parse(strings.NewReader(u.Src), "hist")
		case "stmts1":
			for range p.StmtsSeq(strings.NewReader(u.Src)) {
				break // stopped early
			}
		case "words":
			for range p.WordsSeq(strings.NewReader(u.Src)) {
			}
		case "document":
			p.Document(strings.NewReader(u.Src))
		case "arithmetic":
			p.Arithmetic(strings.NewReader(u.Src))
		case "interactive":
			n := 0
			for range p.InteractiveSeq(&lineReader{s: u.Src}) {
				if n++; n > 2 {
					break
				}
			}
		}
	})
}

func applyPrinter(pr *syntax.Printer, c Case, u Use) {
	sx.Guard(func() {
		f, err := newParser(c).Parse(strings.NewReader(u.Src), "")
		if err != nil || f == nil {
			return
		}
		switch u.Kind {
		case "print-file":
			pr.Print(io.Discard, f)
		case "print-stmt":
			if len(f.Stmts) > 0 {
				pr.Print(io.Discard, f.Stmts[0])
			}
		case "print-word":
			for _, it := range norm.Enumerate(f) {
				if w, ok := it.Node.(*syntax.Word); ok && len(w.Parts) > 0 {
					pr.Print(io.Discard, w)
					break
				}
			}
		}
	})
}

func check(c Case) (res vh.Result) {
	src := c.Src
	// the text must end in an unescaped newline: a final unterminated line
	// or a trailing line continuation is shell-defined at EOF
	if !strings.HasSuffix(src, "\n") {
		src += "\n"
	}
	if strings.HasSuffix(src, "\\\n") || strings.HasSuffix(src, "\\\r\n") {
		return vh.Result{Skipped: true, Classes: []string{"ends-in-continuation"}}
	}
	var want *syntax.File
	var werr error
	if pn := sx.Guard(func() { want, werr = newParser(c).Parse(strings.NewReader(src), "") }); pn != nil {
		return vh.Result{Skipped: true, Classes: []string{"parser-panic(C06)"}}
	}
	if id := excluded(c, src); id != "" {
		return vh.Result{Skipped: true, Classes: []string{"excluded:" + id}}
	}

	// ---- reuse: a used parser gives the same result as a fresh one
	if len(c.History) > 0 {
		p := newParser(c)
		pr := syntax.NewPrinter(c.Cfg.Options()...)
		errored := false
		for _, u := range c.History {
			if strings.HasPrefix(u.Kind, "print-") {
				applyPrinter(pr, c, u)
				continue
			}
			if _, e, _ := sx.Parse(u.Src, c.Lang, c.Comments); e != nil {
				errored = true
			}
			applyParser(p, u)
		}
		var got *syntax.File
		var gerr error
		if pn := sx.Guard(func() { got, gerr = p.Parse(strings.NewReader(src), "") }); pn != nil {
			return vh.Fail("a reused Parser panicked: %v", pn)
		}
		if (gerr == nil) != (werr == nil) || (gerr != nil && gerr.Error() != werr.Error()) {
			return vh.Fail("a reused Parser gives error %v, a fresh one %v", gerr, werr)
		}
		if werr == nil {
			if ok, path := norm.DeepEq(want, got); !ok {
				return vh.Fail("a reused Parser gives a different tree at %s", path)
			}
			// printer reuse: same bytes as a fresh printer
			var b1, b2 bytes.Buffer
			var e1, e2 error
			sx.Guard(func() { e1 = syntax.NewPrinter(c.Cfg.Options()...).Print(&b1, want) })
			if pn := sx.Guard(func() { e2 = pr.Print(&b2, want) }); pn != nil {
				return vh.Fail("a reused Printer panicked: %v", pn)
			}
			if (e1 == nil) != (e2 == nil) || !bytes.Equal(b1.Bytes(), b2.Bytes()) {
				return vh.Fail("a reused Printer prints differently from a fresh one\nfresh:  %q (%v)\nreused: %q (%v)", b1.String(), e1, b2.String(), e2)
			}
		}
		res.Classes = append(res.Classes, "reuse")
		if len(c.History) >= 2 && errored {
			res.Nontrivial = true
		}
	}
	if werr != nil {
		res.Classes = append(res.Classes, "target-errors")
		return res
	}

	// ---- StmtsSeq yields Parse's statements
	var seq []*syntax.Stmt
	var serr error
	if pn := sx.Guard(func() {
		for st, err := range newParser(c).StmtsSeq(strings.NewReader(src)) {
			if err != nil {
				serr = err
				break
			}
			seq = append(seq, st)
		}
	}); pn != nil {
		return vh.Fail("StmtsSeq panicked: %v", pn)
	}
	if serr != nil {
		return vh.Fail("StmtsSeq fails on a program Parse accepts: %v", serr)
	}
	if ok, path := norm.DeepEq(want.Stmts, seq); !ok {
		return vh.Fail("StmtsSeq yields different statements than Parse at %s", path)
	}

	// ---- InteractiveSeq, one line per read
	lr := &lineReader{s: src}
	lines := strings.SplitAfter(src, "\n")
	var inter []*syntax.Stmt
	var ierr error
	var prob string
	p := newParser(c)
	if pn := sx.Guard(func() {
		for stmts, err := range p.InteractiveSeq(lr) {
			if err != nil {
				ierr = err
				break
			}
			if p.Incomplete() {
				k := lr.reads
				if k == 0 || k > len(lines) {
					continue
				}
				prefix := strings.Join(lines[:k], "")
				last := lines[k-1]
				if strings.HasSuffix(last, "\\\n") || strings.HasSuffix(last, "\\\r\n") {
					continue
				}
				if _, e, _ := sx.Parse(prefix, c.Lang, c.Comments); e == nil && prob == "" {
					prob = fmt.Sprintf("Incomplete() is true after %d lines, but those lines parse as a complete program: %q", k, prefix)
				}
				continue
			}
			inter = append(inter, stmts...)
		}
	}); pn != nil {
		return vh.Fail("InteractiveSeq panicked: %v", pn)
	}
	if ierr != nil {
		return vh.Fail("InteractiveSeq fails on a program Parse accepts: %v", ierr)
	}
	if prob != "" {
		return vh.Fail("%s", prob)
	}
	if ok, path := norm.DeepEq(want.Stmts, inter); !ok {
		return vh.Fail("InteractiveSeq (one line per read) yields different statements than Parse at %s (%d vs %d statements)", path, len(inter), len(want.Stmts))
	}
	multi := false
	for _, st := range want.Stmts {
		if st.End().Line() > st.Pos().Line() {
			multi = true
		}
	}
	if len(want.Stmts) >= 2 && multi {
		res.Nontrivial = true
	}
	res.Classes = append(res.Classes, "stream")
	return res
}

func excluded(c Case, src string) string { return "" }

var prop = vh.Prop[Case]{ID: "C08", Gen: genCase, Check: check, Text: func(c *Case) *string { return &c.Src }}

func TestC08(t *testing.T) { vh.Run(t, prop) }
