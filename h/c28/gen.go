package c28

import (
	"fmt"
	"strings"

	"pgregory.net/rapid"

	"verifh/gen"
)

// ---- builtin-focused generator --------------------------------------------

// every name of interp.IsBuiltin plus the keywords handled as declarations
var builtinNames = []string{
	":", "true", "false", "help", "times", "exit", "set", "shift", "unset", "echo", "printf", "break", "continue",
	"pwd", "cd", "wait", "builtin", "type", "hash", "eval", "source", ".", "[", "test", "exec", "command", "dirs",
	"pushd", "popd", "return", "read", "getopts", "shopt", "alias", "unalias", "trap", "readarray", "mapfile",
	"declare", "local", "export", "readonly", "typeset", "nameref", "let",
	// recognised, not implemented
	"bg", "fc", "fg", "jobs", "kill", "newgrp", "umask", "ulimit", "bind", "caller", "compgen", "complete",
	"compopt", "disown", "enable", "history", "logout", "suspend",
}

var numArgs = []string{
	"0", "1", "2", "3", "-1", "-2", "-0", "+1", "255", "256", "-256", "2147483648", "9223372036854775807",
	"-9223372036854775808", "9223372036854775808", "99999999999999999999", "-99999999999999999999", "0x10", "010",
	"1x", "1 ", " 1", "1.5", "1e3", "２",
}

var flagArgs = []string{
	"-x", "--", "-", "+", "-z", "+x", "-n", "-e", "-E", "-a", "-A", "-p", "-r", "-t", "-d", "-o", "+o", "-f", "-v", "-s",
	"-u", "-P", "-L", "-g", "-l", "-q", "-ne", "-abc", "-ab", "-a1", "--help", "---", "-é", "-\xff", "-o pipefail",
	"-o nosuch", "-euo", "+euo", "-N", "-i", "-c", "-F",
}

var nameArgs = []string{
	"a", "x", "s", "m", "r", "f", "n", "u", "opt", "REPLY", "OPTIND", "OPTARG", "IFS", "PWD", "OLDPWD", "HOME", "PATH", "UID",
	"EUID", "RANDOM", "DIRSTACK", "MAPFILE", "TMPDIR", "@", "*", "#", "?", "!", "$", "0", "1", "9", "10", "_", "nosuch",
	"a=1", "a=", "=", "=x", "a==", "a+=1", "a[", "a[0]", "a[1]=", "a[-9]", "a[@]", "a[*]", "a[]", "a[x", "a]", "a[0]=v",
	"a[99999999999]", "m[k]", "m[]", "m[@]", "s[0]", "s[1]", "r[0]", "1a", "a-b", "a b", "é", "a\nb", "x=(1 2)", "a=(1 2)",
}

var wordArgs = []string{
	"", " ", "x y", "*", "?", "[", "]", "[[", "!", "(", ")", "-a", "-o", "=", "==", "!=", "<", ">", "-eq", "-lt", "-nt", "-ef", "=~",
	"\\", "\\n", "\\c", "\\x", "\\u", "\\0", "\\777", "%", "%%", "%d", "%s", "%c", "%b", "%q", "%x", "%u", "%o", "%i", "%5", "%-", "%+ d",
	"%*d", "%.3s", "%-5s|", "%05d", "%1$s", "%(%s)T", "%z", "%ld", "abc", ":", "a:", ":a:", "::", "a:b:c", ":abc", "ab:c", "é:",
	".", "..", "/", "~", "sub", "file", "lines", "missing", "./sub/..", "sub/", "-", "EXIT", "ERR", "INT", "0", "DEBUG", "RETURN",
	"g1", "g2", "g0", "g-1", "g99", "g", "g1x", "%1", "1", "$$", "echo hi", "exit 3", "return 2", "shift -1", "break 9", "f", "ff",
	"dotglob", "extglob", "globstar", "nullglob", "expand_aliases", "nocaseglob", "lastpipe", "xpg_echo", "nosuch", "pipefail", "errexit",
	"noexec", "noglob", "nounset", "xtrace", "allexport", "ll=ls -l", "e=echo ", "bad='", "q=$(", "sp= ", "if", "ll", "e", "\xff", "\x00x",
	"a\tb", "1+1", "x=1", "x++", "a[0]=7", "a[1]++", "1/0", "x=", "2**-1", "1<<64", "(", "a[", "$x", "${a[@]}", "`",
}

// preludes put variables, arrays, functions and positional parameters in place.
var preludes = []string{
	"", "", "",
	"a=(x y z)\n", "a=([3]=p [7]=q)\n", "a=()\n", "declare -A m=([k]=v [j]=w)\n", "declare -A m\n", "s=str\n", "n=5\n", "u=\n",
	"declare -n r=s\n", "declare -n r=a\n", "declare -n r=\n", "declare -n r=r\n", "declare -n r='a[1]'\n", "declare -n r=nosuch\n",
	"readonly s=ro\n", "export s=ex\n", "declare -i n=3\n", "declare -r a=(1 2)\n", "set -- p1 p2 p3\n", "set --\n", "set -- -a -bc arg -- x\n",
	"set -- '' ' ' '*'\n", "f() { echo in f \"$@\"; return 4; }\n", "ff() { local a=L; a[1]=2; unset a; echo $a; }\n", "set -u\n", "set -e\n",
	"set -x\n", "set -f\n", "set -a\n", "set -o pipefail\n", "shopt -s expand_aliases\nalias e='echo '\nalias ll='ls -l'\n", "shopt -s extglob nullglob globstar\n",
	"IFS=\n", "IFS=:\n", "unset IFS\n", "OPTIND=0\n", "OPTIND=99\n", "OPTIND=-3\n", "OPTIND=x\n", "OPTIND=2\n", "unset OPTIND\n",
	"PWD=\n", "unset PWD OLDPWD HOME\n", "HOME=\n", "HOME=missing\n", "trap 'echo bye' EXIT\n", "trap 'echo err; shift -1' ERR\n", "trap 'exit 5' EXIT\n",
	"pushd sub >/dev/null\n", "cd sub\n", "DIRSTACK=()\n", "unset DIRSTACK\n", "REPLY=(1 2)\n", "declare -A REPLY\n", "readonly REPLY\n", "readonly OPTIND OPTARG\n",
	"readonly MAPFILE\n", "readonly PWD OLDPWD\n", "readonly a\n", "declare -A OPTARG\n",
}

// expansions and test expressions that walk unusual paths of expand/param.go,
// expand/arith.go and interp/test.go
var edgeStmts = []string{
	`echo ${a[-9]}`, `echo ${a[-1]}`, `echo "${a[@]:1:-1}"`, `echo "${a[@]: -9}"`, `echo ${a[@]:99}`, `echo ${a[99999999999]}`,
	`echo ${!r}`, `echo $r`, `echo ${r[0]}`, `echo ${!r[@]}`, `echo ${#r}`, `echo ${!u}`, `echo ${!nosuch}`, `echo ${!s}`, `echo ${!a[@]}`, `echo ${!m[@]}`,
	`echo ${!a}`, `echo ${!n}`, `echo ${!1}`, `echo ${!#}`, `echo ${!@}`, `echo ${!s*}`, `echo ${!s@}`, `echo ${!*}`,
	`echo ${s:(-1)}`, `echo ${s: -100:2}`, `echo ${s:1:-9}`, `echo ${s:99}`, `echo ${s:0:99999999999}`, `echo ${s:n}`, `echo ${s:1/0}`, `echo ${@:0}`,
	`echo ${@: -1}`, `echo ${@:1:-1}`, `echo ${*:99}`, `echo ${#a[-1]}`, `echo ${#a[@]}`, `echo ${#m[nosuch]}`, `echo ${#}`, `echo ${#@}`, `echo ${#*}`,
	`echo ${s/}`, `echo ${s//}`, `echo ${s/#}`, `echo ${s/%}`, `echo ${s/[}`, `echo ${s//[/x}`, `echo ${s/\\/x}`, `echo ${a[@]/x}`, `echo ${s^^}`, `echo ${s,,[}`,
	`echo ${s^[}`, `echo ${s@Q}`, `echo ${s@E}`, `echo ${s@P}`, `echo ${s@A}`, `echo ${s@a}`, `echo ${a[@]@Q}`, `echo ${a@a}`, `echo ${m@A}`, `echo ${u@Q}`, `echo ${nosuch@a}`,
	`echo ${s@u}`, `echo ${s@U}`, `echo ${s@L}`, `echo ${s@K}`, `echo ${s@k}`, `echo ${s#[}`, `echo ${s##*[}`, `echo ${s%[}`, `echo ${s%%\\}`,
	`echo ${s:?}`, `echo ${u:?msg}`, `echo ${nosuch?}`, `echo ${u:=d}`, `echo ${1:=d}`, `echo ${a[5]:=d}`, `echo ${m[q]:=d}`, `echo ${@:=d}`, `echo ${r:=d}`,
	`echo ${u:+d}`, `echo ${a[@]:+d}`, `echo ${a[@]:-d}`, `echo ${m[@]:1}`, `echo ${m[@]: -1}`, `echo "${m[*]:0:1}"`,
	`echo $((1/0))`, `echo $((1%0))`, `echo $((2**-1))`, `echo $((1<<64))`, `echo $((1<<-1))`, `echo $((-9223372036854775808/-1))`, `echo $((-9223372036854775808%-1))`,
	`echo $((a[0]=7))`, `echo $((a[1]++))`, `echo $((--a[-1]))`, `echo $((a[-99]=1))`, `echo $((m[k]+=1))`, `echo $((s=1))`, `echo $((s++))`, `echo $((nosuch))`,
	`echo $((r=2))`, `echo $((r++))`, `echo $((u+=1))`, `echo $((x=y=z))`, `echo $((n ? 1 : 1/0))`, `echo $((9223372036854775807+1))`, `echo $((99999999999999999999))`,
	`echo $((0x))`, `echo $((08))`, `echo $((2#2))`, `echo $((65#1))`, `echo $((1#1))`, `echo $((64#@_))`, `echo $(( ))`, `echo $((,))`, `echo $(($u))`, `echo $(($s))`,
	`echo $((s))`, `echo $((a))`, `echo $((m))`, `echo $((a[))`, `echo $(("1"))`, `echo $((s[0]))`, `echo $((1 , 2))`, `echo $((~0))`, `echo $((!0))`, `echo $((1 ? 2 : ))`,
	`((a[0]=7))`, `((a[1]++))`, `(( m[k]++ ))`, `(( r = 1 ))`, `(( ))`, `((1/0))`, `let`, `let ''`, `let 'a[1]++'`, `let a[0]=7`, `let 1/0`, `let x=`, `let 'r=1'`, `let -- -1`,
	`for ((;;)); do break; done`, `for ((i=0;i<2;i++)); do :; done`, `for ((a[0]=0;a[0]<2;a[0]++)); do :; done`, `for ((;1/0;)); do :; done`,
	`[[ -v "" ]]`, `[[ -v a[0] ]]`, `[[ -v a[-9] ]]`, `[[ -v a[@] ]]`, `[[ -v m[k] ]]`, `[[ -v m[ ]]`, `[[ -v r ]]`, `[[ -v "a[" ]]`, `[[ -v 1 ]]`, `[[ -v @ ]]`, `[[ -R "" ]]`, `[[ -R r ]]`,
	`[[ -n ${r} ]]`, `[[ x =~ ( ]]`, `[[ x =~ [ ]]`, `[[ x =~ * ]]`, `[[ x =~ a{2,1} ]]`, `[[ x =~ (x)(y)? ]]; echo ${BASH_REMATCH[@]}`, `[[ x =~ \\ ]]`, `[[ x == [ ]]`, `[[ x == @( ]]`,
	`[[ -o "" ]]`, `[[ -o nosuch ]]`, `[[ -o errexit ]]`, `[[ "" -ef "" ]]`, `[[ "" -nt "" ]]`, `[[ file -ot "" ]]`, `[[ 1 -eq "" ]]`, `[[ 1 -eq x ]]`, `[[ 1 -eq 1/0 ]]`, `[[ a[0] -eq 1 ]]`,
	`[[ -t "" ]]`, `[[ -t 99999999999 ]]`, `[[ -t -1 ]]`, `[[ -t x ]]`, `[[ -e "" ]]`, `[[ -d . ]]`, `[[ -L "" ]]`, `[[ -N file ]]`, `[[ -G file && -O file ]]`, `[[ -k file || -u file || -g file ]]`,
	`[[ -p file ]]`, `[[ -S file ]]`, `[[ -b file ]]`, `[[ -c /dev/null ]]`, `[[ -s file ]]`, `[[ -r file && -w file && -x file ]]`, `[[ -z ]] `, `[[ ! ]]`,
	`test -v ""`, `[ -v "" ]`, `[ -v a[0] ]`, `test -R ""`, `test -o ""`, `test -t`, `test -t ""`, `test 1 -eq`, `test -eq 1`, `test ! `, `test ! !`, `test ( `, `test ( )`, `test ( x`, `test x -a`, `test -a`,
	`test -a -a -a`, `test x -o`, `test ! -a !`, `[ ]`, `[ ] ]`, `[ ( ) ]`, `[ x = ]`, `[ = = = ]`, `[ ! = ! ]`, `[ ( = ) ]`, `[ -n ]`, `[ 1 -eq x ]`, `[ "" -eq "" ]`, `[ x -nt ]`, `test x =~ y`, `test x '<' y`,
	`[ x "<" ]`, `[ -f ]`, `[ -f -a ]`, `[ ! ]`, `[ ! ! x ]`, `test "(" = "(" ")"`, `test "(" "(" x ")" ")"`,
	`declare -n r=; echo $r`, `declare -n r=; r=1`, `declare -n r=; echo ${r[0]} ${#r} ${!r}`, `declare -n r=; unset r`, `declare -n r=; r+=(1)`, `declare -n r=; [[ -v r ]]`,
	`declare -n r=; for r in 1 2; do :; done`, `declare -n r=; read r <<< v`, `declare -n r=; declare -p r`, `declare -n r=; export r`, `declare -n r=; local r`, `declare -n r=; ((r++))`,
	`declare -n r=r; echo $r`, `declare -n q=r r=q; echo $q`, `declare -n r='a[1]'; echo $r; r=2`, `declare -n r=1; echo $r`, `declare -n r=@; echo $r`, `declare -n r='a b'; echo $r`,
	`declare -A m; m[]=1`, `declare -A m; m[""]=1; echo ${m[""]}`, `declare -A m; m+=([x]=1)`, `declare -A m; m=(1 2)`, `declare -A m; m=1; echo ${m[0]}`, `declare -A m=(["a"]=1 [b]=2); unset 'm[a]' 'm[@]'`,
	`declare -A m; echo ${m[@]:1:2} ${!m[@]} ${#m[@]}`, `declare -a m; declare -A m`, `declare -A a; a[x]=1`, `declare -A m=([k]=v); echo $((m[k])) $((m))`, `declare -A m=(); m+=x`,
	`a=(1 2); a[99999999999]=1; echo ${#a[@]}`, `a[9223372036854775807]=x; a+=(y)`, `a[-1]=x`, `a=(1); a[-2]=x`, `a=([5]=x); echo "${a[@]:3:2}" "${a[@]:5}" "${!a[@]}"`, `a=(1 2 3); unset 'a[-1]' 'a[99]' 'a[x' 'a[]' 'a[1+1]'`,
	`a=(1 2 3); unset 'a[-9]'`, `a=([2]=x); a+=([0]=y z)`, `a=(1 2); a+=([-1]=z)`, `a=(1 2); a=([-5]=z)`, `a=x; a[3]=y; a+=z; echo "${a[@]}"`, `a=(1 2); a=; echo ${#a[@]}`, `a=(); echo "${a[0]}" "${a[-1]}"`,
	`s=x; s[1]=y; unset 's[0]'; echo ${s[@]}`, `unset 's[1]'`, `unset 'nosuch[1]'`, `unset ""`, `unset "" x`, `unset -v ""`, `unset -f ""`, `unset '='`, `unset '[1]'`, `unset 'a['`, `unset -`, `unset --`, `unset -v -f`, `unset -x`,
	`readonly ro=1; unset ro; ro=2; echo $ro`, `unset UID`, `unset RANDOM; echo $RANDOM`, `unset @`, `unset 1`, `unset '#'`, `unset '?'`, `unset 'a[@]' 'a[*]'`, `unset 'r'`, `unset -n r`,
	`shift -1`, `shift 99`, `shift 0`, `shift ""`, `shift 1 2`, `shift x`, `set -- a b; shift -1; echo $#`, `set -- a; shift -2147483648`, `shift -9223372036854775808`, `f() { shift -1; }; f 1 2`,
	`getopts abc x -abc; getopts abc x -a`, `getopts abc x -abc; getopts abc x -abc; getopts abc x -a; getopts abc x`, `getopts a: x -a; echo $OPTARG $OPTIND`, `getopts a: x -a v -a; getopts a: x -a v -a; getopts a: x -a v -a`,
	`getopts ab x -ab; OPTIND=1; getopts ab x -a`, `getopts ab x -ab; set -- -b; getopts ab x`, `getopts "" x -a`, `getopts : x -a`, `getopts a "" -a`, `getopts a 1x -a`, `getopts a x`, `getopts a x -`, `getopts a x --`, `getopts a x -- -a`,
	`getopts a x ''`, `getopts a x -é`, `getopts é x -é -é; getopts é x -é`, `while getopts ab: o -a -b v -- -a; do echo $o $OPTARG $OPTIND; done`, `getopts abc x -abc; OPTIND=x; getopts abc x -abc`, `getopts abc x -abc; getopts abc x -abc; getopts abc x -`,
	`OPTIND=2; getopts ab x -ab -b; OPTIND=1; getopts ab x`, `getopts ab x -ab; getopts ab x -ab; unset OPTIND; getopts ab x -a`, `getopts abc x -abc -abc; getopts abc x -abc -abc; getopts abc x -abc -abc; getopts abc x x`,
	`f() { getopts ab x; echo $x; }; f -ab; f -a; f`, `getopts ab x -ab; f() { getopts ab x; }; f -a; f`, `getopts ab x -ab & getopts ab x -a; wait`, `getopts ab x -ab | getopts ab x`, `(getopts ab x -ab; getopts ab x -a)`,
	`break -1`, `break 0`, `continue -1`, `for i in 1 2; do break -1; done`, `for i in 1 2; do continue 0; done`, `for i in 1; do for j in 1; do break 99; done; done`, `while :; do break x; done`, `while :; do continue 1 2; done`,
	`for i in 1 2; do continue -9223372036854775808; echo $i; done`, `for i in 1 2; do f() { break; }; f; done`, `f() { continue 2; }; for i in 1 2; do f; done`, `for i in 1; do (break 2); eval 'break 2'; done`, `until break 2; do :; done`,
	`return -1`, `f() { return -1; }; f`, `f() { return 256; }; f; echo $?`, `f() { return x; }; f`, `f() { return 1 2; }; f`, `f() { return 99999999999999999999; }; f`, `return`, `. ./file; return`,
	`exit -1`, `exit 256`, `exit x`, `exit 1 2`, `exit ''`, `(exit 99999999999999999999)`, `(exit -9223372036854775808); echo $?`, `trap 'exit' EXIT; exit 3`, `trap 'return' EXIT`, `trap 'break' ERR; false`,
	`trap`, `trap -`, `trap - EXIT`, `trap -- EXIT`, `trap '' EXIT ERR`, `trap x`, `trap x y`, `trap -l`, `trap -p`, `trap -x`, `trap 'trap - EXIT' EXIT`, `trap '(' EXIT`, `trap 'trap "echo 2" EXIT; false' ERR; false`, `trap 'echo $?; f' ERR; f() { false; }; f`,
	`trap 'echo x' EXIT; trap`, `trap ERR`, `trap 0`, `trap 'echo e' 0`, `trap 'echo i' INT`, `trap "" EXIT; exit`,
	`cd`, `cd ""`, `cd -`, `cd - -`, `cd a b`, `cd missing`, `cd file`, `cd sub; cd -; cd -`, `cd .; cd ..; cd /; pwd`, `cd sub; cd ../../../../../../..; pwd`, `OLDPWD=; cd -`, `unset OLDPWD; cd -`, `unset HOME; cd`, `HOME=file; cd`, `cd -P sub`, `cd -- sub`,
	`pwd -P`, `pwd -L -P`, `pwd -x`, `pwd x`, `PWD=missing; pwd -P`, `PWD=; pwd -P`, `unset PWD; pwd; pwd -P`, `cd sub; rmdir ../sub; pwd -P`,
	`pushd`, `pushd -n`, `pushd -n sub`, `pushd -n sub sub`, `pushd sub; pushd; pushd; popd; popd; popd`, `pushd -n x; pushd -n; popd -n; popd -n; popd -n`, `pushd missing`, `pushd ""`, `pushd -n ""`, `pushd +1`, `pushd -1`, `pushd a b`,
	`popd`, `popd -n`, `popd x`, `popd +0`, `popd -n -n`, `pushd -n missing; popd`, `pushd -n missing; pushd`, `pushd sub; DIRSTACK=(); popd`, `pushd sub >/dev/null; unset DIRSTACK; dirs; popd`, `pushd sub; (popd; popd); popd; popd`,
	`dirs -c`, `dirs +1`, `dirs x`, `dirs -v -l -p`, `echo ${DIRSTACK[@]} ${DIRSTACK[1]} ${#DIRSTACK[@]}`, `DIRSTACK[5]=x; dirs`, `pushd sub; DIRSTACK+=(y); dirs; popd`,
	`read`, `read -r`, `read -a`, `read -a a`, `read -a a b`, `read -p`, `read -p ""`, `read -p x`, `read -s`, `read -rs -p x a b`, `read -x`, `read -n 1`, `read -t 0`, `read -d ''`, `read 1x`, `read ""`, `read 'a[0]'`, `read a=1`,
	`read a b c <<< "1 2"`, `read -a a <<< ""`, `read -ra a <<< "x\\ y z"`, `read r <<< v`, `read s a m <<< "1 2 3"`, `IFS= read -r x <<< " a "`, `IFS=: read a b <<< "::"`, `read -a REPLY <<< "1 2"`, `read UID <<< 1`, `read <&-`, `read x <&-`,
	`read < /dev/null`, `read x < lines; echo $x`, `while read -r l; do echo $l; done < lines`, `read x < sub`, `read x < missing`, `printf 'a\\' | read x`, `printf '\\' | read`, `printf 'a\\\nb' | { read x; echo $x; }`, `echo | read -a`, `: | read -s x`,
	`mapfile`, `mapfile x`, `mapfile x y`, `mapfile -t`, `mapfile -d`, `mapfile -d ''`, `mapfile -d '' x < lines`, `mapfile -d é x < lines`, `mapfile -td x a < lines`, `mapfile -t a < lines; echo ${#a[@]} "${a[@]}"`, `mapfile 1x`, `mapfile ''`, `mapfile -x`,
	`mapfile <&-`, `mapfile a <&-`, `readarray -t r < lines`, `readarray s < lines; echo $s`, `readarray m < lines`, `mapfile -n 1 a`, `mapfile -O 1 a`, `mapfile -s`, `mapfile -u 3`, `mapfile -C f -c 1`, `mapfile < sub`, `mapfile UID < lines`, `mapfile -t a <<< ""`,
	`printf`, `printf ''`, `printf %`, `printf %d`, `printf %d x`, `printf %d 99999999999999999999`, `printf %d -0x1`, `printf '%d %d' 1`, `printf %s a b c`, `printf '%c' ''`, `printf '%c' é`, `printf %5`, `printf '%-'`, `printf '%+ d' 1`, `printf '% +d' 1`,
	`printf '%*d' 3 1`, `printf '%.3s' abcdef`, `printf '%.s' x`, `printf '%1000000d' 1`, `printf '%1000001d' 1`, `printf '%99999999999999999999d' 1`, `printf '%-99999999999999999999s' x`, `printf '%05d|%-5d|%5s' 1 2 3`, `printf '%1$s' x`, `printf '%(%s)T' 0`,
	`printf '%z'`, `printf '%ld' 1`, `printf '%q' "a b"`, `printf '%b' '\\c'`, `printf '%b' '%d'`, `printf '%b' '\\0777\\x\\u\\U\\'`, `printf '\\'`, `printf '\\x'`, `printf '\\u'`, `printf '\\U0010FFFFF'`, `printf '\\UFFFFFFFF'`, `printf '\\uD800'`, `printf '\\777'`, `printf '\\8'`,
	`printf -v x %s y`, `printf -- %s x`, `printf - x`, `printf %x -1`, `printf %u -1`, `printf %o 9223372036854775808`, `printf %i 1x`, `printf '%d' "'a"`, `printf '%d' '"'`, `printf '%s\n' "${a[@]}"`, `printf "$s" 1 2`, `printf '%s%' x`, `printf '%s' x '%'`,
	`echo -n`, `echo -e '\\c' x`, `echo -e '\\0' '\\x' '\\u' '\\'`, `echo -neE -x`, `echo -`, `echo --`, `echo -e "\\0777"`, `echo -e '\\U99999999'`, `echo -E -e '\\n'`,
	`set`, `set -`, `set +`, `set --`, `set - x`, `set + x`, `set -o`, `set +o`, `set -o ''`, `set -o nosuch`, `set +o nosuch`, `set -o pipefail -o`, `set -oo`, `set -eo`, `set -e -o`, `set -z`, `set -é`, `set -- -e`, `set -e x y`, `set x -e`,
	`set -euo pipefail; echo $-`, `set +euxo pipefail`, `set -n; echo not; set +n`, `set -u; echo $nosuch; echo after`, `set -u; echo ${a[9]} ${m[q]} $1 $@ $* ${#nosuch}`, `set -e; false; echo no`, `set -e; f() { false; }; f; echo no`,
	`set -x; a=(1 2); a[0]=3; s+=x; declare -A m=([k]=v); let x=1; ((x++)); [[ x == x ]]; for i in 1; do :; done; case x in x) ;; esac`, `set -x; r=1; echo "$r" '$r' $'\t'`, `set -a; x=1; a=(1); declare -A m; env | grep -c x`,
	`shopt`, `shopt -s`, `shopt -u`, `shopt -o`, `shopt -so`, `shopt -p`, `shopt -q extglob`, `shopt -s nosuch`, `shopt -s ''`, `shopt -so nosuch`, `shopt -s lastpipe`, `shopt -u xpg_echo`, `shopt extglob nosuch`, `shopt -o errexit`, `shopt -z`, `shopt -su extglob`, `shopt -- extglob`,
	`shopt -so pipefail errexit; false | true; echo no`, `shopt -uo errexit`, `shopt -s extglob; [[ x == @(x|y) ]]; echo !(x)`, `shopt -s nullglob; echo *.nosuch`, `shopt -s globstar; echo **`, `shopt -s dotglob nocaseglob; echo *`,
	`alias`, `alias x`, `alias x=`, `alias =x`, `alias =`, `alias 'x=('`, `alias "x='"`, `alias 'x=$('`, `alias x='a b ' y=' '`, `alias -p`, `alias -x`, `alias --`, `unalias`, `unalias -a`, `unalias nosuch`, `unalias ''`,
	"shopt -s expand_aliases; alias x='x '; x x", "shopt -s expand_aliases; alias x=y y=x\nx", "shopt -s expand_aliases; alias e='echo ' w=hi\ne w", "shopt -s expand_aliases; alias x=''\nx; x x", "shopt -s expand_aliases; alias x=' '\nx echo", "shopt -s expand_aliases; alias if=echo\nif x",
	"shopt -s expand_aliases; alias x='echo a;'\nx", "shopt -s expand_aliases; alias x='echo '\nalias\ntype x; type -t x; unalias x; x", "shopt -s expand_aliases; alias e='f() { echo hi; }; f'\ne",
	`type`, `type -t`, `type -p`, `type -P cat`, `type -a x`, `type -f x`, `type --help`, `type -x`, `type -tp cat`, `type ''`, `type -- -t`, `type if echo cat nosuch f`, `type -t if echo cat nosuch f .`, `PATH=; type cat`, `unset PATH; type -p cat`, `PATH=:; type file`,
	`command`, `command -v`, `command -v ''`, `command -v if echo cat nosuch`, `command -V x`, `command -p cat`, `command -x`, `command --`, `command -- echo x`, `command ''`, `command command command echo x`, `command -v -v`, `command shift -1`, `command exit 3`, `command return`, `command nosuch`,
	`builtin`, `builtin ''`, `builtin nosuch`, `builtin cat`, `builtin builtin builtin echo x`, `builtin shift -1`, `builtin -x`, `builtin --`, `builtin exit`, `builtin [ x`, `builtin [ ]`, `builtin declare x=1`, `builtin let 1`, `builtin local x`, `builtin export x`, `builtin kill`,
	`eval`, `eval ''`, `eval '('`, `eval 'eval eval exit 4'`, `eval "shift -1"`, `eval 'f() { eval "$1"; }; f "return 3"'`, `eval 'break'`, `eval -x`, `eval -- echo`, `eval "echo \${a[-9]}"`, `eval 'x=(1 2'`, `eval $'a\nb'`, `eval 'cat <<EOF'`, `eval "$(printf '\xff')"`,
	`source`, `.`, `. ''`, `. missing`, `. sub`, `. ./file`, `. ./file a b`, `. file`, `source lines`, `. /dev/null`, `. ./file; echo $?`, `f() { . ./file x; echo $? $#; }; f 1 2 3`, `. ./file -x --`, `source -x`, `source -- ./file`, `PATH=.; . file`,
	`exec`, `exec true`, `exec nosuch`, `exec ''`, `exec -x`, `exec -a x true`, `exec > /dev/null`, `exec < /dev/null; read x`, `exec <&-; read x; mapfile`, `exec >&-; echo x`, `exec 2>&-; echo x >&2`, `exec 3>&1`, `exec 2>&1 >&2`, `exec >sub`, `(exec false); echo $?`, `exec false & wait $!`,
	`exec cat < lines | exec cat`, `f() { exec true; }; f; echo no`, `exec exec exec true`, `exec >out; echo x; exec >&2`,
	`wait`, `wait g1`, `wait g0`, `wait g-1`, `wait g99`, `wait g`, `wait x`, `wait 1`, `wait ''`, `wait -n`, `wait -p x`, `wait -x`, `wait -- g1`, `wait %1`, `wait $!`, `wait $$`, `true & wait $!`, `(exit 3) & wait $!; echo $?`, `true & true & wait g2 g1 g3`,
	`true & wait g1 g1`, `(exit 2) & wait; echo $?`, `true & wait g99999999999999999999`, `true & wait 'g 1'`, `true & wait g1x`, `true & wait g+1`, `true & wait g0x1`, `true | true & wait $!`, `(true & wait $!) & wait $!`, `f() { true & }; f; wait $!`, `true & (wait $!)`,
	`: <(true); wait`, `: >(true); wait $!`, `cat <(echo x) <(echo y)`, `echo x > >(cat); wait`, `cat < <(echo x)`, `: <(exit 3); wait $!; echo $?`, `echo <(:) >(:)`, `: <()`, `cat <(cat <(echo x))`,
	`declare`, `declare -p`, `declare -p a s m r nosuch`, `declare -f`, `declare -f f nosuch`, `declare -F`, `declare -x`, `declare -z`, `declare -`, `declare --`, `declare -- x`, `declare +x s`, `declare -a`, `declare -A`, `declare -n`, `declare -g`, `declare -ax z=(1)`,
	`declare ''`, `declare =`, `declare =x`, `declare 1x`, `declare 'a['`, `declare 'a[0]'`, `declare 'a[0]=1'`, `declare a[1]=x`, `declare -a 'a[1]=x'`, `declare -A 'm[k]=x'`, `declare "$s"`, `declare $u`, `declare "x=$u" "y"`, `x='a=1 b=2'; declare $x; echo $a $b`, `declare "-x"`, `declare "$u"`,
	`declare -n`, `declare -n r`, `declare -n r=`, `declare -n r=r`, `declare -n 'r=a[1]'`, `declare -n r=s; declare -n r=a; r+=(q)`, `declare -n r=s; unset r; echo $s`, `declare -n r=s; declare -p r`, `declare -n r=s; r=(1 2)`, `declare -n r=m; r[k]=2`, `declare -n "$u"`,
	`declare -A m=([a]=1 [b]); echo ${m[b]}`, `declare -A m=(a b c)`, `declare -A m=([a]=1 2)`, `declare -a x=([a]=1)`, `declare -a x=(["a"]=1)`, `x=(["a"]=1)`, `x=([a]=1 ["b"]=2); echo ${x[@]}`, `declare -a x=([1/0]=x)`, `declare -A m=([$u]=1)`, `declare -A m=(); m+=([a]=1)`,
	`declare -i i=1+1; echo $i`, `declare -l s=ABC`, `declare -u s=abc`, `declare -r s; s=1`, `declare -r s=1; declare s=2`, `declare -rx s=1; unset s`, `declare -ar x=(1); x+=(2); x[0]=3; unset 'x[0]'`, `declare -p UID`, `declare UID=1`, `declare -g x=1`, `f() { declare -g x=1; local y=2; declare z=3; }; f; echo $x$y$z`,
	`local`, `local x`, `local -x`, `f() { local; }; f`, `f() { local -; }; f`, `f() { local ''; }; f`, `f() { local 1x; }; f`, `f() { local x=1 x=2; local -r x; x=3; unset x; echo $x; }; f`, `f() { local a=(1 2); a+=(3); unset a; a[2]=x; echo ${a[@]}; }; f`, `f() { local -n r=s; r=2; }; f; echo $s`,
	`f() { local x; unset x; x=1; }; f; echo $x`, `f() { local s; g; echo $s; }; g() { s=g; unset s; s=g2; }; f; echo $s`, `f() { local -A m; m[k]=1; local -a m; }; f`, `f() { local IFS=; local OPTIND; getopts a x -a; }; f`, `f() { local PWD; cd sub; }; f; pwd`,
	`export`, `export -p`, `export -n s`, `export -f f`, `export ''`, `export =`, `export 1x=1`, `export s`, `export s=1 t`, `export a`, `export a=(1 2)`, `export m`, `export r`, `export UID`, `export -x`, `export "$u"`, `export 'a[0]'`, `export 'a[0]=1'`,
	`readonly`, `readonly -p`, `readonly ''`, `readonly s; s=1; s+=1; unset s; read s <<< x; echo $s`, `readonly a; a+=(1); a[0]=x; unset 'a[0]'; mapfile a < lines`, `readonly m; m[k]=1`, `readonly r`, `readonly -a x=(1)`, `readonly -A m=([k]=v)`, `readonly -n r=s`, `readonly -f f`,
	`readonly s=1; readonly s=2`, `readonly s; export s; local s`, `readonly s; for s in 1 2; do :; done; echo $s`, `readonly s; getopts a s -a`, `readonly s; s=1 true; echo $?`, `readonly s=1; s=2 f`, `readonly s; ((s++)); echo $((s=1))`, `readonly IFS; IFS=x`, `readonly PWD; cd sub`,
	`typeset -p`, `typeset -x s`, `nameref`, `nameref r`, `nameref r=s`, `nameref r=`,
	`let`, `let 1`, `let 0`, `let x=1 y=2`, `let "x = 1"`, `let 'x=(1'`, `let 1/0`, `let '1 /'`, `let x++ ++x`, `let a[0]++`, `let 'a[-9]=1'`, `let m[k]=1`, `let r=1`, `let -- 1`, `let -x`, `let "$u"`, `let ''`, `let ' '`, `let 's=s'`, `let 1 , 2`,
	`help`, `help -d`, `help -s`, `help -m`, `help -dms echo`, `help nosuch`, `help ''`, `help 'e*'`, `help '['`, `help '[['`, `help '[*'`, `help '\\'`, `help '['`, `help -x`, `help --`, `help -- -d`, `help . : if for`, `help '*'`, `help -m '*'`, `help '[a-'`, `help -s -d -m -s cd`,
	`times`, `times x`, `hash`, `hash -r`, `hash nosuch`, `true x`, `false -x`, `: ''`, `: $u "$@" ${a[@]}`,
	`kill`, `kill -9 0`, `kill -l`, `kill $$`, `jobs`, `jobs -l`, `fg`, `bg`, `fg %1`, `umask`, `umask 077`, `umask -S`, `ulimit`, `ulimit -a`, `ulimit -n 10`, `disown`, `disown -a`, `caller`, `caller 0`, `compgen -v`, `complete`, `enable -n echo`, `history`, `logout`, `suspend`, `bind -l`, `fc -l`, `newgrp`, `compopt`,
	`"" x`, `'' `, `$u`, `$u x`, `"$u"`, `"$@"`, `$s`, `${a[@]}`, `\shift -1`, `"shift" -1`, `s\hift -1`, `$(echo shift) -1`, `x=shift; $x -1`, `x=unset; $x ""`, `* x`, `~`, `/`, `.`, `..`, `./file`, `./sub`, `./missing`, `file`, `sub`, `=`, `a=1 b=2`, `a= `, `a=1 a+=2 echo $a`,
	`s=1 shift -1`, `s=1 unset s; echo $s`, `s=1 eval 'echo $s'; echo $s`, `s=1 f; echo $s`, `s=1 . ./file`, `s=1 exec`, `s=1 :`, `a=(1) true`, `a[0]=1 true`, `r=1 true`, `UID=1 true`, `s=1 s=2 readonly s`, `IFS=: read a b <<< x:y; echo "$IFS"`,
	`a=1 declare a; echo $a`, `a=1 export a; echo $a`, `a=1 local a`, `f() { a=1 local a; echo $a; }; f`, `s+=1 true; echo $s`, `a+=(1) true`, `m[k]=1 true`, `1=x`, `@=x`, `a[=x`,
	`case x in [) ;; esac`, `case x in @() ;; esac`, `case "$u" in "") ;; esac`, `case x in x) ;& y) ;;& z) ;; esac`, `case x in *) break ;; esac`, `case x in \\) ;; esac`, `case ${a[-9]} in x) ;; esac`,
	`select x in; do :; done`, `select x in a b; do break; done`, `select x in a b; do echo $x; done <<< 1`, `select x in a; do break 2; done < /dev/null`, `select x; do break; done <<< 9`, `select x in a; do :; done <&-`, `select 1x in a; do :; done`,
	`for x in; do :; done`, `for x; do :; done`, `for 1x in a; do :; done`, `for s in 1; do :; done`, `for r in 1; do :; done`, `for UID in 1; do :; done`, `for a in 1 2; do echo ${a[@]}; done`, `for x in "${a[@]}"; do unset a; done`,
	`time`, `time -p`, `time -p true`, `time { :; }`, `time -x`, `time time true`, `! time`, `time ! true`, `time f`,
	`coproc true`, `coproc x { :; }`, `coproc`, `f() { :; } &`, `f() { :; } | cat`, `function f { :; } > /dev/null`, `f() ( : ); f`, `f() if :; then :; fi; f`, `f() { f2() { return 3; }; f2; }; f; f2`, `f() { unset -f f; echo x; }; f; f`, `f() { f() { echo 2; }; f; }; f; f`,
	`echo x >&2`, `echo x >&3`, `echo x 3>&1`, `echo x >&-`, `echo x 2>&-`, `echo x <&-`, `cat <&-`, `cat <&0`, `echo x >&1-`, `echo x >&x`, `echo x <&1`, `echo x 1<&2`, `echo x >| out`, `echo x <> out`, `echo x &> out`, `echo x &>> out`, `echo x > ""`, `echo x > sub`, `echo x >> file`,
	`cat < missing`, `cat <<< ""`, `cat <<< $u`, `cat <<< "${a[@]}"`, "cat <<EOF\n$s ${a[-9]} $(exit 3) $((1/0))\nEOF", "cat <<-EOF\n\t$s\n\tEOF", "cat <<'EOF'\n$s\nEOF", "cat <<EOF <<EOF2\na\nEOF\nb\nEOF2", "read x <<EOF\nEOF", "cat <<\"\"\n\n", "cat 0<<EOF\nEOF", "cat 3<<EOF\nEOF", `echo x 9> out`, `echo x {fd}> out`,
	`echo $(<file)`, `echo $(<missing)`, `echo $(<)`, `echo $(< sub)`, `echo $(<file <lines)`, `echo $(<file;)`, "echo `<file`", `echo $(<"")`, `x=$(<file)$(<lines)`, `echo $(exit 3)$?`, `x=$(exit 3); echo $?`, `echo $(shift -1)`, `echo $(exit 3; echo no)`, `echo $(return 2)`, `echo $(break)`,
	`echo {1..3} {a..c} {1..99999999999} {1..3..0} {a..c..-1} {1..} {..} {,} {} {a,b}{1,2} {{a,b},c} {9223372036854775806..9223372036854775807}`, `echo ~ ~+ ~- ~root ~nosuch ~/x ~$s`, `echo * ? [ [] [!] [a-] [[:alpha:]] [[:x:]] [[.a.]] [\\] **`, `echo $'\\xff' $'\\u' $'\\c' $'\\' $"x"`,
	`echo $_ $- $$ $! $? $# $0 $* $@ "$*" "$@" $10 ${10} ${99999999999} ${-1}`, `echo $RANDOM $SRANDOM $PPID $UID $EUID $GID $LINENO $SECONDS $BASHPID $BASH_VERSION $HOSTNAME $FUNCNAME ${FUNCNAME[0]} ${BASH_SOURCE[0]} ${PIPESTATUS[@]}`,
	`RANDOM=1; SRANDOM=1; PPID=1; LINENO=1; SECONDS=1`, `unset RANDOM SRANDOM PPID LINENO`, `UID=1`, `EUID=1; GID=1`, `readonly RANDOM; echo $RANDOM`, `declare -p RANDOM DIRSTACK PPID`, `RANDOM=(1 2)`, `DIRSTACK=x`, `echo ${RANDOM[0]} ${RANDOM[1]} ${#RANDOM} ${!RANDOM}`,
	`true | false | true; echo ${PIPESTATUS[@]}`, `! | true`, `true |& false`, `exit 3 | exit 4; echo $?`, `return | return`, `break | continue`, `shift -1 | cat`, `cat | shift -1`, `unset "" | cat`, `x=1 | y=2 | read z`, `f | f | f`, `echo x | read x | echo $x`,
	`read -r x < <(printf 'a\0b\n'); echo ${x@Q}`, `read -r x < <(printf 'a\0b\n'); set -x; y=$x`, `read -r x < <(printf 'a\0b\n'); set -x; echo "$x"`, `mapfile -d '' q < <(printf 'a\0b'); echo ${q[@]@Q} ${q[@]@A}`,
	`printf 'a\0b' | { read x; echo ${x@A} ${x@E} ${x@U} ${#x} ${x/a/b} ${x:1}; export x; cat file; }`, `read x < <(printf '\0'); declare -p x; echo ${x@a}`, `read -a y < <(printf 'a\0 b\0'); declare -p y`,
	`shift -1 &`, `unset "" & wait`, `[[ -v "" ]] & wait $!`, `exit 3 & wait $!`, `{ return; } &`, `{ break; } & wait`, `exec true &`, `f & f & wait`, `read x & wait`, `cd sub & wait; pwd`, `set -e; false & wait; echo x`, `trap 'echo t' EXIT; true & wait`,
}

func shq(s string) string { return "'" + strings.ReplaceAll(s, "'", `'\''`) + "'" }

type bgen struct{ t *rapid.T }

func (g bgen) n(lo, hi int, l string) int { return rapid.IntRange(lo, hi).Draw(g.t, l) }
func (g bgen) pick(l string, xs []string) string {
	return xs[rapid.IntRange(0, len(xs)-1).Draw(g.t, l)]
}

// arg draws one argument word for a builtin call.
func (g bgen) arg() string {
	var s string
	switch g.n(0, 9, "argkind") {
	case 0, 1:
		s = g.pick("num", numArgs)
	case 2, 3:
		s = g.pick("flag", flagArgs)
	case 4, 5:
		s = g.pick("name", nameArgs)
	default:
		s = g.pick("word", wordArgs)
	}
	switch g.n(0, 11, "argquote") {
	case 0:
		// unquoted where that is still one plain word
		if s != "" && strings.IndexAny(s, " \t\n'\"\\$`*?[](){}<>|&;!#~=\x00") < 0 {
			return s
		}
		return shq(s)
	case 1:
		return `"` + strings.NewReplacer(`\`, `\\`, `"`, `\"`, "`", "\\`", "$", `\$`).Replace(s) + `"`
	case 2:
		return g.pick("expansion", []string{`$u`, `"$u"`, `$s`, `"$s"`, `"${a[@]}"`, `${a[@]}`, `"$@"`, `$*`, `"${m[@]}"`, `$n`, `"$r"`, `${a[-1]}`, `$(echo -1)`, `$((n-9))`, `"$(printf %s -x)"`, `$'\x01'`, `${nosuch-}`, `"${!a[@]}"`})
	default:
		return shq(s)
	}
}

func (g bgen) call() (string, string) {
	name := g.pick("builtin", builtinNames)
	var sb strings.Builder
	sb.WriteString(name)
	n := g.n(0, 4, "nargs")
	if g.n(0, 9, "manyargs") == 0 {
		n = g.n(5, 12, "nargs2")
	}
	for i := 0; i < n; i++ {
		sb.WriteByte(' ')
		sb.WriteString(g.arg())
	}
	if name == "[" && g.n(0, 3, "closebracket") != 0 {
		sb.WriteString(" ]")
	}
	switch g.n(0, 13, "redir") {
	case 0:
		sb.WriteString(" <<< " + g.arg())
	case 1:
		sb.WriteString(" < lines")
	case 2:
		sb.WriteString(" <&-")
	case 3:
		sb.WriteString(" < /dev/null")
	case 4:
		sb.WriteString(" >&-")
	case 5:
		sb.WriteString(" 2>&1")
	}
	return sb.String(), name
}

// wrap places a statement into a context that changes how the interpreter
// reaches the builtin: function, loop, subshell, pipeline, background job,
// command substitution, eval, prefix assignment, negation.
func (g bgen) wrap(st string) string {
	if strings.Contains(st, "\n") {
		return st
	}
	switch g.n(0, 23, "ctx") {
	case 0:
		return "f0() { " + st + "; }; f0 " + g.arg() + " " + g.arg()
	case 1:
		return "for i in 1 2; do " + st + "; done"
	case 2:
		return "( " + st + " )"
	case 3:
		return st + " | cat"
	case 4:
		return "echo x | " + st
	case 5:
		return st + " & wait"
	case 6:
		return "echo \"$( " + st + " )\""
	case 7:
		return "eval " + shq(st)
	case 8:
		return "s=1 " + st
	case 9:
		return "! " + st
	case 10:
		return "while " + st + "; do break; done"
	case 11:
		return "if " + st + "; then " + st + "; fi"
	case 12:
		return st + " && " + st + " || " + st
	case 13:
		return "{ " + st + "; } < lines > /dev/null"
	case 14:
		return "trap " + shq(st) + " EXIT"
	case 15:
		return "f0() { " + st + "; f1() { " + st + "; }; f1; }; f0; f0 -a"
	}
	return st
}

// arithmetic: every operator of expand/arith.go over hostile operands (the
// edge list above names single expressions; this arm composes them)
var arithConsts = []string{"0", "1", "-1", "2", "3", "7", "63", "64", "65", "-64", "010", "0x1F", "2#101", "9223372036854775807", "-9223372036854775808", "9223372036854775808", "4294967296"}
var arithVars = []string{"x", "y", "z", "big", "min", "n", "u", "a[0]", "a[1]", "a[-1]", "a[x]", "m[k]", "s"}
var arithBin = []string{"+", "-", "*", "/", "%", "**", "<<", ">>", "<", ">", "<=", ">=", "==", "!=", "&", "|", "^", "&&", "||", ","}
var arithAssign = []string{"=", "+=", "-=", "*=", "/=", "%=", "<<=", ">>=", "&=", "|=", "^="}

const arithPrelude = "x=1 y=-1 z=0 big=9223372036854775807 min=-9223372036854775808 s=str; a=(1 -2 3); declare -A m=([k]=5)\n"

func (g bgen) arithExpr(depth int) string {
	k := g.n(0, 11, "arithkind")
	if depth >= 3 && k > 2 {
		k = g.n(0, 2, "arithleaf")
	}
	switch k {
	case 0:
		return g.pick("arithconst", arithConsts)
	case 1:
		return g.pick("arithvar", arithVars)
	case 2:
		return g.pick("arithdollar", []string{"$x", "${y}", "$z", "$big", "${a[1]}", "$u", "$(echo 2)", "\"$y\""})
	case 3:
		return g.pick("arithunary", []string{"-", "~", "!", "+", "- -", "-~"}) + g.arithExpr(depth+1)
	case 4:
		v := g.pick("arithvar", arithVars)
		return g.pick("arithincdec", []string{"++" + v, "--" + v, v + "++", v + "--"})
	case 5, 6, 7:
		return g.arithExpr(depth+1) + " " + g.pick("arithbin", arithBin) + " " + g.arithExpr(depth+1)
	case 8, 9:
		return g.pick("arithvar", arithVars) + " " + g.pick("arithassign", arithAssign) + " " + g.arithExpr(depth+1)
	case 10:
		return g.arithExpr(depth+1) + " ? " + g.arithExpr(depth+1) + " : " + g.arithExpr(depth+1)
	default:
		return "(" + g.arithExpr(depth+1) + ")"
	}
}

func (g bgen) arithStmt() string {
	e := g.arithExpr(0)
	switch g.n(0, 6, "arithctx") {
	case 0, 1:
		return arithPrelude + "echo $((" + e + ")) $x $y ${a[@]}"
	case 2:
		return arithPrelude + "((" + e + ")); echo $? $x"
	case 3:
		return arithPrelude + "let " + shq(e) + "; echo $?"
	case 4:
		return arithPrelude + "a[" + e + "]=v; echo ${a[" + e + "]} ${s:" + e + "}"
	case 5:
		return arithPrelude + "declare -i n; n=" + shq(e) + "; echo $n; [[ " + shq(e) + " -eq 1 ]]"
	default:
		return arithPrelude + "echo ${a[@]:" + e + ":" + g.arithExpr(2) + "} ${@:" + e + "}"
	}
}

func (g bgen) stmt(classes *[]string) string {
	switch g.n(0, 11, "stmtkind") {
	case 10, 11:
		*classes = append(*classes, "arith")
		return g.wrap(g.arithStmt())
	case 0, 1, 2, 3:
		return g.wrap(g.pick("edge", edgeStmts))
	default:
		s, name := g.call()
		*classes = append(*classes, name)
		if g.n(0, 2, "repeat") == 0 {
			// the same builtin again with other arguments (state kept between calls)
			s2, _ := g.call()
			if i := strings.IndexByte(s2, ' '); i >= 0 && !strings.HasPrefix(s2, name+" ") {
				s2 = name + s2[i:]
			} else if i < 0 {
				s2 = name
			}
			s = s + "; " + s2
		}
		return g.wrap(s)
	}
}

func genBuiltin(t *rapid.T) (string, []string) {
	g := bgen{t}
	var sb strings.Builder
	for i, n := 0, g.n(0, 2, "npre"); i < n; i++ {
		sb.WriteString(g.pick("prelude", preludes))
	}
	var names []string
	for i, n := 0, g.n(1, 4, "nstmt"); i < n; i++ {
		sb.WriteString(g.stmt(&names))
		sb.WriteString("\n")
	}
	return sb.String(), names
}

// ---- option lists ----------------------------------------------------------

var paramArgs = []string{
	"-e", "+e", "-u", "-x", "-f", "-n", "-a", "-o", "+o", "pipefail", "errexit", "nosuch", "", "--", "-", "+", "-eu", "-eo", "-oe", "-z", "-é", "-\xff",
	"a", "b c", "-1", "*", "$x", "--x", "---", "-o pipefail", "- x", "+x", "+z", "-ee", "+o nosuch", "\x00", "=", "a\x00b",
}

var envEntries = []string{
	"A=1", "A=2", "A", "=", "=x", "A=", "A==", "1A=x", "a b=c", "é=é", "\xff=\xff", "A=\x00", "\x00=1", "IFS=", "IFS=x", "PATH=", "PATH=:", "HOME=", "HOME=relative",
	"TMPDIR=", "TMPDIR=relative", "TMPDIR=/nonexistent-verif", "PWD=/nonexistent-verif", "OLDPWD=", "UID=x", "EUID=1", "GID=", "OPTIND=x", "OPTIND=0", "OPTIND=-5", "OPTIND=99999999999999999999",
	"RANDOM=1", "PPID=x", "s=a\x00b", "a=(1 2)", "a[0]=1", "@=1", "*=1", "#=1", "?=1", "1=one", "0=zero", "_=x", "LC_ALL=nosuch", "PS3=", "PS4=$(echo x)", "REPLY=r", "DIRSTACK=x", "s=fromenv", "r=s", "u=", "n=7", "f=notafunc",
}

var optPrograms = []string{
	"echo \"$@\" $# $- $A \"$IFS\" $HOME $PWD $UID $OPTIND $1 ${a[0]} $s $u $n\n",
	"set; shopt -o; echo $-\n",
	"shift; echo $#; shift 5; set -- x; getopts ab o; getopts ab o \"$@\"\n",
	"cd; pwd; cd -; cd \"$HOME\"; pushd sub; popd; dirs\n",
	"read x; echo $x; read -a arr; mapfile m; echo ${#m[@]}\n",
	"cat; cat <(echo x); echo $(cat); true | cat & wait\n",
	"f() { local a=$1; echo \"$@\" ${@:2} ${!#}; shift 2; }; f \"$@\"; for i; do echo $i; done\n",
	"export A; A+=x; unset A; readonly IFS; declare -p A IFS PATH HOME UID OPTIND 1\n",
	"nosuchcommand; cat file; type cat; command -v cat; PATH= cat file\n",
	"echo ${1?} ${2:-d} ${3:=e} \"${@:1:2}\" ${*: -1} ${#@} ${!1} ${!#}\n",
	"set -o; set +o; set -- \"$@\" x; set - y; set + z; echo $@\n",
	"select x in \"$@\"; do echo $x; break; done\n",
	"unset HOME PATH PWD OLDPWD IFS UID OPTIND TMPDIR; cd; cat <(echo x); echo $HOME $UID\n",
	"alias e=echo; e hi; shopt -s expand_aliases; alias e2='echo '\ne2 e2\n",
	"echo ${s@Q} ${1@Q} ${A@A} \"${@@Q}\"; read x; echo ${x@Q}; set -x; y=$x; z=$1; echo \"$x\" \"$s\"\n",
}

func genOpts(t *rapid.T, c *Case) {
	c.Lang = "bash"
	all := []string{"env", "dir", "stdio", "params", "interactive"}
	perm := rapid.Permutation(all).Draw(t, "optorder")
	k := rapid.IntRange(1, len(perm)).Draw(t, "nopts")
	c.Opts = perm[:k]
	if rapid.IntRange(0, 4).Draw(t, "dupopt") == 0 {
		// the same option twice is legal (the later one wins)
		c.Opts = append(c.Opts, "params")
	}
	for i, n := 0, rapid.IntRange(0, 5).Draw(t, "nparams"); i < n; i++ {
		c.Params = append(c.Params, rapid.SampledFrom(paramArgs).Draw(t, "param"))
	}
	for i, n := 0, rapid.IntRange(0, 5).Draw(t, "nenv"); i < n; i++ {
		c.Env = append(c.Env, rapid.SampledFrom(envEntries).Draw(t, "env"))
	}
	c.NoBaseEnv = rapid.IntRange(0, 3).Draw(t, "nobase") == 0
	c.Dir = rapid.SampledFrom([]string{"", "", "sub", "missing", "file", "rel"}).Draw(t, "dir")
	c.NoStdin = rapid.IntRange(0, 2).Draw(t, "nostdin") == 0
	c.Stdin = rapid.SampledFrom([]string{"", "1\n", "a b c\nd\n", "x", "\\", "\xff\n", "2\n1\n\n", "line\\\ncont\n", "a\x00b\n"}).Draw(t, "stdin")
	switch rapid.IntRange(0, 3).Draw(t, "optprog") {
	case 0:
		c.Src, _ = genBuiltin(t)
	default:
		c.Src = rapid.SampledFrom(optPrograms).Draw(t, "optsrc")
	}
}

// genCase draws one case.
func genCase(t *rapid.T) Case {
	var c Case
	switch rapid.IntRange(0, 9).Draw(t, "arm") {
	case 0, 1, 2:
		c.Kind = "prog"
		c.Lang = gen.Lang(t)
		l := gen.LangByName(c.Lang)
		if rapid.IntRange(0, 2).Draw(t, "anyprog") == 0 {
			c.Src = gen.Any(t, l)
		} else {
			c.Src = gen.Valid(t, l)
		}
		if rapid.IntRange(0, 3).Draw(t, "progparams") == 0 {
			c.Opts = []string{"params", "stdio"}
			c.Params = []string{"--", "p1", "-p2", ""}
			c.Stdin = "in1\nin2\n"
		}
	case 3:
		c.Kind = "opts"
		genOpts(t, &c)
	default:
		c.Kind = "builtin"
		c.Lang = rapid.SampledFrom([]string{"bash", "bash", "bash", "bash", "posix", "mksh", "bats", "zsh"}).Draw(t, "blang")
		c.Src, _ = genBuiltin(t)
		if rapid.IntRange(0, 2).Draw(t, "bparams") == 0 {
			c.Opts = []string{"stdio", "params"}
			c.Params = []string{"--", "-ab", "q1", "", "-c"}
			c.Stdin = rapid.SampledFrom([]string{"", "1 2 3\nx\n", "\\\n", "9\n"}).Draw(t, "bstdin")
			c.NoStdin = rapid.IntRange(0, 3).Draw(t, "bnostdin") == 0
		}
	}
	return c
}

var _ = fmt.Sprintf
