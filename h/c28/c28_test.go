// C28: The interpreter never panics.
//
// Every case runs in a child process of the test binary (same code, started
// with VERIF_C28_CHILD=1) that serves cases over a pipe: a panic on the
// goroutine that calls New/Run is recovered there and reported with its stack;
// a panic on a goroutine the interpreter started itself (background job,
// pipeline producer, process substitution) cannot be recovered by any caller,
// kills the child, and is reported by the supervisor from the crash output.
package c28

import (
	"fmt"
	"os"
	"strings"

	"pgregory.net/rapid"
	"testing"

	"verifh/vh"
)

func TestMain(m *testing.M) {
	if os.Getenv("VERIF_C28_CHILD") != "" {
		childMain()
		os.Exit(0)
	}
	code := m.Run()
	stopChild()
	vh.Flush()
	os.Exit(code)
}

func check(c Case) (res vh.Result) {
	if os.Getenv("VERIF_REPLAY") == "" && os.Getenv("VERIF_MINIMIZE") == "" {
		if id := excluded(c); id != "" {
			return vh.Result{Skipped: true, Classes: []string{"excluded:" + id}}
		}
	}
	o := serve(c)
	res.Classes = append(res.Classes, "kind:"+c.Kind, "lang:"+c.Lang)
	switch {
	case o.infra != "":
		// the harness could not run the case at all: not a statement about
		// the interpreter
		return vh.Result{Skipped: true, Classes: []string{"harness-error"}}
	case o.hung:
		// Run did not come back long after its context expired: C31's clause
		return vh.Result{Skipped: true, Classes: []string{"no-return-after-deadline(C31)"}}
	case o.crash != "":
		out := o.crash
		switch {
		case strings.Contains(out, "goroutine stack exceeds") || strings.Contains(out, "stack overflow"):
			return vh.Result{Skipped: true, Classes: []string{"resource:stack-exhaustion"}}
		case strings.Contains(out, "out of memory") || strings.Contains(out, "cannot allocate memory"):
			return vh.Result{Skipped: true, Classes: []string{"resource:out-of-memory"}}
		}
		line := firstPanicLine(out)
		if line == "" {
			// killed from outside (OOM killer, operator): try once more
			o2 := serve(c)
			if o2.crash == "" || firstPanicLine(o2.crash) == "" {
				return vh.Result{Skipped: true, Classes: []string{"child-died-without-panic"}}
			}
			out, line = o2.crash, firstPanicLine(o2.crash)
		}
		return vh.Fail("the interpreter crashed the process on one of its own goroutines: %s in %s\n%s", unquote(line), topFrame(out), clip(out, 6000))
	}
	rep := o.rep
	if strings.HasPrefix(rep.NewErr, "harness:") {
		return vh.Result{Skipped: true, Classes: []string{"harness-error"}}
	}
	if rep.Panic != "" {
		return vh.Fail("interp.%s panicked: %s in %s\n%s", rep.Where, unquote(rep.Panic), topFrame(rep.Stack), clip(rep.Stack, 6000))
	}
	switch {
	case rep.ParseErr != "":
		return vh.Result{Skipped: true, Classes: []string{"parse-fail", "kind:" + c.Kind}}
	case rep.NewErr != "":
		res.Classes = append(res.Classes, "outcome:new-error")
		// an option list that New rejects with an error is the property's
		// "options never panic" clause at work
		res.Nontrivial = c.Kind == "opts"
	case rep.Timeout:
		res.Classes = append(res.Classes, "outcome:timeout")
		res.Nontrivial = true
	default:
		res.Nontrivial = rep.Ran
		if rep.Status == 0 {
			res.Classes = append(res.Classes, "outcome:status-0")
		} else {
			res.Classes = append(res.Classes, "outcome:status-nonzero")
		}
	}
	if c.Kind == "builtin" {
		for _, n := range builtinsIn(c.Src) {
			res.Classes = append(res.Classes, "builtin:"+n)
		}
	}
	if rep.Denied > 0 {
		res.Classes = append(res.Classes, "confinement-denied")
	}
	return res
}

// builtinsIn lists the builtin names that occur as words of the program (a
// measure of what the builtin arm reaches, for the evidence histogram).
func builtinsIn(src string) []string {
	seen := map[string]bool{}
	var out []string
	for _, w := range strings.FieldsFunc(src, func(r rune) bool {
		return strings.ContainsRune(" \t\n;|&(){}'\"`$!", r)
	}) {
		if !seen[w] && isBuiltinName[w] {
			seen[w] = true
			out = append(out, w)
		}
	}
	return out
}

var isBuiltinName = func() map[string]bool {
	m := map[string]bool{}
	for _, n := range builtinNames {
		m[n] = true
	}
	return m
}()

var prop = vh.Prop[Case]{ID: "C28", Gen: genCase, Check: check, Text: func(c *Case) *string { return &c.Src }}

func TestC28(t *testing.T) { vh.Run(t, prop) }

// TestC28Arith is the arithmetic arm on its own: composed expressions over
// every operator and hostile operands, 1..3 statements per case.
func TestC28Arith(t *testing.T) {
	p := prop
	p.Gen = func(t *rapid.T) Case {
		g := bgen{t}
		c := Case{Kind: "builtin", Lang: rapid.SampledFrom([]string{"bash", "bash", "mksh", "zsh"}).Draw(t, "alang")}
		var sb strings.Builder
		for i, n := 0, g.n(1, 3, "narith"); i < n; i++ {
			sb.WriteString(g.wrap(g.arithStmt()) + "\n")
		}
		c.Src = sb.String()
		return c
	}
	vh.Run(t, p)
}

// TestC28Probe runs the programs given in VERIF_C28_PROBE (separated by a line
// holding only "----") and prints what happened; a development aid.
func TestC28Probe(t *testing.T) {
	src := os.Getenv("VERIF_C28_PROBE")
	if src == "" {
		t.Skip("no probe")
	}
	for _, p := range strings.Split(src, "\n----\n") {
		r := check(Case{Kind: "builtin", Lang: "bash", Src: p})
		msg := r.Err
		if i := strings.IndexByte(msg, '\n'); i >= 0 {
			msg = msg[:i]
		}
		fmt.Printf("PROBE %q -> skipped=%v classes=%v err=%s\n", p, r.Skipped, r.Classes, msg)
		if os.Getenv("VERIF_C28_PROBE_STACK") != "" {
			fmt.Println(r.Err)
		}
	}
}

// enumCases lists every curated statement on its own, as the producer of a
// pipeline and as a background job (the two places where the interpreter runs
// it on a goroutine of its own), each after every state-setting prelude that
// mentions a name the statement uses.
func enumCases() []Case {
	var out []Case
	add := func(src string) { out = append(out, Case{Kind: "builtin", Lang: "bash", Src: src}) }
	for _, st := range edgeStmts {
		add(st + "\n")
		add("a=(x y z); declare -A m=([k]=v); s=str; n=5; u=; set -- p1 p2\n" + st + "\n")
		if !strings.Contains(st, "\n") {
			add("{ " + st + "; } | cat\n")
			add("{ " + st + "; } & wait\n")
		}
	}
	for _, p := range preludes {
		if p == "" {
			continue
		}
		for _, st := range []string{"echo $r ${r[0]} ${!r} ${#r}", "r=1; r+=(2); unset r", "getopts ab x -ab; getopts ab x", "cd sub; pwd; popd; dirs", "read x y <<< '1 2'; mapfile q < lines", "f 1 2; ff; echo \"$@\" $s ${a[@]} ${m[@]}", "shift; unset a s m; echo $OPTIND $REPLY"} {
			add(p + st + "\n")
		}
	}
	return out
}

func TestC28Enum(t *testing.T) {
	i, n := vh.Shard()
	for k, c := range enumCases() {
		if k%n == i {
			vh.Each(t, prop, c)
		}
	}
}
