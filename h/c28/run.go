package c28

import (
	"bufio"
	"bytes"
	"context"
	"encoding/json"
	"fmt"
	"io"
	"io/fs"
	"os"
	"os/exec"
	"path/filepath"
	"regexp"
	"runtime/debug"
	"strings"
	"sync"
	"syscall"
	"time"

	"mvdan.cc/sh/v3/expand"
	"mvdan.cc/sh/v3/interp"
	"mvdan.cc/sh/v3/syntax"

	"verifh/gen"
	"verifh/oracle"
	"verifh/vh"
)

// Case is one evaluation of "the interpreter never panics": a program text,
// the variant it is parsed with, and the options the Runner is built with.
type Case struct {
	// Kind names the generator arm: prog (gen.Valid/gen.Any), builtin
	// (builtins with random argument vectors), opts (option lists for New).
	Kind string `json:"kind"`
	Src  string `json:"src"`
	Lang string `json:"lang"`
	// Opts is the order in which the optional RunnerOptions are passed to New
	// (after the confined handlers): any of "env", "dir", "stdio", "params",
	// "interactive". An option that is not named is not passed.
	Opts []string `json:"opts,omitempty"`
	// Params are the raw arguments of interp.Params.
	Params []string `json:"params,omitempty"`
	// Env entries are appended to the base list PATH/HOME/LC_ALL/TMPDIR
	// (NoBaseEnv: they are the whole list).
	Env       []string `json:"env,omitempty"`
	NoBaseEnv bool     `json:"no_base_env,omitempty"`
	// Dir: "" the fresh work directory; "sub" an existing subdirectory;
	// "missing" a path that does not exist; "file" a regular file; "rel" a
	// relative path.
	Dir string `json:"dir,omitempty"`
	// Stdin is the text on standard input; NoStdin passes a nil reader.
	Stdin   string `json:"stdin,omitempty"`
	NoStdin bool   `json:"no_stdin,omitempty"`
}

// reply is what the child process reports for one case.
type reply struct {
	ParseErr string `json:"parse_err,omitempty"`
	NewErr   string `json:"new_err,omitempty"`
	Panic    string `json:"panic,omitempty"`
	Where    string `json:"where,omitempty"`
	Stack    string `json:"stack,omitempty"`
	Timeout  bool   `json:"timeout,omitempty"`
	Ran      bool   `json:"ran,omitempty"`
	Status   int    `json:"status"`
	Denied   int    `json:"denied,omitempty"`
}

const runTimeout = 2 * time.Second

// external commands the programs may execute; only tools that cannot write
// files or start other programs (the harness runs as root).
var allowedTools = map[string]bool{
	"cat": true, "tr": true, "wc": true, "head": true, "tail": true, "sleep": true, "true": true, "false": true,
	"seq": true, "rev": true, "cut": true, "basename": true, "dirname": true, "grep": true,
}

type limitWriter struct {
	mu sync.Mutex
	w  *bytes.Buffer
	n  int
}

func (l *limitWriter) Write(p []byte) (int, error) {
	l.mu.Lock()
	defer l.mu.Unlock()
	if l.n > 0 {
		q := p
		if len(q) > l.n {
			q = q[:l.n]
		}
		l.n -= len(q)
		l.w.Write(q)
	}
	return len(p), nil
}

func under(dir, abs string) bool {
	return abs == dir || strings.HasPrefix(abs, dir+string(filepath.Separator))
}

// runCase parses and runs one case inside the current process. Panics on the
// calling goroutine are recovered and reported; a panic on a goroutine started
// by the interpreter kills the process (the supervisor notices).
func runCase(c Case) (rep reply) {
	file, err := syntax.NewParser(syntax.Variant(gen.LangByName(c.Lang))).Parse(strings.NewReader(c.Src), "")
	if err != nil {
		rep.ParseErr = err.Error()
		return rep
	}
	dir, err := oracle.NewDir()
	if err != nil {
		rep.NewErr = "harness: " + err.Error()
		return rep
	}
	defer oracle.RemoveDir(dir)
	defer releaseFifos(dir)
	// a Runner whose Env has no absolute TMPDIR makes its FIFOs in
	// os.TempDir(), which is private to this child process
	defer releaseFifos(os.TempDir())
	os.Mkdir(filepath.Join(dir, "home"), 0o755)
	os.Mkdir(filepath.Join(dir, "sub"), 0o755)
	os.WriteFile(filepath.Join(dir, "file"), []byte("echo sourced $# $1\nreturn 3\n"), 0o644)
	os.WriteFile(filepath.Join(dir, "lines"), []byte("a b\nc\\\nd\n\ne"), 0o644)
	binDir, _ := oracle.BinDir()

	var mu sync.Mutex
	defOpen := interp.DefaultOpenHandler()
	open := func(ctx context.Context, path string, flag int, perm os.FileMode) (io.ReadWriteCloser, error) {
		abs := path
		if !filepath.IsAbs(abs) {
			abs = filepath.Join(interp.HandlerCtx(ctx).Dir, abs)
		}
		abs = filepath.Clean(abs)
		if abs == "/dev/null" || under(dir, abs) {
			return defOpen(ctx, path, flag, perm)
		}
		mu.Lock()
		rep.Denied++
		mu.Unlock()
		return nil, &os.PathError{Op: "open", Path: path, Err: syscall.EACCES}
	}
	execMW := func(next interp.ExecHandlerFunc) interp.ExecHandlerFunc {
		return func(ctx context.Context, args []string) error {
			ok := allowedTools[args[0]]
			for _, a := range args[1:] {
				// no way out of the work directory for the external tools
				if strings.Contains(a, "..") || (strings.Contains(a, "/") && !strings.HasPrefix(a, dir+"/") && !strings.HasPrefix(a, os.TempDir()+"/sh-interp-") && a != "/dev/null") {
					ok = false
				}
			}
			if !ok {
				mu.Lock()
				rep.Denied++
				mu.Unlock()
				return interp.ExitStatus(127)
			}
			args = append([]string{filepath.Join(binDir, args[0])}, args[1:]...)
			return next(ctx, args)
		}
	}

	var out, errb bytes.Buffer
	stdout := &limitWriter{w: &out, n: 1 << 18}
	stderr := &limitWriter{w: &errb, n: 1 << 16}
	opts := []interp.RunnerOption{
		interp.OpenHandler(open),
		interp.ExecHandlers(execMW),
	}
	has := map[string]bool{}
	for _, o := range c.Opts {
		if has[o] {
			continue
		}
		has[o] = true
		switch o {
		case "env":
			var list []string
			if !c.NoBaseEnv {
				list = []string{"PATH=" + binDir, "HOME=" + filepath.Join(dir, "home"), "LC_ALL=C.UTF-8", "TMPDIR=" + dir}
			}
			opts = append(opts, interp.Env(expand.ListEnviron(append(list, c.Env...)...)))
		case "dir":
			d := dir
			switch c.Dir {
			case "sub":
				d = filepath.Join(dir, "sub")
			case "missing":
				d = filepath.Join(dir, "missing")
			case "file":
				d = filepath.Join(dir, "file")
			case "rel":
				d = "."
			}
			opts = append(opts, interp.Dir(d))
		case "stdio":
			var in io.Reader
			if !c.NoStdin {
				in = strings.NewReader(c.Stdin)
			}
			opts = append(opts, interp.StdIO(in, stdout, stderr))
		case "params":
			opts = append(opts, interp.Params(c.Params...))
		case "interactive":
			opts = append(opts, interp.Interactive(true))
		}
	}
	// the cases that do not exercise the option list still get a confined
	// environment, directory and output
	if !has["env"] {
		opts = append(opts, interp.Env(expand.ListEnviron("PATH="+binDir, "HOME="+filepath.Join(dir, "home"), "LC_ALL=C.UTF-8", "TMPDIR="+dir)))
	}
	if !has["dir"] {
		opts = append(opts, interp.Dir(dir))
	}

	rep.Where = "New"
	defer func() {
		if e := recover(); e != nil {
			rep.Panic = fmt.Sprint(e)
			rep.Stack = string(debug.Stack())
		}
	}()
	r, err := interp.New(opts...)
	if err != nil {
		rep.NewErr = err.Error()
		rep.Where = ""
		return rep
	}
	rep.Where = "Run"
	ctx, cancel := context.WithTimeout(context.Background(), runTimeout)
	defer cancel()
	rep.Ran = true
	err = r.Run(ctx, file)
	rep.Where = ""
	if ctx.Err() != nil {
		rep.Timeout = true
		return rep
	}
	if err != nil {
		rep.Status = 1
		var es interp.ExitStatus
		if asExit(err, &es) {
			rep.Status = int(es)
		}
	}
	return rep
}

func asExit(err error, es *interp.ExitStatus) bool {
	for err != nil {
		if e, ok := err.(interp.ExitStatus); ok {
			*es = e
			return true
		}
		u, ok := err.(interface{ Unwrap() error })
		if !ok {
			return false
		}
		err = u.Unwrap()
	}
	return false
}

// releaseFifos unblocks goroutines of the interpreter that sit in open(2) on
// a process-substitution FIFO nobody opened (each one pins an OS thread).
func releaseFifos(dir string) {
	filepath.WalkDir(dir, func(p string, e fs.DirEntry, err error) error {
		if err == nil && e.Type()&fs.ModeNamedPipe != 0 {
			if fd, err := syscall.Open(p, syscall.O_RDWR|syscall.O_NONBLOCK, 0); err == nil {
				time.Sleep(2 * time.Millisecond)
				syscall.Close(fd)
			}
		}
		return nil
	})
}

// ---- child process ---------------------------------------------------------

// childMain serves cases read from stdin (one JSON document per line) and
// answers each with one JSON line on stdout.
func childMain() {
	debug.SetMaxStack(256 << 20)
	// a runaway allocation must not take the shared machine down
	var lim syscall.Rlimit
	if syscall.Getrlimit(syscall.RLIMIT_AS, &lim) == nil {
		lim.Cur = 8 << 30
		if lim.Max != 0 && lim.Cur > lim.Max {
			lim.Cur = lim.Max
		}
		syscall.Setrlimit(syscall.RLIMIT_AS, &lim)
	}
	in := bufio.NewReaderSize(os.Stdin, 1<<16)
	outw := bufio.NewWriter(os.Stdout)
	for {
		line, err := in.ReadBytes('\n')
		if len(line) > 0 {
			var c Case
			var rep reply
			if jerr := vh.UnmarshalCase(bytes.TrimSpace(line), &c); jerr != nil {
				rep.NewErr = "harness: bad case: " + jerr.Error()
			} else {
				rep = runCase(c)
			}
			js, _ := json.Marshal(rep)
			outw.Write(js)
			outw.WriteByte('\n')
			outw.Flush()
		}
		if err != nil {
			return
		}
	}
}

// ---- supervisor ------------------------------------------------------------

type tailBuf struct {
	mu sync.Mutex
	b  []byte
}

func (t *tailBuf) Write(p []byte) (int, error) {
	t.mu.Lock()
	defer t.mu.Unlock()
	t.b = append(t.b, p...)
	if len(t.b) > 1<<16 {
		// keep the head (the panic message and the first stack) and drop the rest
		t.b = t.b[:1<<16]
	}
	return len(p), nil
}

func (t *tailBuf) String() string {
	t.mu.Lock()
	defer t.mu.Unlock()
	return string(t.b)
}

type child struct {
	cmd    *exec.Cmd
	in     io.WriteCloser
	out    *bufio.Reader
	stderr *tailBuf
	served int
	waited chan struct{}
	tmp    string
}

var (
	supMu sync.Mutex
	cur   *child
)

func startChild() (*child, error) {
	exe, err := os.Executable()
	if err != nil {
		return nil, err
	}
	cmd := exec.Command(exe)
	tmp, err := os.MkdirTemp(oracle.Scratch(), "c28-tmp-")
	if err != nil {
		return nil, err
	}
	cmd.Env = append(os.Environ(), "VERIF_C28_CHILD=1", "TMPDIR="+tmp)
	cmd.SysProcAttr = &syscall.SysProcAttr{Setpgid: true, Pdeathsig: syscall.SIGKILL}
	in, err := cmd.StdinPipe()
	if err != nil {
		return nil, err
	}
	outp, err := cmd.StdoutPipe()
	if err != nil {
		return nil, err
	}
	ch := &child{cmd: cmd, in: in, out: bufio.NewReaderSize(outp, 1<<16), stderr: &tailBuf{}, waited: make(chan struct{}), tmp: tmp}
	cmd.Stderr = ch.stderr
	if err := cmd.Start(); err != nil {
		return nil, err
	}
	return ch, nil
}

func (ch *child) kill() {
	if ch.cmd.Process != nil {
		syscall.Kill(-ch.cmd.Process.Pid, syscall.SIGKILL)
		ch.cmd.Process.Kill()
	}
	ch.in.Close()
	ch.cmd.Wait()
	os.RemoveAll(ch.tmp)
}

// stopChild ends the current child (called at the end of the test process).
func stopChild() {
	supMu.Lock()
	defer supMu.Unlock()
	if cur != nil {
		cur.kill()
		cur = nil
	}
}

type outcome struct {
	rep   reply
	crash string // output of a child that died while running the case
	hung  bool   // no answer long after the context deadline
	infra string
}

// serve runs the case in the child process.
func serve(c Case) outcome {
	supMu.Lock()
	defer supMu.Unlock()
	if cur != nil && cur.served >= 400 {
		// a fresh process now and then: leaked goroutines of earlier cases
		// (blocked FIFO opens, stuck readers) must not pile up
		cur.kill()
		cur = nil
	}
	if cur == nil {
		ch, err := startChild()
		if err != nil {
			return outcome{infra: err.Error()}
		}
		cur = ch
	}
	ch := cur
	ch.served++
	js := append(vh.MarshalCase(c), '\n')
	type res struct {
		line []byte
		err  error
	}
	done := make(chan res, 1)
	go func() {
		if _, err := ch.in.Write(js); err != nil {
			done <- res{nil, err}
			return
		}
		line, err := ch.out.ReadBytes('\n')
		done <- res{line, err}
	}()
	select {
	case r := <-done:
		if r.err == nil {
			var rep reply
			if err := json.Unmarshal(r.line, &rep); err != nil {
				ch.kill()
				cur = nil
				return outcome{infra: "bad reply: " + err.Error()}
			}
			return outcome{rep: rep}
		}
		// the child died
		ch.kill()
		cur = nil
		return outcome{crash: ch.stderr.String() + "\n[" + ch.cmd.ProcessState.String() + "]"}
	case <-time.After(runTimeout + 6*time.Second):
		if os.Getenv("VERIF_C28_DEBUG") != "" {
			fmt.Fprintf(os.Stderr, "HUNG %s\n", js)
		}
		ch.kill()
		cur = nil
		<-done
		return outcome{hung: true}
	}
}

var frameRe = regexp.MustCompile(`(?m)^(mvdan\.cc/sh/v3/[^\s(]+(?:\([^)]*\))?[^\s(]*)\(`)

// topFrame names the innermost functions of mvdan.cc/sh in a stack dump
// (callee first, up to four of them: the same callee is reached from several
// defective callers).
func topFrame(stack string) string {
	var fs []string
	for _, m := range frameRe.FindAllStringSubmatch(stack, -1) {
		f := strings.TrimPrefix(m[1], "mvdan.cc/sh/v3/")
		if len(fs) > 0 && fs[len(fs)-1] == f {
			continue
		}
		fs = append(fs, f)
		if len(fs) == 4 {
			break
		}
	}
	if len(fs) == 0 {
		return "?"
	}
	return strings.Join(fs, " < ")
}

func firstPanicLine(out string) string {
	for _, l := range strings.Split(out, "\n") {
		if strings.HasPrefix(l, "panic: ") || strings.HasPrefix(l, "fatal error: ") {
			return l
		}
	}
	return ""
}

func clip(s string, n int) string {
	if len(s) > n {
		return s[:n] + "…"
	}
	return s
}

// unquote drops the quotes of a panic value so that the failure kind (vh
// removes quoted excerpts and digits) keeps the words of the message.
func unquote(s string) string { return strings.ReplaceAll(s, `"`, "'") }
