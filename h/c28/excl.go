package c28

import (
	"regexp"
	"slices"
	"strings"

	"mvdan.cc/sh/v3/syntax"

	"verifh/gen"
	"verifh/vh"
)

// Exclusion classes of the confirmed, listed panics. Each predicate looks at
// the case only (option list, program text, syntax tree) and is active while
// known_findings.json lists its id as known; a saved case (VERIF_REPLAY) is
// always run.

// view is the syntactic view of one program: the tree, plus the trees of
// literal program texts handed to eval, trap and alias (parsed the way the
// interpreter parses them, as bash).
type view struct {
	files []*syntax.File
	// dynamicEval: an eval/trap/alias/source argument that is not a literal
	dynamicEval bool
}

// lit returns the text of a word made of literals and quoted literals only.
func lit(w *syntax.Word) (string, bool) {
	if w == nil {
		return "", true
	}
	var sb strings.Builder
	for _, p := range w.Parts {
		switch p := p.(type) {
		case *syntax.Lit:
			sb.WriteString(strings.ReplaceAll(p.Value, "\\", ""))
		case *syntax.SglQuoted:
			if p.Dollar {
				return "", false
			}
			sb.WriteString(p.Value)
		case *syntax.DblQuoted:
			for _, q := range p.Parts {
				l, ok := q.(*syntax.Lit)
				if !ok {
					return "", false
				}
				sb.WriteString(strings.ReplaceAll(l.Value, "\\", ""))
			}
		default:
			return "", false
		}
	}
	return sb.String(), true
}

type arg struct {
	s   string
	lit bool // false: the value is only known at run time
}

func callArgs(c *syntax.CallExpr) []arg {
	out := make([]arg, len(c.Args))
	for i, w := range c.Args {
		s, ok := lit(w)
		out[i] = arg{s, ok}
	}
	return out
}

// resolve strips "builtin" and "command" prefixes.
func resolve(a []arg) []arg {
	for len(a) > 1 && a[0].lit && (a[0].s == "builtin" || a[0].s == "command") {
		a = a[1:]
		for len(a) > 0 && a[0].lit && strings.HasPrefix(a[0].s, "-") {
			a = a[1:]
		}
	}
	return a
}

func newView(c Case) *view {
	v := &view{}
	f, err := syntax.NewParser(syntax.Variant(gen.LangByName(c.Lang))).Parse(strings.NewReader(c.Src), "")
	if err != nil {
		return v
	}
	v.add(f, 0)
	return v
}

func (v *view) add(f *syntax.File, depth int) {
	v.files = append(v.files, f)
	if depth > 3 {
		v.dynamicEval = true
		return
	}
	syntax.Walk(f, func(n syntax.Node) bool {
		c, ok := n.(*syntax.CallExpr)
		if !ok || len(c.Args) == 0 {
			return true
		}
		a := resolve(callArgs(c))
		if len(a) == 0 || !a[0].lit {
			if len(a) > 0 {
				// a command name computed at run time may be any builtin
				v.dynamicEval = true
			}
			return true
		}
		var texts []arg
		switch a[0].s {
		case "eval":
			texts = a[1:]
		case "trap":
			if len(a) > 2 {
				texts = a[1:2]
			}
		case "alias":
			for _, x := range a[1:] {
				_, val, _ := strings.Cut(x.s, "=")
				texts = append(texts, arg{val, x.lit})
			}
		case "source", ".":
			// the sourced files of the work directory are fixed and harmless
		}
		if len(texts) == 0 {
			return true
		}
		var sb strings.Builder
		for i, x := range texts {
			if !x.lit {
				v.dynamicEval = true
				return true
			}
			if i > 0 {
				sb.WriteByte(' ')
			}
			sb.WriteString(x.s)
		}
		if f2, err := syntax.NewParser().Parse(strings.NewReader(sb.String()), ""); err == nil {
			v.add(f2, depth+1)
		}
		return true
	})
}

func (v *view) walk(fn func(n syntax.Node)) {
	for _, f := range v.files {
		syntax.Walk(f, func(n syntax.Node) bool {
			if n != nil {
				fn(n)
			}
			return true
		})
	}
}

// calls visits every simple command whose name is one of the given builtins
// (after builtin/command prefixes).
func (v *view) calls(fn func(a []arg), names ...string) {
	v.walk(func(n syntax.Node) {
		if c, ok := n.(*syntax.CallExpr); ok && len(c.Args) > 0 {
			a := resolve(callArgs(c))
			if len(a) > 0 && a[0].lit && slices.Contains(names, a[0].s) {
				fn(a)
			}
		}
	})
}

// mentions: the word occurs in the program text at all (used together with
// dynamicEval: a program that builds commands at run time and mentions the
// builtin is in the class).
func mentions(src, word string) bool {
	return strings.Contains(strings.NewReplacer("\\", "", "'", "", "\"", "").Replace(src), word)
}

var plainCount = regexp.MustCompile(`^[0-9]{1,9}$`)

type class struct {
	ids   []string // active when any of these findings is listed as known
	match func(c Case, v *view) bool
}

func declFlags(d *syntax.DeclClause) (flags string, dynamic bool) {
	if d.Variant != nil && d.Variant.Value == "nameref" {
		flags += "n"
	}
	for _, as := range d.Args {
		if as.Name != nil {
			continue
		}
		s, ok := lit(as.Value)
		if !ok {
			dynamic = true
			continue
		}
		if strings.HasPrefix(s, "-") || strings.HasPrefix(s, "+") {
			flags += s[1:]
		}
	}
	return flags, dynamic
}

var classes = []class{
	{[]string{"C28-shift-negative"}, func(c Case, v *view) bool {
		// shift with an argument that is not a plain non-negative count
		hit := false
		v.calls(func(a []arg) {
			if len(a) > 2 || (len(a) == 2 && !(a[1].lit && plainCount.MatchString(a[1].s))) {
				hit = true
			}
		}, "shift")
		return hit || (v.dynamicEval && mentions(c.Src, "shift"))
	}},
	{[]string{"C28-unset-empty-name"}, func(c Case, v *view) bool {
		// unset with an empty or run-time argument
		hit := false
		v.calls(func(a []arg) {
			for _, x := range a[1:] {
				if !x.lit || x.s == "" {
					hit = true
				}
			}
		}, "unset")
		return hit || (v.dynamicEval && mentions(c.Src, "unset"))
	}},
	{[]string{"C28-test-v-empty-name"}, func(c Case, v *view) bool {
		// -v / -R applied to an empty or run-time operand, in test, [ and [[
		hit := false
		v.calls(func(a []arg) {
			for i := 1; i+1 < len(a); i++ {
				op := a[i]
				if ((op.lit && (op.s == "-v" || op.s == "-R")) || !op.lit) && (!a[i+1].lit || a[i+1].s == "") {
					hit = true
				}
			}
		}, "test", "[")
		v.walk(func(n syntax.Node) {
			if u, ok := n.(*syntax.UnaryTest); ok && (u.Op == syntax.TsVarSet || u.Op == syntax.TsRefVar) {
				w, _ := u.X.(*syntax.Word)
				if s, ok := lit(w); w == nil || !ok || s == "" {
					hit = true
				}
			}
		})
		return hit || (v.dynamicEval && (mentions(c.Src, "-v") || mentions(c.Src, "-R")))
	}},
	{[]string{"C28-getopts-stale-index"}, func(c Case, v *view) bool {
		// getopts reached more than once with possibly different arguments:
		// several call sites, or one inside a function or next to commands
		// that change the positional parameters or OPTIND
		n, other := 0, false
		v.calls(func(a []arg) { n++ }, "getopts")
		if n == 0 {
			return v.dynamicEval && mentions(c.Src, "getopts")
		}
		v.calls(func(a []arg) { other = true }, "shift", "set", "eval", "source", ".")
		v.walk(func(nd syntax.Node) {
			switch x := nd.(type) {
			case *syntax.FuncDecl:
				other = true
			case *syntax.Assign:
				if x.Name != nil && x.Name.Value == "OPTIND" {
					other = true
				}
			}
		})
		return n > 1 || other || v.dynamicEval || len(v.files) > 1
	}},
	{[]string{"C28-arith-elem-assign", "C20-array-elem-assign"}, func(c Case, v *view) bool {
		// an arithmetic assignment, ++ or -- whose target is not a plain name
		hit := false
		plain := func(x syntax.ArithmExpr) bool {
			w, ok := x.(*syntax.Word)
			return ok && syntax.ValidName(w.Lit())
		}
		v.walk(func(n syntax.Node) {
			switch x := n.(type) {
			case *syntax.UnaryArithm:
				if (x.Op == syntax.Inc || x.Op == syntax.Dec) && !plain(x.X) {
					hit = true
				}
			case *syntax.BinaryArithm:
				switch x.Op {
				case syntax.Assgn, syntax.AddAssgn, syntax.SubAssgn, syntax.MulAssgn, syntax.QuoAssgn, syntax.RemAssgn,
					syntax.AndAssgn, syntax.OrAssgn, syntax.XorAssgn, syntax.ShlAssgn, syntax.ShrAssgn:
					if !plain(x.X) {
						hit = true
					}
				}
			}
		})
		return hit
	}},
	{[]string{"C28-assoc-elem-without-key"}, func(c Case, v *view) bool {
		// an array literal that is (or may be) assigned to an associative
		// array and has an element without a [key], or with a key that is an
		// arithmetic expression
		hit := false
		check := func(as *syntax.Assign, assoc bool) {
			if as.Array == nil || len(as.Array.Elems) == 0 {
				return
			}
			e0 := as.Array.Elems[0]
			if w, ok := e0.Index.(*syntax.Word); ok && len(w.Parts) == 1 {
				switch w.Parts[0].(type) {
				case *syntax.DblQuoted, *syntax.SglQuoted:
					assoc = true
				}
			}
			if !assoc {
				return
			}
			for _, e := range as.Array.Elems {
				if _, ok := e.Index.(*syntax.Word); !ok {
					hit = true
				}
			}
		}
		v.walk(func(n syntax.Node) {
			switch x := n.(type) {
			case *syntax.DeclClause:
				flags, dyn := declFlags(x)
				for _, as := range x.Args {
					check(as, dyn || strings.Contains(flags, "A"))
				}
			case *syntax.CallExpr:
				for _, as := range x.Assigns {
					check(as, false)
				}
			}
		})
		return hit
	}},
	{[]string{"C28-nameref-empty-target"}, func(c Case, v *view) bool {
		// a declaration with -n (or nameref) whose value is empty or only
		// known at run time
		hit := false
		v.walk(func(n syntax.Node) {
			d, ok := n.(*syntax.DeclClause)
			if !ok {
				return
			}
			flags, dyn := declFlags(d)
			if !dyn && !strings.Contains(flags, "n") {
				return
			}
			for _, as := range d.Args {
				if as.Name == nil {
					if s, ok := lit(as.Value); !ok || strings.HasSuffix(s, "=") {
						hit = true
					}
					continue
				}
				if as.Naked || as.Array != nil {
					continue
				}
				if s, ok := lit(as.Value); !ok || s == "" {
					hit = true
				}
			}
		})
		return hit
	}},
	{[]string{"C28-param-at-unknown-op"}, func(c Case, v *view) bool {
		// ${x@op} with an operator letter outside Q E a A P U u L K k
		hit := false
		v.walk(func(n syntax.Node) {
			if pe, ok := n.(*syntax.ParamExp); ok && pe.Exp != nil && pe.Exp.Op == syntax.OtherParamOps {
				s, ok := lit(pe.Exp.Word)
				if !ok || !slices.Contains([]string{"Q", "E", "a", "A", "P", "U", "u", "L", "K", "k"}, s) {
					hit = true
				}
			}
		})
		return hit
	}},
	{[]string{"C28-nul-byte-quote"}, func(c Case, v *view) bool {
		// a null byte may reach a variable (escape \\0, \\x0, \\u0000 in the
		// text, or a null byte in text, environment, parameters or standard
		// input) and the program quotes values (${x@Q}, ${x@A}, declare -p is
		// not affected) or traces them (xtrace)
		nul := strings.Contains(c.Src, "\x00") || strings.Contains(c.Stdin, "\x00") ||
			strings.Contains(c.Src, `\0`) || strings.Contains(c.Src, `\x0`) || strings.Contains(c.Src, `\u0000`) || strings.Contains(c.Src, `\U0000`)
		for _, s := range append(append([]string{}, c.Env...), c.Params...) {
			nul = nul || strings.Contains(s, "\x00")
		}
		if !nul {
			return false
		}
		quote := strings.Contains(c.Src, "@Q") || strings.Contains(c.Src, "@A") || strings.Contains(c.Src, "xtrace") || strings.Contains(c.Src, "@$") || strings.Contains(c.Src, "@\"")
		for _, w := range strings.Fields(strings.NewReplacer("'", " ", "\"", " ", ";", " ").Replace(c.Src)) {
			if len(w) > 1 && w[0] == '-' && strings.Contains(w, "x") {
				quote = true
			}
		}
		if slices.Contains(c.Opts, "params") {
			for _, p := range c.Params {
				if strings.HasPrefix(p, "-") && (strings.Contains(p, "x") || strings.Contains(p, "o")) {
					quote = true
				}
			}
		}
		return quote
	}},
	{[]string{"C28-params-print-nil-stdout"}, func(c Case, v *view) bool {
		// Params asked to print the option table (-o / +o without a name)
		// before any StdIO option gave the Runner an output
		for _, o := range c.Opts {
			if o == "stdio" {
				return false
			}
			if o == "params" {
				break
			}
		}
		if !slices.Contains(c.Opts, "params") {
			return false
		}
		for _, p := range c.Params {
			if (strings.HasPrefix(p, "-") || strings.HasPrefix(p, "+")) && strings.Contains(p, "o") {
				return true
			}
		}
		return false
	}},
}

// excluded returns the id of an active exclusion class the case falls in.
func excluded(c Case) string {
	var v *view
	for _, cl := range classes {
		active := ""
		for _, id := range cl.ids {
			if vh.Excluded(id) {
				active = id
				break
			}
		}
		if active == "" {
			continue
		}
		if v == nil {
			v = newView(c)
		}
		if cl.match(c, v) {
			return cl.ids[0]
		}
	}
	return ""
}
