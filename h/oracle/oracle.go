// Package oracle runs shell programs under the real shells (bash, dash) and
// under the interp package in matching, confined environments, so that their
// standard output and exit status can be compared.
//
// Both sides get: an empty-ish environment (PATH = a directory of symlinks to
// a whitelist of harmless tools, HOME = <dir>/home, LC_ALL=C.UTF-8, TMPDIR),
// stdin from /dev/null, a fresh working directory, a wall-clock timeout.
package oracle

import (
	"bytes"
	"context"
	"errors"
	"fmt"
	"io"
	"io/fs"
	"os"
	"os/exec"
	"path/filepath"
	"strings"
	"sync"
	"syscall"
	"time"

	"mvdan.cc/sh/v3/expand"
	"mvdan.cc/sh/v3/interp"
	"mvdan.cc/sh/v3/syntax"
)

// Tools that generated programs may call as external commands.
var Whitelist = []string{"cat", "sort", "tr", "wc", "head", "tail", "sleep", "env", "true", "false", "seq", "rev", "cut", "uniq", "tee", "basename", "dirname", "mkdir", "touch", "ls", "ln", "rmdir", "sed", "grep"}

var (
	binOnce sync.Once
	binDir  string
	binErr  error
)

// Scratch returns the per-run scratch root (VERIF_SCRATCH or the temp dir).
func Scratch() string {
	if s := os.Getenv("VERIF_SCRATCH"); s != "" {
		return s
	}
	return os.TempDir()
}

// BinDir returns a directory holding symlinks to the whitelisted tools.
func BinDir() (string, error) {
	binOnce.Do(func() {
		d, err := os.MkdirTemp(Scratch(), "bin-")
		if err != nil {
			binErr = err
			return
		}
		for _, t := range Whitelist {
			p, err := exec.LookPath(t)
			if err != nil {
				continue
			}
			if p, err = filepath.EvalSymlinks(p); err != nil {
				continue
			}
			// coreutils multi-call binaries need the right argv[0]; a
			// symlink named after the tool gives that.
			os.Symlink(p, filepath.Join(d, t))
		}
		binDir = d
	})
	return binDir, binErr
}

// Env returns the environment list shared by both sides for a run in dir.
func Env(dir string, extra ...string) []string {
	bd, _ := BinDir()
	env := []string{
		"PATH=" + bd,
		"HOME=" + filepath.Join(dir, "home"),
		"LC_ALL=C.UTF-8",
		"TMPDIR=" + dir,
	}
	return append(env, extra...)
}

// NewDir makes a fresh empty working directory.
func NewDir() (string, error) {
	d, err := os.MkdirTemp(Scratch(), "wd-")
	if err != nil {
		return "", err
	}
	return d, nil
}

// RemoveDir deletes a directory made by NewDir, even if the program left
// read-only entries behind.
func RemoveDir(d string) {
	filepath.WalkDir(d, func(p string, e fs.DirEntry, err error) error {
		if err == nil && e.IsDir() {
			os.Chmod(p, 0o755)
		}
		return nil
	})
	os.RemoveAll(d)
}

// Result is the observable outcome of a run.
type Result struct {
	Stdout  []byte
	Stderr  []byte
	Status  int
	Timeout bool
	// Err is an infrastructure error (could not start, etc.), not a shell
	// failure.
	Err error
}

func (r Result) String() string {
	return fmt.Sprintf("status=%d timeout=%v stdout=%q", r.Status, r.Timeout, r.Stdout)
}

// Opts configures a run.
type Opts struct {
	Dir     string        // working directory (required)
	Env     []string      // extra NAME=value entries
	Args    []string      // positional parameters
	Timeout time.Duration // default 10s
	Stdin   string
	Shell   string // "bash" (default) or "dash"
	// ShellArgs are placed before the script path (e.g. "-n", "--posix").
	ShellArgs []string
	// ScriptOutside: the script file is written outside Dir (default: true
	// behaviour — the file lives in a sibling directory so globs do not see it).
}

func (o Opts) timeout() time.Duration {
	if o.Timeout == 0 {
		return 10 * time.Second
	}
	return o.Timeout
}

// RunShell runs the program text under bash/dash from a script file that lives
// outside the working directory.
func RunShell(src string, o Opts) Result {
	shell := o.Shell
	if shell == "" {
		shell = "bash"
	}
	shPath, err := exec.LookPath(shell)
	if err != nil {
		return Result{Err: err}
	}
	sd, err := os.MkdirTemp(Scratch(), "script-")
	if err != nil {
		return Result{Err: err}
	}
	defer os.RemoveAll(sd)
	script := filepath.Join(sd, "prog.sh")
	if err := os.WriteFile(script, []byte(src), 0o644); err != nil {
		return Result{Err: err}
	}
	ctx, cancel := context.WithTimeout(context.Background(), o.timeout())
	defer cancel()
	args := []string{}
	if shell == "bash" {
		args = append(args, "--norc", "--noprofile")
	}
	args = append(args, o.ShellArgs...)
	args = append(args, script)
	args = append(args, o.Args...)
	cmd := exec.CommandContext(ctx, shPath, args...)
	cmd.Dir = o.Dir
	cmd.Env = Env(o.Dir, o.Env...)
	cmd.SysProcAttr = &syscall.SysProcAttr{Setpgid: true}
	cmd.Cancel = func() error {
		return syscall.Kill(-cmd.Process.Pid, syscall.SIGKILL)
	}
	cmd.WaitDelay = 2 * time.Second
	if o.Stdin != "" {
		cmd.Stdin = strings.NewReader(o.Stdin)
	}
	var out, errb bytes.Buffer
	cmd.Stdout = &limitWriter{w: &out, n: 1 << 20}
	cmd.Stderr = &limitWriter{w: &errb, n: 1 << 16}
	err = cmd.Run()
	// make sure nothing of the process group survives
	if cmd.Process != nil {
		syscall.Kill(-cmd.Process.Pid, syscall.SIGKILL)
	}
	res := Result{Stdout: out.Bytes(), Stderr: errb.Bytes()}
	if ctx.Err() != nil {
		res.Timeout = true
		res.Status = -1
		return res
	}
	var ee *exec.ExitError
	switch {
	case err == nil:
	case errors.As(err, &ee):
		if ws, ok := ee.Sys().(syscall.WaitStatus); ok && ws.Signaled() {
			res.Status = 128 + int(ws.Signal())
		} else {
			res.Status = ee.ExitCode()
		}
	default:
		res.Err = err
	}
	return res
}

type limitWriter struct {
	w io.Writer
	n int
}

func (l *limitWriter) Write(p []byte) (int, error) {
	if l.n <= 0 {
		return len(p), nil
	}
	q := p
	if len(q) > l.n {
		q = q[:l.n]
	}
	l.n -= len(q)
	l.w.Write(q)
	return len(p), nil
}

// InterpOpts configures an in-process run.
type InterpOpts struct {
	Dir     string
	Env     []string
	Args    []string
	Timeout time.Duration
	Stdin   string
	Lang    syntax.LangVariant // default LangBash
	// Extra runner options appended last.
	Extra []interp.RunnerOption
}

// InterpResult adds the parse error and a recovered panic to Result.
type InterpResult struct {
	Result
	ParseErr error
	RunErr   error
	Panic    any
	// Denied lists open/exec attempts outside the confinement.
	Denied []string
}

// confinedOpen only lets programs touch files under dir and /dev/null.
func confinedOpen(dir string, denied *[]string, mu *sync.Mutex) interp.OpenHandlerFunc {
	def := interp.DefaultOpenHandler()
	return func(ctx context.Context, path string, flag int, perm os.FileMode) (io.ReadWriteCloser, error) {
		abs := path
		if !filepath.IsAbs(abs) {
			abs = filepath.Join(interp.HandlerCtx(ctx).Dir, abs)
		}
		abs = filepath.Clean(abs)
		if abs == "/dev/null" || abs == dir || strings.HasPrefix(abs, dir+string(filepath.Separator)) {
			return def(ctx, path, flag, perm)
		}
		mu.Lock()
		*denied = append(*denied, "open "+path)
		mu.Unlock()
		return nil, &os.PathError{Op: "open", Path: path, Err: syscall.EACCES}
	}
}

// RunInterp parses src and runs it with interp under the same confinement as
// RunShell. A panic inside Run is recovered and reported in Panic.
func RunInterp(src string, o InterpOpts) (res InterpResult) {
	lang := o.Lang
	if lang == 0 {
		lang = syntax.LangBash
	}
	file, err := syntax.NewParser(syntax.Variant(lang)).Parse(strings.NewReader(src), "")
	if err != nil {
		res.ParseErr = err
		return res
	}
	return RunInterpFile(file, o)
}

// RunInterpFile runs an already parsed program.
func RunInterpFile(file *syntax.File, o InterpOpts) (res InterpResult) {
	var out, errb bytes.Buffer
	var mu sync.Mutex
	timeout := o.Timeout
	if timeout == 0 {
		timeout = 10 * time.Second
	}
	var stdin io.Reader
	if o.Stdin != "" {
		stdin = strings.NewReader(o.Stdin)
	}
	opts := []interp.RunnerOption{
		interp.Dir(o.Dir),
		interp.Env(expand.ListEnviron(Env(o.Dir, o.Env...)...)),
		interp.StdIO(stdin, &limitWriter{w: &out, n: 1 << 20}, &limitWriter{w: &errb, n: 1 << 16}),
		interp.OpenHandler(confinedOpen(o.Dir, &res.Denied, &mu)),
		interp.ExecHandlers(func(next interp.ExecHandlerFunc) interp.ExecHandlerFunc {
			return func(ctx context.Context, args []string) error {
				if strings.Contains(args[0], "/") {
					mu.Lock()
					res.Denied = append(res.Denied, "exec "+args[0])
					mu.Unlock()
					return interp.NewExitStatus(126)
				}
				return next(ctx, args)
			}
		}),
	}
	if o.Args != nil {
		opts = append(opts, interp.Params(append([]string{"--"}, o.Args...)...))
	}
	opts = append(opts, o.Extra...)
	defer func() {
		if e := recover(); e != nil {
			res.Panic = e
			res.Stdout = out.Bytes()
			res.Stderr = errb.Bytes()
		}
	}()
	r, err := interp.New(opts...)
	if err != nil {
		res.Err = err
		return res
	}
	ctx, cancel := context.WithTimeout(context.Background(), timeout)
	defer cancel()
	err = r.Run(ctx, file)
	res.Stdout = out.Bytes()
	res.Stderr = errb.Bytes()
	res.RunErr = err
	if ctx.Err() != nil {
		res.Timeout = true
		res.Status = -1
		return res
	}
	if err != nil {
		if st, ok := interp.IsExitStatus(err); ok {
			res.Status = int(st)
		} else {
			res.Status = 1
		}
	}
	return res
}

// Batch evaluates many small scripts in ONE bash process: each script runs
// in its own subshell with its own output file, so the cost of starting the
// shell is shared. Sub-scripts must not rely on $0 or on being a top-level
// script. Output is (stdout bytes, status) per sub-script.
func Batch(scripts []string, o Opts) ([]Result, error) {
	shell := o.Shell
	if shell == "" {
		shell = "bash"
	}
	sd, err := os.MkdirTemp(Scratch(), "batch-")
	if err != nil {
		return nil, err
	}
	defer os.RemoveAll(sd)
	var drv strings.Builder
	for i, s := range scripts {
		p := filepath.Join(sd, fmt.Sprintf("c%d.sh", i))
		if err := os.WriteFile(p, []byte(s), 0o644); err != nil {
			return nil, err
		}
		// each case: fresh subshell, stdout to o<i>, stderr dropped, status to s<i>
		fmt.Fprintf(&drv, "( . %s ) >%s 2>%s </dev/null\necho $? >%s\n",
			shQuote(p), shQuote(filepath.Join(sd, fmt.Sprintf("o%d", i))), shQuote(filepath.Join(sd, fmt.Sprintf("e%d", i))), shQuote(filepath.Join(sd, fmt.Sprintf("s%d", i))))
	}
	o2 := o
	o2.Timeout = o.timeout() + time.Duration(len(scripts))*50*time.Millisecond
	r := RunShell(drv.String(), o2)
	if r.Err != nil {
		return nil, r.Err
	}
	res := make([]Result, len(scripts))
	for i := range scripts {
		out, _ := os.ReadFile(filepath.Join(sd, fmt.Sprintf("o%d", i)))
		eb, _ := os.ReadFile(filepath.Join(sd, fmt.Sprintf("e%d", i)))
		stb, err := os.ReadFile(filepath.Join(sd, fmt.Sprintf("s%d", i)))
		res[i] = Result{Stdout: out, Stderr: eb}
		if err != nil {
			// the driver died before this case (timeout or a sub-script
			// killed the whole shell)
			res[i].Err = fmt.Errorf("batch aborted before case %d (driver status %d, timeout %v)", i, r.Status, r.Timeout)
			continue
		}
		fmt.Sscanf(strings.TrimSpace(string(stb)), "%d", &res[i].Status)
	}
	return res, nil
}

func shQuote(s string) string {
	return "'" + strings.ReplaceAll(s, "'", `'\''`) + "'"
}

// ShQuote quotes s for a POSIX shell.
func ShQuote(s string) string { return shQuote(s) }
