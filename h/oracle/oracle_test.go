package oracle

import (
	"testing"
)

func TestSmoke(t *testing.T) {
	d, _ := NewDir()
	defer RemoveDir(d)
	r := RunShell("echo hi; a=(1 2); echo ${a[1]} | cat; exit 3", Opts{Dir: d})
	t.Logf("bash: %v err=%v", r, r.Err)
	ir := RunInterp("echo hi; a=(1 2); echo ${a[1]} | cat; exit 3", InterpOpts{Dir: d})
	t.Logf("interp: %v err=%v denied=%v", ir.Result, ir.RunErr, ir.Denied)
	if string(r.Stdout) != string(ir.Stdout) || r.Status != ir.Status {
		t.Fatal("mismatch")
	}
	rs, err := Batch([]string{"echo a", "exit 4", "echo $((1+", "echo z"}, Opts{Dir: d})
	t.Logf("%v %v", rs, err)
	ir = RunInterp("cat /etc/passwd; echo x >/tmp/zz; /bin/ls", InterpOpts{Dir: d})
	t.Logf("interp: %v denied=%v", ir.Result, ir.Denied)
}
