// C26: The interpreter runs supported programs like bash.
//
// Two arms. "gen": a runnable program drawn by grun (typed statement tree
// with an abstract state, bounded loops, deterministic). "corpus": a program
// harvested from the repository's own interpreter tests that passes the
// safety filter and on which the interpreter and bash already agree, with
// 1..3 plain numbers or plain words replaced by other plain numbers or words.
// Oracle: standard output bytes and exit status of the in-process interpreter
// and of a fresh bash, each in its own fresh directory with the same confined
// environment.
package c26

import (
	"fmt"
	"os"
	"strings"
	"sync"
	"testing"

	"pgregory.net/rapid"

	"verifh/grun"
	"verifh/vh"
)

func TestMain(m *testing.M) { vh.Main(m) }

type Case struct {
	Arm string `json:"arm"` // gen | corpus
	Src string `json:"src"`
	// Base is the unmutated corpus program (corpus arm).
	Base string `json:"base,omitempty"`
}

func genCase(t *rapid.T) Case {
	if rapid.IntRange(0, 3).Draw(t, "arm") == 0 {
		progs := grun.CorpusPrograms()
		base := progs[rapid.IntRange(0, len(progs)-1).Draw(t, "corpus")]
		c := Case{Arm: "corpus", Src: base, Base: base}
		if f, err := grun.Parse(base); err == nil {
			c.Src, _ = grun.Mutate(t, base, f)
		}
		return c
	}
	return Case{Arm: "gen", Src: grun.Program(t, grun.Opts{})}
}

// baseOK caches whether the interpreter and bash agree on an unmutated
// corpus program ("" = they do; otherwise the class to count).
var baseOK sync.Map

func baseVerdict(base string) string {
	if v, ok := baseOK.Load(base); ok {
		return v.(string)
	}
	v := func() string {
		ri := grun.Interp(base)
		if ri.Infra != "" || ri.Timeout || ri.Panic != nil {
			return "base-interp-unusable"
		}
		if len(ri.Denied) > 0 {
			return "base-leaves-confinement"
		}
		rb := grun.Bash(base)
		if rb.Infra != "" || rb.Timeout {
			return "base-bash-unusable"
		}
		if !rb.Same(ri) {
			return "base-disagrees"
		}
		return ""
	}()
	baseOK.Store(base, v)
	return v
}

func skip(class string, more ...string) vh.Result {
	return vh.Result{Skipped: true, Classes: append([]string{class}, more...)}
}

func check(c Case) (res vh.Result) {
	f, err := grun.Parse(c.Src)
	if err != nil {
		return skip(c.Arm + ":does-not-parse")
	}
	arm := "arm:" + c.Arm
	if h := grun.Hazard(c.Src, f); h != "" {
		return skip(c.Arm+":"+h, arm)
	}
	if id := excluded(c, f); id != "" {
		return skip("excluded:"+id, arm)
	}
	if c.Arm == "corpus" {
		if r := grun.Unsafe(c.Src, f); r != "" {
			return skip("corpus:"+r, arm)
		}
		if v := baseVerdict(c.Base); v != "" {
			return skip("corpus:"+v, arm)
		}
	}
	rb := grun.Bash(c.Src)
	if rb.Infra != "" || rb.Timeout {
		// bash not finishing is the generator's (or the corpus program's)
		// problem, never the interpreter's
		return skip("bash-timeout-or-infra", arm)
	}
	if rb.SyntaxError() {
		// the parsers disagree about the text: C12's domain
		return skip("bash-syntax-error", arm)
	}
	ri := grun.InterpFile(f)
	if ri.Infra != "" {
		return skip("interp-infra", arm)
	}
	if len(ri.Denied) > 0 {
		return skip("leaves-confinement", arm)
	}
	feats := grun.Features(f)
	res.Classes = append(res.Classes, arm)
	for _, ft := range feats {
		res.Classes = append(res.Classes, "feat:"+ft)
	}
	if c.Arm == "corpus" && c.Src != c.Base {
		res.Classes = append(res.Classes, "corpus:mutated")
	}
	if rb.Status != 0 {
		res.Classes = append(res.Classes, "bash-status-nonzero")
	}
	res.Nontrivial = len(feats) >= 2 && len(rb.Stdout) > 0
	if ri.Panic != nil {
		return vh.Fail("the interpreter panicked: %v\nprogram:\n%s", ri.Panic, c.Src)
	}
	if ri.Timeout {
		return vh.Fail("the interpreter did not finish (two attempts, 20 s and 75 s); bash: status=%d stdout=%q\nprogram:\n%s", rb.Status, clip(rb.Stdout), c.Src)
	}
	if !rb.Same(ri) {
		what := "stdout differs " + diffShape(rb.Stdout, ri.Stdout)
		if rb.Stdout == ri.Stdout {
			what = fmt.Sprintf("exit status differs (bash %s, interp %s)", statusWord(rb.Status), statusWord(ri.Status))
		}
		return vh.Fail("%s: bash status=%d stdout=%q; interp status=%d stdout=%q\n%sprogram:\n%s",
			what, rb.Status, clip(rb.Stdout), ri.Status, clip(ri.Stdout), firstDiff(rb.Stdout, ri.Stdout), c.Src)
	}
	return res
}

func statusWord(n int) string {
	switch {
	case n == 0:
		return "zero"
	case n == 1:
		return "one"
	case n == 2:
		return "two"
	case n >= 126:
		return "high"
	}
	return "other"
}

// diffShape describes the first differing line pair (letters only), so that
// failures group by what they look like.
func diffShape(a, b string) string {
	la, lb := strings.Split(a, "\n"), strings.Split(b, "\n")
	for i := 0; i < len(la) || i < len(lb); i++ {
		x, y := "<end>", "<end>"
		if i < len(la) {
			x = la[i]
		}
		if i < len(lb) {
			y = lb[i]
		}
		if x != y {
			return "(bash ⟨" + letters(x) + "⟩ interp ⟨" + letters(y) + "⟩)"
		}
	}
	return ""
}

func letters(s string) string {
	var sb strings.Builder
	for _, r := range s {
		if r >= 'a' && r <= 'z' || r >= 'A' && r <= 'Z' || r == '=' || r == '<' || r == '>' || r == ' ' {
			sb.WriteRune(r)
		}
	}
	if sb.Len() > 24 {
		return sb.String()[:24]
	}
	return sb.String()
}

func clip(s string) string {
	if len(s) > 600 {
		return s[:600] + "…"
	}
	return s
}

func firstDiff(a, b string) string {
	if a == b {
		return ""
	}
	la, lb := strings.Split(a, "\n"), strings.Split(b, "\n")
	for i := 0; i < len(la) || i < len(lb); i++ {
		x, y := "<none>", "<none>"
		if i < len(la) {
			x = la[i]
		}
		if i < len(lb) {
			y = lb[i]
		}
		if x != y {
			return fmt.Sprintf("first differing line %d: bash %q, interp %q\n", i+1, x, y)
		}
	}
	return ""
}

var prop = vh.Prop[Case]{ID: "C26", Gen: genCase, Check: check, Text: func(c *Case) *string { return &c.Src }}

func TestC26(t *testing.T) {
	if os.Getenv("VERIF_SURVEY") != "" {
		// development: list the shrunk cases as generated; minimising the
		// text runs into endless loops (each a bash timeout)
		prop.Text = nil
	}
	vh.Run(t, prop)
}
