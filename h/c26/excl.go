package c26

import (
	"mvdan.cc/sh/v3/syntax"

	"verifh/grun"
	"verifh/vh"
)

type class struct {
	id    string
	match func(c Case, f *syntax.File) bool
}

var classes = []class{
	{grun.FindLastPipe, func(c Case, f *syntax.File) bool { return grun.LastStageChangesState(f) }},
	{grun.FindErrTrapFn, func(c Case, f *syntax.File) bool { return grun.ErrTrapWithFunction(f) }},
	{grun.FindTestPrec, func(c Case, f *syntax.File) bool { return grun.TestPrecedenceMisparse(f) }},
	{grun.FindSubExitTrp, func(c Case, f *syntax.File) bool { return grun.ExitTrapInSubshell(f) }},
	{grun.FindJumpRest, func(c Case, f *syntax.File) bool { return grun.StatementsAfterJump(f) }},
	{grun.FindErrexitCmp, func(c Case, f *syntax.File) bool { return grun.ErrexitCompoundIgnoredFailure(f) }},
	{grun.FindSubstStat, func(c Case, f *syntax.File) bool { return grun.StatusAfterSubstitution(f) }},
	{grun.FindSubReturn, func(c Case, f *syntax.File) bool { return grun.ReturnInSubshell(f) }},
	{grun.FindErrTrapRep, func(c Case, f *syntax.File) bool { return grun.ErrTrapRepeated(f) }},
	{grun.FindErrexitNeg, func(c Case, f *syntax.File) bool { return grun.ErrexitUnderNegation(f) }},
	{grun.FindErrexitSub, func(c Case, f *syntax.File) bool { return grun.ErrexitIgnoredContextLostInSubshell(f) }},
	{grun.FindForVarRet, func(c Case, f *syntax.File) bool { return grun.ForContinuesAfterReturn(f) }},
	{grun.FindExitTrapRd, func(c Case, f *syntax.File) bool { return grun.ExitTrapUnderRedirection(f) }},
	{grun.FindWhileStat, func(c Case, f *syntax.File) bool { return grun.WhileBodyMayFail(f) }},
}

// excluded returns the id of an active exclusion class the case falls in.
func excluded(c Case, f *syntax.File) string {
	for _, cl := range classes {
		if vh.Excluded(cl.id) && cl.match(c, f) {
			return cl.id
		}
	}
	return ""
}
