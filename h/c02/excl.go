package c02

import (
	"strings"

	"mvdan.cc/sh/v3/syntax"

	"verifh/norm"
	"verifh/synex"
	"verifh/vh"
)

type class struct {
	id    string
	match func(c Case, f *syntax.File, items []norm.Item) bool
}

func isHdoc(r *syntax.Redirect) bool { return r.Op == syntax.Hdoc || r.Op == syntax.DashHdoc }

func below(items []norm.Item, i int, pred func(n syntax.Node) bool) bool {
	for i = items[i].Parent; i >= 0; i = items[i].Parent {
		if pred(items[i].Node) {
			return true
		}
	}
	return false
}

func span(src string, from, to syntax.Pos) string {
	a, b := int(from.Offset()), int(to.Offset())
	if !from.IsValid() || !to.IsValid() || a > b || b > len(src) {
		return ""
	}
	return src[a:b]
}

var classes = []class{
	{"C02-dash-hdoc-uneven-tabs", func(c Case, f *syntax.File, items []norm.Item) bool {
		// a <<- body where a later non-empty line has fewer leading tabs
		// than the first non-empty line
		for _, it := range items {
			r, ok := it.Node.(*syntax.Redirect)
			if !ok || r.Op != syntax.DashHdoc || r.Hdoc == nil {
				continue
			}
			first := -1
			for _, line := range strings.Split(span(c.Src, r.Hdoc.Pos(), r.Hdoc.End()), "\n") {
				if strings.TrimLeft(line, "\t") == "" {
					continue
				}
				n := len(line) - len(strings.TrimLeft(line, "\t"))
				if first < 0 {
					first = n
				} else if n < first {
					return true
				}
			}
		}
		return false
	}},
	{"C02-hdoc-in-substitution", func(c Case, f *syntax.File, items []norm.Item) bool {
		for i, it := range items {
			r, ok := it.Node.(*syntax.Redirect)
			if !ok || !isHdoc(r) {
				continue
			}
			if below(items, i, func(n syntax.Node) bool {
				switch n.(type) {
				case *syntax.CmdSubst, *syntax.ProcSubst:
					return true
				}
				return false
			}) {
				return true
			}
		}
		return false
	}},
	{"C02-comment-placement", func(c Case, f *syntax.File, items []norm.Item) bool {
		// any comment other than a top-level one (owned by the file or by a
		// statement of the file's own list)
		top := map[syntax.Node]bool{f: true}
		for _, s := range f.Stmts {
			top[s] = true
		}
		for _, it := range items {
			if _, ok := it.Node.(*syntax.Comment); ok {
				if it.Parent < 0 || !top[items[it.Parent].Node] {
					return true
				}
			}
		}
		return false
	}},
	{"C02-minify-multiline-nested", func(c Case, f *syntax.File, items []norm.Item) bool {
		if !c.Cfg.Minify {
			return false
		}
		for _, it := range items {
			switch it.Node.(type) {
			case *syntax.CmdSubst, *syntax.ProcSubst, *syntax.ArithmCmd, *syntax.ArithmExp, *syntax.Subshell, *syntax.DblQuoted, *syntax.ArrayExpr, *syntax.CaseClause:
				if p, e := it.Node.Pos(), it.Node.End(); p.IsValid() && e.IsValid() && e.Line() > p.Line() {
					return true
				}
			}
			// "( (a; b) )": the inner list is broken over lines by Minify itself
			var stmts []*syntax.Stmt
			switch n := it.Node.(type) {
			case *syntax.Subshell:
				stmts = n.Stmts
			case *syntax.CmdSubst:
				stmts = n.Stmts
			}
			if len(stmts) > 0 {
				for _, st := range []*syntax.Stmt{stmts[0], stmts[len(stmts)-1]} {
					switch st.Cmd.(type) {
					case *syntax.Subshell, *syntax.ArithmCmd:
						return true
					}
				}
			}
		}
		return false
	}},
	{"C02-hdoc-chain-multiline", func(c Case, f *syntax.File, items []norm.Item) bool {
		// a here-document inside a pipeline or && || chain that spans
		// several source lines (apart from the body)
		for i, it := range items {
			r, ok := it.Node.(*syntax.Redirect)
			if !ok || !isHdoc(r) {
				continue
			}
			root := -1
			for j := items[i].Parent; j >= 0; j = items[j].Parent {
				if _, ok := items[j].Node.(*syntax.BinaryCmd); ok {
					root = j
				} else if _, ok := items[j].Node.(*syntax.Stmt); !ok {
					break
				}
			}
			if root < 0 {
				continue
			}
			b := items[root].Node.(*syntax.BinaryCmd)
			if b.X.Pos().Line() != b.Y.Pos().Line() || b.OpPos.Line() != b.X.Pos().Line() {
				return true
			}
			if strings.Contains(span(c.Src, b.Pos(), r.OpPos), "\n") {
				return true
			}
			// an operand that itself spans several lines
			for x := b; x != nil; {
				if x.Y.End().Line() > x.Y.Pos().Line() {
					return true
				}
				x, _ = x.X.Cmd.(*syntax.BinaryCmd)
			}
		}
		return false
	}},
	{"C02-nested-subshell-close", func(c Case, f *syntax.File, items []norm.Item) bool {
		// "( (a; b) )", "$( (a) )", "(b | (c))": the spacing of adjacent
		// parentheses depends on line layout and changes on the second pass
		return synex.ParenAdjacent(f)
	}},
	{"C02-singleline-comment-escaped-newline", func(c Case, f *syntax.File, items []norm.Item) bool {
		// SingleLine with comments, together with an escaped newline or a
		// here-document
		if !c.Cfg.SingleLine {
			return false
		}
		com, hd := false, false
		for _, it := range items {
			switch n := it.Node.(type) {
			case *syntax.Comment:
				com = true
			case *syntax.Redirect:
				hd = hd || isHdoc(n)
			}
		}
		return com && (hd || strings.Contains(c.Src, "\\\n"))
	}},
}

// excluded returns the id of an active C02-specific exclusion class.
func excluded(c Case, f *syntax.File) string {
	var items []norm.Item
	for _, cl := range classes {
		if !vh.Excluded(cl.id) {
			continue
		}
		if items == nil {
			items = norm.Enumerate(f)
		}
		if cl.match(c, f, items) {
			return cl.id
		}
	}
	return ""
}
