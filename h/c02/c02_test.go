// C02: Formatting is idempotent.
package c02

import (
	"strings"
	"testing"

	"mvdan.cc/sh/v3/syntax"
	"pgregory.net/rapid"

	"verifh/gen"
	"verifh/grun"
	"verifh/sx"
	"verifh/synex"
	"verifh/vh"
)

func TestMain(m *testing.M) { vh.Main(m) }

type Case struct {
	Src      string         `json:"src"`
	Lang     string         `json:"lang"`
	Cfg      gen.PrinterCfg `json:"cfg"`
	Simplify bool           `json:"simplify,omitempty"`
}

func genCase(t *rapid.T) Case {
	c := Case{Lang: gen.Lang(t)}
	c.Src = gen.Valid(t, gen.LangByName(c.Lang))
	c.Cfg = gen.Printer(t, false) // KeepPadding is outside the property
	if c.Cfg.Minify && c.Cfg.SingleLine {
		c.Cfg.SingleLine = false
	}
	c.Simplify = rapid.IntRange(0, 3).Draw(t, "simplify") == 0
	if rapid.IntRange(0, 15).Draw(t, "simpbait") == 0 {
		// programs dense in what Simplify rewrites (nested and combined
		// forms, where one rewrite can enable another): the run-time
		// generator of C04 with its Simplify bias, in bash
		c.Lang = rapid.SampledFrom([]string{"bash", "bash", "bats"}).Draw(t, "simplang")
		c.Src = grun.Program(t, grun.Opts{Simp: true, Noise: rapid.Bool().Draw(t, "simpnoise")})
		c.Simplify = rapid.IntRange(0, 4).Draw(t, "simpon") > 0
	}
	return c
}

// format is what shfmt does: parse with comments, optionally simplify, print.
func format(src string, c Case) (out string, file *syntax.File, stage string, err error) {
	f, perr, pn := sx.Parse(src, c.Lang, true)
	if pn != nil {
		return "", nil, "parse-panic", pn
	}
	if perr != nil {
		return "", nil, "parse", perr
	}
	if c.Simplify {
		syntax.Simplify(f)
	}
	out, err, pn = sx.Print(f, c.Cfg)
	if pn != nil {
		return "", f, "print-panic", pn
	}
	if err != nil {
		return "", f, "print", err
	}
	return out, f, "", nil
}

func check(c Case) (res vh.Result) {
	// the exclusion classes are evaluated on the unsimplified tree
	f0, perr, pn := sx.Parse(c.Src, c.Lang, true)
	if pn != nil || perr != nil {
		return vh.Result{Skipped: true, Classes: []string{"parse-fail"}}
	}
	if id := synex.Excluded(synex.NewCtx(c.Src, c.Lang, f0, c.Cfg)); id != "" {
		return vh.Result{Skipped: true, Classes: []string{"excluded:" + id}}
	}
	if id := excluded(c, f0); id != "" {
		return vh.Result{Skipped: true, Classes: []string{"excluded:" + id}}
	}
	out1, _, stage, err := format(c.Src, c)
	if stage != "" {
		// printing a parsed tree must work; C01 owns that, but a panic or
		// error here is still a failure of formatting
		return vh.Fail("first format failed at %s: %v", stage, err)
	}
	out2, _, stage, err := format(out1, c)
	if stage == "parse" {
		// the output does not re-parse: C01's clause, counted not judged here
		return vh.Result{Skipped: true, Classes: []string{"output-does-not-reparse(C01)"}}
	}
	if stage != "" {
		return vh.Fail("second format failed at %s: %v\nfirst output: %q", stage, err, out1)
	}
	res.Classes = append(res.Classes, "lang:"+c.Lang)
	res.Nontrivial = out1 != c.Src
	if out1 != out2 {
		i := 0
		for i < len(out1) && i < len(out2) && out1[i] == out2[i] {
			i++
		}
		ctx := func(s string) string {
			return strings.NewReplacer("\n", "⏎", "\t", "⇥", "\"", "”").Replace(s[max(0, i-4):min(len(s), i+4)])
		}
		return vh.Fail("formatting is not idempotent: ⟨%s⟩ became ⟨%s⟩\nfirst:  %q\nsecond: %q", ctx(out1), ctx(out2), out1, out2)
	}
	if strings.Contains(c.Src, "<<") {
		res.Classes = append(res.Classes, "heredoc")
	}
	if strings.Contains(c.Src, "#") {
		res.Classes = append(res.Classes, "hash")
	}
	return res
}

var prop = vh.Prop[Case]{ID: "C02", Gen: genCase, Check: check, Text: func(c *Case) *string { return &c.Src }}

func TestC02(t *testing.T) { vh.Run(t, prop) }
