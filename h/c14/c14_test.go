// C14: Walk and Preorder visit every node exactly once.
package c14

import (
	"fmt"
	"reflect"
	"testing"

	"mvdan.cc/sh/v3/syntax"
	"pgregory.net/rapid"

	"verifh/gen"
	"verifh/norm"
	"verifh/sx"
	"verifh/vh"
)

func TestMain(m *testing.M) { vh.Main(m) }

type Case struct {
	Src  string `json:"src"`
	Lang string `json:"lang"`
	// Prune is the index (in Walk order, mod count) of the node whose
	// callback returns false; -1 for none.
	Prune int `json:"prune"`
	// Stop is the index at which the Preorder consumer breaks; -1 for none.
	Stop int `json:"stop"`
}

func genCase(t *rapid.T) Case {
	c := Case{Lang: gen.Lang(t)}
	c.Src = gen.Valid(t, gen.LangByName(c.Lang))
	c.Prune = rapid.IntRange(-1, 60).Draw(t, "prune")
	c.Stop = rapid.IntRange(-1, 60).Draw(t, "stop")
	return c
}

// key identifies a node: pointer identity, except comments, which Walk hands
// out as copies and are compared by value.
func key(n syntax.Node) any {
	if c, ok := n.(*syntax.Comment); ok {
		return *c
	}
	return reflect.ValueOf(n).Pointer()
}

func desc(n syntax.Node) string { return fmt.Sprintf("%T@%s", n, n.Pos()) }

func check(c Case) (res vh.Result) {
	f, perr, pn := sx.Parse(c.Src, c.Lang, true)
	if pn != nil || perr != nil {
		return vh.Result{Skipped: true, Classes: []string{"parse-fail"}}
	}
	items := norm.Enumerate(f)
	want := map[any]int{}
	parentOf := map[any]any{}
	for _, it := range items {
		want[key(it.Node)]++
		if it.Parent >= 0 {
			parentOf[key(it.Node)] = key(items[it.Parent].Node)
		}
	}
	res.Nontrivial = len(items) >= 10 && (c.Prune > 0 || c.Stop > 0)
	res.Classes = append(res.Classes, "lang:"+c.Lang)

	// 1. full walk
	got := map[any]int{}
	var order []syntax.Node
	depth, nils, trues := 0, 0, 0
	var problem string
	if pn := sx.Guard(func() {
		syntax.Walk(f, func(n syntax.Node) bool {
			if n == nil {
				nils++
				depth--
				if depth < 0 && problem == "" {
					problem = "more nil callbacks than entered nodes"
				}
				return true
			}
			k := key(n)
			got[k]++
			order = append(order, n)
			if p, ok := parentOf[k]; ok && got[p] == 0 && problem == "" {
				problem = fmt.Sprintf("%s visited before its parent", desc(n))
			}
			depth++
			trues++
			return true
		})
	}); pn != nil {
		return vh.Fail("Walk panicked: %v", pn)
	}
	if problem != "" {
		return vh.Fail("Walk: %s", problem)
	}
	if nils != trues || depth != 0 {
		return vh.Fail("Walk: %d nodes entered but %d nil callbacks", trues, nils)
	}
	for _, it := range items {
		k := key(it.Node)
		if got[k] != want[k] {
			return vh.Fail("Walk visited %s (field %s) %d times, the tree holds it %d times", desc(it.Node), it.Field, got[k], want[k])
		}
	}
	if len(order) != len(items) {
		return vh.Fail("Walk visited %d nodes, reflection finds %d", len(order), len(items))
	}

	// 2. Preorder yields the same sequence
	var pre []syntax.Node
	for n := range syntax.Preorder(f) {
		pre = append(pre, n)
	}
	if len(pre) != len(order) {
		return vh.Fail("Preorder yields %d nodes, Walk visits %d", len(pre), len(order))
	}
	for i := range pre {
		if key(pre[i]) != key(order[i]) {
			return vh.Fail("Preorder differs from Walk at index %d: %s vs %s", i, desc(pre[i]), desc(order[i]))
		}
	}

	// 3. pruning: the subtree of the pruned node is skipped, everything else
	// is visited, and no nil callback follows the pruned node
	if c.Prune >= 0 && len(order) > 0 {
		pi := c.Prune % len(order)
		target := order[pi]
		// descendants per reflection
		below := map[any]bool{}
		for i, it := range items {
			for j := it.Parent; j >= 0; j = items[j].Parent {
				if key(items[j].Node) == key(target) && items[j].Node == target {
					below[key(items[i].Node)] = true
				}
			}
		}
		if _, isCom := target.(*syntax.Comment); !isCom {
			idx := 0
			seen := map[any]int{}
			nilsP, truesP := 0, 0
			var prob string
			syntax.Walk(f, func(n syntax.Node) bool {
				if n == nil {
					nilsP++
					return true
				}
				i := idx
				idx++
				seen[key(n)]++
				if i == pi {
					return false
				}
				if i > pi && below[key(n)] && want[key(n)] == 1 && prob == "" {
					prob = fmt.Sprintf("%s is below the pruned %s but was visited", desc(n), desc(target))
				}
				truesP++
				return true
			})
			if prob != "" {
				return vh.Fail("pruning: %s", prob)
			}
			if nilsP != truesP {
				return vh.Fail("pruning at %s: %d callbacks returned true but %d nil callbacks", desc(target), truesP, nilsP)
			}
			for _, it := range items {
				k := key(it.Node)
				if !below[k] && seen[k] != want[k] {
					return vh.Fail("pruning at %s: %s outside the pruned subtree visited %d times, want %d", desc(target), desc(it.Node), seen[k], want[k])
				}
			}
		}
	}

	// 4. Preorder stops as soon as the consumer stops
	if c.Stop >= 0 && len(order) > 0 {
		si := c.Stop % len(order)
		n := 0
		for range syntax.Preorder(f) {
			if n == si {
				n++
				break
			}
			n++
		}
		if n != si+1 {
			return vh.Fail("Preorder yielded %d nodes after a break at index %d", n, si)
		}
	}
	return res
}

var prop = vh.Prop[Case]{ID: "C14", Gen: genCase, Check: check, Text: func(c *Case) *string { return &c.Src }}

func TestC14(t *testing.T) { vh.Run(t, prop) }
