//go:build verifhooks

// Enabled with -tags verifhooks once hooks.patch is applied to /repo: the
// interpreter then calls interp.VerifYield at its goroutine boundaries and the
// case's seed decides what happens there.
package c32

import "mvdan.cc/sh/v3/interp"

func init() {
	hooksActive = true
	interp.VerifYield = func(point string) {
		if p := cur.Load(); p != nil {
			p.at(point)
		}
	}
}
