package c32

import (
	"fmt"
	"strings"

	"pgregory.net/rapid"
)

// The programs use a fixed set of shell state that parent and jobs both touch:
// scalars v w n, indexed arrays a b, associative array m, functions f g ret.
const setupSrc = `v=1; w=x; n=0
a=(x y z); b=(1 2 3 4)
declare -A m=([k]=1 [j]=2)
f() { v=$((v+1)); a[1]=$v; echo "f:$v"; }
g() { local l=$v; m[k]=$l; b+=("$l"); echo "g:${#b[@]}"; }
ret() { return $1; }
`

// simple commands that read or write the shared state
var ops = []string{
	`v=$((v+1))`, `v=$v$v`, `w+=y`, `n=$((n+2))`, `(( n++ ))`, `let n+=1`,
	`a+=(q)`, `a[1]=r`, `a[5]=s`, `a=("${a[@]}" t)`, `a=(new)`, `unset 'a[0]'`, `b+=($v)`, `b[0]=$w`, `b=()`, `unset 'b[1]'`,
	`m[k]=2`, `m[new]=3`, `m[$v]=$w`, `unset 'm[j]'`, `m=([z]=9)`,
	`echo "${a[@]}"`, `echo ${a[0]} ${#a[@]} ${!a[@]}`, `echo "${a[@]:1:2}"`, `echo "${b[*]}"`, `echo ${b[-1]}`, `echo "${m[@]}" ${!m[@]}`, `echo ${m[k]} ${#m[@]}`,
	`echo $v $w $n`, `echo ${v:-d} ${w^^} ${#w}`, `echo "$@" $#`, `x=${a[@]:1}`, `for x in "${a[@]}"; do :; done`, `for x in "${!m[@]}"; do y=${m[$x]}; done`,
	`f`, `g`, `f >/dev/null`, `read v <<< 5`, `read -a b <<< "7 8 9"`, `mapfile -t a < lines`, `set -- 1 2 3; shift`, `set -- "${a[@]}"`,
	`cd sub; pwd >/dev/null; cd ..`, `pushd sub >/dev/null; popd >/dev/null`, `export v`, `export w=exp`, `readonly q=1 2>/dev/null`, `declare -p a >/dev/null`, `declare -p m >/dev/null`,
	`[[ -v a[1] ]]`, `[[ ${a[0]} == x* ]]`, `test -n "$w"`, `printf '%s\n' "${a[@]}" >/dev/null`, `IFS=: ; echo "${a[*]}"; unset IFS`, `alias ll=ls; unalias ll`, `shopt -s nullglob; echo *; shopt -u nullglob`,
	`f() { v=other; }`, `unset -f g; g() { echo g2; }`, `trap 'echo bye >/dev/null' EXIT`, `local_test() { local a=(L); a+=(M); echo ${a[@]}; }; local_test`, `eval 'v=$((v+3))'`, `. /dev/null`,
	`cat lines >/dev/null`, `cat <<EOF
$v ${a[@]} ${m[k]}
EOF`, `cat <<< "$w ${b[@]}" >/dev/null`, `true`, `false`, `:`,
}

// the class of the known finding C32-array-string-append (string append to an
// indexed array, done in place); drawn in one case out of ten
var inPlaceOps = []string{`a+=z`, `b+=$v`, `unset 'a[0]'; a+=z`}

type pend struct {
	name string
	code int
}

type gen struct {
	t    *rapid.T
	w    int // W lines printed when everything runs to its end
	jobs int // job variable counter
	size int // remaining compound statements
	fns  int // generated function counter
	// inPlace: this case may use inPlaceOps
	inPlace bool
}

func (g *gen) n(lo, hi int, l string) int { return rapid.IntRange(lo, hi).Draw(g.t, l) }

func (g *gen) ops(max int) string {
	k := g.n(1, max, "nops")
	parts := make([]string, k)
	for i := range parts {
		parts[i] = ops[g.n(0, len(ops)-1, "op")]
		if g.inPlace && g.n(0, 5, "inplaceop") == 0 {
			parts[i] = inPlaceOps[g.n(0, len(inPlaceOps)-1, "inplacewhich")]
		}
	}
	return strings.Join(parts, "\n")
}

// indent is the identity: here-document bodies and terminators must stay at
// the start of their lines.
func indent(s string) string { return s }

// statusJob starts a job whose exit status is known and remembers its id.
func (g *gen) statusJob(pending *[]pend) string {
	code := g.n(0, 255, "code")
	if g.n(0, 3, "smallcode") != 0 {
		code = g.n(0, 5, "code2")
	}
	g.jobs++
	name := fmt.Sprintf("p%d", g.jobs)
	var job string
	switch g.n(0, 6, "jobform") {
	case 0:
		job = fmt.Sprintf("(exit %d) &", code)
	case 1:
		job = fmt.Sprintf("{\n%s\nexit %d\n} &", indent(g.ops(3)), code)
	case 2:
		job = fmt.Sprintf("ret %d &", code)
	case 3:
		job = fmt.Sprintf("(\n%s\nexit %d\n) &", indent(g.ops(2)), code)
	case 4:
		job = fmt.Sprintf("{ f >/dev/null; ret %d; } &", code)
	case 5:
		job = fmt.Sprintf("{ echo x | cat >/dev/null; exit %d; } &", code)
	default:
		if code%2 == 0 {
			code, job = 0, "true &"
		} else {
			code, job = 1, "false &"
		}
	}
	*pending = append(*pending, pend{name, code})
	return job + "\n" + name + "=$!"
}

func (g *gen) waitFor(p pend, mult int) string {
	g.w += mult
	return fmt.Sprintf("wait $%s; printf 'W %d %%s\\n' \"$?\"", p.name, p.code)
}

// scope generates a statement list that waits for everything it started.
// mult is how many times the list runs; quiet means stdout does not reach
// the harness (no self-checking lines can be printed there).
func (g *gen) scope(depth, mult int, quiet bool) string {
	var sb strings.Builder
	var pending []pend
	nst := g.n(1, 5, "nstmt")
	for i := 0; i < nst; i++ {
		kind := g.n(0, 16, "stmt")
		if g.size <= 0 || depth >= 3 {
			kind = kind % 3
		}
		g.size--
		var s string
		switch kind {
		case 0, 1:
			s = g.ops(3)
		case 2:
			if quiet {
				s = g.ops(2)
			} else {
				s = g.statusJob(&pending)
			}
		case 3:
			s = "{\n" + indent(g.scope(depth+1, mult, quiet)) + "\n} &"
		case 4:
			s = "(\n" + indent(g.scope(depth+1, mult, quiet)) + "\n) &"
		case 5:
			s = []string{"f &", "g &", "f | cat &", "{ f; g; } >/dev/null &"}[g.n(0, 3, "fnjob")]
		case 6:
			switch g.n(0, 3, "pipe") {
			case 0:
				s = "{\n" + indent(g.scope(depth+1, mult, true)) + "\n} | {\n" + indent(g.scope(depth+1, mult, quiet)) + "\n}"
			case 1:
				s = "{\n" + indent(g.scope(depth+1, mult, true)) + "\n} | while read l; do\n" + indent(g.ops(2)) + "\ndone"
			case 2:
				s = "{\n" + indent(g.scope(depth+1, mult, true)) + "\n} | cat >/dev/null"
			default:
				s = g.ops(1) + " | " + "{ read l; " + ops[g.n(0, 20, "op")] + "; }"
			}
		case 7:
			switch g.n(0, 2, "psin") {
			case 0:
				s = "cat <(\n" + indent(g.scope(depth+1, mult, true)) + "\n) >/dev/null"
			case 1:
				s = "while read l; do\n" + indent(g.ops(2)) + "\ndone < <(\n" + indent(g.scope(depth+1, mult, true)) + "\n)"
			default:
				s = "read l < <(\n" + indent(g.scope(depth+1, mult, true)) + "\n)"
			}
		case 8:
			s = "{\n" + indent(g.ops(2)) + "\n} > >(\n" + indent("cat >/dev/null\n"+g.ops(1)) + "\n)"
		case 9:
			switch g.n(0, 2, "cs") {
			case 0:
				s = "x=$(\n" + indent(g.scope(depth+1, mult, true)) + "\n)"
			case 1:
				s = "echo \"$(\n" + indent(g.scope(depth+1, mult, true)) + "\n)\" >/dev/null"
			default:
				s = "a+=($(\n" + indent(g.scope(depth+1, mult, true)) + "\n))"
			}
		case 10:
			k := g.n(2, 4, "iters")
			its := strings.TrimSpace(strings.Repeat("i ", k))
			s = "for i in " + its + "; do\n" + indent("{\n"+indent(g.scope(depth+1, mult*k, quiet))+"\n} &\n"+g.ops(2)) + "\ndone"
		case 11:
			if len(pending) > 0 && !quiet {
				j := g.n(0, len(pending)-1, "waitwhich")
				s = g.waitFor(pending[j], mult)
				if g.n(0, 2, "again") == 0 {
					// waiting again for a finished job gives the same status
					s += "\n" + g.waitFor(pending[j], mult)
				} else {
					pending = append(pending[:j], pending[j+1:]...)
				}
			} else {
				s = "wait"
			}
		case 12:
			if len(pending) >= 2 && !quiet {
				g.w += mult
				a, b := pending[0], pending[len(pending)-1]
				s = fmt.Sprintf("wait $%s $%s; printf 'W %d %%s\\n' \"$?\"", a.name, b.name, b.code)
			} else {
				s = "wait; printf 'W 0 %s\\n' \"$?\""
				if quiet {
					s = "wait"
				} else {
					g.w += mult
				}
			}
		case 14, 15:
			// the same concurrency started from inside a function body (its
			// variable scope sits between the job and the global one), with
			// the function going on to assign globals while the jobs run
			g.fns++
			name := fmt.Sprintf("h%d", g.fns)
			local := []string{"", "local lv=$v\n", "local v=L\n", "local -a a=(L)\n"}[g.n(0, 3, "fnlocal")]
			s = name + "() {\n" + local + indent(g.scope(depth+1, mult, quiet)) + "\n}\n" + name
		case 16:
			// a foreground subshell or group around a scope
			s = []string{"(\n", "{\n"}[g.n(0, 1, "fgkind")] + indent(g.scope(depth+1, mult, quiet))
			if strings.HasPrefix(s, "(") {
				s += "\n)"
			} else {
				s += "\n}"
			}
		default:
			s = "f() { v=$((v+1)); a[1]=$v; }\n{ f; } &\nf"
		}
		sb.WriteString(s)
		sb.WriteString("\n")
	}
	for _, p := range pending {
		sb.WriteString(g.waitFor(p, mult))
		sb.WriteString("\n")
	}
	sb.WriteString("wait")
	return sb.String()
}

func genCase(t *rapid.T) Case {
	g := &gen{t: t}
	g.size = g.n(2, 10, "size")
	g.inPlace = g.n(0, 9, "inplace") == 0
	c := Case{Kind: "script"}
	if g.n(0, 3, "api") == 0 {
		c.Kind = "api"
		c.Setup = setupSrc
		for i, k := 0, g.n(2, 4, "nrunners"); i < k; i++ {
			c.Progs = append(c.Progs, g.scope(1, 1, false)+"\n")
		}
	} else {
		c.Progs = []string{setupSrc + g.scope(0, 1, false) + "\n"}
	}
	c.WLines = g.w
	c.Seed = rapid.Uint64().Draw(t, "seed")
	c.Procs = rapid.SampledFrom([]int{1, 2, 2, 4, 4, 8, 16}).Draw(t, "procs")
	return c
}
