// C32: Concurrent shell features are race-free; `wait` with a job id returns
// that job's status.
//
// The stage is built with -race (GORACE halt_on_error=1 exitcode=66): a race
// report ends the worker process on the spot, so every case is written to
// $VERIF_SCRATCH/c32-last-<worker>.json and printed as a "C32-CASE" line
// BEFORE it runs. A saved case (VERIF_REPLAY) is run 20 times.
package c32

import (
	"bytes"
	"context"
	"fmt"
	"hash/fnv"
	"io"
	"os"
	"path/filepath"
	"regexp"
	"runtime"
	"strings"
	"sync"
	"sync/atomic"
	"syscall"
	"testing"
	"time"

	"mvdan.cc/sh/v3/expand"
	"mvdan.cc/sh/v3/interp"
	"mvdan.cc/sh/v3/syntax"

	"verifh/oracle"
	"verifh/vh"
)

func TestMain(m *testing.M) { vh.Main(m) }

// Case is one concurrent scenario.
type Case struct {
	// Kind "script": Progs[0] is run by one Runner. Kind "api": Setup is run
	// by a Runner, then len(Progs)-1 copies are taken with Runner.Subshell and
	// Progs[0] (parent) and Progs[1:] (copies) run at the same time.
	Kind  string   `json:"kind"`
	Setup string   `json:"setup,omitempty"`
	Progs []string `json:"progs"`
	// WLines is the number of self-checking "W <expected> <got>" lines the
	// programs print when they run to their end.
	WLines int `json:"w_lines"`
	// Seed drives the scheduling perturbation; Procs is GOMAXPROCS.
	Seed  uint64 `json:"seed"`
	Procs int    `json:"procs"`
}

// setYieldSeed is replaced by yield_hooks_test.go (build tag verifhooks) once
// /repo has the verifYield call sites of hooks.patch.
var setYieldSeed = func(seed uint64) {}

var hooksActive = false

// perturb is the seed-determined schedule disturbance shared by the output
// writer and (with the hooks) the interpreter's goroutine boundaries.
type perturber struct {
	seed uint64
	mu   sync.Mutex
	n    uint64
}

func (p *perturber) at(point string) {
	p.mu.Lock()
	p.n++
	n := p.n
	p.mu.Unlock()
	h := fnv.New64a()
	fmt.Fprintf(h, "%d/%d/%s", p.seed, n, point)
	switch v := h.Sum64(); v % 8 {
	case 0, 1:
		runtime.Gosched()
	case 2:
		time.Sleep(time.Duration(1+(v>>8)%40) * time.Microsecond)
	case 3:
		for i := 0; i < 3; i++ {
			runtime.Gosched()
		}
	case 4:
		time.Sleep(time.Duration(50+(v>>8)%400) * time.Microsecond)
	}
}

// cur is the perturber of the running case (read by the yield hooks).
var cur atomic.Pointer[perturber]

// out is the Runner's stdout/stderr: safe for concurrent use, as the package
// documentation asks, and a perturbation point.
type outWriter struct {
	mu sync.Mutex
	b  bytes.Buffer
	p  *perturber
}

func (w *outWriter) Write(b []byte) (int, error) {
	w.p.at("write")
	w.mu.Lock()
	defer w.mu.Unlock()
	if w.b.Len() < 1<<18 {
		w.b.Write(b)
	}
	return len(b), nil
}

func (w *outWriter) String() string {
	w.mu.Lock()
	defer w.mu.Unlock()
	return w.b.String()
}

var allowedTools = map[string]bool{"cat": true, "true": true, "false": true, "sleep": true}

func newRunner(dir string, out *outWriter) (*interp.Runner, error) {
	binDir, _ := oracle.BinDir()
	defOpen := interp.DefaultOpenHandler()
	open := func(ctx context.Context, path string, flag int, perm os.FileMode) (io.ReadWriteCloser, error) {
		abs := path
		if !filepath.IsAbs(abs) {
			abs = filepath.Join(interp.HandlerCtx(ctx).Dir, abs)
		}
		abs = filepath.Clean(abs)
		if abs == "/dev/null" || strings.HasPrefix(abs, dir+"/") {
			return defOpen(ctx, path, flag, perm)
		}
		return nil, &os.PathError{Op: "open", Path: path, Err: syscall.EACCES}
	}
	def := interp.DefaultExecHandler(500 * time.Millisecond)
	return interp.New(
		interp.Dir(dir),
		interp.Env(expand.ListEnviron("PATH="+binDir, "HOME="+dir, "LC_ALL=C.UTF-8", "TMPDIR="+dir)),
		interp.StdIO(nil, out, out),
		interp.OpenHandler(open),
		interp.ExecHandlers(func(next interp.ExecHandlerFunc) interp.ExecHandlerFunc {
			return func(ctx context.Context, args []string) error {
				if !allowedTools[args[0]] {
					return interp.ExitStatus(127)
				}
				for _, a := range args[1:] {
					if strings.Contains(a, "/") && !strings.HasPrefix(a, dir+"/") {
						return interp.ExitStatus(127)
					}
				}
				return def(ctx, args)
			}
		}),
	)
}

type result struct {
	harness string
	parse   string
	timeout bool
	panic   string
	out     string
}

const caseTimeout = 20 * time.Second

func parse(src string) (*syntax.File, error) {
	return syntax.NewParser().Parse(strings.NewReader(src), "")
}

// runOnce executes the scenario once in this process.
func runOnce(c Case, seed uint64) (res result) {
	files := make([]*syntax.File, len(c.Progs))
	for i, p := range c.Progs {
		f, err := parse(p)
		if err != nil {
			res.parse = err.Error()
			return res
		}
		files[i] = f
	}
	var setup *syntax.File
	if c.Kind == "api" {
		f, err := parse(c.Setup)
		if err != nil {
			res.parse = err.Error()
			return res
		}
		setup = f
	}
	dir, err := oracle.NewDir()
	if err != nil {
		res.harness = err.Error()
		return res
	}
	defer oracle.RemoveDir(dir)
	os.Mkdir(filepath.Join(dir, "sub"), 0o755)
	os.WriteFile(filepath.Join(dir, "lines"), []byte("l1\nl2\nl3\n"), 0o644)
	if c.Procs > 0 {
		defer runtime.GOMAXPROCS(runtime.GOMAXPROCS(c.Procs))
	}
	p := &perturber{seed: seed}
	cur.Store(p)
	setYieldSeed(seed)
	out := &outWriter{p: p}
	r, err := newRunner(dir, out)
	if err != nil {
		res.harness = err.Error()
		return res
	}
	ctx, cancel := context.WithTimeout(context.Background(), caseTimeout)
	defer cancel()
	runners := []*interp.Runner{r}
	if c.Kind == "api" {
		if err := guard(func() { r.Run(ctx, setup) }); err != "" {
			res.panic = err
			return res
		}
		// Subshell is documented as not safe concurrently with Run: all the
		// copies are taken first, then everything runs at the same time
		for range files[1:] {
			runners = append(runners, r.Subshell())
		}
	}
	var wg sync.WaitGroup
	pans := make([]string, len(files))
	for i := range files {
		wg.Add(1)
		go func() {
			defer wg.Done()
			p.at("runner-start")
			pans[i] = guard(func() { runners[i].Run(ctx, files[i]) })
		}()
	}
	wg.Wait()
	res.timeout = ctx.Err() != nil
	for _, s := range pans {
		if s != "" {
			res.panic = s
		}
	}
	res.out = out.String()
	return res
}

func guard(f func()) (pan string) {
	defer func() {
		if e := recover(); e != nil {
			pan = fmt.Sprint(e)
		}
	}()
	f()
	return ""
}

// a W line is written with one printf, i.e. one Write: text of other writers
// can precede it on the same line but cannot split it
var wLine = regexp.MustCompile(`W (\d+) (\d+)\n`)

func logCase(c Case) {
	js := vh.MarshalCase(c)
	fmt.Printf("C32-CASE %s\n", js)
	os.Stdout.Sync()
	if s := os.Getenv("VERIF_SCRATCH"); s != "" {
		w := os.Getenv("VERIF_WORKER")
		if w == "" {
			w = "0"
		}
		doc := append(append([]byte(`{"property":"C32","test":"TestC32","case":`), js...), "}\n"...)
		os.WriteFile(filepath.Join(s, "c32-last-"+w+".json"), doc, 0o644)
	}
}

func check(c Case) (res vh.Result) {
	replay := os.Getenv("VERIF_REPLAY") != ""
	if !replay {
		if id := excluded(c); id != "" {
			return vh.Result{Skipped: true, Classes: []string{"excluded:" + id}}
		}
	}
	reps := 1
	if replay {
		// a race needs its schedule: a saved case gets 20 attempts
		reps = 20
	}
	logCase(c)
	res.Classes = append(res.Classes, "kind:"+c.Kind, fmt.Sprintf("procs:%d", c.Procs))
	for rep := 0; rep < reps; rep++ {
		o := runOnce(c, c.Seed+uint64(rep)*7919)
		switch {
		case o.harness != "":
			return vh.Result{Skipped: true, Classes: []string{"harness-error"}}
		case o.parse != "":
			return vh.Result{Skipped: true, Classes: []string{"parse-fail"}}
		case o.panic != "":
			return vh.Fail("Run panicked: %s", o.panic)
		case o.timeout:
			// not this property's business (C31)
			return vh.Result{Skipped: true, Classes: []string{"timeout"}}
		}
		ms := wLine.FindAllStringSubmatch(o.out, -1)
		for _, m := range ms {
			if m[1] != m[2] {
				return vh.Fail("wait returned status %s for a job that exits with %s\nprograms: %q\noutput:\n%s", m[2], m[1], c.Progs, clip(o.out, 3000))
			}
		}
		if len(ms) != c.WLines {
			return vh.Fail("the programs print %d wait-status lines when they run to their end, got %d\nprograms: %q\noutput:\n%s", c.WLines, len(ms), c.Progs, clip(o.out, 3000))
		}
	}
	res.Nontrivial = true
	for _, f := range features(c) {
		res.Classes = append(res.Classes, "feature:"+f)
	}
	if hooksActive {
		res.Classes = append(res.Classes, "yield-hooks-active")
	}
	return res
}

func clip(s string, n int) string {
	if len(s) > n {
		return s[:n] + "…"
	}
	return s
}

func features(c Case) []string {
	src := strings.Join(c.Progs, "\n")
	var out []string
	for _, f := range [][2]string{
		{"background", "&\n"}, {"pipeline", " | "}, {"procsubst-in", "<("}, {"procsubst-out", ">("}, {"cmdsubst", "$(\n"}, {"wait-id", "wait $"}, {"wait-all", "wait\n"},
		{"heredoc", "<<EOF"}, {"array-write", "a["}, {"assoc-write", "m["}, {"function-job", "f &"}, {"subshell-job", ") &"}, {"loop-of-jobs", "for i in"},
	} {
		if strings.Contains(src, f[1]) {
			out = append(out, f[0])
		}
	}
	return out
}

var prop = vh.Prop[Case]{ID: "C32", Gen: genCase, Check: check}

func TestC32(t *testing.T) { vh.Run(t, prop) }
