package c32

import (
	"regexp"
	"strings"

	"mvdan.cc/sh/v3/syntax"

	"verifh/vh"
)

// C32-array-string-append: "a+=z" on an indexed array appends to element 0 in
// place (interp/vars.go assignVal: prev.List[0] += s); a background subshell
// or Runner.Subshell copy shares the slice storage with its parent, so the
// write races with every read of the array on the other side. The generated
// programs have two indexed arrays, a and b.
var arrayStringAppend = regexp.MustCompile(`(^|[^A-Za-z0-9_])[ab]\+=([^(]|$)`)

// C32-cmdsubst-concurrent-writes: inside $(...) the output buffer of the
// substitution (a strings.Builder) is the stdout of the substitution's shell
// and of every background job it starts; they write to it without a lock.
func jobInsideCmdSubst(src string) bool {
	f, err := syntax.NewParser().Parse(strings.NewReader(src), "")
	if err != nil {
		return false
	}
	hit := false
	syntax.Walk(f, func(n syntax.Node) bool {
		cs, ok := n.(*syntax.CmdSubst)
		if !ok {
			return !hit
		}
		syntax.Walk(cs, func(m syntax.Node) bool {
			if st, ok := m.(*syntax.Stmt); ok && (st.Background || st.Coprocess || st.Disown) {
				hit = true
			}
			return !hit
		})
		return !hit
	})
	return hit
}

// excluded returns the id of an active exclusion class the case falls in.
func excluded(c Case) string {
	if vh.Excluded("C32-array-string-append") {
		for _, p := range c.Progs {
			if arrayStringAppend.MatchString(p) {
				return "C32-array-string-append"
			}
		}
	}
	if vh.Excluded("C32-cmdsubst-concurrent-writes") {
		for _, p := range c.Progs {
			if jobInsideCmdSubst(p) {
				return "C32-cmdsubst-concurrent-writes"
			}
		}
	}
	return ""
}
