package c21

import (
	"fmt"
	"os"
	"sort"
	"testing"

	"pgregory.net/rapid"
)

// TestC21ExclusionShare is a development aid: the share of generated
// sub-cases that each exclusion class removes (no shell is run).
func TestC21ExclusionShare(t *testing.T) {
	if os.Getenv("C21_EXCLSTAT") == "" {
		t.Skip("C21_EXCLSTAT not set")
	}
	g := rapid.Custom(genSub)
	counts := map[string]int{}
	fam := map[string]int{}
	famEx := map[string]int{}
	const n = 20000
	for i := 0; i < n; i++ {
		s := g.Example(i)
		fam[s.Exp.Fam]++
		id := excludedBy(s)
		if id == "" {
			if w := outOfDomain(s); w != "" {
				id = "out-of-domain:" + w
			}
		}
		if id != "" {
			counts[id]++
			famEx[s.Exp.Fam]++
		}
	}
	keys := make([]string, 0, len(counts))
	for k := range counts {
		keys = append(keys, k)
	}
	sort.Strings(keys)
	tot := 0
	for _, k := range keys {
		fmt.Printf("%-40s %5.1f%%\n", k, 100*float64(counts[k])/n)
		tot += counts[k]
	}
	fmt.Printf("%-40s %5.1f%%\n", "TOTAL", 100*float64(tot)/n)
	fk := make([]string, 0, len(fam))
	for k := range fam {
		fk = append(fk, k)
	}
	sort.Strings(fk)
	for _, k := range fk {
		fmt.Printf("family %-10s generated %5d excluded %5.1f%%\n", k, fam[k], 100*float64(famEx[k])/float64(fam[k]))
	}
}
