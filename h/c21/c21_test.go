// C21: Parameter expansion matches bash.
//
// A case is a batch of independent sub-cases. Each sub-case is a small shell
// program: variable state, then `printf '<%s>' WORD` where WORD holds one
// parameter expansion. The program runs under bash 5.2 (all sub-cases of a
// batch in one bash process, each in its own subshell) and under interp in
// process, in the same empty directory; standard output and exit status must
// agree.
package c21

import (
	"fmt"
	"os"
	"regexp"
	"sort"
	"strconv"
	"strings"
	"testing"
	"time"
	"unicode/utf8"

	"pgregory.net/rapid"

	"verifh/oracle"
	"verifh/vh"
)

func TestMain(m *testing.M) { vh.Main(m) }

// ---------------------------------------------------------------------------
// case

// Var is one variable of the state.
type Var struct {
	Name string `json:"name"`
	// Kind: "str", "arr" (indexed; Keys are decimal indices, ascending) or
	// "assoc" (Keys are the keys). Unset variables are simply not listed.
	Kind string   `json:"kind"`
	Str  string   `json:"str,omitempty"`
	Keys []string `json:"keys,omitempty"`
	Vals []string `json:"vals,omitempty"`
}

// Exp is the parameter expansion under test, kept structured so that
// exclusion classes can be stated over its syntax.
type Exp struct {
	Fam    string `json:"fam"`              // operator family, see families
	Bang   bool   `json:"bang,omitempty"`   // ${!...}
	Hash   bool   `json:"hash,omitempty"`   // ${#...}
	Name   string `json:"name"`             // parameter name: s, a, 1, @, * ...
	Index  string `json:"index,omitempty"`  // subscript text without brackets
	HasIdx bool   `json:"hasidx,omitempty"` // a subscript is present
	Op     string `json:"op,omitempty"`     // operator text: ":-", "#", "/", "//", ":", "^^", "@" ...
	Arg    string `json:"arg,omitempty"`    // shell source of the first argument
	HasAr2 bool   `json:"hasarg2,omitempty"`
	Arg2   string `json:"arg2,omitempty"` // replacement (after "/") or length (after ":")
	Suffix string `json:"suffix,omitempty"`
	// Suffix is "*" or "@" for ${!prefix*} / ${!prefix@}.
}

// Sub is one sub-case.
type Sub struct {
	IFS    *string  `json:"ifs"` // nil: IFS untouched (default)
	Vars   []Var    `json:"vars"`
	Params []string `json:"params"` // positional parameters
	Exp    Exp      `json:"exp"`
	Pre    string   `json:"pre,omitempty"`  // literal text glued before the expansion
	Post   string   `json:"post,omitempty"` // literal text glued after it
	Quoted bool     `json:"quoted"`         // expansion (with Pre/Post) inside "..."
}

// Case is a batch of sub-cases evaluated by one bash process.
type Case struct {
	Subs []Sub `json:"subs"`
}

func (e Exp) String() string {
	var sb strings.Builder
	sb.WriteString("${")
	if e.Bang {
		sb.WriteByte('!')
	}
	if e.Hash {
		sb.WriteByte('#')
	}
	sb.WriteString(e.Name)
	if e.HasIdx {
		sb.WriteString("[" + e.Index + "]")
	}
	sb.WriteString(e.Suffix)
	sb.WriteString(e.Op)
	sb.WriteString(e.Arg)
	if e.HasAr2 {
		if e.Fam == "slice" {
			sb.WriteByte(':')
		} else {
			sb.WriteByte('/')
		}
		sb.WriteString(e.Arg2)
	}
	sb.WriteByte('}')
	return sb.String()
}

// shq single-quotes s for the shell. A single quote inside s is written as
// '"'"' rather than '\” so that setting up the state does not depend on how
// an unquoted backslash escape is removed (that is part of what C22 tests).
func shq(s string) string { return "'" + strings.ReplaceAll(s, "'", `'"'"'`) + "'" }

func (v Var) stmt() string {
	switch v.Kind {
	case "str":
		return v.Name + "=" + shq(v.Str)
	case "arr":
		var sb strings.Builder
		sb.WriteString(v.Name + "=(")
		for i, k := range v.Keys {
			if i > 0 {
				sb.WriteByte(' ')
			}
			sb.WriteString("[" + k + "]=" + shq(v.Vals[i]))
		}
		sb.WriteString(")")
		return sb.String()
	case "assoc":
		var sb strings.Builder
		sb.WriteString("declare -A " + v.Name + "=(")
		for i, k := range v.Keys {
			if i > 0 {
				sb.WriteByte(' ')
			}
			sb.WriteString("[" + k + "]=" + shq(v.Vals[i]))
		}
		sb.WriteString(")")
		return sb.String()
	}
	return ":"
}

// Script renders the sub-case as a shell program.
func (s Sub) Script() string {
	var sb strings.Builder
	for _, v := range s.Vars {
		sb.WriteString(v.stmt() + "\n")
	}
	sb.WriteString("set --")
	for _, p := range s.Params {
		sb.WriteString(" " + shq(p))
	}
	sb.WriteString("\n")
	if s.IFS != nil {
		sb.WriteString("IFS=" + shq(*s.IFS) + "\n")
	}
	word := s.Pre + s.Exp.String() + s.Post
	if s.Exp.Fam == "quote" {
		// ${v@Q}: the property documents that the quoting style may differ
		// (strings needing no quoting stay unquoted), so the quoted text is
		// evaluated back and the resulting values are compared.
		sb.WriteString("eval \"set -- " + s.Exp.String() + "\"; s=$?\n")
		sb.WriteString("printf '<%s>' \"$@\"; echo; echo \"st=$s\"\n")
		return sb.String()
	}
	if s.Quoted {
		word = `"` + word + `"`
	}
	sb.WriteString("printf '<%s>' " + word + "; s=$?; echo; echo \"st=$s\"\n")
	if s.Exp.Fam == "assign" {
		// the assignment's effect on the variable is part of the behaviour
		n := s.Exp.Name
		switch {
		case !isName(n):
		case n == "m" || n == "mm":
			// associative: only the element (the order of ${m[@]} is
			// bash's hash order)
			ix := "0"
			if s.Exp.HasIdx {
				ix = s.Exp.Index
			}
			if ix != "@" && ix != "*" {
				sb.WriteString("printf '[%s]' \"${" + n + "[" + ix + "]}\"; echo\n")
			}
		default:
			sb.WriteString("printf '[%s]' \"${" + n + "[@]}\"; echo\n")
		}
	}
	return sb.String()
}

var nameRx = regexp.MustCompile(`^[a-zA-Z_][a-zA-Z0-9_]*$`)

func isName(s string) bool { return nameRx.MatchString(s) }

// ---------------------------------------------------------------------------
// generators

var valueAlphabet = []rune("aabbABxy  \t\n*?[]\\-./!^:'\"$é世É_0")

var curatedValues = []string{
	"", "a", "abc", "a b", " a  b ", "  ", "*", "a*b", "?", "[a]", "[", "]", "a\\b", "\\", "\\*",
	"é", "héllo wörld", "ÉCOLE", "世界", "aXbXc", "ABC", "aBc", "abcabc", "/a/b.c", "a.b.c", "--", "-", "a\tb", "a\nb",
	"\n", " ", "'", "a'b", "\"", "$x", "!", "a]b", "a-b", "^a", "aaa", "bab", "x y z", "a  b", "\ta\t", "a\n", "*.c", "[!a]",
}

func genValue(t *rapid.T) string {
	if rapid.IntRange(0, 2).Draw(t, "vkind") == 0 {
		return rapid.SampledFrom(curatedValues).Draw(t, "cur")
	}
	rs := rapid.SliceOfN(rapid.SampledFrom(valueAlphabet), 0, 8).Draw(t, "runes")
	return string(rs)
}

// pattern source text (shell syntax), usable after # % / ^ , operators.
// slashOK: a bare "/" may appear (not in the pattern of ${v/p/r}).
func genPattern(t *rapid.T, slashOK bool) string {
	toks := []string{
		"*", "*", "?", "?", "a", "b", "A", "x", ".", "-", "!", "]", "é", " ",
		"[ab]", "[a-c]", "[!a]", "[^a]", "[[:alpha:]]", "[[:upper:]]", "[[:space:]]", "[]a]", "[a-]", "[*]", "[", "[a",
		`\*`, `\?`, `\\`, `\[`, `\a`, `'*'`, `"?"`, `"a b"`, `'[a]'`, "$g", `"$g"`, "${g}", "$u",
	}
	if slashOK {
		// "[!]]" only outside ${v/p/r}: bash 5.2.15 never matches it in a
		// pattern substitution (s=abc; ${s/[!]]/X} gives abc, ${s#[!]]} gives
		// bc), so it cannot judge that form.
		toks = append(toks, "/", "/", "*/", "/*", "[!]]")
	} else {
		toks = append(toks, `\/`)
	}
	n := rapid.IntRange(0, 4).Draw(t, "npat")
	var sb strings.Builder
	for i := 0; i < n; i++ {
		sb.WriteString(rapid.SampledFrom(toks).Draw(t, "ptok"))
	}
	return sb.String()
}

// word argument of the default/assign/error/alternative operators and the
// replacement of ${v/p/r}. depth bounds nesting.
func genArgWord(t *rapid.T, depth int, repl bool) string {
	toks := []string{
		"", "w", "a", "b c", " ", "  d  ", "*", "x?", "é", "-", ".", "[a]",
		`'q r'`, `''`, `'*'`, `"q r"`, `""`, `"$t"`, `"${t}"`, `"a $t b"`,
		"$t", "${t}", "$s", "$u", "$e", "$1", `"$@"`, "$*", "${a[@]}", `"${a[@]}"`, `"${a[*]}"`,
		`\*`, `\ `, `\\`, `\}`, `\$t`, `\"`, `\'`,
	}
	if !repl {
		toks = append(toks, "/", "a/b", ":", "=", "+", "#", "%")
	} else {
		// no list expansions in a replacement string: bash 5.2.15 leaks its
		// internal CTLNUL byte (\x7f) for an empty element of "${a[@]}"
		// there, so it cannot judge that form.
		kept := toks[:0:0]
		for _, tk := range toks {
			if !strings.Contains(tk, "@") && !strings.Contains(tk, "[*]") && !strings.Contains(tk, "$*") {
				kept = append(kept, tk)
			}
		}
		toks = append(kept, `\/`)
	}
	n := rapid.IntRange(0, 3).Draw(t, "nword")
	var sb strings.Builder
	for i := 0; i < n; i++ {
		k := rapid.IntRange(0, 11).Draw(t, "wkind")
		switch {
		case k == 0 && depth > 0:
			op := rapid.SampledFrom([]string{":-", "-", ":+", "+"}).Draw(t, "nop")
			nm := rapid.SampledFrom([]string{"u", "e", "t", "s"}).Draw(t, "nname")
			sb.WriteString("${" + nm + op + genArgWord(t, depth-1, repl) + "}")
		case k == 1 && depth > 0:
			nm := rapid.SampledFrom([]string{"t", "s"}).Draw(t, "nname2")
			op := rapid.SampledFrom([]string{"#", "%", "^^", ":1", ":0:2"}).Draw(t, "nop2")
			arg := ""
			if op == "#" || op == "%" {
				arg = rapid.SampledFrom([]string{"?", "*", "a", ""}).Draw(t, "narg")
			}
			sb.WriteString("${" + nm + op + arg + "}")
		case k == 2 && depth > 0:
			sb.WriteString(`"${` + rapid.SampledFrom([]string{"u", "e", "t"}).Draw(t, "nname3") + ":-" + genArgWord(t, depth-1, repl) + `}"`)
		default:
			sb.WriteString(rapid.SampledFrom(toks).Draw(t, "wtok"))
		}
	}
	return sb.String()
}

func genInt(t *rapid.T, label string) string {
	switch rapid.IntRange(0, 9).Draw(t, label+"kind") {
	case 0:
		return rapid.SampledFrom([]string{"n", "$n", "n+1", "n-1", "1+1", "${#s}-1", "${#s}", "2*2", "(1)", "-n"}).Draw(t, label+"expr")
	default:
		return strconv.Itoa(rapid.IntRange(-9, 9).Draw(t, label))
	}
}

// sliceNum renders an offset/length so that a leading '-' is not taken for
// the ${v:-w} operator.
func sliceOffset(s string) string {
	if strings.HasPrefix(s, "-") {
		return " " + s
	}
	return s
}

// rapid favours the low indices of SampledFrom, so "plain" comes last.
var families = []string{
	"default", "remove", "replace", "slice", "case", "alt", "assign", "error", "length", "default", "remove",
	"replace", "slice", "indirect", "prefix", "keys", "transform", "quote", "plain",
}

type nameRef struct {
	name   string
	index  string
	hasIdx bool
	kind   string // scalar | elem | all | positional | posall
}

func genNameRef(t *rapid.T) nameRef {
	k := rapid.IntRange(0, 19).Draw(t, "namekind")
	switch {
	case k < 6:
		n := rapid.SampledFrom([]string{"s", "s", "t", "e", "u", "n"}).Draw(t, "scalar")
		if rapid.IntRange(0, 9).Draw(t, "sidx") == 0 {
			return nameRef{n, rapid.SampledFrom([]string{"0", "1", "@", "*"}).Draw(t, "sidxv"), true, "scalar"}
		}
		return nameRef{n, "", false, "scalar"}
	case k < 9:
		n := rapid.SampledFrom([]string{"a", "b"}).Draw(t, "arr")
		if rapid.IntRange(0, 5).Draw(t, "bare") == 0 {
			return nameRef{n, "", false, "elem"}
		}
		ix := rapid.SampledFrom([]string{"0", "1", "2", "5", "9", "-1", "-2", "n", "$n", "n+1", "1+1"}).Draw(t, "aidx")
		return nameRef{n, ix, true, "elem"}
	case k < 13:
		n := rapid.SampledFrom([]string{"a", "a", "b", "z"}).Draw(t, "arrall")
		return nameRef{n, rapid.SampledFrom([]string{"@", "*"}).Draw(t, "at"), true, "all"}
	case k < 15:
		// associative arrays: the order of a multi-element m[@] is bash's
		// hash order (unspecified), so "all" forms only use the one-key map.
		switch rapid.IntRange(0, 3).Draw(t, "assoc") {
		case 0:
			return nameRef{"m", rapid.SampledFrom([]string{"@", "*"}).Draw(t, "at"), true, "all"}
		case 1:
			return nameRef{"mm", rapid.SampledFrom([]string{"k1", "k2", "zz", "$g"}).Draw(t, "mkey"), true, "elem"}
		case 2:
			return nameRef{"m", "k1", true, "elem"}
		default:
			return nameRef{"m", "", false, "elem"}
		}
	case k < 17:
		return nameRef{rapid.SampledFrom([]string{"1", "2", "3", "9"}).Draw(t, "pos"), "", false, "positional"}
	default:
		return nameRef{rapid.SampledFrom([]string{"@", "*"}).Draw(t, "posall"), "", false, "posall"}
	}
}

func genState(t *rapid.T, s *Sub) {
	str := func(name string) {
		s.Vars = append(s.Vars, Var{Name: name, Kind: "str", Str: genValue(t)})
	}
	str("s")
	str("t")
	s.Vars = append(s.Vars, Var{Name: "e", Kind: "str", Str: ""})
	s.Vars = append(s.Vars, Var{Name: "n", Kind: "str", Str: strconv.Itoa(rapid.IntRange(0, 3).Draw(t, "n"))})
	// g: a variable holding a pattern
	s.Vars = append(s.Vars, Var{Name: "g", Kind: "str", Str: rapid.SampledFrom([]string{"*", "?", "a", "[ab]", "a*", "k1", "", "\\*", "b?"}).Draw(t, "g")})
	// a: dense indexed array of 0..4 elements
	na := rapid.IntRange(0, 4).Draw(t, "na")
	a := Var{Name: "a", Kind: "arr"}
	for i := 0; i < na; i++ {
		a.Keys = append(a.Keys, strconv.Itoa(i))
		a.Vals = append(a.Vals, genValue(t))
	}
	s.Vars = append(s.Vars, a)
	// b: sparse indexed array
	b := Var{Name: "b", Kind: "arr"}
	idx := 0
	nb := rapid.IntRange(1, 3).Draw(t, "nb")
	for i := 0; i < nb; i++ {
		idx += rapid.IntRange(1, 4).Draw(t, "gap")
		b.Keys = append(b.Keys, strconv.Itoa(idx))
		b.Vals = append(b.Vals, genValue(t))
	}
	s.Vars = append(s.Vars, b)
	s.Vars = append(s.Vars, Var{Name: "m", Kind: "assoc", Keys: []string{"k1"}, Vals: []string{genValue(t)}})
	s.Vars = append(s.Vars, Var{Name: "mm", Kind: "assoc", Keys: []string{"k1", "k2"}, Vals: []string{genValue(t), genValue(t)}})
	// prefix family
	s.Vars = append(s.Vars, Var{Name: "pq1", Kind: "str", Str: "v1"})
	s.Vars = append(s.Vars, Var{Name: "pq2", Kind: "arr", Keys: []string{"0"}, Vals: []string{"v2"}})
	s.Vars = append(s.Vars, Var{Name: "pqr", Kind: "str", Str: ""})
	np := rapid.IntRange(0, 3).Draw(t, "np")
	s.Params = []string{}
	for i := 0; i < np; i++ {
		s.Params = append(s.Params, genValue(t))
	}
}

// derivedPattern builds, three times out of ten, a literal pattern from the
// value the expansion is applied to: a piece of it (the prefix for # ##, the
// suffix for % %%, any piece for / //) with every special character escaped
// by a backslash. Independent patterns rarely match values that hold
// backslashes or glob characters at the right place.
func derivedPattern(t *rapid.T, s *Sub, e Exp) (string, bool) {
	if rapid.IntRange(0, 9).Draw(t, "derive") > 2 || e.HasIdx {
		return "", false
	}
	val, found := "", false
	for _, v := range s.Vars {
		if v.Name == e.Name && v.Kind == "str" {
			val, found = v.Str, true
		}
	}
	if !found || val == "" || strings.ContainsAny(val, "\n\r") || !utf8.ValidString(val) {
		return "", false
	}
	rs := []rune(val)
	i := rapid.IntRange(0, len(rs)-1).Draw(t, "dfrom")
	j := rapid.IntRange(i+1, len(rs)).Draw(t, "dto")
	switch e.Op {
	case "#", "##", "/#":
		i = 0
	case "%", "%%", "/%":
		j = len(rs)
	}
	var sb strings.Builder
	for _, r := range rs[i:j] {
		if strings.ContainsRune("\\*?[]!^-'\"$}{/ \t`()|&;<>#~", r) {
			sb.WriteByte('\\')
		}
		sb.WriteRune(r)
	}
	return sb.String(), true
}

func genSub(t *rapid.T) Sub {
	var s Sub
	genState(t, &s)
	switch rapid.IntRange(0, 9).Draw(t, "ifs") {
	case 0:
		v := ""
		s.IFS = &v
	case 1:
		v := ","
		s.IFS = &v
	case 2:
		v := " "
		s.IFS = &v
	}
	s.Quoted = rapid.Bool().Draw(t, "quoted")
	if rapid.IntRange(0, 4).Draw(t, "glue") == 0 {
		s.Pre = rapid.SampledFrom([]string{"", "x", "x"}).Draw(t, "pre")
		s.Post = rapid.SampledFrom([]string{"", "y", "y"}).Draw(t, "post")
	}
	fam := rapid.SampledFrom(families).Draw(t, "fam")
	e := Exp{Fam: fam}
	setName := func(nr nameRef) {
		e.Name, e.Index, e.HasIdx = nr.name, nr.index, nr.hasIdx
	}
	switch fam {
	case "plain":
		setName(genNameRef(t))
	case "default":
		setName(genNameRef(t))
		e.Op = rapid.SampledFrom([]string{"-", ":-"}).Draw(t, "op")
		e.Arg = genArgWord(t, 2, false)
	case "alt":
		setName(genNameRef(t))
		e.Op = rapid.SampledFrom([]string{"+", ":+"}).Draw(t, "op")
		e.Arg = genArgWord(t, 2, false)
	case "assign":
		nr := genNameRef(t)
		setName(nr)
		e.Op = rapid.SampledFrom([]string{"=", ":="}).Draw(t, "op")
		e.Arg = genArgWord(t, 1, false)
	case "error":
		setName(genNameRef(t))
		e.Op = rapid.SampledFrom([]string{"?", ":?"}).Draw(t, "op")
		e.Arg = genArgWord(t, 1, false)
	case "length":
		nr := genNameRef(t)
		setName(nr)
		e.Hash = true
		switch rapid.IntRange(0, 9).Draw(t, "argc") {
		case 0:
			e.Name, e.Index, e.HasIdx = "", "", false // ${#}
		case 1:
			// the number of elements does not depend on their order
			e.Name, e.Index, e.HasIdx = "mm", rapid.SampledFrom([]string{"@", "*"}).Draw(t, "mmat"), true
		}
	case "slice":
		nr := genNameRef(t)
		if nr.name == "m" && nr.kind == "all" {
			// slicing an associative array is undefined (bash manual)
			nr = nameRef{"a", nr.index, true, "all"}
		}
		setName(nr)
		e.Op = ":"
		if e.isPositionalList() {
			// offset 0 and negative offsets beyond $# reach $0, the script
			// name, which differs between the two sides by construction.
			offs := []string{"1", "2", "3", "4", "n+1", "1+1"}
			for i := 1; i <= len(s.Params); i++ {
				offs = append(offs, strconv.Itoa(-i))
			}
			e.Arg = sliceOffset(rapid.SampledFrom(offs).Draw(t, "posoff"))
		} else {
			e.Arg = sliceOffset(genInt(t, "off"))
		}
		if rapid.Bool().Draw(t, "haslen") {
			e.HasAr2 = true
			e.Arg2 = genInt(t, "len")
		}
	case "remove":
		setName(genNameRef(t))
		e.Op = rapid.SampledFrom([]string{"#", "##", "%", "%%"}).Draw(t, "op")
		e.Arg = genPattern(t, true)
		if p, ok := derivedPattern(t, &s, e); ok {
			e.Arg = p
		}
	case "replace":
		setName(genNameRef(t))
		e.Op = rapid.SampledFrom([]string{"/", "//", "/#", "/%"}).Draw(t, "op")
		e.Arg = genPattern(t, false)
		if p, ok := derivedPattern(t, &s, e); ok {
			e.Arg = p
		}
		if e.Arg != "" && rapid.IntRange(0, 4).Draw(t, "hasrepl") > 0 {
			e.HasAr2 = true
			e.Arg2 = genArgWord(t, 1, true)
		}
	case "case":
		setName(genNameRef(t))
		e.Op = rapid.SampledFrom([]string{"^", "^^", ",", ",,"}).Draw(t, "op")
		if rapid.Bool().Draw(t, "haspat") {
			e.Arg = rapid.SampledFrom([]string{"?", "*", "a", "[ab]", "[a-z]", "[[:alpha:]]", "[!a]", "é", "A", "[A-Z]", "ab", "$g", `"a"`}).Draw(t, "cpat")
		}
	case "indirect":
		// r names another parameter
		target := rapid.SampledFrom([]string{"s", "t", "e", "u", "a", "a[1]", "a[@]", "a[*]", "b[5]", "m[k1]", "1", "2", "@", "*", "pq1", "n", ""}).Draw(t, "target")
		switch rapid.IntRange(0, 9).Draw(t, "rkind") {
		case 0:
			// r unset
		default:
			s.Vars = append(s.Vars, Var{Name: "r", Kind: "str", Str: target})
		}
		e.Bang = true
		e.Name = "r"
		switch rapid.IntRange(0, 5).Draw(t, "iop") {
		case 0:
			e.Op = rapid.SampledFrom([]string{":-", "-", ":+", "+"}).Draw(t, "op")
			e.Arg = genArgWord(t, 0, false)
		case 1:
			e.Op = rapid.SampledFrom([]string{"#", "%", "##", "%%"}).Draw(t, "op")
			e.Arg = genPattern(t, true)
		case 2:
			e.Op = ":"
			e.Arg = sliceOffset(genInt(t, "off"))
		}
	case "prefix":
		e.Bang = true
		e.Name = rapid.SampledFrom([]string{"pq", "pq1", "pqr", "pqz", "p"}).Draw(t, "prefix")
		e.Suffix = rapid.SampledFrom([]string{"*", "@"}).Draw(t, "suffix")
	case "keys":
		e.Bang = true
		e.Name = rapid.SampledFrom([]string{"a", "b", "m", "s", "u", "e", "z"}).Draw(t, "kname")
		e.HasIdx = true
		e.Index = rapid.SampledFrom([]string{"@", "*"}).Draw(t, "at")
	case "transform":
		setName(genNameRef(t))
		e.Op = "@"
		e.Arg = rapid.SampledFrom([]string{"U", "L", "u"}).Draw(t, "xop")
	case "quote":
		setName(genNameRef(t))
		e.Op = "@"
		e.Arg = "Q"
		s.Quoted = true
		s.Pre, s.Post = "", ""
	}
	s.Exp = e
	return s
}

func gen(t *rapid.T) Case {
	chunks := rapid.SliceOfN(rapid.SliceOfN(rapid.Custom(genSub), 1, 12), 1, 12).Draw(t, "subs")
	var c Case
	for _, ch := range chunks {
		c.Subs = append(c.Subs, ch...)
	}
	return c
}

// ---------------------------------------------------------------------------
// known findings: exclusion classes over the sub-case syntax

// excludedBy returns the id of the active known finding whose syntactic class
// contains the sub-case, or "".
func excludedBy(s Sub) string {
	if os.Getenv("VERIF_REPLAY") != "" {
		// a replayed case (regress/known_*.json) is always evaluated: that
		// is how a listed finding is reported while it still reproduces.
		return ""
	}
	for _, f := range findings {
		if vh.Excluded(f.id) && f.match(s) {
			return f.id
		}
	}
	return ""
}

type finding struct {
	id    string
	match func(Sub) bool
}

// ---------------------------------------------------------------------------
// check

type outcome struct {
	out    string
	status int
	note   string
}

func (o outcome) String() string {
	if o.note != "" {
		return fmt.Sprintf("status=%d stdout=%q (%s)", o.status, o.out, o.note)
	}
	return fmt.Sprintf("status=%d stdout=%q", o.status, o.out)
}

func runInterp(script, dir string) outcome {
	r := oracle.RunInterp(script, oracle.InterpOpts{Dir: dir, Timeout: 60 * time.Second})
	o := outcome{out: string(r.Stdout), status: r.Status}
	switch {
	case r.ParseErr != nil:
		o.note = "parse error: " + r.ParseErr.Error()
		o.status = -2
	case r.Panic != nil:
		o.note = fmt.Sprintf("PANIC: %v", r.Panic)
		o.status = -3
	case r.Timeout:
		o.note = "timeout"
	case r.Err != nil:
		o.note = "runner error: " + r.Err.Error()
	}
	if o.note == "" && len(r.Stderr) > 0 {
		o.note = "stderr: " + strings.TrimSpace(string(r.Stderr))
	}
	return o
}

func check(c Case) (res vh.Result) {
	dir, err := oracle.NewDir()
	if err != nil {
		return vh.Result{Skipped: true, Classes: []string{"infra:newdir"}}
	}
	defer oracle.RemoveDir(dir)

	classes := map[string]int{}
	var subs []Sub
	var scripts []string
	for _, s := range c.Subs {
		if id := excludedBy(s); id != "" {
			classes["excluded:"+id]++
			continue
		}
		if why := outOfDomain(s); why != "" {
			classes["out-of-domain:"+why]++
			continue
		}
		subs = append(subs, s)
		scripts = append(scripts, s.Script())
	}
	defer func() {
		keys := make([]string, 0, len(classes))
		for k := range classes {
			keys = append(keys, k)
		}
		sort.Strings(keys)
		for _, k := range keys {
			vh.Count("C21", k, classes[k])
		}
	}()
	if len(subs) == 0 {
		return vh.Result{Skipped: true}
	}
	bres, err := oracle.Batch(scripts, oracle.Opts{Dir: dir, Timeout: batchTimeout})
	if err != nil {
		return vh.Result{Skipped: true, Classes: []string{"infra:batch"}}
	}
	for i, s := range subs {
		b := bres[i]
		if b.Err != nil {
			classes["infra:batch-aborted"]++
			continue
		}
		want := outcome{out: string(b.Stdout), status: b.Status}
		got := runInterp(scripts[i], dir)
		classes["sub-cases"]++
		classes["fam:"+s.Exp.Fam]++
		if s.Quoted {
			classes["quoted"]++
		} else {
			classes["unquoted"]++
		}
		if want.status != 0 {
			classes["bash-status-nonzero"]++
		}
		if s.Exp.Fam != "plain" {
			res.Nontrivial = true
		}
		if got.out != want.out || got.status != want.status {
			return vh.Result{
				Nontrivial: true,
				Err: fmt.Sprintf("sub-case %d (%s, %s) differs from bash\nscript:\n%s\nbash:   %s\ninterp: %s\nbash stderr: %s",
					i, s.Exp.Fam, s.Exp.String(), scripts[i], want, got, strings.TrimSpace(string(b.Stderr))),
			}
		}
	}
	if ents, err := os.ReadDir(dir); err == nil && len(ents) > 0 {
		return vh.Fail("harness: the working directory did not stay empty (%d entries)", len(ents))
	}
	return res
}

var prop = vh.Prop[Case]{ID: "C21", Gen: gen, Check: check}

func TestC21(t *testing.T) { vh.Run(t, prop) }

// batchTimeout bounds one bash process evaluating a whole batch. It is
// generous because a loaded machine makes every fork slow; sub-cases left
// without a result are counted as infra:batch-aborted, never as a pass.
const batchTimeout = 120 * time.Second
