package c21

import (
	"regexp"
	"strconv"
	"strings"
	"unicode/utf8"
)

// ---------------------------------------------------------------------------
// syntactic helpers over a sub-case

// nestedDefaultRx finds a default-family expansion nested in a word:
// ${u:-  ${t+  ${a[1]:=  ...
var nestedDefaultRx = regexp.MustCompile(`\$\{[a-zA-Z0-9_@*]+(\[[^\]]*\])?:?[-+=?]`)

// nestedDefaultWord reports whether text (a pattern, replacement, default
// word or slice expression of the expansion under test) holds a nested
// default-family expansion whose word satisfies pred. The word is taken to
// run to the end of text: conservative, the class only grows.
func nestedDefaultWord(text string, pred func(string) bool) bool {
	for _, loc := range nestedDefaultRx.FindAllStringIndex(text, -1) {
		if pred(text[loc[1]:]) {
			return true
		}
	}
	return false
}

func wordQuotingMatters(w string) bool {
	return strings.ContainsAny(w, `'"`) || strings.Contains(w, "@") || strings.Contains(w, "$*") || strings.Contains(w, "[*]")
}

var nestedRemoveRx = regexp.MustCompile(`\$\{[a-zA-Z0-9_@*]+(\[[^\]]*\])?(#|%|\^|,)`)

var nestedSuffixRx = regexp.MustCompile(`\$\{([a-z]+)%[^%]`)

func (e Exp) isPositionalList() bool { return !e.HasIdx && (e.Name == "@" || e.Name == "*") }

// listAt: the expansion names all elements as separate fields ($@, ${a[@]}).
func (e Exp) listAt() bool {
	if e.Fam == "prefix" {
		return e.Suffix == "@"
	}
	return (!e.HasIdx && e.Name == "@") || (e.HasIdx && e.Index == "@")
}

// listStar: the expansion names all elements joined ($*, ${a[*]}).
func (e Exp) listStar() bool {
	if e.Fam == "prefix" {
		return e.Suffix == "*"
	}
	return (!e.HasIdx && e.Name == "*") || (e.HasIdx && e.Index == "*")
}

func (e Exp) isList() bool { return e.listAt() || e.listStar() }

func defaultFam(f string) bool {
	return f == "default" || f == "alt" || f == "assign" || f == "error"
}

func (s Sub) lookup(name string) (Var, bool) {
	for i := len(s.Vars) - 1; i >= 0; i-- {
		if s.Vars[i].Name == name {
			return s.Vars[i], true
		}
	}
	return Var{}, false
}

// ifsLacksSpace: IFS was changed to a value without the space character.
func (s Sub) ifsLacksSpace() bool { return s.IFS != nil && !strings.Contains(*s.IFS, " ") }

// evalInt evaluates the small arithmetic forms the generator emits for
// offsets, lengths and subscripts.
func (s Sub) evalInt(expr string) (int, bool) {
	expr = strings.TrimSpace(expr)
	if n, err := strconv.Atoi(expr); err == nil {
		return n, true
	}
	nv, _ := s.lookup("n")
	n, err := strconv.Atoi(nv.Str)
	if err != nil {
		return 0, false
	}
	sv, _ := s.lookup("s")
	ls := utf8.RuneCountInString(sv.Str)
	switch expr {
	case "n", "$n":
		return n, true
	case "n+1":
		return n + 1, true
	case "n-1":
		return n - 1, true
	case "-n":
		return -n, true
	case "1+1":
		return 2, true
	case "2*2":
		return 4, true
	case "(1)":
		return 1, true
	case "${#s}":
		return ls, true
	case "${#s}-1":
		return ls - 1, true
	}
	return 0, false
}

// scalarValue resolves the value a non-list expansion reads, when the
// sub-case determines it syntactically. set reports whether it is set.
func (s Sub) scalarValue(e Exp) (val string, set, ok bool) {
	if e.isList() {
		return "", false, false
	}
	if n, err := strconv.Atoi(e.Name); err == nil && !e.HasIdx { // positional
		if n >= 1 && n <= len(s.Params) {
			return s.Params[n-1], true, true
		}
		return "", false, true
	}
	v, found := s.lookup(e.Name)
	if !found {
		return "", false, true
	}
	switch v.Kind {
	case "str":
		if !e.HasIdx {
			return v.Str, true, true
		}
		if i, ok := s.evalInt(e.Index); ok {
			if i == 0 {
				return v.Str, true, true
			}
			return "", false, true
		}
	case "arr":
		idx := "0"
		if e.HasIdx {
			i, ok := s.evalInt(e.Index)
			if !ok {
				return "", false, false
			}
			if i < 0 {
				if len(v.Keys) == 0 {
					return "", false, false
				}
				max, _ := strconv.Atoi(v.Keys[len(v.Keys)-1])
				i += max + 1
				if i < 0 {
					return "", false, false
				}
			}
			idx = strconv.Itoa(i)
		}
		for k, key := range v.Keys {
			if key == idx {
				return v.Vals[k], true, true
			}
		}
		return "", false, true
	case "assoc":
		key := "0"
		if e.HasIdx {
			key = e.Index
			if key == "$g" {
				g, _ := s.lookup("g")
				key = g.Str
			}
		}
		for k, kk := range v.Keys {
			if kk == key {
				return v.Vals[k], true, true
			}
		}
		return "", false, true
	}
	return "", false, false
}

// negativeSubscriptOutOfRange: ${a[-k]} with k beyond the array.
func (s Sub) negativeSubscriptOutOfRange() bool {
	e := s.Exp
	if !e.HasIdx || e.isList() {
		return false
	}
	v, found := s.lookup(e.Name)
	if !found || v.Kind != "arr" {
		return false
	}
	i, ok := s.evalInt(e.Index)
	if !ok {
		return strings.Contains(e.Index, "-")
	}
	if i >= 0 {
		return false
	}
	if len(v.Keys) == 0 {
		return true
	}
	max, _ := strconv.Atoi(v.Keys[len(v.Keys)-1])
	return i+max+1 < 0
}

// ---------------------------------------------------------------------------
// known findings: one entry per root cause. Each predicate is a syntactic
// class over the sub-case; it never looks at an outcome.

var findings = []finding{
	// "x${a[@]}y" / "x$@y": a double-quoted list expansion glued to other
	// text inside the same quotes comes out as ONE field (elements joined
	// with a space); bash yields one field per element with the text glued to
	// the first and last. expand.go wordFields only treats a DblQuoted whose
	// single part is the expansion.
	{"C21-dq-list-glued", func(s Sub) bool {
		return s.Quoted && s.Exp.listAt() && s.Pre+s.Post != ""
	}},
	// ${a[@]:-w} ${a[*]:+w} "${@-w}" ${a[@]?w} ${a[*]:=w}: the default /
	// alternative / error / assign operators on list expansions. Quoted, the
	// operator is ignored (quotedElemFields handles any "${a[@]...}" as the
	// element list); unquoted, the elements are joined with a space and
	// re-split, and emptiness is judged on the joined string.
	{"C21-default-ops-on-lists", func(s Sub) bool {
		return defaultFam(s.Exp.Fam) && s.Exp.isList()
	}},
	// expand.Literal (used for the word of :- := :? :+ and for the
	// replacement of ${v/p/r}) keeps the backslash of an unquoted `\c`.
	{"C21-literal-backslash-kept", func(s Sub) bool {
		e := s.Exp
		hasBackslash := func(w string) bool { return strings.Contains(w, `\`) }
		if nestedDefaultWord(e.Arg, hasBackslash) || nestedDefaultWord(e.Arg2, hasBackslash) {
			return true
		}
		if defaultFam(e.Fam) || (e.Fam == "indirect" && e.Op != "" && !strings.ContainsAny(e.Op, "#%:")) {
			return strings.Contains(e.Arg, `\`)
		}
		if e.Fam == "replace" {
			return strings.Contains(e.Arg2, `\`)
		}
		return false
	}},
	// The word of :- := :? :+ is expanded to a plain string, so the quoting
	// inside it is lost: unquoted ${u:-"a b"} is split into two fields and
	// '*' globs; inside double quotes "${u:-'a b'}" drops the single quotes
	// that bash keeps literally.
	{"C21-default-word-quoting-lost", func(s Sub) bool {
		e := s.Exp
		// the same defect reached through nesting: a default-family
		// expansion inside any word of the expansion (replacement string,
		// pattern, slice expression), e.g. ${v/x/"${u:-'q r'}"}
		if nestedDefaultWord(e.Arg, wordQuotingMatters) || nestedDefaultWord(e.Arg2, wordQuotingMatters) {
			return true
		}
		if !(defaultFam(e.Fam) || (e.Fam == "indirect" && e.Op != "" && !strings.ContainsAny(e.Op, "#%:"))) {
			return false
		}
		// a list expansion inside the word ("${u:-${a[@]}}") keeps its
		// one-field-per-element nature in bash; flattened here as well.
		return wordQuotingMatters(e.Arg)
	}},
	// ${v#"?"} ${v%'*'} ${v^^"$g"}: the pattern of # ## % %% ^ ^^ , ,, is
	// expanded with expand.Literal, so quoted pattern characters stay active.
	{"C21-pattern-quoting-lost", func(s Sub) bool {
		e := s.Exp
		// nested: ${u:-${t%"?"}} - a # % ^ , operator inside a word whose
		// remaining text holds a quote
		for _, w := range []string{e.Arg, e.Arg2} {
			for _, loc := range nestedRemoveRx.FindAllStringIndex(w, -1) {
				if strings.ContainsAny(w[loc[1]:], `'"`) {
					return true
				}
			}
		}
		if e.Fam == "remove" || e.Fam == "case" {
			return strings.ContainsAny(e.Arg, `'"`)
		}
		return false
	}},
	// ${v//['[a]'x]/} : a quoted [ or ] inside a bracket expression of a
	// replacement pattern. expand.Pattern escapes it (\[a\]) and
	// pattern.Regexp then rejects the bracket expression, so nothing matches
	// (root cause in package pattern, C17/C18's domain).
	{"C21-quoted-bracket-in-bracket", func(s Sub) bool {
		e := s.Exp
		if e.Fam != "replace" {
			return false
		}
		for _, q := range []string{`'[`, `"[`, `]'`, `]"`} {
			if i := strings.Index(e.Arg, q); i > 0 && strings.Contains(e.Arg[:i], "[") {
				return true
			}
		}
		return false
	}},
	// ${v/#p/r} ${v/%p/r}: the anchored forms are not implemented at all (the
	// '#' / '%' is taken for a literal pattern character), so nothing is
	// ever replaced. This class is the whole anchored sub-family.
	{"C21-anchored-replace", func(s Sub) bool {
		return s.Exp.Fam == "replace" && (s.Exp.Op == "/#" || s.Exp.Op == "/%")
	}},
	// ${!r<op>...}: with indirection every further operator is ignored.
	{"C21-indirect-op-ignored", func(s Sub) bool {
		return s.Exp.Fam == "indirect" && s.Exp.Op != ""
	}},
	// ${!r} where r holds a subscripted name (a[1], a[@]) or @ / *.
	{"C21-indirect-array-target", func(s Sub) bool {
		if s.Exp.Fam != "indirect" {
			return false
		}
		r, found := s.lookup("r")
		return found && (strings.Contains(r.Str, "[") || r.Str == "@" || r.Str == "*")
	}},
	// ${!s[@]} on a scalar is 0 in bash (empty here); ${!u[@]} on an unset
	// name is empty in bash (fatal "invalid indirect expansion" here).
	{"C21-keys-of-non-array", func(s Sub) bool {
		if s.Exp.Fam != "keys" {
			return false
		}
		v, found := s.lookup(s.Exp.Name)
		return !found || v.Kind == "str"
	}},
	// ${a[@]@U} "${a[*]@Q}" ${@@L}: the @ transformations are applied to the
	// joined string, not element by element.
	{"C21-transform-on-lists", func(s Sub) bool {
		return (s.Exp.Fam == "transform" || s.Exp.Fam == "quote") && s.Exp.isList()
	}},
	// Unquoted ${a[@]#p} ${*^^} ${!a[@]} ${!pq@} ...: a list expansion with
	// an operator is joined with a space and split again with IFS, which
	// differs from bash as soon as IFS does not contain a space.
	{"C21-unquoted-list-op-rejoined", func(s Sub) bool {
		e := s.Exp
		if s.Quoted || !e.isList() || !s.ifsLacksSpace() {
			return false
		}
		return e.Fam != "plain" && e.Fam != "slice" && e.Fam != "length"
	}},
	// ${#m[@]} of an associative array is 1 (0 when empty).
	{"C21-assoc-count", func(s Sub) bool {
		if s.Exp.Fam != "length" || !s.Exp.isList() {
			return false
		}
		v, found := s.lookup(s.Exp.Name)
		return found && v.Kind == "assoc" && len(v.Keys) != 1
	}},
	// [[:upper:]] [[:alpha:]] ... only match ASCII (Go regexp classes); bash in
	// a UTF-8 locale matches É. Root cause in package pattern (C17's domain).
	{"C21-posix-class-ascii-only", func(s Sub) bool {
		e := s.Exp
		if !strings.Contains(e.Arg, "[[:") {
			return false
		}
		switch e.Fam {
		case "remove", "replace", "case":
			return s.anyValue(e, hasNonASCII)
		case "indirect":
			return true
		}
		return false
	}},
	// ${v%p} (shortest suffix) on a value containing a newline: the regexp
	// ".*(p)$" lacks the (?s) flag.
	{"C21-suffix-newline", func(s Sub) bool {
		e := s.Exp
		// the same operator nested in a word argument: ${u:-${t%?}}
		for _, m := range nestedSuffixRx.FindAllStringSubmatch(e.Arg+" "+e.Arg2, -1) {
			if v, found := s.lookup(m[1]); found && strings.Contains(v.Str, "\n") {
				return true
			}
		}
		if e.Fam == "indirect" && e.Op == "%" {
			return true // target resolved at run time
		}
		if e.Fam != "remove" || e.Op != "%" {
			return false
		}
		return s.anyValueHas(e, "\n")
	}},
	// ${v:o:l} with a negative length that ends before the offset, and any
	// negative length on a list: bash reports "substring expression < 0".
	{"C21-slice-negative-length", func(s Sub) bool {
		e := s.Exp
		if e.Fam != "slice" || !e.HasAr2 {
			return false
		}
		l, ok := s.evalInt(e.Arg2)
		if !ok {
			return strings.Contains(e.Arg2, "-")
		}
		if l >= 0 {
			return false
		}
		if e.isList() {
			return true
		}
		val, _, ok := s.scalarValue(e)
		off, ok2 := s.evalInt(e.Arg)
		if !ok || !ok2 {
			return true
		}
		n := utf8.RuneCountInString(val)
		if off < 0 {
			off += n
			if off < 0 {
				return true // bash: offset out of range yields nothing
			}
		}
		if off > n {
			return true
		}
		return n+l < off
	}},
	// Conditions bash reports as expansion errors and interp does not (or
	// reports differently): assignment to a positional parameter, indirection
	// through an empty name, a negative subscript beyond the array.
	{"C21-error-cases", func(s Sub) bool {
		e := s.Exp
		if e.Fam == "assign" {
			if _, err := strconv.Atoi(e.Name); err == nil {
				return true
			}
		}
		if e.Fam == "indirect" {
			if r, found := s.lookup("r"); found && r.Str == "" {
				return true
			}
		}
		if e.HasIdx && e.Index == "$g" {
			// an empty associative subscript is "bad array subscript"
			if g, found := s.lookup("g"); found && g.Str == "" {
				return true
			}
		}
		return s.negativeSubscriptOutOfRange()
	}},
	// ${u//*/X} with u unset (or a missing array element): bash yields
	// nothing, here the pattern matches the empty string and X is inserted.
	{"C21-replace-on-unset", func(s Sub) bool {
		e := s.Exp
		// any pattern: a "*" can also come out of $g
		if e.Fam != "replace" || e.isList() {
			return false
		}
		_, set, ok := s.scalarValue(e)
		return !ok || !set
	}},
}

// anyValueHas reports whether a value read by the expansion contains sub.
func (s Sub) anyValueHas(e Exp, sub string) bool {
	return s.anyValue(e, func(v string) bool { return strings.Contains(v, sub) })
}

func hasNonASCII(v string) bool {
	for i := 0; i < len(v); i++ {
		if v[i] >= utf8.RuneSelf {
			return true
		}
	}
	return false
}

// anyValue reports whether pred holds for a value read by the expansion.
func (s Sub) anyValue(e Exp, pred func(string) bool) bool {
	if e.isPositionalList() {
		for _, p := range s.Params {
			if pred(p) {
				return true
			}
		}
		return false
	}
	if val, _, ok := s.scalarValue(e); ok {
		return pred(val)
	}
	v, found := s.lookup(e.Name)
	if !found {
		return false
	}
	if pred(v.Str) {
		return true
	}
	for _, x := range v.Vals {
		if pred(x) {
			return true
		}
	}
	return false
}

// outOfDomain reports sub-cases outside what the property covers or what the
// two sides can be made to agree on by construction. The generator does not
// produce them; hand-written replay files could.
func outOfDomain(s Sub) string {
	e := s.Exp
	if e.Fam == "slice" && e.isList() {
		if v, found := s.lookup(e.Name); found && v.Kind == "assoc" {
			// bash manual: "Substring expansion applied to an associative
			// array produces undefined results."
			return "slice-of-associative-array"
		}
	}
	if !s.Quoted && e.isList() && s.IFS != nil && *s.IFS == "," {
		// an empty element of an unquoted list becomes an empty field when
		// the first IFS character is not whitespace: C22's domain (finding
		// C22-ifs-nonws-empty-fields), kept out of C21.
		elems := s.Params
		if !e.isPositionalList() {
			v, _ := s.lookup(e.Name)
			elems = v.Vals
		}
		for _, x := range elems {
			if x == "" {
				return "nonws-ifs-empty-element"
			}
		}
	}
	if e.Fam == "replace" && (strings.Contains(e.Arg2, "@") || strings.Contains(e.Arg2, "[*]") || strings.Contains(e.Arg2, "$*")) {
		// bash 5.2.15 leaks \x7f for an empty element of "${a[@]}" inside a
		// replacement string
		return "list-in-replacement"
	}
	if e.Fam == "replace" && e.Arg == "" && e.HasAr2 {
		// ${v///} cannot express an empty pattern: bash reads it as
		// "replace every /".
		return "replace-empty-pattern"
	}
	if e.Fam == "slice" && e.isPositionalList() {
		// ${@:0} and negative offsets reaching $0 expose the script name,
		// which differs between the two sides by construction.
		off, ok := s.evalInt(e.Arg)
		if !ok || off == 0 || (off < 0 && -off > len(s.Params)) {
			return "slice-reaches-$0"
		}
	}
	return ""
}
