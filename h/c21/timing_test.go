package c21

import (
	"fmt"
	"os"
	"testing"
	"time"

	"pgregory.net/rapid"

	"verifh/oracle"
)

func TestC21Timing(t *testing.T) {
	if os.Getenv("C21_TIMING") == "" {
		t.Skip()
	}
	g := rapid.Custom(genSub)
	t0 := time.Now()
	var subs []Sub
	for i := 0; i < 64; i++ {
		subs = append(subs, g.Example(i))
	}
	fmt.Println("gen 64:", time.Since(t0))
	var scripts []string
	for _, s := range subs {
		scripts = append(scripts, s.Script())
	}
	dir, _ := oracle.NewDir()
	defer oracle.RemoveDir(dir)
	t0 = time.Now()
	oracle.Batch(scripts, oracle.Opts{Dir: dir})
	fmt.Println("batch 64:", time.Since(t0))
	t0 = time.Now()
	for _, s := range scripts {
		runInterp(s, dir)
	}
	fmt.Println("interp 64:", time.Since(t0))
}
