package c21

import (
	"fmt"
	"os"
	"regexp"
	"sort"
	"strconv"
	"strings"
	"testing"

	"pgregory.net/rapid"

	"verifh/oracle"
)

// TestC21Survey is a development aid (not a stage): it evaluates
// C21_SURVEY generated sub-cases and prints every disagreement grouped by a
// syntactic signature, so that failures can be triaged by root cause instead
// of one rapid failure at a time. Skipped unless C21_SURVEY is set.
func TestC21Survey(t *testing.T) {
	n, _ := strconv.Atoi(os.Getenv("C21_SURVEY"))
	if n <= 0 {
		t.Skip("C21_SURVEY not set")
	}
	seed0, _ := strconv.Atoi(os.Getenv("C21_SURVEY_SEED"))
	only := os.Getenv("C21_SURVEY_FAM")
	maxEx := 2
	if v, err := strconv.Atoi(os.Getenv("C21_SURVEY_EX")); err == nil {
		maxEx = v
	}
	g := rapid.Custom(genSub)
	type grp struct {
		n  int
		ex []string
	}
	groups := map[string]*grp{}
	total, excluded, bad := 0, 0, 0
	dir, err := oracle.NewDir()
	if err != nil {
		t.Fatal(err)
	}
	defer oracle.RemoveDir(dir)
	for done := 0; done < n; {
		var subs []Sub
		var scripts []string
		for len(subs) < 64 && done < n {
			s := g.Example(seed0*1000003 + done)
			done++
			if only != "" && s.Exp.Fam != only {
				continue
			}
			if excludedBy(s) != "" || outOfDomain(s) != "" {
				excluded++
				continue
			}
			subs = append(subs, s)
			scripts = append(scripts, s.Script())
		}
		if len(subs) == 0 {
			continue
		}
		bres, err := oracle.Batch(scripts, oracle.Opts{Dir: dir, Timeout: batchTimeout})
		if err != nil {
			t.Fatal(err)
		}
		for i, s := range subs {
			total++
			b := bres[i]
			if b.Err != nil {
				continue
			}
			want := outcome{out: string(b.Stdout), status: b.Status}
			got := runInterp(scripts[i], dir)
			if got.out == want.out && got.status == want.status {
				continue
			}
			bad++
			q := "unq"
			if s.Quoted {
				q = "quo"
			}
			nk := s.Exp.Name
			if s.Exp.HasIdx {
				ix := s.Exp.Index
				if ix != "@" && ix != "*" {
					ix = "i"
				}
				nk += "[" + ix + "]"
			}
			sig := fmt.Sprintf("%-9s op=%-3s %-6s %s", s.Exp.Fam, s.Exp.Op, nk, q)
			if os.Getenv("C21_SURVEY_COARSE") != "" {
				sig = fmt.Sprintf("%-9s op=%-3s %s", s.Exp.Fam, s.Exp.Op, q)
			}
			gr := groups[sig]
			if gr == nil {
				gr = &grp{}
				groups[sig] = gr
			}
			gr.n++
			if len(gr.ex) < maxEx {
				gr.ex = append(gr.ex, fmt.Sprintf("    %s\n    bash:   %s\n    interp: %s\n    bash stderr: %s", strings.ReplaceAll(minimalScript(s), "\n", "\n    "), want, got, strings.TrimSpace(string(b.Stderr))))
			}
		}
	}
	keys := make([]string, 0, len(groups))
	for k := range groups {
		keys = append(keys, k)
	}
	sort.Strings(keys)
	for _, k := range keys {
		fmt.Printf("== %s : %d\n", k, groups[k].n)
		for _, e := range groups[k].ex {
			fmt.Println(e)
		}
	}
	fmt.Printf("survey: %d evaluated, %d excluded, %d disagree, %d groups\n", total, excluded, bad, len(groups))
}

// minimalScript renders the sub-case keeping only the variables its word
// mentions (for reading; the check always runs the full script).
func minimalScript(s Sub) string {
	word := s.Pre + s.Exp.String() + s.Post
	used := map[string]bool{}
	var mark func(text string)
	mark = func(text string) {
		for _, v := range s.Vars {
			if used[v.Name] {
				continue
			}
			if nameRx2(v.Name).MatchString(text) {
				used[v.Name] = true
				if v.Kind == "str" {
					mark(v.Str) // indirection targets
				}
			}
		}
	}
	mark(word)
	if s.Exp.Fam == "prefix" {
		for _, v := range s.Vars {
			if strings.HasPrefix(v.Name, "p") {
				used[v.Name] = true
			}
		}
	}
	t := s
	t.Vars = nil
	for _, v := range s.Vars {
		if used[v.Name] {
			t.Vars = append(t.Vars, v)
		}
	}
	return strings.TrimRight(t.Script(), "\n")
}

func nameRx2(name string) *regexp.Regexp {
	return regexp.MustCompile(`(^|[^a-zA-Z0-9_])` + regexp.QuoteMeta(name) + `([^a-zA-Z0-9_]|$)`)
}
