// Package globref is an independent reference implementation of shell pattern
// matching ("globbing"), written from bash's documented rules (bash(1),
// "Pattern Matching"; POSIX XCU 2.13) and, for the corners the manual leaves
// open, from the observable behaviour of bash 5.2's matcher. It does NOT
// translate patterns into regular expressions: a pattern is parsed into a
// small tree and matched by plain backtracking over the runes of the subject.
//
// The option bits mirror mvdan.cc/sh/v3/pattern.Mode (same numeric values, see
// the Mode docs there); the meaning given to each bit is the one documented on
// that type:
//
//	Shortest           only changes WHICH match a search prefers, never whether
//	                   a string matches (see Find).
//	Filenames          "*", "?" and bracket expressions never match "/"; a
//	                   bracket expression that contains "/" is not a bracket
//	                   expression at all (POSIX 2.13.3); wildcards do not match
//	                   a "." at the start of a path component unless
//	                   GlobLeadingDot; "**" alone in a path component matches
//	                   across components unless NoGlobStar.
//	EntireString       the caller anchors: Match is always an entire-string
//	                   match, Contains/Find model the unanchored search.
//	NoGlobCase         letters compare case-insensitively.
//	NoGlobStar         "**" is just two "*".
//	GlobLeadingDot     wildcards may match a leading ".".
//	ExtendedOperators  ?(l) *(l) +(l) @(l) !(l) with l = p1|p2|...
//
// Patterns are classified three ways:
//
//   - well formed: Malformed == "" and Unspecified == "": Match is
//     authoritative (and is cross-checked against bash by the C17 harness);
//   - malformed (Malformed != ""): POSIX calls the construct invalid or
//     undefined, or the pattern package documents it as unsupported; a
//     translator may reject the pattern;
//   - unspecified (Unspecified != ""): bash has a behaviour, but it is an
//     artefact of its implementation that no document promises; the harness
//     does not judge these.
package globref

import (
	"strings"
	"unicode"
	"unicode/utf8"
)

// Mode is a set of option bits with the same values as pattern.Mode.
type Mode uint

const (
	Shortest Mode = 1 << iota
	Filenames
	EntireString
	NoGlobCase
	NoGlobStar
	GlobLeadingDot
	ExtendedOperators
)

type kind uint8

const (
	kLit           kind = iota // one literal rune
	kAny                       // ?
	kStar                      // *
	kGlobStar                  // ** alone in a path component, at the end of the pattern
	kGlobStarSlash             // **/
	kSet                       // bracket expression
	kGroup                     // extended operator
)

// Node is one element of a parsed pattern.
type Node struct {
	Kind kind
	R    rune     // kLit
	Set  *Set     // kSet
	Op   byte     // kGroup: one of ? * + @ !
	Alts [][]Node // kGroup
	// Pos and End are the byte offsets of the element in the pattern text.
	Pos, End int
}

// Dash describes one unescaped "-" found inside a closed bracket expression
// (outside [:class:] names), whatever its role.
type Dash struct {
	Prev, Next rune // the runes of the pattern text just before and after the "-"
	RangeOp    bool // the "-" is a range operator (lo-hi); otherwise it stands for itself (possibly as a range end point)
	EndEscaped bool // RangeOp and the end point is written with a backslash
}

type item struct {
	lo, hi rune   // a single character has lo == hi
	class  string // POSIX class name; lo, hi unused
}

// Set is a parsed bracket expression.
type Set struct {
	Neg    bool
	items  []item
	Dashes []Dash
}

// Pattern is a parsed pattern.
type Pattern struct {
	Text  string
	Mode  Mode
	Nodes []Node
	// Malformed is non-empty when the pattern is invalid, undefined by POSIX
	// or documented as unsupported; the reason is for humans.
	Malformed string
	// Unspecified is non-empty when bash's behaviour for the pattern is an
	// implementation artefact.
	Unspecified string
	// NegGroups are the byte ranges [start,end) of every !(...) group.
	NegGroups [][2]int
}

var classNames = map[string]func(rune) bool{
	// POSIX character classes (bash(1) lists exactly these 14 names). They are
	// evaluated over ASCII only: membership of other characters depends on
	// the locale and the harness never asks.
	"alnum":  func(r rune) bool { return isAlpha(r) || isDigit(r) },
	"alpha":  isAlpha,
	"ascii":  func(r rune) bool { return r < 0x80 },
	"blank":  func(r rune) bool { return r == ' ' || r == '\t' },
	"cntrl":  func(r rune) bool { return r < 0x20 || r == 0x7f },
	"digit":  isDigit,
	"graph":  func(r rune) bool { return r > 0x20 && r < 0x7f },
	"lower":  func(r rune) bool { return r >= 'a' && r <= 'z' },
	"print":  func(r rune) bool { return r >= 0x20 && r < 0x7f },
	"punct":  func(r rune) bool { return r > 0x20 && r < 0x7f && !isAlpha(r) && !isDigit(r) },
	"space":  func(r rune) bool { return r == ' ' || (r >= '\t' && r <= '\r') },
	"upper":  func(r rune) bool { return r >= 'A' && r <= 'Z' },
	"word":   func(r rune) bool { return isAlpha(r) || isDigit(r) || r == '_' },
	"xdigit": func(r rune) bool { return isDigit(r) || (r >= 'a' && r <= 'f') || (r >= 'A' && r <= 'F') },
}

func isAlpha(r rune) bool { return (r >= 'a' && r <= 'z') || (r >= 'A' && r <= 'Z') }
func isDigit(r rune) bool { return r >= '0' && r <= '9' }

type parser struct {
	s    string
	mode Mode
	p    *Pattern
}

func (ps *parser) malformed(why string) {
	if ps.p.Malformed == "" {
		ps.p.Malformed = why
	}
}

func (ps *parser) unspecified(why string) {
	if ps.p.Unspecified == "" {
		ps.p.Unspecified = why
	}
}

// Parse parses pat under mode. It never fails: see Pattern.Malformed.
func Parse(pat string, mode Mode) *Pattern {
	p := &Pattern{Text: pat, Mode: mode}
	ps := &parser{s: pat, mode: mode, p: p}
	if !utf8.ValidString(pat) || strings.ContainsRune(pat, 0) {
		// Shell strings hold no NUL; invalid UTF-8 has no defined character
		// boundaries in a UTF-8 locale.
		ps.unspecified("pattern is not NUL-free valid UTF-8")
		return p
	}
	p.Nodes = ps.seq(0, len(pat), true)
	if p.Malformed == "" && mode&Filenames != 0 {
		slash := false
		p.Walk(func(n *Node, depth int) {
			if depth > 0 && n.Kind == kLit && n.R == '/' {
				slash = true
			}
		})
		if slash {
			// Pathname expansion splits the pattern into components at "/"
			// first; what a "/" inside a pattern list then means (bash: the
			// list can no longer match any file name) is not documented.
			ps.unspecified("Filenames: '/' inside a pattern list")
		}
	}
	if p.Malformed == "" && starBeforeEmptyGroup(p.Nodes) {
		// bash 5.2 never tries the empty remainder for the text after a "*"
		// unless that text starts with "?(" or "*(": `*@()` does not match
		// "a", `*@(|a)` does not match "b", although `*@()x` matches "ax".
		// That contradicts the documented meaning of both operators, so
		// neither side is judged.
		ps.unspecified("'*' followed only by pattern lists that may match the empty string")
	}
	return p
}

// canBeEmpty reports whether the sequence can match the empty string.
func canBeEmpty(nodes []Node) bool {
	for i := range nodes {
		n := &nodes[i]
		switch n.Kind {
		case kStar, kGlobStar, kGlobStarSlash:
		case kGroup:
			anyEmpty := false
			for _, a := range n.Alts {
				if canBeEmpty(a) {
					anyEmpty = true
				}
			}
			switch n.Op {
			case '?', '*':
			case '@', '+':
				if !anyEmpty {
					return false
				}
			case '!':
				if anyEmpty {
					return false
				}
			}
		default:
			return false
		}
	}
	return true
}

func starBeforeEmptyGroup(nodes []Node) bool {
	for i := range nodes {
		n := &nodes[i]
		if n.Kind == kGroup {
			for _, a := range n.Alts {
				if starBeforeEmptyGroup(a) {
					return true
				}
			}
		}
		if n.Kind != kStar || i+1 == len(nodes) {
			continue
		}
		// bash folds the "*" and "?" that follow into the same step
		j := i + 1
		for j < len(nodes) && (nodes[j].Kind == kStar || nodes[j].Kind == kAny) {
			j++
		}
		rest := nodes[j:]
		if len(rest) == 0 || !canBeEmpty(rest) {
			continue
		}
		for j := range rest {
			if rest[j].Kind == kGroup && (rest[j].Op == '@' || rest[j].Op == '+' || rest[j].Op == '!') {
				return true
			}
		}
	}
	return false
}

func (ps *parser) runeAt(i int) (rune, int) {
	if i >= len(ps.s) {
		return -1, 0
	}
	return utf8.DecodeRuneInString(ps.s[i:])
}

func (ps *parser) prevRune(i int) rune {
	if i <= 0 {
		return -1
	}
	r, _ := utf8.DecodeLastRuneInString(ps.s[:i])
	return r
}

// seq parses s[i:end] as a sequence of pattern elements. top is true for the
// pattern itself and false for one alternative of an extended operator.
func (ps *parser) seq(i, end int, top bool) []Node {
	var nodes []Node
	for i < end && ps.p.Malformed == "" {
		c, w := utf8.DecodeRuneInString(ps.s[i:])
		// Rule (extglob): with ExtendedOperators, one of ? * + @ ! directly
		// followed by "(" starts a pattern list that runs to the matching
		// ")". This is tested before the character's ordinary meaning.
		if ps.mode&ExtendedOperators != 0 && strings.ContainsRune("?*+@!", c) && i+1 < end && ps.s[i+1] == '(' {
			closeAt := patscan(ps.s, i+2, len(ps.s), 0)
			if closeAt < 0 || closeAt > end {
				// Rule: a pattern list needs its closing parenthesis. bash
				// looks for it with a scanner that counts every "(" and
				// skips bracket expressions and escapes; when that scanner
				// finds none, bash's behaviour is erratic (the rest of the
				// pattern is compared as a plain string). The pattern is
				// malformed.
				ps.malformed("extended operator without a matching closing parenthesis")
				return nodes
			}
			n := Node{Kind: kGroup, Op: byte(c), Pos: i, End: closeAt}
			// Rule: the list is split at every "|" that is not inside a
			// bracket expression, not escaped, and not inside nested
			// parentheses. An empty alternative matches the empty string.
			sub := i + 2
			inner := closeAt - 1
			for _, bar := range topBars(ps.s, sub, inner) {
				n.Alts = append(n.Alts, ps.seq(sub, bar, false))
				sub = bar + 1
			}
			n.Alts = append(n.Alts, ps.seq(sub, inner, false))
			if c == '!' {
				ps.p.NegGroups = append(ps.p.NegGroups, [2]int{i, closeAt})
			}
			nodes = append(nodes, n)
			i = closeAt
			continue
		}
		switch c {
		case '\\':
			// Rule: a backslash makes the next character stand for itself.
			// A backslash that is the last character of the pattern escapes
			// nothing: POSIX leaves that undefined.
			if i+w >= len(ps.s) {
				ps.malformed("backslash at the end of the pattern")
				return nodes
			}
			if i+w >= end {
				// "\" right before the ")" or "|" that ends this alternative
				// cannot happen: the scanner treats that character as
				// escaped, so the alternative would have been longer.
				ps.malformed("backslash at the end of a pattern list alternative")
				return nodes
			}
			r, rw := utf8.DecodeRuneInString(ps.s[i+w:])
			nodes = append(nodes, Node{Kind: kLit, R: r, Pos: i, End: i + w + rw})
			i += w + rw
		case '*':
			// Rule (Filenames, globstar): "**" is special only when it is a
			// whole path component: preceded by the start of the pattern or a
			// "/", and followed by the end of the pattern or a "/". "**/"
			// matches zero or more whole directories; a final "**" matches
			// anything below. Elsewhere, or with NoGlobStar, each "*" is an
			// ordinary "*".
			if top && ps.mode&Filenames != 0 && ps.mode&NoGlobStar == 0 &&
				i+1 < end && ps.s[i+1] == '*' &&
				(i == 0 || ps.prevRune(i) == '/') &&
				(i+2 == end || ps.s[i+2] == '/') {
				if i+2 == end {
					nodes = append(nodes, Node{Kind: kGlobStar, Pos: i, End: i + 2})
					i += 2
				} else {
					nodes = append(nodes, Node{Kind: kGlobStarSlash, Pos: i, End: i + 3})
					i += 3
				}
				continue
			}
			nodes = append(nodes, Node{Kind: kStar, Pos: i, End: i + 1})
			i++
		case '?':
			nodes = append(nodes, Node{Kind: kAny, Pos: i, End: i + 1})
			i++
		case '[':
			set, next, ok := ps.bracket(i, end)
			if ps.p.Malformed != "" {
				return nodes
			}
			if !ok {
				// Rule: a "[" that does not start a bracket expression (no
				// closing "]", or, in Filenames mode, a "/" before it) is an
				// ordinary character; the text after it is parsed afresh.
				nodes = append(nodes, Node{Kind: kLit, R: '[', Pos: i, End: i + 1})
				i++
				continue
			}
			nodes = append(nodes, Node{Kind: kSet, Set: set, Pos: i, End: next})
			i = next
		default:
			nodes = append(nodes, Node{Kind: kLit, R: c, Pos: i, End: i + w})
			i += w
		}
	}
	return nodes
}

// UnclosedGroup reports whether the pattern text has an unescaped extended
// operator ("?(", "*(", "+(", "@(", "!(") for which bash's scanner finds no
// closing parenthesis. It looks at the text only (an operator inside a bracket
// expression is counted too), so it can be used when the parse stopped early.
func UnclosedGroup(pat string) bool {
	for i := 0; i+1 < len(pat); i++ {
		if strings.IndexByte("?*+@!", pat[i]) >= 0 && pat[i+1] == '(' && backslashesBefore(pat, i)%2 == 0 {
			if patscan(pat, i+2, len(pat), 0) < 0 {
				return true
			}
		}
	}
	return false
}

// topBars returns the indexes of the "|" characters that separate the
// alternatives of the pattern list s[i:end], using the same rules as patscan.
func topBars(s string, i, end int) []int {
	var bars []int
	for i < end {
		n := patscan(s, i, end, '|')
		if n < 0 || n >= end+1 || n-1 < i || s[n-1] != '|' || n-1 >= end {
			break
		}
		// patscan stops after a top-level "|" or a top-level ")"; inside a
		// balanced list no top-level ")" exists, but make sure.
		bars = append(bars, n-1)
		i = n
	}
	return bars
}

// patscan mirrors the scanner bash uses to find the end of a pattern list. It
// scans s[i:end] and returns the index just after the first top-level ")" (or
// top-level "|" when delim is '|'), or end when the text runs out first in a
// sub-scan (end < len(s)), or -1 when the whole pattern runs out.
//
// Rules it encodes: a backslash skips the next character; "[" opens a bracket
// expression in which "(", ")" and "|" are ordinary; a "]" directly after the
// "[" (or after "[!" / "[^") does not close it, nor does the "]" that ends a
// [:class:], [.sym.] or [=eq=]; every "(" outside brackets must be balanced by
// a ")" before the list's own ")" is seen.
func patscan(s string, i, end int, delim byte) int {
	pnest, bnest := 0, 0
	var cchar byte
	bfirst := -1
	skip := false
	for ; i < len(s); i++ {
		if i >= end {
			return i
		}
		if skip {
			skip = false
			continue
		}
		switch c := s[i]; c {
		case '\\':
			skip = true
		case '[':
			if bnest == 0 {
				bfirst = i + 1
				if bfirst < len(s) && (s[bfirst] == '!' || s[bfirst] == '^') {
					bfirst++
				}
				bnest++
			} else if i+1 < len(s) && (s[i+1] == ':' || s[i+1] == '.' || s[i+1] == '=') {
				cchar = s[i+1]
			}
		case ']':
			if bnest > 0 {
				if cchar != 0 && s[i-1] == cchar {
					cchar = 0
				} else if i != bfirst {
					bnest--
					bfirst = -1
				}
			}
		case '(':
			if bnest == 0 {
				pnest++
			}
		case ')':
			if bnest == 0 {
				if pnest <= 0 {
					return i + 1
				}
				pnest--
			}
		case '|':
			if bnest == 0 && pnest == 0 && delim == '|' {
				return i + 1
			}
		}
	}
	if end < len(s) {
		return end
	}
	return -1
}

// bracket parses the bracket expression whose "[" is at s[i]. ok is false when
// the "[" is an ordinary character.
func (ps *parser) bracket(i, end int) (set *Set, next int, ok bool) {
	s := ps.s
	// The search for the closing "]" is not limited to the current pattern
	// list alternative: patscan already guaranteed that brackets opened inside
	// an alternative close inside it.
	j := i + 1
	set = &Set{}
	// Rule: "!" or "^" right after "[" complements the set.
	if j < len(s) && (s[j] == '!' || s[j] == '^') {
		set.Neg = true
		j++
	}
	first := true
	hasSlash := false
	metaInside := false // the text inside would not be plain literals if the "[" were ordinary
	for {
		if j >= len(s) {
			// No closing "]": the "[" is an ordinary character.
			if n := len(s); n > i+1 && s[n-1] == '-' && backslashesBefore(s, n-1)%2 == 0 {
				// bash refuses to match anything when the pattern ends in an
				// open bracket with a dangling "x-"; nobody documents that.
				ps.unspecified("unterminated bracket expression ending in '-'")
			}
			return nil, 0, false
		}
		c, w := utf8.DecodeRuneInString(s[j:])
		// Rule: "]" closes the expression unless it is the first character
		// (after the optional "!" / "^"), where it stands for itself.
		if c == ']' && !first {
			j += w
			break
		}
		first = false
		var lo rune
		switch {
		case c == '[' && j+1 < len(s) && (s[j+1] == '.' || s[j+1] == '='):
			// Rule: [.sym.] and [=c=] are collating elements; the pattern
			// package documents them as unsupported ("collating features not
			// available"), closed or not.
			ps.malformed("collating symbol or equivalence class")
			return nil, 0, false
		case c == '[' && j+1 < len(s) && s[j+1] == ':':
			// Rule: [:name:] inside a bracket expression is a character
			// class; name must be one of the 14 POSIX/bash names, and the
			// ":]" must be there. POSIX: anything else is invalid.
			closeAt := strings.Index(s[j+2:], ":]")
			if closeAt < 0 {
				ps.malformed("[: without a closing :]")
				return nil, 0, false
			}
			name := s[j+2 : j+2+closeAt]
			if _, known := classNames[name]; !known {
				ps.malformed("unknown character class name")
				return nil, 0, false
			}
			if strings.Contains(name, "/") {
				hasSlash = true
			}
			metaInside = true
			set.items = append(set.items, item{class: name})
			j += 2 + closeAt + 2
			continue
		case c == '\\':
			// Rule: inside a bracket expression a backslash also quotes the
			// next character (bash; POSIX leaves it to the shell).
			if j+w >= len(s) {
				ps.malformed("backslash at the end of the pattern")
				return nil, 0, false
			}
			metaInside = true
			lo, w = utf8.DecodeRuneInString(s[j+1:])
			w++
		default:
			lo = c
			if c == '*' || c == '?' || c == '[' {
				metaInside = true
			}
			if ps.mode&ExtendedOperators != 0 && strings.ContainsRune("+@!()|", c) {
				metaInside = true
			}
		}
		if lo == '/' {
			hasSlash = true
		}
		if c == '-' {
			// an unescaped "-" standing for itself (first, last, after a
			// range or class, or as the start point of a range)
			nextR, _ := utf8.DecodeRuneInString(s[j+1:])
			set.Dashes = append(set.Dashes, Dash{Prev: ps.prevRune(j), Next: nextR})
		}
		j += w
		// Rule: "lo-hi" is a range when the "-" is followed by something
		// other than the closing "]"; "-" first or last stands for itself.
		if j+1 < len(s) && s[j] == '-' && s[j+1] != ']' {
			prev := ps.prevRune(j)
			nextR, _ := utf8.DecodeRuneInString(s[j+1:])
			d := Dash{Prev: prev, Next: nextR, RangeOp: true}
			k := j + 1
			hi, hw := utf8.DecodeRuneInString(s[k:])
			if hi == '\\' {
				if k+1 >= len(s) {
					ps.malformed("backslash at the end of the pattern")
					return nil, 0, false
				}
				d.EndEscaped = true
				metaInside = true
				hi, hw = utf8.DecodeRuneInString(s[k+1:])
				hw++
			} else if hi == '[' && k+1 < len(s) && (s[k+1] == ':' || s[k+1] == '.' || s[k+1] == '=') {
				// POSIX: a class or collating element cannot end a range.
				ps.malformed("range ending in a class or collating element")
				return nil, 0, false
			}
			if hi == '/' {
				hasSlash = true
			}
			if hi == '*' || hi == '?' || hi == '[' {
				metaInside = true
			}
			set.Dashes = append(set.Dashes, d)
			if hi == '-' && !d.EndEscaped {
				// the end point is itself an unescaped "-"
				afterR, _ := utf8.DecodeRuneInString(s[k+1:])
				set.Dashes = append(set.Dashes, Dash{Prev: '-', Next: afterR})
			}
			set.items = append(set.items, item{lo: lo, hi: hi})
			j = k + hw
			continue
		}
		set.items = append(set.items, item{lo: lo, hi: lo})
	}
	// The expression is closed at j.
	if j > end {
		// The bracket parser and the pattern-list scanner disagree about
		// where this bracket expression ends.
		ps.unspecified("bracket expression crossing the end of a pattern list alternative")
	}
	if ps.mode&Filenames != 0 && hasSlash {
		// Rule (POSIX 2.13.3): in a pathname pattern a "/" cannot be inside
		// a bracket expression; the "[" is then an ordinary character. bash
		// parses the rest afresh, the pattern package's own tests want the
		// whole bracket text taken literally; the two agree unless the text
		// inside would have a special meaning of its own.
		if metaInside {
			ps.unspecified("Filenames: bracket expression containing '/' and other special characters")
		}
		return nil, 0, false
	}
	for _, it := range set.items {
		if it.class != "" {
			continue
		}
		// Rule (POSIX 2.13.1/9.3.5): the end of a range must not collate
		// before its start; otherwise the expression is invalid. Ranges
		// compare by code point (bash's globasciiranges default).
		if it.lo > it.hi {
			ps.malformed("range end sorts before range start")
			return nil, 0, false
		}
		if ps.mode&NoGlobCase != 0 && it.lo != it.hi && !caseSafeRange(it.lo, it.hi) {
			// bash folds both end points and the subject to lower case, so
			// a range such as [Z-a] becomes invalid and [A-z] loses its
			// punctuation; nothing documents either outcome.
			ps.unspecified("NoGlobCase: range mixing letter cases or spanning letters")
		}
	}
	return set, j, true
}

func backslashesBefore(s string, i int) int {
	n := 0
	for i > 0 && s[i-1] == '\\' {
		n++
		i--
	}
	return n
}

// caseSafeRange reports whether a case-insensitive reading of lo-hi is beyond
// dispute: both ends lower-case letters, both upper-case letters, or no cased
// character anywhere in between.
func caseSafeRange(lo, hi rune) bool {
	if unicode.IsLower(lo) && unicode.IsLower(hi) {
		return true
	}
	if unicode.IsUpper(lo) && unicode.IsUpper(hi) {
		return true
	}
	if hi-lo > 4096 {
		return false
	}
	for r := lo; r <= hi; r++ {
		if unicode.ToLower(r) != r || unicode.ToUpper(r) != r {
			return false
		}
	}
	return true
}

// HasMeta reports whether the parsed pattern contains any element other than
// literal characters.
func (p *Pattern) HasMeta() bool {
	for _, n := range p.Nodes {
		if n.Kind != kLit {
			return true
		}
	}
	return false
}

// Walk calls f for every node, outermost first.
func (p *Pattern) Walk(f func(n *Node, depth int)) { walk(p.Nodes, 0, f) }

func walk(nodes []Node, depth int, f func(n *Node, depth int)) {
	for i := range nodes {
		f(&nodes[i], depth)
		for _, a := range nodes[i].Alts {
			walk(a, depth+1, f)
		}
	}
}

// IsLit, IsAny ... expose the node kinds to the harness.
func (n *Node) IsLit() bool      { return n.Kind == kLit }
func (n *Node) IsAny() bool      { return n.Kind == kAny }
func (n *Node) IsStar() bool     { return n.Kind == kStar }
func (n *Node) IsGlobStar() bool { return n.Kind == kGlobStar || n.Kind == kGlobStarSlash }
func (n *Node) IsSet() bool      { return n.Kind == kSet }
func (n *Node) IsGroup() bool    { return n.Kind == kGroup }

// Classes lists the class names used by the set.
func (s *Set) Classes() []string {
	var out []string
	for _, it := range s.items {
		if it.class != "" {
			out = append(out, it.class)
		}
	}
	return out
}

// HasRange reports whether the set has a true range (lo < hi).
func (s *Set) HasRange() bool {
	for _, it := range s.items {
		if it.class == "" && it.lo != it.hi {
			return true
		}
	}
	return false
}

// Contains reports whether the set, read case-sensitively, holds r
// (complement applied).
func (s *Set) Contains(r rune) bool { return s.has(r, false) != s.Neg }

func (s *Set) has(r rune, fold bool) bool {
	for _, it := range s.items {
		if it.class != "" {
			// Rule: a class tests the character as it is, also under
			// NoGlobCase (bash: [[:upper:]] does not match "a" with
			// nocasematch).
			if r < 0x80 && classNames[it.class](r) {
				return true
			}
			continue
		}
		if r >= it.lo && r <= it.hi {
			return true
		}
		if fold {
			// Rule (NoGlobCase): a character matches a set member when they
			// are equal up to letter case.
			l, u := unicode.ToLower(r), unicode.ToUpper(r)
			if (l >= it.lo && l <= it.hi) || (u >= it.lo && u <= it.hi) {
				return true
			}
			if it.lo == it.hi && foldEq(r, it.lo) {
				return true
			}
		}
	}
	return false
}

func foldEq(a, b rune) bool {
	return a == b || unicode.ToLower(a) == unicode.ToLower(b) || unicode.ToUpper(a) == unicode.ToUpper(b)
}

type matcher struct {
	s    []rune
	mode Mode
	memo map[memoKey][]bool
}

// compStart: position pos is the start of a path component of the subject.
func (m *matcher) compStart(pos int) bool { return pos == 0 || m.s[pos-1] == '/' }

// dotBlocked: Rule (Filenames without GlobLeadingDot): a "." at the start of a
// path component is only matched by a "." written in the pattern, never by
// "*", "?", a bracket expression or "**".
func (m *matcher) dotBlocked(pos int) bool {
	return m.mode&Filenames != 0 && m.mode&GlobLeadingDot == 0 &&
		pos < len(m.s) && m.s[pos] == '.' && m.compStart(pos)
}

// ends returns the set of positions e such that nodes matches s[start:e]
// exactly (index = position, len(s)+1 entries). Matching is done on sets of
// positions, one pattern element at a time, so it is polynomial even for
// nested repetitions. No element looks ahead, so the set does not depend on
// what follows position e.
func (m *matcher) ends(nodes []Node, start int) []bool {
	cur := make([]bool, len(m.s)+1)
	cur[start] = true
	for i := range nodes {
		next := make([]bool, len(m.s)+1)
		any := false
		for p, ok := range cur {
			if ok {
				m.nodeEnds(&nodes[i], p, next)
				any = true
			}
		}
		if !any {
			return next
		}
		cur = next
	}
	return cur
}

type memoKey struct {
	n   *Node
	pos int
}

// altEnds: the positions where one occurrence of one alternative of the
// pattern list n, started at pos, can end.
func (m *matcher) altEnds(n *Node, pos int) []bool {
	key := memoKey{n, pos}
	if r, ok := m.memo[key]; ok {
		return r
	}
	out := make([]bool, len(m.s)+1)
	for _, a := range n.Alts {
		for e, ok := range m.ends(a, pos) {
			if ok {
				out[e] = true
			}
		}
	}
	if m.memo == nil {
		m.memo = map[memoKey][]bool{}
	}
	m.memo[key] = out
	return out
}

func (m *matcher) nodeEnds(n *Node, pos int, out []bool) {
	s := m.s
	switch n.Kind {
	case kLit:
		// Rule: an ordinary character matches itself (up to case with
		// NoGlobCase).
		if pos < len(s) && (s[pos] == n.R || (m.mode&NoGlobCase != 0 && foldEq(s[pos], n.R))) {
			out[pos+1] = true
		}
	case kAny:
		// Rule: "?" matches any one character (a whole multi-byte character,
		// and newline too); not "/" in Filenames mode; not a leading ".".
		if pos >= len(s) || (m.mode&Filenames != 0 && s[pos] == '/') || m.dotBlocked(pos) {
			return
		}
		out[pos+1] = true
	case kSet:
		// Rule: a bracket expression matches one character of the set (or
		// one not in it, when complemented); never "/" in Filenames mode,
		// even when complemented; not a leading ".".
		if pos >= len(s) || (m.mode&Filenames != 0 && s[pos] == '/') || m.dotBlocked(pos) {
			return
		}
		if n.Set.has(s[pos], m.mode&NoGlobCase != 0) != n.Set.Neg {
			out[pos+1] = true
		}
	case kStar:
		// Rule: "*" matches any string, including the empty one; in
		// Filenames mode it stops at "/" and does not start with a leading
		// ".".
		out[pos] = true
		if m.dotBlocked(pos) {
			return
		}
		for e := pos; e < len(s); e++ {
			if m.mode&Filenames != 0 && s[e] == '/' {
				return
			}
			out[e+1] = true
		}
	case kGlobStar, kGlobStarSlash:
		// Rule (globstar): "**" matches any run of path components and
		// slashes in which no component starts with "." (any run at all with
		// GlobLeadingDot). "**/" is either nothing, or such a run followed
		// by a "/".
		out[pos] = true
		for e := pos; e < len(s); e++ {
			if m.dotBlocked(e) {
				return
			}
			if n.Kind == kGlobStar || s[e] == '/' {
				out[e+1] = true
			}
		}
	case kGroup:
		switch n.Op {
		case '@':
			// Rule: @(list) matches exactly one of the patterns.
			for e, ok := range m.altEnds(n, pos) {
				if ok {
					out[e] = true
				}
			}
		case '?':
			// Rule: ?(list) matches zero or one occurrence.
			out[pos] = true
			for e, ok := range m.altEnds(n, pos) {
				if ok {
					out[e] = true
				}
			}
		case '*', '+':
			// Rule: *(list) matches zero or more occurrences, +(list) one
			// or more: the positions reachable by chaining occurrences.
			if n.Op == '*' {
				out[pos] = true
			}
			reached := make([]bool, len(s)+1)
			todo := []int{pos}
			for len(todo) > 0 {
				q := todo[len(todo)-1]
				todo = todo[:len(todo)-1]
				for e, ok := range m.altEnds(n, q) {
					if ok && !reached[e] {
						reached[e] = true
						out[e] = true
						todo = append(todo, e)
					}
				}
			}
		case '!':
			// Rule: !(list) matches any string (here: any s[pos:e]) that
			// none of the patterns matches entirely; in Filenames mode
			// without GlobLeadingDot it does not match a string with a
			// leading ".".
			if m.dotBlocked(pos) {
				return
			}
			alt := m.altEnds(n, pos)
			for e := pos; e <= len(s); e++ {
				if !alt[e] {
					out[e] = true
				}
			}
		}
	}
}

// Match reports whether the pattern matches all of s. It must only be relied
// on when Malformed and Unspecified are empty.
func (p *Pattern) Match(s string) bool {
	m := &matcher{s: []rune(s), mode: p.Mode}
	return m.ends(p.Nodes, 0)[len(m.s)]
}

// Contains reports whether some substring of s (taken by itself) matches the
// pattern: the meaning of an unanchored search.
func (p *Pattern) Contains(s string) bool {
	_, _, ok := p.Find(s)
	return ok
}

// Find returns the byte offsets of the leftmost substring of s that, taken by
// itself, matches the pattern and, for that start, the shortest one.
func (p *Pattern) Find(s string) (start, end int, ok bool) {
	rs := []rune(s)
	offs := make([]int, len(rs)+1)
	o := 0
	for i, r := range rs {
		offs[i] = o
		o += utf8.RuneLen(r)
	}
	offs[len(rs)] = o
	for i := 0; i <= len(rs); i++ {
		m := &matcher{s: rs[i:], mode: p.Mode}
		for j, hit := range m.ends(p.Nodes, 0) {
			if hit {
				return offs[i], offs[i+j], true
			}
		}
	}
	return 0, 0, false
}

// Sample builds a string from the pattern: pick(n) must return a number in
// [0,n). The result often, but not always, matches the pattern; it is meant to
// give generators candidates near the pattern's language.
func (p *Pattern) Sample(pick func(n int) int, alphabet []rune) string {
	var sb strings.Builder
	sample(&sb, p.Nodes, pick, alphabet, 0)
	return sb.String()
}

func sample(sb *strings.Builder, nodes []Node, pick func(n int) int, alphabet []rune, depth int) {
	any := func() rune { return alphabet[pick(len(alphabet))] }
	for i := range nodes {
		n := &nodes[i]
		switch n.Kind {
		case kLit:
			sb.WriteRune(n.R)
		case kAny:
			sb.WriteRune(any())
		case kStar, kGlobStar:
			for c := pick(3); c > 0; c-- {
				sb.WriteRune(any())
			}
		case kGlobStarSlash:
			for c := pick(3); c > 0; c-- {
				sb.WriteRune(any())
				sb.WriteRune('/')
			}
		case kSet:
			// try a few characters: set members first, then anything
			var cands []rune
			for _, it := range n.Set.items {
				if it.class == "" {
					cands = append(cands, it.lo, it.hi)
				}
			}
			cands = append(cands, 'a', 'A', '0', ' ', '.', '_')
			r := any()
			for try := 0; try < 4; try++ {
				c := cands[pick(len(cands))]
				if n.Set.Contains(c) {
					r = c
					break
				}
			}
			sb.WriteRune(r)
		case kGroup:
			reps := 1
			switch n.Op {
			case '?':
				reps = pick(2)
			case '*':
				reps = pick(3)
			case '+':
				reps = 1 + pick(2)
			case '!':
				for c := pick(3); c > 0; c-- {
					sb.WriteRune(any())
				}
				continue
			}
			for ; reps > 0; reps-- {
				if len(n.Alts) > 0 && depth < 4 {
					sample(sb, n.Alts[pick(len(n.Alts))], pick, alphabet, depth+1)
				}
			}
		}
	}
}
