// C36: shfmt's list, diff, write and stdin modes agree.
//
// Every case is a directory tree of shell files, a set of formatting options
// (given as flags or as an equivalent EditorConfig file) and the way shfmt is
// invoked; the freshly built shfmt binary is run in its different modes over
// the tree and the modes are compared with each other. The reference for
// "the formatted output of f" is the stdin mode: E(f) = shfmt OPTIONS
// --filename f < f. See spec.json for the exact claims.
package c36

import (
	"bytes"
	"context"
	"fmt"
	"os"
	"os/exec"
	"path/filepath"
	"sort"
	"strconv"
	"strings"
	"testing"
	"time"
	"unicode/utf8"

	"mvdan.cc/sh/v3/syntax"
	"pgregory.net/rapid"

	"verifh/corpus"
	"verifh/vh"
)

func TestMain(m *testing.M) { vh.Main(m) }

// ---- the case -------------------------------------------------------------------

type File struct {
	Path string `json:"path"` // relative to the tree root, '/' separated
	Body string `json:"body"`
}

// Opts is a set of parser and printer options.
type Opts struct {
	Indent int    `json:"indent"` // -1: not given
	BN     bool   `json:"bn,omitempty"`
	CI     bool   `json:"ci,omitempty"`
	SR     bool   `json:"sr,omitempty"`
	KP     bool   `json:"kp,omitempty"`
	FN     bool   `json:"fn,omitempty"`
	S      bool   `json:"s,omitempty"`
	MN     bool   `json:"mn,omitempty"`
	Lang   string `json:"lang,omitempty"`  // "" | auto | posix | bash | mksh | bats | zsh
	Posix  bool   `json:"posix,omitempty"` // spell Lang=posix as -p
	Long   bool   `json:"long,omitempty"`  // long flag names
	Eq     bool   `json:"eq,omitempty"`    // -i=2 rather than -i 2
}

type Case struct {
	Files []File `json:"files"`
	Opts  Opts   `json:"opts"`
	// EC: the options are written to the tree's .editorconfig (under
	// Section) and shfmt runs without formatting flags; otherwise they are
	// passed as flags.
	EC      bool   `json:"ec,omitempty"`
	Section string `json:"section,omitempty"` // "[*]" or "[[shell]]"
	// Dot: shfmt runs inside the tree with the argument "."; otherwise in
	// its parent with the argument "tree".
	Dot bool `json:"dot,omitempty"`
	// Nul: use -l=0 / -f=0 (NUL separated lists).
	Nul bool `json:"nul,omitempty"`
	// ListWrite: the write step is `shfmt -l -w` rather than `shfmt -w`.
	ListWrite bool `json:"list_write,omitempty"`
	// ECExtra: a further EditorConfig section that applies to some of the
	// files only, so that one run formats files under different settings.
	ECExtra string `json:"ec_extra,omitempty"`
}

func (o Opts) flags() []string {
	var out []string
	name := func(short, long string) string {
		if o.Long {
			return "--" + long
		}
		return "-" + short
	}
	val := func(short, long, v string) {
		if o.Eq {
			out = append(out, name(short, long)+"="+v)
		} else {
			out = append(out, name(short, long), v)
		}
	}
	if o.Indent >= 0 {
		val("i", "indent", strconv.Itoa(o.Indent))
	}
	for _, b := range []struct {
		on          bool
		short, long string
	}{{o.BN, "bn", "binary-next-line"}, {o.CI, "ci", "case-indent"}, {o.SR, "sr", "space-redirects"},
		{o.KP, "kp", "keep-padding"}, {o.FN, "fn", "func-next-line"}, {o.S, "s", "simplify"}, {o.MN, "mn", "minify"}} {
		if b.on {
			out = append(out, name(b.short, b.long))
		}
	}
	switch {
	case o.Lang == "posix" && o.Posix:
		out = append(out, name("p", "posix"))
	case o.Lang != "":
		val("ln", "language-dialect", o.Lang)
	}
	return out
}

// editorconfig renders the same options with the keys documented in
// shfmt.1.scd (EXAMPLES).
func (o Opts) editorconfig(section string) string {
	var b strings.Builder
	b.WriteString("root = true\n\n" + section + "\n")
	switch {
	case o.Indent == 0:
		b.WriteString("indent_style = tab\n")
	case o.Indent > 0:
		fmt.Fprintf(&b, "indent_style = space\nindent_size = %d\n", o.Indent)
	}
	for _, kv := range []struct {
		on  bool
		key string
	}{{o.BN, "binary_next_line"}, {o.CI, "switch_case_indent"}, {o.SR, "space_redirects"},
		{o.KP, "keep_padding"}, {o.FN, "function_next_line"}, {o.S, "simplify"}, {o.MN, "minify"}} {
		if kv.on {
			b.WriteString(kv.key + " = true\n")
		}
	}
	if o.Lang != "" && o.Lang != "auto" {
		b.WriteString("shell_variant = " + o.Lang + "\n")
	}
	return b.String()
}

// ---- generator -------------------------------------------------------------------

// Snippets with non-canonical layout (every one is changed by shfmt with the
// default options) in the POSIX subset ...
var messy = []string{
	"  echo   foo   bar",
	"foo;bar",
	"foo|bar",
	"foo&&bar||baz",
	"foo &&\n  bar",
	"foo \\\n  | bar",
	"echo `date`",
	"echo `echo \\`x\\``",
	"f(){ a;b; }",
	"f ( ) {\n a\n  b\n}",
	"echo foo>out 2>&1 <in",
	"cat <<EOF\n  body $x\nEOF",
	"cat <<-EOF\n\tbody\n\tEOF",
	"case $x in a) foo;; b|c) bar ;; esac",
	"case $x in\n a)\n foo\n ;;\n *) bar;;\nesac",
	"if a;then b;else c;fi",
	"if a\nthen\nb\nelif c; then d\nfi",
	"for i in 1 2 3;do echo $i;done",
	"while read x;do :;done <f",
	"until a; do\n\t\tb\ndone",
	"{ a;b; }",
	"( a;b )",
	"(a)",
	"echo a # trailing",
	"#c\n  #d\necho   x",
	"x=$(( 1+2 ))",
	"echo $(( a+b ))  ${a:-b}",
	"echo \"$( foo )\"",
	"foo    bar   # pad\nfoobar baz # pad",
	"a=1   b=2   cmd",
	"echo a\n\n\n\necho b",
	"\n\necho lead",
	"foo &\nbar&",
	"! foo",
	"echo 'a  b'   \"c  d\"",
	"foo 2> /dev/null > out",
	"if a; then\n    b &&\n      c\nfi",
	"echo $(( $a + 1 )) $(( ${b} ))",
	"[ \"$a\" == b ]",
	"echo \"héllo\"   wörld",
	"x=`foo`;y=\"`bar`\"",
}

// ... bash/mksh additions ...
var messyBash = []string{
	"function f { a; }",
	"function g() {\n a\n}",
	"[[ $a == b ]]&&c",
	"[[ \"$a\" == \"b\" && -n \"$c\" ]]",
	"arr=(1 2  3)",
	"arr=(\n1\n 2\n)",
	"((x++))",
	"echo ${a[ 1 ]} ${#a[@]}",
	"for ((i=0;i<3;i++)); do echo $i; done",
	"foo &>out",
	"cat <<<  \"$x\"",
	"declare -a  x=(a b)",
	"echo $'a\\n'  $\"b\"",
	"diff <(a) <( b )",
	"coproc foo { bar; }",
	"select x in a b;do echo $x;done",
}

// ... and snippets of the other dialects.
var messyOther = []string{
	"foo |&",             // mksh coprocess
	"echo ${ foo;}",      // mksh
	"${+foo}",            // zsh
	"echo ${(U)foo}",     // zsh
	"@test \"x\" { a; }", // bats
	"@test 'y' {\n a\n}",
}

// Lines that no option set changes: simple commands and assignments.
var clean = []string{
	"echo $(($x + 1))",
	"[[ \"$a\" == \"b\" ]]",
	"echo ${a[$i]} \"$(foo)\"",
	"echo foo bar",
	"x=1",
	"foo",
	"a=1 b=2 cmd arg",
	"exit 0",
	"echo \"$x\" 'y'",
	"true",
}

// Input that does not parse in any dialect.
var broken = []string{
	"foo(",
	"if a; then",
	"echo \"unterminated",
	")",
	"a &&",
	"case x in",
	"echo ${",
	"for do done",
	"{ a;",
	"echo 'x",
	"fi",
	"a | | b",
}

var shebangs = []string{
	"#!/bin/sh", "#!/bin/bash", "#!/usr/bin/env bash", "#!/bin/mksh", "#!/usr/bin/env zsh",
	"#!/bin/dash", "#! /bin/sh", "#!/bin/bash -e", "#!/usr/bin/env bats", "#!/usr/bin/sh",
	"#!/bin/env sh", "#!/bin/zsh",
	// not shell:
	"#!/usr/bin/python", "#!/bin/shfoo", "#!/bin/envsh", "# !/bin/sh",
}

var corpusSyntax = corpus.From("syntax")

// (rapid favours the first entries of a list)
var dirs = []string{"", "sub/", "", "sub/deep/", "", "other/", "d.sh/", "", ".hid/", "sub/", ".git/", "", ".svn/", ""}
var exts = []string{".sh", "", ".bash", ".sh", ".mksh", ".sh", ".zsh", ".bats", ".sh", "", ".txt", ".bash", ".other", ".sh", ".sh.bak", ".bash"}

// chance draws an event of roughly the given probability. rapid's integers
// are biased towards small values (and shrink towards them), so the event is
// put at the top of the range: it happens a bit less often than pct says and
// shrinking turns it off. The class histogram of the evidence file measures
// what really came out.
func chance(t *rapid.T, name string, pct int) bool {
	return rapid.IntRange(0, 99).Draw(t, name) >= 100-pct
}

func genOpts(t *rapid.T) Opts {
	o := Opts{Indent: -1}
	if chance(t, "indent?", 60) {
		o.Indent = rapid.SampledFrom([]int{2, 4, 0, 1, 3, 8}).Draw(t, "indent")
	}
	o.BN = chance(t, "bn", 40)
	o.CI = chance(t, "ci", 40)
	o.SR = chance(t, "sr", 40)
	o.KP = chance(t, "kp", 10)
	o.FN = chance(t, "fn", 35)
	o.S = chance(t, "s", 35)
	o.MN = chance(t, "mn", 12)
	if chance(t, "lang?", 60) {
		o.Lang = rapid.SampledFrom([]string{"bash", "posix", "mksh", "zsh", "bats", "auto"}).Draw(t, "lang")
		o.Posix = o.Lang == "posix" && rapid.Bool().Draw(t, "-p")
	}
	o.Long = chance(t, "long", 40)
	o.Eq = chance(t, "eq", 40)
	return o
}

// format runs the library's printer in this process; gen uses it to build
// files that are probably already formatted under the case's options. What
// the files really are is measured by check through the binary.
func format(src string, o Opts) (out string, ok bool) {
	defer func() {
		if recover() != nil {
			out, ok = "", false
		}
	}()
	f, err := syntax.NewParser(syntax.KeepComments(true), syntax.Variant(syntax.LangBash)).Parse(strings.NewReader(src), "")
	if err != nil {
		return "", false
	}
	if o.S || o.MN {
		syntax.Simplify(f)
	}
	ind := uint(0)
	if o.Indent > 0 {
		ind = uint(o.Indent)
	}
	var b strings.Builder
	pr := syntax.NewPrinter(syntax.Minify(o.MN), syntax.Indent(ind), syntax.BinaryNextLine(o.BN), syntax.SwitchCaseIndent(o.CI),
		syntax.SpaceRedirects(o.SR), syntax.KeepPadding(o.KP), syntax.FunctionNextLine(o.FN))
	if err := pr.Print(&b, f); err != nil {
		return "", false
	}
	return b.String(), true
}

var kinds = []string{"messy", "formatted", "clean", "messy", "formatted", "corpus", "broken", "formatted", "messy", "corpus", "tiny", "clean", "formatted", "messy"}

func genBody(t *rapid.T, o Opts) string {
	snippet := func() string {
		switch rapid.SampledFrom([]string{"messy", "bash", "messy", "clean", "messy", "bash", "other", "messy"}).Draw(t, "pool") {
		case "messy":
			return rapid.SampledFrom(messy).Draw(t, "messy")
		case "bash":
			return rapid.SampledFrom(messyBash).Draw(t, "bash")
		case "other":
			return rapid.SampledFrom(messyOther).Draw(t, "other")
		default:
			return rapid.SampledFrom(clean).Draw(t, "clean")
		}
	}
	joinMessy := func() string {
		n := rapid.IntRange(1, 4).Draw(t, "nsnip")
		var b strings.Builder
		for i := 0; i < n; i++ {
			if i > 0 {
				b.WriteString(rapid.SampledFrom([]string{"\n", "\n", "\n\n", "\n  ", ";", " ; "}).Draw(t, "sep"))
			}
			b.WriteString(snippet())
		}
		return b.String()
	}
	var body string
	switch rapid.SampledFrom(kinds).Draw(t, "kind") {
	case "messy": // needs reformatting
		body = joinMessy()
	case "clean": // formatted under every option set
		n := rapid.IntRange(0, 3).Draw(t, "nclean")
		var ls []string
		for i := 0; i < n; i++ {
			ls = append(ls, rapid.SampledFrom(clean).Draw(t, "clean"))
		}
		body = strings.Join(ls, "\n")
	case "formatted": // formatted by the library under the case's options
		body = joinMessy()
		if out, ok := format(body, o); ok {
			return out
		}
	case "broken": // does not parse
		body = rapid.SampledFrom(broken).Draw(t, "broken")
		if rapid.Bool().Draw(t, "prefix") {
			body = snippet() + "\n" + body
		}
	case "corpus": // a literal of the repository's own syntax tests
		body = rapid.SampledFrom(corpusSyntax).Draw(t, "corpus")
	case "tiny":
		return rapid.SampledFrom([]string{"", "a", "\n", "foo\n", " ", "#"}).Draw(t, "tiny")
	}
	if !chance(t, "no-final-newline", 25) {
		body += "\n"
	}
	return body
}

func gen(t *rapid.T) Case {
	var c Case
	c.Opts = genOpts(t)
	c.EC = chance(t, "ec", 60)
	c.Section = rapid.SampledFrom([]string{"[*]", "[*]", "[[shell]]"}).Draw(t, "section")
	if chance(t, "ecextra", 30) {
		c.ECExtra = rapid.SampledFrom([]string{"[sub/**]\nsimplify = true\n", "[*.bash]\nminify = true\n", "[other/*]\nsimplify = true\n",
			"[sub/**]\nindent_style = space\nindent_size = 3\n", "[f0*]\nsimplify = true\n", "[f1*]\nminify = true\n", "[*.sh]\nbinary_next_line = true\nswitch_case_indent = true\n"}).Draw(t, "ecextratext")
	}
	c.Dot = rapid.Bool().Draw(t, "dot")
	c.Nul = chance(t, "nul", 30)
	c.ListWrite = chance(t, "lw", 50)
	n := rapid.SampledFrom([]int{3, 4, 2, 5, 3, 6, 1, 4, 7}).Draw(t, "nfiles")
	for i := 0; i < n; i++ {
		dir := rapid.SampledFrom(dirs).Draw(t, "dir")
		ext := rapid.SampledFrom(exts).Draw(t, "ext")
		name := fmt.Sprintf("f%d%s", i, ext)
		if chance(t, "hidden", 10) {
			name = "." + name
		}
		body := genBody(t, c.Opts)
		// shebang: mostly on files without extension (that is how they are found)
		pct := 40
		if ext == "" {
			pct = 95
		}
		if chance(t, "shebang?", pct) {
			body = rapid.SampledFrom(shebangs).Draw(t, "shebang") + "\n" + body
		}
		c.Files = append(c.Files, File{Path: dir + name, Body: body})
	}
	return c
}

// ---- running things --------------------------------------------------------------

func binPath(name string) string {
	d := os.Getenv("VERIF_BIN")
	if d == "" {
		d = "/verif/.build"
	}
	return filepath.Join(d, name)
}

func scratch() string {
	if s := os.Getenv("VERIF_SCRATCH"); s != "" {
		return s
	}
	return os.TempDir()
}

type output struct {
	stdout, stderr []byte
	code           int
	timeout        bool
	err            error // could not run at all
}

func run(bin, cwd, home string, stdin []byte, args ...string) output {
	ctx, cancel := context.WithTimeout(context.Background(), 30*time.Second)
	defer cancel()
	cmd := exec.CommandContext(ctx, bin, args...)
	cmd.Dir = cwd
	// No FORCE_COLOR, NO_COLOR set, stdout is a pipe: diffs are never colored.
	cmd.Env = []string{"PATH=/usr/bin:/bin", "HOME=" + home, "TMPDIR=" + home, "LC_ALL=C", "NO_COLOR=1"}
	if stdin != nil {
		cmd.Stdin = bytes.NewReader(stdin)
	}
	var so, se bytes.Buffer
	cmd.Stdout, cmd.Stderr = &so, &se
	err := cmd.Run()
	o := output{stdout: so.Bytes(), stderr: se.Bytes()}
	if ctx.Err() != nil {
		o.timeout = true
		return o
	}
	if err != nil {
		if ee, ok := err.(*exec.ExitError); ok {
			o.code = ee.ExitCode()
		} else {
			o.err = err
		}
	}
	return o
}

func splitList(b []byte, nul bool) []string {
	sep := "\n"
	if nul {
		sep = "\x00"
	}
	s := string(b)
	if s == "" {
		return nil
	}
	s = strings.TrimSuffix(s, sep)
	return strings.Split(s, sep)
}

// plainText: content that the external patch tool is trusted with (valid
// UTF-8 without control characters other than newline and tab).
func plainText(s string) bool {
	if !utf8.ValidString(s) {
		return false
	}
	for _, r := range s {
		if (r < 0x20 && r != '\n' && r != '\t') || r == 0x7f {
			return false
		}
	}
	return true
}

func writeTree(root string, c Case) error {
	if err := os.MkdirAll(root, 0o755); err != nil {
		return err
	}
	ec := "root = true\n"
	if c.EC {
		ec = c.Opts.editorconfig(c.Section)
	}
	if c.ECExtra != "" {
		ec += "\n" + c.ECExtra
	}
	if err := os.WriteFile(filepath.Join(root, ".editorconfig"), []byte(ec), 0o644); err != nil {
		return err
	}
	for _, f := range c.Files {
		p := filepath.Join(root, filepath.FromSlash(f.Path))
		if err := os.MkdirAll(filepath.Dir(p), 0o755); err != nil {
			return err
		}
		if err := os.WriteFile(p, []byte(f.Body), 0o644); err != nil {
			return err
		}
	}
	return nil
}

// ---- the property ----------------------------------------------------------------

const (
	kpFinding        = "C36-kp-not-idempotent"
	bqHeredocFinding = "C36-backquote-heredoc-not-idempotent"
)

func q(s string) string {
	if len(s) > 300 {
		return strconv.Quote(s[:300]) + "..."
	}
	return strconv.Quote(s)
}

func check(c Case) (res vh.Result) {
	skip := func(class string) vh.Result {
		return vh.Result{Skipped: true, Classes: []string{class}}
	}
	// well-formedness of a (possibly hand-written or shrunk) case
	seen := map[string]bool{}
	for _, f := range c.Files {
		if f.Path == "" || seen[f.Path] || strings.HasPrefix(f.Path, "/") || strings.Contains(f.Path, "..") ||
			strings.HasSuffix(f.Path, "/") || f.Path == ".editorconfig" || strings.ContainsAny(f.Path, " \t\n\x00") {
			return skip("bad-case")
		}
		seen[f.Path] = true
	}
	if c.Section == "" {
		c.Section = "[*]"
	}

	base, err := os.MkdirTemp(scratch(), "c36-")
	if err != nil {
		return skip("inconclusive:harness-error")
	}
	defer os.RemoveAll(base)
	root := filepath.Join(base, "o", "tree")
	if err := writeTree(root, c); err != nil {
		// e.g. a path that is both a file and a directory
		return skip("bad-case")
	}
	cwd, arg, prefix := filepath.Join(base, "o"), "tree", "tree/"
	if c.Dot {
		cwd, arg, prefix = root, ".", ""
	}
	shfmt := binPath("shfmt")
	var cfg []string // how the options reach shfmt in the tree runs
	if !c.EC {
		cfg = c.Opts.flags()
	}
	sh := func(stdin []byte, args ...string) output {
		return run(shfmt, cwd, base, stdin, append(append([]string{}, cfg...), args...)...)
	}
	bodies := map[string]string{}
	for _, f := range c.Files {
		bodies[prefix+f.Path] = f.Body
	}
	listFlag := func(name string) string {
		if c.Nul {
			return name + "=0"
		}
		return name
	}
	mode := "flags"
	if c.EC {
		mode = "editorconfig:" + c.Section
	} else if len(cfg) == 0 {
		mode = "default"
	}
	res.Classes = append(res.Classes, "mode:"+mode)
	for _, fl := range c.Opts.flags() {
		if strings.HasPrefix(fl, "-") {
			name, _, _ := strings.Cut(strings.TrimLeft(fl, "-"), "=")
			res.Classes = append(res.Classes, "opt:"+name)
		}
	}

	// 1. the files shfmt considers: shfmt -f
	fo := sh(nil, listFlag("-f"), arg)
	if fo.timeout {
		return skip("inconclusive:timeout")
	}
	if fo.err != nil {
		return skip("inconclusive:harness-error")
	}
	if fo.code != 0 {
		return skip("inconclusive:find-failed")
	}
	F := splitList(fo.stdout, c.Nul)
	inF := map[string]bool{}
	for _, p := range F {
		if _, ok := bodies[p]; !ok {
			return vh.Fail("shfmt -f printed %q, which is not a file of the tree %q", p, keys(bodies))
		}
		if inF[p] {
			return vh.Fail("shfmt -f printed %q twice", p)
		}
		inF[p] = true
	}

	// 2. E(f): the stdin mode with the same name (hence the same language
	// detection and the same EditorConfig lookup).
	E := map[string]string{}
	var D, U, OK []string // differing, unparsable, already formatted
	for _, p := range F {
		o := sh([]byte(bodies[p]), "--filename", p)
		if o.timeout {
			return skip("inconclusive:timeout")
		}
		if o.err != nil {
			return skip("inconclusive:harness-error")
		}
		if o.code != 0 {
			U = append(U, p)
		} else {
			E[p] = string(o.stdout)
			if E[p] != bodies[p] {
				D = append(D, p)
			} else {
				OK = append(OK, p)
			}
		}
		// flags and the equivalent EditorConfig settings give the same bytes
		if c.EC && len(c.Opts.flags()) > 0 && c.ECExtra == "" {
			o2 := run(shfmt, cwd, base, []byte(bodies[p]), append(c.Opts.flags(), "--filename", p)...)
			if o2.timeout {
				return skip("inconclusive:timeout")
			}
			if (o2.code != 0) != (o.code != 0) {
				return vh.Fail("%s: with the EditorConfig\n%s\nstdin formatting exits %d (%s), with the flags %q it exits %d (%s); input %s",
					p, c.Opts.editorconfig(c.Section), o.code, q(string(o.stderr)), c.Opts.flags(), o2.code, q(string(o2.stderr)), q(bodies[p]))
			}
			if o.code == 0 && !bytes.Equal(o.stdout, o2.stdout) {
				return vh.Fail("%s: EditorConfig\n%s\ngives %s but the flags %q give %s; input %s",
					p, c.Opts.editorconfig(c.Section), q(string(o.stdout)), c.Opts.flags(), q(string(o2.stdout)), q(bodies[p]))
			}
		}
	}
	sort.Strings(D)
	res.Nontrivial = len(F) >= 2 && len(D) >= 1 && len(OK) >= 1
	res.Classes = append(res.Classes, fmt.Sprintf("found:%d", len(F)), fmt.Sprintf("differ:%d", min(len(D), 3)),
		fmt.Sprintf("formatted:%d", min(len(OK), 3)), fmt.Sprintf("unparsable:%d", min(len(U), 3)))
	for _, f := range c.Files {
		switch {
		case strings.HasPrefix(f.Path, ".git/") || strings.HasPrefix(f.Path, ".svn/"):
			res.Classes = append(res.Classes, "has:vcs-dir")
		case strings.HasPrefix(filepath.Base(f.Path), ".") || strings.HasPrefix(f.Path, ".hid/"):
			res.Classes = append(res.Classes, "has:hidden")
		case filepath.Ext(f.Path) == "" && inF[prefix+f.Path]:
			res.Classes = append(res.Classes, "has:found-by-shebang")
		}
	}
	what := fmt.Sprintf("[options %q via %s, cwd arg %q]", c.Opts.flags(), mode, arg)

	// 3. shfmt -l lists exactly D; exit status != 0 iff D is not empty
	// (checked when nothing is unparsable: parse errors also exit 1).
	lo := sh(nil, listFlag("-l"), arg)
	if lo.timeout {
		return skip("inconclusive:timeout")
	}
	L := splitList(lo.stdout, c.Nul)
	if msg := sameSet(L, D); msg != "" {
		return vh.Fail("shfmt -l %s: %s; listed %q, files whose stdin formatting differs %q, unparsable %q; stderr %s", what, msg, L, D, U, q(string(lo.stderr)))
	}
	if len(U) == 0 && (lo.code != 0) != (len(D) > 0) {
		return vh.Fail("shfmt -l %s exits %d although it listed %d files (stderr %s)", what, lo.code, len(L), q(string(lo.stderr)))
	}

	// 4. shfmt -d prints a diff exactly for D, and the diff turns each file
	// into E(f).
	do := sh(nil, "-d", arg)
	if do.timeout {
		return skip("inconclusive:timeout")
	}
	heads, herr := diffHeaders(string(do.stdout))
	if herr != "" {
		return vh.Fail("shfmt -d %s: %s; output %s", what, herr, q(string(do.stdout)))
	}
	if msg := sameSet(heads, D); msg != "" {
		return vh.Fail("shfmt -d %s: %s; diff headers for %q, files whose stdin formatting differs %q, unparsable %q", what, msg, heads, D, U)
	}
	if len(U) == 0 && (do.code != 0) != (len(D) > 0) {
		return vh.Fail("shfmt -d %s exits %d although it printed diffs for %d files (stderr %s)", what, do.code, len(heads), q(string(do.stderr)))
	}
	if len(D) > 0 {
		patchable := true
		for _, p := range D {
			if !plainText(bodies[p]) || !plainText(E[p]) {
				patchable = false
			}
		}
		if !patchable {
			res.Classes = append(res.Classes, "patch:skipped-not-plain-text")
		} else {
			res.Classes = append(res.Classes, "patch:applied")
			proot := filepath.Join(base, "p", "tree")
			if err := writeTree(proot, c); err != nil {
				return skip("inconclusive:harness-error")
			}
			pcwd := filepath.Join(base, "p")
			if c.Dot {
				pcwd = proot
			}
			po := run("patch", pcwd, base, do.stdout, "-p0", "-s", "-f", "--no-backup-if-mismatch")
			if po.timeout || po.err != nil {
				return skip("inconclusive:patch-tool")
			}
			if po.code != 0 {
				return vh.Fail("the output of shfmt -d %s does not apply with patch -p0 (exit %d: %s %s); diff %s", what, po.code, q(string(po.stdout)), q(string(po.stderr)), q(string(do.stdout)))
			}
			for p, body := range bodies {
				want := body
				if e, ok := E[p]; ok {
					want = e
				}
				got, err := os.ReadFile(filepath.Join(pcwd, filepath.FromSlash(p)))
				if err != nil && want == "" && os.IsNotExist(err) {
					continue // patch removes files that become empty
				}
				if err != nil || string(got) != want {
					return vh.Fail("after applying the diff of shfmt -d %s, %s holds %s (err %v), want the stdin-formatted %s; original %s", what, p, q(string(got)), err, q(want), q(body))
				}
			}
		}
	}

	// 5. formatting the files (to stdout) gives the same bytes as formatting
	// them through stdin: the outputs are concatenated in -f order.
	so := sh(nil, arg)
	if so.timeout {
		return skip("inconclusive:timeout")
	}
	var want strings.Builder
	for _, p := range F {
		want.WriteString(E[p])
	}
	if string(so.stdout) != want.String() {
		return vh.Fail("shfmt %s prints %s, but formatting the same files %q one by one through stdin gives %s", what, q(string(so.stdout)), F, q(want.String()))
	}

	// 6. shfmt -w: every parsable file then holds E(f); unparsable files and
	// files that -f does not list are untouched.
	wargs := []string{"-w", arg}
	if c.ListWrite {
		wargs = []string{listFlag("-l"), "-w", arg}
	}
	wo := sh(nil, wargs...)
	if wo.timeout {
		return skip("inconclusive:timeout")
	}
	if c.ListWrite {
		if msg := sameSet(splitList(wo.stdout, c.Nul), D); msg != "" {
			return vh.Fail("shfmt -l -w %s: %s; listed %q, want %q", what, msg, splitList(wo.stdout, c.Nul), D)
		}
	} else if len(wo.stdout) != 0 {
		return vh.Fail("shfmt -w %s printed to stdout: %s", what, q(string(wo.stdout)))
	}
	if len(U) == 0 && wo.code != 0 {
		return vh.Fail("shfmt %q %s exits %d without any unparsable file (stderr %s)", wargs, what, wo.code, q(string(wo.stderr)))
	}
	for _, p := range sortedKeys(bodies) {
		body := bodies[p]
		want, label := body, "its original contents (not listed by -f, or unparsable)"
		if e, ok := E[p]; ok {
			want, label = e, "the stdin-formatted contents"
		}
		got, err := os.ReadFile(filepath.Join(cwd, filepath.FromSlash(p)))
		if err != nil || string(got) != want {
			return vh.Fail("after shfmt %q %s, %s holds %s (err %v), want %s %s; original %s", wargs, what, p, q(string(got)), err, label, q(want), q(body))
		}
	}

	// 7. after -w, shfmt -l lists nothing.
	if c.Opts.KP && vh.Excluded(kpFinding) {
		// known finding: the output of the deprecated -kp is not a fixed
		// point of -kp (it keeps trailing spaces that a second run drops),
		// so every case with -kp is exempt from this one clause.
		res.Classes = append(res.Classes, "excluded:"+kpFinding)
		return res
	}
	if vh.Excluded(bqHeredocFinding) {
		for _, p := range F {
			if b := bodies[p]; strings.Contains(b, "`") && strings.Contains(b, "<<") {
				// known finding: a here-document inside a backquoted
				// command substitution is printed as "$(cmd <<EOF ... EOF\n)",
				// which a second run re-indents; trees with such a file are
				// exempt from this one clause.
				res.Classes = append(res.Classes, "excluded:"+bqHeredocFinding)
				return res
			}
		}
	}
	l2 := sh(nil, listFlag("-l"), arg)
	if l2.timeout {
		return skip("inconclusive:timeout")
	}
	if len(l2.stdout) != 0 {
		p := splitList(l2.stdout, c.Nul)[0]
		again := sh([]byte(E[p]), "--filename", p)
		return vh.Fail("after shfmt -w %s, shfmt -l still lists %q; %s: original %s, formatted %s, formatted again %s",
			what, splitList(l2.stdout, c.Nul), p, q(bodies[p]), q(E[p]), q(string(again.stdout)))
	}
	if len(U) == 0 && l2.code != 0 {
		return vh.Fail("after shfmt -w %s, shfmt -l exits %d (stderr %s)", what, l2.code, q(string(l2.stderr)))
	}
	return res
}

func keys(m map[string]string) []string { return sortedKeys(m) }

func sortedKeys(m map[string]string) []string {
	var out []string
	for k := range m {
		out = append(out, k)
	}
	sort.Strings(out)
	return out
}

// sameSet compares a printed list with the expected set.
func sameSet(got, want []string) string {
	g := map[string]int{}
	for _, s := range got {
		g[s]++
		if g[s] == 2 {
			return fmt.Sprintf("%q appears twice", s)
		}
	}
	w := map[string]bool{}
	for _, s := range want {
		w[s] = true
		if g[s] == 0 {
			return fmt.Sprintf("%q is missing", s)
		}
	}
	for _, s := range got {
		if !w[s] {
			return fmt.Sprintf("%q should not be there", s)
		}
	}
	return ""
}

// diffHeaders extracts the file names of a concatenation of unified diffs as
// printed by shfmt -d: "diff P.orig P", "--- P.orig", "+++ P". Lines of a
// hunk always start with ' ', '+', '-', '\' or '@', so a line starting with
// "diff " is a header.
func diffHeaders(s string) (paths []string, problem string) {
	lines := strings.Split(s, "\n")
	for i := 0; i < len(lines); i++ {
		l := lines[i]
		if !strings.HasPrefix(l, "diff ") {
			if i == 0 && s != "" {
				return nil, "the output does not start with a diff header"
			}
			continue
		}
		if i+2 >= len(lines) || !strings.HasPrefix(lines[i+1], "--- ") || !strings.HasPrefix(lines[i+2], "+++ ") {
			return nil, fmt.Sprintf("malformed header after %q", l)
		}
		p := strings.TrimPrefix(lines[i+2], "+++ ")
		if lines[i+1] != "--- "+p+".orig" || l != "diff "+p+".orig "+p {
			return nil, fmt.Sprintf("inconsistent header %q / %q / %q", l, lines[i+1], lines[i+2])
		}
		paths = append(paths, p)
		i += 2
	}
	return paths, ""
}

var prop = vh.Prop[Case]{ID: "C36", Gen: gen, Check: check}

func TestC36(t *testing.T) { vh.Run(t, prop) }
