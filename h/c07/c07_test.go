// C07: Parsing does not depend on how input bytes arrive.
package c07

import (
	"fmt"
	"io"
	"strings"
	"testing"

	"mvdan.cc/sh/v3/syntax"
	"pgregory.net/rapid"

	"verifh/gen"
	"verifh/norm"
	"verifh/sx"
	"verifh/vh"
)

func TestMain(m *testing.M) { vh.Main(m) }

type Case struct {
	Src  string `json:"src"`
	Lang string `json:"lang"`
	// Sched is the read schedule: chunk sizes, cycled (a 0 is a (0, nil)
	// read). Empty means "every single split point and the 1-byte reader".
	Sched []int `json:"sched"`
	// EOFWithData makes the last read return (n>0, io.EOF).
	EOFWithData bool `json:"eof_with_data,omitempty"`
	Comments    bool `json:"keep_comments"`
}

// schedReader delivers the source according to a schedule.
type schedReader struct {
	src   string
	off   int
	sched []int
	i     int
	eofWD bool
	zeros int
}

func (r *schedReader) Read(p []byte) (int, error) {
	if len(p) == 0 {
		return 0, nil
	}
	if r.off >= len(r.src) {
		return 0, io.EOF
	}
	n := len(p)
	if len(r.sched) > 0 {
		n = r.sched[r.i%len(r.sched)]
		r.i++
		if n == 0 {
			// a reader may return (0, nil); do not do it forever
			r.zeros++
			if r.zeros < 3 {
				return 0, nil
			}
			n = 1
		}
		r.zeros = 0
	}
	n = min(n, len(p), len(r.src)-r.off)
	copy(p, r.src[r.off:r.off+n])
	r.off += n
	if r.eofWD && r.off >= len(r.src) {
		return n, io.EOF
	}
	return n, nil
}

// splitReader returns the first k bytes, then the rest.
type splitReader struct {
	src string
	k   int
	st  int
}

func (r *splitReader) Read(p []byte) (int, error) {
	switch r.st {
	case 0:
		n := copy(p, r.src[:r.k])
		r.src, r.k = r.src[n:], r.k-n
		if r.k == 0 {
			r.st = 1
		}
		if n == 0 {
			r.st = 1
			return r.Read(p)
		}
		return n, nil
	default:
		if len(r.src) == 0 {
			return 0, io.EOF
		}
		n := copy(p, r.src)
		r.src = r.src[n:]
		return n, nil
	}
}

type outcome struct {
	file *syntax.File
	err  error
}

func parse(r io.Reader, lang string, comments bool) (o outcome, pn *sx.Panic) {
	pn = sx.Guard(func() {
		o.file, o.err = syntax.NewParser(syntax.Variant(gen.LangByName(lang)), syntax.KeepComments(comments)).Parse(r, "")
	})
	return
}

func same(a, b outcome) string {
	if (a.err == nil) != (b.err == nil) {
		return fmt.Sprintf("all-at-once err=%v, chunked err=%v", a.err, b.err)
	}
	if a.err != nil {
		if a.err.Error() != b.err.Error() {
			return fmt.Sprintf("different errors: all-at-once %q, chunked %q", a.err, b.err)
		}
		return ""
	}
	if ok, path := norm.DeepEq(a.file, b.file); !ok {
		return "different trees at " + path
	}
	return ""
}

func multiByteLexeme(s string) bool {
	for _, t := range []string{"&&", "||", ";;", ";&", "<<", ">>", "<&", ">&", "&>", "|&", "$(", "${", "((", "))", "[[", "]]", "\\", "\r\n", "`", "@(", "?(", "+(", "!(", "*(", "<(", ">(", "=(", "$'", "$\"", "<->", "${=", "${^", "${~", "&|", "&!", "+=", "=~", "==", "!=", "..", "**", "++", "--", "<=", ">="} {
		if strings.Contains(s, t) {
			return true
		}
	}
	for i := 0; i < len(s); i++ {
		if s[i] >= 0x80 {
			return true
		}
	}
	return false
}

func check(c Case) (res vh.Result) {
	want, pn := parse(strings.NewReader(c.Src), c.Lang, c.Comments)
	if pn != nil {
		return vh.Result{Skipped: true, Classes: []string{"parser-panic(C06)"}}
	}
	if id := excluded(c); id != "" {
		return vh.Result{Skipped: true, Classes: []string{"excluded:" + id}}
	}
	res.Nontrivial = multiByteLexeme(c.Src)
	if want.err != nil {
		res.Classes = append(res.Classes, "errors")
	} else {
		res.Classes = append(res.Classes, "parses")
	}
	try := func(r io.Reader, what string) string {
		got, pn := parse(r, c.Lang, c.Comments)
		if pn != nil {
			return fmt.Sprintf("%s: parser panicked: %v", what, pn)
		}
		if d := same(want, got); d != "" {
			return fmt.Sprintf("%s: %s", what, d)
		}
		return ""
	}
	if len(c.Sched) > 0 {
		if d := try(&schedReader{src: c.Src, sched: c.Sched, eofWD: c.EOFWithData}, fmt.Sprintf("schedule %v", c.Sched)); d != "" {
			return vh.Fail("%s", d)
		}
		return res
	}
	if d := try(&schedReader{src: c.Src, sched: []int{1}, eofWD: c.EOFWithData}, "one byte at a time"); d != "" {
		return vh.Fail("%s", d)
	}
	if len(c.Src) <= 256 {
		for k := 1; k < len(c.Src); k++ {
			if d := try(&splitReader{src: c.Src, k: k}, fmt.Sprintf("split at %d", k)); d != "" {
				return vh.Fail("%s", d)
			}
		}
		res.Classes = append(res.Classes, "all-splits")
	}
	return res
}

func excluded(c Case) string { return "" }

func genCase(t *rapid.T) Case {
	c := Case{Lang: gen.Lang(t)}
	c.Src = gen.Any(t, gen.LangByName(c.Lang))
	c.Comments = rapid.Bool().Draw(t, "comments")
	if rapid.IntRange(0, 2).Draw(t, "schedkind") > 0 {
		c.Sched = rapid.SliceOfN(rapid.SampledFrom([]int{1, 1, 2, 3, 5, 7, 0, 16, 64}), 1, 6).Draw(t, "sched")
	}
	c.EOFWithData = rapid.IntRange(0, 3).Draw(t, "eofwd") == 0
	return c
}

var prop = vh.Prop[Case]{ID: "C07", Gen: genCase, Check: check, Text: func(c *Case) *string { return &c.Src }}

func TestC07(t *testing.T) { vh.Run(t, prop) }

// TestC07Corpus runs every harvested string in every variant through the
// one-byte reader and every single split point (exhaustive for |src| <= 256).
func TestC07Corpus(t *testing.T) {
	i, n := vh.Shard()
	k := 0
	for _, src := range gen.CorpusAll() {
		for _, l := range gen.Langs {
			k++
			if k%n != i {
				continue
			}
			vh.Each(t, prop, Case{Src: src, Lang: gen.LangName(l), Comments: true})
		}
	}
}
