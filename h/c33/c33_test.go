// C33: Indexed arrays behave like a map from indices to values.
//
// A case is a sequence of up to 20 array operations on one or two arrays.
// A map[int]string model is advanced step by step; after EVERY step the
// interpreter (one Runner, fed one statement at a time) prints the values, the
// index list, the count, one element, the last element and one slice of each
// array, which must equal what the model predicts. At the end the whole
// script runs under bash, whose dumps must equal the interpreter's.
package c33

import (
	"bytes"
	"context"
	"fmt"
	"os"
	"sort"
	"strings"
	"testing"
	"time"

	"mvdan.cc/sh/v3/expand"
	"mvdan.cc/sh/v3/interp"
	"mvdan.cc/sh/v3/syntax"
	"pgregory.net/rapid"

	"verifh/oracle"
	"verifh/vh"
)

func TestMain(m *testing.M) { vh.Main(m) }

type Elem struct {
	HasIdx bool   `json:"has_idx,omitempty"`
	Idx    int    `json:"idx,omitempty"`
	Val    string `json:"val"`
}

type Op struct {
	// Kind: set | set-elems | elem | elem-neg | append | append-elems |
	// append-str | unset-elem | unset-elem-neg | unset | read
	Kind  string `json:"kind"`
	Arr   int    `json:"arr,omitempty"` // 0: a, 1: b
	Idx   int    `json:"idx,omitempty"` // index, or k of [-k]
	Val   string `json:"val,omitempty"`
	Elems []Elem `json:"elems,omitempty"`
	Sub   bool   `json:"sub,omitempty"` // run the operation inside ( ): no lasting effect
	// what the dump after this step reads
	ReadIdx int  `json:"read_idx,omitempty"`
	Off     int  `json:"off,omitempty"`
	Len     int  `json:"len,omitempty"`
	HasLen  bool `json:"has_len,omitempty"`
}

type Case struct {
	Ops []Op `json:"ops"`
	// Wrap: "" (top level, fed incrementally) | func | func-local
	Wrap string `json:"wrap,omitempty"`
	Two  bool   `json:"two,omitempty"`
}

var (
	vals     = []string{"x", "y", "zz", "ab", "q1", "w", "0", "v7"}
	opKinds  = []string{"set", "set-elems", "elem", "elem", "elem-neg", "append", "append-elems", "append-str", "unset-elem", "unset-elem", "unset-elem-neg", "unset", "read"}
	arrNames = []string{"a", "b"}
)

func genVal(t *rapid.T) string {
	if rapid.IntRange(0, 11).Draw(t, "emptyval") == 7 {
		return ""
	}
	return rapid.SampledFrom(vals).Draw(t, "val")
}

func genElems(t *rapid.T, lo, hi int, indexed bool) []Elem {
	n := rapid.IntRange(lo, hi).Draw(t, "nelems")
	var es []Elem
	for i := 0; i < n; i++ {
		e := Elem{Val: rapid.SampledFrom(vals).Draw(t, "val")}
		if indexed && rapid.IntRange(0, 2).Draw(t, "hasidx") != 0 {
			e.HasIdx = true
			e.Idx = rapid.IntRange(0, 12).Draw(t, "eidx")
		}
		es = append(es, e)
	}
	return es
}

func genOp(t *rapid.T, two bool) Op {
	op := Op{Kind: rapid.SampledFrom(opKinds).Draw(t, "kind")}
	if two {
		op.Arr = rapid.IntRange(0, 1).Draw(t, "arr")
	}
	switch op.Kind {
	case "set", "append":
		op.Elems = genElems(t, 0, 4, false)
	case "set-elems", "append-elems":
		op.Elems = genElems(t, 1, 4, true)
	case "elem", "unset-elem":
		op.Idx = rapid.IntRange(0, 12).Draw(t, "idx")
		op.Val = genVal(t)
	case "elem-neg", "unset-elem-neg":
		op.Idx = rapid.IntRange(1, 4).Draw(t, "k")
		op.Val = genVal(t)
	case "append-str":
		op.Val = rapid.SampledFrom(vals).Draw(t, "val")
	}
	if op.Kind != "read" && rapid.IntRange(0, 5).Draw(t, "sub") == 3 {
		op.Sub = true
		if op.Kind == "append-str" && vh.Excluded(exclAppendShared) {
			op.Sub = false
		}
	}
	op.ReadIdx = rapid.IntRange(0, 12).Draw(t, "ridx")
	op.Off = rapid.IntRange(-4, 8).Draw(t, "off")
	if rapid.Bool().Draw(t, "haslen") {
		op.HasLen = true
		op.Len = rapid.IntRange(0, 4).Draw(t, "len")
	}
	return op
}

func gen(t *rapid.T) Case {
	var c Case
	c.Two = rapid.IntRange(0, 2).Draw(t, "two") == 0
	c.Wrap = rapid.SampledFrom([]string{"", "", "", "func", "func-local"}).Draw(t, "wrap")
	n := rapid.IntRange(1, 20).Draw(t, "nops")
	for i := 0; i < n; i++ {
		c.Ops = append(c.Ops, genOp(t, c.Two))
	}
	return c
}

// ---- the model --------------------------------------------------------------

type arr struct {
	set bool // the name is set as an (possibly empty) indexed array
	m   map[int]string
}

func (a *arr) max() int {
	mx := -1
	for k := range a.m {
		if k > mx {
			mx = k
		}
	}
	return mx
}

func (a *arr) keys() []int {
	ks := make([]int, 0, len(a.m))
	for k := range a.m {
		ks = append(ks, k)
	}
	sort.Ints(ks)
	return ks
}

func (a *arr) clone() *arr {
	b := &arr{set: a.set, m: map[int]string{}}
	for k, v := range a.m {
		b.m[k] = v
	}
	return b
}

func assignElems(a *arr, es []Elem, start int) {
	idx := start
	for _, e := range es {
		if e.HasIdx {
			idx = e.Idx
		}
		a.m[idx] = e.Val
		idx++
	}
}

// apply advances the model; valid=false means the operation is outside the
// domain at this point (bash would report an error) and is left out of the
// script.
func apply(a *arr, op Op) (valid bool) {
	switch op.Kind {
	case "set", "set-elems":
		a.m = map[int]string{}
		a.set = true
		assignElems(a, op.Elems, 0)
	case "append", "append-elems":
		a.set = true
		assignElems(a, op.Elems, a.max()+1)
	case "elem":
		a.set = true
		a.m[op.Idx] = op.Val
	case "elem-neg":
		i := a.max() + 1 - op.Idx
		if len(a.m) == 0 || i < 0 {
			return false
		}
		a.m[i] = op.Val
	case "append-str":
		// on a name that is not set bash creates a scalar, not an array
		if !a.set {
			return false
		}
		a.m[0] += op.Val
	case "unset-elem":
		delete(a.m, op.Idx)
	case "unset-elem-neg":
		i := a.max() + 1 - op.Idx
		if len(a.m) == 0 || i < 0 {
			return false
		}
		delete(a.m, i)
	case "unset":
		a.m = map[int]string{}
		a.set = false
	case "read":
	default:
		return false
	}
	return true
}

func elemsText(es []Elem) string {
	var parts []string
	for _, e := range es {
		if e.HasIdx {
			parts = append(parts, fmt.Sprintf("[%d]=%s", e.Idx, e.Val))
		} else {
			parts = append(parts, e.Val)
		}
	}
	return strings.Join(parts, " ")
}

func opText(op Op) string {
	n := arrNames[op.Arr]
	var s string
	switch op.Kind {
	case "set", "set-elems":
		s = fmt.Sprintf("%s=(%s)", n, elemsText(op.Elems))
	case "append", "append-elems":
		s = fmt.Sprintf("%s+=(%s)", n, elemsText(op.Elems))
	case "elem":
		s = fmt.Sprintf("%s[%d]=%s", n, op.Idx, op.Val)
	case "elem-neg":
		s = fmt.Sprintf("%s[-%d]=%s", n, op.Idx, op.Val)
	case "append-str":
		s = fmt.Sprintf("%s+=%s", n, op.Val)
	case "unset-elem":
		s = fmt.Sprintf("unset '%s[%d]'", n, op.Idx)
	case "unset-elem-neg":
		s = fmt.Sprintf("unset '%s[-%d]'", n, op.Idx)
	case "unset":
		s = "unset " + n
	default:
		return ":"
	}
	if op.Sub {
		return "( " + s + " )"
	}
	return s
}

func sliceText(op Op) string {
	off := fmt.Sprint(op.Off)
	if op.Off < 0 {
		off = " " + off
	}
	if op.HasLen {
		return fmt.Sprintf("%s:%d", off, op.Len)
	}
	return off
}

func angle(ss []string) string {
	if len(ss) == 0 {
		return "<>" // printf '<%s>' without arguments
	}
	var b strings.Builder
	for _, s := range ss {
		b.WriteString("<" + s + ">")
	}
	return b.String()
}

// dumpText is the shell text printing array n after a step, and want the
// lines the model predicts.
func dumpText(n string, a *arr, op Op) (text string, want []string) {
	var b strings.Builder
	ks := a.keys()
	var vs, kss []string
	for _, k := range ks {
		vs = append(vs, a.m[k])
		kss = append(kss, fmt.Sprint(k))
	}
	fmt.Fprintf(&b, "printf '%s@:'; printf '<%%s>' \"${%s[@]}\"; echo\n", n, n)
	want = append(want, n+"@:"+angle(vs))
	if a.set {
		// (the keys of an unset name are a fatal error in the interpreter:
		// C21's domain, not an array-as-map question)
		fmt.Fprintf(&b, "printf '%s!:'; printf '<%%s>' \"${!%s[@]}\"; echo\n", n, n)
		want = append(want, n+"!:"+angle(kss))
	}
	fmt.Fprintf(&b, "echo \"%s#:${#%s[@]}\"\n", n, n)
	want = append(want, fmt.Sprintf("%s#:%d", n, len(ks)))
	fmt.Fprintf(&b, "echo \"%s[%d]:[${%s[%d]}]\"\n", n, op.ReadIdx, n, op.ReadIdx)
	want = append(want, fmt.Sprintf("%s[%d]:[%s]", n, op.ReadIdx, a.m[op.ReadIdx]))
	if len(ks) > 0 {
		fmt.Fprintf(&b, "echo \"%s[-1]:[${%s[-1]}]\"\n", n, n)
		want = append(want, fmt.Sprintf("%s[-1]:[%s]", n, a.m[ks[len(ks)-1]]))
	}
	// slice: elements whose index is >= the offset (a negative offset counts
	// from one past the maximum index; before index 0 the result is empty)
	st := sliceText(op)
	fmt.Fprintf(&b, "printf '%s:%s:'; printf '<%%s>' \"${%s[@]:%s}\"; echo\n", n, strings.TrimSpace(st), n, st)
	var sl []string
	start := op.Off
	okStart := true
	if start < 0 {
		start += a.max() + 1
		okStart = start >= 0
	}
	if okStart {
		for _, k := range ks {
			if k < start {
				continue
			}
			if op.HasLen && len(sl) >= op.Len {
				break
			}
			sl = append(sl, a.m[k])
		}
	}
	want = append(want, fmt.Sprintf("%s:%s:%s", n, strings.TrimSpace(st), angle(sl)))
	return b.String(), want
}

type step struct {
	text string   // the operation and the dumps, with a leading marker line
	want []string // the model's lines, marker first
}

func marker(i int) string { return fmt.Sprintf("==step%d==", i) }

// build runs the model over the case and returns the steps actually in the
// script (operations invalid at their point are dropped).
func build(c Case) (steps []step, nUnset, nSparse int) {
	steps, nUnset, nSparse, _ = buildInfo(c)
	return
}

// buildInfo also reports whether the sequence unsets (as a whole) an array
// that came into being through name[i]=v on an unset name and was not
// assigned as a whole since (the class of C33-unset-after-elem-assign).
func buildInfo(c Case) (steps []step, nUnset, nSparse int, unsetOfElemCreated bool) {
	elemCreated := map[string]bool{}
	names := arrNames[:1]
	if c.Two {
		names = arrNames
	}
	st := map[string]*arr{"a": {m: map[int]string{}}, "b": {m: map[int]string{}}}
	for _, op := range c.Ops {
		if !c.Two {
			op.Arr = 0
		}
		a := st[arrNames[op.Arr]]
		trial := a.clone()
		if !apply(trial, op) {
			continue
		}
		if !op.Sub {
			n := arrNames[op.Arr]
			switch op.Kind {
			case "elem":
				if !a.set {
					elemCreated[n] = true
				}
			case "set", "set-elems", "append", "append-elems", "append-str":
				elemCreated[n] = false
			case "unset":
				if elemCreated[n] {
					unsetOfElemCreated = true
				}
			}
			*a = *trial
		}
		switch op.Kind {
		case "unset", "unset-elem", "unset-elem-neg":
			nUnset++
		}
		if ks := a.keys(); len(ks) > 0 && ks[len(ks)-1] != len(ks)-1 {
			nSparse++
		}
		var s step
		i := len(steps)
		s.text = "echo " + marker(i) + "\n" + opText(op) + "\n"
		s.want = append(s.want, marker(i))
		for _, n := range names {
			t, w := dumpText(n, st[n], op)
			s.text += t
			s.want = append(s.want, w...)
		}
		steps = append(steps, s)
	}
	return steps, nUnset, nSparse, unsetOfElemCreated
}

func script(c Case, steps []step) string {
	var b strings.Builder
	if c.Wrap != "" {
		b.WriteString("f() {\n")
		if c.Wrap == "func-local" {
			b.WriteString("local a b\n")
		}
	}
	for _, s := range steps {
		b.WriteString(s.text)
	}
	if c.Wrap != "" {
		b.WriteString("}\nf\n")
	}
	return b.String()
}

func runInterp(c Case, src, dir string) (out string, problem string) {
	f, err := syntax.NewParser(syntax.Variant(syntax.LangBash)).Parse(strings.NewReader(src), "")
	if err != nil {
		return "", fmt.Sprintf("harness: script does not parse: %v", err)
	}
	var ob, eb bytes.Buffer
	r, err := interp.New(interp.Dir(dir), interp.Env(expand.ListEnviron(oracle.Env(dir)...)), interp.StdIO(nil, &ob, &eb))
	if err != nil {
		return "", "harness: " + err.Error()
	}
	ctx, cancel := context.WithTimeout(context.Background(), 8*time.Second)
	defer cancel()
	defer func() {
		if e := recover(); e != nil {
			out = ob.String()
			problem = fmt.Sprintf("panic: %v", e)
		}
	}()
	// one statement per Run call: the Runner is used incrementally
	for _, st := range f.Stmts {
		r.Run(ctx, st)
		if r.Exited() {
			return ob.String(), "the interpreter exited the shell (stderr: " + strings.TrimSpace(eb.String()) + ")"
		}
	}
	if ctx.Err() != nil {
		return ob.String(), "timeout"
	}
	return ob.String(), ""
}

// cmpLines compares output lines with the expectation and names the step.
func cmpLines(got string, want []string, steps []step) string {
	gl := strings.Split(strings.TrimSuffix(got, "\n"), "\n")
	stepOf := func(i int) string {
		// find the step holding line i of want
		n := 0
		for k, s := range steps {
			if i < n+len(s.want) {
				return fmt.Sprintf("after step %d (%s)", k, strings.ReplaceAll(strings.SplitN(s.text, "\n", 3)[1], "\n", " "))
			}
			n += len(s.want)
		}
		return "past the last step"
	}
	for i := 0; i < len(want) || i < len(gl); i++ {
		var g, w string
		if i < len(gl) {
			g = gl[i]
		} else {
			g = "<missing line>"
		}
		if i < len(want) {
			w = want[i]
		} else {
			w = "<no more lines>"
		}
		if g != w {
			return fmt.Sprintf("%s: got %q, want %q", stepOf(i), g, w)
		}
	}
	return ""
}

var (
	wdPath string
	wdErr  error
	wdDone bool
)

func workDir() (string, error) {
	if !wdDone {
		wdPath, wdErr = oracle.NewDir()
		wdDone = true
	}
	return wdPath, wdErr
}

func check(c Case) (res vh.Result) {
	if id := excluded(c); id != "" {
		return vh.Result{Skipped: true, Classes: []string{"excluded:" + id}}
	}
	steps, nUnset, nSparse := build(c)
	if len(steps) == 0 {
		return vh.Result{Skipped: true, Classes: []string{"no-valid-op"}}
	}
	res.Nontrivial = len(steps) >= 5 && (nUnset > 0 || nSparse > 0)
	res.Classes = append(res.Classes, "wrap:"+c.Wrap)
	if nSparse > 0 {
		res.Classes = append(res.Classes, "sparse")
	}
	if nUnset > 0 {
		res.Classes = append(res.Classes, "unset")
	}
	seen := map[string]bool{}
	for _, op := range c.Ops {
		k := "op:" + op.Kind
		if op.Sub {
			k = "op-in-subshell"
		}
		if !seen[k] {
			seen[k] = true
			res.Classes = append(res.Classes, k)
		}
	}
	dir, err := workDir()
	if err != nil {
		return vh.Result{Skipped: true, Classes: []string{"infra"}}
	}
	src := script(c, steps)
	var want []string
	for _, s := range steps {
		want = append(want, s.want...)
	}
	got, problem := runInterp(c, src, dir)
	if strings.HasPrefix(problem, "harness") {
		return vh.Fail("%s\nscript:\n%s", problem, src)
	}
	if problem == "timeout" {
		return vh.Result{Skipped: true, Classes: []string{"interp-timeout"}}
	}
	modelDiff := cmpLines(got, want, steps)
	if problem != "" && modelDiff == "" {
		modelDiff = problem
	}
	br := oracle.RunShell(src, oracle.Opts{Dir: dir, Timeout: 10 * time.Second})
	if br.Err != nil || br.Timeout {
		return vh.Result{Skipped: true, Classes: []string{"bash-infra"}}
	}
	bashOut := string(br.Stdout)
	bashVsModel := cmpLines(bashOut, want, steps)
	if bashVsModel != "" {
		if bashOut == got {
			// the reference model is wrong about bash, and the interpreter
			// agrees with bash: a harness problem, counted, never reported
			res.Skipped = true
			res.Classes = append(res.Classes, "model-differs-from-bash-and-interp")
			if os.Getenv("C33_DEBUG") != "" {
				return vh.Fail("harness: model differs from bash and interp: %s\nscript:\n%s", bashVsModel, src)
			}
			return res
		}
		return vh.Fail("interpreter and bash disagree (the map model disagrees with bash too: %s): %s\nscript:\n%s\nbash stderr: %s",
			bashVsModel, cmpLines(got, strings.Split(strings.TrimSuffix(bashOut, "\n"), "\n"), steps), src, tail(string(br.Stderr)))
	}
	if modelDiff != "" {
		return vh.Fail("interpreter differs from the map model and from bash, %s\nscript:\n%s", modelDiff, src)
	}
	return res
}

func tail(s string) string {
	if len(s) > 300 {
		return "..." + s[len(s)-300:]
	}
	return s
}

var prop = vh.Prop[Case]{ID: "C33", Gen: gen, Check: check}

func TestC33(t *testing.T) { vh.Run(t, prop) }
