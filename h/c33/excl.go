package c33

import (
	"os"

	"verifh/vh"
)

// C27's confirmed defect: a string append (name+=word) done inside a subshell
// changes element 0 of the parent's array. Sequences holding that operation
// inside ( ) are skipped and counted while the finding is listed.
const exclAppendShared = "C27-array-string-append-shared"

const exclUnsetElemCreated = "C33-unset-after-elem-assign"

func excluded(c Case) string {
	if os.Getenv("VERIF_REPLAY") != "" {
		return ""
	}
	if vh.Excluded(exclAppendShared) {
		for _, op := range c.Ops {
			if op.Sub && op.Kind == "append-str" {
				return exclAppendShared
			}
		}
	}
	// name[i]=v on an unset name leaves the variable's Set flag false, so a
	// later "unset name" does nothing.
	if vh.Excluded(exclUnsetElemCreated) {
		if _, _, _, hit := buildInfo(c); hit {
			return exclUnsetElemCreated
		}
	}
	return ""
}
