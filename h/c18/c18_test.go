// C18: QuoteMeta and HasMeta are consistent with matching.
//
// For every string s, QuoteMeta(s) is a pattern without metacharacters that
// matches s and nothing else. For every pattern p where HasMeta reports false,
// p matches at most one string: p with its escapes removed.
//
// "Matches exactly one string" is decided exactly: the expression Regexp
// returns is parsed with regexp/syntax and must be ^literal$ (begin-text,
// a literal, end-text); no sampling is involved in that step. Matching the
// string itself and rejecting its one-edit neighbours is checked redundantly.
package c18

import (
	"fmt"
	"regexp"
	"regexp/syntax"
	"strings"
	"testing"
	"unicode/utf8"

	"mvdan.cc/sh/v3/pattern"
	"pgregory.net/rapid"

	"verifh/vh"
)

func TestMain(m *testing.M) { vh.Main(m) }

// Case: S is used both as the text given to QuoteMeta and as the pattern given
// to HasMeta. Mode is the Mode passed to Regexp (and to the two functions,
// which document that they ignore it).
type Case struct {
	S    string `json:"s"`
	Mode uint   `json:"mode"`
}

const (
	mS  = uint(pattern.Shortest)
	mF  = uint(pattern.Filenames)
	mE  = uint(pattern.EntireString)
	mI  = uint(pattern.NoGlobCase)
	mNS = uint(pattern.NoGlobStar)
	mD  = uint(pattern.GlobLeadingDot)
	mX  = uint(pattern.ExtendedOperators)
)

// exactLiteral reports the single string the expression matches when its
// syntax tree is ^literal$ (flags allowed: the literal must not fold case).
func exactLiteral(expr string) (lit string, ok bool, why string) {
	re, err := syntax.Parse(expr, syntax.Perl)
	if err != nil {
		return "", false, "does not parse: " + err.Error()
	}
	re = re.Simplify()
	subs := []*syntax.Regexp{re}
	if re.Op == syntax.OpConcat {
		subs = re.Sub
	}
	if len(subs) < 2 || subs[0].Op != syntax.OpBeginText || subs[len(subs)-1].Op != syntax.OpEndText {
		return "", false, "is not anchored with ^ and $ (tree " + re.String() + ")"
	}
	var sb strings.Builder
	for _, s := range subs[1 : len(subs)-1] {
		switch s.Op {
		case syntax.OpLiteral:
			if s.Flags&syntax.FoldCase != 0 {
				return "", false, "has a case-folding literal"
			}
			sb.WriteString(string(s.Rune))
		case syntax.OpEmptyMatch:
		default:
			return "", false, fmt.Sprintf("has a non-literal element %s (%s)", s.Op, s.String())
		}
	}
	return sb.String(), true, ""
}

// unescape removes the pattern escapes of p: a backslash makes the next
// character literal. ok is false for a trailing backslash.
func unescape(p string) (string, bool) {
	var sb strings.Builder
	for i := 0; i < len(p); i++ {
		if p[i] == '\\' {
			i++
			if i >= len(p) {
				return "", false
			}
		}
		sb.WriteByte(p[i])
	}
	return sb.String(), true
}

// neighbours returns strings at edit distance one from s (and a few at two).
func neighbours(s string) []string {
	rs := []rune(s)
	extra := []rune{'a', '\\', '*', '?', '[', ']', 'X', '.', '\n', 'é', '/'}
	seen := map[string]bool{s: true}
	var out []string
	add := func(t string) {
		if !seen[t] {
			seen[t] = true
			out = append(out, t)
		}
	}
	for i := range rs {
		add(string(rs[:i]) + string(rs[i+1:])) // delete
		for _, r := range extra {
			add(string(rs[:i]) + string(r) + string(rs[i+1:])) // replace
		}
	}
	for i := 0; i <= len(rs); i++ {
		for _, r := range extra {
			add(string(rs[:i]) + string(r) + string(rs[i:])) // insert
		}
	}
	add(s + s)
	add(strings.ToUpper(s))
	add(strings.ToLower(s))
	return out
}

func check(c Case) (res vh.Result) {
	s := c.S
	if !utf8.ValidString(s) || strings.ContainsRune(s, 0) {
		return vh.Result{Skipped: true, Classes: []string{"skip:not-utf8-or-nul"}}
	}
	// The mode given to Regexp always includes EntireString (the property is
	// about which strings a pattern matches as a whole); the HasMeta clause is
	// restricted to case-sensitive, non-extended modes (DESIGN section 6.8):
	// HasMeta documents * ? [ as THE metacharacters and ignores its Mode.
	mode := (c.Mode & 127) | mE
	class := func(k string) { res.Classes = append(res.Classes, k) }
	metaChars := strings.ContainsAny(s, `*?[\`)
	if metaChars {
		class("has-special-char")
	}
	if strings.IndexFunc(s, func(r rune) bool { return r >= 0x80 }) >= 0 {
		class("multibyte")
	}

	// ---- clause 1: QuoteMeta ----
	var q string
	if pe := guard(func() { q = pattern.QuoteMeta(s, pattern.Mode(c.Mode&127)) }); pe != nil {
		return fail(res, "QuoteMeta(%q) panicked: %v", s, pe)
	}
	if q0 := pattern.QuoteMeta(s, 0); q0 != q {
		return fail(res, "QuoteMeta(%q) depends on its Mode argument, documented as unused: %q with mode %d, %q with 0", s, q, c.Mode&127, q0)
	}
	var has bool
	if pe := guard(func() { has = pattern.HasMeta(q, pattern.Mode(c.Mode&127)) }); pe != nil {
		return fail(res, "HasMeta(%q) panicked: %v", q, pe)
	}
	if has {
		return fail(res, "QuoteMeta(%q) = %q still has metacharacters according to HasMeta", s, q)
	}
	if u, ok := unescape(q); !ok || u != s {
		return fail(res, "QuoteMeta(%q) = %q does not unescape back to the text (got %q, ok=%v)", s, q, u, ok)
	}
	// Quoting protects the text in every case-sensitive mode, extended
	// operators included only when the text has none of their characters
	// (QuoteMeta documents * ? [ \ as what it quotes).
	qmode := mode &^ mI
	if strings.ContainsAny(s, "()|") {
		qmode &^= mX
	}
	{
		expr, err := regexpGuard(q, qmode)
		if err != nil {
			return fail(res, "Regexp(QuoteMeta(%q) = %q, mode %d) = error %v", s, q, qmode, err)
		}
		rx, cerr := regexp.Compile(expr)
		if cerr != nil {
			return fail(res, "Regexp(QuoteMeta(%q) = %q, mode %d) = %q does not compile: %q", s, q, qmode, expr, cerr.Error())
		}
		lit, ok, why := exactLiteral(expr)
		if !ok {
			return fail(res, "Regexp(QuoteMeta(%q) = %q, mode %d) = %q %s: it can match other strings than the text", s, q, qmode, expr, why)
		}
		if lit != s {
			return fail(res, "Regexp(QuoteMeta(%q) = %q, mode %d) = %q matches exactly %q, not the text", s, q, qmode, expr, lit)
		}
		if !rx.MatchString(s) {
			return fail(res, "Regexp(QuoteMeta(%q) = %q, mode %d) = %q does not match the text", s, q, qmode, expr)
		}
		for _, n := range neighbours(s) {
			if rx.MatchString(n) {
				return fail(res, "Regexp(QuoteMeta(%q) = %q, mode %d) = %q also matches %q", s, q, qmode, expr, n)
			}
		}
	}

	// ---- clause 2: HasMeta(p) false => p matches at most unescape(p) ----
	p := s
	var hm bool
	if pe := guard(func() { hm = pattern.HasMeta(p, pattern.Mode(c.Mode&127)) }); pe != nil {
		return fail(res, "HasMeta(%q) panicked: %v", p, pe)
	}
	if hm0 := pattern.HasMeta(p, 0); hm0 != hm {
		return fail(res, "HasMeta(%q) depends on its Mode argument, documented as unused", p)
	}
	if hm {
		class("hasmeta:true")
	} else {
		class("hasmeta:false")
		hmode := mode &^ (mI | mX)
		expr, err := regexpGuard(p, hmode)
		if err != nil {
			// "at most one string": a rejected pattern matches none.
			class("hasmeta:false-rejected")
			switch err.(type) {
			case *pattern.SyntaxError, pattern.SyntaxError:
			default:
				return fail(res, "Regexp(%q, mode %d) = error of type %T", p, hmode, err)
			}
		} else {
			rx, cerr := regexp.Compile(expr)
			if cerr != nil {
				return fail(res, "HasMeta(%q) = false; Regexp(%q, mode %d) = %q does not compile: %q", p, p, hmode, expr, cerr.Error())
			}
			want, uok := unescape(p)
			lit, ok, why := exactLiteral(expr)
			if !ok {
				return fail(res, "HasMeta(%q) = false, but Regexp(%q, mode %d) = %q %s: the pattern can match more than one string", p, p, hmode, expr, why)
			}
			if !uok {
				return fail(res, "HasMeta(%q) = false, Regexp accepts a pattern ending in a lone backslash (matches %q)", p, lit)
			}
			if lit != want {
				return fail(res, "HasMeta(%q) = false, but Regexp(%q, mode %d) = %q matches %q, not the pattern with its escapes removed (%q)", p, p, hmode, expr, lit, want)
			}
			if !rx.MatchString(want) {
				return fail(res, "Regexp(%q, mode %d) = %q does not match %q", p, hmode, expr, want)
			}
			for _, n := range neighbours(want) {
				if rx.MatchString(n) {
					return fail(res, "HasMeta(%q) = false, but Regexp(%q, mode %d) = %q matches %q as well as %q", p, p, hmode, expr, n, want)
				}
			}
		}
	}
	// Non-trivial: the text has a character that quoting or HasMeta must
	// treat specially.
	res.Nontrivial = metaChars
	return res
}

func regexpGuard(p string, mode uint) (expr string, err error) {
	if pe := guard(func() { expr, err = pattern.Regexp(p, pattern.Mode(mode)) }); pe != nil {
		return "", fmt.Errorf("panic: %v", pe)
	}
	return expr, err
}

func fail(res vh.Result, format string, args ...any) vh.Result {
	res.Err = fmt.Sprintf(format, args...)
	return res
}

func guard(f func()) (err error) {
	defer func() {
		if e := recover(); e != nil {
			err = fmt.Errorf("%v", e)
		}
	}()
	f()
	return nil
}

var alphabet = []rune{'*', '?', '[', ']', '!', '^', '-', '\\', '/', '.', 'a', 'b', 'A', '(', '|', ')', '@', '+', ':', 'é', '世', '\n', ' ', '{', '}', '$'}

var modePool = []uint{mE, mE, 0, mS, mE | mF, mE | mF | mD, mE | mF | mNS, mE | mX, mE | mI, mE | mF | mX | mNS, mE | mS}

func gen(t *rapid.T) Case {
	var c Case
	c.Mode = rapid.SampledFrom(modePool).Draw(t, "mode")
	if rapid.IntRange(0, 9).Draw(t, "anymode") == 0 {
		c.Mode = uint(rapid.IntRange(0, 127).Draw(t, "bits"))
	}
	switch rapid.IntRange(0, 9).Draw(t, "kind") {
	case 0:
		c.S = rapid.SampledFrom([]string{"", `\`, `\\`, `[`, `[]`, `[]]`, `[a]`, `[a`, `a]`, `[a\]`, `\[a]`, `[\]`, `[[:alpha:]]`, `[[:`, `[!]`, `[!]]`, `**`, `a/**/b`, `[a/b]`, `[a\/b]`, `][`, `]a[`, `[\\]`, `\*`, `a\`, `[]a`, `[^]`, `[z-a]`, `[[.a.]]`}).Draw(t, "fixed")
	case 1:
		c.S = rapid.StringN(0, 6, 24).Draw(t, "anystring")
	default:
		n := rapid.IntRange(0, 8).Draw(t, "n")
		rs := make([]rune, n)
		for i := range rs {
			rs[i] = rapid.SampledFrom(alphabet).Draw(t, "r")
		}
		c.S = string(rs)
	}
	return c
}

var prop = vh.Prop[Case]{ID: "C18", Gen: gen, Check: check}

func TestC18(t *testing.T) { vh.Run(t, prop) }

// TestC18Enum: every string up to length 5 (6 in the thorough tier) over the
// alphabet * ? [ ] \ ! - a / in the modes EntireString, Filenames|EntireString
// and EntireString|ExtendedOperators.
func TestC18Enum(t *testing.T) {
	shard, n := vh.Shard()
	vh.SetExhaustive("C18")
	alpha := []rune(`*?[]\!-a/`)
	maxLen := vh.Scale(5, 6)
	idx := 0
	var rec func(prefix []rune)
	rec = func(prefix []rune) {
		if idx%n == shard {
			for _, m := range []uint{mE, mE | mF, mE | mX} {
				vh.Each(t, prop, Case{S: string(prefix), Mode: m})
			}
		}
		idx++
		if len(prefix) == maxLen {
			return
		}
		for _, r := range alpha {
			rec(append(prefix, r))
		}
	}
	rec(nil)
}
