// Package sx wraps the syntax package's entry points with panic recovery.
package sx

import (
	"bytes"
	"fmt"
	"runtime/debug"
	"strings"

	"mvdan.cc/sh/v3/syntax"

	"verifh/gen"
)

// Panic describes a recovered panic.
type Panic struct {
	Val   any
	Stack string
}

func (p *Panic) Error() string { return fmt.Sprintf("panic: %v\n%s", p.Val, clip(p.Stack, 1500)) }

func clip(s string, n int) string {
	if len(s) > n {
		return s[:n] + "…"
	}
	return s
}

// Guard runs f and converts a panic into *Panic.
func Guard(f func()) (p *Panic) {
	defer func() {
		if e := recover(); e != nil {
			p = &Panic{Val: e, Stack: string(debug.Stack())}
		}
	}()
	f()
	return nil
}

// Parse parses src in the named variant.
func Parse(src, lang string, keepComments bool, extra ...syntax.ParserOption) (f *syntax.File, err error, p *Panic) {
	opts := append([]syntax.ParserOption{syntax.Variant(gen.LangByName(lang)), syntax.KeepComments(keepComments)}, extra...)
	p = Guard(func() {
		f, err = syntax.NewParser(opts...).Parse(strings.NewReader(src), "")
	})
	return
}

// Print prints node with the configuration.
func Print(node syntax.Node, cfg gen.PrinterCfg) (out string, err error, p *Panic) {
	var buf bytes.Buffer
	p = Guard(func() {
		err = syntax.NewPrinter(cfg.Options()...).Print(&buf, node)
	})
	return buf.String(), err, p
}
