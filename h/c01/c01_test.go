// C01: Formatting preserves program structure.
package c01

import (
	"fmt"
	"strings"
	"testing"

	"mvdan.cc/sh/v3/syntax"
	"pgregory.net/rapid"

	"verifh/gen"
	"verifh/norm"
	"verifh/sx"
	"verifh/synex"
	"verifh/vh"
)

func TestMain(m *testing.M) { vh.Main(m) }

type Case struct {
	Src      string         `json:"src"`
	Lang     string         `json:"lang"`
	Cfg      gen.PrinterCfg `json:"cfg"`
	Simplify bool           `json:"simplify,omitempty"`
	Comments bool           `json:"keep_comments"`
	// Sub >= 0 additionally prints the Sub-th (mod count) statement,
	// command or argument word on its own.
	Sub int `json:"sub"`
}

func genCase(t *rapid.T) Case {
	c := Case{Lang: gen.Lang(t)}
	c.Src = gen.Valid(t, gen.LangByName(c.Lang))
	c.Cfg = gen.Printer(t, true)
	c.Simplify = rapid.IntRange(0, 3).Draw(t, "simplify") == 0
	c.Comments = rapid.IntRange(0, 3).Draw(t, "comments") != 0
	c.Sub = rapid.IntRange(-1, 40).Draw(t, "sub")
	return c
}

const minifySingleLineMsg = "Minify and SingleLine together are not supported"

func check(c Case) (res vh.Result) {
	file, err, pn := sx.Parse(c.Src, c.Lang, c.Comments)
	if pn != nil || err != nil {
		// outside the domain (C06 owns parser panics)
		return vh.Result{Skipped: true, Classes: []string{"parse-fail"}}
	}
	res.Classes = append(res.Classes, "lang:"+c.Lang)
	if excl := excluded(c, file); excl != "" {
		return vh.Result{Skipped: true, Classes: []string{"excluded:" + excl}}
	}
	if c.Simplify {
		if p := sx.Guard(func() { syntax.Simplify(file) }); p != nil {
			return vh.Fail("Simplify panicked: %v", p)
		}
		res.Classes = append(res.Classes, "simplify")
	}
	dopts := norm.DumpOpts{Minify: c.Cfg.Minify}
	want := norm.Dump(file, dopts)

	out, err, pn := sx.Print(file, c.Cfg)
	if pn != nil {
		return vh.Fail("Print panicked: %v", pn)
	}
	if c.Cfg.Minify && c.Cfg.SingleLine {
		res.Classes = append(res.Classes, "minify+singleline")
		if err == nil || !strings.Contains(err.Error(), minifySingleLineMsg) {
			return vh.Fail("Minify+SingleLine: want the documented refusal, got err=%v", err)
		}
		return res
	}
	if err != nil {
		return vh.Fail("Print failed on a parsed tree: %v", err)
	}
	re, err, pn := sx.Parse(out, c.Lang, c.Comments)
	if pn != nil {
		return vh.Fail("re-parse of printed output panicked: %v\noutput: %q", pn, out)
	}
	if err != nil {
		return vh.Fail("printed output does not parse as %s: %v\noutput: %q", c.Lang, err, out)
	}
	got := norm.Dump(re, dopts)
	if got != want {
		return vh.Fail("tree changed by print→parse (%s)\noutput: %q", norm.FirstDiff(want, got), out)
	}
	complex := strings.Contains(want, "Clause{") || strings.Contains(want, "CmdSubst{") || strings.Contains(want, "ParamExp{") ||
		strings.Contains(want, "Quoted{") || strings.Contains(want, "BinaryCmd{") || strings.Contains(want, "Redirect{") ||
		strings.Contains(want, "Block{") || strings.Contains(want, "Subshell{") || strings.Contains(want, "FuncDecl{") || strings.Contains(want, "Arithm")
	res.Nontrivial = complex && out != c.Src
	if strings.Contains(want, "Hdoc:Word") {
		res.Classes = append(res.Classes, "heredoc")
	}
	if strings.Contains(c.Src, "\\\n") {
		res.Classes = append(res.Classes, "escaped-newline")
	}

	if c.Sub >= 0 {
		if r := checkSub(c, file, dopts); r != "" {
			return vh.Fail("%s", r)
		}
		res.Classes = append(res.Classes, "subnode")
	}
	return res
}

// checkSub prints one statement, command or argument word on its own.
func checkSub(c Case, file *syntax.File, dopts norm.DumpOpts) string {
	type cand struct {
		n    syntax.Node
		kind string
	}
	var cands []cand
	items := norm.Enumerate(file)
	for _, it := range items {
		switch n := it.Node.(type) {
		case *syntax.Stmt:
			cands = append(cands, cand{n, "stmt"})
		case *syntax.Word:
			if it.Field == "CallExpr.Args" {
				// skip the command name itself: position 0 is a word used as
				// command, not as argument
				par := items[it.Parent].Node.(*syntax.CallExpr)
				if len(par.Args) > 0 && par.Args[0] != n {
					cands = append(cands, cand{n, "word"})
				}
			}
		default:
			if it.Field == "IfClause.Else" {
				// an elif/else branch is not a command of its own
				continue
			}
			if cmd, ok := it.Node.(syntax.Command); ok {
				cands = append(cands, cand{cmd, "command"})
			}
		}
	}
	if len(cands) == 0 {
		return ""
	}
	cd := cands[c.Sub%len(cands)]
	if vh.Excluded("C01-lone-empty-compound") && cd.kind != "word" && synex.HasEmptyCompound(cd.n) {
		return ""
	}
	if vh.Excluded("C01-keeppadding-lone-node") && c.Cfg.KeepPadding {
		return ""
	}
	if vh.Excluded("C01-lone-multiline-array") && cd.kind != "word" && synex.MultilineArray(cd.n) {
		return ""
	}
	if vh.Excluded("C01-lone-nested-subshell") && cd.kind != "word" && synex.LoneSubshellParen(cd.n) {
		return ""
	}
	out, err, pn := sx.Print(cd.n, c.Cfg)
	if pn != nil {
		return fmt.Sprintf("Print of a lone %s (%T) panicked: %v", cd.kind, cd.n, pn)
	}
	if err != nil {
		return fmt.Sprintf("Print of a lone %s (%T) failed: %v", cd.kind, cd.n, err)
	}
	src := out
	if cd.kind == "word" {
		src = "x " + out
	}
	re, err, pn := sx.Parse(src, c.Lang, c.Comments)
	if pn != nil {
		return fmt.Sprintf("re-parse of a lone %s panicked: %v\noutput: %q", cd.kind, pn, out)
	}
	if err != nil {
		return fmt.Sprintf("lone %s (%T) printed as %q does not parse as %s: %v", cd.kind, cd.n, out, c.Lang, err)
	}
	if len(re.Stmts) != 1 {
		return fmt.Sprintf("lone %s (%T) printed as %q re-parses to %d statements", cd.kind, cd.n, out, len(re.Stmts))
	}
	var gotNode any
	switch cd.kind {
	case "stmt":
		gotNode = re.Stmts[0]
	case "command":
		st := re.Stmts[0]
		if st.Negated || st.Background || st.Coprocess || st.Disown || len(st.Redirs) > 0 {
			return fmt.Sprintf("lone command (%T) printed as %q re-parses to a statement with extra attributes", cd.n, out)
		}
		gotNode = st.Cmd
	case "word":
		ce, ok := re.Stmts[0].Cmd.(*syntax.CallExpr)
		if !ok || len(ce.Args) != 2 || len(ce.Assigns) != 0 || len(re.Stmts[0].Redirs) != 0 {
			return fmt.Sprintf("lone argument word printed as %q does not re-parse to one argument", out)
		}
		gotNode = ce.Args[1]
	}
	want, got := norm.Dump(cd.n, dopts), norm.Dump(gotNode, dopts)
	if want != got {
		return fmt.Sprintf("lone %s (%T) changed by print→parse (%s)\noutput: %q", cd.kind, cd.n, norm.FirstDiff(want, got), out)
	}
	return ""
}

// excluded returns the id of an active known-finding exclusion class that the
// case falls in ("" if none). Predicates look at the case only.
func excluded(c Case, file *syntax.File) string {
	return synex.Excluded(synex.NewCtx(c.Src, c.Lang, file, c.Cfg))
}

var prop = vh.Prop[Case]{ID: "C01", Gen: genCase, Check: check, Text: func(c *Case) *string { return &c.Src }}

func TestC01(t *testing.T) { vh.Run(t, prop) }
