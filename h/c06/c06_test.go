// C06: Parsing and printing never crash or hang.
package c06

import (
	"bytes"
	"fmt"
	"io"
	"strings"
	"syscall"
	"testing"
	"time"

	"mvdan.cc/sh/v3/syntax"
	"mvdan.cc/sh/v3/syntax/typedjson"
	"pgregory.net/rapid"

	"verifh/gen"
	"verifh/sx"
	"verifh/vh"
)

func TestMain(m *testing.M) { vh.Main(m) }

type Case struct {
	Src      string `json:"src"`
	Lang     string `json:"lang"`
	Entry    string `json:"entry"` // parse stmts words interactive document arithmetic
	Comments bool   `json:"keep_comments,omitempty"`
	StopAt   string `json:"stop_at,omitempty"`
	Recover  int    `json:"recover,omitempty"`
	// StopAfter breaks out of StmtsSeq/WordsSeq/InteractiveSeq after that
	// many yields (0 = never).
	StopAfter int `json:"stop_after,omitempty"`
	// Family/N describe a size-scaling case instead of Src.
	Family string `json:"family,omitempty"`
	N      int    `json:"n,omitempty"`
}

var entries = []string{"parse", "parse", "parse", "stmts", "words", "interactive", "document", "arithmetic"}

func genCase(t *rapid.T) Case {
	c := Case{Lang: gen.Lang(t)}
	c.Src = gen.Any(t, gen.LangByName(c.Lang))
	c.Entry = rapid.SampledFrom(entries).Draw(t, "entry")
	c.Comments = rapid.Bool().Draw(t, "comments")
	switch rapid.IntRange(0, 5).Draw(t, "stopat") {
	case 0:
		c.StopAt = rapid.SampledFrom([]string{"$$", "%", "EOF", "}", "@@@@", ";", "#", "\\", "é", "a", "''"}).Draw(t, "stopword")
	}
	switch rapid.IntRange(0, 3).Draw(t, "recover") {
	case 0:
		c.Recover = rapid.SampledFrom([]int{1, 3, 50}).Draw(t, "recovern")
	}
	if rapid.IntRange(0, 3).Draw(t, "stopafter") == 0 {
		c.StopAfter = rapid.IntRange(1, 3).Draw(t, "stopaftern")
	}
	return c
}

func options(c Case) []syntax.ParserOption {
	opts := []syntax.ParserOption{syntax.Variant(gen.LangByName(c.Lang)), syntax.KeepComments(c.Comments)}
	if c.StopAt != "" {
		opts = append(opts, syntax.StopAt(c.StopAt))
	}
	if c.Recover > 0 {
		opts = append(opts, syntax.RecoverErrors(c.Recover))
	}
	return opts
}

// lineReader hands out one line per Read, as a terminal would.
type lineReader struct{ s string }

func (r *lineReader) Read(p []byte) (int, error) {
	if r.s == "" {
		return 0, io.EOF
	}
	i := strings.IndexByte(r.s, '\n')
	n := len(r.s)
	if i >= 0 {
		n = i + 1
	}
	n = copy(p, r.s[:n])
	r.s = r.s[n:]
	return n, nil
}

var printCfgs = []gen.PrinterCfg{
	{}, {Indent: 4, BinaryNextLine: true, SwitchCaseIndent: true, SpaceRedirects: true, FunctionNextLine: true},
	{Minify: true}, {SingleLine: true}, {KeepPadding: true}, {Indent: 2, KeepPadding: true, SingleLine: true},
}

// use runs every consumer of a tree that came back without an error.
func use(node syntax.Node) string {
	if node == nil {
		return ""
	}
	for _, cfg := range printCfgs {
		if pn := sx.Guard(func() { syntax.NewPrinter(cfg.Options()...).Print(io.Discard, node) }); pn != nil {
			return fmt.Sprintf("Print(%+v) of %T panicked: %v", cfg, node, pn)
		}
	}
	if pn := sx.Guard(func() {
		syntax.Walk(node, func(syntax.Node) bool { return true })
		for range syntax.Preorder(node) {
		}
	}); pn != nil {
		return fmt.Sprintf("Walk/Preorder of %T panicked: %v", node, pn)
	}
	if pn := sx.Guard(func() { typedjson.Encode(io.Discard, node) }); pn != nil {
		return fmt.Sprintf("typedjson.Encode of %T panicked: %v", node, pn)
	}
	if pn := sx.Guard(func() { syntax.Simplify(node) }); pn != nil {
		return fmt.Sprintf("Simplify of %T panicked: %v", node, pn)
	}
	// the simplified tree is printed again
	if pn := sx.Guard(func() { syntax.NewPrinter().Print(io.Discard, node) }); pn != nil {
		return fmt.Sprintf("Print after Simplify of %T panicked: %v", node, pn)
	}
	return ""
}

// run executes one entry point; it returns a failure description.
func run(c Case, src string) string { return runOpt(c, src, true) }

// runOpt: post selects whether returned trees are post-processed (the time
// clause of the property is about the parsing entry points only).
func runOpt(c Case, src string, post bool) string {
	use := use
	if !post {
		use = func(syntax.Node) string { return "" }
	}
	p := syntax.NewParser(options(c)...)
	var fail string
	pn := sx.Guard(func() {
		switch c.Entry {
		case "parse":
			f, err := p.Parse(strings.NewReader(src), "")
			if err == nil {
				fail = use(f)
			}
		case "stmts":
			n := 0
			for st, err := range p.StmtsSeq(strings.NewReader(src)) {
				if err != nil {
					break
				}
				if fail = use(st); fail != "" {
					return
				}
				if n++; c.StopAfter > 0 && n >= c.StopAfter {
					break
				}
			}
		case "words":
			n := 0
			for w, err := range p.WordsSeq(strings.NewReader(src)) {
				if err != nil {
					break
				}
				if w != nil && len(w.Parts) > 0 {
					if fail = use(w); fail != "" {
						return
					}
				}
				if n++; c.StopAfter > 0 && n >= c.StopAfter {
					break
				}
			}
		case "interactive":
			n := 0
			for stmts, err := range p.InteractiveSeq(&lineReader{s: src}) {
				if err != nil {
					break
				}
				if !p.Incomplete() {
					for _, st := range stmts {
						if fail = use(st); fail != "" {
							return
						}
					}
				}
				if n++; c.StopAfter > 0 && n >= c.StopAfter {
					break
				}
			}
		case "document":
			w, err := p.Document(strings.NewReader(src))
			if err == nil && w != nil && len(w.Parts) > 0 {
				fail = use(w)
			}
		case "arithmetic":
			x, err := p.Arithmetic(strings.NewReader(src))
			if err == nil && x != nil {
				if pn := sx.Guard(func() {
					syntax.Walk(x, func(syntax.Node) bool { return true })
					typedjson.Encode(io.Discard, x)
				}); pn != nil {
					fail = fmt.Sprintf("Walk/Encode of an arithmetic expression panicked: %v", pn)
				}
			}
		}
	})
	if pn != nil {
		return fmt.Sprintf("%s panicked: %v", c.Entry, pn)
	}
	return fail
}

// guarded runs f with a hang guard; done=false means the guard fired.
func guarded(d time.Duration, f func() string) (res string, done bool) {
	ch := make(chan string, 1)
	go func() { ch <- f() }()
	select {
	case r := <-ch:
		return r, true
	case <-time.After(d):
		return "", false
	}
}

func family(name string, n int) string {
	switch name {
	case "cmdsubst-depth":
		return strings.Repeat("$(", n) + "x" + strings.Repeat(")", n)
	case "arith-depth":
		return "echo $((" + strings.Repeat("(", n) + "1" + strings.Repeat(")", n) + "))"
	case "block-depth":
		return strings.Repeat("{ ", n) + "x" + strings.Repeat("; }", n)
	case "subshell-depth":
		return strings.Repeat("( ", n) + "x" + strings.Repeat(" )", n)
	case "backquote-run":
		return strings.Repeat("`a` ", n)
	case "heredocs":
		var sb strings.Builder
		for i := 0; i < n; i++ {
			fmt.Fprintf(&sb, "cat <<E%d\nbody $x\nE%d\n", i, i)
		}
		return sb.String()
	case "backslashes":
		return "echo " + strings.Repeat(`\\`, n)
	case "long-word":
		return "echo " + strings.Repeat("a", n)
	case "long-line":
		return strings.Repeat("a b; ", n)
	case "many-lines":
		return strings.Repeat("foo bar\n", n)
	case "dquote-params":
		return `echo "` + strings.Repeat("$a${b:-c}", n) + `"`
	case "pipeline":
		return strings.Repeat("a | ", n) + "b"
	case "andor":
		return strings.Repeat("a && b || ", n) + "c"
	case "if-depth":
		return strings.Repeat("if a; then ", n) + "x" + strings.Repeat("; fi", n)
	case "case-items":
		return "case x in " + strings.Repeat("a|b) c;; ", n) + "esac"
	case "unterminated-dquote":
		return `echo "` + strings.Repeat("a ", n)
	case "open-parens":
		return strings.Repeat("(", n)
	case "open-braces-param":
		return strings.Repeat("${a:-", n)
	case "comments":
		return strings.Repeat("# c\n", n)
	case "array":
		return "a=(" + strings.Repeat("x ", n) + ")"
	}
	return ""
}

var families = []string{"cmdsubst-depth", "arith-depth", "block-depth", "subshell-depth", "backquote-run", "heredocs", "backslashes", "long-word", "long-line", "many-lines", "dquote-params", "pipeline", "andor", "if-depth", "case-items", "unterminated-dquote", "open-parens", "open-braces-param", "comments", "array"}

func hasMeta(s string) bool { return strings.ContainsAny(s, " \t\n;&|()<>{}$`\"'\\#!=[]*?~") }

func check(c Case) (res vh.Result) {
	if c.Family != "" {
		return checkScaling(c)
	}
	if c.StopAt != "" && (len(c.StopAt) > 4 || strings.ContainsAny(c.StopAt, " \t\n\r")) {
		return vh.Result{Skipped: true, Classes: []string{"bad-stopat"}}
	}
	if id := excluded(c); id != "" {
		return vh.Result{Skipped: true, Classes: []string{"excluded:" + id}}
	}
	limit := 5 * time.Second
	if len(c.Src) > 4096 {
		limit = 20 * time.Second
	}
	fail, done := guarded(limit, func() string { return run(c, c.Src) })
	if !done {
		// confirm in isolation before reporting a hang
		for i := 0; i < 2; i++ {
			if _, done = guarded(limit, func() string { return run(c, c.Src) }); done {
				return vh.Result{Classes: []string{"slow-once"}}
			}
		}
		return vh.Fail("%s did not return within %v on a %d-byte input (3 attempts)", c.Entry, limit, len(c.Src))
	}
	if fail != "" {
		return vh.Fail("%s", fail)
	}
	res.Nontrivial = hasMeta(c.Src)
	res.Classes = append(res.Classes, "entry:"+c.Entry)
	if c.Recover > 0 {
		res.Classes = append(res.Classes, "recover")
	}
	if c.StopAt != "" {
		res.Classes = append(res.Classes, "stopat")
	}
	return res
}

// checkScaling: t(4n) / t(n) stays far below quadratic growth and the
// largest size finishes within a generous bound.
func cpuTime() time.Duration {
	var ru syscall.Rusage
	if err := syscall.Getrusage(syscall.RUSAGE_SELF, &ru); err != nil {
		return 0
	}
	return time.Duration(ru.Utime.Nano() + ru.Stime.Nano())
}

func checkScaling(c Case) (res vh.Result) {
	// timeOf returns the smallest CPU time (whole process: the parser plus
	// the collector it keeps busy) of five runs. Wall-clock time is useless
	// on a loaded machine: with other checks running, deeply nested inputs
	// showed wall ratios above 200 for a fourfold input while their CPU time
	// grew threefold.
	timeOfFam := func(fam string, n int) (time.Duration, string, bool) {
		src := family(fam, n)
		best := time.Duration(1<<62 - 1)
		for i := 0; i < 5; i++ {
			t0, w0 := cpuTime(), time.Now()
			fail, done := guarded(60*time.Second, func() string { return runOpt(c, src, false) })
			if !done {
				return 0, "", false
			}
			if fail != "" {
				return 0, fail, true
			}
			d := cpuTime() - t0
			if d <= 0 {
				d = time.Since(w0)
			}
			if d < best {
				best = d
			}
		}
		return best, "", true
	}
	timeOf := func(n int) (time.Duration, string, bool) { return timeOfFam(c.Family, n) }
	t1, fail, done := timeOf(c.N)
	if fail != "" {
		return vh.Fail("family %s n=%d: %s", c.Family, c.N, fail)
	}
	if !done {
		return vh.Result{Skipped: true, Classes: []string{"inconclusive:60s-guard"}}
	}
	t4, fail, done := timeOf(4 * c.N)
	if fail != "" {
		return vh.Fail("family %s n=%d: %s", c.Family, 4*c.N, fail)
	}
	if !done {
		return vh.Result{Skipped: true, Classes: []string{"inconclusive:60s-guard"}}
	}
	res.Nontrivial = true
	res.Classes = append(res.Classes, "family:"+c.Family)
	res.Key = fmt.Sprintf("scale:%s:%d:%s:%s", c.Family, c.N, c.Entry, c.Lang)
	// quadratic behaviour gives a ratio of 16; linear gives 4. Only judge
	// when the larger run is long enough to be measurable; a suspicious ratio
	// must show again in three further measurements taken a second apart, and
	// a linear control family measured at the same moment must look linear
	// (otherwise the machine is too busy to tell: inconclusive, not a
	// violation).
	suspicious := func(a, b time.Duration) bool {
		return b > 300*time.Millisecond && a > 0 && float64(b)/float64(a) > 12
	}
	if suspicious(t1, t4) {
		ratios := []float64{float64(t4) / float64(t1)}
		for i := 0; i < 3; i++ {
			time.Sleep(time.Second)
			a, _, ok1 := timeOf(c.N)
			b, _, ok2 := timeOf(4 * c.N)
			if !ok1 || !ok2 || !suspicious(a, b) {
				res.Classes = append(res.Classes, "scaling-suspicion-not-confirmed")
				return res
			}
			ratios = append(ratios, float64(b)/float64(a))
		}
		ca, _, ok1 := timeOfFam("many-lines", c.N)
		cb, _, ok2 := timeOfFam("many-lines", 4*c.N)
		if !ok1 || !ok2 || ca <= 0 || float64(cb)/float64(ca) > 8 {
			return vh.Result{Skipped: true, Classes: []string{"inconclusive:control-family-not-linear"}}
		}
		return vh.Fail("family %s: %s CPU time grows by the factors %.1f for n=%d -> %d in four measurements (control family: %.1f): worse than quadratic growth margin", c.Family, c.Entry, ratios, c.N, 4*c.N, float64(cb)/float64(ca))
	}
	return res
}

func excluded(c Case) string { return "" }

var prop = vh.Prop[Case]{ID: "C06", Gen: genCase, Check: check, Text: func(c *Case) *string { return &c.Src }}

func TestC06(t *testing.T) { vh.Run(t, prop) }

// TestC06Scaling enumerates the size families.
func TestC06Scaling(t *testing.T) {
	i, n := vh.Shard()
	k := 0
	sizes := []int{256, 2048}
	if vh.Thorough() {
		// 4n stays at 16384: beyond that, deeply nested input is measurably
		// superlinear (the recursive parser's stack), and the judgement would
		// rest on timings of a loaded machine
		sizes = []int{256, 1024, 2048, 4096}
	}
	for _, fam := range families {
		for _, size := range sizes {
			for _, entry := range []string{"parse", "stmts"} {
				for _, lang := range []string{"bash", "posix", "zsh"} {
					k++
					if k%n != i {
						continue
					}
					vh.Each(t, prop, Case{Lang: lang, Entry: entry, Family: fam, N: size, Comments: true})
				}
			}
		}
	}
}

// FuzzC06 is the native, coverage-guided target (thorough tier only).
func FuzzC06(f *testing.F) {
	for _, s := range []string{"echo foo", "if a; then b; fi", "cat <<EOF\n$x\nEOF\n", "a=(b c) ${d[@]}", "$(a `b`)", "case x in a) ;; esac", "[[ a == b ]] && ((1+2))", "for ((;;)); do :; done"} {
		f.Add([]byte(s), uint8(0))
	}
	f.Fuzz(func(t *testing.T, data []byte, sel uint8) {
		c := Case{Src: string(data), Lang: gen.LangName(gen.Langs[int(sel)%len(gen.Langs)]), Entry: entries[int(sel/8)%len(entries)], Comments: sel&128 != 0}
		if sel&64 != 0 {
			c.Recover = 3
		}
		if fail := run(c, c.Src); fail != "" {
			t.Fatalf("%s\ncase: %+v", fail, c)
		}
	})
}

var _ = bytes.MinRead
