#!/bin/sh
# Build every check's test binary once so that later ./check runs hit the Go
# build cache. Offline: only files on disk and the module cache are used.
set -e
cd "$(dirname "$0")/h"
export GOFLAGS=-mod=mod GOPROXY=off
unset GOSUMDB
[ "$GOTOOLCHAIN" = local ] && export GOTOOLCHAIN=auto
mkdir -p ../.build
for d in c[0-9][0-9]; do
  grep -q "\"ready\": true" "$d/spec.json" 2>/dev/null || continue
  go test -c -vet=off -tags verif,verifhooks -o ../.build/$d.test ./$d || exit 1
done
git -C /repo checkout -- go.sum 2>/dev/null || true
echo setup ok
