#!/bin/bash
# usage: tools/seedeval.sh <seed dir with patch.diff> <check id>...   (development aid)
# Applies the seeded change to a scratch worktree of /repo's HEAD, runs the
# given checks against it (quick tier) and reports their exit status.
set -u
seed=$1; shift
wt=/tmp/wt-eval-$$
git -C /repo worktree add -q --detach $wt HEAD || exit 2
trap 'git -C /repo worktree remove --force $wt >/dev/null 2>&1; rm -rf /verif/.build/alt-* /verif/.build/*.$(echo -n $wt | sha1sum | cut -c1-10)*' EXIT
if ! git -C $wt apply "$seed/patch.diff" 2>/tmp/seedeval-apply.err; then
  if ! git -C $wt apply --3way "$seed/patch.diff" 2>>/tmp/seedeval-apply.err; then echo "APPLY-FAILED $(head -c 300 /tmp/seedeval-apply.err)"; exit 3; fi
fi
(cd $wt && GOFLAGS=-mod=mod GOPROXY=off go build ./... ) || { echo "BUILD-FAILED"; exit 4; }
for c in "$@"; do
  out=$(cd /verif && VERIF_REPO=$wt ${SEEDEVAL_ENV:-} ./check $c ${SEEDEVAL_ARGS:-} 2>&1)
  rc=$?
  echo "$c rc=$rc $(echo "$out" | grep -a -c '^VIOLATION') violation line(s); $(echo "$out" | grep -a "tier=" | tail -1)"
  echo "$out" | grep -a "^VIOLATION" | head -3
done
