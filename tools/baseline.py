#!/usr/bin/env python3
"""Run mvdan/sh's own test suite (guard OFF: no -tags verif) and compare the
set of passing tests with /root/.vp/BASELINE.json. Exit 0 iff every
stable_pass test still passes."""
import json, os, subprocess, sys
env = dict(os.environ, GOFLAGS="-mod=mod", GOPROXY="off")
env.pop("GOSUMDB", None)
if env.get("GOTOOLCHAIN") == "local":
    env["GOTOOLCHAIN"] = "auto"
passed, failed = set(), set()
for mod in ["/repo", "/repo/moreinterp"]:
    p = subprocess.run(["go", "test", "-json", "-vet=off", "-count=1", "-timeout", "25m", "./..."], cwd=mod, env=env, capture_output=True, text=True)
    for line in p.stdout.splitlines():
        try:
            ev = json.loads(line)
        except ValueError:
            continue
        if ev.get("Test") and ev.get("Action") in ("pass", "fail"):
            key = ev["Package"] + "::" + ev["Test"]
            (passed if ev["Action"] == "pass" else failed).add(key)
subprocess.run(["git", "-C", "/repo", "checkout", "--", "go.sum", "moreinterp/go.sum"], capture_output=True)
base = json.load(open("/root/.vp/BASELINE.json"))
want = set(base["stable_pass"])
missing = sorted(want - passed)
print("passed=%d failed=%d baseline=%d missing=%d" % (len(passed), len(failed), len(want), len(missing)))
for m in missing[:40]:
    print("  MISSING", m, "(failed)" if m in failed else "(not run)")
sys.exit(1 if missing else 0)
