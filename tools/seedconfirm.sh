#!/bin/bash
# usage: tools/seedconfirm.sh <seed dir>   (development aid)
# Confirms a seeded change independently of its author, in a scratch worktree
# of /repo's HEAD: it applies, builds and vets; the repository's test suite
# fails nothing beyond the sandbox's known root/load failures; the
# demonstration fails with the change and passes without it.
# Writes <seed dir>/confirm.json and prints one summary line.
set -u
seed=$(readlink -f "$1")
id=$(basename "$seed")
wt=/tmp/wt-confirm-$id
export GOFLAGS=-mod=mod GOPROXY=off
git -C /repo worktree remove --force $wt >/dev/null 2>&1
git -C /repo worktree add -q --detach $wt HEAD || exit 2
trap 'git -C /repo worktree remove --force $wt >/dev/null 2>&1' EXIT
cd $wt
applied=plain
if ! git apply "$seed/patch.diff" 2>/dev/null; then
  applied=3way
  git apply --3way "$seed/patch.diff" 2>/dev/null || { echo "$id APPLY-FAILED"; exit 3; }
  git reset -q
fi
git diff > /tmp/wt-confirm-$id.diff
build=ok; go build ./... >/dev/null 2>&1 || build=FAIL
vet=ok; go vet ./... >/dev/null 2>&1 || vet=FAIL
demo=$(python3 -c "
import json,re,sys
c=json.load(open('$seed/meta.json'))['demo']['how_to_run']
c=re.split(r'\s+#|\s*;\s+|\s\s+\(|\s+\(exit', c)[0]
print(c)")
(eval "$demo") >$seed/confirm_demo_with.txt 2>&1; with=$?
git apply -R /tmp/wt-confirm-$id.diff
(eval "$demo") >$seed/confirm_demo_without.txt 2>&1; without=$?
git clean -fdq; git checkout -q -- .
git apply /tmp/wt-confirm-$id.diff
# suite: failing tests, minus the known root-only and load-dependent ones
go test -p 2 -vet=off -count=1 ./... >$seed/confirm_suite.txt 2>&1
fails=$(grep -a -- '--- FAIL' $seed/confirm_suite.txt | sed 's/ (.*//; s/.*FAIL: //' | grep -a -v -E '^TestRunnerRun$|TestRunnerRun/#13(17|18|19|20|21)$|^TestParseConfirm|^TestKillSignal|^TestRunnerNonFileStdin|^TestRunnerContext' | sort -u)
rerun=""
for t in $fails; do
  pk=$(grep -a -l "func ${t%%/*}(" */*_test.go */*/*_test.go 2>/dev/null | head -1 | xargs -r dirname)
  [ -z "$pk" ] && { rerun="$rerun $t:nopkg"; continue; }
  if go test -vet=off -count=1 -run "^$(echo $t | sed 's,/,$/^,g')\$" ./$pk >/dev/null 2>&1; then :; else
    # compare with the unchanged tree
    git apply -R /tmp/wt-confirm-$id.diff
    if go test -vet=off -count=1 -run "^$(echo $t | sed 's,/,$/^,g')\$" ./$pk >/dev/null 2>&1; then rerun="$rerun $t:REGRESSION"; else rerun="$rerun $t:fails-unchanged-too"; fi
    git apply /tmp/wt-confirm-$id.diff
  fi
done
python3 - <<EOF
import json
json.dump({"seed":"$id","repo_head":"$(git -C /repo rev-parse --short HEAD)","applied":"$applied","build":"$build","vet":"$vet",
 "demo_command":"""$demo""","demo_exit_with_change":$with,"demo_exit_without_change":$without,
 "suite_failures_outside_known_flaky":"""$fails""".split(),"suite_failures_rerun_alone_still_failing":"""$rerun""".split()},open("$seed/confirm.json","w"),indent=1)
EOF
echo "$id applied=$applied build=$build vet=$vet demo_with=$with demo_without=$without suite_extra_fail=[$(echo $fails | tr '\n' ' ')] rerun=[$rerun]"
rm -f /tmp/wt-confirm-$id.diff
