#!/usr/bin/env python3
"""Regenerate the findings tables of DESIGN.md (between the FINDINGS markers)
from known_findings.json, and refresh the commit hashes of fixed entries from
the subject lines of the fix: commits in /repo."""
import json, os, re, subprocess
V = os.path.dirname(os.path.dirname(os.path.abspath(__file__)))
kf = json.load(open(os.path.join(V, "known_findings.json")))
log = subprocess.run(["git", "-C", "/repo", "log", "--format=%h\t%s"], capture_output=True, text=True).stdout.splitlines()
subjects = {l.split("\t", 1)[0]: l.split("\t", 1)[1] for l in log if "\t" in l}
# refresh hashes: entries remember their subject once seen
for e in kf["findings"]:
    if e.get("status") != "fixed":
        continue
    subj = e.get("commit_subject") or subjects.get(e.get("commit", ""))
    if subj:
        e["commit_subject"] = subj
        for h, s in subjects.items():
            if s == subj and h != e.get("commit"):
                e["line"] = e.get("line", "").replace(e["commit"], h)
                e["commit"] = h
json.dump(kf, open(os.path.join(V, "known_findings.json"), "w"), indent=1, ensure_ascii=False)
open(os.path.join(V, "known_findings.json"), "a").write("\n")
fixed = [e for e in kf["findings"] if e.get("status") == "fixed"]
known = [e for e in kf["findings"] if e.get("status") == "known"]
out = []
out.append("#### Fixed in /repo (%d entries; one `fix:` commit each, some commits cover several entries)\n" % len(fixed))
out.append("| property | id | commit | what failed | regress file |")
out.append("|---|---|---|---|---|")
for e in sorted(fixed, key=lambda e: (e["property"], e["id"])):
    out.append("| %s | %s | %s | %s | %s |" % (e["property"], e["id"], e.get("commit", ""), e["what"].replace("|", "\\|").replace("\n", " ")[:300], e.get("replay", "")))
out.append("")
out.append("#### Known, not repaired (%d entries; each is also the switch of an exclusion class)\n" % len(known))
out.append("| property | id | what fails | replay |")
out.append("|---|---|---|---|")
for e in sorted(known, key=lambda e: (e["property"], e["id"])):
    out.append("| %s | %s | %s | %s |" % (e["property"], e["id"], e["what"].replace("|", "\\|").replace("\n", " ")[:300], e.get("replay", "")))
text = "\n".join(out) + "\n"
p = os.path.join(V, "DESIGN.md")
s = open(p).read()
b, e_ = "<!-- FINDINGS:BEGIN -->", "<!-- FINDINGS:END -->"
if b in s:
    s = s[: s.index(b) + len(b)] + "\n" + text + s[s.index(e_):]
    open(p, "w").write(s)
print("fixed", len(fixed), "known", len(known))
