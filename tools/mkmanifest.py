#!/usr/bin/env python3
"""Regenerate /verif/MANIFEST.json from h/cNN/spec.json files and validate it."""
import glob, json, os, subprocess, sys
V = os.path.dirname(os.path.dirname(os.path.abspath(__file__)))
props = [json.loads(l)["id"] for l in open(os.path.join(V, "properties.jsonl")) if l.strip()]
checks, claimed = [], set()
for path in sorted(glob.glob(os.path.join(V, "h", "c[0-9][0-9]", "spec.json"))):
    s = json.load(open(path))
    if s.get("disabled") or not s.get("ready"):
        continue
    pid = s["property"]
    claimed.add(pid)
    checks.append({
        "property_id": pid,
        "quick_cmd": "./check %s --tier quick" % pid,
        "thorough_cmd": "./check %s --tier thorough" % pid,
        "evidence_file": "/verif/evidence/%s.json" % pid,
        "replay_cmd_template": "./check %s --replay {path}" % pid,
        "engine": "verifh",
        "level_claimed": {"category": s.get("level", "exploration"), "text": s["level_text"], "design_ref": s.get("design_ref", "DESIGN.md §3 " + pid)},
        "level_note": s["level_note"],
        "technique": s["technique"],
    })
na_path = os.path.join(V, "not_applicable.json")
na = json.load(open(na_path)) if os.path.exists(na_path) else {}
not_app = []
for pid in props:
    if pid not in claimed:
        not_app.append({"property_id": pid, "reason": na.get(pid, "check not built yet (work in progress); the technique applies, see DESIGN.md §3 " + pid)})
hooks_path = os.path.join(V, "MANIFEST.hooks")
commits = []
if os.path.exists(hooks_path):
    commits = [l.split()[0] for l in open(hooks_path) if l.strip() and not l.startswith("#")]
m = {
    "version": 1,
    "setup_cmd": "./setup.sh",
    "hooks": {
        "guard": "verif",
        "enable": "go build/test -tags verif (the driver ./check always passes -tags verif; files interp/verif_on.go vs interp/verif_off.go)",
        "baseline_off_cmd": "cd /repo && GOFLAGS=-mod=mod go test -vet=off -count=1 -timeout 25m ./... && cd moreinterp && GOFLAGS=-mod=mod go test -vet=off -count=1 -timeout 25m ./...",
        "source_commits": commits,
        "add_only": True,
    },
    "engines": [{"name": "verifh", "path": "/verif/h", "serves_properties": sorted(claimed),
                 "kind_free_text": "Go module of property-based tests (pgregory.net/rapid v1.3.0 generators, state machines, exhaustive small-domain enumerations, native go fuzz targets in the thorough tier) compiled against /repo's working tree through a replace directive; bash 5.2 and dash 0.5.12 as differential oracles; driven by /verif/check"}],
    "checks": checks,
    "not_applicable": not_app,
    "notes": "All checks are property-based tests or fuzzers with explicit oracles; see DESIGN.md. Known genuine defects are listed in known_findings.json.",
}
out = os.path.join(V, "MANIFEST.json")
json.dump(m, open(out, "w"), indent=1)
open(out, "a").write("\n")
try:
    r = subprocess.run(["python3-vt", "-c", "import json,jsonschema,sys; jsonschema.validate(json.load(open(sys.argv[1])), json.load(open('/root/.vp/MANIFEST.schema.json'))); print('manifest valid')", out], capture_output=True, text=True)
    print(r.stdout.strip() or r.stderr.strip()[-500:])
except FileNotFoundError:
    print("python3-vt not found; manifest not validated")
print("claimed:", len(claimed), "not_applicable:", len(not_app))
